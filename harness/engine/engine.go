// Package engine steps TLC-generated behaviours through the real code via
// per-module adapters and records what the real code did as an ndjson trace,
// which the orchestrator hands back to TLC for validation against the trace spec.
package engine

import (
	"bufio"
	"encoding/json"
	"fmt"
	"math/rand"
	"os"
	"path/filepath"
	"runtime/debug"
	"sort"
	"strings"

	"verifharness/tla"
)

// Step is one transition of a behaviour.
type Step struct {
	Act       tla.Action
	pre, post string
}

func (s Step) Pre() map[string]tla.Value  { return mustState(s.pre) }
func (s Step) Post() map[string]tla.Value { return mustState(s.post) }

func mustState(s string) map[string]tla.Value {
	m, err := tla.ParseState(s)
	if err != nil {
		panic(err)
	}
	return m
}

// Behaviour is an initial state and a sequence of steps.
type Behaviour struct {
	init  string
	Steps []Step
}

func (b Behaviour) Init() map[string]tla.Value { return mustState(b.init) }

// Fields is what an adapter logs for one event.
type Fields map[string]interface{}

// Adapter binds one specification module to the real code.
type Adapter interface {
	// Reset creates a fresh real system for the given initial spec state and
	// returns fields to log in the "reset" event.
	Reset(init map[string]tla.Value) (Fields, error)
	// Apply performs the real operation(s) of one spec action and returns the
	// observed results / post-state scalars to log.  An error is a harness
	// failure (exit 2); a panic of the code under test is logged as "panic".
	Apply(s Step) (Fields, error)
	Close()
}

var registry = map[string]func() Adapter{}

func Register(name string, f func() Adapter) { registry[name] = f }

func Lookup(name string) (func() Adapter, bool) { f, ok := registry[name]; return f, ok }

func Names() []string {
	var out []string
	for k := range registry {
		out = append(out, k)
	}
	sort.Strings(out)
	return out
}

// Tours covers every edge of the graph by behaviours of at most maxLen steps:
// follow unexplored edges greedily, walk explored edges to the nearest state
// with an unexplored one, start over from an initial state when none is
// reachable or the behaviour is long enough.
func Tours(g *tla.Graph, seed int64, maxLen int) []Behaviour {
	rng := rand.New(rand.NewSource(seed))
	used := make([]bool, len(g.Edges))
	remaining := len(g.Edges)
	out := make([][]int, len(g.Out))
	for n := range g.Out {
		out[n] = append([]int(nil), g.Out[n]...)
		rng.Shuffle(len(out[n]), func(i, j int) { out[n][i], out[n][j] = out[n][j], out[n][i] })
	}
	nextUnused := func(n int) int {
		for len(out[n]) > 0 {
			e := out[n][len(out[n])-1]
			if !used[e] {
				return e
			}
			out[n] = out[n][:len(out[n])-1]
		}
		return -1
	}
	// BFS over all edges from n to the nearest node with an unused out-edge (epoch-stamped arrays)
	prev := make([]int32, len(g.Out))
	depth := make([]int32, len(g.Out))
	stamp := make([]int32, len(g.Out))
	var epoch int32
	dead := make([]bool, len(g.Out)) // no unused edge reachable from here any more
	pathTo := func(n int, budget int) []int {
		epoch++
		stamp[n], prev[n], depth[n] = epoch, -1, 0
		queue := []int{n}
		for qi := 0; qi < len(queue); qi++ {
			x := queue[qi]
			if x != n && nextUnused(x) >= 0 {
				var path []int
				for y := x; prev[y] >= 0; y = g.Edges[prev[y]].From {
					path = append(path, int(prev[y]))
				}
				for i, j := 0, len(path)-1; i < j; i, j = i+1, j-1 {
					path[i], path[j] = path[j], path[i]
				}
				return path
			}
			if int(depth[x]) >= budget {
				continue
			}
			for _, e := range g.Out[x] {
				t := g.Edges[e].To
				if stamp[t] != epoch && !dead[t] {
					stamp[t], prev[t], depth[t] = epoch, int32(e), depth[x]+1
					queue = append(queue, t)
				}
			}
		}
		if budget >= len(g.Out) { // exhaustive search found nothing: everything visited is dead
			for _, x := range queue {
				dead[x] = true
			}
		}
		return nil
	}
	mk := func(init int, es []int) Behaviour {
		b := Behaviour{init: g.Labels[init]}
		for _, e := range es {
			a, err := tla.ParseAction(g.Edges[e].Label)
			if err != nil {
				panic(err)
			}
			b.Steps = append(b.Steps, Step{Act: a, pre: g.Labels[g.Edges[e].From], post: g.Labels[g.Edges[e].To]})
		}
		return b
	}
	var res []Behaviour
	if len(g.Init) == 0 {
		return res
	}
	initOrder := append([]int(nil), g.Init...)
	rng.Shuffle(len(initOrder), func(i, j int) { initOrder[i], initOrder[j] = initOrder[j], initOrder[i] })
	ii := 0
	for remaining > 0 {
		init := initOrder[ii%len(initOrder)]
		ii++
		cur := init
		var es []int
		progressed := false
		for len(es) < maxLen {
			e := nextUnused(cur)
			if e < 0 {
				p := pathTo(cur, len(g.Out))
				if p == nil || len(es)+len(p) >= maxLen {
					break
				}
				es = append(es, p...)
				cur = g.Edges[p[len(p)-1]].To
				continue
			}
			used[e] = true
			remaining--
			progressed = true
			es = append(es, e)
			cur = g.Edges[e].To
		}
		if progressed {
			res = append(res, mk(init, es))
		} else if ii > 4*len(initOrder)+len(g.Edges) {
			break // unreachable leftovers (should not happen: TLC graphs are reachable from Init)
		}
	}
	return res
}

// SimBehaviours loads behaviours from `tlc -simulate file=prefix` output.
func SimBehaviours(glob string) ([]Behaviour, error) {
	files, err := filepath.Glob(glob)
	if err != nil {
		return nil, err
	}
	sort.Strings(files)
	var out []Behaviour
	for _, f := range files {
		steps, err := tla.LoadSim(f)
		if err != nil {
			return nil, err
		}
		if len(steps) == 0 {
			continue
		}
		b := Behaviour{init: steps[0].State}
		for i := 1; i < len(steps); i++ {
			a, err := tla.ParseAction(steps[i].Label)
			if err != nil {
				return nil, fmt.Errorf("%s: %v", f, err)
			}
			b.Steps = append(b.Steps, Step{Act: a, pre: steps[i-1].State, post: steps[i].State})
		}
		out = append(out, b)
	}
	return out, nil
}

// Summary is what a replay run reports to the orchestrator.
type Summary struct {
	Adapter      string         `json:"adapter"`
	Behaviours   int            `json:"behaviours"`
	Steps        int            `json:"steps"`
	GraphEdges   int            `json:"graph_edges"`
	GraphNodes   int            `json:"graph_nodes"`
	DistinctActs int            `json:"distinct_action_instances"`
	ActionCounts map[string]int `json:"action_counts"`
	Panics       int            `json:"panics"`
	Samples      []interface{}  `json:"samples"`
	Lines        int            `json:"lines"`
}

// Run executes the behaviours of this shard on the adapter and writes the trace.
func Run(name string, behs []Behaviour, shard, nshard int, outPath string) (*Summary, error) {
	return RunIndexed(name, behs, nil, shard, nshard, outPath)
}

// RunIndexed is Run with the global index of every behaviour given explicitly (behaviour files).
func RunIndexed(name string, behs []Behaviour, index []int, shard, nshard int, outPath string) (*Summary, error) {
	mk, ok := Lookup(name)
	if !ok {
		return nil, fmt.Errorf("unknown adapter %q (have %s)", name, strings.Join(Names(), " "))
	}
	f, err := os.Create(outPath)
	if err != nil {
		return nil, err
	}
	defer f.Close()
	w := bufio.NewWriterSize(f, 1<<20)
	defer w.Flush()
	enc := json.NewEncoder(w)
	sum := &Summary{Adapter: name, ActionCounts: map[string]int{}}
	distinct := map[string]bool{}
	ad := mk()
	defer ad.Close()
	emit := func(ev string, beh, step int, act *tla.Action, fl Fields) error {
		if fl == nil {
			fl = Fields{}
		}
		fl["ev"] = ev
		fl["beh"] = beh
		fl["step"] = step
		if act != nil {
			args := make([]interface{}, len(act.Args))
			for i, a := range act.Args {
				args[i] = a.JSON()
			}
			fl["a"] = args
		}
		sum.Lines++
		return enc.Encode(fl)
	}
	for li, b := range behs {
		bi := li
		if index != nil {
			bi = index[li]
		} else if li%nshard != shard {
			continue
		}
		fl, perr, err := safeReset(ad, b.Init())
		if err != nil {
			return nil, fmt.Errorf("behaviour %d reset: %v", bi, err)
		}
		if perr != "" {
			if fl == nil {
				fl = Fields{}
			}
			fl["panic"] = perr
			sum.Panics++
		}
		if err := emit("reset", bi, 0, nil, fl); err != nil {
			return nil, err
		}
		sum.Behaviours++
		if perr != "" {
			continue // the scenario could not even be set up on the real code: recorded, never consumable
		}
		var sample []string
		for si, s := range b.Steps {
			fl, perr, err := safeApply(ad, s)
			if err != nil {
				return nil, fmt.Errorf("behaviour %d step %d %s: %v", bi, si, s.Act, err)
			}
			if perr != "" {
				if fl == nil {
					fl = Fields{}
				}
				fl["panic"] = perr
				sum.Panics++
			}
			if err := emit(s.Act.Name, bi, si+1, &s.Act, fl); err != nil {
				return nil, err
			}
			sum.Steps++
			sum.ActionCounts[s.Act.Name]++
			distinct[s.Act.String()] = true
			if len(sum.Samples) < 3 {
				sample = append(sample, s.Act.String())
			}
			if perr != "" {
				break // the real system is in an unknown state after a panic
			}
		}
		if len(sum.Samples) < 3 && len(sample) > 0 {
			sum.Samples = append(sum.Samples, sample)
		}
	}
	sum.DistinctActs = len(distinct)
	return sum, nil
}

func safeApply(ad Adapter, s Step) (fl Fields, panicMsg string, err error) {
	defer func() {
		if r := recover(); r != nil {
			if he, ok := r.(HarnessError); ok {
				err = he
				return
			}
			panicMsg = fmt.Sprintf("%v\n%s", r, debug.Stack())
			if len(panicMsg) > 1500 {
				panicMsg = panicMsg[:1500]
			}
		}
	}()
	fl, err = ad.Apply(s)
	return
}

func safeReset(ad Adapter, init map[string]tla.Value) (fl Fields, panicMsg string, err error) {
	defer func() {
		if r := recover(); r != nil {
			if he, ok := r.(HarnessError); ok {
				err = he
				return
			}
			panicMsg = fmt.Sprintf("%v\n%s", r, debug.Stack())
			if len(panicMsg) > 1500 {
				panicMsg = panicMsg[:1500]
			}
		}
	}()
	fl, err = ad.Reset(init)
	return
}

// HarnessError distinguishes a bug in the harness (exit 2) from a panic of the code under test.
type HarnessError struct{ Msg string }

func (h HarnessError) Error() string { return h.Msg }

// Failf aborts the replay with a harness failure.
func Failf(f string, a ...interface{}) { panic(HarnessError{fmt.Sprintf(f, a...)}) }

// Realf reports that the REAL code refused or failed an honest operation the scenario rests on (an honest miner cannot
// build on its own chain, an honest validator refuses an honest block, ...).  It is recorded in the trace as a line with
// a `panic` field, which no trace spec can consume: the verdict is a violation with that line as its replay, not a
// harness failure.
func Realf(f string, a ...interface{}) { panic("REAL-CODE FAILURE in an honest scenario: " + fmt.Sprintf(f, a...)) }

// Driver is a recording driver: it runs the real code on its own (seeded,
// concurrent, …) and writes an ndjson trace for the trace spec.
type Driver func(args []string) error

var drivers = map[string]Driver{}

func RegisterDriver(name string, d Driver) { drivers[name] = d }

func LookupDriver(name string) (Driver, bool) { d, ok := drivers[name]; return d, ok }

func DriverNames() []string {
	var out []string
	for k := range drivers {
		out = append(out, k)
	}
	sort.Strings(out)
	return out
}

// ---- behaviour files: tours are computed once (vh tours) and executed by shards (vh replay -beh) ----

type behFileState struct {
	State int    `json:"state"`
	Text  string `json:"text"`
}

type behFileBeh struct {
	Init  int             `json:"init"`
	Steps [][]interface{} `json:"steps"` // [label, post state index]
}

// WriteBehaviours writes behaviours shard by shard: file i gets behaviours with index%n == i.
func WriteBehaviours(prefix string, behs []Behaviour, n int) ([]string, error) {
	var files []string
	for sh := 0; sh < n; sh++ {
		path := fmt.Sprintf("%s.%d.beh", prefix, sh)
		f, err := os.Create(path)
		if err != nil {
			return nil, err
		}
		w := bufio.NewWriterSize(f, 1<<20)
		enc := json.NewEncoder(w)
		idx := map[string]int{}
		st := func(s string) int {
			if i, ok := idx[s]; ok {
				return i
			}
			i := len(idx)
			idx[s] = i
			enc.Encode(behFileState{State: i, Text: s})
			return i
		}
		for bi, b := range behs {
			if bi%n != sh {
				continue
			}
			rec := behFileBeh{Init: st(b.init), Steps: [][]interface{}{}}
			for _, s := range b.Steps {
				rec.Steps = append(rec.Steps, []interface{}{s.Act.String(), st(s.post)})
			}
			enc.Encode(map[string]interface{}{"beh": rec, "index": bi})
		}
		if err := w.Flush(); err != nil {
			return nil, err
		}
		f.Close()
		files = append(files, path)
	}
	return files, nil
}

// ReadBehaviours reads one behaviour file; returns the behaviours and their global indices.
func ReadBehaviours(path string) ([]Behaviour, []int, error) {
	f, err := os.Open(path)
	if err != nil {
		return nil, nil, err
	}
	defer f.Close()
	sc := bufio.NewScanner(f)
	sc.Buffer(make([]byte, 1<<20), 1<<28)
	states := map[int]string{}
	var out []Behaviour
	var index []int
	for sc.Scan() {
		var raw map[string]json.RawMessage
		if err := json.Unmarshal(sc.Bytes(), &raw); err != nil {
			return nil, nil, err
		}
		if _, ok := raw["state"]; ok {
			var s behFileState
			json.Unmarshal(sc.Bytes(), &s)
			states[s.State] = s.Text
			continue
		}
		var rec behFileBeh
		if err := json.Unmarshal(raw["beh"], &rec); err != nil {
			return nil, nil, err
		}
		var gi int
		json.Unmarshal(raw["index"], &gi)
		b := Behaviour{init: states[rec.Init]}
		prev := b.init
		for _, st := range rec.Steps {
			a, err := tla.ParseAction(st[0].(string))
			if err != nil {
				return nil, nil, err
			}
			post := states[int(st[1].(float64))]
			b.Steps = append(b.Steps, Step{Act: a, pre: prev, post: post})
			prev = post
		}
		out = append(out, b)
		index = append(index, gi)
	}
	return out, index, sc.Err()
}
