package tla

import (
	"bufio"
	"fmt"
	"os"
	"regexp"
	"strings"
)

var simLoc = regexp.MustCompile(` line \d+, col \d+ to line \d+, col \d+ of module \w+>?\s*$`)

// Edge is one labelled transition of a dumped state graph.
type Edge struct {
	From, To int
	Label    string
}

// Graph is a state graph written by `tlc -dump dot,actionlabels`.
type Graph struct {
	IDs    []string       // node index -> TLC fingerprint
	Index  map[string]int // fingerprint -> node index
	Labels []string       // raw (unescaped) state text per node
	Init   []int
	Edges  []Edge
	Out    [][]int // node -> indices into Edges
}

func unescapeDot(s string) string {
	var sb strings.Builder
	for i := 0; i < len(s); i++ {
		if s[i] == '\\' && i+1 < len(s) {
			i++
			switch s[i] {
			case 'n':
				sb.WriteByte('\n')
			default:
				sb.WriteByte(s[i])
			}
			continue
		}
		sb.WriteByte(s[i])
	}
	return sb.String()
}

// label extracts the label="..." attribute (handles escaped quotes).
func dotLabel(line string) (string, bool) {
	i := strings.Index(line, "[label=\"")
	if i < 0 {
		return "", false
	}
	j := i + len("[label=\"")
	k := j
	for k < len(line) {
		if line[k] == '\\' {
			k += 2
			continue
		}
		if line[k] == '"' {
			break
		}
		k++
	}
	if k >= len(line) {
		return "", false
	}
	return unescapeDot(line[j:k]), true
}

// LoadDot reads a TLC dot dump (self loops are kept: they are actions that leave the state unchanged).
func LoadDot(path string) (*Graph, error) {
	f, err := os.Open(path)
	if err != nil {
		return nil, err
	}
	defer f.Close()
	g := &Graph{Index: map[string]int{}}
	node := func(id string) int {
		if n, ok := g.Index[id]; ok {
			return n
		}
		n := len(g.IDs)
		g.IDs = append(g.IDs, id)
		g.Labels = append(g.Labels, "")
		g.Index[id] = n
		return n
	}
	sc := bufio.NewScanner(f)
	sc.Buffer(make([]byte, 1<<20), 1<<28)
	for sc.Scan() {
		line := sc.Text()
		if len(line) == 0 || !(line[0] == '-' || (line[0] >= '0' && line[0] <= '9')) {
			continue
		}
		sp := strings.IndexByte(line, ' ')
		if sp < 0 {
			continue
		}
		id := line[:sp]
		rest := line[sp+1:]
		if strings.HasPrefix(rest, "-> ") {
			rest = rest[3:]
			sp2 := strings.IndexByte(rest, ' ')
			if sp2 < 0 {
				continue
			}
			to := rest[:sp2]
			lab, ok := dotLabel(rest)
			if !ok {
				return nil, fmt.Errorf("dot: edge without label: %s", line)
			}
			a, b := node(id), node(to)
			g.Edges = append(g.Edges, Edge{From: a, To: b, Label: lab})
			continue
		}
		lab, ok := dotLabel(rest)
		if !ok {
			continue
		}
		n := node(id)
		g.Labels[n] = lab
		if strings.Contains(rest, "style = filled") {
			g.Init = append(g.Init, n)
		}
	}
	if err := sc.Err(); err != nil {
		return nil, err
	}
	g.Out = make([][]int, len(g.IDs))
	for i, e := range g.Edges {
		g.Out[e.From] = append(g.Out[e.From], i)
	}
	return g, nil
}

// SimStep is one state of a simulation file together with the action that produced it.
type SimStep struct {
	Label string // "Init" for the first one
	State string
}

// LoadSim reads one behaviour written by `tlc -simulate file=...`.
func LoadSim(path string) ([]SimStep, error) {
	b, err := os.ReadFile(path)
	if err != nil {
		return nil, err
	}
	var out []SimStep
	lines := strings.Split(string(b), "\n")
	for i := 0; i < len(lines); i++ {
		ln := lines[i]
		if !strings.HasPrefix(ln, "\\* <") {
			continue
		}
		lab := ln[4:]
		// "<Act(args) line 68, col 3 to line 73, col 64 of module M>": cut at the location suffix
		if m := simLoc.FindStringIndex(lab); m != nil {
			lab = lab[:m[0]]
		}
		var st []string
		i += 2 // skip STATE_n ==
		for i < len(lines) && strings.TrimSpace(lines[i]) != "" && !strings.HasPrefix(lines[i], "====") {
			st = append(st, lines[i])
			i++
		}
		out = append(out, SimStep{Label: lab, State: strings.Join(st, "\n")})
	}
	return out, nil
}
