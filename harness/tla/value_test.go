package tla

import "testing"

func TestParse(t *testing.T) {
	for _, s := range []string{`{}`, `<<>>`, `{1, 2}`, `<<[a |-> "b", b |-> {1, 2}]>>`, `(1 :> "x" @@ 2 :> {})`, `-3`, `TRUE`, `m1`, `[a |-> <<1, "q\"x">>]`} {
		v, err := Parse(s)
		if err != nil {
			t.Fatal(s, err)
		}
		t.Log(v.String())
	}
	a, err := ParseAction(`Add("b",{1, 2})`)
	if err != nil || a.Name != "Add" || len(a.Args) != 2 || a.Args[1].Len() != 2 {
		t.Fatal(a, err)
	}
	a, err = ParseAction(`Tick`)
	if err != nil || a.Name != "Tick" || len(a.Args) != 0 {
		t.Fatal(a, err)
	}
	st, err := ParseState("/\\ q = <<>>\n/\\ s = {\"a\"}")
	if err != nil || st["s"].Len() != 1 {
		t.Fatal(st, err)
	}
	if v := MustParse("1..3"); v.Len() != 3 {
		t.Fatal(v)
	}
}
