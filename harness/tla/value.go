// Package tla parses the textual TLA+ values, state-graph dumps and simulation
// files that TLC writes, so that behaviours of a specification can be stepped
// through the real code.
package tla

import (
	"encoding/json"
	"fmt"
	"sort"
	"strconv"
	"strings"
)

type Kind int

const (
	KInt Kind = iota
	KStr
	KBool
	KSet
	KSeq
	KRec
	KFun
	KModel
)

// Value is a parsed TLA+ value.
type Value struct {
	Kind   Kind
	Int    int64
	Str    string // KStr, KModel
	Bool   bool
	Elems  []Value          // KSet, KSeq
	Fields map[string]Value // KRec
	Keys   []Value          // KFun (parallel to Vals)
	Vals   []Value
}

func (v Value) I() int         { return int(v.Int) }
func (v Value) S() string      { return v.Str }
func (v Value) B() bool        { return v.Bool }
func (v Value) Len() int       { return len(v.Elems) }
func (v Value) At(i int) Value { return v.Elems[i] } // 0-based
func (v Value) F(name string) Value {
	if v.Kind == KRec {
		return v.Fields[name]
	}
	if v.Kind == KFun {
		for i, k := range v.Keys {
			if k.Kind == KStr && k.Str == name {
				return v.Vals[i]
			}
		}
	}
	panic("tla: no field " + name + " in " + v.String())
}

// Has reports whether a record/function has the key.
func (v Value) Has(name string) bool {
	if v.Kind == KRec {
		_, ok := v.Fields[name]
		return ok
	}
	return false
}

// Get applies a function/sequence/record value to an argument.
func (v Value) Get(k Value) (Value, bool) {
	switch v.Kind {
	case KFun:
		for i, kk := range v.Keys {
			if Equal(kk, k) {
				return v.Vals[i], true
			}
		}
	case KSeq:
		if k.Kind == KInt && k.Int >= 1 && int(k.Int) <= len(v.Elems) {
			return v.Elems[k.Int-1], true
		}
	case KRec:
		if k.Kind == KStr {
			x, ok := v.Fields[k.Str]
			return x, ok
		}
	}
	return Value{}, false
}

// GetI applies a function or sequence to an integer.
func (v Value) GetI(i int) Value {
	x, ok := v.Get(Int(i))
	if !ok {
		panic(fmt.Sprintf("tla: %s not applicable to %d", v.String(), i))
	}
	return x
}

func Int(i int) Value    { return Value{Kind: KInt, Int: int64(i)} }
func Str(s string) Value { return Value{Kind: KStr, Str: s} }

// Ints returns the elements of a set/sequence of integers.
func (v Value) Ints() []int {
	out := make([]int, 0, len(v.Elems))
	for _, e := range v.Elems {
		out = append(out, int(e.Int))
	}
	return out
}

// Strs returns the elements of a set/sequence of strings.
func (v Value) Strs() []string {
	out := make([]string, 0, len(v.Elems))
	for _, e := range v.Elems {
		out = append(out, e.Str)
	}
	return out
}

func Equal(a, b Value) bool { return a.String() == b.String() }

// String renders the value in a canonical TLA+-like syntax (sets sorted).
func (v Value) String() string {
	var sb strings.Builder
	v.write(&sb)
	return sb.String()
}

func (v Value) write(sb *strings.Builder) {
	switch v.Kind {
	case KInt:
		sb.WriteString(strconv.FormatInt(v.Int, 10))
	case KStr:
		sb.WriteString(strconv.Quote(v.Str))
	case KModel:
		sb.WriteString(v.Str)
	case KBool:
		if v.Bool {
			sb.WriteString("TRUE")
		} else {
			sb.WriteString("FALSE")
		}
	case KSet:
		ss := make([]string, len(v.Elems))
		for i, e := range v.Elems {
			ss[i] = e.String()
		}
		sort.Strings(ss)
		sb.WriteString("{" + strings.Join(ss, ", ") + "}")
	case KSeq:
		sb.WriteString("<<")
		for i, e := range v.Elems {
			if i > 0 {
				sb.WriteString(", ")
			}
			e.write(sb)
		}
		sb.WriteString(">>")
	case KRec:
		ks := make([]string, 0, len(v.Fields))
		for k := range v.Fields {
			ks = append(ks, k)
		}
		sort.Strings(ks)
		sb.WriteString("[")
		for i, k := range ks {
			if i > 0 {
				sb.WriteString(", ")
			}
			sb.WriteString(k + " |-> ")
			v.Fields[k].write(sb)
		}
		sb.WriteString("]")
	case KFun:
		ss := make([]string, len(v.Keys))
		for i := range v.Keys {
			ss[i] = v.Keys[i].String() + " :> " + v.Vals[i].String()
		}
		sort.Strings(ss)
		sb.WriteString("(" + strings.Join(ss, " @@ ") + ")")
	}
}

// JSON converts the value to a plain Go value for encoding/json: sets and
// sequences become arrays, records objects, functions objects keyed by the
// canonical text of the key (strings unquoted).
func (v Value) JSON() interface{} {
	switch v.Kind {
	case KInt:
		return v.Int
	case KStr, KModel:
		return v.Str
	case KBool:
		return v.Bool
	case KSet, KSeq:
		out := make([]interface{}, len(v.Elems))
		for i, e := range v.Elems {
			out[i] = e.JSON()
		}
		return out
	case KRec:
		out := map[string]interface{}{}
		for k, e := range v.Fields {
			out[k] = e.JSON()
		}
		return out
	case KFun:
		out := map[string]interface{}{}
		for i, k := range v.Keys {
			ks := k.String()
			if k.Kind == KStr {
				ks = k.Str
			}
			out[ks] = v.Vals[i].JSON()
		}
		return out
	}
	return nil
}

func (v Value) MarshalJSON() ([]byte, error) { return json.Marshal(v.JSON()) }

type parser struct {
	s string
	p int
}

// Parse parses one TLA+ value as printed by TLC.
func Parse(s string) (Value, error) {
	p := &parser{s: s}
	v, err := p.value()
	if err != nil {
		return v, err
	}
	p.ws()
	if p.p != len(p.s) {
		return v, fmt.Errorf("tla: trailing input at %d in %q", p.p, s)
	}
	return v, nil
}

func MustParse(s string) Value {
	v, err := Parse(s)
	if err != nil {
		panic(err)
	}
	return v
}

func (p *parser) ws() {
	for p.p < len(p.s) && (p.s[p.p] == ' ' || p.s[p.p] == '\n' || p.s[p.p] == '\t' || p.s[p.p] == '\r') {
		p.p++
	}
}

func (p *parser) has(t string) bool {
	p.ws()
	return strings.HasPrefix(p.s[p.p:], t)
}

func (p *parser) eat(t string) bool {
	if p.has(t) {
		p.p += len(t)
		return true
	}
	return false
}

func (p *parser) errf(f string, a ...interface{}) error {
	lo := p.p - 20
	if lo < 0 {
		lo = 0
	}
	hi := p.p + 20
	if hi > len(p.s) {
		hi = len(p.s)
	}
	return fmt.Errorf("tla: "+f+" at %d near %q", append(a, p.p, p.s[lo:hi])...)
}

func (p *parser) list(close string) ([]Value, error) {
	var out []Value
	if p.eat(close) {
		return out, nil
	}
	for {
		v, err := p.value()
		if err != nil {
			return nil, err
		}
		out = append(out, v)
		if p.eat(close) {
			return out, nil
		}
		if !p.eat(",") {
			return nil, p.errf("expected , or %s", close)
		}
	}
}

func isIdent(c byte) bool {
	return c == '_' || (c >= '0' && c <= '9') || (c >= 'a' && c <= 'z') || (c >= 'A' && c <= 'Z')
}

func (p *parser) value() (Value, error) {
	v, err := p.atom()
	if err != nil {
		return v, err
	}
	// interval a..b printed for integer ranges
	if v.Kind == KInt && p.has("..") {
		p.eat("..")
		hi, err := p.atom()
		if err != nil {
			return v, err
		}
		set := Value{Kind: KSet}
		for i := v.Int; i <= hi.Int; i++ {
			set.Elems = append(set.Elems, Value{Kind: KInt, Int: i})
		}
		return set, nil
	}
	return v, nil
}

func (p *parser) atom() (Value, error) {
	p.ws()
	if p.p >= len(p.s) {
		return Value{}, p.errf("unexpected end")
	}
	c := p.s[p.p]
	switch {
	case c == '"':
		j := p.p + 1
		var sb strings.Builder
		for j < len(p.s) && p.s[j] != '"' {
			if p.s[j] == '\\' && j+1 < len(p.s) {
				j++
				switch p.s[j] {
				case 'n':
					sb.WriteByte('\n')
				case 't':
					sb.WriteByte('\t')
				default:
					sb.WriteByte(p.s[j])
				}
			} else {
				sb.WriteByte(p.s[j])
			}
			j++
		}
		if j >= len(p.s) {
			return Value{}, p.errf("unterminated string")
		}
		p.p = j + 1
		return Value{Kind: KStr, Str: sb.String()}, nil
	case c == '{':
		p.p++
		el, err := p.list("}")
		return Value{Kind: KSet, Elems: el}, err
	case strings.HasPrefix(p.s[p.p:], "<<"):
		p.p += 2
		el, err := p.list(">>")
		return Value{Kind: KSeq, Elems: el}, err
	case c == '[':
		p.p++
		rec := Value{Kind: KRec, Fields: map[string]Value{}}
		if p.eat("]") {
			return rec, nil
		}
		for {
			p.ws()
			j := p.p
			for j < len(p.s) && isIdent(p.s[j]) {
				j++
			}
			name := p.s[p.p:j]
			p.p = j
			if name == "" || !p.eat("|->") {
				return rec, p.errf("bad record field")
			}
			v, err := p.value()
			if err != nil {
				return rec, err
			}
			rec.Fields[name] = v
			if p.eat("]") {
				return rec, nil
			}
			if !p.eat(",") {
				return rec, p.errf("expected , or ]")
			}
		}
	case c == '(':
		p.p++
		fn := Value{Kind: KFun}
		for {
			k, err := p.value()
			if err != nil {
				return fn, err
			}
			if !p.eat(":>") {
				return fn, p.errf("expected :>")
			}
			v, err := p.value()
			if err != nil {
				return fn, err
			}
			fn.Keys = append(fn.Keys, k)
			fn.Vals = append(fn.Vals, v)
			if p.eat(")") {
				return fn, nil
			}
			if !p.eat("@@") {
				return fn, p.errf("expected @@ or )")
			}
		}
	case c == '-' || (c >= '0' && c <= '9'):
		j := p.p + 1
		for j < len(p.s) && p.s[j] >= '0' && p.s[j] <= '9' {
			j++
		}
		n, err := strconv.ParseInt(p.s[p.p:j], 10, 64)
		if err != nil {
			return Value{}, p.errf("bad int")
		}
		p.p = j
		return Value{Kind: KInt, Int: n}, nil
	case isIdent(c):
		j := p.p
		for j < len(p.s) && isIdent(p.s[j]) {
			j++
		}
		id := p.s[p.p:j]
		p.p = j
		switch id {
		case "TRUE":
			return Value{Kind: KBool, Bool: true}, nil
		case "FALSE":
			return Value{Kind: KBool, Bool: false}, nil
		}
		return Value{Kind: KModel, Str: id}, nil
	}
	return Value{}, p.errf("unexpected character %q", c)
}

// ParseState parses "/\ x = v\n/\ y = w" into a map from variable to value.
func ParseState(s string) (map[string]Value, error) {
	out := map[string]Value{}
	p := &parser{s: s}
	for {
		p.ws()
		if p.p >= len(p.s) {
			return out, nil
		}
		p.eat("/\\")
		p.ws()
		j := p.p
		for j < len(p.s) && isIdent(p.s[j]) {
			j++
		}
		name := p.s[p.p:j]
		p.p = j
		if name == "" || !p.eat("=") {
			return out, p.errf("bad state conjunct")
		}
		v, err := p.value()
		if err != nil {
			return out, err
		}
		out[name] = v
	}
}

// Action is an instantiated action label such as Add("t1", {1, 2}).
type Action struct {
	Name string
	Args []Value
}

func (a Action) String() string {
	ss := make([]string, len(a.Args))
	for i, x := range a.Args {
		ss[i] = x.String()
	}
	return a.Name + "(" + strings.Join(ss, ",") + ")"
}

// ParseAction parses an action label.
func ParseAction(s string) (Action, error) {
	s = strings.TrimSpace(s)
	i := strings.IndexByte(s, '(')
	if i < 0 {
		return Action{Name: s}, nil
	}
	if !strings.HasSuffix(s, ")") {
		return Action{}, fmt.Errorf("tla: bad action label %q", s)
	}
	p := &parser{s: s[i+1:len(s)-1] + "\x00"}
	args, err := p.list("\x00")
	if err != nil {
		return Action{}, err
	}
	return Action{Name: s[:i], Args: args}, nil
}
