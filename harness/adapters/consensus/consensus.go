// Package consensus binds spec/Consensus.tla (generator) and spec/TraceConsensus.tla (property monitor)
// to the real DPoVP engine (C03, C02): every TLC behaviour is stepped through a real node; after each
// step the node's observable chain state is logged: stable, head, the unconfirmed tree and, per block, the
// DISTINCT NODES (identities: every key that is a deputy of some term; 0 = anyone else) recovered from the stored
// confirm signatures.
//
// Term configurations (VERIF_NEWDEP set, see term.go): params.TermDuration / InterimDuration are shortened, a
// fixed prefix of real blocks (funding, register / unregister transactions, the snapshot block(s) whose DeputyNodes
// come from the real candidate ranking) elects one or two further terms that differ from their predecessors in
// membership and size, every node under test first receives that prefix with the confirms of all deputies of each
// block's term, and the explored blocks sit on top of it, around the first height the last elected term signs.  The
// reset event then carries the deputy set of every height (`depof`, derived by the harness from its own
// configuration, not from the deputy manager under test), the prefix length (`pl`) and whether every block could be
// built / fed (`build_err`, `prefix_err`).
package consensus

import (
	"bytes"
	"fmt"
	"os"
	"path/filepath"
	"sort"
	"strconv"

	"github.com/LemoFoundationLtd/lemochain-core/chain/deputynode"
	"github.com/LemoFoundationLtd/lemochain-core/chain/types"
	"github.com/LemoFoundationLtd/lemochain-core/common"

	"verifharness/engine"
	"verifharness/node"
	"verifharness/tla"
)

type universe struct {
	blocks []*types.Block // index 0 = genesis, 1..pl = the stabilised prefix, pl+b = block b of the spec
	parent []int
	miner  []int
	// term configurations: the code under test's deputy manager refused to schedule a miner the harness chose among
	// the deputies of the block's term (the universe then ends before that block; the monitor rejects the reset event)
	buildErr string
}

type adapter struct {
	w         *node.World
	nd, self  int
	t         term
	builder   *node.Node
	prefix    []*types.Block // heights 1..pl (term configurations)
	prefixErr string         // the prefix could not be built to its full length (see buildPrefix)
	pminer    []int          // identity (1-based) of each prefix block's miner
	cache     map[string]*universe
	built     map[string]*types.Block
	recov     map[string]int // (block hash, signature bytes) -> recovered identity (1-based, 0 = nobody we know): a pure function, memoised
	u         *universe
	nut       *node.Node
	seq       int
	dir       string
}

func envInt(k string, d int) int {
	if v := os.Getenv(k); v != "" {
		n, err := strconv.Atoi(v)
		if err != nil {
			engine.Failf("bad %s=%s", k, v)
		}
		return n
	}
	return d
}

const candidates = 2

func (a *adapter) init() {
	a.nd = envInt("VERIF_ND", 3)
	a.self = envInt("VERIF_SELF", 0)
	a.dir = os.Getenv("VERIF_SCRATCH_DIR")
	if a.dir == "" {
		a.dir = filepath.Join(os.TempDir(), fmt.Sprintf("verif-consensus-%d", os.Getpid()))
	}
	a.t = loadTerm(a.nd)
	a.w = node.NewWorld(a.nd, 1000)
	if !a.t.on {
		// one-term configurations: the genesis term record LISTS two nodes more than the chain has deputy seats (candidate
		// nodes: registered, ranked behind the deputies, without a slot and without a vote on blocks)
		a.w = node.NewWorld(a.nd+candidates, 1000)
	}
	a.t.extendWorld(a.w)
	if a.self >= 1 && a.self <= len(a.w.Keys) {
		deputynode.SetSelfNodeKey(a.w.Keys[a.self-1])
	} else {
		deputynode.SetSelfNodeKey(a.w.Outsider2())
	}
	a.builder = a.newNode(filepath.Join(a.dir, "builder"))
	a.cache = map[string]*universe{}
	a.built = map[string]*types.Block{}
	a.recov = map[string]int{}
	if a.t.on {
		a.buildPrefix()
	}
}

// newNode is node.World.NewNode with the deputy manager's list size of the term configuration.
func (a *adapter) newNode(dir string) *node.Node {
	n := a.w.NewNode(dir)
	if a.t.on {
		n.DM.DeputyCount = a.t.dc
	} else {
		n.DM.DeputyCount = a.nd
	}
	return n
}

func (a *adapter) build(parent, miner tla.Value) *universe {
	key := parent.String() + miner.String()
	if u, ok := a.cache[key]; ok {
		return u
	}
	nb := len(parent.Elems)
	if parent.Kind == tla.KFun {
		nb = len(parent.Keys)
	}
	pl := len(a.prefix)
	u := &universe{blocks: []*types.Block{a.builder.Genesis}, parent: []int{0}, miner: []int{0}}
	for i, blk := range a.prefix {
		u.blocks = append(u.blocks, blk)
		u.parent = append(u.parent, i)
		u.miner = append(u.miner, a.pminer[i])
	}
	u.buildErr = a.prefixErr
	for b := 1; b <= nb && u.buildErr == ""; b++ {
		p := parent.GetI(b).I()
		m := miner.GetI(b).I()
		pi := pl + p // the spec's G (0) is the prefix tip (genesis when there is no prefix)
		bk := fmt.Sprintf("%s/%d/b%d", u.blocks[pi].Hash().Hex(), m, b)
		blk, ok := a.built[bk]
		if !ok {
			var err error
			blk, _, err = a.builder.Build(u.blocks[pi], m-1, 0, nil, fmt.Sprintf("b%d", b))
			if err != nil {
				if !a.t.on || !scheduleError(err) {
					engine.Realf("build block %d (height %d, miner %d): %v", b, u.blocks[pi].Height()+1, m, err)
				}
				u.buildErr = fmt.Sprintf("block %d (height %d, miner %d, parent's miner %d): %v", b, u.blocks[pi].Height()+1, m, u.miner[pi], err)
				break
			}
			a.learnTerm(blk)
			a.built[bk] = blk
		}
		u.blocks = append(u.blocks, blk)
		u.parent = append(u.parent, pi)
		u.miner = append(u.miner, m)
	}
	// the logged universe always names every block of the spec, built or not
	for b := len(u.parent) - pl; b <= nb; b++ {
		u.parent = append(u.parent, pl+parent.GetI(b).I())
		u.miner = append(u.miner, miner.GetI(b).I())
	}
	a.cache[key] = u
	return u
}

func (a *adapter) Reset(init map[string]tla.Value) (engine.Fields, error) {
	if a.w == nil {
		a.init()
	}
	if a.nut != nil {
		a.nut.Destroy()
	}
	a.u = a.build(init["parent"], init["miner"])
	a.seq++
	a.nut = a.newNode(filepath.Join(a.dir, fmt.Sprintf("nut%d", a.seq)))
	// rank of the real hashes (smaller hash = smaller rank), used by the fork tie-break
	type hr struct {
		id int
		h  common.Hash
	}
	var hs []hr
	for i := 1; i < len(a.u.blocks); i++ {
		hs = append(hs, hr{i, a.u.blocks[i].Hash()})
	}
	sort.Slice(hs, func(i, j int) bool { return bytes.Compare(hs[i].h[:], hs[j].h[:]) < 0 })
	rank := make([]int, len(a.u.parent)-1)
	for r, x := range hs {
		rank[x.id-1] = r + 1
	}
	fl := engine.Fields{"nd": a.nd, "self": a.self, "parent": a.u.parent[1:], "miner": a.u.miner[1:], "hrank": rank}
	if a.t.on {
		// the node under test receives the prefix the way a syncing node does: every block with the confirms of all
		// deputies of its term.  Whatever it makes of it is logged with the reset event and judged by the monitor.
		fl["prefix_err"] = a.feedPrefix()
		fl["build_err"] = a.u.buildErr
		fl["pl"] = len(a.prefix)
		fl["depof"] = a.t.depOf(len(a.u.parent) - 1)
		fl["nid"] = len(a.w.Keys)
	}
	a.project(fl)
	return fl, nil
}

func (a *adapter) idOf(h common.Hash) int {
	for i, b := range a.u.blocks {
		if b.Hash() == h {
			return i
		}
	}
	engine.Failf("node holds a block that is not in the universe: %s", h.Hex())
	return -1
}

// sigs signs block index bi with the keys of the packet's signers: identity d's key, or the outsider key.
func (a *adapter) sigs(bi int, sg tla.Value) []types.SignData {
	var out []types.SignData
	h := a.u.blocks[bi].Hash()
	// deterministic order: by (signer, variant)
	els := append([]tla.Value(nil), sg.Elems...)
	sort.Slice(els, func(i, j int) bool { return els[i].String() < els[j].String() })
	for _, s := range els {
		d, v := s.At(0).I(), s.At(1).I()
		// signer 0 = anyone who is not a deputy of the block's term: a foreign key, or (every other behaviour of a one-term
		// configuration) a candidate node the term record lists beyond the deputy seats
		key := a.w.Outsider
		if !a.t.on && a.seq%2 == 1 {
			key = a.w.Keys[a.nd]
		}
		if d >= 1 && d <= len(a.w.Keys) && (a.t.on || d <= a.nd) {
			key = a.w.Keys[d-1]
		}
		out = append(out, node.Sign(h, key, v))
	}
	return out
}

// project logs the observable chain state of the node under test.
func (a *adapter) project(fl engine.Fields) {
	n := a.nut
	stable := n.DP.StableBlock()
	head := n.DP.CurrentBlock()
	fl["stable"] = a.idOf(stable.Hash())
	fl["head"] = a.idOf(head.Hash())
	unconf := []int{}
	known := map[int]*types.Block{}
	n.DB.IterateUnConfirms(func(b *types.Block) {
		id := a.idOf(b.Hash())
		unconf = append(unconf, id)
		known[id] = b
	})
	sort.Ints(unconf)
	fl["unconf"] = unconf
	chain := []int{}
	for h := uint32(1); h <= stable.Height(); h++ {
		b, err := n.DB.GetBlockByHeight(h)
		if err != nil {
			fl["stable_chain_error"] = fmt.Sprintf("height %d: %v", h, err)
			continue
		}
		id := a.idOf(b.Hash())
		chain = append(chain, id)
		known[id] = b
	}
	fl["chain"] = chain // the stable chain by height, genesis excluded
	signers := map[string][]int{}
	raw := map[string]int{}
	for id, b := range known {
		// World.Signers maps a recovered node id to its index in w.NodeIDs, which holds every identity (the genesis
		// deputies and the nodes that become deputies in the next term): a signer is logged as WHO it is, whether or
		// not it is a deputy of this block's term - that judgement is the monitor's
		out := a.signersOf(b) // identities are 1-based in the spec; 0 = not a deputy of any term
		sort.Ints(out)
		signers[strconv.Itoa(id)] = out
		raw[strconv.Itoa(id)] = len(b.Confirms)
	}
	fl["signers"] = signers
	fl["nconf"] = raw
}

// signersOf: the distinct identities recovered from the confirms stored with b (node.World.Signers with a memo: the
// same stored signatures are read back after every step).
func (a *adapter) signersOf(b *types.Block) []int {
	h := b.Hash()
	seen := map[int]bool{}
	out := []int{}
	for _, c := range b.Confirms {
		k := string(h[:]) + string(c[:])
		id, ok := a.recov[k]
		if !ok {
			id = 0
			if nodeID, err := c.RecoverNodeID(h); err == nil {
				id = a.w.DeputyOf(nodeID) + 1
			}
			a.recov[k] = id
		}
		if !seen[id] {
			seen[id] = true
			out = append(out, id)
		}
	}
	return out
}

func (a *adapter) Apply(s engine.Step) (engine.Fields, error) {
	fl := engine.Fields{}
	b := len(a.prefix) + s.Act.Args[0].I()
	if b >= len(a.u.blocks) { // not built (buildErr): nothing can be delivered
		fl["ok"], fl["err"] = false, "block not built"
		a.project(fl)
		return fl, nil
	}
	switch s.Act.Name {
	case "InsertBlock", "RejectBlock", "InsertBlockDup":
		sigs := a.sigs(b, s.Act.Args[1])
		if s.Act.Name == "InsertBlockDup" {
			sigs = append(sigs, sigs...) // every confirm relayed twice before the block arrived
		}
		blk := node.Copy(a.u.blocks[b], sigs)
		_, err := a.nut.DP.InsertBlock(blk)
		fl["ok"] = err == nil
		if err != nil {
			fl["err"] = err.Error()
		}
	case "InsertConfirms", "IgnoreConfirms", "InsertConfirmsDup":
		blk := a.u.blocks[b]
		sigs := a.sigs(b, s.Act.Args[1])
		if s.Act.Name == "InsertConfirmsDup" {
			sigs = append(sigs, sigs...)
		}
		err := a.nut.DP.InsertConfirms(blk.Height(), blk.Hash(), sigs)
		fl["ok"] = err == nil
		if err != nil {
			fl["err"] = err.Error()
		}
	default:
		return nil, fmt.Errorf("unknown action %s", s.Act.Name)
	}
	a.project(fl)
	return fl, nil
}

func (a *adapter) Close() {
	if a.nut != nil {
		a.nut.Destroy()
	}
	if a.builder != nil {
		a.builder.Destroy()
	}
}

func init() { engine.Register("consensus", func() engine.Adapter { return &adapter{} }) }
