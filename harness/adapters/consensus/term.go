package consensus

import (
	"crypto/ecdsa"
	"encoding/json"
	"fmt"
	"math/big"
	"os"
	"sort"
	"strconv"
	"strings"

	"github.com/LemoFoundationLtd/lemochain-core/chain/params"
	"github.com/LemoFoundationLtd/lemochain-core/chain/types"
	"github.com/LemoFoundationLtd/lemochain-core/common"
	"github.com/LemoFoundationLtd/lemochain-core/common/crypto"

	"verifharness/engine"
	"verifharness/node"
)

// term is the term configuration of a replay (spec/Consensus.tla: DepOld, DepNew, TermStart, SnapHeight, PL).
//
//	VERIF_NEWDEP   the deputies elected by the successive snapshot blocks, as identities (1-based, comma separated),
//	               elections separated by ';': "2,3,4,5" (one election, at height TD) or "2,3,4;3,4,5,6" (a second
//	               one at height 2*TD).  Identities 1..VERIF_ND are the genesis deputies, larger ones are nodes whose
//	               keys the harness generates.  A node that has left cannot come back (the chain forbids it).
//	VERIF_TD       params.TermDuration (default 4: snapshot blocks at heights 4, 8, ..)
//	VERIF_INTERIM  params.InterimDuration (default 1: the set elected at k*TD signs from height k*TD+INTERIM+1)
//	VERIF_PL       length of the stabilised prefix (default: up to and including the last snapshot block)
type term struct {
	on          bool
	nd          int
	td, interim uint32
	pl          int
	terms       [][]int // terms[0] = genesis deputies 1..nd, terms[k] = identities elected at height k*td (ascending)
	nid         int     // number of identities (deputies of any term)
	dc          int     // deputynode.Manager.DeputyCount: the size of the largest term
	learned     int     // elections the builder's deputy manager has been told
	ntx         int
}

var lemoUnit = new(big.Int).Exp(big.NewInt(10), big.NewInt(18), nil)

func lemos(n int64) *big.Int { return new(big.Int).Mul(big.NewInt(n), lemoUnit) }

func has(l []int, x int) bool {
	for _, y := range l {
		if y == x {
			return true
		}
	}
	return false
}

func loadTerm(nd int) term {
	t := term{nd: nd, nid: nd, dc: nd}
	gen := []int{}
	for i := 1; i <= nd; i++ {
		gen = append(gen, i)
	}
	t.terms = [][]int{gen}
	s := os.Getenv("VERIF_NEWDEP")
	if s == "" {
		return t
	}
	t.on = true
	gone := map[int]bool{}
	for _, el := range strings.Split(s, ";") {
		var ids []int
		for _, f := range strings.Split(el, ",") {
			id, err := strconv.Atoi(strings.TrimSpace(f))
			if err != nil || id < 1 || has(ids, id) || gone[id] {
				engine.Failf("bad VERIF_NEWDEP=%s", s)
			}
			ids = append(ids, id)
			if id > t.nid {
				t.nid = id
			}
		}
		sort.Ints(ids)
		for _, id := range t.terms[len(t.terms)-1] {
			if !has(ids, id) {
				gone[id] = true
			}
		}
		t.terms = append(t.terms, ids)
		if len(ids) > t.dc {
			t.dc = len(ids)
		}
	}
	t.td = uint32(envInt("VERIF_TD", 4))
	t.interim = uint32(envInt("VERIF_INTERIM", 1))
	last := (len(t.terms) - 1) * int(t.td) // the last snapshot block
	t.pl = envInt("VERIF_PL", last)
	// an election's transactions are at heights (k-1)*TD+1 and +2 and must be in the state its snapshot block ranks (its
	// parent's); the prefix ends before the last elected term starts
	if t.td < 3 || t.interim < 1 || t.interim >= t.td-1 || t.pl < last-int(t.td)+2 || t.pl > last+int(t.interim) {
		engine.Failf("unsupported term configuration td=%d interim=%d pl=%d elections=%d", t.td, t.interim, t.pl, len(t.terms)-1)
	}
	// package variables of the code under test: shortened terms, a deposit the test accounts can afford
	params.TermDuration = t.td
	params.InterimDuration = t.interim
	params.MinCandidateDeposit = lemos(100)
	return t
}

func detKey(a, b byte, i int) *ecdsa.PrivateKey {
	buf := make([]byte, 32)
	buf[0], buf[1], buf[30], buf[31] = a, b, byte(i>>8), byte(i+1)
	k, err := crypto.ToECDSA(buf)
	if err != nil {
		panic(err)
	}
	return k
}

// extendWorld adds the identities that are not genesis deputies: one key is the node key (its NodeID is what the
// register transaction announces) and the key of the candidate account (= the miner address once elected).
func (t *term) extendWorld(w *node.World) {
	for i := t.nd; i < t.nid; i++ {
		k := detKey(0x33, 0xc3, i)
		w.Keys = append(w.Keys, k)
		w.Miners = append(w.Miners, crypto.PubkeyToAddress(k.PublicKey))
		w.NodeIDs = append(w.NodeIDs, crypto.PrivateKeyToNodeID(k))
	}
}

// termOf: the protocol's rule, stated by the harness on its own (NOT read from the code under test): the set elected by
// the snapshot block at k*TD signs the heights k*TD+INTERIM+1 .. (k+1)*TD+INTERIM.
func (t *term) termOf(h int) int {
	k := 0
	for k+1 < len(t.terms) && h >= (k+1)*int(t.td)+int(t.interim)+1 {
		k++
	}
	return k
}

// depOf is the deputy set of every height 1..maxH as the harness configured the chain.
func (t *term) depOf(maxH int) [][]int {
	out := [][]int{}
	for h := 1; h <= maxH; h++ {
		out = append(out, t.terms[t.termOf(h)])
	}
	return out
}

func (a *adapter) tx(key *ecdsa.PrivateKey, to *common.Address, amount *big.Int, typ uint16, data []byte, gas uint64) *types.Transaction {
	from := crypto.PubkeyToAddress(key.PublicKey)
	exp := uint64(node.GenesisTime) + 1000
	a.t.ntx++
	msg := fmt.Sprintf("c03-%d", a.t.ntx) // unique transactions
	var tx *types.Transaction
	if to == nil {
		tx = types.NoReceiverTransaction(from, amount, gas, big.NewInt(1), data, typ, node.ChainID, exp, "", msg)
	} else {
		tx = types.NewTransaction(from, *to, amount, gas, big.NewInt(1), data, typ, node.ChainID, exp, "", msg)
	}
	signed, err := types.MakeSigner().SignTx(tx, key)
	if err != nil {
		engine.Failf("sign tx: %v", err)
	}
	return signed
}

func profile(nodeID []byte, income common.Address, isCand bool, port int) []byte {
	p := map[string]string{
		types.CandidateKeyIsCandidate:   strconv.FormatBool(isCand),
		types.CandidateKeyNodeID:        common.ToHex(nodeID)[2:],
		types.CandidateKeyHost:          "127.0.0.1",
		types.CandidateKeyPort:          strconv.Itoa(port),
		types.CandidateKeyIncomeAddress: income.String(),
	}
	b, _ := json.Marshal(p)
	return b
}

// accountKey: the key of identity id's candidate account (its miner address).
func (a *adapter) accountKey(id int) *ecdsa.PrivateKey {
	if id > a.t.nd {
		return a.w.Keys[id-1]
	}
	k := detKey(0x11, 0xa0, id-1) // node.World's key of a genesis deputy's miner account
	if crypto.PubkeyToAddress(k.PublicKey) != a.w.Miners[id-1] {
		engine.Failf("cannot derive the miner account key of genesis deputy %d", id)
	}
	return k
}

// buildPrefix builds, with the real assembler, the chain every behaviour starts from.  Election k (snapshot block at
// k*TD): height (k-1)*TD+1 funds the accounts, height (k-1)*TD+2 registers the joining nodes as candidates (real
// RegisterTx with a deposit) and unregisters the leaving deputies; the snapshot block takes its DeputyNodes from the
// real candidate ranking.  Every block is mined by a deputy of its own term.
func (a *adapter) buildPrefix() {
	t := &a.t
	w := a.w
	td := int(t.td)
	parent := a.builder.Genesis
	for h := 1; h <= t.pl; h++ {
		var txs types.Transactions
		k := (h-1)/td + 1 // the election this height prepares
		if k < len(t.terms) {
			var joiners, leavers []int
			for id := 1; id <= t.nid; id++ {
				switch {
				case has(t.terms[k], id) && !has(t.terms[k-1], id):
					joiners = append(joiners, id)
				case !has(t.terms[k], id) && has(t.terms[k-1], id):
					leavers = append(leavers, id)
				}
			}
			switch (h - 1) % td {
			case 0:
				for _, id := range joiners {
					to := w.Miners[id-1]
					txs = append(txs, a.tx(w.FounderKey, &to, lemos(1000), params.OrdinaryTx, nil, 30000))
				}
				for _, id := range leavers {
					to := w.Miners[id-1]
					txs = append(txs, a.tx(w.FounderKey, &to, lemos(10), params.OrdinaryTx, nil, 30000))
				}
			case 1:
				for i, id := range joiners {
					txs = append(txs, a.tx(a.accountKey(id), nil, lemos(int64(100*(i+1))), params.RegisterTx,
						profile(w.NodeIDs[id-1], w.Miners[id-1], true, 7100+id), 200000))
				}
				for _, id := range leavers {
					txs = append(txs, a.tx(a.accountKey(id), nil, big.NewInt(0), params.RegisterTx,
						profile(w.NodeIDs[id-1], w.Miners[id-1], false, 7100+id), 200000))
				}
			}
		}
		deps := t.terms[t.termOf(h)]
		m := deps[(h-1)%len(deps)]
		blk, invalid, err := a.builder.Build(parent, m-1, 0, txs, fmt.Sprintf("p%d", h))
		if err != nil && scheduleError(err) {
			// the deputy manager of the code under test does not let a deputy of this height's term mine: logged with every
			// reset event (build_err) and rejected by the monitor; the prefix ends here and no block is built on it
			a.prefixErr = fmt.Sprintf("prefix block %d (miner %d, parent's miner %d): %v", h, m, a.pminerOr0(h-1), err)
			return
		}
		if err != nil {
			engine.Failf("build prefix block %d (miner %d): %v", h, m, err)
		}
		if len(invalid) != 0 || len(blk.Txs) != len(txs) {
			engine.Failf("prefix block %d: the assembler kept %d of %d transactions", h, len(blk.Txs), len(txs))
		}
		a.learnTerm(blk)
		a.prefix = append(a.prefix, blk)
		a.pminer = append(a.pminer, m)
		parent = blk
	}
}

// scheduleError: node.Build could not place the miner in a slot (deputynode.Manager.GetMinerDistance refused).
func scheduleError(err error) bool { return strings.HasPrefix(err.Error(), "distance:") }

func (a *adapter) pminerOr0(h int) int {
	if h >= 1 && h <= len(a.pminer) {
		return a.pminer[h-1]
	}
	return 0
}

// learnTerm: the builder node never stabilises anything, so it is told an elected term when its snapshot block has
// been built (it needs it to compute the slots of that term's miners).  The elected set must be the one the
// TLC configuration assumes - anything else is a harness/configuration error, not a verdict.
func (a *adapter) learnTerm(blk *types.Block) {
	t := &a.t
	k := t.learned + 1
	if !t.on || k >= len(t.terms) || int(blk.Height()) != k*int(t.td) {
		return
	}
	got := []int{}
	for _, d := range blk.DeputyNodes {
		got = append(got, a.w.DeputyOf(d.NodeID)+1)
	}
	sort.Ints(got)
	if fmt.Sprint(got) != fmt.Sprint(t.terms[k]) {
		engine.Failf("the snapshot block at height %d elects %v, the configuration expects %v (DeputyNodes %s)", blk.Height(), got, t.terms[k], blk.DeputyNodes.String())
	}
	for _, d := range blk.DeputyNodes {
		if id := a.w.DeputyOf(d.NodeID) + 1; d.MinerAddress != a.w.Miners[id-1] {
			engine.Failf("elected deputy %d has miner address %s, expected %s", id, d.MinerAddress.String(), a.w.Miners[id-1].String())
		}
	}
	a.builder.DM.SaveSnapshot(blk.Height(), blk.DeputyNodes)
	t.learned = k
}

// feedPrefix hands the prefix to the node under test, every block with the confirms of all deputies of its term but its miner.
func (a *adapter) feedPrefix() (msg string) {
	at := 0
	defer func() {
		if r := recover(); r != nil {
			if he, ok := r.(engine.HarnessError); ok {
				panic(he)
			}
			msg = fmt.Sprintf("prefix block %d: the node panicked: %v", at, r) // logged (prefix_err), judged by the monitor
		}
	}()
	for i, blk := range a.prefix {
		at = i + 1
		var confirms []types.SignData
		for _, d := range a.t.terms[a.t.termOf(i+1)] {
			if d != a.pminer[i] {
				confirms = append(confirms, node.Sign(blk.Hash(), a.w.Keys[d-1], 0))
			}
		}
		if _, err := a.nut.DP.InsertBlock(node.Copy(blk, confirms)); err != nil {
			return fmt.Sprintf("prefix block %d: %v", i+1, err)
		}
	}
	return ""
}
