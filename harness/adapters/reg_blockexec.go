package adapters

import _ "verifharness/adapters/blockexec"
