package adapters

import _ "verifharness/adapters/network"
