package adapters

import _ "verifharness/adapters/journal"
