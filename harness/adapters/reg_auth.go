package adapters

import _ "verifharness/adapters/auth"
