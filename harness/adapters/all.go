// Package adapters links every adapter and driver into the vh binary.
package adapters

import (
	_ "verifharness/adapters/schedule"
	_ "verifharness/adapters/txpool"
)
