// Histories of Merkle computations over SHARED leaf storage (spec/MerkleHist.tla, validated by spec/TraceMerkle.tla).
//
// The adapter plays a real caller: it owns one list of leaf hashes built with append (spare capacity), the
// corresponding Transactions / ChangeLogSlice / DeputyNodes lists, and one reusable scratch buffer per list.  Every
// Compute action hands the REAL merkle.New / MerkleRootSha a slice of that storage in the shape the action names
//
//	view    list[i:j]            cap reaches to the end of the caller's array (the next leaves sit in the capacity)
//	clip    list[i:j:j]          len == cap
//	built   a fresh list built with append for this call (Go's growth: usually cap > len)
//	scratch buf = append(buf[:0], list[i:j]...), the buffer is reused by the next such call
//
// calls Root, HashNodes, Root of a second tree over the SAME slice, FindSiblingNodes / Verify for every position
// (leaf taken from the caller's list, as a caller would), optionally keeps the tree and the nodes slice it returned,
// and logs the results TOGETHER WITH the caller's lists as they are after the call and with what every kept tree
// answers after the call (every event; Reread is the same question as an action of its own).
// A pristine copy of every leaf value (never handed to the code under test) is the "list as originally given"; the
// real Keccak256 restricted to the values of an event is logged as the oracle.  The adapter never judges.
package merkle

import (
	"bufio"
	"encoding/json"
	"flag"
	"fmt"
	"math/rand"
	"os"

	"github.com/LemoFoundationLtd/lemochain-core/chain/types"
	"github.com/LemoFoundationLtd/lemochain-core/common"
	"github.com/LemoFoundationLtd/lemochain-core/common/crypto"
	rm "github.com/LemoFoundationLtd/lemochain-core/common/merkle"

	"verifharness/engine"
	"verifharness/tla"
)

type kept struct {
	tree  *rm.MerkleTree
	nodes []common.Hash // the slice HashNodes() returned when the tree was built, still held by the caller
	given []common.Hash // pristine copy of the range the tree was built over
}

type hist struct {
	in     *interner
	fixed  bool // fixed capacities (from the spec's initial state) or Go's natural append growth
	atoms  []string
	orig   []common.Hash    // pristine: the leaf values as originally given
	origF  [3][]common.Hash // pristine: the hashes of the family objects as originally given
	shared []common.Hash    // the caller's list; slices of it are handed to the library
	buf    []common.Hash    // the caller's scratch buffer
	txs    types.Transactions
	logs   types.ChangeLogSlice
	deps   types.DeputyNodes
	bufT   types.Transactions
	bufL   types.ChangeLogSlice
	bufD   types.DeputyNodes
	slots  []*kept
}

func newHist(capList, capBuf, slots int) *hist {
	h := &hist{in: &interner{id: map[common.Hash]int{}}, slots: make([]*kept, slots)}
	if capList > 0 {
		h.fixed = true
		h.shared = make([]common.Hash, 0, capList)
		h.txs, h.logs, h.deps = make(types.Transactions, 0, capList), make(types.ChangeLogSlice, 0, capList), make(types.DeputyNodes, 0, capList)
		h.buf = make([]common.Hash, 0, capBuf)
		h.bufT, h.bufL, h.bufD = make(types.Transactions, 0, capBuf), make(types.ChangeLogSlice, 0, capBuf), make(types.DeputyNodes, 0, capBuf)
	}
	return h
}

func (h *hist) ids(hs []common.Hash) []int {
	out := make([]int, len(hs))
	for i, x := range hs {
		out[i] = h.in.of(x)
	}
	return out
}

// lists reads the caller's lists as they are NOW (hashes at every position of the list / of the objects).
func (h *hist) lists(fl engine.Fields) {
	fl["list"] = h.ids(h.shared)
	var f [3][]common.Hash
	for _, t := range h.txs {
		f[0] = append(f[0], t.Hash())
	}
	for _, l := range h.logs {
		f[1] = append(f[1], l.Hash())
	}
	for _, d := range h.deps {
		f[2] = append(f[2], d.Hash())
	}
	fl["famlist"] = [][]int{h.ids(f[0]), h.ids(f[1]), h.ids(f[2])}
}

// keptNow asks every tree the caller still holds again (the nodes slice it was given, HashNodes, Root), after whatever was just done.
func (h *hist) keptNow(fl engine.Fields) (groups [][]common.Hash) {
	ks := []interface{}{}
	for _, k := range h.slots {
		if k == nil {
			ks = append(ks, map[string]interface{}{"live": 0})
			continue
		}
		root, nodes2 := k.tree.Root(), k.tree.HashNodes()
		ks = append(ks, map[string]interface{}{"live": 1, "nodes": h.ids(k.nodes), "nodes2": h.ids(nodes2), "root": h.in.of(root)})
		groups = append(groups, append(append(append(append([]common.Hash{}, k.given...), k.nodes...), nodes2...), root))
	}
	fl["kept"] = ks
	return groups
}

// oracle: the real Keccak256 on every ordered pair of values within each group (as ids), when the result is an interned value.
func (h *hist) oracle(groups ...[]common.Hash) [][]int {
	pairs := [][]int{}
	seen := map[[2]int]bool{}
	for _, g := range groups {
		uniq := map[common.Hash]bool{}
		var vs []common.Hash
		for _, v := range g {
			if !uniq[v] {
				uniq[v] = true
				vs = append(vs, v)
			}
		}
		for _, x := range vs {
			h.in.of(x) // every value of the group is interned before any pair is looked up
		}
		for _, x := range vs {
			for _, y := range vs {
				k := [2]int{h.in.of(x), h.in.of(y)}
				if seen[k] {
					continue
				}
				seen[k] = true
				r := crypto.Keccak256Hash(append(append(make([]byte, 0, 64), x[:]...), y[:]...))
				if id, ok := h.in.id[r]; ok {
					pairs = append(pairs, []int{k[0], k[1], id})
				}
			}
		}
	}
	return pairs
}

func (h *hist) appendLeaf(atom string) engine.Fields {
	instantiate(atom)
	leaf := leafOf(atom)
	h.atoms = append(h.atoms, atom)
	h.orig = append(h.orig, leaf)
	fam := []common.Hash{txOf[atom].Hash(), logOf[atom].Hash(), depOf[atom].Hash()}
	for f := range fam {
		h.origF[f] = append(h.origF[f], fam[f])
	}
	// the caller's own appends (fixed: into the spare capacity; otherwise Go's growth, which may move the list)
	if h.fixed && len(h.shared) == cap(h.shared) {
		engine.Failf("merklehist: list longer than the spec's Cap")
	}
	h.shared = append(h.shared, leafOf(atom))
	h.txs, h.logs, h.deps = append(h.txs, txOf[atom]), append(h.logs, logOf[atom]), append(h.deps, depOf[atom])
	fl := engine.Fields{"leaf": h.in.of(leaf), "famleaf": h.ids(fam), "n": len(h.shared), "spare": cap(h.shared) - len(h.shared), "empty": h.in.of(rm.EmptyTrieHash)}
	h.lists(fl)
	fl["pairs"] = h.oracle(h.keptNow(fl)...)
	return fl
}

func (h *hist) compute(shape string, i, j, slot int) engine.Fields {
	if i < 0 || i > j || j > len(h.shared) {
		engine.Failf("merklehist: range %d..%d outside the list of %d", i, j, len(h.shared))
	}
	var sl []common.Hash
	var st types.Transactions
	var slg types.ChangeLogSlice
	var sd types.DeputyNodes
	switch shape {
	case "view":
		sl, st, slg, sd = h.shared[i:j], h.txs[i:j], h.logs[i:j], h.deps[i:j]
	case "clip":
		sl, st, slg, sd = h.shared[i:j:j], h.txs[i:j:j], h.logs[i:j:j], h.deps[i:j:j]
	case "built":
		for k := i; k < j; k++ {
			sl, st, slg, sd = append(sl, h.shared[k]), append(st, h.txs[k]), append(slg, h.logs[k]), append(sd, h.deps[k])
		}
	case "scratch":
		if h.fixed && j-i > cap(h.buf) {
			engine.Failf("merklehist: scratch range longer than BufCap")
		}
		h.buf = append(h.buf[:0], h.shared[i:j]...)
		h.bufT, h.bufL, h.bufD = append(h.bufT[:0], h.txs[i:j]...), append(h.bufL[:0], h.logs[i:j]...), append(h.bufD[:0], h.deps[i:j]...)
		sl, st, slg, sd = h.buf, h.bufT, h.bufL, h.bufD
	default:
		engine.Failf("merklehist: unknown shape %q", shape)
	}
	given := append([]common.Hash{}, h.orig[i:j]...)
	fl := engine.Fields{"len": len(sl), "cap": cap(sl)}
	// ---- the real functions on the caller's slice
	tree := rm.New(sl)
	root := tree.Root()
	nodes := tree.HashNodes()
	root2 := rm.New(sl).Root() // the same slice handed to a second tree
	fl["root"], fl["roothex"], fl["root2"], fl["nodes"] = h.in.of(root), root.Hex(), h.in.of(root2), h.ids(nodes)
	fl["empty"] = h.in.of(rm.EmptyTrieHash)
	proofs := []interface{}{}
	for p := i; p < j; p++ {
		leaf := h.shared[p] // the caller proves the leaf it has at that position
		sib, err := rm.FindSiblingNodes(leaf, nodes)
		pr := map[string]interface{}{"pos": p - i + 1, "err": "", "leaf": h.in.of(leaf)}
		if err != nil {
			pr["err"] = err.Error()
		}
		path := [][]interface{}{}
		for _, s := range sib {
			path = append(path, []interface{}{h.in.of(s.Hash), sideName[s.NodeType]})
		}
		pr["sib"] = path
		pr["ok"] = rm.Verify(leaf, root, sib)
		proofs = append(proofs, pr)
	}
	fl["proofs"] = proofs
	// ---- the chain's list types over the same shape of their own storage
	froots := []common.Hash{st.MerkleRootSha(), slg.MerkleRootSha(), sd.MerkleRootSha()}
	fl["famroot"] = h.ids(froots)
	groups := [][]common.Hash{append(append(append([]common.Hash{}, given...), nodes...), root, root2)}
	for f := range froots {
		g := append([]common.Hash{}, h.origF[f][i:j]...)
		g = append(g, rm.New(append([]common.Hash{}, h.origF[f][i:j]...)).HashNodes()...)
		groups = append(groups, append(g, froots[f]))
	}
	if slot > 0 {
		if slot > len(h.slots) {
			engine.Failf("merklehist: slot %d of %d", slot, len(h.slots))
		}
		h.slots[slot-1] = &kept{tree: tree, nodes: nodes, given: given}
	}
	h.lists(fl)
	fl["pairs"] = h.oracle(append(groups, h.keptNow(fl)...)...)
	return fl
}

func (h *hist) reread(slot int) engine.Fields {
	k := h.slots[slot-1]
	if k == nil {
		engine.Failf("merklehist: Reread of empty slot %d", slot)
	}
	root := k.tree.Root()
	nodes2 := k.tree.HashNodes()
	fl := engine.Fields{"root": h.in.of(root), "roothex": root.Hex(), "nodes": h.ids(k.nodes), "nodes2": h.ids(nodes2), "empty": h.in.of(rm.EmptyTrieHash)}
	h.lists(fl)
	fl["pairs"] = h.oracle(append(h.keptNow(fl), append(append(append(append([]common.Hash{}, k.given...), k.nodes...), nodes2...), root))...)
	return fl
}

// ---- TLC behaviours (state graph of MerkleHist.tla)

type histAdapter struct{ h *hist }

func (a *histAdapter) Reset(init map[string]tla.Value) (engine.Fields, error) {
	capList, capBuf, slots := init["mem"].Len(), init["buf"].Len(), init["hd"].Len()
	if capList == 0 || init["ls"].Len() != 0 {
		return nil, fmt.Errorf("merklehist: unexpected initial state")
	}
	a.h = newHist(capList, capBuf, slots)
	return engine.Fields{"hist": 1, "slots": slots, "cap": capList, "bufcap": capBuf}, nil
}

func (a *histAdapter) Apply(s engine.Step) (engine.Fields, error) {
	ar := s.Act.Args
	switch s.Act.Name {
	case "AppendLeaf":
		return a.h.appendLeaf(ar[0].S()), nil
	case "Compute":
		return a.h.compute(ar[0].S(), ar[1].I(), ar[2].I(), ar[3].I()), nil
	case "Reread":
		return a.h.reread(ar[0].I()), nil
	}
	return nil, fmt.Errorf("unknown action %s", s.Act.Name)
}

func (a *histAdapter) Close() {}

// guarded logs a panic of the code under test as field "panic" (no trace action consumes such a line); harness errors pass.
func guarded(f func() engine.Fields) (fl engine.Fields) {
	defer func() {
		if r := recover(); r != nil {
			if he, ok := r.(engine.HarnessError); ok {
				panic(he)
			}
			fl = engine.Fields{"panic": fmt.Sprintf("%v", r)}
		}
	}()
	return f()
}

// ---- seeded random histories over long lists with Go's natural slice growth (far outside TLC's bound)
func driveHist(args []string) error {
	fs := flag.NewFlagSet("merkle-hist", flag.ContinueOnError)
	out := fs.String("out", "hist.ndjson", "")
	seed := fs.Int64("seed", 1, "")
	behs := fs.Int("behs", 20, "")
	steps := fs.Int("steps", 60, "")
	maxLen := fs.Int("maxlen", 24, "")
	if err := fs.Parse(args); err != nil {
		return err
	}
	f, err := os.Create(*out)
	if err != nil {
		return err
	}
	defer f.Close()
	w := bufio.NewWriter(f)
	defer w.Flush()
	enc := json.NewEncoder(w)
	rng := rand.New(rand.NewSource(*seed))
	shapes := []string{"view", "clip", "built", "scratch"}
	total := 0
	emit := func(ev string, b, step int, a []interface{}, fl engine.Fields) error {
		fl["ev"], fl["beh"], fl["step"] = ev, b, step
		if a != nil {
			fl["a"] = a
		}
		total++
		return enc.Encode(fl)
	}
	for b := 0; b < *behs; b++ {
		const slots = 3
		var h *hist
		fixed := rng.Intn(3) == 0 // some callers pre-size their lists (make(.., 0, n)), most just append
		if fixed {
			h = newHist(*maxLen+rng.Intn(4), 1+rng.Intn(*maxLen), slots)
			h.fixed = false // the scratch buffer may still grow
		} else {
			h = newHist(0, 0, slots)
		}
		if err := emit("reset", b, 0, nil, engine.Fields{"hist": 1, "slots": slots, "cap": cap(h.shared), "bufcap": cap(h.buf)}); err != nil {
			return err
		}
		alphabet := 2 + rng.Intn(*maxLen)
		for s := 1; s <= *steps; s++ {
			n := len(h.shared)
			var ev string
			var a []interface{}
			var fl engine.Fields
			r := rng.Intn(10)
			switch {
			case (r < 3 || n == 0) && n < *maxLen:
				atom := fmt.Sprintf("x%d", rng.Intn(alphabet))
				ev, a, fl = "AppendLeaf", []interface{}{atom}, guarded(func() engine.Fields { return h.appendLeaf(atom) })
			case r == 9 && (h.slots[0] != nil || h.slots[1] != nil || h.slots[2] != nil):
				k := rng.Intn(slots)
				for h.slots[k] == nil {
					k = (k + 1) % slots
				}
				ev, a, fl = "Reread", []interface{}{k + 1}, guarded(func() engine.Fields { return h.reread(k + 1) })
			default:
				i, j := 0, n
				switch rng.Intn(4) {
				case 0: // a prefix
					j = rng.Intn(n + 1)
				case 1: // the whole list
				default: // a sub-range
					i = rng.Intn(n + 1)
					j = i + rng.Intn(n-i+1)
				}
				sh, slot := shapes[rng.Intn(len(shapes))], rng.Intn(slots+1)
				ev, a, fl = "Compute", []interface{}{sh, i, j, slot}, guarded(func() engine.Fields { return h.compute(sh, i, j, slot) })
			}
			if err := emit(ev, b, s, a, fl); err != nil {
				return err
			}
			if _, bad := fl["panic"]; bad {
				break // the real objects are in an unknown state after a panic
			}
		}
	}
	fmt.Printf("{\"behaviours\": %d, \"lines\": %d}\n", *behs, total)
	return nil
}

func init() {
	engine.Register("merklehist", func() engine.Adapter { return &histAdapter{} })
	engine.RegisterDriver("merkle-hist", driveHist)
}
