// Package merkle binds spec/Merkle.tla (generator) and spec/TraceMerkle.tla (validator) to the real
// common/merkle functions (C17).  The spec state is a list of abstract leaves; the adapter instantiates
// them as 32-byte hashes, evaluates the REAL New/Root/HashNodes/FindSiblingNodes/Verify and logs the
// results.  Hash values are interned (every distinct 32-byte value gets a small number, "hex" maps the
// numbers back) and the real Keccak256 of every ordered pair of interned values is logged as an oracle
// ("pairs": [i, j, k] when keccak(v_i || v_j) = v_k is itself an interned value), so that the trace spec
// can evaluate its own operators over the real hash.  The adapter never judges.
package merkle

import (
	"bufio"
	"encoding/json"
	"flag"
	"fmt"
	"math/big"
	"math/rand"
	"os"

	"github.com/LemoFoundationLtd/lemochain-core/chain/params"
	"github.com/LemoFoundationLtd/lemochain-core/chain/types"
	"github.com/LemoFoundationLtd/lemochain-core/common"
	"github.com/LemoFoundationLtd/lemochain-core/common/crypto"
	rm "github.com/LemoFoundationLtd/lemochain-core/common/merkle"

	"verifharness/engine"
	"verifharness/tla"
)

func leafOf(atom string) common.Hash { return crypto.Keccak256Hash([]byte("c17-leaf-" + atom)) }

// The three places the chain derives a Merkle root: a block's transactions, its change logs, a term's deputies.
// Every abstract leaf is instantiated once per family as a real object; its Hash() is the leaf.
var (
	signKey, _ = crypto.HexToECDSA("432a86ab8765d82415a803e29864dcfc1ed93dac949abf6f95a583179f27e4bb")
	txOf       = map[string]*types.Transaction{}
	logOf      = map[string]*types.ChangeLog{}
	depOf      = map[string]*types.DeputyNode{}
)

func atomAddr(atom string) common.Address {
	return common.BytesToAddress(crypto.Keccak256([]byte("c17-addr-" + atom))[:20])
}

func instantiate(atom string) {
	if _, ok := txOf[atom]; ok {
		return
	}
	n := int64(len(txOf) + 1)
	from := crypto.PubkeyToAddress(signKey.PublicKey)
	tx := types.NewTransaction(from, atomAddr(atom), big.NewInt(n), 1000000, common.Big1, []byte(atom), params.OrdinaryTx, 200, 1000, "", "")
	tx, err := types.DefaultSigner{}.SignTx(tx, signKey)
	if err != nil {
		engine.Failf("sign: %v", err)
	}
	txOf[atom] = tx
	logOf[atom] = &types.ChangeLog{LogType: types.ChangeLogType(1), Address: atomAddr(atom), Version: uint32(n), NewVal: *big.NewInt(n)}
	id := crypto.Keccak256([]byte("c17-node-" + atom))
	depOf[atom] = &types.DeputyNode{MinerAddress: atomAddr(atom), NodeID: append(append([]byte{}, id...), id...), Rank: uint32(n), Votes: big.NewInt(1000 + n)}
}

type familyResult struct {
	name   string
	leaves []common.Hash
	root   common.Hash
}

// families evaluates the REAL MerkleRootSha of the three list types on the objects of the given atoms.
func families(atoms []string) []familyResult {
	var txs types.Transactions
	var logs types.ChangeLogSlice
	var deps types.DeputyNodes
	res := []familyResult{{name: "txs"}, {name: "changelogs"}, {name: "deputies"}}
	for _, a := range atoms {
		instantiate(a)
		txs, logs, deps = append(txs, txOf[a]), append(logs, logOf[a]), append(deps, depOf[a])
		res[0].leaves = append(res[0].leaves, txOf[a].Hash())
		res[1].leaves = append(res[1].leaves, logOf[a].Hash())
		res[2].leaves = append(res[2].leaves, depOf[a].Hash())
	}
	res[0].root, res[1].root, res[2].root = txs.MerkleRootSha(), logs.MerkleRootSha(), deps.MerkleRootSha()
	return res
}

type interner struct {
	id  map[common.Hash]int
	hex []string
	val []common.Hash
}

func (t *interner) of(h common.Hash) int {
	if i, ok := t.id[h]; ok {
		return i
	}
	t.val = append(t.val, h)
	t.hex = append(t.hex, h.Hex())
	t.id[h] = len(t.val)
	return len(t.val)
}

var sideName = map[rm.NodeTypeFlag]string{rm.LeftNode: "L", rm.RightNode: "R", rm.RootNode: "root"}

// evaluate runs the real functions on the leaf list given as atoms; universe = atoms used for altered / absent leaves.
func evaluate(atoms []string, universe []string) engine.Fields {
	if atoms == nil {
		atoms = []string{}
	}
	in := &interner{id: map[common.Hash]int{}}
	leaves := make([]common.Hash, len(atoms))
	leafIDs := make([]int, len(atoms))
	for i, a := range atoms {
		leaves[i] = leafOf(a)
		leafIDs[i] = in.of(leaves[i])
	}
	m := rm.New(append([]common.Hash{}, leaves...))
	root := m.Root()
	nodes := m.HashNodes()
	nodeIDs := make([]int, len(nodes))
	for i, n := range nodes {
		nodeIDs[i] = in.of(n)
	}
	fl := engine.Fields{"atoms": atoms, "leaves": leafIDs, "nodes": nodeIDs, "root": in.of(root), "roothex": root.Hex(),
		"empty": in.of(rm.EmptyTrieHash), "root2": in.of(rm.New(append([]common.Hash{}, leaves...)).Root())}
	// candidates presented instead of the genuine leaf: every leaf of the universe and every inner hash
	var cands []common.Hash
	for _, a := range universe {
		cands = append(cands, leafOf(a))
	}
	cands = append(cands, nodes[len(leaves):]...)
	for _, c := range cands {
		in.of(c)
	}
	proofs := []interface{}{}
	for p, leaf := range leaves {
		sib, err := rm.FindSiblingNodes(leaf, nodes)
		pr := map[string]interface{}{"pos": p + 1, "err": ""}
		if err != nil {
			pr["err"] = err.Error()
		}
		path := [][]interface{}{}
		for _, s := range sib {
			path = append(path, []interface{}{in.of(s.Hash), sideName[s.NodeType]})
		}
		pr["sib"] = path
		pr["ok"] = rm.Verify(leaf, root, sib)
		alt := [][]interface{}{}
		for _, c := range cands {
			alt = append(alt, []interface{}{in.of(c), rm.Verify(c, root, sib)})
		}
		pr["alt"] = alt
		proofs = append(proofs, pr)
	}
	fl["proofs"] = proofs
	// leaves that are not in the tree
	absent := [][]interface{}{}
	for _, a := range universe {
		_, err := rm.FindSiblingNodes(leafOf(a), nodes)
		absent = append(absent, []interface{}{in.of(leafOf(a)), err != nil})
	}
	fl["absent"] = absent
	groups := [][]int{}
	all := []int{}
	for i := range in.val {
		all = append(all, i)
	}
	groups = append(groups, all)
	// the chain's own list types: leaves are the objects' hashes, the root is their MerkleRootSha()
	fams := []interface{}{}
	for _, f := range families(atoms) {
		first := len(in.val)
		ids := make([]int, len(f.leaves))
		for i, l := range f.leaves {
			ids[i] = in.of(l)
		}
		for _, n := range rm.New(append([]common.Hash{}, f.leaves...)).HashNodes() {
			in.of(n)
		}
		rootID := in.of(f.root)
		var g []int
		for i := first; i < len(in.val); i++ {
			g = append(g, i)
		}
		groups = append(groups, g)
		fams = append(fams, map[string]interface{}{"name": f.name, "leaves": ids, "root": rootID})
	}
	fl["fam"] = fams
	// oracle: the real Keccak256 on every ordered pair of interned values (within the raw table and within each family)
	pairs := [][]int{}
	for _, g := range groups {
		for _, i := range g {
			for _, j := range g {
				h := crypto.Keccak256Hash(append(append([]byte{}, in.val[i][:]...), in.val[j][:]...))
				if k, ok := in.id[h]; ok {
					pairs = append(pairs, []int{i + 1, j + 1, k})
				}
			}
		}
	}
	fl["pairs"] = pairs
	fl["hex"] = in.hex
	return fl
}

type adapter struct {
	ls       []string
	universe []string
}

func (a *adapter) Reset(init map[string]tla.Value) (engine.Fields, error) {
	a.ls = nil
	if a.universe == nil {
		a.universe = []string{"a", "b", "c", "d"} // "d" is never a leaf of a TLC list
	}
	fl := evaluate(a.ls, a.universe)
	return fl, nil
}

func (a *adapter) Apply(s engine.Step) (engine.Fields, error) {
	switch s.Act.Name {
	case "Push":
		a.ls = append(a.ls, s.Act.Args[0].S())
	case "Pop":
		a.ls = a.ls[:len(a.ls)-1]
	default:
		return nil, fmt.Errorf("unknown action %s", s.Act.Name)
	}
	return evaluate(append([]string{}, a.ls...), a.universe), nil
}

func (a *adapter) Close() {}

// seeded grid: longer lists with repeated leaves, far outside TLC's bound; one "row" event per list
func driveGrid(args []string) error {
	fs := flag.NewFlagSet("merkle-grid", flag.ContinueOnError)
	out := fs.String("out", "rows.ndjson", "")
	seed := fs.Int64("seed", 1, "")
	rows := fs.Int("rows", 200, "")
	maxLen := fs.Int("maxlen", 40, "")
	if err := fs.Parse(args); err != nil {
		return err
	}
	f, err := os.Create(*out)
	if err != nil {
		return err
	}
	defer f.Close()
	w := bufio.NewWriter(f)
	defer w.Flush()
	enc := json.NewEncoder(w)
	rng := rand.New(rand.NewSource(*seed))
	for r := 0; r < *rows; r++ {
		n := rng.Intn(*maxLen + 1)
		alphabet := 2 + rng.Intn(n+2) // few distinct leaves -> many repetitions, many -> all distinct
		var uni []string
		for i := 0; i < alphabet; i++ {
			uni = append(uni, fmt.Sprintf("x%d", i))
		}
		atoms := make([]string, n)
		for i := range atoms {
			atoms[i] = uni[rng.Intn(alphabet)]
		}
		if len(uni) > 6 {
			uni = uni[:6]
		}
		fl := evaluate(atoms, append(uni, "never"))
		fl["ev"], fl["beh"], fl["step"] = "row", r, 0
		if err := enc.Encode(fl); err != nil {
			return err
		}
	}
	fmt.Printf("{\"rows\": %d}\n", *rows)
	return nil
}

func init() {
	engine.Register("merkle", func() engine.Adapter { return &adapter{} })
	engine.RegisterDriver("merkle-grid", driveGrid)
}
