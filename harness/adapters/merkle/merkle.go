// Package merkle binds spec/Merkle.tla (generator) and spec/TraceMerkle.tla (validator) to the real
// common/merkle functions (C17).  The spec state is a list of abstract leaves; the adapter instantiates
// them as 32-byte hashes, evaluates the REAL New/Root/HashNodes/FindSiblingNodes/Verify and logs the
// results.  Hash values are interned (every distinct 32-byte value gets a small number, "hex" maps the
// numbers back) and the real Keccak256 of every ordered pair of interned values is logged as an oracle
// ("pairs": [i, j, k] when keccak(v_i || v_j) = v_k is itself an interned value), so that the trace spec
// can evaluate its own operators over the real hash.  The adapter never judges.
package merkle

import (
	"bufio"
	"encoding/json"
	"flag"
	"fmt"
	"math/rand"
	"os"

	"github.com/LemoFoundationLtd/lemochain-core/common"
	"github.com/LemoFoundationLtd/lemochain-core/common/crypto"
	rm "github.com/LemoFoundationLtd/lemochain-core/common/merkle"

	"verifharness/engine"
	"verifharness/tla"
)

func leafOf(atom string) common.Hash { return crypto.Keccak256Hash([]byte("c17-leaf-" + atom)) }

type interner struct {
	id  map[common.Hash]int
	hex []string
	val []common.Hash
}

func (t *interner) of(h common.Hash) int {
	if i, ok := t.id[h]; ok {
		return i
	}
	t.val = append(t.val, h)
	t.hex = append(t.hex, h.Hex())
	t.id[h] = len(t.val)
	return len(t.val)
}

var sideName = map[rm.NodeTypeFlag]string{rm.LeftNode: "L", rm.RightNode: "R", rm.RootNode: "root"}

// evaluate runs the real functions on the leaf list given as atoms; universe = atoms used for altered / absent leaves.
func evaluate(atoms []string, universe []string) engine.Fields {
	if atoms == nil {
		atoms = []string{}
	}
	in := &interner{id: map[common.Hash]int{}}
	leaves := make([]common.Hash, len(atoms))
	leafIDs := make([]int, len(atoms))
	for i, a := range atoms {
		leaves[i] = leafOf(a)
		leafIDs[i] = in.of(leaves[i])
	}
	m := rm.New(append([]common.Hash{}, leaves...))
	root := m.Root()
	nodes := m.HashNodes()
	nodeIDs := make([]int, len(nodes))
	for i, n := range nodes {
		nodeIDs[i] = in.of(n)
	}
	fl := engine.Fields{"atoms": atoms, "leaves": leafIDs, "nodes": nodeIDs, "root": in.of(root), "roothex": root.Hex(),
		"empty": in.of(rm.EmptyTrieHash), "root2": in.of(rm.New(append([]common.Hash{}, leaves...)).Root())}
	// candidates presented instead of the genuine leaf: every leaf of the universe and every inner hash
	var cands []common.Hash
	for _, a := range universe {
		cands = append(cands, leafOf(a))
	}
	cands = append(cands, nodes[len(leaves):]...)
	for _, c := range cands {
		in.of(c)
	}
	proofs := []interface{}{}
	for p, leaf := range leaves {
		sib, err := rm.FindSiblingNodes(leaf, nodes)
		pr := map[string]interface{}{"pos": p + 1, "err": ""}
		if err != nil {
			pr["err"] = err.Error()
		}
		path := [][]interface{}{}
		for _, s := range sib {
			path = append(path, []interface{}{in.of(s.Hash), sideName[s.NodeType]})
		}
		pr["sib"] = path
		pr["ok"] = rm.Verify(leaf, root, sib)
		alt := [][]interface{}{}
		for _, c := range cands {
			alt = append(alt, []interface{}{in.of(c), rm.Verify(c, root, sib)})
		}
		pr["alt"] = alt
		proofs = append(proofs, pr)
	}
	fl["proofs"] = proofs
	// leaves that are not in the tree
	absent := [][]interface{}{}
	for _, a := range universe {
		_, err := rm.FindSiblingNodes(leafOf(a), nodes)
		absent = append(absent, []interface{}{in.of(leafOf(a)), err != nil})
	}
	fl["absent"] = absent
	// oracle: the real Keccak256 on every ordered pair of interned values
	pairs := [][]int{}
	n := len(in.val)
	for i := 0; i < n; i++ {
		for j := 0; j < n; j++ {
			h := crypto.Keccak256Hash(append(append([]byte{}, in.val[i][:]...), in.val[j][:]...))
			if k, ok := in.id[h]; ok {
				pairs = append(pairs, []int{i + 1, j + 1, k})
			}
		}
	}
	fl["pairs"] = pairs
	fl["hex"] = in.hex
	return fl
}

type adapter struct {
	ls       []string
	universe []string
}

func (a *adapter) Reset(init map[string]tla.Value) (engine.Fields, error) {
	a.ls = nil
	if a.universe == nil {
		a.universe = []string{"a", "b", "c", "d"} // "d" is never a leaf of a TLC list
	}
	fl := evaluate(a.ls, a.universe)
	return fl, nil
}

func (a *adapter) Apply(s engine.Step) (engine.Fields, error) {
	switch s.Act.Name {
	case "Push":
		a.ls = append(a.ls, s.Act.Args[0].S())
	case "Pop":
		a.ls = a.ls[:len(a.ls)-1]
	default:
		return nil, fmt.Errorf("unknown action %s", s.Act.Name)
	}
	return evaluate(append([]string{}, a.ls...), a.universe), nil
}

func (a *adapter) Close() {}

// seeded grid: longer lists with repeated leaves, far outside TLC's bound; one "row" event per list
func driveGrid(args []string) error {
	fs := flag.NewFlagSet("merkle-grid", flag.ContinueOnError)
	out := fs.String("out", "rows.ndjson", "")
	seed := fs.Int64("seed", 1, "")
	rows := fs.Int("rows", 200, "")
	maxLen := fs.Int("maxlen", 40, "")
	if err := fs.Parse(args); err != nil {
		return err
	}
	f, err := os.Create(*out)
	if err != nil {
		return err
	}
	defer f.Close()
	w := bufio.NewWriter(f)
	defer w.Flush()
	enc := json.NewEncoder(w)
	rng := rand.New(rand.NewSource(*seed))
	for r := 0; r < *rows; r++ {
		n := rng.Intn(*maxLen + 1)
		alphabet := 2 + rng.Intn(n+2) // few distinct leaves -> many repetitions, many -> all distinct
		var uni []string
		for i := 0; i < alphabet; i++ {
			uni = append(uni, fmt.Sprintf("x%d", i))
		}
		atoms := make([]string, n)
		for i := range atoms {
			atoms[i] = uni[rng.Intn(alphabet)]
		}
		if len(uni) > 6 {
			uni = uni[:6]
		}
		fl := evaluate(atoms, append(uni, "never"))
		fl["ev"], fl["beh"], fl["step"] = "row", r, 0
		if err := enc.Encode(fl); err != nil {
			return err
		}
	}
	fmt.Printf("{\"rows\": %d}\n", *rows)
	return nil
}

func init() {
	engine.Register("merkle", func() engine.Adapter { return &adapter{} })
	engine.RegisterDriver("merkle-grid", driveGrid)
}
