// Package ledger binds spec/Ledger.tla (generator, design model) and spec/TraceLedger.tla (property monitor)
// to the real transaction processor / block assembler / validator (C05 LEMO conservation + exact gas,
// C11 candidate votes, C12 issued assets).
//
// generate -> execute -> validate: every spec action names one abstract transaction.  The adapter keeps the
// abstract transactions of the block under construction; after every transaction action it turns the whole
// prefix into REAL signed transactions and mines a real block on the committed parent with the real assembler
// (node.Build -> ApplyTxs, Finalize, Seal), so every edge of the TLC graph is executed on the real code.  EndBlock
// feeds the last prefix block to a second real node through DPoVP.InsertBlock (validator path: VerifyAndSeal ->
// Process, Finalize) and commits it as the parent of the next block.  Per block the adapter logs which
// transactions were packaged / discarded, tx.GasUsed, gas limit / price, payer and the state of the whole address
// universe before and after (balances, votes, voteFor, candidate registration + deposit, asset supply and every
// holder's equity), read with account.NewManager(blockHash, db).  It never judges.
//
// Issued assets.  The setup chain creates one asset per category / flag combination the code distinguishes (assetDefs:
// token, non-fungible, common, and a common one that the setup chain FREEZES after issuing it) and issues them
// (setupIssues); in categories 2 and 3 the asset id is the hash of the issue transaction, so every id has a name of its
// own (N1, C2, ...; X1.. for the ids that issue transactions of the scenario create - the spec action names the slot).
// The state lists supply / freeze per code and, per id, every holder's equity and the code recorded with the equity.
//
// Block gas.  The spec action GasLimit(g) makes the header of the block under construction name gas limit g (as
// harness/adapters/blockexec does, node.BuildWith); a candidate that does not fit is neither packaged nor discarded by
// the miner (logged as inc=false, left=true).
//
// Voters at balance zero.  Account a5 holds a key and owns nothing (the setup chain never touches it): VoteBy lets it vote
// with its gas paid by another account; SpendAll makes an account send away what it really owns to the last unit (read from
// the real state after the candidates before).  Mixed boxes.  MixedBox carries arbitrary sub transactions (templates of
// the spec: candidate / vote / asset transactions next to transfers); a box whose later sub transaction is invalid is given
// up by the miner and logged as discarded with all its sub transactions - what it left behind shows in the logged state.
// Every state also lists the node's candidate ranking at that block (store.GetCandidatesTop: votes per listed candidate).
//
// Worlds.  The initial state of a behaviour names the term duration T, the interim duration I and the height h0 of
// the last setup block (st.T, st.I, st.h).  With the real durations (the "mid-term" world) the scenario blocks are
// heights 4-5 of the genesis term, never confirmed, and every behaviour forks off the last setup block of one node
// pair.  With a small T (params.TermDuration / InterimDuration are package variables) the setup chain continues with
// empty blocks up to h0 >= T, so that the snapshot block of term 1 is a stable setup block, and the scenario blocks are
// interim blocks, the REWARD block T+I+1 and the blocks after it.  There every committed scenario block is made stable
// (validator: DPoVP.InsertConfirms with the other deputies' signatures; builder: store.SetStableBlock), as on a live
// chain where the interim period is far longer than the confirmation delay - the candidate index the reward block's
// refunds are enumerated from follows stable blocks - and every behaviour gets a fresh node pair.
package ledger

import (
	"crypto/ecdsa"
	"encoding/json"
	"fmt"
	"math/big"
	"os"
	"path/filepath"
	"strconv"
	"time"

	"github.com/LemoFoundationLtd/lemochain-core/chain"
	"github.com/LemoFoundationLtd/lemochain-core/chain/account"
	"github.com/LemoFoundationLtd/lemochain-core/chain/deputynode"
	"github.com/LemoFoundationLtd/lemochain-core/chain/params"
	"github.com/LemoFoundationLtd/lemochain-core/chain/types"
	"github.com/LemoFoundationLtd/lemochain-core/common"
	"github.com/LemoFoundationLtd/lemochain-core/common/crypto"
	"github.com/LemoFoundationLtd/lemochain-core/store"

	"verifharness/engine"
	"verifharness/node"
	"verifharness/tla"
)

// Unit: every LEMO amount is logged in units of 10^15 mo (1 LEMO = 1000 u); gas prices are whole units per gas.
// TLC integers are 32 bit: chain.TotalLEMO is lowered so that the sum of all balances stays below 2^31 u.
var unit = new(big.Int).Exp(big.NewInt(10), big.NewInt(15), nil)

const (
	lemo       = 1000 // units per LEMO
	totalLemo  = 1000000
	hugeInt    = 2000000000 // abstract amount standing for 2^256 in asset transactions
	rewardPool = 600000     // params.TermRewardPoolTotal in LEMO (lowered like chain.TotalLEMO)
)

func units(n int64) *big.Int { return new(big.Int).Mul(big.NewInt(n), unit) }

// atx is one abstract transaction (what the spec action names) plus what the real code did with it.
type atx struct {
	uid  int    // unique per abstract transaction: goes into the message field, so that equal-looking transactions are distinct signed transactions
	K    string // xfer vote reg topup unreg create issue repl axfer freeze unfreeze box
	F    string
	T    string
	P    string
	Amt  int64
	GL   uint64
	GP   int64
	Subs []*atx
	C    string // asset transactions: the asset code (by name) ...
	ID   string // ... and the asset id (by name) they name; an issue in category 2 / 3 CREATES the id of that name
	// filled after execution
	Inc  bool
	Dis  bool // discarded by the miner as invalid
	GU   uint64
	hash common.Hash
	X    int64 // kind specific: the term of a reward setting
}

// assetDef: an asset the setup chain creates (issuer a4)
type assetDef struct {
	name      string
	cat       int
	div, repl bool
}

var assetDefs = []assetDef{{"T", 1, true, true}, {"N", 2, false, false}, {"C", 3, true, true}, {"G", 3, true, false}}

// setupIssues: the issue transactions of setup block S2 (category 1: id = code; otherwise the transaction creates the id)
var setupIssues = []struct {
	code, id, to string
	amt          int64
}{{"T", "T", "a1", 100}, {"T", "T", "a2", 100}, {"N", "N1", "a1", 100}, {"N", "N2", "a2", 1},
	{"C", "C1", "a1", 100}, {"C", "C2", "a2", 100}, {"G", "G1", "a1", 100}}

const frozenInSetup = "G"

var freshSlots = []string{"X1", "X2", "X3"}

// world: one setup chain (see the package comment)
type world struct {
	T, I  uint32
	h0    int
	stab  bool
	setup []*types.Block
}

type acct struct {
	name string
	key  *ecdsa.PrivateKey
	addr common.Address
}

type adapter struct {
	w       *node.World
	uidc    int
	dir     string
	seed    int64
	accs    []*acct
	byName  map[string]*acct
	byAddr  map[common.Address]string
	setup   []*types.Block // S1, S2, S3 built once per process
	worlds  map[string]*world
	wd      *world // the world of the current node pair
	defT    uint32
	defI    uint32
	codeHash map[string]common.Hash // asset code by name
	codeName map[common.Hash]string
	idHash   map[string]common.Hash // asset id by name (setup ids; fresh slots once an issue transaction was built for them)
	idNames  []string
	bgl      uint64 // gas limit the header of the block under construction names (0: the parent's, ample)
	nfresh   int    // fresh asset id slots handed to the issue actions of this behaviour
	gen     *node.Node // builds the setup blocks
	B, V    *node.Node
	parent  *types.Block
	pending []*atx
	last    *types.Block
	lastTxs []*atx
	seq     int
	txseq   uint64
	initBal map[string]int64
	height  int
	nbuild  int
	nbeh    int
	retired []retiredNode
	logPre  bool
	dirty   bool
	recycle int
}

func detKey(tag byte, i int) *ecdsa.PrivateKey {
	b := make([]byte, 32)
	b[0] = 0x11
	b[1] = tag
	b[30] = byte(i >> 8)
	b[31] = byte(i + 1)
	k, err := crypto.ToECDSA(b)
	if err != nil {
		panic(err)
	}
	return k
}

func envInt(k string, d int) int {
	if v := os.Getenv(k); v != "" {
		n, err := strconv.Atoi(v)
		if err != nil {
			engine.Failf("bad %s=%s", k, v)
		}
		return n
	}
	return d
}

var runtimeCode = map[string][]byte{
	"KS": {0x00},                         // STOP: accepts value
	"KR": {0x60, 0x00, 0x60, 0x00, 0xfd}, // REVERT(0,0)
	"KX": {0xfe},                         // INVALID: consumes all gas
	"KD": {0x30, 0xff},                   // SELFDESTRUCT(ADDRESS): burns its balance
	"KO": {0x33, 0xff},                   // SELFDESTRUCT(CALLER): hands its balance to the caller
}

// what the setup transactions of an account cost it, roughly (deposit + fees), so that it starts the scenario near initBal
// (the genesis deputies also EARN the fees of the setup blocks they mine before their income address points at I)
var setupCost = map[string]int64{"a1": 35, "a3": 300 + 112, "a4": 4*75 + 7*64 + 39, "M1": 112 - 233, "M2": 112 - 359}
var contractNames = []string{"KS", "KR", "KX", "KD", "KO"}

func initCode(rt []byte) []byte {
	n := byte(len(rt))
	return append([]byte{0x60, n, 0x60, 0x0c, 0x60, 0x00, 0x39, 0x60, n, 0x60, 0x00, 0xf3}, rt...)
}

func (a *adapter) add(name string, key *ecdsa.PrivateKey, addr common.Address) {
	ac := &acct{name: name, key: key, addr: addr}
	if key != nil {
		ac.addr = crypto.PubkeyToAddress(key.PublicKey)
	}
	a.accs = append(a.accs, ac)
	a.byName[name] = ac
	a.byAddr[ac.addr] = name
}

func (a *adapter) init() {
	a.dir = os.Getenv("VERIF_SCRATCH_DIR")
	if a.dir == "" {
		a.dir = filepath.Join(os.TempDir(), fmt.Sprintf("verif-ledger-%d", os.Getpid()))
	}
	a.seed = int64(envInt("VERIF_SEED", 1))
	a.recycle = envInt("VERIF_LEDGER_RECYCLE", 150)
	chain.TotalLEMO = units(totalLemo * lemo)
	params.MinCandidateDeposit = units(300 * lemo)
	params.TermRewardPoolTotal = units(rewardPool * lemo)
	a.defT, a.defI = params.TermDuration, params.InterimDuration
	a.worlds = map[string]*world{}
	a.codeHash, a.codeName, a.idHash = map[string]common.Hash{}, map[common.Hash]string{}, map[string]common.Hash{}
	a.w = node.NewWorld(2, 1000)
	deputynode.SetSelfNodeKey(a.w.Outsider2())
	a.byName = map[string]*acct{}
	a.byAddr = map[common.Address]string{}
	for i := 1; i <= 4; i++ {
		a.add(fmt.Sprintf("a%d", i), detKey(0xc0, i), common.Address{})
	}
	a.add("a5", detKey(0xc0, 5), common.Address{}) // holds a key and owns NOTHING: the setup chain never touches it
	a.add("I", detKey(0xc1, 0), common.Address{})
	for i := 0; i < 2; i++ { // the deputies' miner addresses (node.NewWorld derives them from these keys)
		a.add(fmt.Sprintf("M%d", i+1), detKey(0xa0, i), common.Address{})
		if a.accs[len(a.accs)-1].addr != a.w.Miners[i] {
			engine.Failf("miner key derivation of package node changed")
		}
	}
	a.add("F", a.w.FounderKey, common.Address{})
	a.add("R", nil, params.TermRewardContract)
	a.add("P", nil, params.DepositPoolAddress)
	a.add("Z", nil, common.Address{})
	// initial balances in LEMO; the seed moves them a little around the 200-LEMO vote boundary
	d := (a.seed % 3) * 4
	a.initBal = map[string]int64{"a1": 405 + d, "a2": 190 - d, "a3": 250 + d, "a4": 1000, "I": 13 - d, "M1": 600, "M2": 600}
	a.gen = a.w.NewNode(filepath.Join(a.dir, "gen"))
	a.buildSetup()
}

func (a *adapter) must(tx *types.Transaction, err error) *types.Transaction {
	if err != nil {
		engine.Failf("sign: %v", err)
	}
	return tx
}

func (a *adapter) exp() uint64 {
	a.txseq++
	return uint64(node.GenesisTime) + 1000 + a.txseq%700
}

func (a *adapter) profile(ac *acct, isCand bool, income common.Address) []byte {
	nodeID := crypto.PrivateKeyToNodeID(ac.key)
	if ac.name == "M1" {
		nodeID = a.w.NodeIDs[0]
	} else if ac.name == "M2" {
		nodeID = a.w.NodeIDs[1]
	}
	p := map[string]string{
		types.CandidateKeyIsCandidate:   strconv.FormatBool(isCand),
		types.CandidateKeyNodeID:        common.ToHex(nodeID)[2:],
		types.CandidateKeyHost:          "127.0.0.1",
		types.CandidateKeyPort:          "7001",
		types.CandidateKeyIncomeAddress: income.String(),
	}
	b, _ := json.Marshal(p)
	return b
}

// incomeOf: a candidate's profile names itself as income address; the two genesis deputies keep naming I (every
// RegisterTx of a registered candidate rewrites the profile), so that fees and term rewards have one destination.
func (a *adapter) incomeOf(f *acct) common.Address {
	if f.name == "M1" || f.name == "M2" {
		return a.byName["I"].addr
	}
	return f.addr
}

// realTx turns an abstract transaction into a real signed one (fresh object every time: the processor mutates
// GasUsed / box data).
func (a *adapter) realTx(t *atx, exp uint64) *types.Transaction {
	f := a.byName[t.F]
	if f == nil || f.key == nil {
		engine.Failf("no key for sender %q", t.F)
	}
	var to *common.Address
	if t.T != "" && t.K != "deploy" {
		ta := a.byName[t.T]
		if ta == nil {
			engine.Failf("unknown recipient %q", t.T)
		}
		to = &ta.addr
	}
	amount := new(big.Int)
	var data []byte
	var typ uint16
	amtS := strconv.FormatInt(t.Amt, 10)
	if t.Amt >= hugeInt {
		amtS = new(big.Int).Lsh(big.NewInt(1), 256).String()
	}
	switch t.K {
	case "xfer":
		typ, amount = params.OrdinaryTx, units(t.Amt)
	case "vote":
		typ = params.VoteTx
	case "setrew": // an ordinary transaction without LEMO calling the reward precompile
		typ = params.OrdinaryTx
		var err error
		if data, err = json.Marshal(params.RewardJson{Term: uint32(t.X), Value: units(t.Amt)}); err != nil {
			engine.Failf("reward data: %v", err)
		}
	case "reg", "topup":
		typ, amount, to = params.RegisterTx, units(t.Amt), nil
		data = a.profile(f, true, a.incomeOf(f))
	case "unreg":
		typ, to = params.RegisterTx, nil
		data = a.profile(f, false, a.incomeOf(f))
	case "income": // candidate profile update naming another income address
		typ = params.RegisterTx
		data = a.profile(f, true, *to)
		to = nil
	case "deploy":
		typ, to = params.CreateContractTx, nil
		data = initCode(runtimeCode[t.T])
	case "create":
		typ, to = params.CreateAssetTx, nil
		d := a.assetDef(t.C)
		data = []byte(fmt.Sprintf(`{"category":"%d","isDivisible":%v,"decimal":"0","isReplenishable":%v,"profile":{"name":"%s","symbol":"%s","description":"d","suggestedGasLimit":"60000"}}`,
			d.cat, d.div, d.repl, d.name, d.name))
	case "issue":
		typ = params.IssueAssetTx
		data = []byte(fmt.Sprintf(`{"assetCode":"%s","metaData":"m","supplyAmount":"%s"}`, a.code(t.C).Hex(), amtS))
	case "repl":
		typ = params.ReplenishAssetTx
		data = []byte(fmt.Sprintf(`{"assetCode":"%s","assetId":"%s","replenishAmount":"%s"}`, a.code(t.C).Hex(), a.id(t.ID).Hex(), amtS))
	case "axfer":
		typ = params.TransferAssetTx
		data = []byte(fmt.Sprintf(`{"assetId":"%s","transferAmount":"%s"}`, a.id(t.ID).Hex(), amtS))
	case "freeze", "unfreeze":
		typ, to = params.ModifyAssetTx, nil
		data = []byte(fmt.Sprintf(`{"assetCode":"%s","updateProfile":{"freeze":"%v"}}`, a.code(t.C).Hex(), t.K == "freeze"))
	case "box":
		typ, to = params.BoxTx, nil
		var subs types.Transactions
		for _, s := range t.Subs {
			subs = append(subs, a.realTx(s, exp))
		}
		var err error
		data, err = types.MarshalBoxData(subs)
		if err != nil {
			engine.Failf("box data: %v", err)
		}
	default:
		engine.Failf("unknown tx kind %q", t.K)
	}
	gp := units(t.GP)
	if t.uid == 0 {
		a.uidc++
		t.uid = a.uidc
	}
	msg := fmt.Sprintf("u%d", t.uid)
	var tx *types.Transaction
	if t.P != "" && t.P != t.F {
		p := a.byName[t.P]
		if p == nil || p.key == nil {
			engine.Failf("no key for payer %q", t.P)
		}
		if to == nil {
			tx = types.NewReimbursementContractCreation(f.addr, p.addr, amount, data, typ, node.ChainID, exp, "", msg)
		} else {
			tx = types.NewReimbursementTransaction(f.addr, *to, p.addr, amount, data, typ, node.ChainID, exp, "", msg)
		}
		tx = a.must(types.MakeReimbursementTxSigner().SignTx(tx, f.key))
		tx = types.GasPayerSignatureTx(tx, gp, t.GL)
		tx = a.must(types.MakeGasPayerSigner().SignTx(tx, p.key))
	} else {
		if to == nil {
			tx = types.NoReceiverTransaction(f.addr, amount, t.GL, gp, data, typ, node.ChainID, exp, "", msg)
		} else {
			tx = types.NewTransaction(f.addr, *to, amount, t.GL, gp, data, typ, node.ChainID, exp, "", msg)
		}
		tx = a.must(types.MakeSigner().SignTx(tx, f.key))
	}
	t.hash = tx.Hash()
	// the id an issue transaction of category 2 / 3 creates is the hash of that transaction
	if t.K == "issue" && t.ID != t.C {
		a.idHash[t.ID] = t.hash
	}
	return tx
}

func (a *adapter) assetDef(name string) assetDef {
	for _, d := range assetDefs {
		if d.name == name {
			return d
		}
	}
	engine.Failf("unknown asset %q", name)
	return assetDef{}
}

func (a *adapter) code(name string) common.Hash {
	h, ok := a.codeHash[name]
	if !ok {
		engine.Failf("unknown asset code %q", name)
	}
	return h
}

// id: the asset id of that name; a slot no issue transaction was built for yet names an id that does not exist
func (a *adapter) id(name string) common.Hash {
	if h, ok := a.idHash[name]; ok {
		return h
	}
	return crypto.Keccak256Hash([]byte("unissued asset id " + name))
}

func mk(k, f, t string, amt int64, gl uint64) *atx {
	return &atx{K: k, F: f, T: t, P: f, Amt: amt, GL: gl, GP: 1}
}

// buildSetup builds the three common setup blocks once: S1 funds the universe, deploys the contracts, creates the
// asset and registers candidate a3; S2 issues the asset to a1 and a2 and lets a1 vote for a3; S3 points the genesis
// deputies' income address at I.  Every node of a behaviour receives the setup chain of its world (worldOf) through
// DPoVP.InsertBlock and DPoVP.InsertConfirms.
func (a *adapter) buildSetup() {
	g := a.gen.Genesis
	var s1 []*atx
	for _, n := range []string{"a1", "a2", "a3", "a4", "I", "M1", "M2"} {
		s1 = append(s1, mk("xfer", "F", n, (a.initBal[n]+setupCost[n])*lemo, 30000))
	}
	for _, c := range contractNames {
		s1 = append(s1, mk("deploy", "F", c, 0, 200000))
	}
	var creates []*atx
	for _, d := range assetDefs {
		c := mk("create", "a4", "", 0, 150000)
		c.C = d.name
		creates = append(creates, c)
		s1 = append(s1, c)
	}
	s1 = append(s1, mk("reg", "a3", "", 300*lemo, 200000))
	txs := a.realAll(s1)
	for i, c := range contractNames {
		a.add(c, nil, crypto.CreateContractAddress(a.byName["F"].addr, s1[7+i].hash))
	}
	b1 := a.buildOn(a.gen, g, txs, s1, "S1")
	for _, c := range creates { // the asset code is the hash of the create transaction; a token's one id is its code
		a.codeHash[c.C], a.codeName[c.hash] = c.hash, c.C
		if a.assetDef(c.C).cat == 1 {
			a.idHash[c.C] = c.hash
		}
	}
	if _, err := a.gen.DB.SetStableBlock(b1.Hash()); err != nil {
		engine.Failf("setup: stabilise S1: %v", err)
	}
	var s2 []*atx
	for _, is := range setupIssues {
		t := mk("issue", "a4", is.to, is.amt, 150000)
		t.C, t.ID = is.code, is.id
		s2 = append(s2, t)
		if len(a.idNames) == 0 || a.idNames[len(a.idNames)-1] != is.id {
			a.idNames = append(a.idNames, is.id)
		}
	}
	a.idNames = append(a.idNames, freshSlots...)
	frz := mk("freeze", "a4", "", 0, 100000) // one asset is frozen from the start
	frz.C = frozenInSetup
	s2 = append(s2, mk("vote", "a1", "a3", 0, 40000), frz)
	b2 := a.buildOn(a.gen, b1, a.realAll(s2), s2, "S2")
	if _, err := a.gen.DB.SetStableBlock(b2.Hash()); err != nil {
		engine.Failf("setup: stabilise S2: %v", err)
	}
	s3 := []*atx{mk("income", "M1", "I", 0, 200000), mk("income", "M2", "I", 0, 200000)}
	b3 := a.buildOn(a.gen, b2, a.realAll(s3), s3, "S3")
	a.setup = []*types.Block{b1, b2, b3}
}

func (a *adapter) realAll(l []*atx) types.Transactions {
	var txs types.Transactions
	for _, t := range l {
		txs = append(txs, a.realTx(t, a.exp()))
	}
	return txs
}

// buildOn mines a block whose transactions must all be packaged (setup).
func (a *adapter) buildOn(n *node.Node, parent *types.Block, txs types.Transactions, abs []*atx, extra string) *types.Block {
	b, invalid, err := n.Build(parent, int(parent.Height())%2, 0, txs, extra)
	if err != nil || len(invalid) != 0 || len(b.Txs) != len(txs) {
		engine.Realf("setup block %s: err=%v discarded=%d packaged=%d of %d", extra, err, len(invalid), len(b.Txs), len(txs))
	}
	return b
}

// fresh gives a new real node that received the setup blocks through DPoVP.InsertBlock and the confirms of both
// deputies through DPoVP.InsertConfirms, so that they are stable (asset transactions need a stable create / issue).
func (a *adapter) fresh(tag string, wd *world) *node.Node {
	n := a.w.NewNode(filepath.Join(a.dir, fmt.Sprintf("%s%d", tag, a.seq)))
	for _, s := range wd.setup {
		if _, err := n.DP.InsertBlock(node.Copy(s, nil)); err != nil {
			engine.Realf("feeding setup block to %s: %v", tag, err)
		}
		sigs := []types.SignData{node.Sign(s.Hash(), a.w.Keys[0], 0), node.Sign(s.Hash(), a.w.Keys[1], 0)}
		if err := n.DP.InsertConfirms(s.Height(), s.Hash(), sigs); err != nil {
			engine.Realf("confirming setup block on %s: %v", tag, err)
		}
	}
	if n.DP.StableBlock().Hash() != wd.setup[len(wd.setup)-1].Hash() {
		engine.Realf("setup blocks did not become stable on %s", tag)
	}
	// The store writes the asset-code -> issuer index of a stable block from a background goroutine; until then the
	// processor of this node discards / rejects every transaction on the asset ("asset dose not exist").  Wait for it
	// (setup only; no verdict depends on the clock).
	for i := 0; ; i++ {
		missing := 0
		for _, h := range a.codeHash {
			if is, err := n.DB.GetAssetCode(h); err != nil || is != a.byName["a4"].addr {
				missing++
			}
		}
		if missing == 0 {
			break
		}
		if i > 20000 {
			engine.Failf("asset index of the stable setup blocks never appeared on %s", tag)
		}
		time.Sleep(time.Millisecond)
	}
	return n
}

// worldOf returns (building it on first use) the setup chain for the durations and setup height a behaviour names.
func (a *adapter) worldOf(T, I uint32, h0 int, stab bool) *world {
	key := fmt.Sprintf("%d/%d/%d/%v", T, I, h0, stab)
	if wd, ok := a.worlds[key]; ok {
		return wd
	}
	wd := &world{T: T, I: I, h0: h0, stab: stab, setup: append([]*types.Block(nil), a.setup...)}
	if h0 < len(a.setup) || T <= uint32(len(a.setup)) {
		engine.Failf("world %s: the setup blocks occupy heights 1..%d of the genesis term", key, len(a.setup))
	}
	if h0 > len(a.setup) {
		// A term-boundary world.  Block 4 prepares what a term change needs within a few scenario steps: both genesis
		// deputies hold a deposit (M2 the larger one: it is re-elected next to a3, M1 is not), a4 is a candidate that
		// is not elected, and M1 and a4 vote for a3.
		// Then empty blocks up to h0, the snapshot block of term 1 among them; the scenario must not contain a snapshot
		// block and starts before term 1's deputies sign.
		if T <= uint32(len(a.setup))+1 || uint32(h0) < T || uint32(h0) > T+I {
			engine.Failf("world %s: the snapshot block must follow the setup blocks and the last setup block must lie in T..T+I", key)
		}
		a.setParams(wd)
		parent := wd.setup[len(wd.setup)-1]
		// (the votes come first: a vote after a balance change in the same block is Dev_VoteUsesPreTxBalance)
		s4 := []*atx{mk("vote", "M1", "a3", 0, 40000), mk("vote", "a4", "a3", 0, 40000),
			mk("topup", "M1", "", 300*lemo, 130000), mk("topup", "M2", "", 400*lemo, 130000), mk("reg", "a4", "", 300*lemo, 130000)}
		parent = a.buildOn(a.gen, parent, a.realAll(s4), s4, "S4."+key)
		wd.setup = append(wd.setup, parent)
		for int(parent.Height()) < h0 {
			parent = a.buildOn(a.gen, parent, nil, nil, fmt.Sprintf("S%d.%s", parent.Height()+1, key))
			wd.setup = append(wd.setup, parent)
		}
	}
	a.worlds[key] = wd
	return wd
}

func (a *adapter) setParams(wd *world) {
	params.TermDuration, params.InterimDuration = wd.T, wd.I
}

func (a *adapter) nodeID(ac *acct) []byte {
	switch ac.name {
	case "M1":
		return a.w.NodeIDs[0]
	case "M2":
		return a.w.NodeIDs[1]
	}
	if ac.key == nil {
		return nil
	}
	return crypto.PrivateKeyToNodeID(ac.key)
}

// nodeKey: the private key behind a deputy's node id (world deputies, or an account of the universe that was elected)
func (a *adapter) nodeKey(id []byte) *ecdsa.PrivateKey {
	for i, x := range a.w.NodeIDs {
		if string(x) == string(id) {
			return a.w.Keys[i]
		}
	}
	for _, ac := range a.accs {
		if ac.key != nil && ac.name != "M1" && ac.name != "M2" && string(crypto.PrivateKeyToNodeID(ac.key)) == string(id) {
			return ac.key
		}
	}
	return nil
}

// terms describes, for every term the setup chain has elected, which accounts of the universe are its deputies (by
// node id, as IsNodeDeputy sees them) and whom its reward would be paid to (income account and votes of every node).
func (a *adapter) terms(n *node.Node, wd *world, at common.Hash) (deps [][]string, payees [][]map[string]interface{}) {
	am := account.NewManager(at, n.DB)
	for k := uint32(0); k <= uint32(wd.h0)/wd.T; k++ {
		h := uint32(1)
		if k > 0 {
			h = k*wd.T + wd.I + 1
		}
		term, err := n.DM.GetTermByHeight(h, true)
		if err != nil {
			engine.Failf("term %d is not known to the node: %v", k, err)
		}
		ds, ps := []string{}, []map[string]interface{}{}
		for _, d := range term.GetDeputies(n.DM.DeputyCount) {
			for _, ac := range a.accs {
				if id := a.nodeID(ac); id != nil && string(id) == string(d.NodeID) {
					ds = append(ds, ac.name)
				}
			}
		}
		for _, d := range term.Nodes {
			inc := d.MinerAddress
			if s := am.GetAccount(d.MinerAddress).GetCandidateState(types.CandidateKeyIncomeAddress); s != "" {
				if x, err := common.StringToAddress(s); err == nil {
					inc = x
				}
			}
			name, ok := a.byAddr[inc]
			if !ok {
				engine.Failf("income address of a term-%d node outside the universe: %s", k, inc.String())
			}
			bad := []string{}
			ps = append(ps, map[string]interface{}{"a": name, "v": small(d.Votes, "votes", &bad)})
		}
		deps, payees = append(deps, ds), append(payees, ps)
	}
	return
}

// Reset: in the mid-term world the builder node B and the validator node V are kept for `recycle` behaviours: scenario
// blocks are never confirmed there (2 deputies: a block needs both), so every behaviour forks off the last setup block.
// In a term-boundary world committed blocks become stable, so every behaviour gets a fresh pair.
func (a *adapter) Reset(init map[string]tla.Value) (engine.Fields, error) {
	if a.w == nil {
		a.init()
	}
	T, I, h0, stab := a.defT, a.defI, len(a.setup), false
	if st, ok := init["st"]; ok {
		T, I, h0, stab = uint32(st.F("T").I()), uint32(st.F("I").I()), st.F("h").I(), st.F("stab").B()
	} else if v := os.Getenv("VERIF_LEDGER_WORLD"); v != "" { // probe driver: "T,I,h0,stab"
		var t, i, h, sb int
		if _, err := fmt.Sscanf(v, "%d,%d,%d,%d", &t, &i, &h, &sb); err != nil {
			engine.Failf("bad VERIF_LEDGER_WORLD=%s", v)
		}
		T, I, h0, stab = uint32(t), uint32(i), h, sb != 0
	}
	wd := a.worldOf(T, I, h0, stab)
	a.setParams(wd)
	if a.B == nil || a.dirty || a.wd != wd || wd.stab || a.nbeh%a.recycle == 0 {
		a.dirty = false
		a.retire(a.B, a.V)
		a.reap(false)
		a.seq++
		a.wd = wd
		a.B, a.V = a.fresh("b", wd), a.fresh("v", wd)
	}
	a.nbeh++
	a.parent = wd.setup[len(wd.setup)-1]
	a.pending, a.last, a.lastTxs, a.bgl, a.nfresh = nil, nil, nil, 0, 0
	for _, x := range freshSlots { // the ids the scenario's issue transactions will create do not exist yet
		delete(a.idHash, x)
	}
	names := []string{}
	for _, ac := range a.accs {
		names = append(names, ac.name)
	}
	bad := []string{}
	fl := engine.Fields{"accs": names, "income": "I", "pool": "P", "zero": "Z", "issuer": "a4",
		"V": 200 * lemo, "D": 100 * lemo, "mindep": 300 * lemo,
		"rev": []string{"KR", "KX"}, "sink": []string{"KS"}, "burn": []string{"KD"}, "back": []string{"KO"},
		"rm": "F", "rc": "R", "prec": toUnits(params.MinRewardPrecision, "prec", &bad), "rpool": toUnits(params.TermRewardPoolTotal, "rpool", &bad),
		"height": int(a.parent.Height()), "stab": wd.stab, "fresh": freshSlots}
	assets := map[string]interface{}{}
	for _, d := range assetDefs {
		assets[d.name] = map[string]interface{}{"cat": d.cat, "div": d.div, "repl": d.repl, "iss": "a4"}
	}
	fl["assets"] = assets
	fl["deps"], fl["payees"] = a.terms(a.B, wd, a.parent.Hash())
	fl["st"] = a.state(a.B.DB, a.parent.Hash(), &bad)
	fl["inexact"] = bad
	return fl, nil
}

// toUnits divides exactly; a remainder (or a value outside 32 bits) is reported in `bad`, judged by the trace spec.
func toUnits(v *big.Int, what string, bad *[]string) int64 {
	q, r := new(big.Int).QuoRem(v, unit, new(big.Int))
	if r.Sign() != 0 || !q.IsInt64() || q.Int64() > 2100000000 || q.Int64() < -2100000000 {
		*bad = append(*bad, what+"="+v.String())
		return 0
	}
	return q.Int64()
}

func small(v *big.Int, what string, bad *[]string) int64 {
	if v == nil {
		return 0
	}
	if !v.IsInt64() || v.Int64() > 2100000000 || v.Int64() < -2100000000 {
		*bad = append(*bad, what+"="+v.String())
		return 0
	}
	return v.Int64()
}

// state reads the whole universe at block `h` from db.
func (a *adapter) state(db *store.ChainDatabase, h common.Hash, bad *[]string) map[string]interface{} {
	am := account.NewManager(h, db)
	bal, votes, vf, reg, dep := map[string]int64{}, map[string]int64{}, map[string]string{}, map[string]string{}, map[string]int64{}
	code := map[string]bool{}
	// per asset id: every holder's equity (non-zero ones) and the asset code recorded with the equity entries
	eq, idc := map[string]map[string]int64{}, map[string]string{}
	for _, id := range a.idNames {
		eq[id], idc[id] = map[string]int64{}, "none"
	}
	for _, ac := range a.accs {
		x := am.GetAccount(ac.addr)
		bal[ac.name] = toUnits(x.GetBalance(), "bal."+ac.name, bad)
		votes[ac.name] = small(x.GetVotes(), "votes."+ac.name, bad)
		v := x.GetVoteFor()
		if (v == common.Address{}) {
			vf[ac.name] = "none"
		} else if n, ok := a.byAddr[v]; ok {
			vf[ac.name] = n
		} else {
			engine.Failf("%s votes for an address outside the universe: %s", ac.name, v.String())
		}
		cd, _ := x.GetCode()
		code[ac.name] = len(cd) > 0
		prof := x.GetCandidate()
		switch prof[types.CandidateKeyIsCandidate] {
		case types.IsCandidateNode:
			reg[ac.name] = "yes"
		case types.NotCandidateNode:
			reg[ac.name] = "was"
		default:
			reg[ac.name] = "no"
		}
		dep[ac.name] = 0
		if s := prof[types.CandidateKeyDepositAmount]; s != "" {
			d, ok := new(big.Int).SetString(s, 10)
			if !ok {
				*bad = append(*bad, "dep."+ac.name+"="+s)
			} else {
				dep[ac.name] = toUnits(d, "dep."+ac.name, bad)
			}
		}
		for _, id := range a.idNames {
			h, ok := a.idHash[id]
			if !ok {
				continue
			}
			e, err := x.GetEquityState(h)
			if err == types.ErrEquityNotExist || (err == nil && e == nil) {
				continue
			}
			if err != nil {
				*bad = append(*bad, "eq."+id+"."+ac.name+":"+err.Error())
				continue
			}
			if v := small(e.Equity, "eq."+id+"."+ac.name, bad); v != 0 {
				eq[id][ac.name] = v
			}
			cn, known := a.codeName[e.AssetCode]
			if !known || e.AssetId != h || (idc[id] != "none" && idc[id] != cn) {
				*bad = append(*bad, fmt.Sprintf("eq.%s.%s names code %s id %s", id, ac.name, e.AssetCode.Hex(), e.AssetId.Hex()))
			} else {
				idc[id] = cn
			}
		}
	}
	sup, frz := map[string]int64{}, map[string]bool{}
	st := map[string]interface{}{"bal": bal, "votes": votes, "vf": vf, "reg": reg, "dep": dep, "eq": eq, "idc": idc, "code": code, "sup": sup, "frz": frz}
	// the block's height, the durations in force, and what the reward precompile has stored for terms 0 and 1
	st["T"], st["I"] = int(params.TermDuration), int(params.InterimDuration)
	if blk, err := db.GetBlockByHash(h); err == nil {
		st["h"] = int(blk.Height())
	} else {
		engine.Failf("state: block %s: %v", h.Hex(), err)
	}
	rwd, rwt := []int64{0, 0}, []int64{0, 0}
	rc := am.GetAccount(params.TermRewardContract)
	if raw, err := rc.GetStorageState(params.TermRewardContract.Hash()); err != nil {
		*bad = append(*bad, "rewards:"+err.Error())
	} else if len(raw) > 0 {
		m := make(params.RewardsMap)
		if err := json.Unmarshal(raw, &m); err != nil {
			*bad = append(*bad, "rewards:"+err.Error())
		}
		for k, r := range m {
			if k > 1 || r == nil || r.Value == nil {
				*bad = append(*bad, fmt.Sprintf("rewards.term%d", k))
				continue
			}
			rwd[k], rwt[k] = toUnits(r.Value, fmt.Sprintf("rwd.%d", k), bad), int64(r.Times)
		}
	}
	st["rwd"], st["rwt"] = rwd, rwt
	// the node's candidate index (written when a block becomes stable)
	idx := map[string]bool{}
	for _, ac := range a.accs {
		idx[ac.name] = false
	}
	cands, err := db.GetAllCandidates()
	if err != nil {
		engine.Failf("candidate index: %v", err)
	}
	for _, c := range cands {
		n, ok := a.byAddr[c]
		if !ok {
			engine.Failf("candidate index names an address outside the universe: %s", c.String())
		}
		idx[n] = true
	}
	st["idx"], st["stab"] = idx, a.wd != nil && a.wd.stab
	// the node's candidate RANKING at this block (the list the election reads, maintained from the blocks' votes change
	// logs): the votes it records for every entry
	rank := map[string]int64{}
	for _, c := range db.GetCandidatesTop(h) {
		n, ok := a.byAddr[c.GetAddress()]
		if !ok {
			engine.Failf("candidate ranking names an address outside the universe: %s", c.GetAddress().String())
		}
		if _, dup := rank[n]; dup {
			*bad = append(*bad, "rank."+n+" listed twice")
		}
		rank[n] = small(c.GetTotal(), "rank."+n, bad)
	}
	st["rank"] = rank
	is := am.GetAccount(a.byName["a4"].addr)
	for _, d := range assetDefs {
		h := a.code(d.name)
		if s, err := is.GetAssetCodeTotalSupply(h); err == nil {
			sup[d.name] = small(s, "sup."+d.name, bad)
		} else {
			*bad = append(*bad, "sup."+d.name+":"+err.Error())
		}
		f, err := is.GetAssetCodeState(h, types.AssetFreeze)
		frz[d.name] = err == nil && f == "true"
	}
	return st
}

func (t *atx) json() map[string]interface{} {
	m := map[string]interface{}{"k": t.K, "f": t.F, "t": t.T, "p": t.P, "amt": t.Amt, "gl": t.GL, "gp": t.GP, "gu": t.GU, "inc": t.Inc, "x": t.X,
		"c": t.C, "id": t.ID, "left": !t.Inc && !t.Dis}
	subs := []interface{}{}
	for _, s := range t.Subs {
		subs = append(subs, s.json())
	}
	m["subs"] = subs
	return m
}

// mine builds the block of the pending prefix on the committed parent and fills in what happened to every tx.
func (a *adapter) mine() (*types.Block, []*atx) {
	var abs []*atx
	for _, t := range a.pending {
		c := *t
		c.Subs = nil
		for _, s := range t.Subs {
			sc := *s
			c.Subs = append(c.Subs, &sc)
		}
		abs = append(abs, &c)
	}
	txs := types.Transactions{}
	for i, t := range abs {
		// distinct expirations keep equal abstract transactions distinct real ones
		txs = append(txs, a.realTx(t, uint64(node.GenesisTime)+1000+uint64(int(a.parent.Height())*50+i)))
	}
	var tweak func(h *types.Header)
	if a.bgl > 0 {
		tweak = func(h *types.Header) { h.GasLimit = a.bgl }
	}
	blk, invalid, err := a.B.BuildWith(a.parent, a.minerFor(a.parent), 0, txs, fmt.Sprintf("h%d.%d", a.parent.Height()+1, a.nbuild), tweak, true)
	a.nbuild++
	if err != nil {
		engine.Realf("Build: %v", err)
	}
	// Every candidate is packaged, discarded as invalid, or left alone (it does not fit into the block any more).  The
	// message field identifies it (the hash of a packaged box differs from the candidate's: the processor rewrites its data).
	byMsg := map[string]*atx{}
	for _, t := range abs {
		byMsg[fmt.Sprintf("u%d", t.uid)] = t
	}
	for _, tx := range invalid {
		t := byMsg[tx.Message()]
		if t == nil || t.Dis {
			engine.Failf("the miner discarded a transaction it was not offered (or twice): %s", tx.Message())
		}
		t.Dis = true
	}
	for _, tx := range blk.Txs {
		t := byMsg[tx.Message()]
		if t == nil || t.Inc || t.Dis {
			engine.Realf("the miner packaged a transaction it was not offered, twice, or one it also discarded: %s", tx.Message())
		}
		t.Inc, t.GU = true, tx.GasUsed()
		if t.K == "box" { // the packaged box carries the executed sub transactions (their gasUsed) in its data
			box, err := types.GetBox(tx.Data())
			if err != nil || len(box.SubTxList) != len(t.Subs) {
				engine.Failf("packaged box unreadable: %v", err)
			}
			for j, s := range box.SubTxList {
				t.Subs[j].Inc, t.Subs[j].GU = true, s.GasUsed()
			}
		}
	}
	return blk, abs
}

// minerFor: the two genesis deputies take turns; after a term change the one that was re-elected mines.
func (a *adapter) minerFor(parent *types.Block) int {
	r := int(parent.Height()) % 2
	for _, c := range []int{r, 1 - r} {
		if a.B.DM.GetDeputyByAddress(parent.Height()+1, a.w.Miners[c]) != nil {
			return c
		}
	}
	// The setup chain of a term-boundary world is built so that genesis deputy M2 is re-elected (it holds more votes than
	// every candidate but a3).  The unchanged code elects it; if the code under test elects somebody else the honest
	// scenario cannot go on - a failure of the real code, not of the harness (the reset event carries the observation:
	// ranking, votes and elected nodes).
	engine.Realf("no genesis deputy signs at height %d: the snapshot block of the setup chain did not elect M2", parent.Height()+1)
	return 0
}

// stabilise makes the committed block stable on both nodes (worlds with st.stab): on the validator through the real
// route - the confirms of the other deputies of the block's term arrive (DPoVP.InsertConfirms -> UpdateStable) -, on the
// builder, which holds the block only in its store, with the store-level step UpdateStable performs (SetStableBlock).
func (a *adapter) stabilise(blk *types.Block, onV bool) {
	if onV {
		var sigs []types.SignData
		for _, d := range a.V.DM.GetDeputiesByHeight(blk.Height(), true) {
			if d.MinerAddress == blk.MinerAddress() {
				continue
			}
			k := a.nodeKey(d.NodeID)
			if k == nil {
				engine.Failf("no key for deputy %s at height %d", d.MinerAddress.String(), blk.Height())
			}
			sigs = append(sigs, node.Sign(blk.Hash(), k, 0))
		}
		if err := a.V.DP.InsertConfirms(blk.Height(), blk.Hash(), sigs); err != nil {
			engine.Failf("confirming block %d on the validator: %v", blk.Height(), err)
		}
		if a.V.DP.StableBlock().Hash() != blk.Hash() {
			engine.Failf("block %d did not become stable on the validator", blk.Height())
		}
	}
	if _, err := a.B.DB.SetStableBlock(blk.Hash()); err != nil {
		engine.Failf("stabilising block %d on the builder: %v", blk.Height(), err)
	}
	if deputynode.IsSnapshotBlock(blk.Height()) {
		a.B.DM.SaveSnapshot(blk.Height(), blk.DeputyNodes)
	}
}

// logBlock logs a mined block: transactions, state before / after on db, touched addresses.
func (a *adapter) logBlock(fl engine.Fields, db *store.ChainDatabase, blk *types.Block, abs []*atx) {
	bad := []string{}
	txs := []interface{}{}
	for _, t := range abs {
		txs = append(txs, t.json())
	}
	fl["txs"] = txs
	fl["h"] = int(blk.Height())
	fl["miner"] = a.byAddr[blk.MinerAddress()]
	fl["hgu"] = blk.GasUsed()
	fl["bgl"] = blk.GasLimit()
	if a.logPre { // the state at the parent is the committed state the monitor already holds; logged by the probe driver only
		fl["pre"] = a.state(db, blk.ParentHash(), &bad)
	}
	fl["post"] = a.state(db, blk.Hash(), &bad)
	fl["inexact"] = bad
	touched := map[string]bool{}
	for _, cl := range blk.ChangeLogs {
		n, ok := a.byAddr[cl.Address]
		if !ok {
			engine.Failf("block %d changes an address outside the logged universe: %s (%s)", blk.Height(), cl.Address.String(), cl.String())
		}
		touched[n] = true
	}
	tl := []string{}
	for _, ac := range a.accs {
		if touched[ac.name] {
			tl = append(tl, ac.name)
		}
	}
	fl["touched"] = tl
}

// mixedBoxGas: gas limit of a box with arbitrary sub transactions (its own gas grows with the size of its data)
const mixedBoxGas = 300000

// subOf: the sub transaction a template of the spec names (Ledger.tla SubTx: amounts of LEMO kinds in LEMO, gas limit by kind)
func subOf(r tla.Value) *atx {
	k := r.F("k").S()
	amt, gl := int64(r.F("amt").I()), uint64(100000)
	switch k {
	case "xfer":
		amt, gl = amt*lemo, 30000
	case "vote":
		gl = 40000
	case "reg", "topup":
		amt, gl = amt*lemo, 130000
	case "unreg":
		gl = 130000
	case "issue", "repl", "axfer", "freeze", "unfreeze":
	default:
		engine.Failf("unknown sub transaction kind %q", k)
	}
	t := mk(k, r.F("f").S(), r.F("t").S(), amt, gl)
	t.C, t.ID = r.F("c").S(), r.F("id").S()
	return t
}

func (a *adapter) Apply(s engine.Step) (engine.Fields, error) {
	// a panic of the code under test is logged by the engine; the nodes it happened on are not used again
	defer func() {
		if r := recover(); r != nil {
			a.dirty = true
			panic(r)
		}
	}()
	fl := engine.Fields{}
	ar := s.Act.Args
	str := func(i int) string { return ar[i].S() }
	num := func(i int) int64 { return int64(ar[i].I()) }
	var t *atx
	switch s.Act.Name {
	case "Transfer": // f, t, amount (LEMO), payer, gas class
		gl := uint64(30000)
		if str(4) == "low" {
			gl = 20000
		} else if str(4) == "high" {
			gl = 60000
		}
		t = &atx{K: "xfer", F: str(0), T: str(1), Amt: num(2) * lemo, P: str(3), GL: gl, GP: 1}
	case "Vote":
		t = mk("vote", str(0), str(1), 0, 40000)
	case "VoteBy": // voter, candidate, gas payer (the voter may own nothing)
		t = mk("vote", str(0), str(1), 0, 40000)
		t.P = str(2)
	case "SpendAll": // f, t, gas payer: f sends away its WHOLE balance, to the last unit - what it really owns after the candidates before
		at := a.parent.Hash()
		if len(a.pending) > 0 && a.last != nil {
			at = a.last.Hash()
		}
		all := account.NewManager(at, a.B.DB).GetAccount(a.byName[str(0)].addr).GetBalance()
		bad := []string{}
		t = &atx{K: "xfer", F: str(0), T: str(1), Amt: toUnits(all, "spendall."+str(0), &bad), P: str(2), GL: 30000, GP: 1}
		if len(bad) != 0 {
			engine.Failf("SpendAll: balance is not a whole number of units: %v", bad)
		}
	case "Register":
		t = mk("reg", str(0), "", num(1)*lemo, 130000)
	case "TopUp":
		t = mk("topup", str(0), "", num(1)*lemo, 130000)
	case "Unregister":
		t = mk("unreg", str(0), "", 0, 130000)
	case "SetReward": // sender, term, value (LEMO)
		t = mk("setrew", str(0), "R", num(2)*lemo, 60000)
		t.X = num(1)
	case "GasLimit": // the header of the block under construction names this gas limit
		if len(a.pending) != 0 || num(0) <= 0 {
			engine.Failf("GasLimit(%d) with %d candidates already tried", num(0), len(a.pending))
		}
		a.bgl, a.last, a.lastTxs = uint64(num(0)), nil, nil
		fl["bgl"] = a.bgl
		return fl, nil
	case "Issue": // f, t, amount, asset code; the id it credits: the token's (= the code), otherwise a NEW id - the next fresh slot
		t = mk("issue", str(0), str(1), num(2), 100000)
		t.C, t.ID = str(3), str(3)
		if a.assetDef(t.C).cat != 1 {
			if a.nfresh >= len(freshSlots) {
				engine.Failf("more than %d issue transactions that create an asset id in one behaviour", len(freshSlots))
			}
			t.ID = freshSlots[a.nfresh]
			a.nfresh++
		}
	case "Replenish": // f, t, amount, asset code, asset id
		t = mk("repl", str(0), str(1), num(2), 100000)
		t.C, t.ID = str(3), str(4)
	case "AssetTransfer": // f, t, amount, asset id
		t = mk("axfer", str(0), str(1), num(2), 100000)
		t.ID = str(3)
	case "Freeze": // f, freeze / unfreeze, asset code
		k := "unfreeze"
		if ar[1].B() {
			k = "freeze"
		}
		t = mk(k, str(0), "", 0, 100000)
		t.C = str(2)
	case "Box": // f, sub sender, sub recipient, amount (LEMO), number of sub transactions, box gas price
		t = mk("box", str(0), "", 0, 100000)
		t.GP = num(5)
		for i := int64(0); i < num(4); i++ {
			t.Subs = append(t.Subs, mk("xfer", str(1), str(2), num(3)*lemo, 30000))
		}
	case "MixedBox": // box sender, box gas price, sequence of sub transaction templates [k, f, t, amt, c, id]
		t = mk("box", str(0), "", 0, mixedBoxGas)
		t.GP = num(1)
		for _, r := range ar[2].Elems {
			t.Subs = append(t.Subs, subOf(r))
		}
	case "EndBlock":
		if a.last == nil || len(a.pending) == 0 {
			a.pending = nil
			a.last, a.lastTxs = a.mine()
		}
		_, err := a.V.DP.InsertBlock(node.Copy(a.last, nil))
		fl["vok"] = err == nil
		if a.wd.stab {
			a.stabilise(a.last, err == nil)
		}
		if err != nil {
			fl["verr"] = err.Error()
			cl := []string{} // what the miner sealed, for the report (the validator recomputes other change logs)
			for _, l := range a.last.ChangeLogs {
				cl = append(cl, fmt.Sprintf("%s %s v%d", l.LogType.String(), a.byAddr[l.Address], l.Version))
			}
			fl["minerlogs"] = cl
			a.logBlock(fl, a.B.DB, a.last, a.lastTxs)
		} else {
			a.logBlock(fl, a.V.DB, a.last, a.lastTxs) // the validator's own account data
		}
		a.parent, a.pending, a.last, a.lastTxs, a.bgl = a.last, nil, nil, nil, 0
		return fl, nil
	default:
		return nil, fmt.Errorf("unknown action %s", s.Act.Name)
	}
	a.pending = append(a.pending, t)
	a.last, a.lastTxs = a.mine()
	a.logBlock(fl, a.B.DB, a.last, a.lastTxs)
	return fl, nil
}

// Retired nodes are not closed while the store still writes: it writes the index data of stable blocks from a
// background goroutine that panics (killing the process) when the database is closed underneath it
// (SyncFileDB.afterWriteExtend), and Close() with queued writes leaves that goroutine blocked for ever.  A node is closed
// as soon as its write queue has drained (at the latest 20 s after its last use); at the end of the run the directories
// of the others are removed without closing.
type retiredNode struct {
	n  *node.Node
	at time.Time
}

func (a *adapter) retire(ns ...*node.Node) {
	for _, n := range ns {
		if n != nil {
			a.retired = append(a.retired, retiredNode{n, time.Now()})
		}
	}
}

func drained(n *node.Node) bool {
	if n.DB == nil || n.DB.Beansdb == nil || n.DB.Beansdb.Queue == nil { // a node whose set-up failed half way
		return true
	}
	q := n.DB.Beansdb.Queue
	q.IndexRW.RLock()
	k := len(q.Index)
	q.IndexRW.RUnlock()
	return k == 0 && len(q.SyncFileDB.WriteChan) == 0 && len(q.DoneChan) == 0
}

func (a *adapter) reap(all bool) {
	var keep []retiredNode
	for _, r := range a.retired {
		if age := time.Since(r.at); age > 20*time.Second || (age > 50*time.Millisecond && drained(r.n)) {
			r.n.Destroy()
		} else if all {
			os.RemoveAll(r.n.Dir)
		} else {
			keep = append(keep, r)
		}
	}
	a.retired = keep
}

func (a *adapter) Close() {
	a.retire(a.B, a.V, a.gen)
	a.B, a.V, a.gen = nil, nil, nil
	a.reap(true)
}

// probe runs the given spec actions (TLA+ syntax, e.g. 'Transfer("a1","a2",100,"a1","ok")' EndBlock) on fresh real
// nodes and prints the events: `vh drive ledger-probe <action>...` - the concrete reproducer of any logged behaviour.
func probe(args []string) error {
	a := &adapter{logPre: true}
	defer a.Close()
	enc := json.NewEncoder(os.Stdout)
	t0 := time.Now()
	tick := func(what string) {
		if os.Getenv("VERIF_TIMING") != "" {
			fmt.Fprintf(os.Stderr, "%8.1f ms %s\n", float64(time.Since(t0).Microseconds())/1000, what)
		}
		t0 = time.Now()
	}
	fl, err := a.Reset(nil)
	tick("reset (incl. setup)")
	if os.Getenv("VERIF_TIMING") != "" {
		a.Reset(nil)
		tick("second reset")
	}
	if err != nil {
		return err
	}
	fl["ev"] = "reset"
	enc.Encode(fl)
	for _, s := range args {
		act, err := tla.ParseAction(s)
		if err != nil {
			return err
		}
		fl, err := a.Apply(engine.Step{Act: act})
		if err != nil {
			return err
		}
		fl["ev"] = act.Name
		enc.Encode(fl)
		tick(s)
	}
	return nil
}

func init() {
	engine.Register("ledger", func() engine.Adapter { return &adapter{} })
	engine.RegisterDriver("ledger-probe", probe)
}
