package adapters

import _ "verifharness/adapters/callframes"
