package syncad

import (
	"fmt"
	"path/filepath"
	"sort"
	"strconv"
	"time"

	"github.com/LemoFoundationLtd/lemochain-core/chain/types"
	"github.com/LemoFoundationLtd/lemochain-core/network"
	"github.com/LemoFoundationLtd/lemochain-core/network/p2p"

	"verifharness/engine"
	"verifharness/node"
	"verifharness/tla"
)

const maxSegment = 5

// adapter steps Sync.tla behaviours (Deliver / Duplicate / TimerDrain) through the real ProtocolManager.
type adapter struct {
	wd    *world
	n     *nut
	nb    int
	nt    int
	seq   int
	confs [][2]int
	// a step of the current behaviour ended in a panic (an expired wait is recorded that way): the node is in an unknown state
	wedged bool
}

func (a *adapter) Reset(init map[string]tla.Value) (engine.Fields, error) {
	if a.wd == nil {
		a.wd = newWorld("sync", maxSegment)
	}
	if old := a.n; old != nil {
		a.n = nil
		old.retire(a.wedged)
	}
	a.wedged = false
	// the universe of this behaviour is read off the initial state: inflight's domain
	a.nb, a.nt, a.confs = 0, 0, nil
	infl := init["inflight"]
	for _, k := range infl.Keys {
		switch k.At(0).S() {
		case "B":
			if h := k.At(1).I(); h > a.nb {
				a.nb = h
			}
		case "C":
			a.confs = append(a.confs, [2]int{k.At(1).I(), k.At(2).I()})
		case "T":
			a.nt = len(a.wd.txs)
		}
	}
	if a.nb < 1 || a.nb > maxSegment {
		engine.Failf("sync adapter: segment of %d blocks not supported", a.nb)
	}
	if pool, ok := init["pool"]; ok && a.nt > 0 && len(pool.Keys)+len(pool.Elems) != a.nt {
		engine.Failf("sync adapter: the model's batch has %d txs, the harness builds %d", len(pool.Keys)+len(pool.Elems), a.nt)
	}
	sort.Slice(a.confs, func(i, j int) bool {
		return a.confs[i][0] < a.confs[j][0] || (a.confs[i][0] == a.confs[j][0] && a.confs[i][1] < a.confs[j][1])
	})
	ref := a.wd.reference(a.nb, a.confs)
	a.seq++
	a.n = startNut(a.wd.w, filepath.Join(a.wd.dir, fmt.Sprintf("nut%d", a.seq)), uint32(a.nb), a.wd.blocks[a.nb].Hash())
	miners := []int{}
	for h := 1; h <= a.nb; h++ {
		miners = append(miners, a.wd.miner[h]+1)
	}
	confs := [][]int{}
	for _, c := range a.confs {
		confs = append(confs, []int{c[0], c[1]})
	}
	fl := engine.Fields{"peer_dropped": false, "nb": a.nb, "nt": a.nt, "confs": confs, "miners": miners, "nd": nDeputies, "ref_cur": ref[0], "ref_stable": ref[1]}
	a.project(fl, 0)
	return fl, nil
}

// project logs the node's observable state after the step whose events start at `from`.
func (a *adapter) project(fl engine.Fields, from int) {
	n := a.n
	cur, st := n.bc.CurrentBlock(), n.bc.StableBlock()
	fl["cur"] = a.wd.heightOf(cur.Hash())
	fl["stable"] = a.wd.heightOf(st.Hash())
	has := []int{}
	sigs := map[string][]int{}
	for h := 1; h <= a.nb; h++ {
		if !n.bc.HasBlock(a.wd.blocks[h].Hash()) {
			continue
		}
		has = append(has, h)
		b := n.bc.GetBlockByHash(a.wd.blocks[h].Hash())
		ds := []int{}
		seen := map[int]bool{}
		if b != nil {
			for _, c := range b.Confirms {
				d := a.wd.signerOf(b.Hash(), c)
				if !seen[d] {
					seen[d] = true
					ds = append(ds, d)
				}
			}
		}
		sort.Ints(ds)
		sigs[strconv.Itoa(h)] = ds
	}
	fl["has"] = has
	fl["sigs"] = sigs
	// the block cache: its slot layout, and what its own API says
	slots := [][]interface{}{}
	for _, s := range dumpBlockCache(n.bcache) {
		ids := []int{}
		for _, h := range s.Blocks {
			ids = append(ids, 10*a.wd.heightOf(h))
		}
		sort.Ints(ids)
		slots = append(slots, []interface{}{int(s.Height), ids})
	}
	fl["slots"] = slots
	iter := []int{}
	for _, b := range n.cachedBlocks() {
		iter = append(iter, 10*a.wd.heightOf(b.Hash()))
	}
	fl["iter"] = iter
	fl["bsize"] = n.bcache.Size()
	fl["first"] = int(n.bcache.FirstHeight())
	// the confirm cache
	cc := [][]int{}
	for _, c := range dumpConfirmCache(n.ccache) {
		h := a.wd.heightOf(c.Hash)
		if uint32(h) != c.Height {
			engine.Failf("cached confirm names height %d for block %d", c.Height, h)
		}
		cc = append(cc, []int{h, a.wd.signerOf(c.Hash, c.SignInfo)})
	}
	sort.Slice(cc, func(i, j int) bool { return cc[i][0] < cc[j][0] || (cc[i][0] == cc[j][0] && cc[i][1] < cc[j][1]) })
	fl["cc"] = cc
	fl["ccsize"] = n.ccache.Size()
	// the pool: every pending transaction, as often as it is handed out
	pool := []int{}
	for _, tx := range n.pool.GetTxs(node.GenesisTime, 1000) {
		pool = append(pool, a.wd.txID(tx.Hash()))
	}
	sort.Ints(pool)
	fl["pool"] = pool
	// block requests the manager wrote to the peer during this step
	reqs := [][]int{}
	n.r.mu.Lock()
	for i := from; i < len(n.r.evs); i++ {
		e := n.r.evs[i]
		if e.kind == "write" && e.code == p2p.GetBlocksMsg {
			var q network.GetBlocksData
			if err := (&p2p.Msg{Content: e.content}).Decode(&q); err == nil {
				reqs = append(reqs, []int{int(q.From), int(q.To)})
			}
		}
	}
	n.r.mu.Unlock()
	fl["reqs"] = reqs
}

// deliverBlock: see nut.deliverBlock
func (a *adapter) deliverBlock(h int) string {
	return a.n.deliverBlock(a.wd.blocks[h], a.wd.blocks[0], fmt.Sprintf("block %d", h))
}

// raceInsert: block h is handed to the engine and held inside InsertBlock (the manager has already merged the early
// confirms); deputy d's confirm for h is delivered and handled; then the engine is let go.  If the manager does not
// hand the block to the engine at all, the two messages have simply been delivered one after the other.
func (a *adapter) raceInsert(h, d int) string {
	n := a.n
	b := a.wd.blocks[h]
	n.cw.hold(b.Hash())
	defer n.cw.release()
	from := n.r.mark()
	loopDone := n.pushBlocks([]*types.Block{b}, a.wd.blocks[0])
	held := false
	n.waitPeer(fmt.Sprintf("block %d to enter InsertBlock", h), func(evs []ev) bool {
		held = count(evs, from, func(e ev) bool { return e.kind == "InsertBlock.begin" && e.hash == b.Hash() }) >= 1
		return held || loopDone(evs)
	})
	path := a.deliverConfirm(h, d)
	if !held {
		path = "noinsert+" + path
	}
	n.cw.release()
	if !n.takeDroppedPeek() { // (if the session was closed meanwhile the marker is gone with it; the held block is with the loop already)
		n.waitPeer("the receive loop to finish the held block and the marker behind it", loopDone)
	}
	return path
}

// deliverConfirm queues one ConfirmMsg and a fence; what the handler decided is read off the events.
func (a *adapter) deliverConfirm(h, d int) string {
	n := a.n
	from := n.r.mark()
	cd := a.wd.confirm(h, d)
	n.peer.push(p2p.ConfirmMsg, enc(cd))
	n.fence()
	path := "none"
	n.r.mu.Lock()
	for i := from; i < len(n.r.evs); i++ {
		if e := n.r.evs[i]; e.kind == "HasBlock" && e.caller == fromConfirmMsg && e.hash == cd.Hash {
			path = "cache"
			if e.ok {
				path = "insert"
			}
			break
		}
	}
	n.r.mu.Unlock()
	return path
}

// deliverTxs queues the batch (none of it is on the chain) and waits until the handler and every goroutine it started
// have finished.
func (a *adapter) deliverTxs() int {
	n := a.n
	valid := 0
	now := uint64(time.Now().Unix())
	batch := types.Transactions{}
	for _, tx := range a.wd.txs {
		batch = append(batch, tx)
		if tx.VerifyTxBody(node.ChainID, now, false) == nil {
			valid++
		}
	}
	n.peer.push(p2p.TxsMsg, enc(batch))
	n.fence()
	n.waitTxHandlers("the batch")
	return valid
}

func (a *adapter) Apply(s engine.Step) (fl engine.Fields, err error) {
	defer func() {
		if r := recover(); r != nil {
			a.wedged = true
			panic(r)
		}
	}()
	fl = engine.Fields{}
	n := a.n
	from := n.r.mark()
	switch s.Act.Name {
	case "DeliverBatch":
		// one BlocksMsg with several blocks, in the order the model names them (an answer to a block request that overlaps
		// what the node already holds, a repeated answer, ...)
		var bs []*types.Block
		for _, h := range s.Act.Args[0].Ints() {
			if h < 1 || h > a.nb {
				return nil, fmt.Errorf("batch names block %d outside the segment", h)
			}
			bs = append(bs, a.wd.blocks[h])
		}
		n.deliverBlocks(bs, a.wd.blocks[0], "the batch "+s.Act.Args[0].String())
		n.fence()
	case "Deliver":
		m := s.Act.Args[0]
		switch m.At(0).S() {
		case "B":
			fl["path"] = a.deliverBlock(m.At(1).I())
		case "C":
			fl["path"] = a.deliverConfirm(m.At(1).I(), m.At(2).I())
		case "T":
			fl["valid"] = a.deliverTxs()
		default:
			return nil, fmt.Errorf("unknown message %s", m.String())
		}
		n.fence()
	case "RaceInsert":
		fl["path"] = a.raceInsert(s.Act.Args[0].I(), s.Act.Args[1].I())
		n.fence()
	case "Duplicate":
		// the network duplicates a message that is still in flight: nothing reaches the node yet
	case "TimerDrain":
		n.timerDrain()
	default:
		return nil, fmt.Errorf("unknown action %s", s.Act.Name)
	}
	a.snapshot(fl, from, s.Act.String())
	// the manager closed the session of the peer during this step (a fresh session was opened for the steps that follow)
	fl["peer_dropped"] = n.takeDropped()
	return fl, nil
}

// snapshot logs the node state at a quiescence point.  The manager's queue timer is autonomous: if it (or anything
// else that calls into the chain / pool / peer) was active while the state was being read, the reading is repeated,
// so that every logged state is a consistent one.
func (a *adapter) snapshot(fl engine.Fields, from int, what string) {
	n := a.n
	limit := limitNow()
	deadline := time.Now().Add(limit)
	for {
		n.waitSettled(what)
		n.waitStableCleared(n.bc.StableBlock().Height())
		m0 := n.r.mark()
		tmp := engine.Fields{}
		a.project(tmp, from)
		n.r.mu.Lock()
		quiet := len(n.r.evs) == m0 && settledIn(n.r.evs)
		n.r.mu.Unlock()
		if quiet {
			for k, v := range tmp {
				fl[k] = v
			}
			return
		}
		if time.Now().After(deadline) {
			expired("the node did not come to rest within %v after %s (the manager keeps calling into the chain / pool / peer)", limit, what)
		}
	}
}

func (a *adapter) Close() {
	if a.n != nil {
		a.n.stop()
		a.n = nil
	}
	if a.wd != nil {
		a.wd.close()
	}
}

func init() { engine.Register("sync", func() engine.Adapter { return &adapter{} }) }
