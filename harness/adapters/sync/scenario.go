package syncad

import (
	"fmt"
	"math/big"
	"path/filepath"
	"time"

	"github.com/LemoFoundationLtd/lemochain-core/chain/deputynode"
	"github.com/LemoFoundationLtd/lemochain-core/chain/params"
	"github.com/LemoFoundationLtd/lemochain-core/chain/types"
	"github.com/LemoFoundationLtd/lemochain-core/common"
	"github.com/LemoFoundationLtd/lemochain-core/network"

	"verifharness/engine"
	"verifharness/node"
)

const nDeputies = 3

// world is the per-process universe: deterministic keys, one builder node and the blocks it built.
type world struct {
	w       *node.World
	dir     string
	builder *node.Node
	blocks  []*types.Block // [0] = genesis, [h] = the block of the linear segment at height h
	miner   []int          // deputy rank (0-based) that mined blocks[h]
	txs     []*types.Transaction
	badTx   *types.Transaction // expired: VerifyTxBody refuses it
	seq     int
	refs    map[string][2]int
}

func newWorld(tag string, maxBlocks int) *world {
	wd := &world{w: node.NewWorld(nDeputies, 1000), dir: scratchDir(tag), refs: map[string][2]int{}}
	deputynode.SetSelfNodeKey(wd.w.Outsider2()) // the node under test is an observer: it never signs
	wd.builder = wd.w.NewNode(filepath.Join(wd.dir, "builder"))
	wd.blocks = []*types.Block{wd.builder.Genesis}
	wd.miner = []int{-1}
	for h := 1; h <= maxBlocks; h++ {
		rank := (h - 1) % nDeputies
		var txs types.Transactions
		if h == 2 { // a block that really carries a transaction
			txs = types.Transactions{wd.transfer(7, 1000+uint64(h), uint64(node.GenesisTime)+1000)}
		}
		b, invalid, err := wd.builder.Build(wd.blocks[h-1], rank, 0, txs, fmt.Sprintf("seg%d", h))
		if err != nil || len(invalid) != 0 {
			engine.Realf("building block %d of the segment: %v (%d txs discarded)", h, err, len(invalid))
		}
		wd.blocks = append(wd.blocks, b)
		wd.miner = append(wd.miner, rank)
	}
	// the transaction batch: valid now (the handler checks expiry against the wall clock; 15 minutes of slack both ways)
	now := uint64(time.Now().Unix())
	for i := 1; i <= 3; i++ {
		wd.txs = append(wd.txs, wd.transfer(int64(100+i), uint64(i), now+900))
	}
	wd.badTx = wd.transfer(999, 9, now-3600)
	return wd
}

func (wd *world) transfer(amount int64, salt uint64, exp uint64) *types.Transaction {
	to := common.HexToAddress(fmt.Sprintf("0x%040x", 0xabc000+salt))
	tx := types.NewTransaction(wd.w.Founder, to, big.NewInt(amount), 100000, new(big.Int).Set(params.MinGasPrice), []byte{}, params.OrdinaryTx, node.ChainID, exp, "", fmt.Sprintf("t%d", salt))
	stx, err := types.DefaultSigner{}.SignTx(tx, wd.w.FounderKey)
	if err != nil {
		engine.Failf("sign tx: %v", err)
	}
	return stx
}

func (wd *world) close() {
	if wd.builder != nil {
		wd.builder.Destroy()
	}
}

// signerOf returns the deputy (1-based; 0 = nobody we know) that produced sig over hash.
func (wd *world) signerOf(hash common.Hash, sig types.SignData) int {
	id, err := sig.RecoverNodeID(hash)
	if err != nil {
		return 0
	}
	return wd.w.DeputyOf(id) + 1
}

func (wd *world) confirm(h, deputy int) *network.BlockConfirmData {
	b := wd.blocks[h]
	return &network.BlockConfirmData{Hash: b.Hash(), Height: b.Height(), SignInfo: node.Sign(b.Hash(), wd.w.Keys[deputy-1], 0)}
}

func (wd *world) heightOf(h common.Hash) int {
	for i, b := range wd.blocks {
		if b.Hash() == h {
			return i
		}
	}
	engine.Failf("a block that is not in the universe: %s", h.Hex())
	return -1
}

func (wd *world) txID(h common.Hash) int {
	for i, t := range wd.txs {
		if t.Hash() == h {
			return i + 1
		}
	}
	if wd.badTx.Hash() == h {
		return 9
	}
	for hh := 1; hh < len(wd.blocks); hh++ {
		for j, t := range wd.blocks[hh].Txs {
			if t.Hash() == h {
				return 100*hh + j
			}
		}
	}
	engine.Failf("a transaction that is not in the universe: %s", h.Hex())
	return -1
}

// reference runs the in-order delivery (every block followed by its confirms) on a second real chain,
// directly on the engine, and returns (current height, stable height): what C20 compares against.
func (wd *world) reference(nb int, confs [][2]int) [2]int {
	key := fmt.Sprint(nb, confs)
	if r, ok := wd.refs[key]; ok {
		return r
	}
	wd.seq++
	// (assembled by the node package: the same engine, but without chain.BlockChain's forwarder to the global bus,
	// so that nothing of the reference run can reach the manager under test)
	ref := wd.w.NewNode(filepath.Join(wd.dir, fmt.Sprintf("ref%d", wd.seq)))
	for h := 1; h <= nb; h++ {
		if _, err := ref.DP.InsertBlock(node.Copy(wd.blocks[h], nil)); err != nil {
			engine.Realf("reference run: InsertBlock(%d): %v", h, err)
		}
		for _, c := range confs {
			if c[0] == h {
				cd := wd.confirm(c[0], c[1])
				_ = ref.DP.InsertConfirms(cd.Height, cd.Hash, []types.SignData{cd.SignInfo})
			}
		}
	}
	r := [2]int{int(ref.DP.CurrentBlock().Height()), int(ref.DP.StableBlock().Height())}
	ref.Destroy()
	wd.refs[key] = r
	return r
}
