package syncad

import (
	"fmt"
	"time"

	"github.com/LemoFoundationLtd/lemochain-core/chain/types"
	"github.com/LemoFoundationLtd/lemochain-core/network"
	"github.com/LemoFoundationLtd/lemochain-core/network/p2p"

	"verifharness/node"
)

// deliverBlock queues one BlocksMsg holding one block: see deliverBlocks.
// Returns what the loop decided: "stale", "insert" (parent known) or "cache" ("dropped": the session was closed instead).
func (n *nut) deliverBlock(b, marker *types.Block, what string) string {
	from := n.r.mark()
	if !n.deliverBlocks([]*types.Block{b}, marker, what) {
		return "dropped"
	}
	path, at := "stale", 0
	n.r.mu.Lock()
	for i := from; i < len(n.r.evs); i++ {
		if e := n.r.evs[i]; e.caller == fromRcvLoop && e.kind == "HasBlock" && e.hash == b.ParentHash() {
			path, at = "cache", i
			if e.ok {
				path = "insert"
			}
			break
		}
	}
	n.r.mu.Unlock()
	if path == "cache" { // the parent request is written by a goroutine started after BlockCache.Add
		h := int(b.Height())
		n.waitPeer(fmt.Sprintf("the parent request for cached %s", what), func(evs []ev) bool {
			return count(evs, at, func(e ev) bool {
				if e.kind != "write" || e.code != p2p.GetBlocksMsg {
					return false
				}
				var q network.GetBlocksData
				return (&p2p.Msg{Content: e.content}).Decode(&q) == nil && int(q.From) == h-1 && int(q.To) == h-1
			}) >= 1
		})
	}
	return path
}

// deliverBlocks queues ONE BlocksMsg holding the given blocks in the given order and, right behind it, a marker BlocksMsg:
// one block nobody has seen before (a copy of the genesis block renumbered to the height above the segment, so that it is
// neither stale nor at a height the cache has a slot for), about which the chain wrapper says "its miner is black-listed" -
// the loop drops such a block without a trace.  The receive loop handles messages and their blocks strictly in order, so
// once it has asked the chain anything about the marker (by hash) it is done with the message before it - whatever it
// decided to do with each block, in whatever order it asks its questions, and however early it gave up on the message.
// false: the manager closed the session instead of getting there.
func (n *nut) deliverBlocks(bs []*types.Block, genesis *types.Block, what string) bool {
	done := n.pushBlocks(bs, genesis)
	return n.waitPeer(fmt.Sprintf("the receive loop to finish %s and reach the marker behind it", what), done)
}

// pushBlocks queues the message and its marker (see deliverBlocks) and returns the predicate "the loop is done with the message".
func (n *nut) pushBlocks(bs []*types.Block, genesis *types.Block) func(evs []ev) bool {
	from := n.r.mark()
	msg := types.Blocks{}
	for _, b := range bs {
		msg = append(msg, node.Copy(b, nil))
	}
	mk := node.Copy(genesis, nil)
	n.markers++
	mk.Header.Height = n.tipH + 1
	mk.Header.Time = uint32(n.markers)
	mk.Header.Extra = fmt.Sprintf("marker %d", n.markers)
	id := mk.Hash()
	n.cw.setMarker(id)
	n.peer.push(p2p.BlocksMsg, enc(msg))
	n.peer.push(p2p.BlocksMsg, enc(types.Blocks{mk}))
	return func(evs []ev) bool {
		return count(evs, from, func(e ev) bool { return e.hash == id && (e.kind == "marker" || e.kind == "HasBlock") }) >= 1
	}
}

// timerDrain waits for the manager's own queue timer: until no cached block has a known parent any more
// and every insert it started has finished.
func (n *nut) timerDrain() {
	limit := limitNow()
	deadline := time.Now().Add(limit)
	for {
		n.waitSettled("timer drain")
		s0 := n.r.mark()
		insertable := false
		for _, b := range n.cachedBlocks() {
			if n.bc.HasBlock(b.ParentHash()) {
				insertable = true
			}
		}
		n.r.mu.Lock()
		quiet := len(n.r.evs) == s0 && settledIn(n.r.evs)
		n.r.mu.Unlock()
		if !insertable && quiet {
			return
		}
		if time.Now().After(deadline) {
			expired("the queue timer did not drain the insertable cached blocks within %v: cache %v", limit, dumpBlockCache(n.bcache))
		}
		time.Sleep(2 * time.Millisecond)
	}
}

// deliverBatch queues one TxsMsg and waits until the handler has returned and every goroutine it started has ended
// (or, with the AddTx gate closed, is parked inside AddTx).
func (n *nut) deliverBatch(batch types.Transactions, what string) {
	n.peer.push(p2p.TxsMsg, enc(batch))
	n.fence()
	n.waitTxHandlers(what)
}

