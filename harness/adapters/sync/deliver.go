package syncad

import (
	"fmt"
	"time"

	"github.com/LemoFoundationLtd/lemochain-core/chain/types"
	"github.com/LemoFoundationLtd/lemochain-core/network"
	"github.com/LemoFoundationLtd/lemochain-core/network/p2p"

	"verifharness/engine"
	"verifharness/node"
)

// deliverBlock queues one BlocksMsg and, right behind it, a marker BlocksMsg holding the genesis block (always
// stale: the loop asks StableBlock() and moves on).  The receive loop handles blocks strictly in order, so once it
// has asked StableBlock() for the marker it is done with the block - whatever it decided to do with it.
// Returns what the loop decided: "stale", "insert" (parent known) or "cache".
func (n *nut) deliverBlock(b, marker *types.Block, what string) string {
	from := n.r.mark()
	n.peer.push(p2p.BlocksMsg, enc(types.Blocks{node.Copy(b, nil)}))
	n.peer.push(p2p.BlocksMsg, enc(types.Blocks{node.Copy(marker, nil)}))
	n.r.wait(fmt.Sprintf("the receive loop to finish %s and the marker behind it", what), func(evs []ev) bool {
		return count(evs, from, func(e ev) bool { return e.kind == "StableBlock" && e.caller == fromRcvLoop }) >= 2
	})
	path, at := "stale", 0
	n.r.mu.Lock()
	for i := from; i < len(n.r.evs); i++ {
		if e := n.r.evs[i]; e.caller == fromRcvLoop && e.kind == "HasBlock" && e.hash == b.ParentHash() {
			path, at = "cache", i
			if e.ok {
				path = "insert"
			}
			break
		}
	}
	n.r.mu.Unlock()
	if path == "cache" { // the parent request is written by a goroutine started after BlockCache.Add
		h := int(b.Height())
		n.r.wait(fmt.Sprintf("the parent request for cached %s", what), func(evs []ev) bool {
			return count(evs, at, func(e ev) bool {
				if e.kind != "write" || e.code != p2p.GetBlocksMsg {
					return false
				}
				var q network.GetBlocksData
				return (&p2p.Msg{Content: e.content}).Decode(&q) == nil && int(q.From) == h-1 && int(q.To) == h-1
			}) >= 1
		})
	}
	return path
}

// timerDrain waits for the manager's own queue timer: until no cached block has a known parent any more
// and every insert it started has finished.
func (n *nut) timerDrain() {
	deadline := time.Now().Add(waitLimit)
	for {
		n.waitSettled("timer drain")
		s0 := n.r.mark()
		insertable := false
		for _, b := range n.cachedBlocks() {
			if n.bc.HasBlock(b.ParentHash()) {
				insertable = true
			}
		}
		n.r.mu.Lock()
		quiet := len(n.r.evs) == s0 && settledIn(n.r.evs)
		n.r.mu.Unlock()
		if !insertable && quiet {
			return
		}
		if time.Now().After(deadline) {
			engine.Failf("sync harness: the queue timer did not drain the insertable cached blocks within %v", waitLimit)
		}
		time.Sleep(2 * time.Millisecond)
	}
}

// deliverBatch queues one TxsMsg and waits until the handler has returned and every goroutine it started has ended
// (or, with the AddTx gate closed, is parked inside AddTx).
func (n *nut) deliverBatch(batch types.Transactions, what string) {
	n.peer.push(p2p.TxsMsg, enc(batch))
	n.fence()
	n.waitTxHandlers(what)
}

func blocksMsg(b *types.Block) (p2p.MsgCode, []byte) {
	return p2p.BlocksMsg, enc(types.Blocks{node.Copy(b, nil)})
}
