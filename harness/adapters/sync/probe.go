package syncad

import (
	"fmt"
	"path/filepath"
	"strconv"
	"strings"
	"time"

	"github.com/LemoFoundationLtd/lemochain-core/chain/types"
	"github.com/LemoFoundationLtd/lemochain-core/network/p2p"

	"verifharness/engine"
	"verifharness/node"
)

// probe: vh drive sync-probe b2 b4 b3 c1.2 b1 m1.2.3 tick txs ...   (prints the event log; a development aid)
// (m1.2.3 = ONE BlocksMsg holding blocks 1, 2, 3 in that order)
func probe(args []string) error {
	wd := newWorld("syncprobe", 5)
	defer wd.close()
	fmt.Println("reference", wd.reference(4, [][2]int{{1, 2}, {2, 3}}))
	n := startNut(wd.w, filepath.Join(wd.dir, "nut"), 4, wd.blocks[4].Hash())
	defer n.stop()
	shown := 0
	show := func() {
		n.r.mu.Lock()
		for ; shown < len(n.r.evs); shown++ {
			e := n.r.evs[shown]
			fmt.Printf("   %-22s %-45s h=%d ok=%v code=%d %x %s\n", e.kind, e.caller, e.height, e.ok, e.code, e.hash[:3], e.err)
		}
		n.r.mu.Unlock()
		fmt.Printf(" => cur=%d stable=%d slots=%v ccache=%d pool=%d\n", n.bc.CurrentBlock().Height(), n.bc.StableBlock().Height(),
			dumpBlockCache(n.bcache), len(dumpConfirmCache(n.ccache)), len(n.pool.GetTxs(node.GenesisTime, 100)))
	}
	show()
	for _, a := range args {
		fmt.Println("==", a)
		t0 := time.Now()
		switch {
		case a[0] == 'b':
			h, _ := strconv.Atoi(a[1:])
			n.peer.push(p2p.BlocksMsg, enc(types.Blocks{node.Copy(wd.blocks[h], nil)}))
			n.fence()
			time.Sleep(50 * time.Millisecond)
		case a[0] == 'm':
			var bs []*types.Block
			for _, x := range strings.Split(a[1:], ".") {
				h, _ := strconv.Atoi(x)
				bs = append(bs, wd.blocks[h])
			}
			n.deliverBlocks(bs, wd.blocks[0], a)
			n.fence()
		case a[0] == 'c':
			p := strings.Split(a[1:], ".")
			h, _ := strconv.Atoi(p[0])
			d, _ := strconv.Atoi(p[1])
			n.peer.push(p2p.ConfirmMsg, enc(wd.confirm(h, d)))
			n.fence()
			time.Sleep(50 * time.Millisecond)
		case a == "txs":
			n.peer.push(p2p.TxsMsg, enc(types.Transactions(wd.txs)))
			n.fence()
			time.Sleep(100 * time.Millisecond)
		case a[0] == 'g': // g1.2: deliver block 1, hold it inside InsertBlock, deliver confirm (1, deputy 2), release
			p := strings.Split(a[1:], ".")
			h, _ := strconv.Atoi(p[0])
			d, _ := strconv.Atoi(p[1])
			n.cw.hold(wd.blocks[h].Hash())
			from := n.r.mark()
			n.peer.push(p2p.BlocksMsg, enc(types.Blocks{node.Copy(wd.blocks[h], nil)}))
			n.r.wait("insert begin", func(evs []ev) bool {
				return count(evs, from, func(e ev) bool { return e.kind == "InsertBlock.begin" }) >= 1
			})
			n.peer.push(p2p.ConfirmMsg, enc(wd.confirm(h, d)))
			n.fence()
			n.cw.release()
		case a == "tick":
			time.Sleep(600 * time.Millisecond)
		}
		n.waitSettled(a)
		fmt.Println("   took", time.Since(t0))
		show()
	}
	return nil
}

// stress: vh drive sync-stress N - N fresh nodes; each gets confirm(1,2) then block 1 (stable moves to 1) and we look
// whether the manager's stableBlockLoop ever sees the event (a development aid)
func stress(args []string) error {
	wd := newWorld("syncstress", 3)
	defer wd.close()
	rounds, _ := strconv.Atoi(args[0])
	old := waitLimit
	waitLimit = 8 * time.Second
	defer func() { waitLimit = old }()
	miss := 0
	for i := 0; i < rounds; i++ {
		n := startNut(wd.w, filepath.Join(wd.dir, fmt.Sprintf("nut%d", i)), 3, wd.blocks[3].Hash())
		n.peer.push(p2p.ConfirmMsg, enc(wd.confirm(1, 2)))
		n.fence()
		n.peer.push(p2p.BlocksMsg, enc(types.Blocks{node.Copy(wd.blocks[1], nil)}))
		ok := func() (ok bool) {
			defer func() {
				if r := recover(); r != nil {
					ok = false
				}
			}()
			n.r.wait("stable.received", func(evs []ev) bool {
				return count(evs, 0, func(e ev) bool { return e.kind == "stable.received" }) >= 1
			})
			return true
		}()
		if !ok {
			miss++
			fmt.Printf("round %d: stable event never reached the manager; stable=%d cc=%d\n", i, n.bc.StableBlock().Height(), len(dumpConfirmCache(n.ccache)))
			n.r.mu.Lock()
			for _, e := range n.r.evs {
				if e.kind != "read" && e.kind != "read.wait" {
					fmt.Printf("   %s %s h=%d ok=%v code=%d\n", e.kind, e.caller, e.height, e.ok, e.code)
				}
			}
			n.r.mu.Unlock()
			// is a later stable event seen?
			n.peer.push(p2p.BlocksMsg, enc(types.Blocks{node.Copy(wd.blocks[2], nil)}))
			n.peer.push(p2p.ConfirmMsg, enc(wd.confirm(2, 1)))
			n.fence()
			time.Sleep(2 * time.Second)
			n.r.mu.Lock()
			fmt.Printf("   after block 2 + confirm: stable=%d received=%d changed=%d\n", n.bc.StableBlock().Height(),
				count(n.r.evs, 0, func(e ev) bool { return e.kind == "stable.received" }), count(n.r.evs, 0, func(e ev) bool { return e.kind == "stable.changed" }))
			n.r.mu.Unlock()
			// do not wait for it at stop
			n.r.add(ev{kind: "stable.received"})
			n.r.add(ev{kind: "stable.received"})
		}
		n.stop()
	}
	fmt.Printf("rounds=%d missed=%d\n", rounds, miss)
	return nil
}

func init() {
	engine.RegisterDriver("sync-probe", probe)
	engine.RegisterDriver("sync-stress", stress)
}
