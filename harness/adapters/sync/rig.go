// Package syncad binds spec/Sync.tla / spec/TraceSync.tla (C20, sync convergence) to the REAL
// network.ProtocolManager, hook-free: a scripted p2p.IPeer is injected on the global subscribe bus, the
// chain side is the real chain.BlockChain behind a recording wrapper (network.BlockChain is an interface),
// the pool side the real txpool.TxPool behind a recording wrapper (network.TxPool).  Every call the
// manager makes on these three interfaces is an event in one totally ordered log; the adapter waits on
// those events (never sleeps-and-hopes) to find the quiescence point after each delivered message.
// It also binds spec/SyncCache.tla / spec/TraceSyncCache.tla to network.BlockCache / ConfirmCache directly.
package syncad

import (
	"crypto/ecdsa"
	"fmt"
	"io"
	"os"
	"path/filepath"
	"reflect"
	"runtime"
	"strings"
	gosync "sync"
	"time"
	"unsafe"

	"github.com/LemoFoundationLtd/lemochain-core/chain"
	"github.com/LemoFoundationLtd/lemochain-core/chain/consensus"
	"github.com/LemoFoundationLtd/lemochain-core/chain/deputynode"
	"github.com/LemoFoundationLtd/lemochain-core/chain/txpool"
	"github.com/LemoFoundationLtd/lemochain-core/chain/types"
	"github.com/LemoFoundationLtd/lemochain-core/common"
	"github.com/LemoFoundationLtd/lemochain-core/common/flag"
	"github.com/LemoFoundationLtd/lemochain-core/common/rlp"
	"github.com/LemoFoundationLtd/lemochain-core/common/subscribe"
	"github.com/LemoFoundationLtd/lemochain-core/network"
	"github.com/LemoFoundationLtd/lemochain-core/network/p2p"
	"github.com/LemoFoundationLtd/lemochain-core/store"

	"verifharness/engine"
	"verifharness/node"
)

// waitLimit is generous on purpose: running into it is a harness failure (exit 2), never a verdict.
var waitLimit = 60 * time.Second

// ev is one observed call of the manager on one of the three interfaces (or of the scripted peer).
type ev struct {
	kind    string // HasBlock StableBlock CurrentBlock InsertBlock.begin InsertBlock.end InsertConfirms.begin InsertConfirms.end AddTx.begin AddTx.end read write close ...
	caller  string // function of package network that made the call, e.g. "(*ProtocolManager).rcvBlockLoop"
	hash    common.Hash
	height  uint32
	ok      bool
	code    p2p.MsgCode
	content []byte
	err     string
}

// rig is the totally ordered event log plus the condition variable everything waits on.
type rig struct {
	mu   gosync.Mutex
	cond *gosync.Cond
	evs  []ev
	stop chan struct{}
}

func newRig() *rig {
	r := &rig{stop: make(chan struct{})}
	r.cond = gosync.NewCond(&r.mu)
	go func() { // wakes waiters so that deadlines and polled conditions are re-evaluated
		t := time.NewTicker(2 * time.Millisecond)
		defer t.Stop()
		for {
			select {
			case <-r.stop:
				return
			case <-t.C:
				r.cond.Broadcast()
			}
		}
	}()
	return r
}

var debugEvents = os.Getenv("VERIF_SYNC_DEBUG") != ""

func (r *rig) add(e ev) {
	if debugEvents {
		fmt.Fprintf(os.Stderr, "EV %s %s h=%d ok=%v code=%d %x\n", e.kind, e.caller, e.height, e.ok, e.code, e.hash[:3])
	}
	r.mu.Lock()
	r.evs = append(r.evs, e)
	r.mu.Unlock()
	r.cond.Broadcast()
}

func (r *rig) mark() int {
	r.mu.Lock()
	defer r.mu.Unlock()
	return len(r.evs)
}

// wait blocks until pred (evaluated under the log's lock) holds.
func (r *rig) wait(what string, pred func(evs []ev) bool) {
	deadline := time.Now().Add(waitLimit)
	r.mu.Lock()
	defer r.mu.Unlock()
	for !pred(r.evs) {
		if time.Now().After(deadline) {
			tail := r.evs
			if len(tail) > 25 {
				tail = tail[len(tail)-25:]
			}
			var sb strings.Builder
			for _, e := range tail {
				fmt.Fprintf(&sb, "\n   %s %s h=%d ok=%v code=%d %x", e.kind, e.caller, e.height, e.ok, e.code, e.hash[:4])
			}
			engine.Failf("sync harness: timed out after %v waiting for %s; last events:%s", waitLimit, what, sb.String())
		}
		r.cond.Wait()
	}
}

func count(evs []ev, from int, f func(e ev) bool) int {
	n := 0
	for i := from; i < len(evs); i++ {
		if f(evs[i]) {
			n++
		}
	}
	return n
}

// callerName is the function of package network that called the wrapper method.
func callerName() string {
	pcs := make([]uintptr, 6)
	n := runtime.Callers(3, pcs)
	frames := runtime.CallersFrames(pcs[:n])
	f, _ := frames.Next()
	name := f.Function
	if i := strings.LastIndex(name, "/network."); i >= 0 {
		return name[i+len("/network."):]
	}
	return name
}

const (
	fromRcvLoop     = "(*ProtocolManager).rcvBlockLoop"      // the synchronous path of a received block
	fromTickPrefix  = "(*ProtocolManager).rcvBlockLoop.func" // processBlock, the timer drain callback
	fromConfirmMsg  = "(*ProtocolManager).handleConfirmMsg"
	fromTxGoPrefix  = "(*ProtocolManager).handleTxsMsg.func"
	fromGetLstState = "(*ProtocolManager).handleGetLstStatusMsg"
)

// ---------------------------------------------------------------- chain wrapper (network.BlockChain)

type chainWrap struct {
	r  *rig
	bc *chain.BlockChain
	// the interleaving "something arrives while the engine is busy with block X": when gateHash is set, InsertBlock of
	// that block waits on gate right after its begin event (guarded by r.mu)
	gate     chan struct{}
	gateHash common.Hash
	// InsertBlock / InsertConfirms are let through one at a time (the engine serialises them under its chainLock anyway),
	// so that every move of the stable block - each of which the engine publishes as one event - is seen here
	ser gosync.Mutex
}

// mutate runs one engine call that may move the stable block and logs the move.
func (c *chainWrap) mutate(f func()) {
	c.ser.Lock()
	defer c.ser.Unlock()
	before := c.bc.StableBlock().Hash()
	f()
	if after := c.bc.StableBlock(); after.Hash() != before {
		c.r.add(ev{kind: "stable.changed", hash: after.Hash(), height: after.Height()})
	}
}

func (c *chainWrap) hold(h common.Hash) {
	c.r.mu.Lock()
	c.gate, c.gateHash = make(chan struct{}), h
	c.r.mu.Unlock()
}

func (c *chainWrap) release() {
	c.r.mu.Lock()
	g := c.gate
	c.gate = nil
	c.r.mu.Unlock()
	if g != nil {
		close(g)
	}
}

func (c *chainWrap) Genesis() *types.Block { return c.bc.Genesis() }
func (c *chainWrap) HasBlock(hash common.Hash) bool {
	who := callerName()
	ok := c.bc.HasBlock(hash)
	c.r.add(ev{kind: "HasBlock", caller: who, hash: hash, ok: ok})
	return ok
}
func (c *chainWrap) GetBlockByHeight(height uint32) *types.Block {
	return c.bc.GetBlockByHeight(height)
}
func (c *chainWrap) GetBlockByHash(hash common.Hash) *types.Block { return c.bc.GetBlockByHash(hash) }
func (c *chainWrap) CurrentBlock() *types.Block {
	who := callerName()
	b := c.bc.CurrentBlock()
	c.r.add(ev{kind: "CurrentBlock", caller: who, hash: b.Hash(), height: b.Height()})
	return b
}
func (c *chainWrap) StableBlock() *types.Block {
	who := callerName()
	b := c.bc.StableBlock()
	c.r.add(ev{kind: "StableBlock", caller: who, hash: b.Hash(), height: b.Height()})
	return b
}
func (c *chainWrap) InsertBlock(block *types.Block) error {
	who := callerName()
	h := block.Hash()
	c.r.add(ev{kind: "InsertBlock.begin", caller: who, hash: h, height: block.Height()})
	c.r.mu.Lock()
	g := c.gate
	if h != c.gateHash {
		g = nil
	}
	c.r.mu.Unlock()
	if g != nil {
		<-g
	}
	var err error
	c.mutate(func() { err = c.bc.InsertBlock(block) })
	e := ev{kind: "InsertBlock.end", caller: who, hash: h, height: block.Height(), ok: err == nil}
	if err != nil {
		e.err = err.Error()
	}
	c.r.add(e)
	return err
}
func (c *chainWrap) InsertConfirms(height uint32, blockHash common.Hash, sigList []types.SignData) {
	who := callerName()
	c.r.add(ev{kind: "InsertConfirms.begin", caller: who, hash: blockHash, height: height})
	c.mutate(func() { c.bc.InsertConfirms(height, blockHash, sigList) })
	c.r.add(ev{kind: "InsertConfirms.end", caller: who, hash: blockHash, height: height})
}
func (c *chainWrap) IsInBlackList(b *types.Block) bool { return c.bc.IsInBlackList(b) }

// ---------------------------------------------------------------- pool wrapper (network.TxPool)

type poolWrap struct {
	r    *rig
	pool *txpool.TxPool
	// the interleaving "a block is inserted while the handler's goroutines are between their look at the chain and
	// AddTx": while gate is set, every AddTx call parks right after its begin event (guarded by r.mu)
	gate   chan struct{}
	parked int
}

func (p *poolWrap) hold() {
	p.r.mu.Lock()
	p.gate = make(chan struct{})
	p.r.mu.Unlock()
}

func (p *poolWrap) release() {
	p.r.mu.Lock()
	g := p.gate
	p.gate = nil
	p.r.mu.Unlock()
	if g != nil {
		close(g)
	}
}

func (p *poolWrap) parkedNow() int {
	p.r.mu.Lock()
	defer p.r.mu.Unlock()
	return p.parked
}

// quiet: with the gate closed, every one of the alive handler goroutines is parked at it; with the gate open none is alive
// (a goroutine that has been released but has not run yet still counts as parked: it is not done).
func (p *poolWrap) quiet(alive int) bool {
	p.r.mu.Lock()
	defer p.r.mu.Unlock()
	if p.gate == nil {
		return alive == 0
	}
	return alive == p.parked
}

func (p *poolWrap) GetTxs(time uint32, size int) types.Transactions { return p.pool.GetTxs(time, size) }

// DelTxs is not part of network.TxPool at the time of writing; it is here so that a manager that takes a transaction back
// out of the pool (e.g. after looking at the chain a second time) can be driven too.
func (p *poolWrap) DelTxs(txs types.Transactions) { p.pool.DelTxs(txs) }
func (p *poolWrap) AddTx(tx *types.Transaction) error {
	who := callerName()
	h := tx.Hash()
	p.r.add(ev{kind: "AddTx.begin", caller: who, hash: h})
	p.r.mu.Lock()
	g := p.gate
	if g != nil {
		p.parked++
	}
	p.r.mu.Unlock()
	if g != nil {
		<-g
		p.r.mu.Lock()
		p.parked--
		p.r.mu.Unlock()
	}
	err := p.pool.AddTx(tx)
	e := ev{kind: "AddTx.end", caller: who, hash: h, ok: err == nil}
	if err != nil {
		e.err = err.Error()
	}
	p.r.add(e)
	return err
}

// ---------------------------------------------------------------- scripted peer (p2p.IPeer)

type mockPeer struct {
	r      *rig
	id     p2p.NodeID
	mu     gosync.Mutex
	cond   *gosync.Cond
	queue  []*p2p.Msg
	closed bool
	status int32
}

func newMockPeer(r *rig, id []byte) *mockPeer {
	m := &mockPeer{r: r}
	copy(m.id[:], id)
	m.cond = gosync.NewCond(&m.mu)
	return m
}

func (m *mockPeer) push(code p2p.MsgCode, content []byte) {
	m.mu.Lock()
	m.queue = append(m.queue, &p2p.Msg{Code: code, Content: content, ReceivedAt: time.Now()})
	m.mu.Unlock()
	m.cond.Broadcast()
}

func (m *mockPeer) ReadMsg() (*p2p.Msg, error) {
	m.r.add(ev{kind: "read.wait"})
	m.mu.Lock()
	for len(m.queue) == 0 && !m.closed {
		m.cond.Wait()
	}
	if len(m.queue) == 0 {
		m.mu.Unlock()
		return nil, io.EOF
	}
	msg := m.queue[0]
	m.queue = m.queue[1:]
	m.mu.Unlock()
	m.r.add(ev{kind: "read", code: msg.Code})
	return msg, nil
}
func (m *mockPeer) WriteMsg(code p2p.MsgCode, msg []byte) error {
	m.mu.Lock()
	closed := m.closed
	m.mu.Unlock()
	if closed {
		return io.ErrClosedPipe
	}
	m.r.add(ev{kind: "write", code: code, content: append([]byte(nil), msg...)})
	return nil
}
func (m *mockPeer) SetWriteDeadline(time.Duration) {}
func (m *mockPeer) RNodeID() *p2p.NodeID {
	// stableBlockLoop calls peers.DelayNodes -> peer.NodeID -> RNodeID once per NewStableBlock event it has taken off the bus
	pcs := make([]uintptr, 8)
	n := runtime.Callers(2, pcs)
	frames := runtime.CallersFrames(pcs[:n])
	for {
		f, more := frames.Next()
		if strings.HasSuffix(f.Function, "(*ProtocolManager).stableBlockLoop") {
			m.r.add(ev{kind: "stable.received"})
			break
		}
		if !more {
			break
		}
	}
	id := m.id
	return &id
}
func (m *mockPeer) RAddress() string                                 { return "10.0.0.1:7001" }
func (m *mockPeer) LAddress() string                                 { return "10.0.0.2:7002" }
func (m *mockPeer) DoHandshake(*ecdsa.PrivateKey, *p2p.NodeID) error { return nil }
func (m *mockPeer) Run() error                                       { return nil }
func (m *mockPeer) NeedReConnect() bool                              { return false }
func (m *mockPeer) SetStatus(s int32)                                { m.mu.Lock(); m.status = s; m.mu.Unlock() }
func (m *mockPeer) Close() {
	m.mu.Lock()
	was := m.closed
	m.closed = true
	m.mu.Unlock()
	m.cond.Broadcast()
	if !was {
		m.r.add(ev{kind: "close"})
	}
}

// ---------------------------------------------------------------- the node under test

type nut struct {
	dir    string
	r      *rig
	db     *store.ChainDatabase
	dm     *deputynode.Manager
	pool   *txpool.TxPool
	bc     *chain.BlockChain
	cw     *chainWrap
	pw     *poolWrap
	pm     *network.ProtocolManager
	peer   *mockPeer
	bcache *network.BlockCache
	ccache *network.ConfirmCache

	stopped bool
}

// newChain assembles the chain exactly like the node does (store, genesis, deputy manager, pool, chain.NewBlockChain).
func newChain(w *node.World, dir string) (*store.ChainDatabase, *deputynode.Manager, *txpool.TxPool, *chain.BlockChain) {
	if err := os.MkdirAll(dir, 0755); err != nil {
		engine.Failf("mkdir %s: %v", dir, err)
	}
	db := store.NewChainDataBase(dir)
	chain.SetupGenesisBlock(db, w.Genesis())
	dm := deputynode.NewManager(w.N, db)
	pool := txpool.NewTxPool()
	bc, err := chain.NewBlockChain(chain.Config{ChainID: node.ChainID, MineTimeout: w.TimeoutMs}, dm, db, flag.CmdFlags{}, pool)
	if err != nil {
		engine.Failf("NewBlockChain: %v", err)
	}
	waitFeedsSubscribed(bc)
	return db, dm, pool, bc
}

// waitFeedsSubscribed: NewBlockChain starts the goroutine that forwards the engine's stable/current/confirm feeds to the
// global bus with a go statement; until that goroutine has subscribed, a stable-block event of the engine goes nowhere.
// A node that has just started never moves its stable block within its first milliseconds - a replayed behaviour does,
// and on a loaded machine the event was seen to get lost (1 in ~600 fresh nodes).  So wait for the subscriptions.
func waitFeedsSubscribed(bc *chain.BlockChain) {
	dp := reflect.NewAt(reflect.TypeOf(consensus.DPoVP{}), unexportedPtr(bc, "engine")).Elem()
	deadline := time.Now().Add(waitLimit)
	for {
		ready := true
		for _, name := range []string{"stableFeed", "currentFeed", "confirmFeed", "fetchConfirmsFeed"} {
			f := dp.FieldByName(name)
			if !f.IsValid() {
				engine.Failf("sync harness: consensus.DPoVP has no field %s any more", name)
			}
			mu := (*gosync.Mutex)(unsafe.Pointer(f.FieldByName("mu").UnsafeAddr()))
			mu.Lock()
			n := f.FieldByName("inbox").Len() + f.FieldByName("sendCases").Len()
			mu.Unlock()
			if n < 2 { // one internal case (sendCases) once the feed is initialised + the forwarder's subscription
				ready = false
			}
		}
		if ready {
			return
		}
		if time.Now().After(deadline) {
			engine.Failf("sync harness: the chain's feed forwarder did not subscribe within %v", waitLimit)
		}
		time.Sleep(200 * time.Microsecond)
	}
}

// unexportedPtr returns the pointer stored in an unexported pointer field of *obj (read-only use).
func unexportedPtr(obj interface{}, field string) unsafe.Pointer {
	v := reflect.ValueOf(obj).Elem().FieldByName(field)
	if !v.IsValid() || v.Kind() != reflect.Ptr {
		engine.Failf("sync harness: %T has no pointer field %q any more", obj, field)
	}
	return unsafe.Pointer(v.Pointer())
}

// startNut creates a fresh real node + protocol manager and connects the scripted peer (protocol handshake
// claiming status (tipHeight, tipHash, stable = genesis)).
func startNut(w *node.World, dir string, tipHeight uint32, tipHash common.Hash) *nut {
	n := &nut{dir: dir, r: newRig()}
	n.db, n.dm, n.pool, n.bc = newChain(w, dir)
	n.cw = &chainWrap{r: n.r, bc: n.bc}
	var self p2p.NodeID
	copy(self[:], deputynode.GetSelfNodeID())
	discover := p2p.NewDiscoverManager(dir)
	n.pw = &poolWrap{r: n.r, pool: n.pool}
	n.pm = network.NewProtocolManager(node.ChainID, self, n.cw, n.dm, n.pw, n.bc.TxGuard(), discover, 10, 1, dir)
	n.bcache = (*network.BlockCache)(unexportedPtr(n.pm, "blockCache"))
	n.ccache = (*network.ConfirmCache)(unexportedPtr(n.pm, "confirmsCache"))
	n.pm.Start()
	n.peer = newMockPeer(n.r, w.NodeIDs[0])
	g := n.bc.Genesis()
	hs := &network.ProtocolHandshake{ChainID: node.ChainID, GenesisHash: g.Hash(), NodeVersion: 1,
		LatestStatus: network.LatestStatus{CurHeight: tipHeight, CurHash: tipHash, StaHeight: 0, StaHash: g.Hash()}}
	n.peer.push(p2p.ProHandshakeMsg, hs.Bytes())
	subscribe.Send(subscribe.AddNewPeer, p2p.IPeer(n.peer))
	// ready = our handshake was written, the peer's was read, and the message reader is blocked in its next ReadMsg
	n.r.wait("protocol handshake and message loop start", func(evs []ev) bool {
		return count(evs, 0, func(e ev) bool { return e.kind == "read.wait" }) >= 2 &&
			count(evs, 0, func(e ev) bool { return e.kind == "write" && e.code == p2p.ProHandshakeMsg }) >= 1
	})
	return n
}

// stop ends the peer session through the manager's own error path (an unknown message code), stops the
// manager's loops and the chain, and removes the data directory.
func (n *nut) stop() {
	// (a stop that fails half way - a harness failure - must not be tried again by the adapter's Close: the manager's Stop
	// is not made to be called twice)
	if n.stopped {
		return
	}
	n.stopped = true
	if n.pm != nil {
		// A behaviour may end while a cached block is insertable.  The manager's queue timer would hand it to the engine at
		// any moment - also right after the manager's loops have been stopped, and then the stable-block event of that insert
		// is taken off the bus by nobody (or by the NEXT behaviour's manager).  So let the timer do its work first; if it
		// does not within a few periods, go on (the strict wait below then reports what is left).
		n.softDrain(3 * time.Second)
		n.peer.push(p2p.MsgCode(0x7f), []byte{0xc0})
		n.r.wait("peer session closed by the manager", func(evs []ev) bool {
			return count(evs, 0, func(e ev) bool { return e.kind == "close" }) >= 1
		})
		n.pm.Stop()
		// the loops are gone, but inserts the queue timer already started (go pm.insertBlock) may still run:
		// the database must not be closed under them
		n.waitSettled("stop")
	}
	n.bc.Stop()
	close(n.r.stop)
	n.db.Close()
	os.RemoveAll(n.dir)
}

func enc(v interface{}) []byte {
	b, err := rlp.EncodeToBytes(v)
	if err != nil {
		engine.Failf("rlp: %v", err)
	}
	return b
}

// fence queues a GetLstStatusMsg: the manager handles one peer's messages strictly one after the other, so
// once the fence's handler has run, work() of every message queued before it has returned.
func (n *nut) fence() {
	from := n.r.mark()
	n.peer.push(p2p.GetLstStatusMsg, enc(&network.GetLatestStatus{Revert: 0}))
	n.r.wait("fence (GetLstStatusMsg handled)", func(evs []ev) bool {
		return count(evs, from, func(e ev) bool { return e.kind == "write" && e.code == p2p.LstStatusMsg }) >= 1
	})
}

// settled: every InsertBlock / InsertConfirms the manager decided on (HasBlock(parent)=true in the receive loop
// or in the timer callback; HasBlock(hash)=true for a single confirm) has begun and ended, and every stable-block
// event the engine published has been taken off the bus by the manager's stableBlockLoop (so none can leak into
// the next behaviour's manager, and the cache clearing it triggers is at most one goroutine start away).
func settledIn(evs []ev) bool {
	expIns, begIns, endIns, expConf, goConf, begConf, endConf, stChanged, stReceived := 0, 0, 0, 0, 0, 0, 0, 0, 0
	rcvState := 0 // the receive loop asks StableBlock(), then HasBlock(b.Hash()), then HasBlock(b.ParentHash())
	for _, e := range evs {
		switch e.kind {
		case "StableBlock":
			if e.caller == fromRcvLoop {
				rcvState = 1
			}
		case "HasBlock":
			switch {
			case e.caller == fromRcvLoop && rcvState == 1:
				rcvState = 2
				if e.ok {
					rcvState = 0
				}
			case e.caller == fromRcvLoop && rcvState == 2:
				rcvState = 0
				if e.ok {
					expIns++
				}
			case strings.HasPrefix(e.caller, fromTickPrefix):
				if e.ok {
					expIns++
				}
			case e.caller == fromConfirmMsg:
				if e.ok {
					expConf++
				}
			}
		case "InsertBlock.begin":
			begIns++
		case "InsertBlock.end":
			endIns++
		case "InsertConfirms.begin":
			begConf++
			if e.caller == "runtime.goexit" { // started by handleConfirmMsg's go statement (any other caller is a synchronous call)
				goConf++
			}
		case "InsertConfirms.end":
			endConf++
		case "stable.changed":
			stChanged++
		case "stable.received":
			stReceived++
		}
	}
	return begIns == endIns && begConf == endConf && begIns >= expIns && goConf >= expConf && stReceived >= stChanged
}

// txHandlerGoroutines counts the goroutines the transaction handler started (and has not finished yet): whatever
// their body looks like, the runtime's goroutine dump names the function whose go statement created them.
func txHandlerGoroutines() int {
	buf := make([]byte, 1<<16)
	for {
		k := runtime.Stack(buf, true)
		if k < len(buf) {
			buf = buf[:k]
			break
		}
		buf = make([]byte, 2*len(buf))
	}
	c := 0
	for _, g := range strings.Split(string(buf), "\n\n") {
		if strings.Contains(g, "created by ") && strings.Contains(g[strings.LastIndex(g, "created by "):], ".(*ProtocolManager).handleTxsMsg") {
			c++
		}
	}
	return c
}

// waitTxHandlers waits until every goroutine the transaction handler started has ended - or, with the AddTx gate
// closed, until each of them has either ended or is parked inside AddTx.
func (n *nut) waitTxHandlers(what string) {
	deadline := time.Now().Add(waitLimit)
	for {
		if n.pw.quiet(txHandlerGoroutines()) {
			return
		}
		if time.Now().After(deadline) {
			engine.Failf("sync harness: %d goroutines of the transaction handler still running %v after %s (%d parked in AddTx)", txHandlerGoroutines(), waitLimit, what, n.pw.parkedNow())
		}
		time.Sleep(200 * time.Microsecond)
	}
}

// softDrain waits, at most for `limit`, until no cached block has a known parent and everything has settled.
func (n *nut) softDrain(limit time.Duration) {
	deadline := time.Now().Add(limit)
	for time.Now().Before(deadline) {
		insertable := false
		for _, b := range n.cachedBlocks() {
			if n.bc.HasBlock(b.ParentHash()) {
				insertable = true
			}
		}
		n.r.mu.Lock()
		ok := !insertable && settledIn(n.r.evs)
		n.r.mu.Unlock()
		if ok {
			return
		}
		time.Sleep(2 * time.Millisecond)
	}
}

func (n *nut) waitSettled(what string) {
	n.r.wait("inserts to finish after "+what, settledIn)
}

// cachedBlocks reads the manager's block cache through its own Iterate (nothing removed).
func (n *nut) cachedBlocks() []*types.Block {
	var out []*types.Block
	n.bcache.Iterate(func(b *types.Block) bool { out = append(out, b); return false })
	return out
}

// waitStableCleared: after the stable block moved, the manager clears both caches up to its height in a
// goroutine behind three asynchronous hops; wait until that has visibly happened.
func (n *nut) waitStableCleared(stable uint32) {
	deadline := time.Now().Add(waitLimit)
	for {
		ok := true
		if fh := n.bcache.FirstHeight(); fh != 0 && fh <= stable {
			ok = false
		}
		for _, c := range dumpConfirmCache(n.ccache) {
			if c.Height <= stable {
				ok = false
			}
		}
		if ok {
			return
		}
		if time.Now().After(deadline) {
			engine.Failf("sync harness: caches still hold entries at or below the stable height %d after %v: slots %v, confirms %v",
				stable, waitLimit, dumpBlockCache(n.bcache), dumpConfirmCache(n.ccache))
		}
		time.Sleep(time.Millisecond)
	}
}

// ---------------------------------------------------------------- reading the unexported cache layouts

// slot is one height entry of network.BlockCache (a blocksSameHeight).
type slot struct {
	Height uint32
	Blocks []common.Hash
}

func lockOf(obj interface{}) *gosync.Mutex {
	v := reflect.ValueOf(obj).Elem().FieldByName("lock")
	if !v.IsValid() || v.Type() != reflect.TypeOf(gosync.Mutex{}) {
		engine.Failf("sync harness: %T has no sync.Mutex field 'lock' any more", obj)
	}
	return (*gosync.Mutex)(unsafe.Pointer(v.UnsafeAddr()))
}

// dumpBlockCache reads BlockCache.cache ([]*blocksSameHeight{Height, Blocks map}) under the cache's lock.
func dumpBlockCache(c *network.BlockCache) []slot {
	mu := lockOf(c)
	mu.Lock()
	defer mu.Unlock()
	v := reflect.ValueOf(c).Elem().FieldByName("cache")
	if !v.IsValid() || v.Kind() != reflect.Slice {
		engine.Failf("sync harness: BlockCache.cache is not a slice any more")
	}
	out := []slot{}
	for i := 0; i < v.Len(); i++ {
		e := v.Index(i).Elem()
		s := slot{Height: uint32(e.FieldByName("Height").Uint()), Blocks: []common.Hash{}}
		it := e.FieldByName("Blocks").MapRange()
		for it.Next() {
			var h common.Hash
			k := it.Key()
			for j := 0; j < k.Len(); j++ {
				h[j] = byte(k.Index(j).Uint())
			}
			s.Blocks = append(s.Blocks, h)
		}
		out = append(out, s)
	}
	return out
}

// dumpConfirmCache reads ConfirmCache.cache (map height -> hash -> []*BlockConfirmData) under its lock.
func dumpConfirmCache(c *network.ConfirmCache) []network.BlockConfirmData {
	mu := lockOf(c)
	mu.Lock()
	defer mu.Unlock()
	v := reflect.ValueOf(c).Elem().FieldByName("cache")
	if !v.IsValid() || v.Kind() != reflect.Map {
		engine.Failf("sync harness: ConfirmCache.cache is not a map any more")
	}
	out := []network.BlockConfirmData{}
	it := v.MapRange()
	for it.Next() {
		it2 := it.Value().MapRange()
		for it2.Next() {
			lst := it2.Value()
			for i := 0; i < lst.Len(); i++ {
				p := (*network.BlockConfirmData)(unsafe.Pointer(lst.Index(i).Pointer()))
				out = append(out, *p)
			}
		}
	}
	return out
}

func scratchDir(name string) string {
	d := os.Getenv("VERIF_SCRATCH_DIR")
	if d == "" {
		d = filepath.Join(os.TempDir(), fmt.Sprintf("verif-%s-%d", name, os.Getpid()))
	}
	return d
}
