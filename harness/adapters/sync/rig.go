// Package syncad binds spec/Sync.tla / spec/TraceSync.tla (C20, sync convergence) to the REAL
// network.ProtocolManager, hook-free: a scripted p2p.IPeer is injected on the global subscribe bus, the
// chain side is the real chain.BlockChain behind a recording wrapper (network.BlockChain is an interface),
// the pool side the real txpool.TxPool behind a recording wrapper (network.TxPool).  Every call the
// manager makes on these three interfaces is an event in one totally ordered log; the adapter waits on
// those events (never sleeps-and-hopes) to find the quiescence point after each delivered message.
// It also binds spec/SyncCache.tla / spec/TraceSyncCache.tla to network.BlockCache / ConfirmCache directly.
package syncad

import (
	"crypto/ecdsa"
	"fmt"
	"io"
	"os"
	"path/filepath"
	"reflect"
	"runtime"
	"strconv"
	"strings"
	gosync "sync"
	"sync/atomic"
	"time"
	"unsafe"

	"github.com/LemoFoundationLtd/lemochain-core/chain"
	"github.com/LemoFoundationLtd/lemochain-core/chain/consensus"
	"github.com/LemoFoundationLtd/lemochain-core/chain/deputynode"
	"github.com/LemoFoundationLtd/lemochain-core/chain/txpool"
	"github.com/LemoFoundationLtd/lemochain-core/chain/types"
	"github.com/LemoFoundationLtd/lemochain-core/common"
	"github.com/LemoFoundationLtd/lemochain-core/common/flag"
	"github.com/LemoFoundationLtd/lemochain-core/common/rlp"
	"github.com/LemoFoundationLtd/lemochain-core/common/subscribe"
	"github.com/LemoFoundationLtd/lemochain-core/network"
	"github.com/LemoFoundationLtd/lemochain-core/network/p2p"
	"github.com/LemoFoundationLtd/lemochain-core/store"

	"verifharness/engine"
	"verifharness/node"
)

// waitLimit bounds every wait on the node under test.  Whether the manager reaches the awaited point is up to the code
// under test (a loop that gives up on a message, a handler that closes the session, an insert that never ends), so
// running into the limit is an OBSERVATION: engine.Realf records it in the trace as a line no monitor consumes (a
// violation with that step as its replay), the node is abandoned and the next behaviour starts on a fresh one.
// The limit is generous (the awaited points are milliseconds away, the queue timer 500 ms); once a wait has expired in
// this process the verdict is decided and later waits use the short limit, so that a wedged build ends quickly.
var (
	waitLimit      = envSeconds("VERIF_SYNC_WAIT", 30)
	waitLimitAfter = 3 * time.Second
	expiredWaits   int32
)

func envSeconds(name string, def int) time.Duration {
	if v, err := strconv.Atoi(os.Getenv(name)); err == nil && v > 0 {
		return time.Duration(v) * time.Second
	}
	return time.Duration(def) * time.Second
}

func limitNow() time.Duration {
	if atomic.LoadInt32(&expiredWaits) > 0 {
		return waitLimitAfter
	}
	return waitLimit
}

// expired reports a wait that ran into its limit as real-code behaviour (see waitLimit).
func expired(f string, a ...interface{}) {
	atomic.AddInt32(&expiredWaits, 1)
	engine.Realf(f, a...)
}

// ev is one observed call of the manager on one of the three interfaces (or of the scripted peer).
type ev struct {
	kind    string // HasBlock StableBlock CurrentBlock InsertBlock.begin InsertBlock.end InsertConfirms.begin InsertConfirms.end AddTx.begin AddTx.end read write close ...
	caller  string // function of package network that made the call, e.g. "(*ProtocolManager).rcvBlockLoop"
	async   bool   // InsertBlock.begin: the call runs in a goroutine of its own (go pm.insertBlock), not inside one of the manager's loops
	hash    common.Hash
	height  uint32
	ok      bool
	code    p2p.MsgCode
	content []byte
	err     string
}

// rig is the totally ordered event log plus the condition variable everything waits on.
type rig struct {
	mu   gosync.Mutex
	cond *gosync.Cond
	evs  []ev
	stop chan struct{}
}

func newRig() *rig {
	r := &rig{stop: make(chan struct{})}
	r.cond = gosync.NewCond(&r.mu)
	go func() { // wakes waiters so that deadlines and polled conditions are re-evaluated
		t := time.NewTicker(2 * time.Millisecond)
		defer t.Stop()
		for {
			select {
			case <-r.stop:
				return
			case <-t.C:
				r.cond.Broadcast()
			}
		}
	}()
	return r
}

var debugEvents = os.Getenv("VERIF_SYNC_DEBUG") != ""

func (r *rig) add(e ev) {
	if debugEvents {
		fmt.Fprintf(os.Stderr, "EV %s %s h=%d ok=%v code=%d %x\n", e.kind, e.caller, e.height, e.ok, e.code, e.hash[:3])
	}
	r.mu.Lock()
	r.evs = append(r.evs, e)
	r.mu.Unlock()
	r.cond.Broadcast()
}

func (r *rig) mark() int {
	r.mu.Lock()
	defer r.mu.Unlock()
	return len(r.evs)
}

// waitFor blocks until pred (evaluated under the log's lock) holds or the limit has passed; it says which.
func (r *rig) waitFor(limit time.Duration, pred func(evs []ev) bool) bool {
	deadline := time.Now().Add(limit)
	r.mu.Lock()
	defer r.mu.Unlock()
	for !pred(r.evs) {
		if time.Now().After(deadline) {
			return false
		}
		r.cond.Wait()
	}
	return true
}

// tail renders the last events of the log (for the message of an expired wait).
func (r *rig) tail(k int) string {
	r.mu.Lock()
	defer r.mu.Unlock()
	tail := r.evs
	if len(tail) > k {
		tail = tail[len(tail)-k:]
	}
	var sb strings.Builder
	for _, e := range tail {
		fmt.Fprintf(&sb, "\n   %s %s h=%d ok=%v code=%d %x", e.kind, e.caller, e.height, e.ok, e.code, e.hash[:4])
	}
	return sb.String()
}

// wait blocks until pred holds; the manager not getting there within the limit is recorded as its behaviour.
func (r *rig) wait(what string, pred func(evs []ev) bool) {
	limit := limitNow()
	if !r.waitFor(limit, pred) {
		expired("the node did not reach the awaited point within %v: %s; last events:%s", limit, what, r.tail(25))
	}
}

func count(evs []ev, from int, f func(e ev) bool) int {
	n := 0
	for i := from; i < len(evs); i++ {
		if f(evs[i]) {
			n++
		}
	}
	return n
}

// callerName is the function of package network that called the wrapper method.
func callerName() string {
	pcs := make([]uintptr, 6)
	n := runtime.Callers(3, pcs)
	frames := runtime.CallersFrames(pcs[:n])
	f, _ := frames.Next()
	name := f.Function
	if i := strings.LastIndex(name, "/network."); i >= 0 {
		return name[i+len("/network."):]
	}
	return name
}

// insertCaller names the function of package network that called InsertBlock and says whether that call runs in a
// goroutine of its own: the queue timer starts `go pm.insertBlock(b)`, the receive loop calls pm.insertBlock(b) itself.
func insertCaller() (string, bool) {
	pcs := make([]uintptr, 8)
	n := runtime.Callers(3, pcs)
	frames := runtime.CallersFrames(pcs[:n])
	var names []string
	for {
		f, more := frames.Next()
		names = append(names, f.Function)
		if !more || len(names) == 8 {
			break
		}
	}
	name := names[0]
	if i := strings.LastIndex(name, "/network."); i >= 0 {
		name = name[i+len("/network."):]
	}
	async := true
	for _, f := range names {
		if strings.HasSuffix(f, ".(*ProtocolManager).rcvBlockLoop") || strings.HasSuffix(f, ".(*ProtocolManager).handleMsg") {
			async = false
		}
	}
	return name, async
}

const (
	fromRcvLoop     = "(*ProtocolManager).rcvBlockLoop"      // the synchronous path of a received block
	fromTickPrefix  = "(*ProtocolManager).rcvBlockLoop.func" // processBlock, the timer drain callback
	fromConfirmMsg  = "(*ProtocolManager).handleConfirmMsg"
	fromTxGoPrefix  = "(*ProtocolManager).handleTxsMsg.func"
	fromGetLstState = "(*ProtocolManager).handleGetLstStatusMsg"
)

// ---------------------------------------------------------------- chain wrapper (network.BlockChain)

type chainWrap struct {
	r  *rig
	bc *chain.BlockChain
	// the interleaving "something arrives while the engine is busy with block X": when gateHash is set, InsertBlock of
	// that block waits on gate right after its begin event (guarded by r.mu)
	gate     chan struct{}
	gateHash common.Hash
	// the marker blocks made so far (guarded by r.mu): see nut.deliverBlocks
	markers map[common.Hash]bool
	// InsertBlock / InsertConfirms are let through one at a time (the engine serialises them under its chainLock anyway),
	// so that every move of the stable block - each of which the engine publishes as one event - is seen here
	ser gosync.Mutex
}

// mutate runs one engine call that may move the stable block and logs the move.
func (c *chainWrap) mutate(f func()) {
	c.ser.Lock()
	defer c.ser.Unlock()
	before := c.bc.StableBlock().Hash()
	f()
	if after := c.bc.StableBlock(); after.Hash() != before {
		c.r.add(ev{kind: "stable.changed", hash: after.Hash(), height: after.Height()})
	}
}

func (c *chainWrap) hold(h common.Hash) {
	c.r.mu.Lock()
	c.gate, c.gateHash = make(chan struct{}), h
	c.r.mu.Unlock()
}

func (c *chainWrap) release() {
	c.r.mu.Lock()
	g := c.gate
	c.gate = nil
	c.r.mu.Unlock()
	if g != nil {
		close(g)
	}
}

func (c *chainWrap) Genesis() *types.Block { return c.bc.Genesis() }
func (c *chainWrap) HasBlock(hash common.Hash) bool {
	who := callerName()
	ok := c.bc.HasBlock(hash)
	c.r.add(ev{kind: "HasBlock", caller: who, hash: hash, ok: ok})
	return ok
}
func (c *chainWrap) GetBlockByHeight(height uint32) *types.Block {
	return c.bc.GetBlockByHeight(height)
}
func (c *chainWrap) GetBlockByHash(hash common.Hash) *types.Block { return c.bc.GetBlockByHash(hash) }
func (c *chainWrap) CurrentBlock() *types.Block {
	who := callerName()
	b := c.bc.CurrentBlock()
	c.r.add(ev{kind: "CurrentBlock", caller: who, hash: b.Hash(), height: b.Height()})
	return b
}
func (c *chainWrap) StableBlock() *types.Block {
	who := callerName()
	b := c.bc.StableBlock()
	c.r.add(ev{kind: "StableBlock", caller: who, hash: b.Hash(), height: b.Height()})
	return b
}
func (c *chainWrap) InsertBlock(block *types.Block) error {
	who, async := insertCaller()
	h := block.Hash()
	c.r.add(ev{kind: "InsertBlock.begin", caller: who, hash: h, height: block.Height(), async: async})
	c.r.mu.Lock()
	g := c.gate
	if h != c.gateHash {
		g = nil
	}
	c.r.mu.Unlock()
	if g != nil {
		<-g
	}
	var err error
	c.mutate(func() { err = c.bc.InsertBlock(block) })
	e := ev{kind: "InsertBlock.end", caller: who, hash: h, height: block.Height(), ok: err == nil}
	if err != nil {
		e.err = err.Error()
	}
	c.r.add(e)
	return err
}
func (c *chainWrap) InsertConfirms(height uint32, blockHash common.Hash, sigList []types.SignData) {
	who := callerName()
	c.r.add(ev{kind: "InsertConfirms.begin", caller: who, hash: blockHash, height: height})
	c.mutate(func() { c.bc.InsertConfirms(height, blockHash, sigList) })
	c.r.add(ev{kind: "InsertConfirms.end", caller: who, hash: blockHash, height: height})
}
func (c *chainWrap) setMarker(h common.Hash) {
	c.r.mu.Lock()
	if c.markers == nil {
		c.markers = map[common.Hash]bool{}
	}
	c.markers[h] = true
	c.r.mu.Unlock()
}
func (c *chainWrap) IsInBlackList(b *types.Block) bool {
	h := b.Hash()
	c.r.mu.Lock()
	isMarker := c.markers[h]
	c.r.mu.Unlock()
	if isMarker {
		c.r.add(ev{kind: "marker", caller: callerName(), hash: h, height: b.Height()})
		return true
	}
	return c.bc.IsInBlackList(b)
}

// ---------------------------------------------------------------- pool wrapper (network.TxPool)

type poolWrap struct {
	r    *rig
	pool *txpool.TxPool
	// the interleaving "a block is inserted while the handler's goroutines are between their look at the chain and
	// AddTx": while gate is set, every AddTx call parks right after its begin event (guarded by r.mu)
	gate   chan struct{}
	parked int
}

func (p *poolWrap) hold() {
	p.r.mu.Lock()
	p.gate = make(chan struct{})
	p.r.mu.Unlock()
}

func (p *poolWrap) release() {
	p.r.mu.Lock()
	g := p.gate
	p.gate = nil
	p.r.mu.Unlock()
	if g != nil {
		close(g)
	}
}

func (p *poolWrap) parkedNow() int {
	p.r.mu.Lock()
	defer p.r.mu.Unlock()
	return p.parked
}

// quiet: with the gate closed, every one of the alive handler goroutines is parked at it; with the gate open none is alive
// (a goroutine that has been released but has not run yet still counts as parked: it is not done).
func (p *poolWrap) quiet(alive int) bool {
	p.r.mu.Lock()
	defer p.r.mu.Unlock()
	if p.gate == nil {
		return alive == 0
	}
	return alive == p.parked
}

func (p *poolWrap) GetTxs(time uint32, size int) types.Transactions { return p.pool.GetTxs(time, size) }

// DelTxs is not part of network.TxPool at the time of writing; it is here so that a manager that takes a transaction back
// out of the pool (e.g. after looking at the chain a second time) can be driven too.
func (p *poolWrap) DelTxs(txs types.Transactions) { p.pool.DelTxs(txs) }
func (p *poolWrap) AddTx(tx *types.Transaction) error {
	who := callerName()
	h := tx.Hash()
	p.r.add(ev{kind: "AddTx.begin", caller: who, hash: h})
	p.r.mu.Lock()
	g := p.gate
	if g != nil {
		p.parked++
	}
	p.r.mu.Unlock()
	if g != nil {
		<-g
		p.r.mu.Lock()
		p.parked--
		p.r.mu.Unlock()
	}
	err := p.pool.AddTx(tx)
	e := ev{kind: "AddTx.end", caller: who, hash: h, ok: err == nil}
	if err != nil {
		e.err = err.Error()
	}
	p.r.add(e)
	return err
}

// ---------------------------------------------------------------- scripted peer (p2p.IPeer)

type mockPeer struct {
	r      *rig
	id     p2p.NodeID
	mu     gosync.Mutex
	cond   *gosync.Cond
	queue  []*p2p.Msg
	closed bool
	status int32
}

func newMockPeer(r *rig, id []byte) *mockPeer {
	m := &mockPeer{r: r}
	copy(m.id[:], id)
	m.cond = gosync.NewCond(&m.mu)
	return m
}

func (m *mockPeer) push(code p2p.MsgCode, content []byte) {
	m.mu.Lock()
	m.queue = append(m.queue, &p2p.Msg{Code: code, Content: content, ReceivedAt: time.Now()})
	m.mu.Unlock()
	m.cond.Broadcast()
}

func (m *mockPeer) ReadMsg() (*p2p.Msg, error) {
	m.r.add(ev{kind: "read.wait"})
	m.mu.Lock()
	for len(m.queue) == 0 && !m.closed {
		m.cond.Wait()
	}
	if len(m.queue) == 0 {
		m.mu.Unlock()
		return nil, io.EOF
	}
	msg := m.queue[0]
	m.queue = m.queue[1:]
	m.mu.Unlock()
	m.r.add(ev{kind: "read", code: msg.Code})
	return msg, nil
}
func (m *mockPeer) WriteMsg(code p2p.MsgCode, msg []byte) error {
	m.mu.Lock()
	closed := m.closed
	m.mu.Unlock()
	if closed {
		return io.ErrClosedPipe
	}
	m.r.add(ev{kind: "write", code: code, content: append([]byte(nil), msg...)})
	return nil
}
func (m *mockPeer) SetWriteDeadline(time.Duration) {}
func (m *mockPeer) RNodeID() *p2p.NodeID {
	// stableBlockLoop calls peers.DelayNodes -> peer.NodeID -> RNodeID once per NewStableBlock event it has taken off the bus
	pcs := make([]uintptr, 8)
	n := runtime.Callers(2, pcs)
	frames := runtime.CallersFrames(pcs[:n])
	for {
		f, more := frames.Next()
		if strings.HasSuffix(f.Function, "(*ProtocolManager).stableBlockLoop") {
			m.r.add(ev{kind: "stable.received"})
			break
		}
		if !more {
			break
		}
	}
	id := m.id
	return &id
}
func (m *mockPeer) RAddress() string                                 { return "10.0.0.1:7001" }
func (m *mockPeer) LAddress() string                                 { return "10.0.0.2:7002" }
func (m *mockPeer) DoHandshake(*ecdsa.PrivateKey, *p2p.NodeID) error { return nil }
func (m *mockPeer) Run() error                                       { return nil }
func (m *mockPeer) NeedReConnect() bool                              { return false }
func (m *mockPeer) SetStatus(s int32)                                { m.mu.Lock(); m.status = s; m.mu.Unlock() }
func (m *mockPeer) isClosed() bool {
	m.mu.Lock()
	defer m.mu.Unlock()
	return m.closed
}
func (m *mockPeer) Close() {
	m.mu.Lock()
	was := m.closed
	m.closed = true
	m.mu.Unlock()
	m.cond.Broadcast()
	if !was {
		m.r.add(ev{kind: "close"})
	}
}

// ---------------------------------------------------------------- the node under test

type nut struct {
	dir    string
	r      *rig
	db     *store.ChainDatabase
	dm     *deputynode.Manager
	pool   *txpool.TxPool
	bc     *chain.BlockChain
	cw     *chainWrap
	pw     *poolWrap
	pm     *network.ProtocolManager
	peer   *mockPeer
	bcache *network.BlockCache
	ccache *network.ConfirmCache

	w        *node.World
	tipH     uint32
	tipHash  common.Hash
	markers  int  // marker blocks made so far (each is unique)
	sessions int  // scripted peer sessions opened so far
	dropped  bool // the manager closed the scripted peer's session since the last takeDropped
	stopped  bool
}

// newChain assembles the chain exactly like the node does (store, genesis, deputy manager, pool, chain.NewBlockChain).
func newChain(w *node.World, dir string) (*store.ChainDatabase, *deputynode.Manager, *txpool.TxPool, *chain.BlockChain) {
	if err := os.MkdirAll(dir, 0755); err != nil {
		engine.Failf("mkdir %s: %v", dir, err)
	}
	db := store.NewChainDataBase(dir)
	chain.SetupGenesisBlock(db, w.Genesis())
	dm := deputynode.NewManager(w.N, db)
	pool := txpool.NewTxPool()
	bc, err := chain.NewBlockChain(chain.Config{ChainID: node.ChainID, MineTimeout: w.TimeoutMs}, dm, db, flag.CmdFlags{}, pool)
	if err != nil {
		engine.Failf("NewBlockChain: %v", err)
	}
	waitFeedsSubscribed(bc)
	return db, dm, pool, bc
}

// waitFeedsSubscribed: NewBlockChain starts the goroutine that forwards the engine's stable/current/confirm feeds to the
// global bus with a go statement; until that goroutine has subscribed, a stable-block event of the engine goes nowhere.
// A node that has just started never moves its stable block within its first milliseconds - a replayed behaviour does,
// and on a loaded machine the event was seen to get lost (1 in ~600 fresh nodes).  So wait for the subscriptions.
func waitFeedsSubscribed(bc *chain.BlockChain) {
	dp := reflect.NewAt(reflect.TypeOf(consensus.DPoVP{}), unexportedPtr(bc, "engine")).Elem()
	deadline := time.Now().Add(waitLimit)
	for {
		ready := true
		for _, name := range []string{"stableFeed", "currentFeed", "confirmFeed", "fetchConfirmsFeed"} {
			f := dp.FieldByName(name)
			if !f.IsValid() {
				engine.Failf("sync harness: consensus.DPoVP has no field %s any more", name)
			}
			mu := (*gosync.Mutex)(unsafe.Pointer(f.FieldByName("mu").UnsafeAddr()))
			mu.Lock()
			n := f.FieldByName("inbox").Len() + f.FieldByName("sendCases").Len()
			mu.Unlock()
			if n < 2 { // one internal case (sendCases) once the feed is initialised + the forwarder's subscription
				ready = false
			}
		}
		if ready {
			return
		}
		if time.Now().After(deadline) {
			engine.Failf("sync harness: the chain's feed forwarder did not subscribe within %v", waitLimit)
		}
		time.Sleep(200 * time.Microsecond)
	}
}

// unexportedPtr returns the pointer stored in an unexported pointer field of *obj (read-only use).
func unexportedPtr(obj interface{}, field string) unsafe.Pointer {
	v := reflect.ValueOf(obj).Elem().FieldByName(field)
	if !v.IsValid() || v.Kind() != reflect.Ptr {
		engine.Failf("sync harness: %T has no pointer field %q any more", obj, field)
	}
	return unsafe.Pointer(v.Pointer())
}

// startNut creates a fresh real node + protocol manager and connects the scripted peer (protocol handshake
// claiming status (tipHeight, tipHash, stable = genesis)).
func startNut(w *node.World, dir string, tipHeight uint32, tipHash common.Hash) *nut {
	n := &nut{dir: dir, r: newRig()}
	n.db, n.dm, n.pool, n.bc = newChain(w, dir)
	n.cw = &chainWrap{r: n.r, bc: n.bc}
	var self p2p.NodeID
	copy(self[:], deputynode.GetSelfNodeID())
	discover := p2p.NewDiscoverManager(dir)
	n.pw = &poolWrap{r: n.r, pool: n.pool}
	n.pm = network.NewProtocolManager(node.ChainID, self, n.cw, n.dm, n.pw, n.bc.TxGuard(), discover, 10, 1, dir)
	n.bcache = (*network.BlockCache)(unexportedPtr(n.pm, "blockCache"))
	n.ccache = (*network.ConfirmCache)(unexportedPtr(n.pm, "confirmsCache"))
	n.pm.Start()
	n.w, n.tipH, n.tipHash = w, tipHeight, tipHash
	defer func() {
		if r := recover(); r != nil { // the session could not be opened (recorded by the caller's caller): nobody else gets hold of this node
			n.stop()
			panic(r)
		}
	}()
	n.attach()
	return n
}

// attach opens a scripted peer session: protocol handshake claiming status (tip, stable = genesis), message loop started.
func (n *nut) attach() {
	from := n.r.mark()
	n.sessions++
	n.peer = newMockPeer(n.r, n.w.NodeIDs[0])
	g := n.bc.Genesis()
	hs := &network.ProtocolHandshake{ChainID: node.ChainID, GenesisHash: g.Hash(), NodeVersion: 1,
		LatestStatus: network.LatestStatus{CurHeight: n.tipH, CurHash: n.tipHash, StaHeight: 0, StaHash: g.Hash()}}
	n.peer.push(p2p.ProHandshakeMsg, hs.Bytes())
	subscribe.Send(subscribe.AddNewPeer, p2p.IPeer(n.peer))
	// ready = our handshake was written, the peer's was read, and the message reader is blocked in its next ReadMsg
	n.r.wait("protocol handshake and message loop start", func(evs []ev) bool {
		return count(evs, from, func(e ev) bool { return e.kind == "read.wait" }) >= 2 &&
			count(evs, from, func(e ev) bool { return e.kind == "write" && e.code == p2p.ProHandshakeMsg }) >= 1
	})
}

// waitPeer waits until pred holds - or until the manager has closed the scripted peer's session, which is part of what
// the step did: it is noted (logged as peer_dropped by the step), a fresh session is opened for what follows, and the
// result is false.  Whatever was queued behind the message that cost the session is gone with it.
func (n *nut) waitPeer(what string, pred func(evs []ev) bool) bool {
	p := n.peer
	done := false
	n.r.wait(what+" (or the session to be closed by the node)", func(evs []ev) bool {
		done = pred(evs)
		return done || p.isClosed()
	})
	if done {
		return true
	}
	n.dropped = true
	n.attach()
	return false
}

func (n *nut) takeDroppedPeek() bool { return n.dropped }

func (n *nut) takeDropped() bool {
	d := n.dropped
	n.dropped = false
	return d
}

// stop ends the peer session through the manager's own error path (an unknown message code), stops the
// manager's loops and the chain, and removes the data directory.  Every wait is bounded; if the node does not get to a
// point where it can be taken apart (its loops do not end, an insert never finishes, a stable-block event is never taken
// off the bus) it is abandoned as it is - data directory and all - and what was missing is returned.
func (n *nut) stop() string {
	// (a stop that fails half way must not be tried again by the adapter's Close: the manager's Stop is not made to be
	// called twice)
	if n.stopped {
		return ""
	}
	n.stopped = true
	limit := limitNow()
	if n.pm != nil {
		// A behaviour may end while a cached block is insertable.  The manager's queue timer would hand it to the engine at
		// any moment - also right after the manager's loops have been stopped, and then the stable-block event of that insert
		// is taken off the bus by nobody (or by the NEXT behaviour's manager).  So let the timer do its work first; if it
		// does not within a few periods, go on (the strict wait below then reports what is left).
		n.softDrain(3 * time.Second)
		p := n.peer
		if !p.isClosed() {
			p.push(p2p.MsgCode(0x7f), []byte{0xc0})
		}
		closed := n.r.waitFor(limit, func([]ev) bool { return p.isClosed() })
		stopped := make(chan struct{})
		go func() { n.pm.Stop(); close(stopped) }()
		select {
		case <-stopped:
		case <-time.After(limit):
			return fmt.Sprintf("ProtocolManager.Stop did not return within %v; last events:%s", limit, n.r.tail(15))
		}
		if !closed {
			return fmt.Sprintf("the manager did not close the session of a peer that sent an unknown message code within %v; last events:%s", limit, n.r.tail(15))
		}
		// the loops are gone, but inserts the queue timer already started (go pm.insertBlock) may still run:
		// the database must not be closed under them
		if !n.r.waitFor(limit, func(evs []ev) bool { ins, _ := settledParts(evs); return ins }) {
			return fmt.Sprintf("inserts still running %v after the manager stopped; last events:%s", limit, n.r.tail(25))
		}
		// A stable-block event of an insert the queue timer started just before the harness stopped the manager (softDrain gave
		// up, or the timer fired between the last look and Stop) is taken off the bus by nobody: the manager's loop is gone.
		// That is the harness' doing, not the node's.  Give the chain's forwarder the moment it needs to put the event on the
		// bus (where the stopped manager's buffered channel, or nobody, gets it) before the chain - and the forwarder with it -
		// is stopped, so that it cannot reach the next behaviour's manager.
		if !n.r.waitFor(300*time.Millisecond, settledIn) {
			time.Sleep(200 * time.Millisecond)
		}
	}
	n.bc.Stop()
	close(n.r.stop)
	n.db.Close()
	os.RemoveAll(n.dir)
	return ""
}

// retire stops the node of the behaviour that has ended.  `wedged` = a wait on this node has already expired (recorded as
// that step's observation); otherwise a node that cannot be taken apart is reported now.
func (n *nut) retire(wedged bool) {
	if msg := n.stop(); msg != "" && !wedged {
		expired("the node of the previous behaviour could not be stopped: %s", msg)
	}
}

func enc(v interface{}) []byte {
	b, err := rlp.EncodeToBytes(v)
	if err != nil {
		engine.Failf("rlp: %v", err)
	}
	return b
}

// fence queues a GetLstStatusMsg: the manager handles one peer's messages strictly one after the other, so
// once the fence's handler has run, work() of every message queued before it has returned.  false: the manager closed
// the session instead (see waitPeer).
func (n *nut) fence() bool {
	from := n.r.mark()
	n.peer.push(p2p.GetLstStatusMsg, enc(&network.GetLatestStatus{Revert: 0}))
	return n.waitPeer("fence (GetLstStatusMsg handled)", func(evs []ev) bool {
		return count(evs, from, func(e ev) bool { return e.kind == "write" && e.code == p2p.LstStatusMsg }) >= 1
	})
}

// settled: every InsertBlock / InsertConfirms the manager hands to a goroutine of its own (HasBlock(parent)=true in the
// timer callback -> go pm.insertBlock; HasBlock(hash)=true for a single confirm -> go InsertConfirms) has begun, every
// begun one has ended, and every stable-block event the engine published has been taken off the bus by the manager's
// stableBlockLoop (so none can leak into the next behaviour's manager, and the cache clearing it triggers is at most one
// goroutine start away).  What the receive loop does with a received block it does itself, in whatever order it asks its
// questions: deliverBlocks waits for the loop to be done with the message (the marker behind it), not for particular calls.
func settledIn(evs []ev) bool {
	ins, st := settledParts(evs)
	return ins && st
}

// settledParts: (every insert the manager decided on has begun and ended, every stable-block event has been taken off the bus)
func settledParts(evs []ev) (bool, bool) {
	expIns, begIns, endIns, goIns, expConf, goConf, begConf, endConf, stChanged, stReceived := 0, 0, 0, 0, 0, 0, 0, 0, 0, 0
	for _, e := range evs {
		switch e.kind {
		case "HasBlock":
			switch {
			case strings.HasPrefix(e.caller, fromTickPrefix):
				if e.ok {
					expIns++
				}
			case e.caller == fromConfirmMsg:
				if e.ok {
					expConf++
				}
			}
		case "InsertBlock.begin":
			begIns++
			if e.async {
				goIns++
			}
		case "InsertBlock.end":
			endIns++
		case "InsertConfirms.begin":
			begConf++
			if e.caller == "runtime.goexit" { // started by handleConfirmMsg's go statement (any other caller is a synchronous call)
				goConf++
			}
		case "InsertConfirms.end":
			endConf++
		case "stable.changed":
			stChanged++
		case "stable.received":
			stReceived++
		}
	}
	return begIns == endIns && begConf == endConf && goIns >= expIns && goConf >= expConf, stReceived >= stChanged
}

// txHandlerGoroutines counts the goroutines the transaction handler started (and has not finished yet): whatever
// their body looks like, the runtime's goroutine dump names the function whose go statement created them.
func txHandlerGoroutines() int {
	buf := make([]byte, 1<<16)
	for {
		k := runtime.Stack(buf, true)
		if k < len(buf) {
			buf = buf[:k]
			break
		}
		buf = make([]byte, 2*len(buf))
	}
	c := 0
	for _, g := range strings.Split(string(buf), "\n\n") {
		if strings.Contains(g, "created by ") && strings.Contains(g[strings.LastIndex(g, "created by "):], ".(*ProtocolManager).handleTxsMsg") {
			c++
		}
	}
	return c
}

// waitTxHandlers waits until every goroutine the transaction handler started has ended - or, with the AddTx gate
// closed, until each of them has either ended or is parked inside AddTx.
func (n *nut) waitTxHandlers(what string) {
	limit := limitNow()
	deadline := time.Now().Add(limit)
	for {
		if n.pw.quiet(txHandlerGoroutines()) {
			return
		}
		if time.Now().After(deadline) {
			expired("%d goroutines of the transaction handler still running %v after %s (%d parked in AddTx)", txHandlerGoroutines(), limit, what, n.pw.parkedNow())
		}
		time.Sleep(200 * time.Microsecond)
	}
}

// softDrain waits, at most for `limit`, until no cached block has a known parent and everything has settled.
func (n *nut) softDrain(limit time.Duration) {
	deadline := time.Now().Add(limit)
	for time.Now().Before(deadline) {
		insertable := false
		for _, b := range n.cachedBlocks() {
			if n.bc.HasBlock(b.ParentHash()) {
				insertable = true
			}
		}
		n.r.mu.Lock()
		ok := !insertable && settledIn(n.r.evs)
		n.r.mu.Unlock()
		if ok {
			return
		}
		time.Sleep(2 * time.Millisecond)
	}
}

func (n *nut) waitSettled(what string) {
	n.r.wait("inserts to finish after "+what, settledIn)
}

// cachedBlocks reads the manager's block cache through its own Iterate (nothing removed).
func (n *nut) cachedBlocks() []*types.Block {
	var out []*types.Block
	n.bcache.Iterate(func(b *types.Block) bool { out = append(out, b); return false })
	return out
}

// waitStableCleared: after the stable block moved, the manager clears both caches up to its height in a
// goroutine behind three asynchronous hops; wait until that has visibly happened.
func (n *nut) waitStableCleared(stable uint32) {
	limit := limitNow()
	deadline := time.Now().Add(limit)
	for {
		ok := true
		if fh := n.bcache.FirstHeight(); fh != 0 && fh <= stable {
			ok = false
		}
		for _, c := range dumpConfirmCache(n.ccache) {
			if c.Height <= stable {
				ok = false
			}
		}
		if ok {
			return
		}
		if time.Now().After(deadline) {
			expired("the caches still hold entries at or below the stable height %d, %v after it became stable: slots %v, confirms %v",
				stable, limit, dumpBlockCache(n.bcache), dumpConfirmCache(n.ccache))
		}
		time.Sleep(time.Millisecond)
	}
}

// ---------------------------------------------------------------- reading the unexported cache layouts

// slot is one height entry of network.BlockCache (a blocksSameHeight).
type slot struct {
	Height uint32
	Blocks []common.Hash
}

func lockOf(obj interface{}) *gosync.Mutex {
	v := reflect.ValueOf(obj).Elem().FieldByName("lock")
	if !v.IsValid() || v.Type() != reflect.TypeOf(gosync.Mutex{}) {
		engine.Failf("sync harness: %T has no sync.Mutex field 'lock' any more", obj)
	}
	return (*gosync.Mutex)(unsafe.Pointer(v.UnsafeAddr()))
}

// dumpBlockCache reads BlockCache.cache ([]*blocksSameHeight{Height, Blocks map}) under the cache's lock.
func dumpBlockCache(c *network.BlockCache) []slot {
	mu := lockOf(c)
	mu.Lock()
	defer mu.Unlock()
	v := reflect.ValueOf(c).Elem().FieldByName("cache")
	if !v.IsValid() || v.Kind() != reflect.Slice {
		engine.Failf("sync harness: BlockCache.cache is not a slice any more")
	}
	out := []slot{}
	for i := 0; i < v.Len(); i++ {
		e := v.Index(i).Elem()
		s := slot{Height: uint32(e.FieldByName("Height").Uint()), Blocks: []common.Hash{}}
		it := e.FieldByName("Blocks").MapRange()
		for it.Next() {
			var h common.Hash
			k := it.Key()
			for j := 0; j < k.Len(); j++ {
				h[j] = byte(k.Index(j).Uint())
			}
			s.Blocks = append(s.Blocks, h)
		}
		out = append(out, s)
	}
	return out
}

// dumpConfirmCache reads ConfirmCache.cache (map height -> hash -> []*BlockConfirmData) under its lock.
func dumpConfirmCache(c *network.ConfirmCache) []network.BlockConfirmData {
	mu := lockOf(c)
	mu.Lock()
	defer mu.Unlock()
	v := reflect.ValueOf(c).Elem().FieldByName("cache")
	if !v.IsValid() || v.Kind() != reflect.Map {
		engine.Failf("sync harness: ConfirmCache.cache is not a map any more")
	}
	out := []network.BlockConfirmData{}
	it := v.MapRange()
	for it.Next() {
		it2 := it.Value().MapRange()
		for it2.Next() {
			lst := it2.Value()
			for i := 0; i < lst.Len(); i++ {
				p := (*network.BlockConfirmData)(unsafe.Pointer(lst.Index(i).Pointer()))
				out = append(out, *p)
			}
		}
	}
	return out
}

func scratchDir(name string) string {
	d := os.Getenv("VERIF_SCRATCH_DIR")
	if d == "" {
		d = filepath.Join(os.TempDir(), fmt.Sprintf("verif-%s-%d", name, os.Getpid()))
	}
	return d
}
