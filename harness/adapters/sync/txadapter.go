package syncad

import (
	"fmt"
	"path/filepath"
	"sort"
	"time"

	"github.com/LemoFoundationLtd/lemochain-core/chain/types"

	"verifharness/engine"
	"verifharness/tla"
)

// txAdapter steps SyncTx.tla behaviours through the real ProtocolManager: blocks of a segment whose blocks package
// transactions, a side block, and transaction batches that mix transactions of every status (on the current
// branch, on the side fork, pending, new, not acceptable, boxes around any of those), delivered before / after /
// while the blocks that package some of them are inserted.
type txAdapter struct {
	dir    string
	worlds map[string]*txWorld
	wd     *txWorld
	n      *nut
	seq    int
	wedged bool // a step of the current behaviour ended in a panic (an expired wait is recorded that way)
}

func (a *txAdapter) world(u *universe) *txWorld {
	if a.worlds == nil {
		a.worlds = map[string]*txWorld{}
		a.dir = scratchDir("synctx")
	}
	k := u.key()
	wd := a.worlds[k]
	if wd != nil && wd.stale() {
		wd.close()
		wd = nil
	}
	if wd == nil {
		a.seq++
		wd = newTxWorld(u, filepath.Join(a.dir, fmt.Sprintf("world%d", a.seq)))
		a.worlds[k] = wd
	}
	return wd
}

func (a *txAdapter) Reset(init map[string]tla.Value) (engine.Fields, error) {
	w, ok := init["world"]
	if !ok {
		engine.Failf("synctx: the initial state has no variable `world`")
	}
	return a.reset(universeOf(w)), nil
}

func (a *txAdapter) reset(u *universe) engine.Fields {
	if old := a.n; old != nil {
		a.n = nil
		old.retire(a.wedged)
	}
	a.wedged = false
	a.wd = a.world(u)
	a.seq++
	tip := a.wd.main[len(a.wd.main)-1]
	a.n = startNut(a.wd.w, filepath.Join(a.dir, fmt.Sprintf("nut%d", a.seq)), tip.Height(), tip.Hash())
	fl := engine.Fields{"peer_dropped": false}
	u.fields(fl)
	a.project(fl)
	return fl
}

// project logs the node's observable state: which blocks of the universe the chain has, its current block, the
// heights waiting in the block cache, and the pool as the miner would be handed it (every pending transaction, as
// often as it is handed out).
func (a *txAdapter) project(fl engine.Fields) {
	n, wd := a.n, a.wd
	has := []int{}
	for h := 1; h < len(wd.main); h++ {
		if n.bc.HasBlock(wd.main[h].Hash()) {
			has = append(has, h)
		}
	}
	fl["has"] = has
	fl["side"] = wd.side != nil && n.bc.HasBlock(wd.side.Hash())
	cur := n.bc.CurrentBlock()
	fl["cur"] = int(cur.Height())
	fl["curmain"] = int(cur.Height()) < len(wd.main) && wd.main[cur.Height()].Hash() == cur.Hash()
	fl["stable"] = int(n.bc.StableBlock().Height())
	wait := []int{}
	for _, b := range n.cachedBlocks() {
		h := int(b.Height())
		switch {
		case h < len(wd.main) && wd.main[h].Hash() == b.Hash():
			wait = append(wait, h)
		case wd.side != nil && wd.side.Hash() == b.Hash():
			wait = append(wait, 0)
		default:
			wait = append(wait, -1)
		}
	}
	sort.Ints(wait)
	fl["wait"] = wait
	pool := []string{}
	for _, tx := range n.pool.GetTxs(0, 100000) {
		pool = append(pool, wd.name(tx.Hash()))
	}
	sort.Strings(pool)
	fl["pool"] = pool
}

func (a *txAdapter) names(v tla.Value) []string {
	out := []string{}
	for _, e := range v.Elems {
		out = append(out, e.S())
	}
	return out
}

func (a *txAdapter) Apply(s engine.Step) (engine.Fields, error) {
	args := s.Act.Args
	switch s.Act.Name {
	case "DeliverBlock":
		return a.do("DeliverBlock", args[0].I(), nil), nil
	case "DeliverSide":
		return a.do("DeliverSide", 0, nil), nil
	case "TimerDrain":
		return a.do("TimerDrain", 0, nil), nil
	case "DeliverTxs":
		return a.do("DeliverTxs", 0, a.names(args[0])), nil
	case "RaceAdd":
		return a.do("RaceAdd", args[1].I(), a.names(args[0])), nil
	case "RaceInsert":
		return a.do("RaceInsert", args[1].I(), a.names(args[0])), nil
	}
	return nil, fmt.Errorf("unknown action %s", s.Act.Name)
}

// do performs one step on the real manager and logs the state at the quiescence point after it.
func (a *txAdapter) do(act string, h int, batch []string) engine.Fields {
	defer func() {
		if r := recover(); r != nil {
			a.wedged = true
			panic(r)
		}
	}()
	n, wd := a.n, a.wd
	fl := engine.Fields{}
	block := func() *types.Block {
		if h < 1 || h >= len(wd.main) {
			engine.Failf("synctx: no main block of height %d", h)
		}
		return wd.main[h]
	}
	switch act {
	case "DeliverBlock":
		fl["path"] = n.deliverBlock(block(), wd.main[0], fmt.Sprintf("main block %d", h))
	case "DeliverSide":
		if wd.side == nil {
			engine.Failf("synctx: the universe has no side block")
		}
		fl["path"] = n.deliverBlock(wd.side, wd.main[0], "the side block")
	case "TimerDrain":
		n.timerDrain()
	case "DeliverTxs":
		n.deliverBatch(wd.batch(batch), "the batch")
	case "RaceAdd":
		// the batch is handled up to the point where its goroutines call AddTx; there they are parked, the block is
		// delivered and inserted completely, then the goroutines go on
		n.pw.hold()
		func() {
			defer n.pw.release()
			n.deliverBatch(wd.batch(batch), "the batch (AddTx held)")
			fl["parked"] = n.pw.parkedNow()
			fl["path"] = n.deliverBlock(block(), wd.main[0], fmt.Sprintf("main block %d", h))
			n.fence()
			n.waitSettled("block during batch")
		}()
		n.waitTxHandlers("the released batch")
	case "RaceInsert":
		// the block is handed to the engine and held at the door of InsertBlock; the batch is handled completely; then
		// the engine goes on
		b := block()
		n.cw.hold(b.Hash())
		func() {
			defer n.cw.release()
			from := n.r.mark()
			loopDone := n.pushBlocks([]*types.Block{b}, wd.main[0])
			held := false
			n.waitPeer(fmt.Sprintf("main block %d to enter InsertBlock", h), func(evs []ev) bool {
				held = count(evs, from, func(e ev) bool { return e.kind == "InsertBlock.begin" && e.hash == b.Hash() }) >= 1
				return held || loopDone(evs)
			})
			fl["held"] = held
			n.deliverBatch(wd.batch(batch), "the batch (block held)")
			n.cw.release()
			// (if the session was closed meanwhile the marker is gone with it; the held block is with the loop already)
			if !n.takeDroppedPeek() {
				n.waitPeer("the receive loop to finish the held block and the marker behind it", loopDone)
			}
		}()
	default:
		engine.Failf("synctx: unknown step %s", act)
	}
	n.fence()
	a.snapshot(fl, act)
	// the manager closed the session of the peer during this step (a fresh session was opened for the steps that follow)
	fl["peer_dropped"] = n.takeDropped()
	return fl
}

// snapshot logs the node state at a quiescence point (see adapter.snapshot).
func (a *txAdapter) snapshot(fl engine.Fields, what string) {
	n := a.n
	limit := limitNow()
	deadline := time.Now().Add(limit)
	for {
		n.waitSettled(what)
		n.waitTxHandlers(what)
		m0 := n.r.mark()
		tmp := engine.Fields{}
		a.project(tmp)
		n.r.mu.Lock()
		quiet := len(n.r.evs) == m0 && settledIn(n.r.evs)
		n.r.mu.Unlock()
		if quiet {
			for k, v := range tmp {
				fl[k] = v
			}
			return
		}
		if time.Now().After(deadline) {
			expired("the node did not come to rest within %v after %s (the manager keeps calling into the chain / pool / peer)", limit, what)
		}
	}
}

func (a *txAdapter) Close() {
	if a.n != nil {
		a.n.stop()
		a.n = nil
	}
	for _, wd := range a.worlds {
		wd.close()
	}
}

func init() { engine.Register("synctx", func() engine.Adapter { return &txAdapter{} }) }
