package syncad

import (
	"fmt"
	"sort"

	"github.com/LemoFoundationLtd/lemochain-core/chain/types"
	"github.com/LemoFoundationLtd/lemochain-core/common"
	"github.com/LemoFoundationLtd/lemochain-core/network"

	"verifharness/engine"
	"verifharness/tla"
)

// cacheAdapter steps SyncCache.tla behaviours through a real network.BlockCache and network.ConfirmCache.
// After every call it logs the slot layout (read under the cache's own lock) and what Size / FirstHeight /
// Iterate say, resp. the confirm cache's content and Size.
type cacheAdapter struct {
	bc     *network.BlockCache
	cc     *network.ConfirmCache
	blocks map[int]*types.Block
	ids    map[common.Hash]int
}

func (a *cacheAdapter) block(id int) *types.Block {
	if b, ok := a.blocks[id]; ok {
		return b
	}
	b := &types.Block{Header: &types.Header{Height: uint32(id / 10), Time: uint32(1000 + id%10), Extra: fmt.Sprintf("cache-%d", id)}}
	a.blocks[id] = b
	a.ids[b.Hash()] = id
	return b
}

func blockHashOf(k string) common.Hash { return common.BytesToHash([]byte("confirmed-block-" + k)) }

func (a *cacheAdapter) Reset(init map[string]tla.Value) (engine.Fields, error) {
	a.bc = network.NewBlockCache()
	a.cc = network.NewConfirmCache()
	if a.blocks == nil {
		a.blocks, a.ids = map[int]*types.Block{}, map[common.Hash]int{}
	}
	fl := engine.Fields{}
	a.project(fl)
	return fl, nil
}

func (a *cacheAdapter) idOf(h common.Hash) int {
	id, ok := a.ids[h]
	if !ok {
		engine.Failf("block cache holds a block that was never added: %s", h.Hex())
	}
	return id
}

func (a *cacheAdapter) project(fl engine.Fields) {
	slots := [][]interface{}{}
	for _, s := range dumpBlockCache(a.bc) {
		ids := []int{}
		for _, h := range s.Blocks {
			ids = append(ids, a.idOf(h))
		}
		sort.Ints(ids)
		slots = append(slots, []interface{}{int(s.Height), ids})
	}
	fl["slots"] = slots
	iter := []int{}
	a.bc.Iterate(func(b *types.Block) bool { iter = append(iter, a.idOf(b.Hash())); return false })
	fl["iter"] = iter
	fl["bsize"] = a.bc.Size()
	fl["first"] = int(a.bc.FirstHeight())
	fl["cc"] = confirmIDs(dumpConfirmCache(a.cc))
	fl["ccsize"] = a.cc.Size()
}

// confirm ids are <<height, block, signer>>; the block name is the byte after the fixed prefix of the hash
func confirmIDs(cs []network.BlockConfirmData) [][]interface{} {
	out := [][]interface{}{}
	for _, c := range cs {
		out = append(out, []interface{}{int(c.Height), string(c.SignInfo[1:2]), int(c.SignInfo[0])})
	}
	sort.Slice(out, func(i, j int) bool { return fmt.Sprint(out[i]) < fmt.Sprint(out[j]) })
	return out
}

func (a *cacheAdapter) Apply(s engine.Step) (engine.Fields, error) {
	fl := engine.Fields{}
	arg := s.Act.Args[0]
	switch s.Act.Name {
	case "Add":
		a.bc.Add(a.block(arg.I()))
	case "Iter":
		visited := []int{}
		a.bc.Iterate(func(b *types.Block) bool {
			id := a.idOf(b.Hash())
			visited = append(visited, id)
			if arg.At(0).S() == "b" {
				return id == arg.At(1).I()
			}
			return id/10 <= arg.At(1).I()
		})
		fl["visited"] = visited
	case "Remove":
		a.bc.Remove(a.block(arg.I()))
	case "Clear":
		a.bc.Clear(uint32(arg.I()))
	case "Push":
		k := arg.At(1).S()
		var sig types.SignData
		sig[0], sig[1] = byte(arg.At(2).I()), k[0]
		a.cc.Push(&network.BlockConfirmData{Hash: blockHashOf(k), Height: uint32(arg.At(0).I()), SignInfo: sig})
	case "Pop":
		fl["popped"] = confirmIDs(derefConfirms(a.cc.Pop(uint32(arg.At(0).I()), blockHashOf(arg.At(1).S()))))
	case "CClear":
		a.cc.Clear(uint32(arg.I()))
	default:
		return nil, fmt.Errorf("unknown action %s", s.Act.Name)
	}
	a.project(fl)
	return fl, nil
}

func derefConfirms(ps []*network.BlockConfirmData) []network.BlockConfirmData {
	out := []network.BlockConfirmData{}
	for _, p := range ps {
		out = append(out, *p)
	}
	return out
}

func (a *cacheAdapter) Close() {}

func init() { engine.Register("synccache", func() engine.Adapter { return &cacheAdapter{} }) }
