package syncad

import (
	"bufio"
	"encoding/json"
	"flag"
	"fmt"
	"math/rand"
	"os"
	"runtime/debug"
	"sort"
	"strconv"
	"strings"

	"verifharness/engine"
)

// driveTxGrid: vh drive synctx-grid -out f -seed s -n behaviours [-batches k] [-maxlen l] [-races]
// Seeded random sessions over the default universe (all transactions, batches of up to maxlen of them in any
// position, with repetitions), recorded in the format of a replay and judged by the same monitor (TraceSyncTx.tla).
// The generator only keeps to the scenario assumptions of SyncTx.tla (the side block arrives after its main-branch
// sibling; a batch is not delivered while the queue timer has an insertable block to drain); it predicts nothing.
func driveTxGrid(args []string) error {
	fs := flag.NewFlagSet("synctx-grid", flag.ContinueOnError)
	out := fs.String("out", "trace.ndjson", "")
	seed := fs.Int64("seed", 1, "")
	nbeh := fs.Int("n", 50, "sessions")
	nbatch := fs.Int("batches", 4, "batches per session")
	maxlen := fs.Int("maxlen", 5, "longest batch")
	races := fs.Bool("races", true, "include the interleavings with a block insertion")
	base := fs.Int("base", 0, "number of the first behaviour")
	if err := fs.Parse(args); err != nil {
		return err
	}
	f, err := os.Create(*out)
	if err != nil {
		return err
	}
	defer f.Close()
	w := bufio.NewWriterSize(f, 1<<20)
	defer w.Flush()
	enc := json.NewEncoder(w)
	rng := rand.New(rand.NewSource(*seed))
	u := defaultUniverse()
	ad := &txAdapter{}
	defer func() { ad.Close() }()
	emit := func(ev string, beh, step int, a interface{}, fl engine.Fields) error {
		fl["ev"], fl["beh"], fl["step"] = ev, beh, step
		if a != nil {
			fl["a"] = a
		}
		return enc.Encode(fl)
	}
	// one step on the real code; a panic of the code under test is logged, a harness failure ends the run
	safely := func(f func() engine.Fields) (fl engine.Fields, panicked bool, err error) {
		defer func() {
			if r := recover(); r != nil {
				if he, ok := r.(engine.HarnessError); ok {
					err = he
					return
				}
				msg := fmt.Sprintf("%v\n%s", r, debug.Stack())
				if len(msg) > 1500 {
					msg = msg[:1500]
				}
				fl, panicked = engine.Fields{"panic": msg}, true
			}
		}()
		return f(), false, nil
	}
	steps := 0
	for b := 0; b < *nbeh; b++ {
		beh := *base + b
		fl, bad, err := safely(func() engine.Fields { return ad.reset(u) })
		if err != nil {
			return err
		}
		if err := emit("reset", beh, 0, nil, fl); err != nil {
			return err
		}
		if bad { // (the node, if any, is retired by the next reset)
			continue
		}
		nb := len(u.blk)
		todo := map[int]bool{}
		for h := 1; h <= nb; h++ {
			todo[h] = true
		}
		sideTodo := u.sideH > 0
		has, wait := map[int]bool{0: true}, map[int]bool{}
		left := *nbatch
		randBatch := func() []string {
			l := 1 + rng.Intn(*maxlen)
			bt := make([]string, l)
			for i := range bt {
				bt[i] = u.names[rng.Intn(len(u.names))]
			}
			return bt
		}
		for st := 1; ; st++ {
			type opt struct {
				act   string
				h     int
				batch bool
			}
			var opts []opt
			drain := false
			for h := range wait {
				if has[h-1] {
					drain = true
				}
			}
			if drain {
				opts = append(opts, opt{act: "TimerDrain"})
			} else {
				hs := []int{}
				for h := range todo {
					hs = append(hs, h)
				}
				sort.Ints(hs)
				for _, h := range hs {
					opts = append(opts, opt{act: "DeliverBlock", h: h}, opt{act: "DeliverBlock", h: h})
					if *races && left > 0 && has[h-1] {
						opts = append(opts, opt{act: "RaceAdd", h: h, batch: true}, opt{act: "RaceInsert", h: h, batch: true})
					}
				}
				if sideTodo && has[u.sideH] {
					opts = append(opts, opt{act: "DeliverSide"}, opt{act: "DeliverSide"})
				}
				if left > 0 {
					for i := 0; i < 3; i++ {
						opts = append(opts, opt{act: "DeliverTxs", batch: true})
					}
				}
			}
			if len(opts) == 0 {
				break
			}
			o := opts[rng.Intn(len(opts))]
			var bt []string
			var a interface{}
			if o.batch {
				bt = randBatch()
				left--
			}
			switch o.act {
			case "DeliverBlock":
				a = []interface{}{o.h}
				delete(todo, o.h)
				if has[o.h-1] {
					has[o.h] = true
				} else {
					wait[o.h] = true
				}
			case "RaceAdd", "RaceInsert":
				a = []interface{}{bt, o.h}
				delete(todo, o.h)
				has[o.h] = true
			case "DeliverSide":
				a = []interface{}{}
				sideTodo = false
			case "DeliverTxs":
				a = []interface{}{bt}
			case "TimerDrain":
				a = []interface{}{}
				for again := true; again; {
					again = false
					for h := range wait {
						if has[h-1] {
							has[h], again = true, true
							delete(wait, h)
						}
					}
				}
			}
			fl, bad, err := safely(func() engine.Fields { return ad.do(o.act, o.h, bt) })
			if err != nil {
				return fmt.Errorf("behaviour %d step %d %s: %v", beh, st, o.act, err)
			}
			if err := emit(o.act, beh, st, a, fl); err != nil {
				return err
			}
			steps++
			if bad { // the real system is in an unknown state after a panic: the next reset retires it
				break
			}
		}
	}
	fmt.Printf("{\"behaviours\": %d, \"steps\": %d}\n", *nbeh, steps)
	return nil
}

// txProbe: vh drive synctx-probe b1 'txs:a,n1,x1' 'raceadd:2:bx,n2' side tick ...   (a development aid: prints the state after every step)
func txProbe(args []string) error {
	ad := &txAdapter{}
	defer ad.Close()
	show := func(what string, fl engine.Fields) {
		fmt.Printf("%-28s has=%v side=%v cur=%v wait=%v pool=%v", what, fl["has"], fl["side"], fl["cur"], fl["wait"], fl["pool"])
		for _, k := range []string{"path", "parked", "held"} {
			if v, ok := fl[k]; ok {
				fmt.Printf(" %s=%v", k, v)
			}
		}
		fmt.Println()
	}
	show("reset", ad.reset(defaultUniverse()))
	for _, a := range args {
		p := strings.Split(a, ":")
		var fl engine.Fields
		switch {
		case p[0] == "txs":
			fl = ad.do("DeliverTxs", 0, strings.Split(p[1], ","))
		case p[0] == "raceadd" || p[0] == "raceinsert":
			h, _ := strconv.Atoi(p[1])
			fl = ad.do(map[string]string{"raceadd": "RaceAdd", "raceinsert": "RaceInsert"}[p[0]], h, strings.Split(p[2], ","))
		case p[0] == "side":
			fl = ad.do("DeliverSide", 0, nil)
		case p[0] == "tick":
			fl = ad.do("TimerDrain", 0, nil)
		case p[0][0] == 'b':
			h, _ := strconv.Atoi(p[0][1:])
			fl = ad.do("DeliverBlock", h, nil)
		default:
			return fmt.Errorf("what is %q", a)
		}
		show(a, fl)
	}
	return nil
}

func init() {
	engine.RegisterDriver("synctx-grid", driveTxGrid)
	engine.RegisterDriver("synctx-probe", txProbe)
}
