package syncad

import (
	"fmt"
	"math/big"
	"path/filepath"
	"sort"
	"strings"
	"time"

	"github.com/LemoFoundationLtd/lemochain-core/chain/deputynode"
	"github.com/LemoFoundationLtd/lemochain-core/chain/params"
	"github.com/LemoFoundationLtd/lemochain-core/chain/types"
	"github.com/LemoFoundationLtd/lemochain-core/common"

	"verifharness/engine"
	"verifharness/node"
	"verifharness/tla"
)

// universe is SyncTx.tla's constant `world`: the transactions that exist, what the receiver's body check says about
// each of them at receive time, which of them are boxes around which others, and which blocks package which.
type universe struct {
	names   []string            // sorted
	kind    map[string]string   // "ok" | "expired" | "early" | "chain" | "cheap"
	subs    map[string][]string // box -> its sub-transactions (sorted); absent for a plain transaction
	blk     [][]string          // blk[h-1] = transactions of the main block of height h, in block order
	sideH   int                 // height of the side block (a sibling of the main block of that height); 0 = none
	sideTxs []string
}

func (u *universe) key() string {
	var sb strings.Builder
	for _, n := range u.names {
		fmt.Fprintf(&sb, "%s:%s:%v;", n, u.kind[n], u.subs[n])
	}
	fmt.Fprintf(&sb, "|%v|%d|%v", u.blk, u.sideH, u.sideTxs)
	return sb.String()
}

// universeOf reads the model's `world` record: [kind |-> [tx |-> kind], subs |-> [tx |-> {tx}], blk |-> <<<<tx>>>>,
// sideh |-> h, sidetxs |-> <<tx>>].
func universeOf(v tla.Value) *universe {
	u := &universe{kind: map[string]string{}, subs: map[string][]string{}}
	kinds := v.F("kind")
	if kinds.Kind != tla.KRec {
		engine.Failf("synctx: world.kind is not a function on strings: %s", kinds.String())
	}
	for n, k := range kinds.Fields {
		u.names = append(u.names, n)
		u.kind[n] = k.S()
	}
	sort.Strings(u.names)
	subs := v.F("subs")
	for _, n := range u.names {
		if s := subs.F(n).Strs(); len(s) > 0 {
			sort.Strings(s)
			u.subs[n] = s
		}
	}
	for _, b := range v.F("blk").Elems {
		u.blk = append(u.blk, b.Strs())
	}
	u.sideH = v.F("sideh").I()
	u.sideTxs = v.F("sidetxs").Strs()
	return u
}

// fields is how the universe is logged in the reset event (what the monitor validates against).
func (u *universe) fields(fl engine.Fields) {
	kind := map[string]string{}
	subs := map[string][]string{}
	for _, n := range u.names {
		kind[n] = u.kind[n]
		subs[n] = append([]string{}, u.subs[n]...)
	}
	blk := [][]string{}
	for _, b := range u.blk {
		blk = append(blk, append([]string{}, b...))
	}
	fl["kind"], fl["subs"], fl["blk"], fl["nb"] = kind, subs, blk, len(u.blk)
	fl["sideh"], fl["sidetxs"] = u.sideH, append([]string{}, u.sideTxs...)
}

// defaultUniverse is the one the seeded grid driver uses (spec/MCSyncTx.tla's McKind/McSubs/McBlk/... describe the same):
//
//	main block 1 = [a]   2 = [bx]   3 = [f c]      side block (sibling of main block 2) = [e f]
//	bx = box(s1 s2) is packaged by main block 2; by = box(n1 n3), bz = box(a n4), bw = box(n5 x1) are in no block;
//	n1..n5 are in no block; x1 is expired, x2 expires too late (not valid yet), x3 names another chain, x4 pays too little.
func defaultUniverse() *universe {
	u := &universe{kind: map[string]string{}, subs: map[string][]string{}}
	for _, n := range []string{"a", "s1", "s2", "bx", "c", "e", "f", "n1", "n2", "n3", "n4", "n5", "by", "bz", "bw"} {
		u.kind[n] = "ok"
	}
	u.kind["x1"], u.kind["x2"], u.kind["x3"], u.kind["x4"] = "expired", "early", "chain", "cheap"
	u.subs["bx"], u.subs["by"], u.subs["bz"], u.subs["bw"] = []string{"s1", "s2"}, []string{"n1", "n3"}, []string{"a", "n4"}, []string{"n5", "x1"}
	for n := range u.kind {
		u.names = append(u.names, n)
	}
	sort.Strings(u.names)
	u.blk = [][]string{{"a"}, {"bx"}, {"f", "c"}}
	u.sideH, u.sideTxs = 2, []string{"e", "f"}
	return u
}

// txWorld is a universe made real: a builder node, real signed transactions, the real blocks that package them.
// The receiver's body check compares a transaction's expiry with the wall clock and a block's transactions with the
// block's time, so the genesis block of this world is a few minutes old and every "ok" transaction expires
// txLife after the world was built; the world is rebuilt before that comes near (maxAge).
type txWorld struct {
	u       *universe
	w       *node.World
	dir     string
	born    time.Time
	builder *node.Node
	main    []*types.Block // [0] = genesis
	side    *types.Block
	tx      map[string]*types.Transaction
	nameOf  map[common.Hash]string
}

const (
	txLife      = 1200 // seconds after the world's birth at which the valid transactions expire
	genesisAge  = 300
	txWorldLife = 8 * time.Minute
)

func newTxWorld(u *universe, dir string) *txWorld {
	wd := &txWorld{u: u, w: node.NewWorld(nDeputies, 1000), dir: dir, born: time.Now(), tx: map[string]*types.Transaction{}, nameOf: map[common.Hash]string{}}
	wd.w.GenesisTime = uint32(wd.born.Unix()) - genesisAge
	deputynode.SetSelfNodeKey(wd.w.Outsider2()) // the node under test is an observer: it never signs
	wd.builder = wd.w.NewNode(filepath.Join(dir, "builder"))
	// plain transactions first, then the boxes around them
	for pass := 0; pass < 2; pass++ {
		for i, n := range u.names {
			if (len(u.subs[n]) > 0) != (pass == 1) {
				continue
			}
			wd.tx[n] = wd.make(n, i)
			wd.nameOf[wd.tx[n].Hash()] = n
		}
	}
	wd.main = []*types.Block{wd.builder.Genesis}
	for h := 1; h <= len(u.blk); h++ {
		wd.main = append(wd.main, wd.build(wd.main[h-1], (h-1)%nDeputies, u.blk[h-1], fmt.Sprintf("main%d", h)))
	}
	if u.sideH > 0 {
		if u.sideH > len(u.blk) {
			engine.Failf("synctx: side block at height %d above the segment", u.sideH)
		}
		wd.side = wd.build(wd.main[u.sideH-1], u.sideH%nDeputies, u.sideTxs, "side")
	}
	return wd
}

func (wd *txWorld) build(parent *types.Block, rank int, names []string, tag string) *types.Block {
	var txs types.Transactions
	for _, n := range names {
		txs = append(txs, wd.tx[n])
	}
	b, invalid, err := wd.builder.Build(parent, rank, 0, txs, tag)
	if err != nil || len(invalid) != 0 {
		engine.Realf("building block %s %v on height %d: %v (%d txs discarded)", tag, names, parent.Height(), err, len(invalid))
	}
	if len(b.Txs) != len(names) {
		engine.Failf("synctx: block %s packages %d of %d transactions", tag, len(b.Txs), len(names))
	}
	return b
}

func (wd *txWorld) make(name string, salt int) *types.Transaction {
	born := uint64(wd.born.Unix())
	exp, chainID, price := born+txLife, uint16(node.ChainID), new(big.Int).Set(params.MinGasPrice)
	switch wd.u.kind[name] {
	case "ok":
	case "expired":
		exp = born - 3600
	case "early": // expires more than the maximal life time from now: not acceptable yet
		exp = born + uint64(params.MaxTxLifeTime) + 3600
	case "chain":
		chainID++
	case "cheap":
		price.Sub(price, big.NewInt(1))
	default:
		engine.Failf("synctx: unknown transaction kind %q of %s", wd.u.kind[name], name)
	}
	var tx *types.Transaction
	if subs := wd.u.subs[name]; len(subs) > 0 {
		var list types.Transactions
		for _, s := range subs {
			if wd.tx[s] == nil {
				engine.Failf("synctx: box %s contains %s, which is not a plain transaction of the universe", name, s)
			}
			list = append(list, wd.tx[s])
		}
		data, err := types.MarshalBoxData(list)
		if err != nil {
			engine.Failf("synctx: box data: %v", err)
		}
		tx = types.NoReceiverTransaction(wd.w.Founder, big.NewInt(0), 400000, price, data, params.BoxTx, chainID, exp, "", "tx-"+name)
	} else {
		to := common.HexToAddress(fmt.Sprintf("0x%040x", 0xabc000+salt))
		tx = types.NewTransaction(wd.w.Founder, to, big.NewInt(int64(100+salt)), 100000, price, []byte{}, params.OrdinaryTx, chainID, exp, "", "tx-"+name)
	}
	stx, err := types.DefaultSigner{}.SignTx(tx, wd.w.FounderKey)
	if err != nil {
		engine.Failf("sign tx: %v", err)
	}
	return stx
}

func (wd *txWorld) stale() bool { return time.Since(wd.born) > txWorldLife }

func (wd *txWorld) close() {
	if wd.builder != nil {
		wd.builder.Destroy()
		wd.builder = nil
	}
}

// batch is what a peer sends: every transaction decoded from its own encoding (two occurrences of one name are two objects).
func (wd *txWorld) batch(names []string) types.Transactions {
	out := types.Transactions{}
	for _, n := range names {
		tx := wd.tx[n]
		if tx == nil {
			engine.Failf("synctx: the model names transaction %q, which the universe does not have", n)
		}
		out = append(out, tx.Clone())
	}
	return out
}

// name of a transaction found in the pool; one the universe does not know is logged as such (the monitor rejects it).
func (wd *txWorld) name(h common.Hash) string {
	if n, ok := wd.nameOf[h]; ok {
		return n
	}
	return "?" + h.Hex()[:10]
}
