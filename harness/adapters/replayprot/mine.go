package replayprot

import (
	"encoding/json"
	"flag"
	"fmt"
	"os"
	"path/filepath"
	"time"

	"github.com/LemoFoundationLtd/lemochain-core/chain/deputynode"
	"github.com/LemoFoundationLtd/lemochain-core/chain/params"
	"github.com/LemoFoundationLtd/lemochain-core/chain/types"

	"verifharness/adapters/txguard"
	"verifharness/engine"
	"verifharness/node"
)

// driveMine exercises the engine's OWN miner (DPoVP.MineBlock through chain.BlockChain.MineBlock) with a pool whose
// content was produced by the engine's own fork bookkeeping: blocks A and B are two children of genesis (same height,
// so B stays a side fork and saveNewBlock hands B's transactions back to the pool); then the node, which is the deputy
// in turn, mines on its head A.  Logged: what it packaged and how often each payload has taken effect in its own state.
// Further scenarios fill the pool through the admission route of PublicTxAPI.SendTx / ProtocolManager.handleTxsMsg, whose three
// lines (VerifyTxBody; not TxGuard.ExistTx on the head => TxPool.AddTx) are reproduced here: transactions arrive from the wire
// (RLP) or from the RPC (the JSON of the whole transaction).  Blocks and arriving transactions come in the carrier encodings of
// txguard/carrier.go (every encoding in every role).
//
// MineBlock stamps the block with the wall clock, so the chain is laid out relative to a clock read ONCE: genesis =
// now-600 s, slot length 100000 s (the node's slot after A lasts from genesis to genesis+100000 s), expirations =
// genesis+1500 s.  Every verdict only needs  genesis <= mined time <= genesis+1500, i.e. the run takes < 15 minutes.
func driveMine(args []string) error {
	fs := flag.NewFlagSet("replayprot-mine", flag.ContinueOnError)
	out := fs.String("out", "trace.ndjson", "")
	if err := fs.Parse(args); err != nil {
		return err
	}
	dir := os.Getenv("VERIF_SCRATCH_DIR")
	if dir == "" {
		dir = filepath.Join(os.TempDir(), fmt.Sprintf("verif-replayprot-mine-%d", os.Getpid()))
	}
	f, err := os.Create(*out)
	if err != nil {
		return err
	}
	defer f.Close()
	enc := json.NewEncoder(f)

	const self = 1
	w := node.NewWorld(4, 100000*1000) // 4 deputies: the miner's and the node's own confirm (2) do not reach the quorum (3)
	w.GenesisTime = uint32(time.Now().Unix() - 600)
	deputynode.SetSelfNodeKey(w.Keys[self])
	builder := w.NewNode(filepath.Join(dir, "builder"))
	defer builder.Destroy()
	g := uint64(w.GenesisTime)
	u := Universe(w, g+1500, g+1500)
	exp := map[string]int64{}
	for _, id := range u.IDs {
		exp[id] = u.Exp[id] - int64(g)
	}
	// scenarios: transactions of A (the head), of B (the side fork; nil = no such block), then arrivals; each with its carrier encoding
	type arrival struct {
		ids       []string
		enc, form string
	}
	type scenario struct {
		a, b   []string
		ea, eb string
		adm    []arrival
	}
	c := txguard.Canon
	scen := []scenario{
		{a: []string{"t"}, b: []string{"t"}, ea: c, eb: c},      // t is on the head's branch AND comes back from the side fork
		{a: []string{}, b: []string{"t"}, ea: c, eb: c},         // t only on the side fork: mining it on the head's branch is right
		{a: []string{"t"}, b: []string{"u"}, ea: c, eb: c},      // an unrelated tx comes back
		{a: []string{"b"}, b: []string{"t"}, ea: c, eb: c},      // t is on the branch inside a box, comes back standalone
		{a: []string{"t"}, b: []string{"bu"}, ea: c, eb: c},     // comes back inside a box
		{a: []string{"t", "u"}, b: []string{"u"}, ea: c, eb: c}, // several on the branch
		{a: []string{"t"}, ea: c, adm: []arrival{{[]string{"t", "u"}, c, "wire"}}},           // arrivals: t is on the branch, u is new
		{a: []string{}, ea: c, adm: []arrival{{[]string{"b"}, c, "wire"}, {[]string{"w", "t"}, c, "rpc"}}}, // the pool's own index: one t in two boxes and alone
	}
	for _, e := range txguard.AllEncs {
		if e == c {
			continue
		}
		scen = append(scen,
			scenario{a: []string{"t"}, b: []string{"b"}, ea: c, eb: e},                                                    // comes back inside a box written in e
			scenario{a: []string{"b"}, b: []string{"w", "u"}, ea: e, eb: e},                                               // on the branch inside a box written in e
			scenario{a: []string{"bu"}, ea: e, adm: []arrival{{[]string{"t"}, e, "rpc"}, {[]string{"u"}, e, "wire"}}},   // arrives alone, its JSON written in e
			scenario{a: []string{"t"}, ea: c, adm: []arrival{{[]string{"w"}, e, "wire"}, {[]string{"u"}, c, "rpc"}}},    // arrives inside a box written in e
			scenario{a: []string{}, ea: c, adm: []arrival{{[]string{"b"}, e, "rpc"}, {[]string{"w"}, e, "wire"}, {[]string{"t"}, e, "rpc"}}}) // pool index
	}
	// the transaction's own carrier (txguard/own.go): t / n written again by somebody else in another form of their own RLP (wire) /
	// JSON (rpc) arrive while the original is on the head's branch, in the pool, or on the side fork
	for _, e := range txguard.OwnEncs {
		scen = append(scen,
			scenario{a: []string{"t"}, ea: c, adm: []arrival{{[]string{"tv"}, e, "wire"}, {[]string{"u"}, c, "wire"}}},   // the original is on the branch
			scenario{a: []string{"t", "n"}, ea: c, adm: []arrival{{[]string{"tv", "nv"}, e, "rpc"}}},
			scenario{a: []string{}, ea: c, adm: []arrival{{[]string{"t"}, c, "wire"}, {[]string{"tv"}, e, "rpc"}, {[]string{"nv"}, e, "wire"}, {[]string{"n"}, c, "rpc"}}}, // both in the pool
			scenario{a: []string{"n"}, b: []string{"t"}, ea: c, eb: c, adm: []arrival{{[]string{"bv"}, e, "wire"}, {[]string{"tv"}, e, "wire"}}},                       // the original comes back from the side fork
			scenario{a: []string{"tv"}, b: []string{"bv"}, ea: e, eb: e, adm: []arrival{{[]string{"t"}, c, "rpc"}}})                                                  // the variant was offered first
	}
	lines := 0
	emit := func(fl engine.Fields) error { lines++; return enc.Encode(fl) }
	for si, sc := range scen {
		nut := OpenNUT(w, filepath.Join(dir, fmt.Sprintf("nut%d", si)))
		fl := engine.Fields{"ev": "reset", "beh": si, "step": 0, "exp": exp, "subs": u.Subs, "payload": u.Payload, "how": u.How, "life": params.MaxTxLifeTime,
			"cnt": Counts(nut.DB, builder.Genesis.Hash()), "stable": 1, "head": 1, "driver": "replayprot-mine"}
		if err := emit(fl); err != nil {
			return err
		}
		blocks := []*types.Block{builder.Genesis}
		idOf := func(b *types.Block) int {
			for i, x := range blocks {
				if x.Hash() == b.Hash() {
					return i + 1
				}
			}
			return -1
		}
		step := 0
		for k, ids := range [][]string{sc.a, sc.b} {
			if ids == nil {
				continue
			}
			enc := []string{sc.ea, sc.eb}[k]
			blk, invalid, err := builder.Build(builder.Genesis, 0, 0, u.Carried(ids, enc), fmt.Sprintf("mine-%d-%d", si, k))
			if err != nil {
				return fmt.Errorf("build: %v", err)
			}
			blocks = append(blocks, blk)
			off, crafted := node.Copy(blk, nil), false
			if enc != txguard.Canon {
				off, crafted = Craft(u, blk, u.Carried(ids, enc))
			}
			ierr := nut.BC.InsertBlock(off)
			step++
			fl := engine.Fields{"ev": "Offer", "beh": si, "step": step, "a": []interface{}{1, 0, ids, enc}, "id": len(blocks), "crafted": crafted,
				"got": IDs(u, blk.Txs), "discarded": IDs(u, invalid), "mcnt": Counts(builder.DB, blk.Hash()), "ok": ierr == nil,
				"stable": idOf(nut.BC.StableBlock()), "head": idOf(nut.BC.CurrentBlock())}
			if ierr == nil {
				fl["cnt"] = Counts(nut.DB, blk.Hash())
			} else {
				fl["err"] = ierr.Error()
			}
			if err := emit(fl); err != nil {
				return err
			}
		}
		for ai, ar := range sc.adm {
			// PublicTxAPI.SendTx (form rpc: the transaction decoded from its JSON) / handleTxsMsg (form wire: decoded from RLP)
			var res []string
			for ti, tx := range u.Carried(ar.ids, ar.enc) {
				if ar.form == "rpc" {
					var err error
					if tx, err = u.ViaRPC(ar.ids[ti], ar.enc, fmt.Sprintf("adm-%d-%d-%d", si, ai, ti)); err != nil {
						res = append(res, "unreadable: "+err.Error()) // the node's JSON decoder refuses it
						continue
					}
				}
				if err := tx.VerifyTxBody(node.ChainID, uint64(time.Now().Unix()), false); err != nil {
					res = append(res, "invalid: "+err.Error())
				} else if nut.BC.TxGuard().ExistTx(nut.BC.CurrentBlock().Hash(), tx) {
					res = append(res, "exists")
				} else if err := nut.Pool.AddTx(tx); err != nil {
					res = append(res, "pool: "+err.Error())
				} else {
					res = append(res, "added")
				}
			}
			step++
			if err := emit(engine.Fields{"ev": "Admit", "beh": si, "step": step, "a": []interface{}{ar.ids, ar.enc, ar.form}, "res": res}); err != nil {
				return err
			}
		}
		head := nut.BC.CurrentBlock()
		nut.BC.MineBlock(2000)
		mined := nut.BC.CurrentBlock()
		if mined.Hash() == head.Hash() || mined.ParentHash() != head.Hash() {
			return fmt.Errorf("scenario %d: the node did not mine on its head (head %s, now %s)", si, head.ShortString(), mined.ShortString())
		}
		blocks = append(blocks, mined)
		fl = engine.Fields{"ev": "Mined", "beh": si, "step": step + 1, "p": idOf(head), "tm": int64(mined.Time()) - int64(g), "id": len(blocks),
			"got": IDs(u, mined.Txs), "cnt": Counts(nut.DB, mined.Hash()), "head": idOf(nut.BC.CurrentBlock()), "stable": idOf(nut.BC.StableBlock())}
		if err := emit(fl); err != nil {
			return err
		}
		nut.Destroy()
	}
	fmt.Printf("{\"scenarios\": %d, \"lines\": %d}\n", len(scen), lines)
	return nil
}

var _ = txguard.Epoch

func init() { engine.RegisterDriver("replayprot-mine", driveMine) }
