package replayprot

import (
	"encoding/json"
	"flag"
	"fmt"
	"os"
	"path/filepath"
	"time"

	"github.com/LemoFoundationLtd/lemochain-core/chain/deputynode"
	"github.com/LemoFoundationLtd/lemochain-core/chain/params"
	"github.com/LemoFoundationLtd/lemochain-core/chain/types"

	"verifharness/adapters/txguard"
	"verifharness/engine"
	"verifharness/node"
)

// driveMine exercises the engine's OWN miner (DPoVP.MineBlock through chain.BlockChain.MineBlock) with a pool whose
// content was produced by the engine's own fork bookkeeping: blocks A and B are two children of genesis (same height,
// so B stays a side fork and saveNewBlock hands B's transactions back to the pool); then the node, which is the deputy
// in turn, mines on its head A.  Logged: what it packaged and how often each payload has taken effect in its own state.
//
// MineBlock stamps the block with the wall clock, so the chain is laid out relative to a clock read ONCE: genesis =
// now-600 s, slot length 100000 s (the node's slot after A lasts from genesis to genesis+100000 s), expirations =
// genesis+1500 s.  Every verdict only needs  genesis <= mined time <= genesis+1500, i.e. the run takes < 15 minutes.
func driveMine(args []string) error {
	fs := flag.NewFlagSet("replayprot-mine", flag.ContinueOnError)
	out := fs.String("out", "trace.ndjson", "")
	if err := fs.Parse(args); err != nil {
		return err
	}
	dir := os.Getenv("VERIF_SCRATCH_DIR")
	if dir == "" {
		dir = filepath.Join(os.TempDir(), fmt.Sprintf("verif-replayprot-mine-%d", os.Getpid()))
	}
	f, err := os.Create(*out)
	if err != nil {
		return err
	}
	defer f.Close()
	enc := json.NewEncoder(f)

	const self = 1
	w := node.NewWorld(4, 100000*1000) // 4 deputies: the miner's and the node's own confirm (2) do not reach the quorum (3)
	w.GenesisTime = uint32(time.Now().Unix() - 600)
	deputynode.SetSelfNodeKey(w.Keys[self])
	builder := w.NewNode(filepath.Join(dir, "builder"))
	defer builder.Destroy()
	g := uint64(w.GenesisTime)
	u := Universe(w, g+1500, g+1500)
	exp := map[string]int64{}
	for _, id := range u.IDs {
		exp[id] = u.Exp[id] - int64(g)
	}
	// scenarios: transactions of A (the head), of B (the side fork)
	scen := [][2][]string{
		{{"t"}, {"t"}},      // t is on the head's branch AND comes back from the side fork
		{{}, {"t"}},         // t only on the side fork: mining it on the head's branch is right
		{{"t"}, {"u"}},      // an unrelated tx comes back
		{{"b"}, {"t"}},      // t is on the branch inside a box, comes back standalone
		{{"t"}, {"bu"}},     // comes back inside a box
		{{"t", "u"}, {"u"}}, // several on the branch
	}
	lines := 0
	emit := func(fl engine.Fields) error { lines++; return enc.Encode(fl) }
	for si, sc := range scen {
		nut := OpenNUT(w, filepath.Join(dir, fmt.Sprintf("nut%d", si)))
		fl := engine.Fields{"ev": "reset", "beh": si, "step": 0, "exp": exp, "subs": u.Subs, "payload": u.Payload, "life": params.MaxTxLifeTime,
			"cnt": Counts(nut.DB, builder.Genesis.Hash()), "stable": 1, "head": 1, "driver": "replayprot-mine"}
		if err := emit(fl); err != nil {
			return err
		}
		blocks := []*types.Block{builder.Genesis}
		idOf := func(b *types.Block) int {
			for i, x := range blocks {
				if x.Hash() == b.Hash() {
					return i + 1
				}
			}
			return -1
		}
		for k, ids := range sc {
			blk, invalid, err := builder.Build(builder.Genesis, 0, 0, u.Txs(ids), fmt.Sprintf("mine-%d-%d", si, k))
			if err != nil {
				return fmt.Errorf("build: %v", err)
			}
			blocks = append(blocks, blk)
			ierr := nut.BC.InsertBlock(node.Copy(blk, nil))
			fl := engine.Fields{"ev": "Offer", "beh": si, "step": k + 1, "a": []interface{}{1, 0, ids}, "id": len(blocks),
				"got": IDs(u, blk.Txs), "discarded": IDs(u, invalid), "mcnt": Counts(builder.DB, blk.Hash()), "ok": ierr == nil,
				"stable": idOf(nut.BC.StableBlock()), "head": idOf(nut.BC.CurrentBlock())}
			if ierr == nil {
				fl["cnt"] = Counts(nut.DB, blk.Hash())
			} else {
				fl["err"] = ierr.Error()
			}
			if err := emit(fl); err != nil {
				return err
			}
		}
		head := nut.BC.CurrentBlock()
		nut.BC.MineBlock(2000)
		mined := nut.BC.CurrentBlock()
		if mined.Hash() == head.Hash() || mined.ParentHash() != head.Hash() {
			return fmt.Errorf("scenario %d: the node did not mine on its head (head %s, now %s)", si, head.ShortString(), mined.ShortString())
		}
		blocks = append(blocks, mined)
		fl = engine.Fields{"ev": "Mined", "beh": si, "step": 3, "p": idOf(head), "tm": int64(mined.Time()) - int64(g), "id": len(blocks),
			"got": IDs(u, mined.Txs), "cnt": Counts(nut.DB, mined.Hash()), "head": idOf(nut.BC.CurrentBlock()), "stable": idOf(nut.BC.StableBlock())}
		if err := emit(fl); err != nil {
			return err
		}
		nut.Destroy()
	}
	fmt.Printf("{\"scenarios\": %d, \"lines\": %d}\n", len(scen), lines)
	return nil
}

var _ = txguard.Epoch

func init() { engine.RegisterDriver("replayprot-mine", driveMine) }
