// Package replayprot binds spec/TxGuardChain.tla (generator of placements) and spec/TraceTxGuardChain.tla (judge)
// to the real engine (C04 layer 2).  A builder node assembles REAL blocks with the real BlockAssembler (the miner
// path: TxProcessor.ApplyTxs on the candidate list) carrying each placement of the replayed transaction; the block
// is offered to a node under test that is a real chain.BlockChain (chain.NewBlockChain: DPoVP engine, validator,
// TxGuard, initTxPool reload at restart).  Logged: what the miner packaged, the validator's verdict, and the number of
// times each payload took effect on the branch (recipient balance / amount) in the builder's and the node's state.
//
// Carriers: the candidate list is handed to the miner in the carrier encoding of the step (txguard/carrier.go: box payloads with
// a forged / cross-named / missing "hash" member, junk gasUsed, unknown members, other member order and white space).  The
// node's own miner re-marshals a box payload after executing it, so a block "as mined" carries canonical payloads; a block
// built by anybody else need not.  The offered block is therefore the mined block with the box payloads put back as they
// were handed in, whenever its transaction root still matches its header (logged: crafted) - on the unchanged code the
// identity of a box does not depend on how its payload is written, so that is always the case.
package replayprot

import (
	"fmt"
	"math/big"
	"os"
	"path/filepath"
	"strings"

	"github.com/LemoFoundationLtd/lemochain-core/chain"
	"github.com/LemoFoundationLtd/lemochain-core/chain/account"
	"github.com/LemoFoundationLtd/lemochain-core/chain/deputynode"
	"github.com/LemoFoundationLtd/lemochain-core/chain/params"
	"github.com/LemoFoundationLtd/lemochain-core/chain/txpool"
	"github.com/LemoFoundationLtd/lemochain-core/chain/types"
	"github.com/LemoFoundationLtd/lemochain-core/common"
	"github.com/LemoFoundationLtd/lemochain-core/common/flag"
	"github.com/LemoFoundationLtd/lemochain-core/store"
	"github.com/LemoFoundationLtd/lemochain-core/store/protocol"

	"verifharness/adapters/txguard"
	"verifharness/engine"
	"verifharness/node"
	"verifharness/tla"
)

const (
	NDeputies = 2
	SlotSec   = 30
)

var (
	lemo  = new(big.Int).Exp(big.NewInt(10), big.NewInt(18), nil)
	amtT  = new(big.Int).Mul(big.NewInt(3), lemo)
	amtU  = new(big.Int).Mul(big.NewInt(5), lemo)
	amtR  = new(big.Int).Mul(big.NewInt(7), lemo)
	amtN  = new(big.Int).Mul(big.NewInt(11), lemo)
	rcptT = common.HexToAddress("0x0000000000000000000000000000000000c04a01")
	rcptU = common.HexToAddress("0x0000000000000000000000000000000000c04a02")
	rcptR = common.HexToAddress("0x0000000000000000000000000000000000c04a03")
	rcptN = common.HexToAddress("0x0000000000000000000000000000000000c04a04")
)

// Universe builds t, t2 (re-encoded t), u, the boxes b=[t], bb=[t,t], bu=[t,u] and w=[t] (another box around the same t), each
// box in every carrier encoding; all signed by the founder (who holds all LEMO).
func Universe(w *node.World, expT, expU uint64) *txguard.Universe {
	u := txguard.NewUniverse()
	t := txguard.Transfer(w.FounderKey, rcptT, amtT, expT, node.ChainID, "t")
	tu := txguard.Transfer(w.FounderKey, rcptU, amtU, expU, node.ChainID, "u")
	u.Add("t", t)
	u.Add("t2", txguard.Reencode(t))
	u.Add("u", tu)
	u.SetCross("t", "u")
	u.AddBox("b", w.FounderKey, expT, node.ChainID, txguard.AllEncs, "t")
	u.AddBox("bb", w.FounderKey, expT, node.ChainID, txguard.AllEncs, "t", "t")
	u.AddBox("bu", w.FounderKey, expT, node.ChainID, txguard.AllEncs, "t", "u")
	u.AddBox("w", w.FounderKey, expT, node.ChainID, txguard.AllEncs, "t")
	// r: a reimbursement ("gasless") transfer, signed once by its sender; r2: the same sender-signed transaction priced and signed
	// again by its gas payer (the founder plays both roles: he is the only account with a balance)
	rr := txguard.Repriced(w.FounderKey, w.FounderKey, rcptR, amtR, expT, node.ChainID, "r", 50000, 50001)
	u.Add("r", rr[0])
	u.Add("r2", rr[1])
	// t3: t with a signature appended by somebody else
	u.Add("t3", txguard.ExtraSig(t, w.Outsider))
	// the transaction's OWN carrier (txguard/own.go): n = a transfer whose sender left the optional gasPayer member out and signed it so;
	// tv / nv = t / n written again by somebody else in another form of their own RLP / JSON (optional, defaulted, derivable members
	// dropped, defaulted or written redundantly; the signature bytes are the sender's), one real transaction per form; bv = a box around
	// t written that way
	u.Add("n", txguard.SignedWithoutGasPayer(w.FounderKey, rcptN, amtN, expT, node.ChainID, "n"))
	u.AddOwn("tv", "t", txguard.OwnEncs)
	u.AddOwn("nv", "n", txguard.OwnEncs)
	u.AddOwnBox("bv", w.FounderKey, expT, node.ChainID, txguard.OwnEncs, "tv")
	return u
}

// IDs maps real transactions to their ids by their FIELDS (never by tx.Hash(): the identity the code gives a transaction is
// what is being checked).
func IDs(u *txguard.Universe, txs types.Transactions) []string { return u.Idents(txs) }

// Craft returns what a peer receives when the miner of blk left the box payloads as they were handed to him (cand, the
// candidate list in its carrier encoding): the block with those payloads, decoded from its RLP encoding.  crafted = false
// (and the block as mined) when the transaction root would no longer match the header.
func Craft(u *txguard.Universe, blk *types.Block, cand types.Transactions) (*types.Block, bool) {
	raw := map[string][]byte{}
	for _, c := range cand {
		if c.Type() == params.BoxTx {
			raw[u.Ident(c)] = c.Data()
		}
	}
	nb := node.Copy(blk, nil)
	changed := false
	for _, tx := range nb.Txs {
		if d, ok := raw[u.Ident(tx)]; ok && tx.Type() == params.BoxTx && string(d) != string(tx.Data()) {
			tx.SetData(d)
			changed = true
		}
	}
	if !changed {
		return nb, false
	}
	nb = node.Copy(nb, nil) // fresh objects: nothing cached from the mined payloads
	if nb.Txs.MerkleRootSha() != nb.TxRoot() {
		return node.Copy(blk, nil), false
	}
	return nb, true
}

// Counts reads, in the state of block h, how many times the payloads t and u took effect: recipient balance / amount.
func Counts(db protocol.ChainDB, h common.Hash) map[string]int64 {
	am := account.NewManager(h, db)
	out := map[string]int64{}
	for _, x := range []struct {
		id   string
		addr common.Address
		amt  *big.Int
	}{{"t", rcptT, amtT}, {"u", rcptU, amtU}, {"r", rcptR, amtR}, {"n", rcptN, amtN}} {
		q, r := new(big.Int).QuoRem(am.GetAccount(x.addr).GetBalance(), x.amt, new(big.Int))
		if r.Sign() != 0 {
			engine.Failf("recipient balance of %s is not a multiple of the amount", x.id)
		}
		out[x.id] = q.Int64()
	}
	return out
}

// NUT is the node under test: a real chain.BlockChain on its own database.
// Note: store.ChainDatabase.Close leaves two goroutines and ~4 MB of queue buffers (NewSyncFileDB / NewFileQueue) behind per
// opened database, so one replay process should not run more than a few hundred behaviours (checks/c04.py sizes the shards).
type NUT struct {
	W   *node.World
	Dir string
	DB   *store.ChainDatabase
	BC   *chain.BlockChain
	Pool *txpool.TxPool
}

// OpenNUT creates (or reopens) the node exactly as main/node does: store, genesis, deputy manager, chain.NewBlockChain.
func OpenNUT(w *node.World, dir string) *NUT {
	if err := os.MkdirAll(dir, 0755); err != nil {
		panic(err)
	}
	n := &NUT{W: w, Dir: dir}
	n.DB = store.NewChainDataBase(dir)
	if _, err := n.DB.LoadLatestBlock(); err != nil {
		chain.SetupGenesisBlock(n.DB, w.Genesis())
	}
	dm := deputynode.NewManager(w.N, n.DB)
	n.Pool = txpool.NewTxPool()
	bc, err := chain.NewBlockChain(chain.Config{ChainID: node.ChainID, MineTimeout: w.TimeoutMs}, dm, n.DB, flag.CmdFlags{}, n.Pool)
	if err != nil {
		engine.Failf("NewBlockChain: %v", err)
	}
	n.BC = bc
	return n
}

func (n *NUT) Close() {
	if n.BC != nil {
		n.BC.Stop()
		n.BC = nil
	}
	if n.DB != nil {
		n.DB.Close()
		n.DB = nil
	}
}

func (n *NUT) Destroy() {
	n.Close()
	os.RemoveAll(n.Dir)
}

// BuildAt builds, with the real assembler of the builder node, a block on parent with timestamp genesis+tm carrying the
// candidate list txs (whatever the miner path makes of it).  tm must lie on the slot grid; the miner is whoever's slot it is.
func BuildAt(b *node.Node, parent *types.Block, tm uint32, txs types.Transactions, extra string) (*types.Block, types.Transactions) {
	w := b.W
	abs := w.GenesisTime + tm
	if abs < parent.Time() || (abs-parent.Time())%SlotSec != 0 {
		engine.Failf("block time %d is not on the slot grid after parent time %d", abs, parent.Time())
	}
	k := int((abs - parent.Time()) / SlotSec)
	dist, rounds := uint32(k%w.N+1), k/w.N
	for r := 0; r < w.N; r++ {
		d, err := b.DM.GetMinerDistance(parent.Height()+1, parent.MinerAddress(), w.Miners[r])
		if err != nil {
			engine.Failf("distance: %v", err)
		}
		if d == dist {
			blk, invalid, err := b.Build(parent, r, rounds, txs, extra)
			if err != nil {
				engine.Realf("build on %s at %d: %v", parent.Hash().Prefix(), tm, err)
			}
			if blk.Time() != abs {
				engine.Failf("built block has time %d, wanted %d", blk.Time(), abs)
			}
			return blk, invalid
		}
	}
	engine.Failf("no deputy at distance %d", dist)
	return nil, nil
}

type built struct {
	blk       *types.Block // as mined
	off       *types.Block // as offered (Craft)
	crafted   bool
	got, disc []string
	filed     []string
	mcnt      map[string]int64
}

type adapter struct {
	w       *node.World
	builder *node.Node
	dir     string
	seq     int
	gen     int
	u       *txguard.Universe
	ukey    string
	cache   map[string]*built
	nut     *NUT
	blocks  []*types.Block // by id-1; genesis = id 1
}

func (a *adapter) init() {
	a.dir = os.Getenv("VERIF_SCRATCH_DIR")
	if a.dir == "" {
		a.dir = filepath.Join(os.TempDir(), fmt.Sprintf("verif-replayprot-%d", os.Getpid()))
	}
	a.w = node.NewWorld(NDeputies, SlotSec*1000)
	deputynode.SetSelfNodeKey(a.w.Outsider2())
	a.builder = a.w.NewNode(filepath.Join(a.dir, "builder"))
	a.cache = map[string]*built{}
}

func (a *adapter) Reset(init map[string]tla.Value) (engine.Fields, error) {
	if a.w == nil {
		a.init()
	}
	if a.nut != nil {
		a.nut.Destroy()
	}
	if len(a.cache) > 1200 {
		// the builder never stabilises anything, so its store keeps every block and account state in memory: start over
		a.builder.Destroy()
		a.gen++
		a.builder = a.w.NewNode(filepath.Join(a.dir, fmt.Sprintf("builder%d", a.gen)))
		a.cache = map[string]*built{}
	}
	e := init["exp"]
	if a.u == nil || a.ukey != e.String() {
		g := uint64(a.w.GenesisTime)
		for _, id := range []string{"t2", "b", "bb", "bu", "w", "r", "r2", "t3", "tv", "bv", "n", "nv"} {
			if e.F(id).I() != e.F("t").I() {
				engine.Failf("the spec must give %s the expiration of t", id)
			}
		}
		a.u = Universe(a.w, g+uint64(e.F("t").I()), g+uint64(e.F("u").I()))
		a.ukey = e.String()
	}
	a.seq++
	a.nut = OpenNUT(a.w, filepath.Join(a.dir, fmt.Sprintf("nut%d", a.seq)))
	a.blocks = []*types.Block{a.builder.Genesis}
	if a.nut.BC.Genesis().Hash() != a.builder.Genesis.Hash() {
		engine.Failf("builder and node under test disagree on genesis")
	}
	exp := map[string]int64{}
	for _, id := range a.u.IDs {
		exp[id] = a.u.Exp[id] - int64(a.w.GenesisTime)
	}
	fl := engine.Fields{"exp": exp, "subs": a.u.Subs, "payload": a.u.Payload, "how": a.u.How, "life": params.MaxTxLifeTime,
		"cnt": Counts(a.nut.DB, a.builder.Genesis.Hash())}
	a.project(fl)
	return fl, nil
}

func (a *adapter) idOf(h common.Hash) int {
	for i, b := range a.blocks {
		if b != nil && b.Hash() == h {
			return i + 1
		}
	}
	engine.Failf("node holds a block that is not in the universe: %s", h.Hex())
	return -1
}

func (a *adapter) project(fl engine.Fields) {
	fl["stable"] = a.idOf(a.nut.BC.StableBlock().Hash())
	fl["head"] = a.idOf(a.nut.BC.CurrentBlock().Hash())
}

func (a *adapter) Apply(s engine.Step) (engine.Fields, error) {
	fl := engine.Fields{}
	arg := s.Act.Args
	switch s.Act.Name {
	case "Offer":
		p, tm := arg[0].I(), arg[1].I()
		req, enc := arg[2].Strs(), arg[3].S()
		id := len(a.blocks) + 1
		fl["id"] = id
		par := a.blocks[p-1]
		if par == nil {
			engine.Failf("parent %d was never built", p)
		}
		key := fmt.Sprintf("%s/%d/%s/%s", par.Hash().Hex(), tm, strings.Join(req, ","), enc)
		bt, ok := a.cache[key]
		if !ok {
			// the MINER path: real BlockAssembler.MineBlock -> TxProcessor.ApplyTxs on the candidate list
			cand := a.u.Carried(req, enc)
			blk, invalid := BuildAt(a.builder, par, uint32(tm), a.u.Carried(req, enc), fmt.Sprintf("c04-%d", len(a.cache)))
			bt = &built{blk: blk, got: IDs(a.u, blk.Txs), disc: IDs(a.u, invalid), mcnt: Counts(a.builder.DB, blk.Hash())}
			bt.off = node.Copy(blk, nil)
			if enc != txguard.Canon { // canonical = the block exactly as the node's own miner made it
				bt.off, bt.crafted = Craft(a.u, blk, cand)
			}
			bt.filed = a.u.Filed(node.Copy(bt.off, nil).Txs)
			a.cache[key] = bt
		}
		a.blocks = append(a.blocks, bt.blk)
		fl["got"], fl["discarded"], fl["mcnt"], fl["crafted"], fl["filed"] = bt.got, bt.disc, bt.mcnt, bt.crafted, bt.filed
		// the VALIDATOR path: what a peer receives, offered to the real node
		err := a.nut.BC.InsertBlock(node.Copy(bt.off, nil))
		fl["ok"] = err == nil
		if err != nil {
			fl["err"] = err.Error()
		} else {
			fl["cnt"] = Counts(a.nut.DB, bt.blk.Hash())
		}
	case "Stabilise":
		blk := a.blocks[arg[0].I()-1]
		var sigs []types.SignData
		for r := 0; r < a.w.N; r++ {
			if a.w.Miners[r] != blk.MinerAddress() {
				sigs = append(sigs, node.Sign(blk.Hash(), a.w.Keys[r], 0))
			}
		}
		a.nut.BC.InsertConfirms(blk.Height(), blk.Hash(), sigs)
	case "Reboot":
		dir := a.nut.Dir
		a.nut.Close()
		a.nut = OpenNUT(a.w, dir)
	default:
		return nil, fmt.Errorf("unknown action %s", s.Act.Name)
	}
	a.project(fl)
	return fl, nil
}

func (a *adapter) Close() {
	if a.nut != nil {
		a.nut.Destroy()
	}
	if a.builder != nil {
		a.builder.Destroy()
	}
}

func init() { engine.Register("replayprot", func() engine.Adapter { return &adapter{} }) }
