package adapters

import _ "verifharness/adapters/codecshapes"
