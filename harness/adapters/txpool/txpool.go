// Package txpool binds spec/TxPool.tla (generator) and spec/TraceTxPool.tla (validator) to the
// real chain/txpool.TxPool (C18).  Every event is the one the verif hook emitted under pool.RW.
package txpool

import (
	"bufio"
	"encoding/json"
	"flag"
	"fmt"
	"math/big"
	"math/rand"
	"os"
	"sort"
	"sync"

	"github.com/LemoFoundationLtd/lemochain-core/chain/params"
	"github.com/LemoFoundationLtd/lemochain-core/chain/txpool"
	"github.com/LemoFoundationLtd/lemochain-core/chain/types"
	"github.com/LemoFoundationLtd/lemochain-core/common"
	"github.com/LemoFoundationLtd/lemochain-core/common/crypto"

	"verifharness/engine"
	"verifharness/tla"
)

var key, _ = crypto.HexToECDSA("432a86ab8765d82415a803e29864dcfc1ed93dac949abf6f95a583179f27e4bb")

const chainID = 200

func sign(tx *types.Transaction) *types.Transaction {
	tx, err := types.DefaultSigner{}.SignTx(tx, key)
	if err != nil {
		panic(err)
	}
	return tx
}

func plain(amount int64, exp uint64) *types.Transaction {
	from := crypto.PubkeyToAddress(key.PublicKey)
	return sign(types.NewTransaction(from, common.HexToAddress("12AB"), big.NewInt(amount), 1000000, common.Big1, []byte{}, params.OrdinaryTx, chainID, exp, "", ""))
}

func box(amount int64, exp uint64, subs ...*types.Transaction) *types.Transaction {
	data, err := json.Marshal(&types.Box{SubTxList: subs})
	if err != nil {
		panic(err)
	}
	from := crypto.PubkeyToAddress(key.PublicKey)
	return sign(types.NoReceiverTransaction(from, big.NewInt(amount), 20000, big.NewInt(30000), data, params.BoxTx, chainID, exp, "", ""))
}

// Universe is a fixed family of real transactions with abstract ids.
type Universe struct {
	Tx   map[string]*types.Transaction
	ID   map[common.Hash]string
	Subs map[string][]string
	Exp  map[string]int // effective expiration (min over a box and its subs)
	IDs  []string
}

func (u *Universe) add(id string, tx *types.Transaction, subs ...string) {
	u.Tx[id] = tx
	u.ID[tx.Hash()] = id
	if subs == nil {
		subs = []string{}
	}
	u.Subs[id] = subs
	e := int(tx.Expiration())
	for _, s := range subs {
		if u.Exp[s] < e {
			e = u.Exp[s]
		}
	}
	u.Exp[id] = e
	u.IDs = append(u.IDs, id)
}

func newUniverse() *Universe {
	return &Universe{Tx: map[string]*types.Transaction{}, ID: map[common.Hash]string{}, Subs: map[string][]string{}, Exp: map[string]int{}}
}

// mcUniverse mirrors spec/MCTxPool.tla: t1,t3 expire at 10, t2 at 20, b1 = box(t1, t2), b2 = box(t2, t3), own expiration 20.
func mcUniverse() *Universe {
	u := newUniverse()
	u.add("t1", plain(1, 10))
	u.add("t2", plain(2, 20))
	u.add("t3", plain(3, 10))
	u.add("b1", box(100, 20, u.Tx["t1"], u.Tx["t2"]), "t1", "t2")
	u.add("b2", box(101, 20, u.Tx["t2"], u.Tx["t3"]), "t2", "t3")
	return u
}

func (u *Universe) ids(txs types.Transactions) []string {
	out := make([]string, 0, len(txs))
	for _, tx := range txs {
		id, ok := u.ID[tx.Hash()]
		if !ok {
			id = "unknown:" + tx.Hash().Hex()
		}
		out = append(out, id)
	}
	return out
}

func (u *Universe) fields(ev txpool.VerifPoolEvent) engine.Fields {
	return engine.Fields{"txs": u.ids(ev.Txs), "added": ev.Added, "time": int(ev.Time), "size": ev.Size,
		"out": u.ids(ev.Result), "slots": ev.Slots, "index": ev.Index, "cap": ev.Cap, "seq": ev.Seq}
}

func (u *Universe) resetFields() engine.Fields {
	return engine.Fields{"subs": u.Subs, "exp": u.Exp}
}

type adapter struct {
	u    *Universe
	pool *txpool.TxPool
	last *txpool.VerifPoolEvent
}

func (a *adapter) Reset(init map[string]tla.Value) (engine.Fields, error) {
	if a.u == nil {
		a.u = mcUniverse()
	}
	txpool.VerifSetDefaultPoolCap(2) // Cap0 of spec/MCTxPool_*.cfg: capacity doubling and gc are reached within a few steps
	a.pool = txpool.NewTxPool()
	txpool.VerifPoolHook = func(p *txpool.TxPool, ev txpool.VerifPoolEvent) {
		if p == a.pool {
			e := ev
			a.last = &e
		}
	}
	return a.u.resetFields(), nil
}

func (a *adapter) txs(v tla.Value) types.Transactions {
	var out types.Transactions
	for _, id := range v.Strs() {
		tx, ok := a.u.Tx[id]
		if !ok {
			engine.Failf("unknown tx id %s", id)
		}
		out = append(out, tx)
	}
	return out
}

func (a *adapter) Apply(s engine.Step) (engine.Fields, error) {
	a.last = nil
	arg := s.Act.Args
	switch s.Act.Name {
	case "AddTx":
		a.pool.AddTx(a.u.Tx[arg[0].S()])
	case "AddTxs":
		a.pool.AddTxs(types.Transactions{a.u.Tx[arg[0].S()], a.u.Tx[arg[1].S()]})
	case "DelTxs":
		a.pool.DelTxs(a.txs(arg[0]))
	case "GetTxs":
		a.pool.GetTxs(uint32(arg[0].I()), arg[1].I())
	default:
		return nil, fmt.Errorf("unknown action %s", s.Act.Name)
	}
	if a.last == nil {
		if s.Act.Name == "AddTx" || s.Act.Name == "AddTxs" {
			// the call returned without passing the traced critical section (the one under the pool's write lock): whatever
			// it did, it claims to have added nothing - the monitor accepts that only where the submission is a no-op
			var txs types.Transactions
			for _, v := range arg {
				txs = append(txs, a.u.Tx[v.S()])
			}
			fl := a.u.fields(txpool.VerifPoolEvent{Op: s.Act.Name, Txs: txs})
			fl["nohook"] = true
			return fl, nil
		}
		return nil, fmt.Errorf("no hook event for %s (is the harness built with -tags verif?)", s.Act)
	}
	return a.u.fields(*a.last), nil
}

func (a *adapter) Close() {}

// concurrent driver: G goroutines hammer one real pool; the hook records the linearisation.
func driveConc(args []string) error {
	fs := flag.NewFlagSet("txpool-conc", flag.ContinueOnError)
	out := fs.String("out", "trace.ndjson", "")
	seed := fs.Int64("seed", 1, "")
	rounds := fs.Int("rounds", 20, "")
	gor := fs.Int("goroutines", 8, "")
	ops := fs.Int("ops", 40, "operations per goroutine per round")
	if err := fs.Parse(args); err != nil {
		return err
	}
	f, err := os.Create(*out)
	if err != nil {
		return err
	}
	defer f.Close()
	w := bufio.NewWriter(f)
	defer w.Flush()
	enc := json.NewEncoder(w)
	rng := rand.New(rand.NewSource(*seed))
	lines := 0
	for r := 0; r < *rounds; r++ {
		// 10 plain txs with expirations around the query times, 3 boxes with overlapping contents
		u := newUniverse()
		for i := 1; i <= 10; i++ {
			u.add(fmt.Sprintf("t%d", i), plain(int64(r*1000+i), uint64(10*(1+rng.Intn(4)))))
		}
		u.add("b1", box(int64(r*1000+101), 40, u.Tx["t1"], u.Tx["t2"]), "t1", "t2")
		u.add("b2", box(int64(r*1000+102), 30, u.Tx["t2"], u.Tx["t3"]), "t2", "t3")
		u.add("b3", box(int64(r*1000+103), 20, u.Tx["t4"]), "t4")
		txpool.VerifSetDefaultPoolCap(4 << uint(r%4)) // 4, 8, 16, 32: growth happens at different fill levels
		pool := txpool.NewTxPool()
		var evs []txpool.VerifPoolEvent
		txpool.VerifPoolHook = func(p *txpool.TxPool, ev txpool.VerifPoolEvent) {
			if p == pool {
				evs = append(evs, ev) // under pool.RW
			}
		}
		var wg sync.WaitGroup
		var pmu sync.Mutex
		var panics []string
		for g := 0; g < *gor; g++ {
			wg.Add(1)
			go func(gs int64) {
				defer wg.Done()
				lr := rand.New(rand.NewSource(gs))
				pick := func() *types.Transaction { return u.Tx[u.IDs[lr.Intn(len(u.IDs))]] }
				for i := 0; i < *ops; i++ {
					func() {
						defer func() {
							if rec := recover(); rec != nil { // a panic of the pool itself: recorded, never consumable by the trace spec
								pmu.Lock()
								panics = append(panics, fmt.Sprintf("%v", rec))
								pmu.Unlock()
							}
						}()
						switch lr.Intn(8) {
						case 0, 1, 2:
							pool.AddTx(pick())
						case 3:
							pool.AddTxs(types.Transactions{pick(), pick(), pick()})
						case 4:
							pool.DelTxs(types.Transactions{pick()})
						case 5:
							pool.DelTxs(types.Transactions{pick(), pick()})
						default:
							pool.GetTxs(uint32(5+10*lr.Intn(5)), 1+lr.Intn(14))
						}
					}()
				}
			}(*seed*1000003 + int64(r*100+g))
		}
		wg.Wait()
		sort.Slice(evs, func(i, j int) bool { return evs[i].Seq < evs[j].Seq })
		fl := u.resetFields()
		fl["ev"], fl["beh"], fl["step"] = "reset", r, 0
		if err := enc.Encode(fl); err != nil {
			return err
		}
		lines++
		for i, ev := range evs {
			fl := u.fields(ev)
			fl["ev"], fl["beh"], fl["step"] = ev.Op, r, i+1
			if err := enc.Encode(fl); err != nil {
				return err
			}
			lines++
		}
		for _, p := range panics {
			enc.Encode(map[string]interface{}{"ev": "Panic", "beh": r, "panic": p})
			lines++
		}
	}
	fmt.Printf("{\"rounds\": %d, \"lines\": %d}\n", *rounds, lines)
	return nil
}

func init() {
	engine.Register("txpool", func() engine.Adapter { return &adapter{} })
	engine.RegisterDriver("txpool-conc", driveConc)
}
