package adapters

import _ "verifharness/adapters/filequeue"
