// Package rlp binds spec/Rlp.tla to the real codec /repo/common/rlp (C14, part 1).
//
// The driver never judges.  For every byte string TLC enumerated (initial states of MCRlp with
// mode = "bytes") and for seeded longer strings built from the grammar (valid long forms and
// targeted mutations of them) it calls the REAL decoder into interface{}, []byte, string, [1]byte, [2]byte,
// uint64, uint32, uint8, *big.Int, bool and a two-field struct plus the raw scanners Split / CountValues, and logs value-or-error per
// target.  For every value TLC enumerated (mode = "value") and seeded integers it calls the REAL
// encoder and logs the bytes.  TraceRlp.tla requires each logged result to equal what Rlp.tla says.
// A panic of the codec is logged as "panic", which no trace action consumes.
package rlp

import (
	"bufio"
	"encoding/json"
	"flag"
	"fmt"
	"math/big"
	"math/rand"
	"os"
	"strconv"
	"strings"

	rrlp "github.com/LemoFoundationLtd/lemochain-core/common/rlp"

	"verifharness/engine"
	"verifharness/tla"
)

type row map[string]interface{}

func ints(b []byte) []int {
	out := make([]int, len(b))
	for i, c := range b {
		out[i] = int(c)
	}
	return out
}

var emptyInts = []int{}
var emptyVals = []interface{}{}

func errVal() row                { return row{"k": "err", "b": emptyInts, "e": emptyVals} }
func strVal(b []byte) row        { return row{"k": "str", "b": ints(b), "e": emptyVals} }
func lstVal(e []interface{}) row { return row{"k": "list", "b": emptyInts, "e": e} }

// anyToVal renders what the real decoder stored into an interface{}.
func anyToVal(v interface{}) row {
	switch t := v.(type) {
	case []byte:
		return strVal(t)
	case []interface{}:
		e := make([]interface{}, 0, len(t))
		for _, x := range t {
			e = append(e, anyToVal(x))
		}
		return lstVal(e)
	default:
		engine.Failf("rlp: unexpected decoded type %T", v)
		return nil
	}
}

func no() row          { return row{"ok": false, "b": emptyInts} }
func yes(b []byte) row { return row{"ok": true, "b": ints(b)} }

// guard runs f and reports a panic of the code under test.
func guard(r row, what string, f func()) {
	defer func() {
		if p := recover(); p != nil {
			if he, ok := p.(engine.HarnessError); ok {
				panic(he)
			}
			r["panic"] = fmt.Sprintf("%s: %v", what, p)
		}
	}()
	f()
}

func minimalBE(v uint64) []byte { return new(big.Int).SetUint64(v).Bytes() }

// decodeRow evaluates the real decoder on bs for every target type.
func decodeRow(bs []byte, src string) row {
	r := row{"ev": "dec", "src": src, "bs": ints(bs)}
	cp := func() []byte { return append([]byte(nil), bs...) }
	guard(r, "interface{}", func() {
		var v interface{}
		if err := rrlp.DecodeBytes(cp(), &v); err != nil {
			r["any"] = errVal()
		} else {
			r["any"] = anyToVal(v)
		}
	})
	guard(r, "[]byte", func() {
		var v []byte
		if err := rrlp.DecodeBytes(cp(), &v); err != nil {
			r["bytes"] = no()
		} else {
			r["bytes"] = yes(v)
		}
	})
	guard(r, "uint64", func() {
		var v uint64
		if err := rrlp.DecodeBytes(cp(), &v); err != nil {
			r["u64"] = no()
		} else {
			r["u64"] = yes(minimalBE(v))
		}
	})
	guard(r, "uint32", func() {
		var v uint32
		if err := rrlp.DecodeBytes(cp(), &v); err != nil {
			r["u32"] = no()
		} else {
			r["u32"] = yes(minimalBE(uint64(v)))
		}
	})
	guard(r, "uint8", func() {
		var v uint8
		if err := rrlp.DecodeBytes(cp(), &v); err != nil {
			r["u8"] = no()
		} else {
			r["u8"] = yes(minimalBE(uint64(v)))
		}
	})
	guard(r, "*big.Int", func() {
		var v *big.Int
		if err := rrlp.DecodeBytes(cp(), &v); err != nil {
			r["big"] = no()
		} else if v == nil || v.Sign() < 0 {
			engine.Failf("rlp: decoder returned nil/negative big.Int without error")
		} else {
			r["big"] = yes(v.Bytes())
		}
	})
	guard(r, "bool", func() {
		var v bool
		if err := rrlp.DecodeBytes(cp(), &v); err != nil {
			r["bool"] = no()
		} else if v {
			r["bool"] = yes([]byte{1})
		} else {
			r["bool"] = yes(nil)
		}
	})
	guard(r, "string", func() {
		var v string
		if err := rrlp.DecodeBytes(cp(), &v); err != nil {
			r["str"] = no()
		} else {
			r["str"] = yes([]byte(v))
		}
	})
	guard(r, "[1]byte", func() {
		var v [1]byte
		if err := rrlp.DecodeBytes(cp(), &v); err != nil {
			r["arr1"] = no()
		} else {
			r["arr1"] = yes(v[:])
		}
	})
	guard(r, "[2]byte", func() {
		var v [2]byte
		if err := rrlp.DecodeBytes(cp(), &v); err != nil {
			r["arr2"] = no()
		} else {
			r["arr2"] = yes(v[:])
		}
	})
	guard(r, "struct", func() {
		var v struct {
			A uint64
			B []byte
		}
		if err := rrlp.DecodeBytes(cp(), &v); err != nil {
			r["pair"] = row{"ok": false, "a": emptyInts, "b": emptyInts}
		} else {
			r["pair"] = row{"ok": true, "a": ints(minimalBE(v.A)), "b": ints(v.B)}
		}
	})
	guard(r, "Split", func() {
		in := cp()
		k, content, rest, err := rrlp.Split(in)
		if err != nil {
			r["split"] = row{"ok": false, "kind": "", "content": emptyInts, "rest": emptyInts}
			return
		}
		kind := map[rrlp.Kind]string{rrlp.Byte: "byte", rrlp.String: "str", rrlp.List: "list"}[k]
		r["split"] = row{"ok": true, "kind": kind, "content": ints(content), "rest": ints(rest)}
	})
	guard(r, "CountValues", func() {
		n, err := rrlp.CountValues(cp())
		if err != nil {
			n = -1
		}
		r["count"] = n
	})
	return r
}

// valueOf turns a TLA+ value record [k, b, e] into the Go value the real encoder takes, and echoes it.
func valueOf(v tla.Value) (interface{}, row) {
	switch v.F("k").S() {
	case "str":
		var b []byte
		for _, x := range v.F("b").Ints() {
			b = append(b, byte(x))
		}
		if b == nil {
			b = []byte{}
		}
		return b, strVal(b)
	case "list":
		gos := []interface{}{}
		echo := []interface{}{}
		for _, el := range v.F("e").Elems {
			g, e := valueOf(el)
			gos = append(gos, g)
			echo = append(echo, e)
		}
		return gos, lstVal(echo)
	}
	engine.Failf("rlp: bad value kind %q", v.F("k").S())
	return nil, nil
}

func encodeRow(goVal interface{}, echo row, src string) row {
	r := row{"ev": "enc", "src": src, "v": echo}
	guard(r, "EncodeToBytes", func() {
		out, err := rrlp.EncodeToBytes(goVal)
		if err != nil {
			r["ok"] = false
			r["out"] = emptyInts
			return
		}
		r["ok"] = true
		r["out"] = ints(out)
	})
	return r
}

// intRow encodes the integer whose minimal big-endian bytes are b as uint64 (when it fits) and as *big.Int.
func intRow(b []byte) row {
	r := row{"ev": "encint", "b": ints(b)}
	n := new(big.Int).SetBytes(b)
	guard(r, "encode ints", func() {
		if n.IsUint64() {
			out, err := rrlp.EncodeToBytes(n.Uint64())
			if err != nil {
				engine.Failf("rlp: uint64 encode: %v", err)
			}
			r["u64"] = ints(out)
		} else {
			r["u64"] = []int{-1}
		}
		out, err := rrlp.EncodeToBytes(n)
		if err != nil {
			engine.Failf("rlp: big encode: %v", err)
		}
		r["big"] = ints(out)
	})
	return r
}

// ---- seeded longer strings: built from the grammar by an encoder of the harness' own, then mutated

type gval struct {
	str  []byte
	list []*gval
	isL  bool
}

var strLens = []int{0, 1, 1, 2, 3, 20, 32, 54, 55, 56, 57, 64, 65, 120, 255, 256, 257, 300}

func genVal(rng *rand.Rand, depth int, budget *int) *gval {
	if depth > 0 && rng.Intn(3) == 0 {
		n := rng.Intn(5)
		g := &gval{isL: true}
		for i := 0; i < n && *budget > 0; i++ {
			g.list = append(g.list, genVal(rng, depth-1, budget))
		}
		return g
	}
	n := strLens[rng.Intn(len(strLens))]
	if n > *budget {
		n = rng.Intn(3)
	}
	*budget -= n + 1
	b := make([]byte, n)
	for i := range b {
		switch rng.Intn(4) {
		case 0:
			b[i] = 0
		case 1:
			b[i] = byte(0x7f + rng.Intn(3))
		default:
			b[i] = byte(rng.Intn(256))
		}
	}
	return &gval{str: b}
}

func beLen(n int) []byte { return new(big.Int).SetInt64(int64(n)).Bytes() }

func head(short byte, n int) []byte {
	if n < 56 {
		return []byte{short + byte(n)}
	}
	l := beLen(n)
	return append([]byte{short + 55 + byte(len(l))}, l...)
}

// enc is the harness' own grammar walker; how>0 selects a deviation from the canonical form at the top item.
func (g *gval) enc(how int) []byte {
	var payload []byte
	short := byte(0x80)
	if g.isL {
		short = 0xc0
		for _, e := range g.list {
			payload = append(payload, e.enc(0)...)
		}
	} else {
		payload = g.str
		if how != 1 && len(payload) == 1 && payload[0] < 0x80 {
			return []byte{payload[0]}
		}
	}
	n := len(payload)
	switch how {
	case 2: // long form although short would do / one more length byte than needed
		l := beLen(n)
		if n == 0 {
			l = []byte{0}
		}
		if n >= 56 {
			l = append([]byte{0}, l...)
		}
		return append(append([]byte{short + 55 + byte(len(l))}, l...), payload...)
	case 3: // announced length one too large
		return append(head(short, n+1), payload...)
	case 4: // announced length one too small
		if n > 0 {
			return append(head(short, n-1), payload...)
		}
	case 5: // eight length bytes
		l := append(make([]byte, 8-len(beLen(n))), beLen(n)...)
		if n%2 == 0 {
			l[0] = 0x80
		}
		return append(append([]byte{short + 55 + 8}, l...), payload...)
	}
	return append(head(short, n), payload...)
}

func seededString(rng *rand.Rand) []byte {
	budget := 40 + rng.Intn(360)
	g := genVal(rng, 3, &budget)
	switch rng.Intn(10) {
	case 0, 1, 2, 3: // canonical
		return g.enc(0)
	case 4:
		return g.enc(1 + rng.Intn(5))
	case 5: // wrap in a list with a mutated element in the middle
		w := &gval{isL: true, list: []*gval{genVal(rng, 1, &budget), g}}
		out := w.enc(0)
		mut := g.enc(1 + rng.Intn(4))
		inner := append(w.list[0].enc(0), mut...)
		if rng.Intn(2) == 0 {
			return append(head(0xc0, len(inner)), inner...)
		}
		return out
	case 6: // truncated
		b := g.enc(0)
		if len(b) > 1 {
			return b[:len(b)-1-rng.Intn(min(len(b)-1, 3))]
		}
		return b
	case 7: // trailing bytes
		return append(g.enc(0), byte(rng.Intn(256)))
	case 8: // one byte flipped near the front (headers live there)
		b := g.enc(0)
		if len(b) > 0 {
			b[rng.Intn(min(len(b), 6))] ^= byte(1 << uint(rng.Intn(8)))
		}
		return b
	default: // integer-looking strings: leading zeros, 8/9 bytes, exact bounds
		n := 1 + rng.Intn(9)
		b := make([]byte, n)
		rng.Read(b)
		if rng.Intn(3) == 0 {
			b[0] = 0
		}
		return (&gval{str: b}).enc(rng.Intn(2))
	}
}

func min(a, b int) int {
	if a < b {
		return a
	}
	return b
}

func toGo(g *gval) (interface{}, row) {
	if !g.isL {
		return g.str, strVal(g.str)
	}
	gos, echo := []interface{}{}, []interface{}{}
	for _, e := range g.list {
		a, b := toGo(e)
		gos = append(gos, a)
		echo = append(echo, b)
	}
	return gos, lstVal(echo)
}

func drive(args []string) error {
	fs := flag.NewFlagSet("rlp", flag.ContinueOnError)
	graph := fs.String("graph", "", "TLC dot dump of MCRlp (strings and values as initial states)")
	seeded := fs.Int("seeded", 0, "number of seeded longer strings / values (over all shards)")
	out := fs.String("out", "rlp.ndjson", "")
	shard := fs.String("shard", "0/1", "")
	seed := fs.Int64("seed", 1, "")
	if err := fs.Parse(args); err != nil {
		return err
	}
	parts := strings.Split(*shard, "/")
	si, _ := strconv.Atoi(parts[0])
	sn, _ := strconv.Atoi(parts[1])
	f, err := os.Create(*out)
	if err != nil {
		return err
	}
	defer f.Close()
	w := bufio.NewWriterSize(f, 1<<20)
	defer w.Flush()
	jenc := json.NewEncoder(w)
	counts := map[string]int{}
	var sample row
	emit := func(r row) error {
		counts[r["ev"].(string)]++
		if src, ok := r["src"].(string); ok {
			counts["src_"+src]++
		}
		if _, bad := r["panic"]; bad {
			counts["panics"]++
		}
		if a, ok := r["any"].(row); ok {
			counts["any_"+a["k"].(string)]++
			if sample == nil && a["k"] == "list" && len(r["bs"].([]int)) >= 3 {
				sample = r
			}
		}
		return jenc.Encode(r)
	}
	if *graph != "" {
		g, err := tla.LoadDot(*graph)
		if err != nil {
			return err
		}
		for i, lab := range g.Labels {
			if i%sn != si {
				continue
			}
			st, err := tla.ParseState(lab)
			if err != nil {
				return fmt.Errorf("state %d: %v", i, err)
			}
			switch st["mode"].S() {
			case "bytes":
				var bs []byte
				for _, x := range st["x"].Ints() {
					bs = append(bs, byte(x))
				}
				if err := emit(decodeRow(bs, "tlc")); err != nil {
					return err
				}
			case "value":
				gv, echo := valueOf(st["x"])
				if err := emit(encodeRow(gv, echo, "tlc")); err != nil {
					return err
				}
			default:
				return fmt.Errorf("state %d: unknown mode", i)
			}
		}
	}
	rng := rand.New(rand.NewSource(*seed*104729 + int64(si)))
	for i := 0; i < *seeded; i++ {
		if i%sn != si {
			continue
		}
		if err := emit(decodeRow(seededString(rng), "seed")); err != nil {
			return err
		}
		if i%4 == 0 {
			budget := 40 + rng.Intn(300)
			gv, echo := toGo(genVal(rng, 3, &budget))
			if err := emit(encodeRow(gv, echo, "seed")); err != nil {
				return err
			}
		}
		if i%8 == 0 {
			n := rng.Intn(12)
			b := make([]byte, n)
			rng.Read(b)
			if n > 0 && b[0] == 0 {
				b[0] = 1
			}
			if rng.Intn(4) == 0 && n > 0 {
				b = []byte{[]byte{1, 127, 128, 255}[rng.Intn(4)]}
			}
			if err := emit(intRow(b)); err != nil {
				return err
			}
		}
	}
	if si == 0 { // integer boundaries, once
		for _, b := range [][]byte{{}, {1}, {127}, {128}, {255}, {1, 0}, {255, 255}, {1, 0, 0}, {255, 255, 255, 255}, {1, 0, 0, 0, 0},
			{128, 0, 0, 0, 0, 0, 0, 0}, {255, 255, 255, 255, 255, 255, 255, 255}, {1, 0, 0, 0, 0, 0, 0, 0, 0}} {
			if err := emit(intRow(b)); err != nil {
				return err
			}
		}
	}
	res := map[string]interface{}{"counts": counts, "sample": sample}
	b, _ := json.Marshal(res)
	fmt.Println(string(b))
	return nil
}

func init() { engine.RegisterDriver("rlp", drive) }
