package callframes

// The BOUNDARY-OPERAND layer of C16 (spec/CallFramesBoundary.tla, MCCallFramesBoundary.tla, TraceCallFramesBoundary.tla).
//
// TLC enumerates tuples (opcode, operand classes, context) as the states of MCCallFramesBoundary; this driver reads
// them from the dot dump, COMPILES every tuple into a tiny real program T
//
//	pre-memory (64 bytes of call data) ; [context: a prior call that leaves return data] ;
//	PUSH the operands ; <opcode under test> ; store the result word and MSIZE behind the memory ; RETURN the memory
//
// deploys T together with the fixed universe (a wrapper W that calls T through CALL, a wrapper that calls it through
// STATICCALL, a returner R, a data contract D) in a committed base block and runs U -> W -> T on the real EVM, twice
// from the same state.  The wrapper survives whatever T does and hands back: the success flag of T's frame, the gas
// before / after the call, and T's return data.  One row per tuple: outcome, gas, the parsed observables, a
// fingerprint of the observable state before and after, the panic message.  The driver never judges.

import (
	"bufio"
	"encoding/binary"
	"encoding/json"
	"flag"
	"fmt"
	"hash/fnv"
	"math/big"
	"math/rand"
	"os"
	"sort"
	"strconv"
	"strings"

	"github.com/LemoFoundationLtd/lemochain-core/chain/account"
	"github.com/LemoFoundationLtd/lemochain-core/chain/types"
	"github.com/LemoFoundationLtd/lemochain-core/common"
	"github.com/LemoFoundationLtd/lemochain-core/common/crypto"

	"verifharness/engine"
	"verifharness/tla"
)

// ---- the fixed sizes of the setup (the spec gets them in the "env" record of every row)
const (
	bndMS     = 64      // size of the memory before the opcode under test (a copy of the first 64 call data bytes)
	bndNC     = 72      // call data length
	bndRD     = 40      // length of the return data the context call leaves
	bndND     = 50      // code length of the data contract D
	bndBal    = 5       // balance of T
	bndTopGas = 3000000 // gas of the transaction-level call U -> W
	bndAmple  = 1000000 // gas W asks for T in the ample context
	bndBatch  = 192     // programs per base block
)

// pattern bytes: never zero, so that padding is recognisable.  salt 3 = call data, 101 = return data, 57 = D's code
func bndPat(salt, i int) byte { return byte((i*7+salt)%250 + 1) }

func bndPattern(salt, n int) []byte {
	b := make([]byte, n)
	for i := range b {
		b[i] = bndPat(salt, i)
	}
	return b
}

var (
	bndAddrWC    = common.HexToAddress("0xc0de0000000000000000000000000000000000e1") // wrapper: CALL
	bndAddrWS    = common.HexToAddress("0xc0de0000000000000000000000000000000000e2") // wrapper: STATICCALL
	bndAddrR     = common.HexToAddress("0xc0de0000000000000000000000000000000000e3") // returns 40 pattern bytes
	bndAddrD     = common.HexToAddress("0xc0de0000000000000000000000000000000000e4") // code = 50 pattern bytes
	bndAddrNop   = common.HexToAddress("0xc0de0000000000000000000000000000000000e5") // code = STOP (gas calibration)
	bndAddrFresh = common.HexToAddress("0xf4e5000000000000000000000000000000000077") // never existed
	bndAddrMax   = common.BytesToAddress(bndOnes(20))
)

func bndOnes(n int) []byte {
	b := make([]byte, n)
	for i := range b {
		b[i] = 0xff
	}
	return b
}

func bndProgAddr(i int) common.Address {
	a := common.HexToAddress("0x7e57000000000000000000000000000000000000")
	a[18], a[19] = byte(i>>8), byte(i)
	return a
}

// ---- the opcode table: byte, operand roles (top of the stack first), what it leaves
//
//	roles: moff len doff (N = memory size / length of the data the opcode reads), gas (N = 2300), value (N = T's
//	balance), word (N = 256), addr (address classes), jdest (jump destination classes),
//	tailop tailm padr clen (no stack operands: the shape of the CODE the opcode executes in - it ends with PUSH<tailop>
//	of whose data tailm bytes are there, its length is padr modulo 8, "long" = 40 000 bytes more)
type bndOpInfo struct {
	code  byte
	roles []string
	kind  string // "push": leaves one word; "none"; "halt": ends the frame; "jump"
	src   string // what doff / len are measured against: rd | cd | code | ext | mem
	mem   bool   // log the whole memory (content expectation in the spec)
}

func rl(s string) []string { return strings.Fields(s) }

var bndOps = map[string]bndOpInfo{
	"CALLDATACOPY":   {0x37, rl("moff doff len"), "none", "cd", true},
	"CODECOPY":       {0x39, rl("moff doff len"), "none", "code", true},
	"RETURNDATACOPY": {0x3e, rl("moff doff len"), "none", "rd", true},
	"EXTCODECOPY":    {0x3c, rl("addr moff doff len"), "none", "ext", true},
	"CALLDATALOAD":   {0x35, rl("doff"), "push", "cd", false},
	"MLOAD":          {0x51, rl("moff"), "push", "mem", false},
	"MSTORE":         {0x52, rl("moff word"), "none", "mem", true},
	"MSTORE8":        {0x53, rl("moff word"), "none", "mem", true},
	"SHA3":           {0x20, rl("moff len"), "push", "mem", false},
	"LOG0":           {0xa0, rl("moff len"), "none", "mem", false},
	"LOG1":           {0xa1, rl("moff len word"), "none", "mem", false},
	"LOG2":           {0xa2, rl("moff len word word"), "none", "mem", false},
	"LOG3":           {0xa3, rl("moff len word word word"), "none", "mem", false},
	"LOG4":           {0xa4, rl("moff len word word word word"), "none", "mem", false},
	"RETURN":         {0xf3, rl("moff len"), "halt", "mem", true},
	"REVERT":         {0xfd, rl("moff len"), "halt", "mem", true},
	"CREATE":         {0xf0, rl("value moff len"), "push", "mem", false},
	"CALL":           {0xf1, rl("gas addr value moff len moff len"), "push", "mem", true},
	"CALLCODE":       {0xf2, rl("gas addr value moff len moff len"), "push", "mem", true},
	"DELEGATECALL":   {0xf4, rl("gas addr moff len moff len"), "push", "mem", true},
	"STATICCALL":     {0xfa, rl("gas addr moff len moff len"), "push", "mem", true},
	"JUMP":           {0x56, rl("jdest tailop tailm padr clen"), "jump", "code", false},
	"JUMPI":          {0x57, rl("jdest word tailop tailm padr clen"), "jump", "code", false},
	"SLOAD":          {0x54, rl("word"), "push", "", false},
	"SSTORE":         {0x55, rl("word word"), "none", "", false},
	"BALANCE":        {0x31, rl("addr"), "push", "", false},
	"EXTCODESIZE":    {0x3b, rl("addr"), "push", "ext", false},
	"SELFDESTRUCT":   {0xff, rl("addr"), "halt", "", false},
	"BLOCKHASH":      {0x40, rl("word"), "push", "", false},
	"ADD":            {0x01, rl("word word"), "push", "", false},
	"MUL":            {0x02, rl("word word"), "push", "", false},
	"SUB":            {0x03, rl("word word"), "push", "", false},
	"DIV":            {0x04, rl("word word"), "push", "", false},
	"SDIV":           {0x05, rl("word word"), "push", "", false},
	"MOD":            {0x06, rl("word word"), "push", "", false},
	"SMOD":           {0x07, rl("word word"), "push", "", false},
	"ADDMOD":         {0x08, rl("word word word"), "push", "", false},
	"MULMOD":         {0x09, rl("word word word"), "push", "", false},
	"EXP":            {0x0a, rl("word word"), "push", "", false},
	"SIGNEXTEND":     {0x0b, rl("word word"), "push", "", false},
	"BYTE":           {0x1a, rl("word word"), "push", "", false},
	"SHL":            {0x1b, rl("word word"), "push", "", false},
	"SHR":            {0x1c, rl("word word"), "push", "", false},
	"SAR":            {0x1d, rl("word word"), "push", "", false},
	"LT":             {0x10, rl("word word"), "push", "", false},
	"GT":             {0x11, rl("word word"), "push", "", false},
	"SLT":            {0x12, rl("word word"), "push", "", false},
	"SGT":            {0x13, rl("word word"), "push", "", false},
	"EQ":             {0x14, rl("word word"), "push", "", false},
	"ISZERO":         {0x15, rl("word"), "push", "", false},
	"AND":            {0x16, rl("word word"), "push", "", false},
	"OR":             {0x17, rl("word word"), "push", "", false},
	"XOR":            {0x18, rl("word word"), "push", "", false},
	"NOT":            {0x19, rl("word"), "push", "", false},
}

// bndTuple is one state of MCCallFramesBoundary.
type bndTuple struct {
	Op     string
	Cls    []string
	RD     bool
	Static bool
	Gas    string // ample | tiny
}

func (t bndTuple) String() string {
	return fmt.Sprintf("%s(%s) rd=%v static=%v gas=%s", t.Op, strings.Join(t.Cls, ","), t.RD, t.Static, t.Gas)
}

// bndEnv: the lengths the N-relative classes refer to.
type bndEnv struct {
	MS, NC, RDN, NT, NX, Bal int
}

func pow2(e uint) *big.Int { return new(big.Int).Lsh(big.NewInt(1), e) }

// classValue instantiates a value class; width = bytes of the PUSH (fixed per class: the code length of T does not
// depend on N).
func classValue(c string, n int) (*big.Int, int, error) {
	sub1 := func(x *big.Int) *big.Int { return x.Sub(x, big.NewInt(1)) }
	switch c {
	case "0", "1", "31", "32", "33":
		v, _ := strconv.Atoi(c)
		return big.NewInt(int64(v)), 1, nil
	case "N-1":
		if n == 0 {
			return nil, 0, fmt.Errorf("class N-1 with N = 0")
		}
		return big.NewInt(int64(n - 1)), 2, nil
	case "N":
		return big.NewInt(int64(n)), 2, nil
	case "N+1":
		return big.NewInt(int64(n + 1)), 2, nil
	case "2^32-1":
		return sub1(pow2(32)), 4, nil
	case "2^32":
		return pow2(32), 5, nil
	case "2^63":
		return pow2(63), 8, nil
	case "2^64-1":
		return sub1(pow2(64)), 8, nil
	case "2^64":
		return pow2(64), 9, nil
	case "2^64+1":
		return new(big.Int).Add(pow2(64), big.NewInt(1)), 9, nil
	case "2^128":
		return pow2(128), 17, nil
	case "2^255":
		return pow2(255), 32, nil
	case "2^256-1":
		return sub1(pow2(256)), 32, nil
	}
	return nil, 0, fmt.Errorf("unknown value class %q", c)
}

func (p *bndProg) addrOfClass(c string) ([]byte, error) {
	pad := func(a common.Address) []byte { return a.Bytes() }
	switch c {
	case "R":
		return pad(bndAddrR), nil
	case "D":
		return pad(bndAddrD), nil
	case "dirtyD", "dirtyR": // bit 160 set above the address: the address is the value modulo 2^160
		a := bndAddrD
		if c == "dirtyR" {
			a = bndAddrR
		}
		return append([]byte{0x01}, a.Bytes()...), nil
	case "U":
		return pad(addrOf["U"]), nil
	case "self":
		return pad(p.addr), nil
	case "fresh":
		return pad(bndAddrFresh), nil
	case "zero":
		return []byte{0}, nil
	case "pre1", "pre4", "pre5", "pre9":
		return []byte{c[3] - '0'}, nil
	case "max":
		return bndOnes(32), nil
	}
	return nil, fmt.Errorf("unknown address class %q", c)
}

// extLen: code length behind an address class (the N of EXTCODECOPY / the result of EXTCODESIZE)
func (p *bndProg) extLen(c string, nt int) int {
	switch c {
	case "R":
		return len(bndCodeR())
	case "D", "dirtyD":
		return bndND
	case "dirtyR":
		return len(bndCodeR())
	case "self":
		return nt
	}
	return 0
}

// ---- programs
const (
	opMSIZE          = 0x59
	opRETURNDATASIZE = 0x3d
	opRETURNDATACOPY = 0x3e
	opCALLDATACOPY   = 0x37
	opCALLDATASIZE   = 0x36
	opADD            = 0x01
	opMLOAD          = 0x51
	opSWAP1          = 0x90
	opDUP2           = 0x81
)

// W: copies the call data, calls the address in call data word [NC+32..) with the gas in word [NC..), returns
// flag | gas before | gas after | return data size | return data
func bndCodeW(static bool) []byte {
	a := newAsm()
	a.push(bndNC).push(0).push(0).op(opCALLDATACOPY)
	a.op(opGAS).push(0x200).op(opMSTORE)
	a.push(0).push(0).push(bndNC).push(0)
	if !static {
		a.push(0)
	}
	a.push(bndNC + 32).op(opCALLDATALOAD).push(bndNC).op(opCALLDATALOAD)
	if static {
		a.op(opSTATICCALL)
	} else {
		a.op(opCALL)
	}
	a.op(opGAS).push(0x40).op(opMSTORE)
	a.push(0).op(opMSTORE)
	a.push(0x200).op(opMLOAD).push(0x20).op(opMSTORE)
	a.op(opRETURNDATASIZE).push(0x60).op(opMSTORE)
	a.op(opRETURNDATASIZE).push(0).push(0x80).op(opRETURNDATACOPY)
	a.op(opRETURNDATASIZE).push(0x80).op(opADD).push(0).op(opRETURN)
	return a.bytes()
}

// R: returns 40 pattern bytes (kept behind the code)
func bndCodeR() []byte {
	a := newAsm()
	a.push(bndRD).pushLabel("data").push(0).op(opCODECOPY).push(bndRD).push(0).op(opRETURN)
	a.mark("data")
	a.op(bndPattern(101, bndRD)...)
	return a.bytes()
}

type bndProg struct {
	t    bndTuple
	addr common.Address
	code []byte
	env  bndEnv
}

func (p *bndProg) pushFixed(a *asm, v *big.Int, width int) {
	b := v.Bytes()
	if len(b) > width {
		panic(fmt.Sprintf("value %v wider than %d bytes", v, width))
	}
	a.pushBytes(append(make([]byte, width-len(b)), b...))
}

// baseN: what N means for operand i of the opcode
func (p *bndProg) baseN(info bndOpInfo, i int, env bndEnv) int {
	switch info.roles[i] {
	case "moff":
		return env.MS
	case "gas":
		return 2300
	case "value":
		return env.Bal
	case "word":
		return 256
	case "len", "doff":
		switch info.src {
		case "rd":
			return env.RDN
		case "cd":
			return env.NC
		case "code":
			return env.NT
		case "ext":
			return env.NX
		}
		return env.MS
	}
	return 0
}

// bndTail: the code shape of a tuple (the four classes behind the stack operands); ok = the code has a tail
type bndTail struct {
	p, m, r int
	long    bool
	ok      bool
}

const bndLongFill = 40000

func (p *bndProg) tail() (bndTail, error) {
	info := bndOps[p.t.Op]
	for i, r := range info.roles {
		if r != "tailop" {
			continue
		}
		c := p.t.Cls[i : i+4]
		if c[0] == "none" {
			return bndTail{}, nil
		}
		t := bndTail{ok: true, long: c[3] == "long"}
		var err error
		if t.p, err = strconv.Atoi(c[0]); err != nil || t.p < 1 || t.p > 32 {
			return t, fmt.Errorf("tail class %q", c[0])
		}
		switch c[1] {
		case "0":
		case "1":
			t.m = 1
		case "P-1":
			t.m = t.p - 1
		case "P":
			t.m = t.p
		default:
			return t, fmt.Errorf("tail data class %q", c[1])
		}
		if t.r, err = strconv.Atoi(c[2]); err != nil || t.r < 0 || t.r > 7 {
			return t, fmt.Errorf("length class %q", c[2])
		}
		return t, nil
	}
	return bndTail{}, nil
}

func (p *bndProg) pushJdest(a *asm, c string, nt int, dest, pdata, tdata int) error {
	var v *big.Int
	w := 2
	d := big.NewInt(int64(dest))
	switch c {
	case "dest":
		v = d
	case "taildata":
		v = big.NewInt(int64(tdata))
	case "dest+1":
		v = big.NewInt(int64(dest + 1))
	case "pushdata":
		v = big.NewInt(int64(pdata))
	case "2^32+dest":
		v, w = new(big.Int).Add(pow2(32), d), 5
	case "2^63+dest":
		v, w = new(big.Int).Add(pow2(63), d), 8
	case "2^64+dest":
		v, w = new(big.Int).Add(pow2(64), d), 9
	case "2^255+dest":
		v, w = new(big.Int).Add(pow2(255), d), 32
	default:
		var err error
		if v, w, err = classValue(c, nt); err != nil {
			return err
		}
	}
	p.pushFixed(a, v, w)
	return nil
}

// assemble builds T; nt (code length), dest / pdata (positions) are only known after a first pass - all pushes have
// a fixed width, so the second pass has the same layout.
func (p *bndProg) assemble(env bndEnv, dest, pdata, tdata int) (code []byte, labels map[string]int, err error) {
	info, ok := bndOps[p.t.Op]
	if !ok {
		return nil, nil, fmt.Errorf("unknown opcode %s", p.t.Op)
	}
	if len(info.roles) != len(p.t.Cls) {
		return nil, nil, fmt.Errorf("%s takes %d operands, tuple has %d", p.t.Op, len(info.roles), len(p.t.Cls))
	}
	nt := env.NT
	a := newAsm()
	a.op(opPUSH1).mark("pdata").op(0x5b).op(opPOP)   // a JUMPDEST byte that is push data
	a.push(bndMS).push(0).push(0).op(opCALLDATACOPY) // pre-memory
	if p.t.RD {                                      // context: a prior call leaves 40 bytes of return data
		a.push(0).push(0).push(0).push(0).pushBytes(bndAddrR.Bytes()).op(opGAS).op(opSTATICCALL).op(opPOP)
	}
	for i := len(info.roles) - 1; i >= 0; i-- {
		c := p.t.Cls[i]
		switch info.roles[i] {
		case "addr":
			b, err := p.addrOfClass(c)
			if err != nil {
				return nil, nil, err
			}
			w := 20
			if len(b) > 20 {
				w = len(b)
			}
			p.pushFixed(a, new(big.Int).SetBytes(b), w)
		case "tailop", "tailm", "padr", "clen": // the shape of the code, not an operand on the stack
		case "jdest":
			if err := p.pushJdest(a, c, nt, dest, pdata, tdata); err != nil {
				return nil, nil, err
			}
		default:
			v, w, err := classValue(c, p.baseN(info, i, env))
			if err != nil {
				return nil, nil, err
			}
			p.pushFixed(a, v, w)
		}
	}
	a.op(info.code)
	switch info.kind {
	case "halt":
		a.op(opSTOP)
	case "jump":
		a.push(0x11).pushLabel("epi").op(opJUMP) // fell through
		a.dest("dest").push(0x22)                // jumped
		a.dest("epi")
	case "none":
		a.push(0)
	}
	if info.kind != "halt" {
		// stack: r.   memory' = memory ++ r ++ MSIZE ; RETURN(0, MSIZE + 64)
		a.op(opMSIZE).op(opSWAP1).op(opDUP2).op(opMSTORE)
		a.op(opDUP1).op(opDUP1).push(32).op(opADD).op(opMSTORE)
		a.push(64).op(opADD).push(0).op(opRETURN)
	}
	// the shape of the code: filler (never executed) up to the demanded length modulo 8, then a PUSH<p> with m of its
	// p data bytes (each a JUMPDEST byte) - the end of the code cuts the rest off
	t, err := p.tail()
	if err != nil {
		return nil, nil, err
	}
	if t.ok {
		n := len(a.buf) + 1 + t.m
		if t.long {
			n += bndLongFill
		}
		fill := ((t.r-n)%8 + 8) % 8
		if t.long {
			fill += bndLongFill
		}
		for i := 0; i < fill; i++ {
			a.op(opINVALID)
		}
		a.op(byte(opPUSH1 + t.p - 1)).mark("tdata")
		for i := 0; i < t.m; i++ {
			a.op(opJUMPDEST)
		}
		if len(a.buf)%8 != t.r {
			return nil, nil, fmt.Errorf("code shape: length %d is not %d modulo 8", len(a.buf), t.r)
		}
	}
	code = a.bytes()
	return code, a.labels, nil
}

func (p *bndProg) build() error {
	info := bndOps[p.t.Op]
	p.env = bndEnv{MS: bndMS, NC: bndNC, Bal: bndBal}
	if p.t.RD {
		p.env.RDN = bndRD
	}
	c0, l0, err := p.assemble(bndEnv{MS: 0x7fff, NC: 0x7fff, RDN: 0x7fff, NT: 0x7fff, NX: 0x7fff, Bal: 0x7fff}, 0, 0, 0)
	if err != nil {
		return err
	}
	nt := len(c0)
	p.env.NT = nt
	if info.src == "ext" {
		p.env.NX = p.extLen(p.t.Cls[0], nt)
	}
	if nt > 0xfffe {
		return fmt.Errorf("code of %d bytes: positions do not fit the two bytes of the destination operands", nt)
	}
	c1, l1, err := p.assemble(p.env, l0["dest"], l0["pdata"], l0["tdata"])
	if err != nil {
		return err
	}
	if len(c1) != nt || l1["dest"] != l0["dest"] {
		return fmt.Errorf("assembler: layout changed between the passes (%d / %d)", nt, len(c1))
	}
	p.code = c1
	return nil
}

// ---- the base block of a batch
type bndAcct struct {
	addr common.Address
	bal  int64
	code []byte
}

func (w *world) baseRaw(accts []bndAcct) (common.Hash, error) {
	w.n++
	if w.db == nil || w.n%dbReuse == 0 {
		w.open()
	}
	am := account.NewManager(common.Hash{}, w.db)
	for _, ac := range accts {
		acc := am.GetAccount(ac.addr)
		acc.SetBalance(big.NewInt(ac.bal))
		if len(ac.code) > 0 {
			acc.SetCode(append(types.Code(nil), ac.code...))
		}
	}
	am.MergeChangeLogs()
	if err := am.Finalise(); err != nil {
		return common.Hash{}, fmt.Errorf("base finalise: %v", err)
	}
	blk := &types.Block{}
	blk.SetHeader(&types.Header{Height: 0, Time: uint32(1538209751 + w.n), VersionRoot: am.GetVersionRoot()})
	h := blk.Hash()
	if err := w.db.SetBlock(h, blk); err != nil {
		return common.Hash{}, fmt.Errorf("base SetBlock: %v", err)
	}
	if err := am.Save(h); err != nil {
		return common.Hash{}, fmt.Errorf("base save: %v", err)
	}
	return h, nil
}

// ---- observation
var bndWatchKeys = func() []common.Hash {
	var ks []common.Hash
	for _, c := range []string{"0", "1", "31", "32", "33", "N-1", "N", "N+1", "2^32-1", "2^32", "2^63", "2^64-1", "2^64", "2^64+1", "2^128", "2^255", "2^256-1"} {
		v, _, _ := classValue(c, 256)
		ks = append(ks, common.BigToHash(v))
	}
	return ks
}()

// fingerprint of the observable state: balance, code, suicide flag of every account the programs can name, the
// storage of T under every key class, the published contract logs and creation records.  Returns also the number of
// the platform's failure records (they are allowed to grow).
func bndFingerprint(am *account.Manager, p *bndProg, verbose bool) (string, int, string) {
	t := p.addr
	// the accounts this program can reach: sender, wrappers, itself, the returner, what its address operand names,
	// the contract it may create
	addrs := []common.Address{addrOf["U"], bndAddrWC, bndAddrWS, bndAddrR, t}
	keys := bndWatchKeys[:2]
	if info, ok := bndOps[p.t.Op]; ok {
		for i, r := range info.roles {
			if r == "addr" {
				if b, err := p.addrOfClass(p.t.Cls[i]); err == nil {
					addrs = append(addrs, common.BytesToAddress(b))
				}
			}
		}
		if p.t.Op == "CREATE" {
			addrs = append(addrs, crypto.CreateContractAddress(t, txHash))
		}
		if p.t.Op == "SSTORE" || p.t.Op == "SLOAD" {
			keys = bndWatchKeys
		}
	}
	var sb strings.Builder
	for _, a := range addrs {
		ac := am.GetAccount(a)
		code, err := ac.GetCode()
		ch := "ERR"
		if err == nil {
			ch = fmt.Sprintf("%d:%x", len(code), ac.GetCodeHash().Bytes()[:8])
		}
		fmt.Fprintf(&sb, "%x b=%s c=%s d=%v|", a[:], ac.GetBalance().String(), ch, ac.GetSuicide())
	}
	ac := am.GetAccount(t)
	for _, k := range keys {
		v, err := ac.GetStorageState(k)
		if err != nil {
			sb.WriteString("ERR,")
		} else {
			fmt.Fprintf(&sb, "%x,", v)
		}
	}
	nlog, nfail, ncreate := 0, 0, 0
	for _, l := range am.GetChangeLogs() {
		if l.LogType != account.AddEventLog {
			continue
		}
		e, _ := l.NewVal.(*types.Event)
		switch {
		case e != nil && len(e.Topics) == 1 && e.Topics[0] == types.TopicRunFail:
			nfail++
		case e != nil && len(e.Topics) == 1 && e.Topics[0] == types.TopicContractCreation:
			ncreate++
		default:
			nlog++
			if e != nil {
				fmt.Fprintf(&sb, "|ev %x %x %x", e.Address[:], e.Topics, e.Data)
			}
		}
	}
	fmt.Fprintf(&sb, "|nlog=%d ncreate=%d", nlog, ncreate)
	h := fnv.New64a()
	h.Write([]byte(sb.String()))
	s := ""
	if verbose {
		s = sb.String()
	}
	return fmt.Sprintf("%012x", h.Sum64()>>16), nfail, s
}

type bndRun struct {
	Crash   string
	St      string
	Left    uint64
	Parsed  bool
	Flag    int
	GB, GA  uint64
	Out     []byte // T's return data
	Fin     string
	NFail   int
	Verbose string
}

func word64(b []byte) (uint64, bool) {
	for _, x := range b[:24] {
		if x != 0 {
			return 0, false
		}
	}
	return binary.BigEndian.Uint64(b[24:32]), true
}

func (w *world) runBnd(base common.Hash, p *bndProg, gasWord uint64, verbose bool) *bndRun {
	am := account.NewManager(base, w.db)
	evm := newEVM(am, nil)
	res := &bndRun{}
	wr := bndAddrWC
	if p.t.Static {
		wr = bndAddrWS
	}
	input := append([]byte(nil), bndPattern(3, bndNC)...)
	input = append(input, common.BigToHash(new(big.Int).SetUint64(gasWord)).Bytes()...)
	input = append(input, common.BytesToHash(p.addr.Bytes()).Bytes()...)
	var ret []byte
	func() {
		defer func() {
			if r := recover(); r != nil {
				res.Crash = fmt.Sprint(r)
				if len(res.Crash) > 200 {
					res.Crash = res.Crash[:200]
				}
			}
		}()
		var err error
		ret, res.Left, err = evm.Call(am.GetAccount(addrOf["U"]), wr, input, bndTopGas, big.NewInt(0))
		switch {
		case err == nil:
			res.St = "ok"
		case err.Error() == "evm: execution reverted":
			res.St = "revert"
		default:
			res.St = "fail:" + err.Error()
		}
	}()
	if res.Crash != "" {
		return res
	}
	if res.St == "ok" && len(ret) >= 128 {
		f, ok0 := word64(ret[0:32])
		gb, ok1 := word64(ret[32:64])
		ga, ok2 := word64(ret[64:96])
		n, ok3 := word64(ret[96:128])
		if ok0 && ok1 && ok2 && ok3 && f <= 1 && n == uint64(len(ret)-128) {
			res.Parsed, res.Flag, res.GB, res.GA, res.Out = true, int(f), gb, ga, ret[128:]
		}
	}
	res.Fin, res.NFail, res.Verbose = bndFingerprint(am, p, verbose)
	return res
}

// digits: a 256-bit word as 16 little-endian digits in base 2^16 (the number format of the spec)
func bndDigits(b []byte) []int {
	d := make([]int, 16)
	for i := 0; i < 16; i++ {
		d[i] = int(b[31-2*i]) | int(b[30-2*i])<<8
	}
	return d
}

func bytesInts(b []byte) []int {
	o := make([]int, len(b))
	for i, x := range b {
		o[i] = int(x)
	}
	return o
}

// sat keeps a gas amount inside TLC's integers (all amounts here are below the 3 000 000 supplied unless the platform
// invents gas - which the spec then sees as an amount above the supply)
func sat(g uint64) int {
	if g > 1<<30 {
		return 1 << 30
	}
	return int(g)
}

// fields: <<panic, status ("p" = the wrapper returned and its output has the agreed shape), gas left, success flag of
// T's frame, gas before / after the call of T, state fingerprint, failure records, length and fingerprint of T's output>>
func (r *bndRun) fields() []interface{} {
	st := r.St
	if st == "ok" && r.Parsed {
		st = "p"
	}
	h := fnv.New64a()
	h.Write(r.Out)
	return []interface{}{r.Crash, st, sat(r.Left), r.Flag, sat(r.GB), sat(r.GA), r.Fin, r.NFail, len(r.Out), fmt.Sprintf("%012x", h.Sum64()>>16)}
}

// observables of the first run, parsed out of T's return data: for a program that reaches its epilogue
// memory ++ result word ++ MSIZE; for RETURN / REVERT the returned bytes themselves.
func bndObservables(info bndOpInfo, r *bndRun, data []byte) []interface{} {
	shape, ms, res, mem := "none", -1, []int{}, []int{}
	out := r.Out
	switch {
	case !r.Parsed:
	case info.kind == "halt":
		shape = "raw"
		if info.mem && len(out) <= 4096 {
			mem = bytesInts(out)
		}
	case r.Flag == 1 && len(out) >= 64 && len(out)%32 == 0:
		m, ok := word64(out[len(out)-32:])
		if !ok || m != uint64(len(out)-64) {
			shape = "bad"
			break
		}
		shape, ms = "epi", int(m)
		res = bndDigits(out[len(out)-64 : len(out)-32])
		if info.mem && m <= 4096 {
			mem = bytesInts(out[:m])
		}
	case r.Flag == 1:
		shape = "bad"
	}
	d := []int{}
	if len(mem) > 0 && data != nil {
		d = bytesInts(data)
	}
	return []interface{}{shape, ms, res, mem, d}
}

func bndTupleOf(st map[string]tla.Value) bndTuple {
	return bndTuple{Op: st["op"].S(), Cls: st["cls"].Strs(), RD: st["rd"].B(), Static: st["static"].B(), Gas: st["gas"].S()}
}

// bndBatchRun deploys the programs of one batch in a base block and runs them.
func (w *world) bndBatchRun(progs []*bndProg, seed int64, emit func(map[string]interface{}) error, verbose bool) error {
	accts := []bndAcct{{addrOf["U"], 100, nil}, {bndAddrWC, 0, bndCodeW(false)}, {bndAddrWS, 0, bndCodeW(true)},
		{bndAddrR, 2, bndCodeR()}, {bndAddrD, 1, bndPattern(57, bndND)}, {bndAddrNop, 0, []byte{opSTOP}}}
	for _, p := range progs {
		accts = append(accts, bndAcct{p.addr, bndBal, p.code})
	}
	base, err := w.baseRaw(accts)
	if err != nil {
		return err
	}
	// what the wrappers themselves spend between the two GAS readings when the callee does nothing
	overhead := map[bool]uint64{}
	for _, st := range []bool{false, true} {
		nop := &bndProg{t: bndTuple{Static: st}, addr: bndAddrNop}
		r := w.runBnd(base, nop, bndAmple, false)
		if !r.Parsed || r.Flag != 1 {
			return fmt.Errorf("calibration run of the wrapper failed: %+v", r)
		}
		overhead[st] = r.GB - r.GA
	}
	for _, p := range progs {
		info := bndOps[p.t.Op]
		gasWord := uint64(bndAmple)
		if p.t.Gas == "tiny" {
			cal := w.runBnd(base, p, bndAmple, false)
			used := uint64(1)
			if cal.Crash == "" && cal.Parsed && cal.GB-cal.GA > overhead[p.t.Static] {
				used = cal.GB - cal.GA - overhead[p.t.Static]
			}
			hh := fnv.New32a()
			fmt.Fprintf(hh, "g/%d/%s", seed, p.t.String())
			gasWord = uint64(hh.Sum32()) % used
			switch hh.Sum32() % 8 {
			case 0, 4:
				gasWord = used - 1 // the last instruction starves
			case 1:
				gasWord = used // exactly what the ample run burnt
			}
		}
		pre, prenf, prev := bndFingerprint(account.NewManager(base, w.db), p, verbose)
		r1 := w.runBnd(base, p, gasWord, verbose)
		r2 := w.runBnd(base, p, gasWord, false)
		// the code a copy reads, where the spec cannot know it (own code, R's code)
		var data []byte
		switch {
		case p.t.Op == "CODECOPY" || (p.t.Op == "EXTCODECOPY" && p.t.Cls[0] == "self"):
			data = p.code
		case p.t.Op == "EXTCODECOPY" && (p.t.Cls[0] == "R" || p.t.Cls[0] == "dirtyR"):
			data = bndCodeR()
		}
		row := map[string]interface{}{"ev": "Bnd", "op": p.t.Op, "cls": p.t.Cls, "x": []interface{}{p.t.RD, p.t.Static, p.t.Gas},
			"n": []int{p.env.NT, p.env.NX}, "g": sat(gasWord), "pre": []interface{}{pre, prenf},
			"r1": r1.fields(), "r2": r2.fields(), "obs": bndObservables(info, r1, data)}
		if verbose {
			row["code"] = fmt.Sprintf("%x", p.code)
			row["prestate"], row["finstate"] = prev, r1.Verbose
			row["out"] = fmt.Sprintf("%x", r1.Out)
		}
		if err := emit(row); err != nil {
			return err
		}
	}
	return nil
}

// driveBoundary: -graph <dot dump of MCCallFramesBoundary> -shard i/n -out rows.ndjson, or explicit tuples
// "OP:c1,c2,..:rd:static:gas" as arguments (probe).
func driveBoundary(args []string) error {
	fs := flag.NewFlagSet("callframes-boundary", flag.ContinueOnError)
	graph := fs.String("graph", "", "TLC dot dump of MCCallFramesBoundary (tuples as initial states)")
	out := fs.String("out", "", "rows (ndjson); stdout when empty")
	shard := fs.String("shard", "0/1", "")
	seed := fs.Int64("seed", 1, "")
	verbose := fs.Bool("v", false, "log code, output and the readable state (probe)")
	if err := fs.Parse(args); err != nil {
		return err
	}
	parts := strings.Split(*shard, "/")
	si, _ := strconv.Atoi(parts[0])
	sn, _ := strconv.Atoi(parts[len(parts)-1])
	if sn <= 0 {
		sn = 1
	}
	var tuples []bndTuple
	if *graph != "" {
		g, err := tla.LoadDot(*graph)
		if err != nil {
			return err
		}
		labels := append([]string(nil), g.Labels...)
		sort.Strings(labels)                                                                                             // the order of the dump depends on TLC's worker interleaving
		rand.New(rand.NewSource(1)).Shuffle(len(labels), func(i, j int) { labels[i], labels[j] = labels[j], labels[i] }) // same in every shard
		k := 0
		for _, lab := range labels {
			if !strings.Contains(lab, `stage = "tuple"`) { // the heads of the enumeration
				continue
			}
			k++
			if k%sn != si {
				continue
			}
			st, err := tla.ParseState(lab)
			if err != nil {
				return err
			}
			tuples = append(tuples, bndTupleOf(st))
		}
	}
	for _, a := range fs.Args() {
		f := strings.Split(a, ":")
		if len(f) != 5 {
			return fmt.Errorf("tuple %q: want OP:c1,c2:rd:static:gas", a)
		}
		tuples = append(tuples, bndTuple{Op: f[0], Cls: strings.Split(f[1], ","), RD: f[2] == "1" || f[2] == "true",
			Static: f[3] == "1" || f[3] == "true", Gas: f[4]})
	}
	wr := os.Stdout
	if *out != "" {
		f, err := os.Create(*out)
		if err != nil {
			return err
		}
		defer f.Close()
		wr = f
	}
	bw := bufio.NewWriterSize(wr, 1<<20)
	defer bw.Flush()
	enc := json.NewEncoder(bw)
	// a "reset" line (the sizes of the setup) every 32 rows: a rejected row is reported with the rows since the last one
	reset := func(k int) error {
		return enc.Encode(map[string]interface{}{"ev": "reset", "beh": fmt.Sprintf("%d.%d", si, k), "ms": bndMS, "nc": bndNC, "rdl": bndRD, "bal": bndBal,
			"top": bndTopGas, "ample": bndAmple})
	}
	w := &world{tag: fmt.Sprintf("bnd%d_%d", *seed, si)}
	defer w.close()
	step := 0
	emit := func(row map[string]interface{}) error {
		if step%32 == 0 {
			if err := reset(step / 32); err != nil {
				return err
			}
		}
		step++
		return enc.Encode(row)
	}
	for i := 0; i < len(tuples); i += bndBatch {
		j := i + bndBatch
		if j > len(tuples) {
			j = len(tuples)
		}
		var progs []*bndProg
		for k, t := range tuples[i:j] {
			p := &bndProg{t: t, addr: bndProgAddr(k)}
			if err := p.build(); err != nil {
				return fmt.Errorf("%s: %v", t, err)
			}
			progs = append(progs, p)
		}
		if err := w.bndBatchRun(progs, *seed, emit, *verbose); err != nil {
			return err
		}
	}
	fmt.Fprintf(os.Stderr, "")
	if *out != "" {
		fmt.Printf("{\"rows\": %d}\n", step)
	}
	return nil
}

func init() { engine.RegisterDriver("callframes-boundary", driveBoundary) }
