// Package callframes binds spec/CallFrames.tla (generator of call-frame behaviours) and spec/TraceCallFrames.tla
// (validator) to the real EVM of chain/vm running on a real chain/account.Manager over a real store (C16).
//
// A TLC behaviour is a complete execution of a tree of call frames (Enter / SStore / Log / Exit ...).  The adapter
// collects the actions, COMPILES the tree into real EVM bytecode (asm.go, prog.go), deploys it as the code of real
// contract accounts in a committed base block, and runs it with the real vm.EVM - twice with ample gas and twice
// with a seeded starved gas limit, each run on a fresh account.Manager over the same base block.  A vm.Tracer
// (vm.Config.Tracer, no hook) records the frame-level events of every run; the final line of the behaviour carries
// the prescribed action list, the observed events, the observable post-state and the gas numbers.  The adapter
// never judges.
package callframes

import (
	"fmt"
	"hash/fnv"
	"os"
	"strconv"

	"github.com/LemoFoundationLtd/lemochain-core/common"

	"verifharness/engine"
	"verifharness/tla"
)

// deploy: every contract of the universe holds the image of the tree in the shape of its address; returns the base block,
// the image the transaction-level frame uses (a creation: as init code), the ample gas.
func (w *world) deploy(root *Node, baseStor map[string]map[string]int, bal map[string]int, shapeOf map[string]int) (common.Hash, []byte, uint64, error) {
	if shapeOf == nil {
		shapeOf = defaultShapes()
	}
	images, lbase, ample := build(root, shapeOf)
	w.lbase = lbase
	codeAt := map[string][]byte{}
	for _, n := range contractNames {
		codeAt[n] = images[shapeOf[n]]
	}
	h, err := w.baseBal(codeAt, baseStor, bal)
	return h, images[shapeOf[root.To]], ample, err
}

// runRoot: the transaction-level frame of the tree - a call with the node id as call data, or a contract creation with
// the image (init header) as init code.
func (w *world) runRoot(h common.Hash, root *Node, image []byte, gas uint64) *runResult {
	if root.Kind == "create" {
		return w.exec(h, "create", addrOf[root.To], initCode(image, root.ID), gas, root.Val, true, obsNames)
	}
	return w.exec(h, "call", addrOf[root.To], []byte{byte(root.ID)}, gas, root.Val, true, obsNames)
}

func (w *world) runTree(root *Node, gas uint64, baseStor map[string]map[string]int, bal map[string]int, shapeOf map[string]int) (*runResult, error) {
	h, image, ample, err := w.deploy(root, baseStor, bal, shapeOf)
	if err != nil {
		return nil, err
	}
	if gas == 0 {
		gas = ample
	}
	return w.runRoot(h, root, image, gas), nil
}

// flavours: the concrete way a frame the spec lets "fail" is made to fail on the real EVM.
var (
	flavours   = []string{"invalid", "oog", "underflow", "badjump"}
	roFlavours = []string{"invalid", "oog", "wp_sstore", "wp_log", "wp_suicide", "wp_call", "underflow", "badjump", "wp_create"}
)

type adapter struct {
	w     *world
	seed  int64
	beh   int
	root  *Node
	stack []*Node
	ro    []bool
	ctx   []string // executing account of the frames on the stack
	ids   int
	base  map[string]map[string]int
	bal   map[string]int
	shape map[string]int // the shape of the code every address holds / is created with (initial state of the spec)
}

func fullBal(bal map[string]int) map[string]int {
	out := map[string]int{}
	for _, n := range obsNames {
		out[n] = bal[n]
	}
	return out
}

func (a *adapter) pick(set []string, salt int) string {
	h := fnv.New32a()
	fmt.Fprintf(h, "%d/%d/%d", a.seed, a.beh, salt)
	return set[int(h.Sum32())%len(set)]
}

func (a *adapter) Reset(init map[string]tla.Value) (engine.Fields, error) {
	a.beh++
	a.root, a.stack, a.ro, a.ctx, a.ids = nil, nil, nil, nil, 0
	a.base = map[string]map[string]int{}
	a.bal = fullBal(initBal)
	if wv, ok := init["w"]; ok {
		// balances of the base block = the initial balances of the spec (accounts the spec does not have keep theirs)
		bl := wv.F("bal")
		for _, n := range obsNames {
			if v, ok := bl.Get(tla.Str(n)); ok {
				a.bal[n] = v.I()
			}
		}
		// committed storage of the base block = the initial storage of the spec
		st := wv.F("stor")
		for _, c := range contractNames {
			if cs, ok := st.Get(tla.Str(c)); ok {
				a.base[c] = map[string]int{}
				for _, s := range slotNames {
					if v, ok := cs.Get(tla.Str(s)); ok {
						a.base[c][s] = v.I()
					}
				}
			}
		}
	}
	a.shape = defaultShapes()
	if av, ok := init["an"]; ok {
		sh := av.F("shape")
		for _, n := range codeNames {
			if v, ok := sh.Get(tla.Str(n)); ok {
				a.shape[n] = v.I()
			}
		}
	}
	f := engine.Fields{"bal": a.bal, "base": fullBase(a.base), "shape": a.shape}
	return f, nil
}

func (a *adapter) Apply(s engine.Step) (engine.Fields, error) {
	arg := s.Act.Args
	switch s.Act.Name {
	case "Enter", "EnterTop":
		a.ids++
		n := &Node{ID: a.ids, Kind: arg[0].S(), To: arg[1].S(), Val: arg[2].I()}
		ro := n.Kind == "staticcall"
		ctx := n.To
		if len(a.stack) == 0 {
			a.root = n
		} else {
			p := a.stack[len(a.stack)-1]
			p.Items = append(p.Items, &Item{Op: "call", Child: n})
			ro = ro || a.ro[len(a.ro)-1]
			if n.Kind == "callcode" || n.Kind == "delegatecall" {
				ctx = a.ctx[len(a.ctx)-1]
			}
		}
		a.stack, a.ro, a.ctx = append(a.stack, n), append(a.ro, ro), append(a.ctx, ctx)
	case "Collide":
		p := a.top()
		p.Items = append(p.Items, &Item{Op: "collide", Slot: "n" + a.ctx[len(a.ctx)-1], Val: arg[0].I()})
	case "SStore":
		p := a.top()
		p.Items = append(p.Items, &Item{Op: "sstore", Slot: arg[0].S(), Val: arg[1].I()})
	case "Log":
		p := a.top()
		p.Items = append(p.Items, &Item{Op: "log"})
	case "Jump": // a jump the spec lets go on
		p := a.top()
		p.Items = append(p.Items, &Item{Op: "jump", Slot: arg[0].S()})
	case "BadJump": // a jump the spec lets fail the frame
		p := a.top()
		p.End, p.Flavor = "fail", "jump:"+arg[0].S()
		a.pop()
	case "Exit":
		p := a.top()
		p.End = arg[0].S()
		if p.End == "fail" {
			if a.ro[len(a.ro)-1] {
				p.Flavor = a.pick(roFlavours, p.ID)
			} else {
				p.Flavor = a.pick(flavours, p.ID)
			}
		}
		a.pop()
	case "Suicide":
		p := a.top()
		p.End, p.Benef = "suicide", arg[0].S()
		a.pop()
	default:
		return nil, fmt.Errorf("unknown action %s", s.Act.Name)
	}
	if len(a.stack) > 0 || a.root == nil {
		return engine.Fields{"run": false}, nil
	}
	return a.execute()
}

func (a *adapter) top() *Node {
	if len(a.stack) == 0 {
		engine.Failf("action outside a frame")
	}
	return a.stack[len(a.stack)-1]
}

func (a *adapter) pop() {
	a.stack, a.ro, a.ctx = a.stack[:len(a.stack)-1], a.ro[:len(a.ro)-1], a.ctx[:len(a.ctx)-1]
}

// execute: the tree is complete - compile, deploy, run.
func (a *adapter) execute() (engine.Fields, error) {
	root := a.root
	a.root = nil
	maxFlavour(root, func(n *Node) bool { return a.pick([]string{"", "", "", "max"}, 1000+n.ID) == "max" })
	return runProgram(a.w, root, a.base, a.bal, a.shape, a.seed, a.beh)
}

// gasCap: gas amounts are logged as TLC integers
const gasCap = 1<<30 - 1

// runProgram compiles and deploys the tree in a fresh committed base block and executes it on the real EVM: twice
// with ample gas, twice with a seeded starved gas limit below what the ample run used (a real out-of-gas at an
// arbitrary point), each execution on a fresh account.Manager over the same base block.
func runProgram(w *world, root *Node, base map[string]map[string]int, bal map[string]int, shapeOf map[string]int, seed int64, beh int) (engine.Fields, error) {
	h, image, ample, err := w.deploy(root, base, bal, shapeOf)
	if err != nil {
		return nil, err
	}
	// (a tree with so many creations that burn 63/64 of the gas one after the other that the plan leaves TLC's
	// integers: the run is still judged, only not compared with the prescription - it may starve)
	capped := ample > gasCap
	if capped {
		ample = gasCap
	}
	run := func(g uint64) map[string]interface{} {
		return w.runRoot(h, root, image, g).fields()
	}
	r1 := w.runRoot(h, root, image, ample)
	runs := []map[string]interface{}{r1.fields(), run(ample)}
	used := ample - r1.Left
	if r1.Crash == "" && used > 1 {
		hh := fnv.New32a()
		fmt.Fprintf(hh, "g/%d/%d", seed, beh)
		g := uint64(hh.Sum32()) % used
		if hh.Sum32()%4 == 0 {
			g = used - 1
		}
		runs = append(runs, run(g), run(g))
	}
	var prog []map[string]interface{}
	root.actions(&prog)
	return engine.Fields{"run": true, "strict": !capped, "capped": capped, "tree": root.String(), "prog": prog, "runs": runs}, nil
}

func fullBase(base map[string]map[string]int) map[string]map[string]int {
	out := map[string]map[string]int{}
	for _, c := range contractNames {
		out[c] = map[string]int{}
		for _, s := range slotNames {
			out[c][s] = base[c][s]
		}
	}
	return out
}

func (a *adapter) Close() { a.w.close() }

func init() {
	engine.Register("callframes", func() engine.Adapter {
		seed, _ := strconv.ParseInt(os.Getenv("VERIF_SEED"), 10, 64)
		return &adapter{w: &world{tag: "replay"}, seed: seed}
	})
}
