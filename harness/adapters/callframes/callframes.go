// Package callframes binds spec/CallFrames.tla (generator of call-frame behaviours) and spec/TraceCallFrames.tla
// (validator) to the real EVM of chain/vm running on a real chain/account.Manager over a real store (C16).
//
// A TLC behaviour is a complete execution of a tree of call frames (Enter / SStore / Log / Exit ...).  The adapter
// collects the actions, COMPILES the tree into real EVM bytecode (asm.go, prog.go), deploys it as the code of real
// contract accounts in a committed base block, and runs it with the real vm.EVM - twice with ample gas and twice
// with a seeded starved gas limit, each run on a fresh account.Manager over the same base block.  A vm.Tracer
// (vm.Config.Tracer, no hook) records the frame-level events of every run; the final line of the behaviour carries
// the prescribed action list, the observed events, the observable post-state and the gas numbers.  The adapter
// never judges.
package callframes

import (
	"fmt"
	"hash/fnv"
	"os"
	"strconv"

	"github.com/LemoFoundationLtd/lemochain-core/common"

	"verifharness/engine"
	"verifharness/tla"
)

func (w *world) deploy(root *Node, baseStor map[string]map[string]int) (common.Hash, error) {
	image := compile(root)
	codeAt := map[string][]byte{}
	for _, n := range contractNames {
		codeAt[n] = image
	}
	return w.base(codeAt, baseStor)
}

func (w *world) runTree(root *Node, gas uint64, baseStor map[string]map[string]int) (*runResult, error) {
	h, err := w.deploy(root, baseStor)
	if err != nil {
		return nil, err
	}
	return w.call(h, addrOf[root.To], []byte{byte(root.ID)}, gas, root.Val, true, allNames), nil
}

// flavours: the concrete way a frame the spec lets "fail" is made to fail on the real EVM.
var (
	flavours   = []string{"invalid", "oog", "underflow", "badjump"}
	roFlavours = []string{"invalid", "oog", "wp_sstore", "wp_log", "wp_suicide", "wp_call", "underflow", "badjump"}
)

type adapter struct {
	w     *world
	seed  int64
	beh   int
	root  *Node
	stack []*Node
	ro    []bool
	ids   int
	base  map[string]map[string]int
}

func (a *adapter) pick(set []string, salt int) string {
	h := fnv.New32a()
	fmt.Fprintf(h, "%d/%d/%d", a.seed, a.beh, salt)
	return set[int(h.Sum32())%len(set)]
}

func (a *adapter) Reset(init map[string]tla.Value) (engine.Fields, error) {
	a.beh++
	a.root, a.stack, a.ro, a.ids = nil, nil, nil, 0
	a.base = map[string]map[string]int{}
	f := engine.Fields{"bal": initBal}
	if wv, ok := init["w"]; ok {
		// committed storage of the base block = the initial storage of the spec
		st := wv.F("stor")
		for _, c := range contractNames {
			if cs, ok := st.Get(tla.Str(c)); ok {
				a.base[c] = map[string]int{}
				for _, s := range slotNames {
					if v, ok := cs.Get(tla.Str(s)); ok {
						a.base[c][s] = v.I()
					}
				}
			}
		}
	}
	f["base"] = fullBase(a.base)
	return f, nil
}

func (a *adapter) Apply(s engine.Step) (engine.Fields, error) {
	arg := s.Act.Args
	switch s.Act.Name {
	case "Enter", "EnterTop":
		a.ids++
		n := &Node{ID: a.ids, Kind: arg[0].S(), To: arg[1].S(), Val: arg[2].I()}
		ro := n.Kind == "staticcall"
		if len(a.stack) == 0 {
			a.root = n
		} else {
			p := a.stack[len(a.stack)-1]
			p.Items = append(p.Items, &Item{Op: "call", Child: n})
			ro = ro || a.ro[len(a.ro)-1]
		}
		a.stack, a.ro = append(a.stack, n), append(a.ro, ro)
	case "SStore":
		p := a.top()
		p.Items = append(p.Items, &Item{Op: "sstore", Slot: arg[0].S(), Val: arg[1].I()})
	case "Log":
		p := a.top()
		p.Items = append(p.Items, &Item{Op: "log"})
	case "Exit":
		p := a.top()
		p.End = arg[0].S()
		if p.End == "fail" {
			if a.ro[len(a.ro)-1] {
				p.Flavor = a.pick(roFlavours, p.ID)
			} else {
				p.Flavor = a.pick(flavours, p.ID)
			}
		}
		a.pop()
	case "Suicide":
		p := a.top()
		p.End, p.Benef = "suicide", arg[0].S()
		a.pop()
	default:
		return nil, fmt.Errorf("unknown action %s", s.Act.Name)
	}
	if len(a.stack) > 0 || a.root == nil {
		return engine.Fields{"run": false}, nil
	}
	return a.execute()
}

func (a *adapter) top() *Node {
	if len(a.stack) == 0 {
		engine.Failf("action outside a frame")
	}
	return a.stack[len(a.stack)-1]
}

func (a *adapter) pop() { a.stack, a.ro = a.stack[:len(a.stack)-1], a.ro[:len(a.ro)-1] }

// execute: the tree is complete - compile, deploy, run.
func (a *adapter) execute() (engine.Fields, error) {
	root := a.root
	a.root = nil
	return runProgram(a.w, root, a.base, a.seed, a.beh)
}

// runProgram compiles and deploys the tree in a fresh committed base block and executes it on the real EVM: twice
// with ample gas, twice with a seeded starved gas limit below what the ample run used (a real out-of-gas at an
// arbitrary point), each execution on a fresh account.Manager over the same base block.
func runProgram(w *world, root *Node, base map[string]map[string]int, seed int64, beh int) (engine.Fields, error) {
	ample := root.plan()
	h, err := w.deploy(root, base)
	if err != nil {
		return nil, err
	}
	input := []byte{byte(root.ID)}
	run := func(g uint64) map[string]interface{} {
		return w.call(h, addrOf[root.To], input, g, root.Val, true, allNames).fields()
	}
	r1 := w.call(h, addrOf[root.To], input, ample, root.Val, true, allNames)
	runs := []map[string]interface{}{r1.fields(), run(ample)}
	used := ample - r1.Left
	if r1.Crash == "" && used > 1 {
		hh := fnv.New32a()
		fmt.Fprintf(hh, "g/%d/%d", seed, beh)
		g := uint64(hh.Sum32()) % used
		if hh.Sum32()%4 == 0 {
			g = used - 1
		}
		runs = append(runs, run(g), run(g))
	}
	var prog []map[string]interface{}
	root.actions(&prog)
	return engine.Fields{"run": true, "strict": true, "tree": root.String(), "prog": prog, "runs": runs}, nil
}

func fullBase(base map[string]map[string]int) map[string]map[string]int {
	out := map[string]map[string]int{}
	for _, c := range contractNames {
		out[c] = map[string]int{}
		for _, s := range slotNames {
			out[c][s] = base[c][s]
		}
	}
	return out
}

func (a *adapter) Close() { a.w.close() }

func init() {
	engine.Register("callframes", func() engine.Adapter {
		seed, _ := strconv.ParseInt(os.Getenv("VERIF_SEED"), 10, 64)
		return &adapter{w: &world{tag: "replay"}, seed: seed}
	})
}
