package callframes

import (
	"fmt"
	"math/big"
	"os"
	"path/filepath"
	"sort"
	"time"

	"github.com/LemoFoundationLtd/lemochain-core/chain/account"
	"github.com/LemoFoundationLtd/lemochain-core/chain/transaction"
	"github.com/LemoFoundationLtd/lemochain-core/chain/types"
	"github.com/LemoFoundationLtd/lemochain-core/chain/vm"
	"github.com/LemoFoundationLtd/lemochain-core/common"
	"github.com/LemoFoundationLtd/lemochain-core/common/crypto"
	"github.com/LemoFoundationLtd/lemochain-core/store"
	"github.com/LemoFoundationLtd/lemochain-core/store/protocol"
)

var (
	txHash        = common.HexToHash("0x7a11")
	minerAddr     = common.HexToAddress("0x0b1e000000000000000000000000000000000009")
	rewardManager = common.HexToAddress("0x0a5e000000000000000000000000000000000001") // = U, so precompile 9 is reachable
	initBal       = map[string]int{"U": 100, "A": 3, "B": 2, "C": 1}
)

// a real database is reopened every dbReuse base blocks
const dbReuse = 400

// world owns the real store; every program gets its own parentless base block holding the deployed code.
type world struct {
	tag   string
	dir   string
	db    protocol.ChainDB
	n     int
	lbase int // length of the short code images of the program deployed last (the tracer classifies jumps with it)
}

func (w *world) close() {
	if w.db != nil {
		w.db.Close()
		w.db = nil
	}
	if w.dir != "" {
		os.RemoveAll(w.dir)
	}
}

func (w *world) open() {
	w.close()
	root := os.Getenv("VERIF_SCRATCH_DIR")
	if root == "" {
		root = filepath.Join(os.TempDir(), fmt.Sprintf("verif_callframes_%d", os.Getpid()))
	}
	w.dir = filepath.Join(root, "callframesdb_"+w.tag)
	os.RemoveAll(w.dir)
	w.db = store.NewChainDataBase(w.dir)
}

// base commits a block in which every name of codeAt holds the given code, balances are initBal and the storage
// is baseStor (committed, i.e. in the storage trie); returns the hash to build account managers on.
func (w *world) base(codeAt map[string][]byte, baseStor map[string]map[string]int) (common.Hash, error) {
	return w.baseBal(codeAt, baseStor, nil)
}

// baseBal: like base with the balances of the spec's initial state.  An address of createdNames exists in the base
// block only when it holds funds there (a creation towards it collides); otherwise it is not touched at all.
func (w *world) baseBal(codeAt map[string][]byte, baseStor map[string]map[string]int, bal map[string]int) (common.Hash, error) {
	w.n++
	if w.db == nil || w.n%dbReuse == 0 {
		w.open()
	}
	if bal == nil {
		bal = initBal
	}
	am := account.NewManager(common.Hash{}, w.db)
	for _, n := range createdNames {
		if bal[n] > 0 {
			am.GetAccount(addrOf[n]).SetBalance(big.NewInt(int64(bal[n])))
		}
	}
	for _, n := range allNames {
		acc := am.GetAccount(addrOf[n])
		acc.SetBalance(big.NewInt(int64(bal[n])))
		if code, ok := codeAt[n]; ok && len(code) > 0 {
			acc.SetCode(append(types.Code(nil), code...))
		}
		for s, v := range baseStor[n] {
			if v != 0 {
				if err := acc.SetStorageState(slotKey(s), big.NewInt(int64(v)).Bytes()); err != nil {
					return common.Hash{}, err
				}
			}
		}
	}
	am.MergeChangeLogs()
	if err := am.Finalise(); err != nil {
		return common.Hash{}, fmt.Errorf("base finalise: %v", err)
	}
	blk := &types.Block{}
	// unique time => unique hash; nothing is ever made stable, so the base blocks do not see each other
	blk.SetHeader(&types.Header{Height: 0, Time: uint32(1538209751 + w.n), VersionRoot: am.GetVersionRoot()})
	h := blk.Hash()
	if err := w.db.SetBlock(h, blk); err != nil {
		return common.Hash{}, fmt.Errorf("base SetBlock: %v", err)
	}
	if err := am.Save(h); err != nil {
		return common.Hash{}, fmt.Errorf("base save: %v", err)
	}
	return h, nil
}

func smallInt(b *big.Int) int {
	if b == nil {
		return -3
	}
	if !b.IsInt64() || b.Int64() > 1<<30 || b.Int64() < 0 {
		return -2
	}
	return int(b.Int64())
}

func bytesInt(b []byte) int {
	if len(b) > 4 {
		return -2
	}
	return int(new(big.Int).SetBytes(b).Int64())
}

// project reads the observable state of the named accounts through the AccountAccessor getters, and the events the
// block would publish (AddEventLog entries of the change journal) split into contract logs and the platform's own
// failure / creation records.
func project(am *account.Manager, names []string) map[string]interface{} {
	o := map[string]interface{}{}
	for _, n := range names {
		acc := am.GetAccount(addrOf[n])
		r := map[string]interface{}{"bal": smallInt(acc.GetBalance()), "dead": acc.GetSuicide()}
		for _, s := range slotNames {
			if v, err := acc.GetStorageState(slotKey(s)); err != nil {
				r[s] = -1
			} else {
				r[s] = bytesInt(v)
			}
		}
		if code, err := acc.GetCode(); err != nil {
			r["code"] = "ERR"
		} else if len(code) > 0 {
			r["code"] = "y"
		} else {
			r["code"] = "n"
		}
		o[n] = r
	}
	nlog, nfail, ncreate := 0, 0, 0
	for _, l := range am.GetChangeLogs() {
		if l.LogType != account.AddEventLog {
			continue
		}
		e, _ := l.NewVal.(*types.Event)
		switch {
		case e != nil && len(e.Topics) == 1 && e.Topics[0] == types.TopicRunFail:
			nfail++
		case e != nil && len(e.Topics) == 1 && e.Topics[0] == types.TopicContractCreation:
			ncreate++
		default:
			nlog++
		}
	}
	o["nlog"], o["nfail"], o["ncreate"] = nlog, nfail, ncreate
	return o
}

func newEVM(am vm.AccountManager, tr vm.Tracer) *vm.EVM {
	ctx := vm.Context{
		CanTransfer:  transaction.CanTransfer,
		Transfer:     transaction.Transfer,
		GetHash:      func(uint32) common.Hash { return common.Hash{} },
		TxIndex:      0,
		TxHash:       txHash,
		BlockHash:    common.HexToHash("0xb10c"),
		Origin:       addrOf["U"],
		GasPrice:     big.NewInt(1),
		MinerAddress: minerAddr,
		GasLimit:     100000000,
		BlockHeight:  1,
		Time:         1538209751,
	}
	cfg := vm.Config{RewardManager: rewardManager}
	if tr != nil {
		cfg.Debug, cfg.Tracer = true, tr
	}
	return vm.NewEVM(ctx, am, cfg)
}

// ---- the frame-level tracer (vm.Config.Tracer, no hook needed)

type obsEvent map[string]interface{}

func mkEvent(t, k, to, ctx string, v int, s string, g, c uint64, d int, m string) obsEvent {
	gi, ci := int64(g), int64(c)
	if g > 1<<30 {
		gi = -2
	}
	if c > 1<<30 {
		ci = -2
	}
	return obsEvent{"t": t, "k": k, "to": to, "ctx": ctx, "v": v, "s": s, "g": gi, "c": ci, "d": d, "m": m, "rl": 0, "cf": false, "op": "", "x": false, "pc": -1}
}

func smallPC(pc uint64) int {
	if pc > 1<<30 {
		return -2
	}
	return int(pc)
}

// endEvent: the end of a frame; cf = it is a creation frame, rl = length of the data it returns (the code to deposit);
// op = the opcode it ended at, x = the opcode was being executed (an error: raised by the operation itself, not by the
// checks before it); cs = (creation frames that RETURN) the code store already holds the very bytes the frame returns as
// its code - a fact about the store, read from the store: the code of the new contract is then loadable by its hash
// whatever becomes of the account's own copy
func (t *frameTracer) endEvent(k, to, ctx string, g, c uint64, depth int, m string, rl int, op vm.OpCode, x bool, pc uint64) obsEvent {
	e := mkEvent("end", k, to, ctx, 0, "", g, c, depth-1, m)
	e["rl"], e["cf"], e["cs"] = rl, t.kindAt[depth] == "create", false
	e["op"], e["x"], e["pc"] = op.String(), x, smallPC(pc)
	return e
}

type frameTracer struct {
	evs      []obsEvent
	pend     map[int]bool
	fresh    map[int]bool   // a call was issued towards this depth and no op of the callee has been seen yet
	kindAt   map[int]string // "create" | "call": how the frame at this depth was entered
	maxDepth int
	nops     int
	full     bool // record the event list (tree programs); otherwise only depth / op count / touched accounts
	lbase    int  // length of the short code images (classification of jumps)
	stored   func(code []byte) bool // the code store holds these bytes (nil: not asked)
	touched  map[common.Address]map[common.Hash]bool
}

func (t *frameTracer) touch(a common.Address, keys ...common.Hash) {
	if t.touched == nil {
		t.touched = map[common.Address]map[common.Hash]bool{}
	}
	if t.touched[a] == nil {
		t.touched[a] = map[common.Hash]bool{}
	}
	for _, k := range keys {
		t.touched[a][k] = true
	}
}

func newTracer(full bool) *frameTracer {
	return &frameTracer{pend: map[int]bool{}, fresh: map[int]bool{}, kindAt: map[int]string{}, full: full}
}

func (t *frameTracer) CaptureStart(from, to common.Address, call bool, input []byte, gas uint64, value *big.Int) error {
	return nil
}
func (t *frameTracer) CaptureEnd(output []byte, gasUsed uint64, d time.Duration, err error) error {
	return nil
}

func (t *frameTracer) sync(depth int, gas uint64, stack *vm.Stack, ctx string) {
	if depth > t.maxDepth {
		t.maxDepth = depth
	}
	t.nops++
	if t.fresh[depth] {
		// first op of a callee: gas is what the frame really started with
		delete(t.fresh, depth)
		t.evs = append(t.evs, mkEvent("begin", "", "", ctx, 0, "", gas, 0, depth-1, ""))
	}
	if t.pend[depth] {
		delete(t.pend, depth)
		delete(t.fresh, depth+1)
		flag := 0
		if d := stack.Data(); len(d) > 0 && d[len(d)-1].Sign() != 0 {
			flag = 1
		}
		t.evs = append(t.evs, mkEvent("ret", "", "", "", flag, "", gas, 0, depth-1, ""))
	}
}

func (t *frameTracer) CaptureState(env *vm.EVM, pc uint64, op vm.OpCode, gas, cost uint64, memory *vm.Memory, stack *vm.Stack, contract *vm.Contract, depth int, err error) error {
	if !t.full {
		if depth > t.maxDepth {
			t.maxDepth = depth
		}
		t.nops++
		if err == nil {
			self := contract.GetAddress()
			switch {
			case op == vm.SSTORE:
				t.touch(self, common.BigToHash(stack.Back(0)))
			case op == vm.CALL || op == vm.CALLCODE || op == vm.DELEGATECALL || op == vm.STATICCALL:
				t.touch(self)
				t.touch(common.BigToAddress(stack.Back(1)))
			case op == vm.SELFDESTRUCT:
				t.touch(self)
				t.touch(common.BigToAddress(stack.Back(0)))
			case op == vm.CREATE:
				t.touch(self)
				t.touch(crypto.CreateContractAddress(self, txHash))
			case op >= vm.LOG0 && op <= vm.LOG4:
				t.touch(self)
			}
		}
		return nil
	}
	ctx := nameOfAddr(contract.GetAddress())
	t.sync(depth, gas, stack, ctx)
	d := depth - 1
	if err != nil {
		t.evs = append(t.evs, t.endEvent("err", "", ctx, gas, cost, depth, err.Error(), 0, op, false, pc))
		return nil
	}
	switch {
	case op == vm.JUMP:
		// a jump of one of the classified destinations: which shape of code runs (read off the code itself), where to
		if sh := shapeOfCode(contract.Code, t.lbase); sh >= 0 && stack.Back(0).IsUint64() {
			if dc := destClass(stack.Back(0).Uint64(), pc, t.lbase); dc != "" {
				e := mkEvent("jump", "", "", ctx, sh, dc, gas, cost, d, "")
				e["pc"] = smallPC(pc)
				t.evs = append(t.evs, e)
			}
		}
	case op == vm.SSTORE:
		t.evs = append(t.evs, mkEvent("sstore", "", "", ctx, smallInt(stack.Back(1)), nameOfSlot(common.BigToHash(stack.Back(0))), gas, cost, d, ""))
	case op >= vm.LOG0 && op <= vm.LOG4:
		t.evs = append(t.evs, mkEvent("log", "", "", ctx, 0, "", gas, cost, d, ""))
	case op == vm.CALL || op == vm.CALLCODE:
		t.pend[depth], t.fresh[depth+1], t.kindAt[depth+1] = true, true, "call"
		k := "call"
		if op == vm.CALLCODE {
			k = "callcode"
		}
		t.evs = append(t.evs, mkEvent("call", k, nameOfAddr(common.BigToAddress(stack.Back(1))), ctx, smallInt(stack.Back(2)), "", gas, cost, d, ""))
	case op == vm.DELEGATECALL || op == vm.STATICCALL:
		t.pend[depth], t.fresh[depth+1], t.kindAt[depth+1] = true, true, "call"
		k := "delegatecall"
		if op == vm.STATICCALL {
			k = "staticcall"
		}
		t.evs = append(t.evs, mkEvent("call", k, nameOfAddr(common.BigToAddress(stack.Back(1))), ctx, 0, "", gas, cost, d, ""))
	case op == vm.CREATE:
		t.pend[depth], t.fresh[depth+1], t.kindAt[depth+1] = true, true, "create"
		t.evs = append(t.evs, mkEvent("call", "create", nameOfAddr(crypto.CreateContractAddress(contract.GetAddress(), txHash)), ctx, smallInt(stack.Back(0)), "", gas, cost, d, ""))
	case op == vm.STOP:
		t.evs = append(t.evs, t.endEvent("stop", "", ctx, gas, cost, depth, "", 0, op, false, pc))
	case op == vm.RETURN:
		e := t.endEvent("stop", "", ctx, gas, cost, depth, "", smallInt(stack.Back(1)), op, false, pc)
		if off, n := stack.Back(0), stack.Back(1); t.kindAt[depth] == "create" && t.stored != nil && off.IsUint64() && n.IsUint64() && n.Uint64() > 0 && n.Uint64() <= maxCodeSize {
			buf := make([]byte, n.Uint64())
			if d := memory.Data(); off.Uint64() < uint64(len(d)) {
				copy(buf, d[off.Uint64():])
			}
			e["cs"] = t.stored(buf)
		}
		t.evs = append(t.evs, e)
	case op == vm.SELFDESTRUCT:
		t.evs = append(t.evs, t.endEvent("suicide", nameOfAddr(common.BigToAddress(stack.Back(0))), ctx, gas, cost, depth, "", 0, op, false, pc))
	}
	return nil
}

func (t *frameTracer) CaptureFault(env *vm.EVM, pc uint64, op vm.OpCode, gas, cost uint64, memory *vm.Memory, stack *vm.Stack, contract *vm.Contract, depth int, err error) error {
	if !t.full {
		return nil
	}
	ctx := nameOfAddr(contract.GetAddress())
	t.sync(depth, gas, stack, ctx)
	t.nops--
	if op == vm.REVERT {
		t.evs = append(t.evs, t.endEvent("revert", "", ctx, gas, cost, depth, "", 0, op, true, pc))
		return nil
	}
	msg := ""
	if err != nil {
		msg = err.Error()
	}
	t.evs = append(t.evs, t.endEvent("err", "", ctx, gas, cost, depth, msg, 0, op, true, pc))
	return nil
}

// runResult is what one execution of the real EVM showed.
type runResult struct {
	Gas    uint64
	Left   uint64
	Status string // ok | revert | fail:<msg>
	Crash  string // panic message of the code under test, "" if none
	Obs    []obsEvent
	MaxD   int // deepest frame, the transaction-level frame being 0
	Nops   int
	Fin    map[string]interface{}
	RetLen int
}

func (r *runResult) fields() map[string]interface{} {
	obs := r.Obs
	if obs == nil {
		obs = []obsEvent{}
	}
	return map[string]interface{}{"gas": gasField(r.Gas), "left": gasField(r.Left), "st": r.Status, "crash": r.Crash,
		"obs": obs, "maxd": r.MaxD, "fin": r.Fin, "nops": r.Nops}
}

// gasField keeps gas amounts inside TLC's 32-bit integers: [high, low] in base 2^30.
func gasField(g uint64) []int64 { return []int64{int64(g >> 30), int64(g & (1<<30 - 1))} }

// call runs one transaction-level evm.Call on a fresh manager over the given base block.
func (w *world) call(base common.Hash, to common.Address, input []byte, gas uint64, value int, full bool, names []string) (res *runResult) {
	return w.exec(base, "call", to, input, gas, value, full, names)
}

// exec runs one transaction-level evm.Call (kind "call": input = call data) or evm.Create (kind "create": input = init
// code, to = the address the sender creates) on a fresh manager over the given base block.
func (w *world) exec(base common.Hash, kind string, to common.Address, input []byte, gas uint64, value int, full bool, names []string) (res *runResult) {
	am := account.NewManager(base, w.db)
	tr := newTracer(full)
	tr.lbase = w.lbase
	tr.stored = func(code []byte) bool {
		c, err := w.db.GetContractCode(crypto.Keccak256Hash(code))
		return err == nil && len(c) > 0
	}
	evm := newEVM(am, tr)
	res = &runResult{Gas: gas}
	toName := nameOfAddr(to)
	if full {
		tr.evs = append(tr.evs, mkEvent("call", kind, toName, "U", value, "", gas, 0, -1, ""))
		tr.fresh[1], tr.kindAt[1] = true, kind
	}
	func() {
		defer func() {
			if r := recover(); r != nil {
				res.Crash = fmt.Sprint(r)
			}
		}()
		var ret []byte
		var left uint64
		var err error
		if kind == "create" {
			ret, _, left, err = evm.Create(am.GetAccount(addrOf["U"]), input, gas, big.NewInt(int64(value)))
		} else {
			ret, left, err = evm.Call(am.GetAccount(addrOf["U"]), to, input, gas, big.NewInt(int64(value)))
		}
		res.Left, res.RetLen = left, len(ret)
		switch {
		case err == nil:
			res.Status = "ok"
		case err.Error() == "evm: execution reverted":
			res.Status = "revert"
		default:
			res.Status = "fail:" + err.Error()
		}
	}()
	if full && res.Crash == "" {
		flag := 0
		if res.Status == "ok" {
			flag = 1
		}
		tr.evs = append(tr.evs, mkEvent("ret", "", "", "", flag, "", res.Left, 0, -1, ""))
	}
	res.Obs, res.MaxD, res.Nops = tr.evs, tr.maxDepth-1, tr.nops
	if res.Crash == "" {
		res.Fin = project(am, names)
	} else {
		res.Fin = map[string]interface{}{}
	}
	return res
}

// ---- arbitrary programs: accounts are observed by address, over everything the run touched

type touchSet map[common.Address]map[common.Hash]bool

func (ts touchSet) add(a common.Address, keys ...common.Hash) {
	if ts[a] == nil {
		ts[a] = map[common.Hash]bool{}
	}
	for _, k := range keys {
		ts[a][k] = true
	}
}

// projectRaw reads balance, code size, suicide flag and the touched storage slots of the touched accounts.
func projectRaw(am *account.Manager, ts touchSet) map[string]interface{} {
	var addrs []string
	byHex := map[string]common.Address{}
	for a := range ts {
		addrs = append(addrs, a.Hex())
		byHex[a.Hex()] = a
	}
	sort.Strings(addrs)
	acc := []interface{}{}
	for _, h := range addrs {
		a := byHex[h]
		ac := am.GetAccount(a)
		var keys []string
		for k := range ts[a] {
			keys = append(keys, k.Hex())
		}
		sort.Strings(keys)
		st := []interface{}{}
		for _, k := range keys {
			v, err := ac.GetStorageState(common.HexToHash(k))
			if err != nil {
				st = append(st, []string{k, "ERR"})
			} else {
				st = append(st, []string{k, fmt.Sprintf("%x", v)})
			}
		}
		code, cerr := ac.GetCode()
		cl := fmt.Sprint(len(code))
		if cerr != nil {
			cl = "ERR"
		}
		acc = append(acc, map[string]interface{}{"a": h, "bal": ac.GetBalance().String(), "code": cl, "dead": ac.GetSuicide(), "st": st})
	}
	o := project(am, nil)
	o["acc"] = acc
	return o
}

// callRaw runs one transaction-level call (or create, when to == nil) of arbitrary code on a fresh manager.
func (w *world) callRaw(base common.Hash, to *common.Address, input []byte, gas uint64, value int, ts touchSet) (*runResult, touchSet) {
	am := account.NewManager(base, w.db)
	tr := newTracer(false)
	evm := newEVM(am, tr)
	res := &runResult{Gas: gas}
	func() {
		defer func() {
			if r := recover(); r != nil {
				res.Crash = fmt.Sprint(r)
				if len(res.Crash) > 300 {
					res.Crash = res.Crash[:300]
				}
			}
		}()
		var ret []byte
		var left uint64
		var err error
		if to == nil {
			ret, _, left, err = evm.Create(am.GetAccount(addrOf["U"]), input, gas, big.NewInt(int64(value)))
		} else {
			ret, left, err = evm.Call(am.GetAccount(addrOf["U"]), *to, input, gas, big.NewInt(int64(value)))
		}
		res.Left, res.RetLen = left, len(ret)
		switch {
		case err == nil:
			res.Status = "ok"
		case err.Error() == "evm: execution reverted":
			res.Status = "revert"
		default:
			res.Status = "fail:" + err.Error()
		}
	}()
	res.MaxD, res.Nops = tr.maxDepth-1, tr.nops
	if res.MaxD < 0 {
		res.MaxD = 0
	}
	if ts == nil {
		ts = touchSet{}
		for a, ks := range tr.touched {
			for k := range ks {
				ts.add(a, k)
			}
			ts.add(a)
		}
		for _, n := range allNames {
			ts.add(addrOf[n], slotKey("s1"), slotKey("s2"))
		}
		ts.add(common.HexToAddress("0x09"), common.HexToAddress("0x09").Hash())
		if to == nil {
			ts.add(crypto.CreateContractAddress(addrOf["U"], txHash))
		} else {
			ts.add(*to)
		}
	}
	if res.Crash == "" {
		res.Fin = projectRaw(am, ts)
	} else {
		res.Fin = map[string]interface{}{}
	}
	return res, ts
}

// pre is the projection of the untouched base state over the same accounts.
func (w *world) pre(base common.Hash, ts touchSet) map[string]interface{} {
	return projectRaw(account.NewManager(base, w.db), ts)
}
