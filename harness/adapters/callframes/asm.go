package callframes

import (
	"fmt"
	"math/big"
)

// A tiny EVM assembler: opcodes, minimal-width PUSH, and 2-byte label references.
const (
	opSTOP         = 0x00
	opLT           = 0x10
	opEQ           = 0x14
	opBYTE         = 0x1a
	opCALLDATALOAD = 0x35
	opCODESIZE     = 0x38
	opCODECOPY     = 0x39
	opPOP          = 0x50
	opMSTORE       = 0x52
	opMSTORE8      = 0x53
	opSLOAD        = 0x54
	opSSTORE       = 0x55
	opJUMP         = 0x56
	opJUMPI        = 0x57
	opGAS          = 0x5a
	opJUMPDEST     = 0x5b
	opPUSH1        = 0x60
	opDUP1         = 0x80
	opLOG0         = 0xa0
	opCREATE       = 0xf0
	opCALL         = 0xf1
	opCALLCODE     = 0xf2
	opRETURN       = 0xf3
	opDELEGATECALL = 0xf4
	opSTATICCALL   = 0xfa
	opREVERT       = 0xfd
	opINVALID      = 0xfe
	opSELFDESTRUCT = 0xff
)

type fixup struct {
	pos   int
	label string
}

type asm struct {
	buf    []byte
	fix    []fixup
	labels map[string]int
}

func newAsm() *asm { return &asm{labels: map[string]int{}} }

func (a *asm) op(b ...byte) *asm { a.buf = append(a.buf, b...); return a }

// push emits the shortest PUSHn holding v (PUSH1 0 for zero).
func (a *asm) push(v uint64) *asm {
	b := new(big.Int).SetUint64(v).Bytes()
	if len(b) == 0 {
		b = []byte{0}
	}
	return a.pushBytes(b)
}

func (a *asm) pushBytes(b []byte) *asm {
	if len(b) == 0 || len(b) > 32 {
		panic(fmt.Sprintf("pushBytes: %d bytes", len(b)))
	}
	a.buf = append(a.buf, byte(opPUSH1+len(b)-1))
	a.buf = append(a.buf, b...)
	return a
}

// pushLabel emits PUSH2 <position of label>, resolved by bytes().
func (a *asm) pushLabel(l string) *asm {
	a.buf = append(a.buf, opPUSH1+1, 0, 0)
	a.fix = append(a.fix, fixup{len(a.buf) - 2, l})
	return a
}

// dest marks the label at the current position and emits JUMPDEST.
func (a *asm) dest(l string) *asm {
	a.labels[l] = len(a.buf)
	a.buf = append(a.buf, opJUMPDEST)
	return a
}

// mark records the label at the current position without emitting anything (data sections).
func (a *asm) mark(l string) *asm { a.labels[l] = len(a.buf); return a }

func (a *asm) bytes() []byte {
	out := append([]byte(nil), a.buf...)
	for _, f := range a.fix {
		p, ok := a.labels[f.label]
		if !ok {
			panic("asm: undefined label " + f.label)
		}
		if p > 0xffff {
			panic("asm: code too large")
		}
		out[f.pos], out[f.pos+1] = byte(p>>8), byte(p)
	}
	return out
}
