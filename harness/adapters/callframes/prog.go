package callframes

import (
	"fmt"

	"github.com/LemoFoundationLtd/lemochain-core/common"
)

// ---- the fixed universe: abstract names <-> real addresses
var (
	addrOf = map[string]common.Address{
		"U": common.HexToAddress("0x0a5e000000000000000000000000000000000001"), // the transaction sender
		"A": common.HexToAddress("0xc0de00000000000000000000000000000000000a"),
		"B": common.HexToAddress("0xc0de00000000000000000000000000000000000b"),
		"C": common.HexToAddress("0xc0de00000000000000000000000000000000000c"),
	}
	contractNames = []string{"A", "B", "C"}
	allNames      = []string{"U", "A", "B", "C"}
	slotNames     = []string{"s1", "s2"}
)

func slotKey(name string) common.Hash {
	switch name {
	case "s1":
		return common.HexToHash("0x01")
	case "s2":
		return common.HexToHash("0x02")
	}
	panic("unknown slot " + name)
}

func nameOfAddr(a common.Address) string {
	for n, v := range addrOf {
		if v == a {
			return n
		}
	}
	return a.Hex()
}

func nameOfSlot(h common.Hash) string {
	for _, n := range slotNames {
		if slotKey(n) == h {
			return n
		}
	}
	return h.Hex()
}

// Item is one step of a frame's program.
type Item struct {
	Op    string // "sstore" | "log" | "call"
	Slot  string
	Val   int
	Child *Node
}

// Node is one call frame of a program tree: how it is entered, what it does, how it ends.
type Node struct {
	ID     int
	Kind   string // call | callcode | delegatecall | staticcall
	To     string // name of the account whose code runs
	Val    int    // value sent (call, callcode)
	Items  []*Item
	End    string // ok | revert | fail | suicide      ("" while under construction)
	Benef  string // beneficiary of a suicide
	Flavor string // concrete way to fail: invalid | oog | underflow | badjump | wp_sstore | wp_log | wp_suicide | wp_call
	gas    uint64 // gas the parent asks for (ample plan)
}

func (n *Node) count() int {
	c := 1
	for _, it := range n.Items {
		if it.Child != nil {
			c += it.Child.count()
		}
	}
	return c
}

func (n *Node) walk(f func(*Node)) {
	f(n)
	for _, it := range n.Items {
		if it.Child != nil {
			it.Child.walk(f)
		}
	}
}

// plan computes an ample gas budget bottom-up: every frame is asked for explicitly (PUSH3 gas) so that a child
// that burns all its gas cannot starve its parent, and the 63/64 cap never bites in the ample run.
func (n *Node) plan() uint64 {
	need := uint64(3000)
	for _, it := range n.Items {
		switch it.Op {
		case "sstore":
			need += 20100
		case "log":
			need += 500
		case "call":
			cg := it.Child.plan()
			need += 40000 + cg + cg/32 + 64
		}
	}
	if n.End == "suicide" {
		need += 40000
	}
	if n.End == "fail" {
		need += 40000 // the write-protection flavours push call arguments first
	}
	n.gas = need
	return need
}

func callOp(kind string) byte {
	switch kind {
	case "call":
		return opCALL
	case "callcode":
		return opCALLCODE
	case "delegatecall":
		return opDELEGATECALL
	case "staticcall":
		return opSTATICCALL
	}
	panic("unknown call kind " + kind)
}

// emitCall: the child's node id travels as one byte of call data.
func emitCall(a *asm, kind string, to common.Address, val int, id int, gas uint64) {
	a.push(uint64(id)).push(0).op(opMSTORE8) // mem[0] = id
	a.push(0).push(0).push(1).push(0)        // retSize retOff inSize inOff
	if kind == "call" || kind == "callcode" {
		a.push(uint64(val))
	}
	a.pushBytes(to.Bytes())
	if gas == 0 {
		a.op(opGAS)
	} else {
		a.push(gas)
	}
	a.op(callOp(kind))
	a.op(opPOP) // the success flag (the tracer reads it from the stack of this POP)
}

func emitBody(a *asm, n *Node) {
	for _, it := range n.Items {
		switch it.Op {
		case "sstore":
			a.push(uint64(it.Val)).pushBytes(slotKey(it.Slot).Big().Bytes()).op(opSSTORE)
		case "log":
			a.push(0).push(0).op(opLOG0)
		case "call":
			c := it.Child
			emitCall(a, c.Kind, addrOf[c.To], c.Val, c.ID, c.gas)
		default:
			panic("unknown item " + it.Op)
		}
	}
	switch n.End {
	case "ok", "":
		a.op(opSTOP)
	case "revert":
		a.push(0).push(0).op(opREVERT)
	case "suicide":
		a.pushBytes(addrOf[n.Benef].Bytes()).op(opSELFDESTRUCT)
	case "fail":
		switch n.Flavor {
		case "invalid":
			a.op(opINVALID)
		case "oog":
			a.push(0).pushBytes([]byte{0xff, 0xff, 0xff, 0xff}).op(opMSTORE)
		case "underflow":
			a.op(opPOP)
		case "badjump":
			a.push(1).op(opJUMP)
		case "wp_sstore":
			a.push(1).push(1).op(opSSTORE)
		case "wp_log":
			a.push(0).push(0).op(opLOG0)
		case "wp_suicide":
			a.pushBytes(addrOf["U"].Bytes()).op(opSELFDESTRUCT)
		case "wp_call":
			emitCall(a, "call", addrOf["B"], 1, 0, 30000)
		default:
			panic("unknown failure flavour " + n.Flavor)
		}
		a.op(opSTOP) // never reached
	default:
		panic("unknown end " + n.End)
	}
}

// compile builds the one code image every contract of the universe holds: a dispatcher on the first byte of the
// call data (the node id) followed by the body of every node of the tree.
func compile(root *Node) []byte {
	a := newAsm()
	a.push(0).op(opCALLDATALOAD).push(0).op(opBYTE) // id
	root.walk(func(n *Node) {
		a.op(opDUP1).push(uint64(n.ID)).op(opEQ).pushLabel(fmt.Sprintf("n%d", n.ID)).op(opJUMPI)
	})
	a.op(opSTOP)
	root.walk(func(n *Node) {
		a.dest(fmt.Sprintf("n%d", n.ID)).op(opPOP)
		emitBody(a, n)
	})
	return a.bytes()
}

// actions lists the tree in execution order in the vocabulary of the spec (what the generator prescribed).
func (n *Node) actions(out *[]map[string]interface{}) {
	*out = append(*out, map[string]interface{}{"t": "enter", "k": n.Kind, "to": n.To, "v": n.Val, "s": ""})
	for _, it := range n.Items {
		switch it.Op {
		case "sstore":
			*out = append(*out, map[string]interface{}{"t": "sstore", "k": "", "to": "", "v": it.Val, "s": it.Slot})
		case "log":
			*out = append(*out, map[string]interface{}{"t": "log", "k": "", "to": "", "v": 0, "s": ""})
		case "call":
			it.Child.actions(out)
		}
	}
	*out = append(*out, map[string]interface{}{"t": "exit", "k": n.End, "to": n.Benef, "v": 0, "s": ""})
}
