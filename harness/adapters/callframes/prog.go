package callframes

import (
	"fmt"

	"github.com/LemoFoundationLtd/lemochain-core/common"
	"github.com/LemoFoundationLtd/lemochain-core/common/crypto"
)

// ---- the fixed universe: abstract names <-> real addresses
var (
	addrOf = map[string]common.Address{
		"U": common.HexToAddress("0x0a5e000000000000000000000000000000000001"), // the transaction sender
		"A": common.HexToAddress("0xc0de00000000000000000000000000000000000a"),
		"B": common.HexToAddress("0xc0de00000000000000000000000000000000000b"),
		"C": common.HexToAddress("0xc0de00000000000000000000000000000000000c"),
	}
	contractNames = []string{"A", "B", "C"}
	allNames      = []string{"U", "A", "B", "C"}
	slotNames     = []string{"s1", "s2"}
	// the one address every account of the universe can create in the transaction (New(a) of the spec)
	createdNames = []string{"nU", "nA", "nB", "nC"}
	obsNames     = []string{"U", "A", "B", "C", "nU", "nA", "nB", "nC"}
	codeNames    = []string{"A", "B", "C", "nU", "nA", "nB", "nC"}
	// the modexp precompile: a read-only call to it with an absurd length header burns the gas passed on and touches
	// nothing (the gas burner of the "nodeposit" init code)
	addrP5 = common.BytesToAddress([]byte{5})
)

func init() {
	for _, n := range allNames {
		addrOf["n"+n] = crypto.CreateContractAddress(addrOf[n], txHash)
	}
}

func slotKey(name string) common.Hash {
	switch name {
	case "s1":
		return common.HexToHash("0x01")
	case "s2":
		return common.HexToHash("0x02")
	}
	panic("unknown slot " + name)
}

func nameOfAddr(a common.Address) string {
	for n, v := range addrOf {
		if v == a {
			return n
		}
	}
	if a == addrP5 {
		return "P5"
	}
	return a.Hex()
}

func nameOfSlot(h common.Hash) string {
	for _, n := range slotNames {
		if slotKey(n) == h {
			return n
		}
	}
	return h.Hex()
}

// Item is one step of a frame's program.
type Item struct {
	Op    string // "sstore" | "log" | "call" (any frame kind, also a creation) | "collide" (a creation that is refused) | "jump" (Slot = destination class)
	Slot  string
	Val   int
	Child *Node
}

// Node is one frame of a program tree: how it is entered, what it does, how it ends.
type Node struct {
	ID     int
	Kind   string // call | callcode | delegatecall | staticcall | create
	To     string // name of the account whose code runs (create: the new address)
	Val    int    // value sent (call, callcode, create)
	Items  []*Item
	End    string // ok | revert | fail | suicide | toobig | nodeposit (the last two: creation frames)   ("" while under construction)
	Benef  string // beneficiary of a suicide
	Flavor string // concrete way to fail: invalid | oog | underflow | badjump | wp_sstore | wp_log | wp_suicide | wp_call | wp_create | jump:<destination class> (BadJump of the spec)
	gas    uint64 // gas the parent asks for (ample plan)
}

func (n *Node) count() int {
	c := 1
	for _, it := range n.Items {
		if it.Child != nil {
			c += it.Child.count()
		}
	}
	return c
}

func (n *Node) walk(f func(*Node)) {
	f(n)
	for _, it := range n.Items {
		if it.Child != nil {
			it.Child.walk(f)
		}
	}
}

// the platform's rules for the code deposit (params.MaxCodeSize, params.CreateDataGas)
const (
	maxCodeSize   = 24576
	createDataGas = 200
	noDepositLen  = 1000   // code length the "nodeposit" init code returns ...
	noDepositGas  = 100000 // ... after it has burnt its gas down below this: 1000 * 200 > 100000
)

func memCost(bytes uint64) uint64 {
	w := bytes/32 + 1
	return 3*w + w*w/512
}

// burns: a creation frame that (in the ample run) ends with all the gas passed on gone - and CREATE passes on all but 1/64
func (n *Node) burns() bool {
	return n.Kind == "create" && (n.End == "fail" || n.End == "toobig" || n.End == "nodeposit")
}

// plan computes an ample gas budget bottom-up: every called frame is asked for explicitly (PUSH4 gas) so that a child
// that burns all its gas cannot starve its parent, and the 63/64 cap never bites in the ample run.  CREATE takes no gas
// operand: the child gets all but 1/64 of what the parent holds, so the parent must hold 64 times what it still needs
// afterwards when the child burns everything.  L = length of the code image (the deposit of a creation that succeeds).
func (n *Node) plan(L uint64) uint64 {
	need := uint64(3000)
	switch n.End {
	case "suicide":
		need += 40000
	case "fail":
		need += 40000 // the write-protection flavours push call arguments first
	case "ok":
		if n.Kind == "create" && n.Flavor == "max" {
			need += createDataGas*maxCodeSize + 2*memCost(maxCodeSize) + 500
		} else if n.Kind == "create" {
			need += createDataGas*L + 2*memCost(L) + 500
		}
	case "toobig":
		need += 2*memCost(maxCodeSize+1) + 200
	case "nodeposit":
		need += 8000
	}
	for i := len(n.Items) - 1; i >= 0; i-- {
		it := n.Items[i]
		switch it.Op {
		case "sstore":
			need += 20100
		case "log":
			need += 500
		case "jump":
			need += 100
		case "collide":
			need = 64*need + 64 + 33000 + 2*memCost(L) + 1000
		case "call":
			c := it.Child
			cg := c.plan(L)
			if c.Kind == "create" {
				a := cg + cg/63 + 64 + need
				if c.burns() {
					if b := 64*need + 64; b > a {
						a = b
					}
				}
				need = a + 33000 + 2*memCost(L) + 1000
			} else {
				need += 40000 + cg + cg/32 + 64
			}
		}
	}
	n.gas = need
	return need
}

func callOp(kind string) byte {
	switch kind {
	case "call":
		return opCALL
	case "callcode":
		return opCALLCODE
	case "delegatecall":
		return opDELEGATECALL
	case "staticcall":
		return opSTATICCALL
	}
	panic("unknown call kind " + kind)
}

// push4 emits PUSH4 v: gas operands have a fixed width so that the length of the image does not depend on the plan.
func (a *asm) push4(v uint64) *asm {
	if v > 0xffffffff {
		v = 0xffffffff
	}
	return a.pushBytes([]byte{byte(v >> 24), byte(v >> 16), byte(v >> 8), byte(v)})
}

// emitCall: the child's node id travels as one byte of call data.
func emitCall(a *asm, kind string, to common.Address, val int, id int, gas uint64) {
	a.push(uint64(id)).push(0).op(opMSTORE8) // mem[0] = id
	a.push(0).push(0).push(1).push(0)        // retSize retOff inSize inOff
	if kind == "call" || kind == "callcode" {
		a.push(uint64(val))
	}
	a.pushBytes(to.Bytes())
	a.push4(gas)
	a.op(callOp(kind))
	a.op(opPOP) // the success flag (the tracer reads it from the stack of this POP)
}

// The code image starts with a header of 6 bytes that puts the node id on the stack: the RUNTIME header reads it from
// the call data, the INIT header (a creation has no call data) pushes it.
const headerLen = 6

// CODE SHAPES (CallFramesOps.tla).  The images of one tree differ per shape where it matters for a jump and nowhere else:
//
//	[0,6)    header
//	[6,10)   PUSH2 disp; JUMP
//	[10,19)  nSlots marked slots of 3 bytes: in the shape whose slot it is  PUSH1 0x5b; POP  (the 0x5b at the marked offset is
//	         PUSH data), in every other shape  JUMPDEST; JUMPDEST; JUMP  (the marked offset is a JUMPDEST: a trampoline that
//	         jumps on to the address below it on the stack)
//	disp:    dispatcher, bodies                                  (identical layout in every shape)
//	[lbase, lbase+66)  long shapes only: 64 x STOP, then the far trampoline  JUMPDEST; JUMP
//
// shape = slot + nSlots * long.  Destination classes: "next" (the byte behind the JUMP), "s<i>" (marked offset i),
// "far" (lbase+64: the far trampoline of the long shapes, behind the end of the short ones).
const (
	nSlots    = 3
	regionOff = headerLen + 4
	tailPad   = 64
	tailLen   = tailPad + 2
)

var jumpDests = []string{"next", "far", "s0", "s1", "s2"}

func shapeLong(sh int) bool { return sh >= nSlots }

// jumpValid: the destination is a JUMPDEST instruction of code of this shape (the generator's knowledge of the programs
// it writes, JumpValid of the spec; the verdict on what the real EVM does with the jump is TLC's)
func jumpValid(sh int, d string) bool {
	switch d {
	case "next":
		return true
	case "far":
		return shapeLong(sh)
	}
	return d != fmt.Sprintf("s%d", sh%nSlots)
}

var (
	slotOwn   = []byte{opPUSH1, opJUMPDEST, opPOP}
	slotOther = []byte{opJUMPDEST, opJUMPDEST, opJUMP}
)

// shapeOfCode reads the shape off a code image (-1: not an image of this layout); lbase = length of the short shapes.
func shapeOfCode(code []byte, lbase int) int {
	long := 0
	switch len(code) {
	case lbase:
	case lbase + tailLen:
		long = nSlots
	default:
		return -1
	}
	if lbase < regionOff+3*nSlots || code[headerLen] != opPUSH1+1 || code[headerLen+3] != opJUMP {
		return -1
	}
	own := -1
	for i := 0; i < nSlots; i++ {
		switch code[regionOff+3*i] {
		case opPUSH1:
			if own >= 0 {
				return -1
			}
			own = i
		case opJUMPDEST:
		default:
			return -1
		}
	}
	if own < 0 {
		return -1
	}
	return own + long
}

// destClass: the class of the destination dest of a JUMP at pc ("": none of the classified ones)
func destClass(dest, pc uint64, lbase int) string {
	switch {
	case dest == pc+1:
		return "next"
	case dest == uint64(lbase+tailPad):
		return "far"
	}
	for i := 0; i < nSlots; i++ {
		if dest == uint64(regionOff+3*i+1) {
			return fmt.Sprintf("s%d", i)
		}
	}
	return ""
}

// emitJump: a jump towards the destination class d.  "next": PUSH2 L; JUMP; L: JUMPDEST.  The others are trampolines
// that jump on to the address below: PUSH2 L; PUSH2 <dest>; JUMP; L: JUMPDEST.
func emitJump(a *asm, d string) {
	cont := fmt.Sprintf("jc%d", len(a.buf))
	a.pushLabel(cont)
	if d != "next" {
		a.pushLabel(d)
	}
	a.op(opJUMP)
	a.dest(cont)
}

func runtimeHeader() []byte { return []byte{opPUSH1, 0, opCALLDATALOAD, opPUSH1, 0, opBYTE} }
func initHeader(id int) []byte {
	return []byte{opPUSH1, byte(id), opJUMPDEST, opJUMPDEST, opJUMPDEST, opJUMPDEST}
}

// initCode: the image as init code of the creation node id
func initCode(image []byte, id int) []byte {
	out := append([]byte(nil), image...)
	copy(out, initHeader(id))
	return out
}

// emitImageToMemory: mem[0..CODESIZE) = the running code with the given header
func emitImageToMemory(a *asm, header []byte) {
	a.op(opCODESIZE).push(0).push(0).op(opCODECOPY)
	for i, b := range header {
		a.push(uint64(b)).push(uint64(i)).op(opMSTORE8)
	}
}

// emitCreate: CREATE with the image (init header of the child) as init code.  The running image has shape own, the init
// code gets shape sh: the copy is re-shaped in memory (the marked slot of the own shape becomes a trampoline, the one of
// the new shape PUSH data; the far trampoline is written behind the short image - the memory in between is zero = STOP)
// and handed over with the length of the new shape.  (Same code length whatever the shapes: one layout for all images.)
func emitCreate(a *asm, val int, id int, own, sh int) {
	emitImageToMemory(a, initHeader(id))
	for i, b := range slotOther {
		a.push(uint64(b)).push(uint64(regionOff + 3*(own%nSlots) + i)).op(opMSTORE8)
	}
	for i, b := range slotOwn {
		a.push(uint64(b)).push(uint64(regionOff + 3*(sh%nSlots) + i)).op(opMSTORE8)
	}
	a.push(opJUMPDEST).pushLabel("far").op(opMSTORE8)
	a.push(opJUMP).pushLabel("far1").op(opMSTORE8)
	if shapeLong(sh) {
		a.pushLabel("len_long")
	} else {
		a.pushLabel("len_short")
	}
	a.push(0).push(uint64(val)).op(opCREATE)
	a.op(opPOP) // the new address or 0 (the tracer reads it from the stack of this POP)
}

// emitBody: the body of node n inside the image of shape own; shapeOf = the shape of the code every address holds / is
// created with.
func emitBody(a *asm, n *Node, own int, shapeOf map[string]int) {
	for _, it := range n.Items {
		switch it.Op {
		case "sstore":
			a.push(uint64(it.Val)).pushBytes(slotKey(it.Slot).Big().Bytes()).op(opSSTORE)
		case "log":
			a.push(0).push(0).op(opLOG0)
		case "jump":
			emitJump(a, it.Slot)
		case "collide":
			emitCreate(a, it.Val, 0, own, own) // (refused before the init code runs)
		case "call":
			c := it.Child
			if c.Kind == "create" {
				emitCreate(a, c.Val, c.ID, own, shapeOf[c.To])
			} else {
				emitCall(a, c.Kind, addrOf[c.To], c.Val, c.ID, c.gas)
			}
		default:
			panic("unknown item " + it.Op)
		}
	}
	switch n.End {
	case "ok", "":
		if n.Kind == "create" && n.Flavor == "max" { // the longest code the platform stores (nobody calls it: see maxFlavour)
			a.push(maxCodeSize).push(0).op(opRETURN)
		} else if n.Kind == "create" { // the init code returns the image: the new contract is one more dispatcher
			emitImageToMemory(a, runtimeHeader())
			a.op(opCODESIZE).push(0).op(opRETURN)
		} else {
			a.op(opSTOP)
		}
	case "revert":
		a.push(0).push(0).op(opREVERT)
	case "suicide":
		a.pushBytes(addrOf[n.Benef].Bytes()).op(opSELFDESTRUCT)
	case "toobig": // one byte more than the platform stores
		a.push(maxCodeSize + 1).push(0).op(opRETURN)
	case "nodeposit":
		// burn the gas down below noDepositGas (read-only calls to the modexp precompile whose length header asks for
		// more gas than there is: all the gas passed on - 63/64 - is gone, nothing else happens), then return code
		// whose deposit costs more than that
		loop, done := fmt.Sprintf("nd%d_loop", n.ID), fmt.Sprintf("nd%d_done", n.ID)
		hdr := make([]byte, 32)
		hdr[0] = 0x80
		a.pushBytes(hdr).push(0).op(opMSTORE)
		a.dest(loop).push(noDepositGas).op(opGAS).op(opLT).pushLabel(done).op(opJUMPI)
		a.push(0).push(0).push(96).push(0).push(5).push4(0xffffffff).op(opSTATICCALL).op(opPOP)
		a.pushLabel(loop).op(opJUMP)
		a.dest(done).push(noDepositLen).push(0).op(opRETURN)
	case "fail":
		switch n.Flavor {
		case "invalid":
			a.op(opINVALID)
		case "oog":
			a.push(0).pushBytes([]byte{0xff, 0xff, 0xff, 0xff}).op(opMSTORE)
		case "underflow":
			a.op(opPOP)
		case "badjump":
			a.push(1).op(opJUMP)
		case "wp_sstore":
			a.push(1).push(1).op(opSSTORE)
		case "wp_log":
			a.push(0).push(0).op(opLOG0)
		case "wp_suicide":
			a.pushBytes(addrOf["U"].Bytes()).op(opSELFDESTRUCT)
		case "wp_call":
			emitCall(a, "call", addrOf["B"], 1, 0, 30000)
		case "wp_create":
			a.push(0).push(0).push(0).op(opCREATE)
		default:
			if len(n.Flavor) > 5 && n.Flavor[:5] == "jump:" { // a jump to what is no JUMPDEST of the code this frame runs
				emitJump(a, n.Flavor[5:])
				break
			}
			panic("unknown failure flavour " + n.Flavor)
		}
		a.op(opSTOP) // never reached
	default:
		panic("unknown end " + n.End)
	}
}

// maxFlavour: a creation that succeeds may, instead of the image, return code of exactly the maximal size - when no
// frame of the tree runs the code of the new contract.
func maxFlavour(root *Node, choose func(*Node) bool) {
	runs := map[string]bool{}
	root.walk(func(n *Node) {
		if n.Kind != "create" {
			runs[n.To] = true
		}
	})
	root.walk(func(n *Node) {
		if n.Kind == "create" && n.End == "ok" && !runs[n.To] && choose(n) {
			n.Flavor = "max"
		}
	})
}

// compile builds the code image of one shape: the header (node id from the first byte of the call data), the marked
// slots, a dispatcher on the id, the body of every node of the tree, the tail of the long shapes.
func compile(root *Node, shape int, shapeOf map[string]int) []byte {
	a := newAsm()
	a.op(runtimeHeader()...)
	a.pushLabel("disp").op(opJUMP)
	for i := 0; i < nSlots; i++ {
		a.labels[fmt.Sprintf("s%d", i)] = len(a.buf) + 1
		if i == shape%nSlots {
			a.op(slotOwn...)
		} else {
			a.op(slotOther...)
		}
	}
	a.dest("disp")
	root.walk(func(n *Node) {
		a.op(opDUP1).push(uint64(n.ID)).op(opEQ).pushLabel(fmt.Sprintf("n%d", n.ID)).op(opJUMPI)
	})
	a.op(opSTOP)
	root.walk(func(n *Node) {
		a.dest(fmt.Sprintf("n%d", n.ID)).op(opPOP)
		emitBody(a, n, shape, shapeOf)
	})
	lbase := len(a.buf)
	a.labels["len_short"], a.labels["len_long"] = lbase, lbase+tailLen
	a.labels["far"], a.labels["far1"] = lbase+tailPad, lbase+tailPad+1
	if shapeLong(shape) {
		a.op(make([]byte, tailPad)...)
		a.op(opJUMPDEST, opJUMP)
	}
	return a.bytes()
}

// build: plan and images (one per shape in use) of a tree; the plan needs the length of the (long) image, which does not
// depend on the plan.  lbase = the length of the short shapes.
func build(root *Node, shapeOf map[string]int) (images map[int][]byte, lbase int, ample uint64) {
	L := uint64(len(compile(root, nSlots, shapeOf)))
	ample = root.plan(L)
	lbase = int(L) - tailLen
	images = map[int][]byte{}
	for _, n := range codeNames {
		sh := shapeOf[n]
		if images[sh] != nil {
			continue
		}
		img := compile(root, sh, shapeOf)
		if want := lbase + map[bool]int{true: tailLen}[shapeLong(sh)]; len(img) != want || shapeOfCode(img, lbase) != sh {
			panic(fmt.Sprintf("compile: layout of shape %d differs (%d / %d bytes)", sh, len(img), want))
		}
		images[sh] = img
	}
	return images, lbase, ample
}

// defaultShapes: pairwise different codes (the probe driver; behaviours of configurations without code shapes)
func defaultShapes() map[string]int {
	return map[string]int{"A": 1, "B": 5, "C": 3, "nU": 0, "nA": 4, "nB": 2, "nC": 1}
}

// actions lists the tree in execution order in the vocabulary of the spec (what the generator prescribed).
func (n *Node) actions(out *[]map[string]interface{}) {
	*out = append(*out, map[string]interface{}{"t": "enter", "k": n.Kind, "to": n.To, "v": n.Val, "s": ""})
	for _, it := range n.Items {
		switch it.Op {
		case "sstore":
			*out = append(*out, map[string]interface{}{"t": "sstore", "k": "", "to": "", "v": it.Val, "s": it.Slot})
		case "log":
			*out = append(*out, map[string]interface{}{"t": "log", "k": "", "to": "", "v": 0, "s": ""})
		case "jump":
			*out = append(*out, map[string]interface{}{"t": "jump", "k": "", "to": "", "v": 0, "s": it.Slot})
		case "collide": // the creation is issued, no frame ever runs
			*out = append(*out, map[string]interface{}{"t": "enter", "k": "create", "to": it.Slot, "v": it.Val, "s": ""})
		case "call":
			it.Child.actions(out)
		}
	}
	if n.End == "fail" && len(n.Flavor) > 5 && n.Flavor[:5] == "jump:" {
		*out = append(*out, map[string]interface{}{"t": "jump", "k": "", "to": "", "v": 0, "s": n.Flavor[5:]})
	}
	*out = append(*out, map[string]interface{}{"t": "exit", "k": n.End, "to": n.Benef, "v": 0, "s": ""})
}
