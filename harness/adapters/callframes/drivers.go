package callframes

import (
	"bufio"
	"encoding/json"
	"flag"
	"fmt"
	"math/rand"
	"os"
	"strconv"
	"strings"

	"github.com/LemoFoundationLtd/lemochain-core/common"

	"verifharness/engine"
)

// ---- a compact text form of program trees (replay files, the probe driver, debugging)
//   node  := kind ':' to ':' val '{' (item ';')* end '}'
//   item  := 'ss:' slot ':' val | 'log' | 'j:' destination class (a jump that goes on) | 'col:' address ':' val (a creation that is refused) | node
//   end   := 'K' (ok) | 'R' (revert) | 'F' [':' flavour] (fail; flavour 'jump:' destination class = a jump that fails) | 'S:' beneficiary (suicide)
//            | 'T' (creation: code too big) | 'D' (creation: deposit not affordable)
//   kind 'create': to = the address the creator makes (nU, nA, nB, nC)

func (n *Node) String() string {
	var sb strings.Builder
	fmt.Fprintf(&sb, "%s:%s:%d{", n.Kind, n.To, n.Val)
	for _, it := range n.Items {
		switch it.Op {
		case "sstore":
			fmt.Fprintf(&sb, "ss:%s:%d;", it.Slot, it.Val)
		case "log":
			sb.WriteString("log;")
		case "jump":
			sb.WriteString("j:" + it.Slot + ";")
		case "collide":
			fmt.Fprintf(&sb, "col:%s:%d;", it.Slot, it.Val)
		case "call":
			sb.WriteString(it.Child.String() + ";")
		}
	}
	switch n.End {
	case "ok":
		if n.Flavor != "" {
			sb.WriteString("K:" + n.Flavor)
		} else {
			sb.WriteString("K")
		}
	case "toobig":
		sb.WriteString("T")
	case "nodeposit":
		sb.WriteString("D")
	case "":
		sb.WriteString("K")
	case "revert":
		sb.WriteString("R")
	case "fail":
		sb.WriteString("F:" + n.Flavor)
	case "suicide":
		sb.WriteString("S:" + n.Benef)
	}
	sb.WriteString("}")
	return sb.String()
}

type treeParser struct {
	s   string
	pos int
	ids int
}

func (p *treeParser) until(stop string) string {
	i := p.pos
	for p.pos < len(p.s) && !strings.ContainsRune(stop, rune(p.s[p.pos])) {
		p.pos++
	}
	return p.s[i:p.pos]
}

func (p *treeParser) node(head string) (*Node, error) {
	h := strings.Split(head, ":")
	if len(h) != 3 {
		return nil, fmt.Errorf("bad node head %q", head)
	}
	v, err := strconv.Atoi(h[2])
	if err != nil {
		return nil, err
	}
	p.ids++
	n := &Node{ID: p.ids, Kind: h[0], To: h[1], Val: v}
	if p.pos >= len(p.s) || p.s[p.pos] != '{' {
		return nil, fmt.Errorf("expected { at %d", p.pos)
	}
	p.pos++
	for {
		tok := p.until("{;}")
		if p.pos >= len(p.s) {
			return nil, fmt.Errorf("unterminated node")
		}
		switch p.s[p.pos] {
		case '{':
			c, err := p.node(tok)
			if err != nil {
				return nil, err
			}
			n.Items = append(n.Items, &Item{Op: "call", Child: c})
			if p.pos < len(p.s) && p.s[p.pos] == ';' {
				p.pos++
			}
		case ';':
			p.pos++
			f := strings.Split(tok, ":")
			switch {
			case f[0] == "ss" && len(f) == 3:
				v, err := strconv.Atoi(f[2])
				if err != nil {
					return nil, err
				}
				n.Items = append(n.Items, &Item{Op: "sstore", Slot: f[1], Val: v})
			case f[0] == "log":
				n.Items = append(n.Items, &Item{Op: "log"})
			case f[0] == "j" && len(f) == 2:
				n.Items = append(n.Items, &Item{Op: "jump", Slot: f[1]})
			case f[0] == "col" && len(f) == 3:
				v, err := strconv.Atoi(f[2])
				if err != nil {
					return nil, err
				}
				n.Items = append(n.Items, &Item{Op: "collide", Slot: f[1], Val: v})
			default:
				return nil, fmt.Errorf("bad item %q", tok)
			}
		case '}':
			p.pos++
			f := strings.Split(tok, ":")
			switch f[0] {
			case "K":
				n.End = "ok"
				if len(f) > 1 {
					n.Flavor = f[1]
				}
			case "R":
				n.End = "revert"
			case "T":
				n.End = "toobig"
			case "D":
				n.End = "nodeposit"
			case "F":
				n.End, n.Flavor = "fail", "invalid"
				if len(f) > 1 {
					n.Flavor = strings.Join(f[1:], ":")
				}
			case "S":
				if len(f) != 2 {
					return nil, fmt.Errorf("bad suicide %q", tok)
				}
				n.End, n.Benef = "suicide", f[1]
			default:
				return nil, fmt.Errorf("bad end %q", tok)
			}
			return n, nil
		}
	}
}

func parseTree(s string) (*Node, error) {
	p := &treeParser{s: strings.ReplaceAll(s, " ", "")}
	head := p.until("{")
	n, err := p.node(head)
	if err != nil {
		return nil, err
	}
	if p.pos != len(p.s) {
		return nil, fmt.Errorf("trailing input at %d", p.pos)
	}
	return n, nil
}

// probe: run the given trees on the real EVM and print what happened (debugging aid).
func driveProbe(args []string) error {
	fs := flag.NewFlagSet("callframes-probe", flag.ContinueOnError)
	gas := fs.Uint64("gas", 0, "gas (0 = ample plan)")
	funded := fs.String("funded", "", "created addresses that hold 1 in the base block (comma separated, e.g. nB)")
	shapes := fs.String("shapes", "", "code shapes, e.g. A=1,nA=4 (default: pairwise different)")
	if err := fs.Parse(args); err != nil {
		return err
	}
	bal := fullBal(initBal)
	for _, n := range strings.Split(*funded, ",") {
		if n != "" {
			bal[n] = 1
		}
	}
	shapeOf := defaultShapes()
	for _, kv := range strings.Split(*shapes, ",") {
		if f := strings.Split(kv, "="); len(f) == 2 {
			v, err := strconv.Atoi(f[1])
			if err != nil || v < 0 || v >= 2*nSlots {
				return fmt.Errorf("bad shape %q", kv)
			}
			shapeOf[f[0]] = v
		}
	}
	w := &world{tag: "probe"}
	defer w.close()
	enc := json.NewEncoder(os.Stdout)
	for _, s := range fs.Args() {
		root, err := parseTree(s)
		if err != nil {
			return err
		}
		r, err := w.runTree(root, *gas, nil, bal, shapeOf)
		if err != nil {
			return err
		}
		fmt.Println(root.String())
		enc.Encode(r.fields())
	}
	return nil
}

// ---- grammar driver: seeded random program trees, deeper and wider than the TLC configurations reach
type treeGen struct {
	rng      *rand.Rand
	ids      int
	maxDepth int
	made     map[string]bool // created addresses a creation has been generated for (and not failed by itself)
	funded   map[string]bool // created addresses that hold funds in the base block: creations towards them collide
	ncreate  int
	nburn    int // creations that burn all their gas (the plan multiplies by 64 for each in a row)
	shape    map[string]int // the shape of the code every address holds / is created with
}

func isCreator(ctx string) bool { return len(ctx) == 1 }

func (g *treeGen) node(depth int, kind, to string, val int, ro bool, ctx string) *Node {
	g.ids++
	n := &Node{ID: g.ids, Kind: kind, To: to, Val: val}
	myctx := ctx
	if kind == "call" || kind == "staticcall" {
		myctx = to
	}
	ro = ro || kind == "staticcall"
	if kind == "create" {
		myctx = to
	}
	nitems := g.rng.Intn(5)
	for i := 0; i < nitems && g.ids < 40; i++ {
		switch x := g.rng.Intn(14); {
		case x >= 12:
			// a jump: mostly to what is a JUMPDEST of the code this frame runs; one to what is not ends the frame
			d := jumpDests[g.rng.Intn(len(jumpDests))]
			if !jumpValid(g.shape[to], d) && g.rng.Intn(2) == 0 {
				d = "next"
			}
			if jumpValid(g.shape[to], d) {
				n.Items = append(n.Items, &Item{Op: "jump", Slot: d})
			} else if kind != "create" || g.nburn < 2 {
				if kind == "create" {
					g.nburn++
				}
				n.End, n.Flavor = "fail", "jump:"+d
				return n
			}
		case x < 3 && !ro:
			n.Items = append(n.Items, &Item{Op: "sstore", Slot: slotNames[g.rng.Intn(2)], Val: g.rng.Intn(3)})
		case x < 4 && !ro:
			n.Items = append(n.Items, &Item{Op: "log"})
		case x < 6 && !ro && isCreator(myctx) && g.funded["n"+myctx]:
			n.Items = append(n.Items, &Item{Op: "collide", Slot: "n" + myctx, Val: g.rng.Intn(2)})
		case x < 6 && !ro && isCreator(myctx) && !g.made["n"+myctx] && g.ncreate < 4 && depth < g.maxDepth:
			g.ncreate++
			g.made["n"+myctx] = true
			c := g.node(depth+1, "create", "n"+myctx, g.rng.Intn(2), ro, myctx)
			if c.End != "ok" && c.End != "suicide" {
				g.made["n"+myctx] = false // undone: the creator may try again
			}
			n.Items = append(n.Items, &Item{Op: "call", Child: c})
		case depth < g.maxDepth:
			k := []string{"call", "call", "callcode", "delegatecall", "staticcall"}[g.rng.Intn(5)]
			v := 0
			if (k == "call" && !ro || k == "callcode") && g.rng.Intn(3) == 0 {
				v = 1
			}
			t := contractNames[g.rng.Intn(3)]
			if g.rng.Intn(3) == 0 { // a contract made earlier in this transaction
				for _, c := range createdNames {
					if g.made[c] && c != myctx {
						t = c
					}
				}
			}
			c := g.node(depth+1, k, t, v, ro, myctx)
			n.Items = append(n.Items, &Item{Op: "call", Child: c})
		}
	}
	if kind == "create" { // a creation frame: the two failures of the code deposit on top of the ways any frame ends
		switch x := g.rng.Intn(12); {
		case x < 4:
			n.End = "ok"
		case x < 6:
			n.End = "revert"
		case x < 7:
			n.End, n.Benef = "suicide", allNames[g.rng.Intn(len(allNames))]
		case g.nburn >= 2:
			n.End = "revert"
		case x < 9:
			n.End, n.Flavor = "fail", flavours[g.rng.Intn(len(flavours))]
			g.nburn++
		case x < 10:
			n.End = "toobig"
			g.nburn++
		default:
			n.End = "nodeposit"
			g.nburn++
		}
		return n
	}
	switch x := g.rng.Intn(10); {
	case x < 4:
		n.End = "ok"
	case x < 6:
		n.End = "revert"
	case x < 8 || ro:
		n.End = "fail"
		if ro {
			n.Flavor = roFlavours[g.rng.Intn(len(roFlavours))]
		} else {
			n.Flavor = flavours[g.rng.Intn(len(flavours))]
		}
	default:
		n.End, n.Benef = "suicide", allNames[g.rng.Intn(len(allNames))]
	}
	return n
}

func driveTrees(args []string) error {
	fs := flag.NewFlagSet("callframes-trees", flag.ContinueOnError)
	out := fs.String("out", "trace.ndjson", "")
	seed := fs.Int64("seed", 1, "")
	num := fs.Int("n", 100, "")
	depth := fs.Int("depth", 4, "")
	if err := fs.Parse(args); err != nil {
		return err
	}
	f, err := os.Create(*out)
	if err != nil {
		return err
	}
	defer f.Close()
	bw := bufio.NewWriterSize(f, 1<<20)
	defer bw.Flush()
	enc := json.NewEncoder(bw)
	rng := rand.New(rand.NewSource(*seed))
	w := &world{tag: fmt.Sprintf("trees%d", *seed)}
	defer w.close()
	if fs.NArg() > 0 {
		*num = fs.NArg()
	}
	for i := 0; i < *num; i++ {
		g := &treeGen{rng: rng, maxDepth: *depth, made: map[string]bool{}, funded: map[string]bool{}, shape: defaultShapes()}
		if fs.NArg() == 0 { // seeded code shapes: some addresses hold the same code, most different ones
			for _, n := range codeNames {
				g.shape[n] = rng.Intn(2 * nSlots)
			}
		}
		bal := fullBal(initBal)
		if fs.NArg() == 0 && rng.Intn(4) == 0 { // an address some contract would create holds funds already
			c := createdNames[1+rng.Intn(3)]
			g.funded[c], bal[c] = true, 1
		}
		var root *Node
		if fs.NArg() > 0 { // explicit trees (text form) instead of generated ones
			if root, err = parseTree(fs.Arg(i)); err != nil {
				return err
			}
		} else {
			if rng.Intn(4) == 0 { // a contract creation transaction
				g.ncreate, g.made["nU"] = 1, true
				root = g.node(0, "create", "nU", rng.Intn(2), false, "U")
			} else {
				root = g.node(0, "call", contractNames[rng.Intn(3)], rng.Intn(2), false, "U")
			}
			maxFlavour(root, func(*Node) bool { return rng.Intn(5) == 0 })
		}
		base := map[string]map[string]int{}
		if fs.NArg() == 0 && rng.Intn(2) == 0 { // half of the programs start from committed non-zero storage
			for _, c := range contractNames {
				base[c] = map[string]int{"s1": rng.Intn(3), "s2": rng.Intn(2)}
			}
		}
		if err := enc.Encode(map[string]interface{}{"ev": "reset", "beh": i, "step": 0, "bal": bal, "base": fullBase(base), "shape": g.shape}); err != nil {
			return err
		}
		fl, err := runProgram(w, root, base, bal, g.shape, *seed, i)
		if err != nil {
			return err
		}
		fl["ev"], fl["beh"], fl["step"], fl["strict"] = "Tree", i, 1, false
		if err := enc.Encode(fl); err != nil {
			return err
		}
	}
	fmt.Printf("{\"trees\": %d}\n", *num)
	return nil
}

// ---- arbitrary byte strings, opcode soups, precompile inputs, unbounded recursion

var soupOps = []byte{0x00, 0x01, 0x02, 0x03, 0x04, 0x06, 0x0a, 0x10, 0x14, 0x15, 0x16, 0x19, 0x1a, 0x20, 0x30, 0x31, 0x32, 0x33, 0x34, 0x35, 0x36,
	0x37, 0x38, 0x39, 0x3a, 0x3b, 0x3c, 0x3d, 0x3e, 0x40, 0x41, 0x42, 0x43, 0x44, 0x45, 0x50, 0x51, 0x52, 0x53, 0x54, 0x55, 0x56, 0x57, 0x58,
	0x59, 0x5a, 0x5b, 0x80, 0x81, 0x82, 0x90, 0x91, 0xa0, 0xa1, 0xa2, 0xf0, 0xf1, 0xf1, 0xf2, 0xf3, 0xf4, 0xfa, 0xfd, 0xfe, 0xff}

// soup: random valid opcodes fed with operands that make them reach the account backend (small numbers, the
// universe's addresses, precompile addresses, the gas left)
func soup(rng *rand.Rand, n int) []byte {
	a := newAsm()
	operand := func() {
		switch rng.Intn(8) {
		case 0, 1, 2:
			a.push(uint64(rng.Intn(4)))
		case 3:
			a.push(uint64(rng.Intn(70)))
		case 4:
			a.pushBytes(addrOf[allNames[rng.Intn(4)]].Bytes())
		case 5:
			a.push(uint64(1 + rng.Intn(9))) // a precompile address
		case 6:
			a.op(opGAS)
		default:
			a.push(uint64(rng.Intn(1 << 16)))
		}
	}
	for i := 0; i < n; i++ {
		op := soupOps[rng.Intn(len(soupOps))]
		k := rng.Intn(8)
		for j := 0; j < k; j++ {
			operand()
		}
		a.op(op)
	}
	return a.bytes()
}

// withTail wraps a byte string into code that certainly executes a jump (so that the platform has to analyse the jump
// destinations of the whole string) and ends like byte strings in the wild do: with a PUSH<p> whose data is cut off by
// the end of the code after m bytes, at a seeded length modulo 8.
func withTail(rng *rand.Rand, body []byte) []byte {
	a := []byte{opPUSH1, 4, opJUMP, opINVALID, opJUMPDEST}
	a = append(a, body...)
	p := 1 + rng.Intn(32)
	if rng.Intn(3) == 0 {
		p = 32
	}
	m := 0
	if rng.Intn(2) == 0 {
		m = rng.Intn(p + 1)
	}
	r := rng.Intn(8)
	for (len(a)+1+m)%8 != r {
		a = append(a, opJUMPDEST)
	}
	a = append(a, byte(opPUSH1+p-1))
	for i := 0; i < m; i++ {
		a = append(a, opJUMPDEST)
	}
	return a
}

func randBytes(rng *rand.Rand, n int) []byte {
	b := make([]byte, n)
	rng.Read(b)
	return b
}

// selfCall: code that calls its own account again with all the gas it may pass on (unbounded recursion).
func selfCall(kind string, store bool) []byte {
	a := newAsm()
	if store {
		a.push(1).push(1).op(opSSTORE)
	}
	a.push(0).push(0).push(0).push(0)
	if kind == "call" || kind == "callcode" {
		a.push(0)
	}
	a.op(0x30).op(opGAS).op(callOp(kind)).op(opSTOP) // ADDRESS GAS <CALL>
	return a.bytes()
}

var rewardInputs = []string{`{"term":0,"value":"1000"}`, `{"term":"0","value":"5"}`, `{"term":1}`, `{"value":"7"}`, `{}`, `[]`, `null`, `{"term":0,"value":null}`,
	`{"term":0,"value":"-5"}`, `{"term":4294967295,"value":"1"}`, `{"term":0,"value":"99999999999999999999999999999999999999999999"}`, `{"term":0,"value":1e3}`, ``}

func driveRand(args []string) error {
	fs := flag.NewFlagSet("callframes-rand", flag.ContinueOnError)
	out := fs.String("out", "trace.ndjson", "")
	seed := fs.Int64("seed", 1, "")
	num := fs.Int("n", 200, "")
	if err := fs.Parse(args); err != nil {
		return err
	}
	f, err := os.Create(*out)
	if err != nil {
		return err
	}
	defer f.Close()
	bw := bufio.NewWriterSize(f, 1<<20)
	defer bw.Flush()
	enc := json.NewEncoder(bw)
	rng := rand.New(rand.NewSource(*seed))
	rngT := rand.New(rand.NewSource(*seed*7919 + 13)) // (a stream of its own: the programs of the other kinds stay what they were)
	w := &world{tag: fmt.Sprintf("rand%d", *seed)}
	defer w.close()
	if err := enc.Encode(map[string]interface{}{"ev": "reset", "beh": 0, "step": 0, "bal": fullBal(initBal), "base": fullBase(nil)}); err != nil {
		return err
	}
	deepKinds := []string{"call", "callcode", "delegatecall", "staticcall"}
	for i := 0; i < *num; i++ {
		codeAt := map[string][]byte{}
		var to *common.Address
		var input []byte
		gas := uint64(rng.Intn(120000))
		if rng.Intn(4) == 0 {
			gas = uint64(rng.Intn(3000))
		}
		value := 0
		if rng.Intn(4) == 0 {
			value = 1
		}
		kind := ""
		switch m := i % 8; {
		case i < 8: // unbounded recursion, every call kind, with and without a state change per level
			kind = "deep:" + deepKinds[i%4]
			code := selfCall(deepKinds[i%4], i >= 4)
			if deepKinds[i%4] != "call" { // the recursing kinds that keep the context are entered through a plain call
				a := newAsm()
				a.push(0).push(0).push(0).push(0)
				if deepKinds[i%4] == "callcode" {
					a.push(0)
				}
				a.pushBytes(addrOf["B"].Bytes()).op(opGAS).op(callOp(deepKinds[i%4])).op(opSTOP)
				codeAt["A"], codeAt["B"] = a.bytes(), code
			} else {
				codeAt["A"] = code
			}
			t := addrOf["A"]
			to, gas, value = &t, 10000000000000, 0
		case m == 0 || m == 1:
			kind = "bytes"
			for _, c := range contractNames {
				codeAt[c] = randBytes(rng, 1+rng.Intn(80))
			}
			t := addrOf["A"]
			to, input = &t, randBytes(rng, rng.Intn(70))
		case m == 2 || m == 3 || m == 4:
			kind = "soup"
			for _, c := range contractNames {
				codeAt[c] = soup(rng, 1+rng.Intn(30))
			}
			t := addrOf["A"]
			to, input = &t, randBytes(rng, rng.Intn(70))
		case m == 5:
			kind = "create"
			if rng.Intn(2) == 0 {
				input = soup(rng, 1+rng.Intn(30))
			} else {
				input = randBytes(rng, 1+rng.Intn(80))
			}
			for _, c := range contractNames {
				codeAt[c] = soup(rng, 1+rng.Intn(20))
			}
		default:
			p := 1 + rng.Intn(9)
			kind = fmt.Sprintf("precompile%d", p)
			t := common.BytesToAddress([]byte{byte(p)})
			to = &t
			switch {
			case p == 9 && rng.Intn(4) > 0:
				input = []byte(rewardInputs[rng.Intn(len(rewardInputs))])
			case rng.Intn(3) == 0:
				input = randBytes(rng, 32*rng.Intn(9)) // word-aligned
			default:
				input = randBytes(rng, rng.Intn(300))
			}
			if p == 5 && len(input) >= 96 && rng.Intn(2) == 0 { // modexp: plausible small length words
				for k := 0; k < 96; k++ {
					input[k] = 0
				}
				input[31], input[63], input[95] = byte(rng.Intn(40)), byte(rng.Intn(40)), byte(rng.Intn(40))
			}
			if rng.Intn(2) == 0 {
				gas = uint64(rng.Intn(4000000))
			}
		}
		if (kind == "bytes" || kind == "soup" || kind == "create") && rngT.Intn(3) == 0 {
			kind += "+tail"
			if to == nil {
				input = withTail(rngT, input)
			} else {
				for c, b := range codeAt {
					codeAt[c] = withTail(rngT, b)
				}
			}
		}
		h, err := w.base(codeAt, nil)
		if err != nil {
			return err
		}
		r1, ts := w.callRaw(h, to, input, gas, value, nil)
		r2, _ := w.callRaw(h, to, input, gas, value, ts)
		toHex := "create"
		if to != nil {
			toHex = to.Hex()
		}
		code := map[string]string{}
		for c, b := range codeAt {
			code[c] = fmt.Sprintf("%x", b)
		}
		fl := map[string]interface{}{"ev": "Rand", "beh": 0, "step": i + 1, "kind": kind, "to": toHex, "input": fmt.Sprintf("%x", input), "code": code, "value": value,
			"r1": r1.fields(), "r2": r2.fields(), "pre": w.pre(h, ts)}
		if err := enc.Encode(fl); err != nil {
			return err
		}
	}
	fmt.Printf("{\"programs\": %d}\n", *num)
	return nil
}

func init() {
	engine.RegisterDriver("callframes-rand", driveRand)
	engine.RegisterDriver("callframes-probe", driveProbe)
	engine.RegisterDriver("callframes-trees", driveTrees)
}
