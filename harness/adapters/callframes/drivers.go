package callframes

import (
	"bufio"
	"encoding/json"
	"flag"
	"fmt"
	"math/rand"
	"os"
	"strconv"
	"strings"

	"verifharness/engine"
)

// ---- a compact text form of program trees (replay files, the probe driver, debugging)
//   node  := kind ':' to ':' val '{' (item ';')* end '}'
//   item  := 'ss:' slot ':' val | 'log' | node
//   end   := 'K' (ok) | 'R' (revert) | 'F' [':' flavour] (fail) | 'S:' beneficiary (suicide)

func (n *Node) String() string {
	var sb strings.Builder
	fmt.Fprintf(&sb, "%s:%s:%d{", n.Kind, n.To, n.Val)
	for _, it := range n.Items {
		switch it.Op {
		case "sstore":
			fmt.Fprintf(&sb, "ss:%s:%d;", it.Slot, it.Val)
		case "log":
			sb.WriteString("log;")
		case "call":
			sb.WriteString(it.Child.String() + ";")
		}
	}
	switch n.End {
	case "ok", "":
		sb.WriteString("K")
	case "revert":
		sb.WriteString("R")
	case "fail":
		sb.WriteString("F:" + n.Flavor)
	case "suicide":
		sb.WriteString("S:" + n.Benef)
	}
	sb.WriteString("}")
	return sb.String()
}

type treeParser struct {
	s   string
	pos int
	ids int
}

func (p *treeParser) until(stop string) string {
	i := p.pos
	for p.pos < len(p.s) && !strings.ContainsRune(stop, rune(p.s[p.pos])) {
		p.pos++
	}
	return p.s[i:p.pos]
}

func (p *treeParser) node(head string) (*Node, error) {
	h := strings.Split(head, ":")
	if len(h) != 3 {
		return nil, fmt.Errorf("bad node head %q", head)
	}
	v, err := strconv.Atoi(h[2])
	if err != nil {
		return nil, err
	}
	p.ids++
	n := &Node{ID: p.ids, Kind: h[0], To: h[1], Val: v}
	if p.pos >= len(p.s) || p.s[p.pos] != '{' {
		return nil, fmt.Errorf("expected { at %d", p.pos)
	}
	p.pos++
	for {
		tok := p.until("{;}")
		if p.pos >= len(p.s) {
			return nil, fmt.Errorf("unterminated node")
		}
		switch p.s[p.pos] {
		case '{':
			c, err := p.node(tok)
			if err != nil {
				return nil, err
			}
			n.Items = append(n.Items, &Item{Op: "call", Child: c})
			if p.pos < len(p.s) && p.s[p.pos] == ';' {
				p.pos++
			}
		case ';':
			p.pos++
			f := strings.Split(tok, ":")
			switch {
			case f[0] == "ss" && len(f) == 3:
				v, err := strconv.Atoi(f[2])
				if err != nil {
					return nil, err
				}
				n.Items = append(n.Items, &Item{Op: "sstore", Slot: f[1], Val: v})
			case f[0] == "log":
				n.Items = append(n.Items, &Item{Op: "log"})
			default:
				return nil, fmt.Errorf("bad item %q", tok)
			}
		case '}':
			p.pos++
			f := strings.Split(tok, ":")
			switch f[0] {
			case "K":
				n.End = "ok"
			case "R":
				n.End = "revert"
			case "F":
				n.End, n.Flavor = "fail", "invalid"
				if len(f) > 1 {
					n.Flavor = f[1]
				}
			case "S":
				if len(f) != 2 {
					return nil, fmt.Errorf("bad suicide %q", tok)
				}
				n.End, n.Benef = "suicide", f[1]
			default:
				return nil, fmt.Errorf("bad end %q", tok)
			}
			return n, nil
		}
	}
}

func parseTree(s string) (*Node, error) {
	p := &treeParser{s: strings.ReplaceAll(s, " ", "")}
	head := p.until("{")
	n, err := p.node(head)
	if err != nil {
		return nil, err
	}
	if p.pos != len(p.s) {
		return nil, fmt.Errorf("trailing input at %d", p.pos)
	}
	return n, nil
}

// probe: run the given trees on the real EVM and print what happened (debugging aid).
func driveProbe(args []string) error {
	fs := flag.NewFlagSet("callframes-probe", flag.ContinueOnError)
	gas := fs.Uint64("gas", 0, "gas (0 = ample plan)")
	if err := fs.Parse(args); err != nil {
		return err
	}
	w := &world{tag: "probe"}
	defer w.close()
	enc := json.NewEncoder(os.Stdout)
	for _, s := range fs.Args() {
		root, err := parseTree(s)
		if err != nil {
			return err
		}
		g := root.plan()
		if *gas != 0 {
			g = *gas
		}
		r, err := w.runTree(root, g, nil)
		if err != nil {
			return err
		}
		fmt.Println(root.String())
		enc.Encode(r.fields())
	}
	return nil
}

// ---- grammar driver: seeded random program trees, deeper and wider than the TLC configurations reach
type treeGen struct {
	rng      *rand.Rand
	ids      int
	maxDepth int
}

func (g *treeGen) node(depth int, kind, to string, val int, ro bool, ctx string) *Node {
	g.ids++
	n := &Node{ID: g.ids, Kind: kind, To: to, Val: val}
	myctx := ctx
	if kind == "call" || kind == "staticcall" {
		myctx = to
	}
	ro = ro || kind == "staticcall"
	nitems := g.rng.Intn(5)
	for i := 0; i < nitems && g.ids < 40; i++ {
		switch x := g.rng.Intn(10); {
		case x < 3 && !ro:
			n.Items = append(n.Items, &Item{Op: "sstore", Slot: slotNames[g.rng.Intn(2)], Val: g.rng.Intn(3)})
		case x < 4 && !ro:
			n.Items = append(n.Items, &Item{Op: "log"})
		case depth < g.maxDepth:
			k := []string{"call", "call", "callcode", "delegatecall", "staticcall"}[g.rng.Intn(5)]
			v := 0
			if (k == "call" && !ro || k == "callcode") && g.rng.Intn(3) == 0 {
				v = 1
			}
			c := g.node(depth+1, k, contractNames[g.rng.Intn(3)], v, ro, myctx)
			n.Items = append(n.Items, &Item{Op: "call", Child: c})
		}
	}
	switch x := g.rng.Intn(10); {
	case x < 4:
		n.End = "ok"
	case x < 6:
		n.End = "revert"
	case x < 8 || ro:
		n.End = "fail"
		if ro {
			n.Flavor = roFlavours[g.rng.Intn(len(roFlavours))]
		} else {
			n.Flavor = flavours[g.rng.Intn(len(flavours))]
		}
	default:
		n.End, n.Benef = "suicide", allNames[g.rng.Intn(len(allNames))]
	}
	return n
}

func driveTrees(args []string) error {
	fs := flag.NewFlagSet("callframes-trees", flag.ContinueOnError)
	out := fs.String("out", "trace.ndjson", "")
	seed := fs.Int64("seed", 1, "")
	num := fs.Int("n", 100, "")
	depth := fs.Int("depth", 4, "")
	if err := fs.Parse(args); err != nil {
		return err
	}
	f, err := os.Create(*out)
	if err != nil {
		return err
	}
	defer f.Close()
	bw := bufio.NewWriterSize(f, 1<<20)
	defer bw.Flush()
	enc := json.NewEncoder(bw)
	rng := rand.New(rand.NewSource(*seed))
	w := &world{tag: fmt.Sprintf("trees%d", *seed)}
	defer w.close()
	for i := 0; i < *num; i++ {
		g := &treeGen{rng: rng, maxDepth: *depth}
		root := g.node(0, "call", contractNames[rng.Intn(3)], rng.Intn(2), false, "U")
		base := map[string]map[string]int{}
		if rng.Intn(2) == 0 { // half of the programs start from committed non-zero storage
			for _, c := range contractNames {
				base[c] = map[string]int{"s1": rng.Intn(3), "s2": rng.Intn(2)}
			}
		}
		if err := enc.Encode(map[string]interface{}{"ev": "reset", "beh": i, "step": 0, "bal": initBal, "base": fullBase(base)}); err != nil {
			return err
		}
		fl, err := runProgram(w, root, base, *seed, i)
		if err != nil {
			return err
		}
		fl["ev"], fl["beh"], fl["step"], fl["strict"] = "Tree", i, 1, false
		if err := enc.Encode(fl); err != nil {
			return err
		}
	}
	fmt.Printf("{\"trees\": %d}\n", *num)
	return nil
}

func init() {
	engine.RegisterDriver("callframes-probe", driveProbe)
	engine.RegisterDriver("callframes-trees", driveTrees)
}
