package network

import (
	"bufio"
	"encoding/hex"
	"encoding/json"
	"fmt"
	"io"
	"os"
	"os/exec"
	"path/filepath"
	"sort"
	"time"

	"github.com/LemoFoundationLtd/lemochain-core/chain/types"
	"github.com/LemoFoundationLtd/lemochain-core/common/rlp"

	"verifharness/engine"
	"verifharness/tla"
)

type proc struct {
	cmd *exec.Cmd
	in  io.WriteCloser
	out *bufio.Scanner
}

func (p *proc) call(rq request) reply {
	b, _ := json.Marshal(rq)
	if _, err := p.in.Write(append(b, '\n')); err != nil {
		engine.Failf("node process write: %v", err)
	}
	if !p.out.Scan() {
		engine.Failf("node process died (op %s): %v", rq.Op, p.out.Err())
	}
	var rp reply
	if err := json.Unmarshal(p.out.Bytes(), &rp); err != nil {
		engine.Failf("node process reply: %v: %s", err, p.out.Text())
	}
	return rp
}

type adapter struct {
	dir    string
	seq    int
	nd     int
	procs  []*proc
	parent []int
	miner  []int
	blocks map[int]string // spec block id -> hex RLP, once mined
	hashes map[string]int // real hash -> spec id ("" genesis -> 0)
	height map[int]uint32
	sigs   map[int]map[int]string // block id -> deputy -> hex confirm signature
	gen    string
}

func (a *adapter) stop() {
	for _, p := range a.procs {
		if p == nil {
			continue
		}
		b, _ := json.Marshal(request{Op: "quit"})
		p.in.Write(append(b, '\n'))
		p.in.Close()
		done := make(chan struct{})
		go func() { p.cmd.Wait(); close(done) }()
		select {
		case <-done:
		case <-time.After(5 * time.Second):
			p.cmd.Process.Kill()
		}
	}
	a.procs = nil
}

func (a *adapter) Reset(init map[string]tla.Value) (engine.Fields, error) {
	if a.dir == "" {
		a.dir = os.Getenv("VERIF_SCRATCH_DIR")
		if a.dir == "" {
			a.dir = filepath.Join(os.TempDir(), fmt.Sprintf("verif-network-%d", os.Getpid()))
		}
	}
	a.stop()
	a.seq++
	par, min := init["parent"], init["miner"]
	nb := len(par.Elems)
	a.parent, a.miner = []int{0}, []int{0}
	a.nd = 0
	for b := 1; b <= nb; b++ {
		a.parent = append(a.parent, par.GetI(b).I())
		a.miner = append(a.miner, min.GetI(b).I())
	}
	a.nd = len(init["stable"].Elems)
	self, err := os.Executable()
	if err != nil {
		return nil, err
	}
	genesis := time.Now().Unix() - 3
	for i := 0; i < a.nd; i++ {
		cmd := exec.Command(self, "drive", "nodeproc", "-rank", fmt.Sprint(i), "-nd", fmt.Sprint(a.nd),
			"-dir", filepath.Join(a.dir, fmt.Sprintf("net%d-n%d", a.seq, i)), "-genesis", fmt.Sprint(genesis), "-slot", "1000")
		cmd.Stderr = os.Stderr
		in, _ := cmd.StdinPipe()
		out, _ := cmd.StdoutPipe()
		if err := cmd.Start(); err != nil {
			return nil, err
		}
		sc := bufio.NewScanner(out)
		sc.Buffer(make([]byte, 1<<20), 1<<26)
		a.procs = append(a.procs, &proc{cmd: cmd, in: in, out: sc})
	}
	st := a.procs[0].call(request{Op: "state"})
	a.gen = st.Stable
	a.blocks, a.hashes, a.height = map[int]string{}, map[string]int{a.gen: 0}, map[int]uint32{0: 0}
	a.sigs = map[int]map[int]string{}
	return engine.Fields{"nd": a.nd, "parent": a.parent[1:], "miner": a.miner[1:]}, nil
}

func (a *adapter) id(hash string) int {
	if id, ok := a.hashes[hash]; ok {
		return id
	}
	return -1
}

func (a *adapter) sigList(b int, sg tla.Value) ([]string, []int) {
	var out []string
	var missing []int
	ds := sg.Ints()
	sort.Ints(ds)
	for _, d := range ds {
		if s, ok := a.sigs[b][d]; ok {
			out = append(out, s)
		} else {
			missing = append(missing, d)
		}
	}
	return out, missing
}

func (a *adapter) Apply(s engine.Step) (engine.Fields, error) {
	n, b := s.Act.Args[0].I(), s.Act.Args[1].I()
	p := a.procs[n-1]
	fl := engine.Fields{"missing": []int{}, "mined": false, "parent_ok": true}
	nonNil := func(x []int) []int {
		if x == nil {
			return []int{}
		}
		return x
	}
	var rp reply
	sg := tla.Value{Kind: tla.KSet}
	if len(s.Act.Args) > 2 {
		sg = s.Act.Args[2]
	}
	switch s.Act.Name {
	case "Receive", "SReceive":
		if n == a.miner[b] {
			if _, done := a.blocks[b]; done {
				return nil, fmt.Errorf("block %d mined twice", b)
			}
			rp = p.call(request{Op: "mine", WaitMs: 1000*a.nd + 1500})
			fl["mined"] = true
			if rp.OK {
				a.blocks[b] = rp.Block
				a.hashes[rp.Hash] = b
				a.height[b] = a.height[a.parent[b]] + 1
				// the real block's parent must be the spec's parent (the node mines on ITS head)
				// (checked through the head reported before mining: the spec requires parent[b] = head[n])
			}
		} else {
			blk, ok := a.blocks[b]
			if !ok {
				return nil, fmt.Errorf("block %d delivered before it was mined", b)
			}
			sigs, missing := a.sigList(b, sg)
			fl["missing"] = nonNil(missing)
			rp = p.call(request{Op: "insert_block", Block: withConfirms(blk, sigs)})
		}
	case "Confirms":
		sigs, missing := a.sigList(b, sg)
		fl["missing"] = nonNil(missing)
		var hash string
		for h, id := range a.hashes {
			if id == b {
				hash = h
			}
		}
		rp = p.call(request{Op: "insert_confirms", Height: a.height[b], Hash: hash, Sigs: sigs})
	default:
		return nil, fmt.Errorf("unknown action %s", s.Act.Name)
	}
	if len(rp.Own) > 0 {
		if a.sigs[b] == nil {
			a.sigs[b] = map[int]string{}
		}
		a.sigs[b][n] = rp.Own[0]
	}
	fl["ok"], fl["err"] = rp.OK, rp.Err
	fl["signed"] = len(rp.Own) > 0
	fl["stable"], fl["head"] = a.id(rp.Stable), a.id(rp.Head)
	known := []int{}
	for _, h := range rp.Known {
		known = append(known, a.id(h))
	}
	sort.Ints(known)
	fl["unconf"] = known
	return fl, nil
}

// withConfirms puts confirm signatures into the body of an RLP-encoded block (what a relaying peer does).
func withConfirms(blockHex string, sigs []string) string {
	if len(sigs) == 0 {
		return blockHex
	}
	raw, err := hex.DecodeString(blockHex)
	if err != nil {
		engine.Failf("block hex: %v", err)
	}
	b := new(types.Block)
	if err := rlp.DecodeBytes(raw, b); err != nil {
		engine.Failf("block rlp: %v", err)
	}
	b.Confirms = nil
	for _, s := range sigs {
		sr, err := hex.DecodeString(s)
		if err != nil {
			engine.Failf("sig hex: %v", err)
		}
		b.Confirms = append(b.Confirms, types.BytesToSignData(sr))
	}
	out, err := rlp.EncodeToBytes(b)
	if err != nil {
		engine.Failf("block encode: %v", err)
	}
	return hex.EncodeToString(out)
}

func (a *adapter) Close() { a.stop() }

func init() { engine.Register("network", func() engine.Adapter { return &adapter{} }) }
