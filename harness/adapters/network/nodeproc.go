// Package network binds spec/Network.tla to SEVERAL real nodes, one OS process each (the node identity
// deputynode.selfNodeKey and consensus.sigCache are process-global).  `vh drive nodeproc -rank i -dir d` is one
// deputy node speaking JSON lines on stdin/stdout; the adapter `network` plays the network: it carries blocks and
// confirm signatures between the processes in the order a TLC behaviour dictates.
package network

import (
	"bufio"
	"encoding/hex"
	"encoding/json"
	"flag"
	"fmt"
	"os"
	"strconv"
	"time"

	"github.com/LemoFoundationLtd/lemochain-core/chain/deputynode"
	"github.com/LemoFoundationLtd/lemochain-core/chain/types"
	"github.com/LemoFoundationLtd/lemochain-core/common"
	"github.com/LemoFoundationLtd/lemochain-core/common/rlp"

	"verifharness/engine"
	"verifharness/node"
)

type request struct {
	Op     string   `json:"op"`
	Block  string   `json:"block,omitempty"`  // hex RLP
	Height uint32   `json:"height,omitempty"` // confirms
	Hash   string   `json:"hash,omitempty"`
	Sigs   []string `json:"sigs,omitempty"`
	WaitMs int      `json:"wait_ms,omitempty"` // mine: how long to keep trying for the node's own slot
}

type reply struct {
	OK     bool     `json:"ok"`
	Err    string   `json:"err,omitempty"`
	Block  string   `json:"block,omitempty"` // mine: the mined block
	Hash   string   `json:"hash,omitempty"`
	Stable string   `json:"stable"`
	Head   string   `json:"head"`
	Own    []string `json:"own"`   // hex confirm signatures by this node stored with the block just handled
	Known  []string `json:"known"` // hashes of the unconfirmed blocks
}

func driveNodeProc(args []string) error {
	fs := flag.NewFlagSet("nodeproc", flag.ContinueOnError)
	rank := fs.Int("rank", 0, "deputy rank of this node")
	nd := fs.Int("nd", 3, "number of deputies")
	dir := fs.String("dir", "", "data directory")
	genesis := fs.Int64("genesis", 0, "genesis time")
	slotMs := fs.Uint64("slot", 1000, "slot length in ms")
	if err := fs.Parse(args); err != nil {
		return err
	}
	w := node.NewWorld(*nd, *slotMs)
	w.GenesisTime = uint32(*genesis)
	deputynode.SetSelfNodeKey(w.Keys[*rank])
	n := w.NewNode(*dir)
	defer n.Destroy()
	in := bufio.NewScanner(os.Stdin)
	in.Buffer(make([]byte, 1<<20), 1<<26)
	out := json.NewEncoder(os.Stdout)
	state := func(r *reply, blk *types.Block) {
		r.Stable = n.DP.StableBlock().Hash().Hex()
		r.Head = n.DP.CurrentBlock().Hash().Hex()
		r.Known, r.Own = []string{}, []string{}
		n.DB.IterateUnConfirms(func(b *types.Block) { r.Known = append(r.Known, b.Hash().Hex()) })
		if blk != nil {
			if stored, err := n.DB.GetBlockByHash(blk.Hash()); err == nil {
				for _, c := range stored.Confirms {
					if id, err := c.RecoverNodeID(stored.Hash()); err == nil && w.DeputyOf(id) == *rank {
						r.Own = append(r.Own, hex.EncodeToString(c[:]))
					}
				}
			}
		}
	}
	decodeBlock := func(h string) (*types.Block, error) {
		raw, err := hex.DecodeString(h)
		if err != nil {
			return nil, err
		}
		b := new(types.Block)
		return b, rlp.DecodeBytes(raw, b)
	}
	for in.Scan() {
		var rq request
		if err := json.Unmarshal(in.Bytes(), &rq); err != nil {
			return err
		}
		var rp reply
		switch rq.Op {
		case "quit":
			return nil
		case "state":
			rp.OK = true
			state(&rp, nil)
		case "insert_block":
			b, err := decodeBlock(rq.Block)
			if err != nil {
				return err
			}
			_, err = n.DP.InsertBlock(b)
			rp.OK = err == nil
			if err != nil {
				rp.Err = err.Error()
			}
			state(&rp, b)
		case "insert_confirms":
			var sigs []types.SignData
			for _, s := range rq.Sigs {
				raw, err := hex.DecodeString(s)
				if err != nil {
					return err
				}
				sigs = append(sigs, types.BytesToSignData(raw))
			}
			hash := common.HexToHash(rq.Hash)
			err := n.DP.InsertConfirms(rq.Height, hash, sigs)
			rp.OK = err == nil
			if err != nil {
				rp.Err = err.Error()
			}
			blk, _ := n.DB.GetBlockByHash(hash)
			state(&rp, blk)
		case "mine":
			// the engine's own MineBlock: it succeeds only inside this deputy's slot on its current block (wall clock)
			deadline := time.Now().Add(time.Duration(rq.WaitMs) * time.Millisecond)
			var blk *types.Block
			var err error
			for {
				blk, err = n.DP.MineBlock(1000)
				if err == nil || time.Now().After(deadline) {
					break
				}
				time.Sleep(50 * time.Millisecond)
			}
			rp.OK = err == nil
			if err != nil {
				rp.Err = err.Error()
			} else {
				raw, eerr := rlp.EncodeToBytes(blk)
				if eerr != nil {
					return eerr
				}
				rp.Block, rp.Hash = hex.EncodeToString(raw), blk.Hash().Hex()
			}
			state(&rp, blk)
		default:
			return fmt.Errorf("unknown op %q", rq.Op)
		}
		if err := out.Encode(rp); err != nil {
			return err
		}
	}
	return in.Err()
}

func init() {
	engine.RegisterDriver("nodeproc", driveNodeProc)
	_ = strconv.Itoa
}
