package adapters

import _ "verifharness/adapters/triekv"
