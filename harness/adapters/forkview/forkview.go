// Package forkview binds spec/ForkView.tla (generator) and spec/TraceForkView.tla (validator) to the
// real store.ChainDatabase (C09): SetBlock, GetActDatabase(hash).Put/.Get, SetStableBlock, Close+reopen.
// Every event carries what the real call returned and the complete observable post-state; the adapter
// never judges (no expected values are computed here).
package forkview

import (
	"bufio"
	"encoding/json"
	"flag"
	"fmt"
	"math/big"
	"math/rand"
	"os"
	"path/filepath"
	"runtime/debug"
	"sort"
	"strings"
	"time"

	"github.com/LemoFoundationLtd/lemochain-core/chain/account"
	"github.com/LemoFoundationLtd/lemochain-core/chain/types"
	"github.com/LemoFoundationLtd/lemochain-core/common"
	"github.com/LemoFoundationLtd/lemochain-core/store"

	"verifharness/engine"
	"verifharness/tla"
)

// Address tables (index 1..8 of the spec -> 40 hex nibbles).  The keys of the account trie are
// "0x"+hex, so shared hex prefixes decide which Patricia split/insert case a write or a cached read hits.
func pad(s string) string { return s + strings.Repeat("0", 40-len(s)) }

var tables = map[string][]string{
	// a group under one inner node (ab0..ab3: front / middle / back insertion), keys that split that
	// node's compressed key at different depths (c: 0 shared nibbles, ac: 1), and deep siblings (20, 39)
	"wide": {pad("ab1"), pad("ab3"), pad("ab0"), pad("ab2"), pad("c"),
		pad("ab1")[:39] + "1", pad("ab1")[:20] + "1" + strings.Repeat("0", 19), pad("ac")},
	// prefixes of 39, 20, 1 and 0 nibbles with the first address, then the group
	"deep": {pad("ab1"), pad("ab1")[:39] + "1", pad("ab1")[:20] + "1" + strings.Repeat("0", 19), pad("ac"), pad("c"),
		pad("ab3"), pad("ab0"), pad("ab2")},
}

const valBase = 16 // spec: Val(b, a) = 16*b + a

// Every trace talks about the same 8 addresses (the trace spec's address set is one constant per TLC run);
// a behaviour of a smaller configuration simply never touches the rest, which do not exist on disk.
const nAddr = 8

// Header fields that enter Header.Hash() besides ParentHash and Height.  One of them (the behaviour's `kind`)
// carries the content difference of a block (a value unique to the block id); ALL the others are a function of
// the block's slot alone (slot -> miner and time, the rest constant).  So two blocks of one slot under one
// parent are twins: same height, parent hash, miner, time, roots, gas, ... - only the kind field (hence the
// hash) differs.  The spec never looks at slot or kind: the identity of a block is its hash.
var kinds = []string{"miner", "vroot", "txroot", "logroot", "gaslimit", "gasused", "time", "deputyroot", "extra"}

func uniq(id int) *big.Int { return big.NewInt(int64(0x1d000000 + id)) }

// mkHeader builds the header of block id (slot given by the spec) on parent pb.  vroot (account.Manager mode)
// is the version root the real Manager computed; it is then part of the block's natural content.
func (s *sys) mkHeader(pb *types.Block, id, slot int, vroot *common.Hash) *types.Header {
	if slot < 1 {
		engine.Failf("bad slot %d", slot)
	}
	h := &types.Header{ParentHash: pb.Hash(), Height: pb.Height() + 1,
		MinerAddress: common.BigToAddress(big.NewInt(int64(0x51070000 + slot))), Time: uint32(1000 + 3*slot),
		GasLimit: 105000000, GasUsed: 21000, DeputyRoot: []byte{0xd0}, Extra: "x"}
	if vroot != nil {
		h.VersionRoot = *vroot
	}
	switch s.kind {
	case "miner":
		h.MinerAddress = common.BigToAddress(uniq(id))
	case "vroot":
		if vroot != nil {
			engine.Failf("kind vroot is not available when the version root is computed by account.Manager")
		}
		h.VersionRoot = common.BigToHash(uniq(id))
	case "txroot":
		h.TxRoot = common.BigToHash(uniq(id))
	case "logroot":
		h.LogRoot = common.BigToHash(uniq(id))
	case "gaslimit":
		h.GasLimit += uint64(id)
	case "gasused":
		h.GasUsed += uint64(id)
	case "time":
		h.Time = uint32(2000000 + id)
	case "deputyroot":
		h.DeputyRoot = uniq(id).Bytes()
	case "extra":
		h.Extra = fmt.Sprintf("b%d", id)
	default:
		engine.Failf("unknown kind %q", s.kind)
	}
	return h
}

// tmpl is a header with ParentHash, Height and the kind field blanked: what twins have in common.
type tmpl struct {
	miner                  common.Address
	vroot, txroot, logroot common.Hash
	gaslimit, gasused      uint64
	time                   uint32
	deputyroot, extra      string
}

func (s *sys) template(h *types.Header) tmpl {
	t := tmpl{h.MinerAddress, h.VersionRoot, h.TxRoot, h.LogRoot, h.GasLimit, h.GasUsed, h.Time, string(h.DeputyRoot), h.Extra}
	switch s.kind {
	case "miner":
		t.miner = common.Address{}
	case "vroot":
		t.vroot = common.Hash{}
	case "txroot":
		t.txroot = common.Hash{}
	case "logroot":
		t.logroot = common.Hash{}
	case "gaslimit":
		t.gaslimit = 0
	case "gasused":
		t.gasused = 0
	case "time":
		t.time = 0
	case "deputyroot":
		t.deputyroot = ""
	case "extra":
		t.extra = ""
	}
	if s.am { // the version root computed by the real Manager is content as well
		t.vroot = common.Hash{}
	}
	return t
}

// register gives the new block its id (ids stand for hashes: two blocks with one hash would be a harness bug)
// and reports which earlier blocks of this behaviour agree with it in everything but parent, height and the kind field.
func (s *sys) register(b *types.Block) (id int, agree []int) {
	if old, ok := s.ids[b.Hash()]; ok {
		engine.Failf("harness: new block has the hash of block %d", old)
	}
	agree = []int{}
	t := s.template(b.Header)
	for i, o := range s.blocks {
		if s.template(o.Header) == t {
			agree = append(agree, i)
		}
	}
	id = len(s.blocks)
	s.blocks = append(s.blocks, b)
	s.ids[b.Hash()] = id
	return id, agree
}

type sys struct {
	table  string
	kind   string           // header field that carries the blocks' content difference in this behaviour
	am     bool             // blocks are produced through account.Manager (VersionRoot is the Manager's)
	addrs  []common.Address // index a-1
	dir    string
	db     *store.ChainDatabase
	blocks []*types.Block // by id, 0 = the initial stable block
	ids    map[common.Hash]int
	seq    int
	hist   int  // number of resets so far: every behaviour gets its own (fresh, absent on disk) addresses
	soft   bool // reuse the open database between behaviours (see reset)
	dirty  bool // an operation did not return (panic): the database is in an unknown state
}

// quiesce waits until the asynchronous writer of the store (FileQueue -> bitcask) has drained.  Close()
// with writes still queued leaves the writer goroutine blocked for ever on its error channel (with ~4 MB
// of channel buffers each); shutdown/crash behaviour is C08's subject, here the database is closed quiescent.
func (s *sys) quiesce() {
	q := s.db.Beansdb.Queue
	for i := 0; ; i++ {
		q.IndexRW.RLock()
		n := len(q.Index)
		q.IndexRW.RUnlock()
		if n == 0 && len(q.SyncFileDB.WriteChan) == 0 && len(q.DoneChan) == 0 {
			return
		}
		if i > 600000 { // >= 30 s
			engine.Failf("store write queue did not drain (%d items)", n)
		}
		time.Sleep(50 * time.Microsecond)
	}
}

func (s *sys) closeDB() {
	if s.db != nil {
		s.quiesce()
		s.db.Close()
		s.db = nil
	}
}

func (s *sys) rmDirs() {
	if s.dir != "" {
		os.RemoveAll(s.dir[:len(s.dir)-1] + "0")
		os.RemoveAll(s.dir[:len(s.dir)-1] + "1")
	}
}

func mkAccount(a common.Address, v int) *types.AccountData {
	return &types.AccountData{Address: a, Balance: big.NewInt(int64(v)), NewestRecords: map[types.ChangeLogType]types.VersionRecord{}}
}

func errStr(err error) string {
	if err == nil {
		return ""
	}
	return err.Error()
}

// variant gives behaviour k its own copy of the address table: nibbles 24..31 (zero in every table entry,
// so all pairwise common-prefix lengths are unchanged) carry k.
func variant(hex40 string, k int) string {
	return hex40[:24] + fmt.Sprintf("%08x", k) + hex40[32:]
}

// reset puts the real system into the initial state of a behaviour: a stable block (id 0) that persists
// sv (0 = account absent), no unconfirmed blocks, and the in-memory account trie EMPTY although accounts
// exist on disk - the state of a node that has just been started.
//
//	hard: new directory, genesis written and stabilised, Close(), NewChainDataBase() again.
//	soft (after the first behaviour of a process, only if the previous one ended normally): the open
//	      database is kept; a new child R of the current stable block writes sv for this behaviour's own
//	      addresses and is stabilised (which prunes every leftover block), then LastConfirm's account trie
//	      is replaced by an empty one - exactly what reopening does to it (NewGenesisBlock).  R is id 0.
//
// The Restart ACTION always really closes and reopens the database.
func (s *sys) reset(sv []int, kind string) engine.Fields {
	s.kind = kind
	tab, ok := tables[s.table]
	if !ok || len(tab) != nAddr || len(sv) > nAddr {
		engine.Failf("address table %q has no %d addresses", s.table, len(sv))
	}
	sv = append(append([]int{}, sv...), make([]int, nAddr-len(sv))...)
	s.hist++
	s.addrs = s.addrs[:0]
	hexes := []string{}
	for i := range sv {
		h := "0x" + variant(tab[i], s.hist)
		s.addrs = append(s.addrs, common.HexToAddress(h))
		hexes = append(hexes, h)
	}
	mode := "hard"
	if s.soft && s.db != nil && !s.dirty {
		mode = "soft"
		lb, err := s.db.LoadLatestBlock()
		if err != nil {
			engine.Failf("soft reset: no stable block: %v", err)
		}
		r := &types.Block{Header: &types.Header{ParentHash: lb.Hash(), Height: lb.Height() + 1, Time: uint32(s.hist), Extra: fmt.Sprintf("r%d", s.hist)}}
		if err := s.db.SetBlock(r.Hash(), r); err != nil {
			engine.Failf("soft reset SetBlock: %v", err)
		}
		s.writeInit(r, sv)
		if _, err := s.db.SetStableBlock(r.Hash()); err != nil {
			engine.Failf("soft reset SetStableBlock: %v", err)
		}
		s.db.LastConfirm.AccountTrieDB.SetTrie(store.NewEmptyDatabase())
		s.blocks = []*types.Block{r}
		s.ids = map[common.Hash]int{r.Hash(): 0}
	} else {
		if s.db != nil && !s.dirty {
			s.closeDB()
		}
		s.db, s.dirty = nil, false // after a panic the old handle is abandoned
		base := os.Getenv("VERIF_SCRATCH_DIR")
		if base == "" {
			base = filepath.Join(os.TempDir(), "forkview")
		}
		s.seq++
		s.dir = filepath.Join(base, fmt.Sprintf("fv.%d.%d", os.Getpid(), s.seq%2))
		if err := os.RemoveAll(s.dir); err != nil {
			engine.Failf("rm %s: %v", s.dir, err)
		}
		s.db = store.NewChainDataBase(s.dir)
		g := &types.Block{Header: &types.Header{Height: 0, Extra: "b0"}}
		s.blocks = []*types.Block{g}
		s.ids = map[common.Hash]int{g.Hash(): 0}
		if err := s.db.SetBlock(g.Hash(), g); err != nil {
			engine.Failf("genesis SetBlock: %v", err)
		}
		s.writeInit(g, sv)
		if _, err := s.db.SetStableBlock(g.Hash()); err != nil {
			engine.Failf("genesis SetStableBlock: %v", err)
		}
		s.closeDB()
		s.db = store.NewChainDataBase(s.dir)
	}
	fl := engine.Fields{"naddr": len(sv), "sv": sv, "addrs": hexes, "mode": mode, "kind": kind, "err": ""}
	s.observe(fl)
	return fl
}

func (s *sys) writeInit(b *types.Block, sv []int) {
	v, err := s.db.GetActDatabase(b.Hash())
	if err != nil {
		engine.Failf("initial view: %v", err)
	}
	for i, x := range sv {
		if x != 0 {
			v.Put(mkAccount(s.addrs[i], x), b.Height())
		}
	}
}

func (s *sys) idOf(h common.Hash) int {
	if id, ok := s.ids[h]; ok {
		return id
	}
	return -1
}

// balance of a persisted account, 0 when it does not exist, -1 on any other error
func (s *sys) diskVal(a common.Address) int {
	acc, err := s.db.GetAccount(a)
	if err == store.ErrAccountNotExist {
		return 0
	}
	if err != nil || acc == nil || acc.Balance == nil {
		return -1
	}
	return int(acc.Balance.Int64())
}

// probe: what a read of a through the view yields, WITHOUT the cache insertion of AccountTrieDB.Get
// (disk = the persisted value read by GetAccount during this same observation)
func (s *sys) probe(v *store.AccountTrieDB, a common.Address, disk int) int {
	d := v.GetTrie().Find(a.Hex())
	if d == nil {
		return disk
	}
	acc, ok := d.(*types.AccountData)
	if !ok || acc == nil || acc.Balance == nil {
		return -2
	}
	if acc.Address != a {
		return -3
	}
	return int(acc.Balance.Int64())
}

func (s *sys) observe(fl engine.Fields) {
	unconf := []int{}
	s.db.IterateUnConfirms(func(b *types.Block) { unconf = append(unconf, s.idOf(b.Hash())) })
	sort.Ints(unconf)
	fl["unconf"] = unconf
	stable, stableH := -1, uint32(0)
	if lb, err := s.db.LoadLatestBlock(); err == nil && lb != nil {
		stable, stableH = s.idOf(lb.Hash()), lb.Height()
	}
	fl["stable"] = stable
	exist := []int{}
	for id, b := range s.blocks {
		if ok, err := s.db.IsExistByHash(b.Hash()); err == nil && ok {
			exist = append(exist, id)
		}
	}
	fl["exist"] = exist
	disk := []int{}
	for _, a := range s.addrs {
		disk = append(disk, s.diskVal(a))
	}
	fl["disk"] = disk
	views := [][]int{}
	anc := [][]int{}
	look := append([]int{}, unconf...)
	if stable >= 0 {
		look = append(look, stable)
	}
	for _, id := range look {
		if id < 0 {
			continue
		}
		v, err := s.db.GetActDatabase(s.blocks[id].Hash())
		row := []int{id}
		for i, a := range s.addrs {
			if err != nil || v == nil {
				row = append(row, -4)
			} else {
				row = append(row, s.probe(v, a, disk[i]))
			}
		}
		views = append(views, row)
		if id == stable {
			continue
		}
		chain := []int{id}
		for h := stableH + 1; h <= s.blocks[id].Height(); h++ {
			b, err := s.db.GetUnConfirmByHeight(h, s.blocks[id].Hash())
			if err != nil || b == nil {
				chain = append(chain, -1)
			} else {
				chain = append(chain, s.idOf(b.Hash()))
			}
		}
		anc = append(anc, chain)
	}
	fl["views"] = views
	fl["anc"] = anc
}

func (s *sys) block(id int) *types.Block {
	if id < 0 || id >= len(s.blocks) {
		engine.Failf("unknown block id %d", id)
	}
	return s.blocks[id]
}

func (s *sys) addBlock(p, slot int) engine.Fields {
	pb := s.block(p)
	b := &types.Block{Header: s.mkHeader(pb, len(s.blocks), slot, nil)}
	id, agree := s.register(b)
	err := s.db.SetBlock(b.Hash(), b)
	fl := engine.Fields{"id": id, "agree": agree, "err": errStr(err)}
	s.observe(fl)
	return fl
}

func (s *sys) addr(a int) common.Address {
	if a < 1 || a > len(s.addrs) {
		engine.Failf("unknown address index %d", a)
	}
	return s.addrs[a-1]
}

func (s *sys) put(b, a int) engine.Fields {
	blk := s.block(b)
	v, err := s.db.GetActDatabase(blk.Hash())
	if err == nil {
		v.Put(mkAccount(s.addr(a), valBase*b+a), blk.Height())
	}
	fl := engine.Fields{"err": errStr(err)}
	s.observe(fl)
	return fl
}

func (s *sys) get(b, a int) engine.Fields {
	blk := s.block(b)
	v, err := s.db.GetActDatabase(blk.Hash())
	val := -1
	if err == nil {
		acc, gerr := v.Get(s.addr(a))
		switch {
		case gerr == store.ErrAccountNotExist:
			val = 0
		case gerr != nil:
			err = gerr
		case acc == nil || acc.Balance == nil:
			val = -2
		case acc.Address != s.addr(a):
			val = -3
		default:
			val = int(acc.Balance.Int64())
		}
	}
	fl := engine.Fields{"val": val, "err": errStr(err)}
	s.observe(fl)
	return fl
}

func (s *sys) setStable(b int) engine.Fields {
	dropped, err := s.db.SetStableBlock(s.block(b).Hash())
	ids := []int{}
	for _, d := range dropped {
		ids = append(ids, s.idOf(d.Hash()))
	}
	sort.Ints(ids)
	fl := engine.Fields{"dropped": ids, "err": errStr(err)}
	s.observe(fl)
	return fl
}

func (s *sys) restart() engine.Fields {
	s.closeDB()
	s.db = store.NewChainDataBase(s.dir)
	fl := engine.Fields{"err": ""}
	s.observe(fl)
	return fl
}

// do performs one spec action on the real system.  dirty stays set when the real code panics.
func (s *sys) do(ev string, a []int) engine.Fields {
	need := map[string]int{"AddBlock": 2, "Put": 2, "Get": 2, "SetStable": 1, "Restart": 0}
	if n, ok := need[ev]; !ok || len(a) != n {
		engine.Failf("bad action %s%v", ev, a)
	}
	s.dirty = true
	var fl engine.Fields
	switch ev {
	case "AddBlock":
		fl = s.addBlock(a[0], a[1])
	case "Put":
		fl = s.put(a[0], a[1])
	case "Get":
		fl = s.get(a[0], a[1])
	case "SetStable":
		fl = s.setStable(a[0])
	case "Restart":
		fl = s.restart()
	}
	s.dirty = false
	return fl
}

// ---------------------------------------------------------------- replay adapter
type adapter struct{ s sys }

func (a *adapter) Reset(init map[string]tla.Value) (engine.Fields, error) {
	sv, ok := init["sv"]
	if !ok {
		return nil, fmt.Errorf("initial state has no sv")
	}
	kind, ok := init["kind"]
	if !ok {
		return nil, fmt.Errorf("initial state has no kind")
	}
	return a.s.reset(sv.Ints(), kind.S()), nil
}

func (a *adapter) Apply(st engine.Step) (engine.Fields, error) {
	args := make([]int, len(st.Act.Args))
	for i, x := range st.Act.Args {
		args[i] = x.I()
	}
	return a.s.do(st.Act.Name, args), nil
}

func (a *adapter) Close() {
	a.s.closeDB()
	a.s.rmDirs()
}

// ---------------------------------------------------------------- seeded random histories
// The driver only generates VALID inputs (it tracks which blocks are alive and which (block, address)
// pairs were written, exactly the enabling conditions of the spec actions); results are judged by TLC.
func driveRand(args []string) error {
	fs := flag.NewFlagSet("forkview-rand", flag.ContinueOnError)
	out := fs.String("out", "trace.ndjson", "")
	seed := fs.Int64("seed", 1, "")
	hist := fs.Int("n", 100, "histories")
	steps := fs.Int("steps", 40, "operations per history")
	naddr := fs.Int("naddr", 8, "")
	maxLive := fs.Int("maxlive", 7, "")
	maxWrites := fs.Int("maxwrites", 4, "")
	table := fs.String("table", "wide", "")
	hard := fs.Bool("hard", false, "new database directory and real reopen for every history")
	pRestart := fs.Int("restart", 2, "percent of steps that really close and reopen the database")
	nslots := fs.Int("slots", 2, "slots (miner, time) handed to new blocks: 1..slots; blocks of one slot under one parent are twins")
	viaAM := fs.Bool("am", false, "produce every block through account.Manager (GetAccount via the parent's view, SetBalance, Finalise, SetBlock, Save)")
	if err := fs.Parse(args); err != nil {
		return err
	}
	f, err := os.Create(*out)
	if err != nil {
		return err
	}
	defer f.Close()
	w := bufio.NewWriterSize(f, 1<<20)
	defer w.Flush()
	enc := json.NewEncoder(w)
	rng := rand.New(rand.NewSource(*seed))
	s := &sys{table: *table, soft: !*hard, am: *viaAM}
	defer func() {
		s.closeDB()
		s.rmDirs()
	}()
	lines, panics := 0, 0
	emit := func(ev string, beh, step int, a interface{}, fl engine.Fields) error {
		fl["ev"], fl["beh"], fl["step"] = ev, beh, step
		if a != nil {
			fl["a"] = a
		}
		lines++
		return enc.Encode(fl)
	}
	for h := 0; h < *hist; h++ {
		sv := make([]int, *naddr)
		for i := range sv {
			if rng.Intn(5) > 0 {
				sv[i] = i + 1
			}
		}
		kind := kinds[rng.Intn(len(kinds))]
		for *viaAM && kind == "vroot" { // the version root is the real Manager's there
			kind = kinds[rng.Intn(len(kinds))]
		}
		if err := emit("reset", h, 0, nil, s.reset(sv, kind)); err != nil {
			return err
		}
		parent := map[int]int{} // live blocks
		stable := 0
		written := map[[2]int]bool{}
		nw := map[int]int{}
		isLeaf := func(b int) bool {
			for _, p := range parent {
				if p == b {
					return false
				}
			}
			return true
		}
		live := func() []int {
			var l []int
			for b := range parent {
				l = append(l, b)
			}
			sort.Ints(l)
			return l
		}
		for st := 1; st <= *steps; st++ {
			l := live()
			var ev string
			var a []int
			switch r := rng.Intn(100); {
			case r < 22 && len(l) < *maxLive:
				p := stable
				if len(l) > 0 && rng.Intn(4) > 0 {
					p = l[rng.Intn(len(l))]
				}
				ev, a = "AddBlock", []int{p, 1 + rng.Intn(*nslots)}
			case r < 52:
				var cand [][2]int
				for _, b := range l {
					if isLeaf(b) && nw[b] < *maxWrites {
						for x := 1; x <= *naddr; x++ {
							if !written[[2]int{b, x}] {
								cand = append(cand, [2]int{b, x})
							}
						}
					}
				}
				if len(cand) == 0 {
					continue
				}
				c := cand[rng.Intn(len(cand))]
				ev, a = "Put", []int{c[0], c[1]}
			case r < 88:
				b := stable
				if len(l) > 0 && rng.Intn(6) > 0 {
					b = l[rng.Intn(len(l))]
				}
				ev, a = "Get", []int{b, 1 + rng.Intn(*naddr)}
			case r < 96:
				if len(l) == 0 {
					continue
				}
				ev, a = "SetStable", []int{l[rng.Intn(len(l))]}
			case r < 96+*pRestart:
				ev = "Restart"
				a = []int{}
			default:
				continue
			}
			if *viaAM && ev == "Put" {
				continue // blocks are written by Manager.Save only
			}
			if *viaAM && ev == "AddBlock" {
				// read set and write set of the new block (disjoint; the written accounts are read first, as a transaction does)
				perm := rng.Perm(*naddr)
				nwr, nrd := rng.Intn(*maxWrites+1), rng.Intn(3)
				if nwr+nrd > *naddr {
					nrd = *naddr - nwr
				}
				var wset, rset []int
				for _, x := range perm[:nwr] {
					wset = append(wset, x+1)
				}
				for _, x := range perm[nwr : nwr+nrd] {
					rset = append(rset, x+1)
				}
				evs, pmsg := s.amBlock(a[0], a[1], rset, wset, rng)
				for _, e := range evs {
					if err := emit(e.ev, h, st, e.a, e.fl); err != nil {
						return err
					}
				}
				if pmsg != "" {
					panics++
					break
				}
				id := len(s.blocks) - 1
				parent[id] = a[0]
				for _, x := range wset {
					written[[2]int{id, x}] = true
				}
				nw[id] = *maxWrites // a block is written once, by Save
				continue
			}
			fl, pmsg := safe(func() engine.Fields { return s.do(ev, a) })
			if pmsg != "" {
				fl = engine.Fields{"panic": pmsg}
				panics++
			}
			if err := emit(ev, h, st, a, fl); err != nil {
				return err
			}
			if pmsg != "" {
				break
			}
			// bookkeeping of the inputs' enabling conditions
			switch ev {
			case "AddBlock":
				parent[len(s.blocks)-1] = a[0]
			case "Put":
				written[[2]int{a[0], a[1]}] = true
				nw[a[0]]++
			case "SetStable":
				keep := map[int]int{}
				for b, p := range parent {
					for x := p; ; x = parent[x] {
						if x == a[0] {
							keep[b] = p
							break
						}
						if _, ok := parent[x]; !ok {
							break
						}
					}
				}
				parent, stable = keep, a[0]
			case "Restart":
				parent = map[int]int{}
			}
		}
	}
	fmt.Printf("{\"histories\": %d, \"lines\": %d, \"panics\": %d}\n", *hist, lines, panics)
	return nil
}

type amEvent struct {
	ev string
	a  interface{}
	fl engine.Fields
}

// amBlock produces block len(s.blocks) on parent p the way the node does (consensus/dpovp.go, chain/genesis.go):
// an account.Manager based on the parent loads the accounts it touches THROUGH THE PARENT'S VIEW
// (AccountTrieDB.Get, populating its cache), changes the balances of the write set, Finalise gives the version
// root for the header, SetBlock, then Manager.Save(hash) puts the dirty accounts into the new block's view.
// Events: Get(p, a) per loaded account, AddBlock(p, slot), Save(b, writeSet).
func (s *sys) amBlock(p, slot int, rset, wset []int, rng *rand.Rand) (evs []amEvent, pmsg string) {
	cur, curA := "Get", interface{}([]int{p, 0})
	defer func() {
		if r := recover(); r != nil {
			if he, ok := r.(engine.HarnessError); ok {
				panic(he)
			}
			pmsg = fmt.Sprintf("%v\n%s", r, debug.Stack())
			if len(pmsg) > 1500 {
				pmsg = pmsg[:1500]
			}
			evs = append(evs, amEvent{cur, curA, engine.Fields{"panic": pmsg}})
		}
	}()
	s.dirty = true
	pb := s.block(p)
	id := len(s.blocks)
	am := account.NewManager(pb.Hash(), s.db)
	touch := append(append([]int{}, wset...), rset...)
	rng.Shuffle(len(touch), func(i, j int) { touch[i], touch[j] = touch[j], touch[i] })
	isW := map[int]bool{}
	for _, a := range wset {
		isW[a] = true
	}
	for _, a := range touch {
		cur, curA = "Get", []int{p, a}
		acc := am.GetAccount(s.addr(a))
		val := -2
		if bal := acc.GetBalance(); bal != nil {
			val = int(bal.Int64())
		}
		if acc.GetAddress() != s.addr(a) {
			val = -3
		}
		fl := engine.Fields{"val": val, "err": ""}
		s.observe(fl)
		evs = append(evs, amEvent{"Get", []int{p, a}, fl})
		if isW[a] {
			acc.SetBalance(big.NewInt(int64(valBase*id + a)))
		}
	}
	cur, curA = "AddBlock", []int{p, slot}
	if err := am.Finalise(); err != nil {
		engine.Failf("Finalise: %v", err)
	}
	vroot := am.GetVersionRoot()
	b := &types.Block{Header: s.mkHeader(pb, id, slot, &vroot)}
	_, agree := s.register(b)
	err := s.db.SetBlock(b.Hash(), b)
	fl := engine.Fields{"id": id, "agree": agree, "err": errStr(err)}
	s.observe(fl)
	evs = append(evs, amEvent{"AddBlock", []int{p, slot}, fl})
	sorted := append([]int{}, wset...)
	sort.Ints(sorted)
	cur, curA = "Save", []interface{}{id, sorted}
	err = am.Save(b.Hash())
	fl = engine.Fields{"err": errStr(err)}
	s.observe(fl)
	evs = append(evs, amEvent{"Save", []interface{}{id, sorted}, fl})
	s.dirty = false
	return evs, ""
}

func safe(f func() engine.Fields) (fl engine.Fields, pmsg string) {
	defer func() {
		if r := recover(); r != nil {
			if he, ok := r.(engine.HarnessError); ok {
				panic(he)
			}
			pmsg = fmt.Sprintf("%v\n%s", r, debug.Stack())
			if len(pmsg) > 1500 {
				pmsg = pmsg[:1500]
			}
		}
	}()
	return f(), ""
}

func init() {
	soft := os.Getenv("VERIF_FORKVIEW_HARD") == ""
	engine.Register("forkview", func() engine.Adapter { return &adapter{s: sys{table: "wide", soft: soft}} })
	engine.Register("forkview-deep", func() engine.Adapter { return &adapter{s: sys{table: "deep", soft: soft}} })
	engine.RegisterDriver("forkview-rand", driveRand)
}
