package adapters

import _ "verifharness/adapters/forkview"
