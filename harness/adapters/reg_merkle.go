package adapters

import _ "verifharness/adapters/merkle"
