// Package blockexec binds spec/BlockExec.tla to the real block execution paths (C01): for every candidate list
// TLC offers, node A mines with the real assembler (TxProcessor.ApplyTxs: snapshot / discard), node A2 mines again
// from the included list only, node B validates through DPoVP.InsertBlock (TxProcessor.Process), node C validates
// after having executed a different sibling block first, and B re-validates after a restart.  Logged: block hashes,
// verdicts and a field-for-field dump of every account of the universe as seen by each node.
package blockexec

import (
	"crypto/ecdsa"
	"crypto/sha256"
	"encoding/hex"
	"encoding/json"
	"fmt"
	"math/big"
	"os"
	"path/filepath"
	"sort"

	"github.com/LemoFoundationLtd/lemochain-core/chain/account"
	"github.com/LemoFoundationLtd/lemochain-core/chain/deputynode"
	"github.com/LemoFoundationLtd/lemochain-core/chain/params"
	"github.com/LemoFoundationLtd/lemochain-core/chain/transaction"
	"github.com/LemoFoundationLtd/lemochain-core/chain/types"
	"github.com/LemoFoundationLtd/lemochain-core/common"
	"github.com/LemoFoundationLtd/lemochain-core/common/crypto"
	"github.com/LemoFoundationLtd/lemochain-core/store"

	"verifharness/engine"
	"verifharness/node"
	"verifharness/tla"
)

const nDeputies = 3

// every block of a scenario has this gas limit, so that a candidate can run into the end of the block
const blockGasLimit = 1500000

var gasPrice = big.NewInt(1000000000)

type adapter struct {
	w                      *node.World
	dir                    string
	seq                    int
	a, a2, b, c            *node.Node
	tip                    *types.Block // current head (same block on every node)
	chain                  []*types.Block
	height                 int
	txs                    map[string]*types.Transaction
	addrs                  []common.Address
	r1k, poork             *ecdsa.PrivateKey
	r1, r2, poor, contract common.Address
	y                      common.Address // an address nothing committed ever pays before "cfwd"
	many                   []common.Address
	side                   int
	used                   map[string]bool
}

// the order in which the miner tries the not yet offered transactions on a throwaway block before the real one
var canon = []string{"fund", "create", "vote", "spend", "votep", "call", "revert", "boxok", "boxbad", "boxfull", "cfwd", "poor", "badsig",
	"overspend", "votebad", "boxmany", "modsig", "big"}

func detKey(tag byte) *ecdsa.PrivateKey {
	b := make([]byte, 32)
	b[0], b[1], b[31] = 0x22, tag, 1
	k, err := crypto.ToECDSA(b)
	if err != nil {
		panic(err)
	}
	return k
}

func (a *adapter) mk(kind string, from common.Address, key *ecdsa.PrivateKey, to *common.Address, amount int64, txType uint16, data []byte, gas uint64) {
	exp := uint64(node.GenesisTime) + 1000
	var tx *types.Transaction
	if to == nil {
		tx = types.NewContractCreation(from, big.NewInt(amount), gas, gasPrice, data, txType, node.ChainID, exp, "", kind)
	} else {
		tx = types.NewTransaction(from, *to, big.NewInt(amount), gas, gasPrice, data, txType, node.ChainID, exp, "", kind)
	}
	stx, err := types.DefaultSigner{}.SignTx(tx, key)
	if err != nil {
		panic(err)
	}
	a.txs[kind] = stx
}

func (a *adapter) init() {
	a.dir = os.Getenv("VERIF_SCRATCH_DIR")
	if a.dir == "" {
		a.dir = filepath.Join(os.TempDir(), fmt.Sprintf("verif-blockexec-%d", os.Getpid()))
	}
	a.w = node.NewWorld(nDeputies, 1000)
	deputynode.SetSelfNodeKey(a.w.Outsider2())
	a.r1k, a.poork = detKey(1), detKey(3)
	a.r1 = crypto.PubkeyToAddress(a.r1k.PublicKey)
	a.r2 = crypto.PubkeyToAddress(detKey(2).PublicKey)
	a.poor = crypto.PubkeyToAddress(a.poork.PublicKey)
	a.y = crypto.PubkeyToAddress(detKey(4).PublicKey)
	a.txs = map[string]*types.Transaction{}
	f, fk := a.w.Founder, a.w.FounderKey
	lemo := int64(1000000000) // amounts in units that keep r1 able to pay gas: 1e18 mo = 1 LEMO
	a.mk("fund", f, fk, &a.r1, 5000*lemo*lemo/lemo, params.OrdinaryTx, nil, 100000)
	// fund: 5000 LEMO would overflow int64 in mo; use SetString below
	{
		amt, _ := new(big.Int).SetString("5000000000000000000000", 10)
		tx := types.NewTransaction(f, a.r1, amt, 100000, gasPrice, nil, params.OrdinaryTx, node.ChainID, uint64(node.GenesisTime)+1000, "", "fund")
		stx, _ := types.DefaultSigner{}.SignTx(tx, fk)
		a.txs["fund"] = stx
	}
	a.mk("spend", a.r1, a.r1k, &a.r2, 7*lemo, params.OrdinaryTx, nil, 100000)
	a.mk("poor", a.poor, a.poork, &a.r2, 1, params.OrdinaryTx, nil, 100000)
	a.mk("badsig", f, a.w.Outsider, &a.r2, 9*lemo, params.OrdinaryTx, nil, 100000)
	{
		amt, _ := new(big.Int).SetString("6000000000000000000000", 10)
		tx := types.NewTransaction(a.r1, a.r2, amt, 100000, gasPrice, nil, params.OrdinaryTx, node.ChainID, uint64(node.GenesisTime)+1000, "", "overspend")
		stx, _ := types.DefaultSigner{}.SignTx(tx, a.r1k)
		a.txs["overspend"] = stx
	}
	a.mk("votebad", f, fk, &a.r2, 0, params.VoteTx, nil, 100000)
	a.mk("vote", f, fk, &a.w.Miners[0], 0, params.VoteTx, nil, 100000)
	a.mk("votep", a.r1, a.r1k, &a.w.Miners[1], 0, params.VoteTx, nil, 100000)
	// init code: SSTORE(0, 0x2a); SSTORE(1, 0x07); return empty runtime code
	a.mk("create", f, fk, nil, 0, params.CreateContractTx, common.FromHex("0x602a600055600760015560006000f3"), 500000)
	a.contract = crypto.CreateContractAddress(f, a.txs["create"].Hash())
	a.mk("call", f, fk, &a.contract, 3*lemo, params.OrdinaryTx, []byte{1, 2, 3, 4}, 200000)
	a.mk("revert", f, fk, nil, 0, params.CreateContractTx, common.FromHex("0x602a60005560006000fd"), 500000)
	// boxes: the box transaction pays its own gas; every sub-transaction is signed and paid by its own sender
	// cfwd: init code CALLs y with 1 wei (gas of a CALL with value depends on whether y is an empty account), no runtime code
	a.mk("cfwd", f, fk, nil, 5, params.CreateContractTx, common.FromHex("0x6000600060006000600173"+hex.EncodeToString(a.y.Bytes())+"6000f15060006000f3"), 500000)
	// modsig: r1 hands its account to another signer; r1's own signature authorises nothing afterwards
	{
		data, err := json.Marshal(transaction.ModifySigners{Signers: types.Signers{{Address: crypto.PubkeyToAddress(a.w.Outsider.PublicKey), Weight: 100}}})
		if err != nil {
			panic(err)
		}
		a.mk("modsig", a.r1, a.r1k, &a.r1, 0, params.ModifySignersTx, data, 200000)
	}
	sub := func(to common.Address, from common.Address, key *ecdsa.PrivateKey, amount int64, gas uint64, tag string) *types.Transaction {
		tx := types.NewTransaction(from, to, big.NewInt(amount), gas, gasPrice, nil, params.OrdinaryTx, node.ChainID, uint64(node.GenesisTime)+1000, "", tag)
		stx, err := types.DefaultSigner{}.SignTx(tx, key)
		if err != nil {
			panic(err)
		}
		return stx
	}
	mkbox := func(kind string, subs ...*types.Transaction) {
		data, err := types.MarshalBoxData(subs)
		if err != nil {
			panic(err)
		}
		tx := types.NoReceiverTransaction(f, big.NewInt(0), 200000, gasPrice, data, params.BoxTx, node.ChainID, uint64(node.GenesisTime)+1000, "", kind)
		stx, err := types.DefaultSigner{}.SignTx(tx, fk)
		if err != nil {
			panic(err)
		}
		a.txs[kind] = stx
	}
	// big: a cheap transfer whose gas LIMIT is the whole block but for 20000: it fits only while nothing was packaged before it
	a.mk("big", f, fk, &a.r2, 1, params.OrdinaryTx, nil, blockGasLimit-20000)
	// boxmany: a box of 12 transfers to 12 accounts nobody else touches (a block with many change logs on many accounts)
	{
		var subs []*types.Transaction
		for i := 0; i < 12; i++ {
			to := crypto.PubkeyToAddress(detKey(byte(40 + i)).PublicKey)
			a.many = append(a.many, to)
			subs = append(subs, sub(to, f, fk, int64(100+i), 30000, fmt.Sprintf("bm%d", i)))
		}
		data, err := types.MarshalBoxData(subs)
		if err != nil {
			panic(err)
		}
		tx := types.NoReceiverTransaction(f, big.NewInt(0), 600000, gasPrice, data, params.BoxTx, node.ChainID, uint64(node.GenesisTime)+1000, "", "boxmany")
		stx, err := types.DefaultSigner{}.SignTx(tx, fk)
		if err != nil {
			panic(err)
		}
		a.txs["boxmany"] = stx
	}
	// the first sub-transaction of the two boxes that are never packaged pays y: nothing of it may survive the box
	mkbox("boxok", sub(a.r2, f, fk, 5, 30000, "bo1"), sub(a.r2, f, fk, 6, 30000, "bo2"))
	mkbox("boxfull", sub(a.y, f, fk, 7, 30000, "bf1"), sub(a.r2, f, fk, 8, blockGasLimit+500000, "bf2"))
	mkbox("boxbad", sub(a.y, f, fk, 9, 30000, "bb1"), sub(a.r2, a.poor, a.poork, 1, 30000, "bb2"))
	a.addrs = append([]common.Address{f, a.r1, a.r2, a.poor, a.y, a.contract, crypto.CreateContractAddress(f, a.txs["revert"].Hash()),
		crypto.CreateContractAddress(f, a.txs["cfwd"].Hash())}, a.w.Miners...)
	a.addrs = append(a.addrs, a.many...)
}

func (a *adapter) destroy() {
	for _, n := range []*node.Node{a.a, a.a2, a.b, a.c} {
		if n != nil {
			n.Destroy()
		}
	}
	a.a, a.a2, a.b, a.c = nil, nil, nil, nil
}

func (a *adapter) Reset(init map[string]tla.Value) (engine.Fields, error) {
	if a.w == nil {
		a.init()
	}
	a.destroy()
	a.seq++
	base := filepath.Join(a.dir, fmt.Sprintf("t%d", a.seq))
	a.a = a.w.NewNode(filepath.Join(base, "A"))
	a.a2 = a.w.NewNode(filepath.Join(base, "A2"))
	a.b = a.w.NewNode(filepath.Join(base, "B"))
	a.c = a.w.NewNode(filepath.Join(base, "C"))
	a.tip = a.a.Genesis
	a.chain = nil
	a.height = 0
	a.used = map[string]bool{}
	return engine.Fields{}, nil
}

// dump renders every observable field of every account of the universe at block hash, as seen through db.
func (a *adapter) dump(db *store.ChainDatabase, hash common.Hash) (string, []map[string]interface{}) {
	am := account.NewManager(hash, db)
	var out []map[string]interface{}
	for _, ad := range a.addrs {
		acc := am.GetAccount(ad)
		m := map[string]interface{}{"addr": ad.String(), "balance": acc.GetBalance().String(), "votes": acc.GetVotes().String(),
			"voteFor": acc.GetVoteFor().String(), "codeHash": acc.GetCodeHash().Hex(), "storageRoot": acc.GetStorageRoot().Hex(),
			"assetCodeRoot": acc.GetAssetCodeRoot().Hex(), "assetIdRoot": acc.GetAssetIdRoot().Hex(), "equityRoot": acc.GetEquityRoot().Hex(),
			"suicide": acc.GetSuicide()}
		prof := acc.GetCandidate()
		keys := make([]string, 0, len(prof))
		for k := range prof {
			keys = append(keys, k)
		}
		sort.Strings(keys)
		ps := []string{}
		for _, k := range keys {
			ps = append(ps, k+"="+prof[k])
		}
		m["candidate"] = ps
		st := []string{}
		for i := 0; i < 3; i++ {
			v, err := acc.GetStorageState(common.BigToHash(big.NewInt(int64(i))))
			if err != nil {
				st = append(st, "err:"+err.Error())
			} else {
				st = append(st, hex.EncodeToString(v))
			}
		}
		m["storage"] = st
		code, _ := acc.GetCode()
		m["code"] = hex.EncodeToString(code)
		sg := []string{}
		for _, s := range acc.GetSigners() {
			sg = append(sg, fmt.Sprintf("%s:%d", s.Address.String(), s.Weight))
		}
		m["signers"] = sg
		vers := []string{}
		for t := 1; t <= 20; t++ {
			vers = append(vers, fmt.Sprintf("%d", acc.GetVersion(types.ChangeLogType(t))))
		}
		m["versions"] = vers
		out = append(out, m)
	}
	js, _ := json.Marshal(out)
	sum := sha256.Sum256(js)
	return hex.EncodeToString(sum[:10]), out
}

func ids(m map[string]*types.Transaction, txs types.Transactions) []string {
	out := []string{}
	for _, tx := range txs {
		id := "?"
		for k, v := range m {
			if v.Hash() == tx.Hash() {
				id = k
			}
		}
		out = append(out, id)
	}
	return out
}

func (a *adapter) Apply(s engine.Step) (engine.Fields, error) {
	if s.Act.Name != "Mine" {
		return nil, fmt.Errorf("unknown action %s", s.Act.Name)
	}
	var cands types.Transactions
	for _, k := range s.Act.Args[0].Strs() {
		tx, ok := a.txs[k]
		if !ok {
			engine.Failf("unknown tx kind %s", k)
		}
		cands = append(cands, tx)
	}
	a.height++
	rank := (a.height - 1) % nDeputies
	extra := fmt.Sprintf("h%d", a.height)
	fl := engine.Fields{}
	small := func(h *types.Header) { h.GasLimit = blockGasLimit }
	// node A first tries every transaction it has not been offered yet on a block it then throws away (a mining attempt
	// that lost its slot, a fork it abandoned): whatever that left in caches or in memory must not matter afterwards
	{
		var pre types.Transactions
		for i := range canon {
			k := canon[i] // the order in which most of them are valid; every fourth scenario tries another order
			if a.seq%4 == 3 {
				k = canon[(i+a.seq+a.height)%len(canon)]
			}
			if !a.used[k] {
				pre = append(pre, a.txs[k])
			}
		}
		if _, _, err := a.a.BuildWith(a.tip, rank, 0, pre, extra+"pre", small, false); err != nil {
			return nil, fmt.Errorf("miner A throwaway block: %v", err)
		}
		for _, k := range s.Act.Args[0].Strs() {
			a.used[k] = true
		}
	}
	// node A: the honest miner, offered the whole candidate list
	blk, invalid, err := a.a.BuildWith(a.tip, rank, 0, cands, extra, small, true)
	if err != nil {
		return nil, fmt.Errorf("miner A: %v", err)
	}
	fl["included"], fl["discarded"] = ids(a.txs, blk.Txs), ids(a.txs, invalid)
	fl["hashA"] = blk.Hash().Hex()
	fl["gasUsed"] = int(blk.GasUsed())
	dA, full := a.dump(a.a.DB, blk.Hash())
	fl["stateA"] = dA
	fl["accounts"] = full
	// node C first executes a sibling block with other content (its caches and account manager differ from B's)
	a.side++
	sideTx := types.NewTransaction(a.w.Founder, a.r2, big.NewInt(int64(1000+a.side)), 100000, gasPrice, nil, params.OrdinaryTx, node.ChainID,
		uint64(node.GenesisTime)+1000, "", fmt.Sprintf("side%d", a.side))
	sideTx, _ = types.DefaultSigner{}.SignTx(sideTx, a.w.FounderKey)
	if _, _, err := a.c.Build(a.tip, (rank+1)%nDeputies, 0, types.Transactions{sideTx}, extra+"side"); err != nil {
		return nil, fmt.Errorf("node C side block: %v", err)
	}
	// validators B and C: the block as a peer delivers it
	_, errB := a.b.DP.InsertBlock(node.Copy(blk, nil))
	_, errC := a.c.DP.InsertBlock(node.Copy(blk, nil))
	fl["okB"], fl["okC"] = errB == nil, errC == nil
	fl["stateB"], fl["stateC"] = "", ""
	if errB == nil {
		fl["stateB"], _ = a.dump(a.b.DB, blk.Hash())
	}
	if errC == nil {
		fl["stateC"], _ = a.dump(a.c.DB, blk.Hash())
	}
	// node A2: a second miner offered ONLY the included transactions must seal the very same block
	blk2, inv2, err := a.a2.BuildWith(a.tip, rank, 0, blk.Txs, extra, small, true)
	if err != nil {
		return nil, fmt.Errorf("miner A2: %v", err)
	}
	fl["hashA2"] = blk2.Hash().Hex()
	fl["discardedA2"] = len(inv2)
	// node B restarts now (it loses its unconfirmed blocks), is fed the chain again and must reach the same state
	dirB := a.b.Dir
	a.b.Close()
	a.b = a.w.NewNode(dirB)
	a.chain = append(a.chain, blk)
	fl["okBrestart"], fl["stateBrestart"] = true, ""
	for _, cb := range a.chain {
		if _, err := a.b.DP.InsertBlock(node.Copy(cb, nil)); err != nil {
			fl["okBrestart"] = false
		}
	}
	if fl["okBrestart"].(bool) {
		fl["stateBrestart"], _ = a.dump(a.b.DB, blk.Hash())
	}
	a.tip = blk
	return fl, nil
}

func (a *adapter) Close() { a.destroy() }

func init() { engine.Register("blockexec", func() engine.Adapter { return &adapter{} }) }
