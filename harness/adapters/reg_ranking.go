package adapters

import _ "verifharness/adapters/ranking"
