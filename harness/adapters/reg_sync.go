package adapters

import _ "verifharness/adapters/sync"
