package adapters

import _ "verifharness/adapters/schedule"
