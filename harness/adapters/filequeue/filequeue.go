// Package filequeue binds spec/FileQueue.tla to the real store write pipeline (ChainDatabase.Beansdb: FileQueue + SyncFileDB):
// the background writer is held at BARRIER records (through the exported WriteExtend callback, which the writer calls
// after each record it has written), so that the schedules TLC generates are realised: in front of every test record a
// barrier record is queued; releasing the current barrier lets the writer write exactly one test record and send its
// done notice, then it stops at the next barrier.  Reads go through the real BeansDB.Get.
package filequeue

import (
	"encoding/binary"
	"fmt"
	"os"
	"path/filepath"
	"sync"
	"time"

	"github.com/LemoFoundationLtd/lemochain-core/store"
	"github.com/LemoFoundationLtd/lemochain-core/store/leveldb"

	"verifharness/engine"
	"verifharness/tla"
)

type gate struct {
	inner   store.WriteExtend
	mu      sync.Mutex
	reached map[string]chan struct{} // closed by the writer when it has written that barrier
	hold    map[string]chan struct{} // closed to let the writer go on
}

func (g *gate) barrier(key []byte) {
	g.mu.Lock()
	defer g.mu.Unlock()
	g.reached[string(key)] = make(chan struct{})
	g.hold[string(key)] = make(chan struct{})
}

func (g *gate) After(flg uint32, key []byte, val []byte) error {
	g.mu.Lock()
	r, h := g.reached[string(key)], g.hold[string(key)]
	g.mu.Unlock()
	if r != nil {
		close(r)
		<-h
	}
	return g.inner.After(flg, key, val)
}

type adapter struct {
	dir      string
	seq      int
	db       *store.ChainDatabase
	g        *gate
	barriers [][]byte // barriers queued and not yet released, in queue order
	nbar     int
	atGate   bool // the writer is standing at barriers[0]
}

func key(tag byte, n int) []byte {
	k := make([]byte, 32)
	k[0], k[1] = 0x7f, tag
	binary.BigEndian.PutUint32(k[28:], uint32(n))
	return k
}

func testKey(id string) []byte {
	if id == "x" {
		return key(1, 1)
	}
	return key(1, 2)
}

func (a *adapter) closeDB() {
	if a.db == nil {
		return
	}
	// let the writer run to the end, then close
	a.g.mu.Lock()
	for _, h := range a.g.hold {
		select {
		case <-h:
		default:
			close(h)
		}
	}
	a.g.mu.Unlock()
	time.Sleep(5 * time.Millisecond)
	a.db.Close()
	os.RemoveAll(filepath.Join(a.dir, fmt.Sprintf("fq%d", a.seq)))
	a.db = nil
}

func (a *adapter) Reset(init map[string]tla.Value) (engine.Fields, error) {
	if a.dir == "" {
		a.dir = os.Getenv("VERIF_SCRATCH_DIR")
		if a.dir == "" {
			a.dir = filepath.Join(os.TempDir(), fmt.Sprintf("verif-filequeue-%d", os.Getpid()))
		}
	}
	a.closeDB()
	a.seq++
	a.db = store.NewChainDataBase(filepath.Join(a.dir, fmt.Sprintf("fq%d", a.seq)))
	// the writer is idle and reads Extend only after receiving the next record, so this assignment is ordered before its reads
	a.g = &gate{inner: a.db.Beansdb.Queue.SyncFileDB.Extend, reached: map[string]chan struct{}{}, hold: map[string]chan struct{}{}}
	a.db.Beansdb.Queue.SyncFileDB.Extend = a.g
	a.barriers, a.atGate = nil, false
	return engine.Fields{}, nil
}

func (a *adapter) waitReached(k []byte) {
	a.g.mu.Lock()
	r := a.g.reached[string(k)]
	a.g.mu.Unlock()
	select {
	case <-r:
	case <-time.After(30 * time.Second):
		engine.Failf("the background writer never reached a barrier")
	}
}

func (a *adapter) Apply(s engine.Step) (engine.Fields, error) {
	fl := engine.Fields{}
	switch s.Act.Name {
	case "Put":
		k, v := s.Act.Args[0].S(), s.Act.Args[1].I()
		a.nbar++
		bk := key(2, a.nbar)
		a.g.barrier(bk)
		if err := a.db.Beansdb.Put(leveldb.ItemFlagKV, bk, []byte{0xbb}); err != nil {
			return nil, err
		}
		a.barriers = append(a.barriers, bk)
		if !a.atGate {
			a.waitReached(a.barriers[0]) // the idle writer takes the barrier at once and stops there
			a.atGate = true
		}
		err := a.db.Beansdb.Put(leveldb.ItemFlagKV, testKey(k), []byte{byte(v)})
		fl["ok"] = err == nil
	case "WriterStep":
		if len(a.barriers) == 0 || !a.atGate {
			engine.Failf("WriterStep without a queued record")
		}
		a.g.mu.Lock()
		close(a.g.hold[string(a.barriers[0])])
		a.g.mu.Unlock()
		a.barriers = a.barriers[1:]
		a.atGate = false
		if len(a.barriers) > 0 {
			a.waitReached(a.barriers[0]) // the test record behind the released barrier is written and its done notice sent
			a.atGate = true
		} else {
			time.Sleep(3 * time.Millisecond) // last record: no barrier behind it to wait at (only the schedule, never a verdict, depends on this)
		}
	case "DoneHandle":
		time.Sleep(2 * time.Millisecond) // the notice handler is a goroutine of its own: give it the time to run
	case "Get":
		val, err := a.db.Beansdb.Get(leveldb.ItemFlagKV, testKey(s.Act.Args[0].S()))
		fl["val"] = 0
		if err == nil && len(val) == 1 {
			fl["val"] = int(val[0])
		} else if err == nil && len(val) > 1 {
			fl["val"] = -1
		}
		if err != nil {
			fl["err"] = err.Error()
		}
	default:
		return nil, fmt.Errorf("unknown action %s", s.Act.Name)
	}
	return fl, nil
}

func (a *adapter) Close() { a.closeDB() }

func init() { engine.Register("filequeue", func() engine.Adapter { return &adapter{} }) }
