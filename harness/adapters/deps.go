package adapters

// Blank imports of the lemochain-core packages adapters use, so that go.mod's
// indirect requirements are complete and `go build -mod=mod` never has to rewrite it.
import (
	_ "github.com/LemoFoundationLtd/lemochain-core/chain"
	_ "github.com/LemoFoundationLtd/lemochain-core/chain/account"
	_ "github.com/LemoFoundationLtd/lemochain-core/chain/consensus"
	_ "github.com/LemoFoundationLtd/lemochain-core/chain/miner"
	_ "github.com/LemoFoundationLtd/lemochain-core/chain/transaction"
	_ "github.com/LemoFoundationLtd/lemochain-core/chain/vm"
	_ "github.com/LemoFoundationLtd/lemochain-core/common/merkle"
	_ "github.com/LemoFoundationLtd/lemochain-core/common/rlp"
	_ "github.com/LemoFoundationLtd/lemochain-core/network"
	_ "github.com/LemoFoundationLtd/lemochain-core/network/p2p"
	_ "github.com/LemoFoundationLtd/lemochain-core/store"
	_ "github.com/LemoFoundationLtd/lemochain-core/store/trie"
)
