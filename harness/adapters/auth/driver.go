package auth

import (
	"bufio"
	"encoding/json"
	"flag"
	"fmt"
	"math/rand"
	"os"
	"runtime/debug"
	"strings"

	"verifharness/engine"
	"verifharness/tla"
)

// auth-rand: the quantifier of C06 goes up to 100 registered signers with weights 1..100.  This recording driver
// draws (seeded) random large multi-signature accounts and, for each, signature sequences around the threshold:
// a minimal authorising subset, the same with one signer removed, with one signer replaced by a repetition of
// another (both encodings), padded with foreign / own-key signatures, with a field changed after signing, and with
// a (plain or multi-signature) gas payer - another account or the large account itself -, with the gasPayer member absent / dropped /
// added / swapped after signing, and with signatures made in the other signing scheme.  Every case goes through exactly the same
// Offer / Validate code as the replayed TLC cases and is validated by the same monitor (TraceAuth.tla).
func init() { engine.RegisterDriver("auth-rand", randDriver) }

type sg struct {
	by, v    int
	old      bool
	sch, who string
}

// tag: the same signatures made in scheme sch in the name of account who
func tag(xs []sg, sch, who string) []sg {
	out := append([]sg(nil), xs...)
	for i := range out {
		out[i].sch, out[i].who = sch, who
	}
	return out
}

func seqStr(xs []int) string {
	ss := make([]string, len(xs))
	for i, x := range xs {
		ss[i] = fmt.Sprint(x)
	}
	return "<<" + strings.Join(ss, ", ") + ">>"
}

func sigsStr(xs []sg) string {
	ss := make([]string, len(xs))
	for i, x := range xs {
		o := "FALSE"
		if x.old {
			o = "TRUE"
		}
		ss[i] = fmt.Sprintf(`[by |-> %d, v |-> %d, old |-> %s, sch |-> "%s", who |-> "%s"]`, x.by, x.v, o, x.sch, x.who)
	}
	return "<<" + strings.Join(ss, ", ") + ">>"
}

// gcase: the general case of Auth.tla (GCase): the payer statements are made over the submitted list of sender signatures, RLP carrier
func gcase(cfg []int, kind string, sigs []sg, f, gp0, gp string, pcfg []int, psigs []sg) tla.Value {
	over := make([]int, len(sigs))
	for i := range over {
		over[i] = i + 1
	}
	return xcase(cfg, kind, sigs, f, gp0, gp, pcfg, psigs, over, "rlp")
}

// xcase: the same with the payer statements made over the list `over` (positions of sigs; 0: a signature that is not in it), carrier via
func xcase(cfg []int, kind string, sigs []sg, f, gp0, gp string, pcfg []int, psigs []sg, over []int, via string) tla.Value {
	return tla.MustParse(fmt.Sprintf(`[cfg |-> %s, kind |-> "%s", sigs |-> %s, f |-> "%s", gp0 |-> "%s", gp |-> "%s", pcfg |-> %s, psigs |-> %s, box |-> "none", ncfg |-> <<>>, label |-> "true", over |-> %s, via |-> "%s"]`,
		seqStr(cfg), kind, sigsStr(sigs), f, gp0, gp, seqStr(pcfg), sigsStr(psigs), seqStr(over), via))
}

// caseValue: the three honest forms of Auth.tla (Case): pay = self / payer / own, every signature made in the scheme of its form
func caseValue(cfg []int, kind string, sigs []sg, f, pay string, pcfg []int, psigs []sg) tla.Value {
	g0, ssch, pwho := "sender", "default", "S"
	if pay == "payer" {
		g0, pwho = "payer", "P"
	}
	if pay != "self" {
		ssch = "reimb"
	}
	g := g0
	if f == "gasPayer" {
		g = "payer2"
	}
	return gcase(cfg, kind, tag(sigs, ssch, "S"), f, g0, g, pcfg, tag(psigs, "payer", pwho))
}

func randDriver(args []string) error {
	fs := flag.NewFlagSet("auth-rand", flag.ContinueOnError)
	out := fs.String("out", "auth-rand.ndjson", "trace output")
	seed := fs.Int64("seed", 1, "seed")
	n := fs.Int("n", 60, "number of cases")
	if err := fs.Parse(args); err != nil {
		return err
	}
	f, err := os.Create(*out)
	if err != nil {
		return err
	}
	defer f.Close()
	w := bufio.NewWriterSize(f, 1<<20)
	defer w.Flush()
	enc := json.NewEncoder(w)
	rng := rand.New(rand.NewSource(*seed))
	a := &adapter{}
	defer a.Close()
	emit := func(ev string, beh, step int, args []interface{}, fl engine.Fields) {
		if fl == nil {
			fl = engine.Fields{}
		}
		fl["ev"], fl["beh"], fl["step"] = ev, beh, step
		if ev != "reset" {
			fl["a"] = args
		}
		if err := enc.Encode(fl); err != nil {
			panic(err)
		}
	}
	// a panic of the code under test is logged like the replay engine does; a harness failure aborts
	safe := func(fn func() (engine.Fields, error)) (fl engine.Fields) {
		defer func() {
			if r := recover(); r != nil {
				if he, ok := r.(engine.HarnessError); ok {
					panic(he)
				}
				fl = engine.Fields{"panic": fmt.Sprintf("%v\n%s", r, debug.Stack())}
			}
		}()
		fl, err := fn()
		if err != nil {
			engine.Failf("%v", err)
		}
		return fl
	}
	sizes := []int{2, 3, 4, 5, 7, 10, 16, 33, 64, 100}
	fields := []string{"to", "amount", "gasPrice", "gasLimit", "data", "expiration", "type", "toName", "message", "version"}
	done := 0
	for beh := 0; done < *n; beh++ {
		k := sizes[rng.Intn(len(sizes))]
		cfg := make([]int, k)
		sum := 0
		for i := range cfg {
			switch rng.Intn(4) {
			case 0:
				cfg[i] = 1 + rng.Intn(100)
			case 1:
				cfg[i] = 1 + rng.Intn(1+200/k)
			default:
				cfg[i] = 1 + rng.Intn(1+120/k)
			}
			if cfg[i] > 100 {
				cfg[i] = 100
			}
			sum += cfg[i]
		}
		for i := 0; sum < 100; i = (i + 1) % k { // ModifySignersTx demands a total of at least 100
			if cfg[i] < 100 {
				cfg[i]++
				sum++
			}
		}
		fl, err := a.Reset(map[string]tla.Value{"cfg": tla.MustParse(seqStr(cfg))})
		if err != nil {
			return err
		}
		emit("reset", beh, 0, nil, fl)
		// a minimal authorising subset in random order
		perm := rng.Perm(k)
		var min []sg
		got := 0
		for _, i := range perm {
			if got >= 100 {
				break
			}
			min = append(min, sg{by: i + 1, v: rng.Intn(2)})
			got += cfg[i]
		}
		clone := func(x []sg) []sg { return append([]sg(nil), x...) }
		variants := [][]sg{min}
		// one signer removed
		if len(min) > 1 {
			j := rng.Intn(len(min))
			variants = append(variants, append(clone(min[:j]), min[j+1:]...))
		}
		// one signer replaced by a repetition of another one (other encoding)
		if len(min) > 1 {
			x := clone(min)
			j, i := rng.Intn(len(x)), rng.Intn(len(x)-1)
			if i >= j {
				i++
			}
			x[j] = sg{by: x[i].by, v: 1 - x[i].v}
			variants = append(variants, x)
		}
		// the heaviest signer alone, repeated until the per-signature sum reaches the threshold
		{
			h := 0
			for i := range cfg {
				if cfg[i] > cfg[h] {
					h = i
				}
			}
			var x []sg
			for s := 0; s < 100 && len(x) < 110; s += cfg[h] {
				x = append(x, sg{by: h + 1, v: len(x) % 2})
			}
			variants = append(variants, x)
		}
		// padded with foreign and own-key signatures, one signer short
		if len(min) > 1 {
			x := append([]sg{{by: 999}, {by: 0}}, min[1:]...)
			x = append(x, sg{by: 999, v: 1}, sg{by: k + 1}) // k+1: a signer key that is not registered with this account
			variants = append(variants, x)
		}
		// everybody signs
		{
			var x []sg
			for _, i := range perm {
				x = append(x, sg{by: i + 1, v: rng.Intn(2)})
			}
			variants = append(variants, x)
		}
		step := 0
		do := func(c tla.Value) {
			step++
			emit("Offer", beh, step, []interface{}{c.JSON()}, safe(func() (engine.Fields, error) { return a.offer(c) }))
			step++
			emit("Validate", beh, step, []interface{}{}, safe(a.validate))
			done++
		}
		for _, v := range variants {
			do(caseValue(cfg, "transfer", v, "none", "self", nil, nil))
		}
		// a field changed after the last signer of the minimal set signed / after everybody signed
		fld := fields[rng.Intn(len(fields))]
		x := clone(min)
		x[len(x)-1].old = true
		do(caseValue(cfg, "transfer", x, fld, "self", nil, nil))
		for i := range x {
			x[i].old = true
		}
		do(caseValue(cfg, "transfer", x, fld, "self", nil, nil))
		// reimbursed gas: honest payer; payer signer repeated; gas price changed after the payer signed
		pc := [][]int{{}, {50, 50}, {30, 30, 40}}[rng.Intn(3)]
		var ps []sg
		if len(pc) == 0 {
			ps = []sg{{by: 0}}
		}
		for i := range pc {
			ps = append(ps, sg{by: i + 1, v: rng.Intn(2)})
		}
		do(caseValue(cfg, "transfer", min, "none", "payer", pc, ps))
		if len(pc) > 0 {
			y := clone(ps)
			y[len(y)-1] = sg{by: y[0].by, v: 1 - y[0].v}
			do(caseValue(cfg, "transfer", min, "none", "payer", pc, y))
		}
		// the payer's statement and the list of sender signatures: the sender signature of another account's transaction stands
		// somewhere in the list the payer signed over (honest); the payer's statement was made for that other transaction and its
		// sender signature then put in front of / among the real ones; it was made before the last co-signers added their
		// signatures; over the first signature only; over the list in another order
		{
			alien := sg{by: 0, sch: "reimb", who: "Q"}
			rs, pp := tag(min, "reimb", "S"), tag(ps, "payer", "P")
			ident := func(n int) []int {
				x := make([]int, n)
				for i := range x {
					x[i] = i + 1
				}
				return x
			}
			j := rng.Intn(len(rs) + 1)
			mixed := append(append(clone(rs[:j]), alien), rs[j:]...)
			do(xcase(cfg, "transfer", mixed, "none", "payer", "payer", pc, pp, ident(len(mixed)), "rlp"))
			do(xcase(cfg, "transfer", mixed, "none", "payer", "payer", pc, pp, []int{j + 1}, "rlp"))
			do(xcase(cfg, "transfer", append([]sg{alien}, rs...), "none", "payer", "payer", pc, pp, []int{1}, "rlp"))
			if len(rs) > 1 {
				do(xcase(cfg, "transfer", rs, "none", "payer", "payer", pc, pp, ident(1+rng.Intn(len(rs)-1)), "rlp"))
				rev := ident(len(rs))
				for a, b := 0, len(rev)-1; a < b; a, b = a+1, b-1 {
					rev[a], rev[b] = rev[b], rev[a]
				}
				do(xcase(cfg, "transfer", rs, "none", "payer", "payer", pc, pp, rev, "rlp"))
			}
			// the same through the JSON carrier: honest; the gasPayer member dropped after everybody signed
			do(xcase(cfg, "transfer", rs, "none", "payer", "payer", pc, pp, ident(len(rs)), "json"))
			all := clone(min)
			for i := range all {
				all[i].old = true
			}
			do(xcase(cfg, "transfer", tag(all, "default", "S"), "gasPayer", "sender", "absent", nil, nil, ident(len(all)), "json"))
			do(xcase(cfg, "transfer", tag(min, "default", "S"), "none", "absent", "absent", nil, nil, ident(len(min)), "json"))
		}
		for i := range ps {
			ps[i].old = true
		}
		o := clone(min)
		for i := range o {
			o[i].old = true
		}
		do(caseValue(cfg, "transfer", o, []string{"gasPrice", "gasLimit", "sigs"}[rng.Intn(3)], "payer", pc, ps))
		// the account reimburses itself (payer signatures by its own signers): honest; gas terms changed after everybody signed as
		// sender and as payer; the payer side one signer short
		do(caseValue(cfg, "transfer", min, "none", "own", cfg, min))
		do(caseValue(cfg, "transfer", o, []string{"gasPrice", "gasLimit"}[rng.Intn(2)], "own", cfg, o))
		if len(min) > 1 {
			do(caseValue(cfg, "transfer", min, "none", "own", cfg, min[1:]))
		}
		// the gasPayer member: absent (honest, default and reimbursed form); dropped / added / pointed at another account after
		// everybody signed; the payer swapped for Q, who signs (the sender's holders re-sign, or not)
		q := []sg{{by: 0, sch: "payer", who: "Q"}}
		do(gcase(cfg, "transfer", tag(min, "default", "S"), "none", "absent", "absent", nil, nil))
		do(gcase(cfg, "transfer", tag(min, "reimb", "S"), "none", "absent", "absent", nil, tag(min, "payer", "S")))
		gps := [][2]string{{"sender", "absent"}, {"absent", "sender"}, {"absent", "payer2"}, {"sender", "payer2"}}
		g := gps[rng.Intn(len(gps))]
		do(gcase(cfg, "transfer", tag(o, "default", "S"), "gasPayer", g[0], g[1], nil, nil))
		g = gps[rng.Intn(2)]
		do(gcase(cfg, "transfer", tag(o, "reimb", "S"), "gasPayer", g[0], g[1], nil, tag(min, "payer", "S")))
		do(gcase(cfg, "transfer", tag(o, "reimb", "S"), "gasPayer", "payer", "payer2", pc, q))
		do(gcase(cfg, "transfer", tag(min, "reimb", "S"), "gasPayer", "payer", "payer2", pc, q))
		do(gcase(cfg, "transfer", tag(min, "reimb", "S"), "gasPayer", "payer", "payer2", pc, tag(ps, "payer", "P")))
		// signatures made in the other scheme: the last signer of the minimal set (default form / reimbursed form); the sender's
		// signatures copied into the payer list
		x = tag(min, "default", "S")
		x[len(x)-1].sch = "reimb"
		do(gcase(cfg, "transfer", x, "none", "sender", "sender", nil, nil))
		x = tag(min, "reimb", "S")
		x[len(x)-1].sch = "default"
		do(gcase(cfg, "transfer", x, "none", "sender", "sender", nil, tag(min, "payer", "S")))
		do(gcase(cfg, "transfer", tag(min, "reimb", "S"), "none", "sender", "sender", nil, tag(min, "reimb", "S")))
	}
	return nil
}
