// Package auth binds spec/Auth.tla (generator of authorisation cases) and spec/TraceAuth.tla (property
// monitor) to the real transaction authorisation of lemochain-core (C06).
//
// Every case of the specification is instantiated as a REAL transaction: real keys, real signing hashes
// (types.DefaultSigner / ReimbursementTxSigner / GasPayerSigner - every signature is made in the scheme, by the
// key, on the content (before / after the change) its description names, whichever list it is then put into),
// a gasPayer member that is absent / names the sender / names another account, payer statements made over the
// list of sender signatures the case names (the submitted one, a prefix, a re-ordering, the list of another
// transaction), the transaction read from its RLP or from its JSON form, real multi-signature accounts
// configured by real ModifySignersTx transactions, real boxes (whose JSON data an attacker may have re-written
// after the box sender signed: other sub-transaction, forged / missing "hash" member).  Every behaviour runs on
// its own pair of nodes; the block that funds and configures the sender account is stable on both (confirmed by
// the deputies), later re-configurations are not until a Stabilise step.  The transaction is handed
//
//	Offer:    to a mining node (node.Build -> BlockAssembler.MineBlock -> TxProcessor.ApplyTxs), and
//	Validate: inside a block to a second node (DPoVP.InsertBlock -> TxProcessor.Process).  When the miner packaged
//	          the transaction this is the miner's block; when it refused, it is the block a dishonest deputy
//	          would publish: header roots of executing the transaction (obtained by mining a properly signed
//	          twin with the same content), carrying the case's transaction, signed by the deputy.
//
// The adapter logs what the real nodes did (packaged / refused, inserted / rejected, balance deltas, vote and
// signer changes read from the real account state); it never judges.
package auth

import (
	"crypto/ecdsa"
	"encoding/json"
	"fmt"
	"math/big"
	"os"
	"path/filepath"

	"github.com/LemoFoundationLtd/lemochain-core/chain/account"
	"github.com/LemoFoundationLtd/lemochain-core/chain/deputynode"
	"github.com/LemoFoundationLtd/lemochain-core/chain/params"
	"github.com/LemoFoundationLtd/lemochain-core/chain/transaction"
	"github.com/LemoFoundationLtd/lemochain-core/chain/types"
	"github.com/LemoFoundationLtd/lemochain-core/common"
	"github.com/LemoFoundationLtd/lemochain-core/common/crypto"
	"github.com/LemoFoundationLtd/lemochain-core/common/hexutil"
	"github.com/LemoFoundationLtd/lemochain-core/common/rlp"
	"github.com/LemoFoundationLtd/lemochain-core/store/protocol"

	"verifharness/engine"
	"verifharness/node"
	"verifharness/tla"
)

func init() { engine.Register("auth", func() engine.Adapter { return &adapter{} }) }

var unit = big.NewInt(1000000000) // every amount / gas price is a multiple of 1e9 mo; logged values are in this unit

const (
	nDeputies = 5 // ranks 3 and 4 mine; the miner addresses of ranks 0..2 are candidates that never earn fees
	gasLimit  = 300000
)

// rawTx mirrors the RLP layout of types.txdata so that any byte string an attacker could send can be produced.
type rawTx struct {
	Type          uint16
	Version       uint8
	ChainID       uint16
	From          common.Address
	GasPayer      *common.Address `rlp:"nil"`
	Recipient     *common.Address `rlp:"nil"`
	RecipientName string
	GasPrice      *big.Int
	GasLimit      uint64
	GasUsed       uint64
	Amount        *big.Int
	Data          []byte
	Expiration    uint64
	Message       string
	Sigs          [][]byte
	GasPayerSigs  [][]byte
}

func (r *rawTx) tx() *types.Transaction {
	if r.Sigs == nil {
		r.Sigs = [][]byte{}
	}
	if r.GasPayerSigs == nil {
		r.GasPayerSigs = [][]byte{}
	}
	enc, err := rlp.EncodeToBytes(r)
	if err != nil {
		engine.Failf("encode raw tx: %v", err)
	}
	tx := new(types.Transaction)
	if err := rlp.DecodeBytes(enc, tx); err != nil {
		engine.Failf("decode raw tx: %v", err)
	}
	return tx
}

// content is everything of a transaction but its signatures.
type content struct {
	typ      uint16
	version  uint8
	chainID  uint16
	from     common.Address
	gasPayer *common.Address // nil: the member is absent (the sender pays)
	to       *common.Address
	toName   string
	gasPrice *big.Int
	gasLimit uint64
	amount   *big.Int
	data     []byte
	exp      uint64
	message  string
}

func (c content) raw() *rawTx {
	r := &rawTx{Type: c.typ, Version: c.version, ChainID: c.chainID, From: c.from, RecipientName: c.toName,
		GasPrice: new(big.Int).Set(c.gasPrice), GasLimit: c.gasLimit, Amount: new(big.Int).Set(c.amount),
		Data: append([]byte{}, c.data...), Expiration: c.exp, Message: c.message}
	if c.to != nil {
		to := *c.to
		r.Recipient = &to
	}
	if c.gasPayer != nil {
		gp := *c.gasPayer
		r.GasPayer = &gp
	}
	return r
}

type acct struct {
	name string
	key  *ecdsa.PrivateKey
	addr common.Address
}

func newAcct(name string) *acct {
	k, err := crypto.ToECDSA(crypto.Keccak256([]byte("verif/auth/" + name)))
	if err != nil {
		panic(err)
	}
	return &acct{name, k, crypto.PubkeyToAddress(k.PublicKey)}
}

// ring is a family of deterministic keys: the registered signers 1, 2, ... (created on demand).
type ring struct {
	prefix string
	accts  []*acct
	idx    map[common.Address]int
}

func newRing(prefix string) *ring {
	return &ring{prefix: prefix, accts: []*acct{nil}, idx: map[common.Address]int{}}
}

func (r *ring) get(i int) *acct {
	for len(r.accts) <= i {
		x := newAcct(fmt.Sprintf("%s%d", r.prefix, len(r.accts)))
		r.idx[x.addr] = len(r.accts)
		r.accts = append(r.accts, x)
	}
	return r.accts[i]
}

// index of the signer holding address x (0: nobody of this ring)
func (r *ring) of(x common.Address, upto int) int {
	r.get(upto)
	return r.idx[x]
}

type chainPos struct {
	blk  *types.Block
	rank int
}

type pending struct {
	c         tla.Value
	packaged  bool
	honest    *types.Block // the miner's block when it packaged the transaction
	parent    chainPos
	mk        func() (caseTx, twinTx *types.Transaction) // fresh objects of the case's transaction and of its properly signed twin
	forgeable bool
	twinValid bool // the twin is acceptable to an honest validator (false only for a foreign chain id)
	sj        subjects
}

type adapter struct {
	w       *node.World
	dir     string
	builder *node.Node // the mining node of the current behaviour
	signer  *ring      // keys of the registered signers 1, 2, ... of sender accounts
	psigner *ring      // keys of the registered signers 1, 2, ... of payer accounts
	foreign *acct
	wrapper *acct // sender of boxes
	payer2  *acct // Q: a second, plain, other account (the one a tampered gasPayer field points to)
	nobody  common.Address
	senders map[string]*acct
	payers  map[string]*acct
	cand    [3]common.Address

	nut    *node.Node // the validating node of the current behaviour
	old    []*node.Node
	sender *acct
	head   chainPos
	pend   *pending
	seq    int
	nseq   int
}

func (a *adapter) init() {
	a.dir = os.Getenv("VERIF_SCRATCH_DIR")
	if a.dir == "" {
		a.dir = filepath.Join(os.TempDir(), fmt.Sprintf("verif-auth-%d", os.Getpid()))
	}
	a.w = node.NewWorld(nDeputies, 1000)
	deputynode.SetSelfNodeKey(a.w.Outsider2())
	a.signer, a.psigner = newRing("s"), newRing("p")
	a.foreign = newAcct("foreign")
	a.wrapper = newAcct("wrapper")
	a.payer2 = newAcct("payer2")
	a.nobody = newAcct("nobody").addr
	a.senders = map[string]*acct{}
	a.payers = map[string]*acct{}
	a.cand = [3]common.Address{a.w.Miners[0], a.w.Miners[1], a.w.Miners[2]}
}

// ---------------------------------------------------------------- real state

type view struct{ am *account.Manager }

func (a *adapter) view(db protocol.ChainDB, h common.Hash) view {
	return view{account.NewManager(h, db)}
}
func (v view) bal(x common.Address) *big.Int { return v.am.GetAccount(x).GetBalance() }

// cfgOf maps the real registered signers of an account to the specification's configuration: the weights of
// the keys 1..k of the ring (0: that key is not registered).  Anything else is reported verbatim (and rejected by
// the monitor).
func (a *adapter) cfgOf(v view, x common.Address, keys *ring) interface{} {
	ss := v.am.GetAccount(x).GetSigners()
	w := []int{}
	for _, s := range ss {
		idx := keys.of(s.Address, len(ss)+4)
		if idx == 0 || (idx <= len(w) && w[idx-1] != 0) {
			return fmt.Sprintf("unexpected signers %s", ss.String())
		}
		for len(w) < idx {
			w = append(w, 0)
		}
		w[idx-1] = int(s.Weight)
	}
	return w
}

func units(x *big.Int) int {
	q, r := new(big.Int).QuoRem(x, unit, new(big.Int))
	if r.Sign() != 0 || !q.IsInt64() || q.Int64() > 2000000000 || q.Int64() < -2000000000 {
		engine.Failf("amount %s is not a small multiple of the unit", x)
	}
	return int(q.Int64())
}

// observed is the part of the account state the monitor looks at.
type observed struct {
	s, to, other, p, w, p2 *big.Int
	vote                   common.Address
	cfg                    interface{}
}

type subjects struct {
	s, to, other, p common.Address
}

func (a *adapter) observe(v view, sj subjects) observed {
	return observed{s: v.bal(sj.s), to: v.bal(sj.to), other: v.bal(sj.other), p: v.bal(sj.p), w: v.bal(a.wrapper.addr), p2: v.bal(a.payer2.addr),
		vote: v.am.GetAccount(sj.s).GetVoteFor(), cfg: a.cfgOf(v, sj.s, a.signer)}
}

func delta(fl engine.Fields, pre, post observed, prefix string) {
	d := func(x, y *big.Int) int { return units(new(big.Int).Sub(y, x)) }
	fl[prefix+"dS"] = d(pre.s, post.s)
	fl[prefix+"dTo"] = d(pre.to, post.to)
	fl[prefix+"dOther"] = d(pre.other, post.other)
	fl[prefix+"dP"] = d(pre.p, post.p)
	fl[prefix+"dW"] = d(pre.w, post.w)
	fl[prefix+"dP2"] = d(pre.p2, post.p2)
	fl[prefix+"vote"] = pre.vote != post.vote
	fl[prefix+"cfg2"] = post.cfg
}

// ---------------------------------------------------------------- chain plumbing

func (a *adapter) nextRank(r int) int {
	if r == 3 {
		return 4
	}
	return 3
}

// mine builds a block with txs on pos with the real assembler of the builder node.
func (a *adapter) mine(pos chainPos, txs types.Transactions) (*types.Block, types.Transactions, int) {
	r := a.nextRank(pos.rank)
	a.nseq++
	blk, invalid, err := a.builder.Build(pos.blk, r, 0, txs, fmt.Sprintf("auth%d", a.nseq))
	if err != nil {
		engine.Failf("build on %s: %v", pos.blk.Hash().Hex(), err)
	}
	return blk, invalid, r
}

func (a *adapter) exp(pos chainPos) uint64 { return uint64(pos.blk.Time()) + 1000 }

func (a *adapter) sign(c content, scheme types.Signer, k *ecdsa.PrivateKey, variant int) []byte {
	return signHash(scheme.Hash(c.raw().tx()), k, variant)
}

const junk = 997 // the specification's "signed by nobody"

// signHash signs with k (variant 1: re-encoded).  k == nil: malformed bytes - a real signature of the foreign key
// with an impossible recovery id (variant 0) or cut to 64 bytes (variant 1).
func signHash(h common.Hash, k *ecdsa.PrivateKey, variant int) []byte {
	if k == nil {
		sd := node.Sign(h, junkKey.key, 0)
		out := append([]byte{}, sd[:]...)
		if variant == 0 {
			out[64] = 9
			return out
		}
		return out[:64]
	}
	sd := node.Sign(h, k, variant)
	return append([]byte{}, sd[:]...)
}

var junkKey = newAcct("junk")

func (a *adapter) simpleTx(from *acct, to common.Address, typ uint16, amount *big.Int, data []byte, exp uint64) *types.Transaction {
	c := content{typ: typ, version: types.TxVersion, chainID: node.ChainID, from: from.addr, gasPayer: &from.addr, to: &to,
		gasPrice: new(big.Int).Set(unit), gasLimit: gasLimit + 100*uint64(len(data)), amount: amount, data: data, exp: exp}
	r := c.raw()
	r.Sigs = [][]byte{a.sign(c, types.DefaultSigner{}, from.key, 0)}
	return r.tx()
}

func (a *adapter) signersData(keys *ring, weights []int) []byte {
	ms := &transaction.ModifySigners{}
	for i, w := range weights {
		if w > 0 { // (weight 0: the key with that number is not registered)
			ms.Signers = append(ms.Signers, types.SignAccount{Address: keys.get(i + 1).addr, Weight: uint8(w)})
		}
	}
	data, err := json.Marshal(ms)
	if err != nil {
		engine.Failf("marshal signers: %v", err)
	}
	return data
}

type want struct {
	acc     *acct
	keys    *ring
	weights []int
}

// setupTxs funds the accounts (from the founder) and registers their signers (each account with its own key,
// as it is a plain account at that moment).
func (a *adapter) setupTxs(pos chainPos, ws []want, seq *int) types.Transactions {
	var txs types.Transactions
	fund := new(big.Int).Mul(big.NewInt(10000000000), unit) // 10 LEMO
	for _, w := range ws {
		*seq++
		f := &acct{"founder", a.w.FounderKey, a.w.Founder}
		txs = append(txs, a.simpleTx(f, w.acc.addr, params.OrdinaryTx, new(big.Int).Add(fund, big.NewInt(int64(*seq))), nil, a.exp(pos)))
	}
	for _, w := range ws {
		if len(w.weights) > 0 {
			txs = append(txs, a.simpleTx(w.acc, w.acc.addr, params.ModifySignersTx, new(big.Int), a.signersData(w.keys, w.weights), a.exp(pos)))
		}
	}
	return txs
}

func (a *adapter) extend(txs types.Transactions, what string) {
	blk, invalid, r := a.mine(a.head, txs)
	if len(invalid) != 0 || len(blk.Txs) != len(txs) {
		engine.Realf("%s: %d of %d setup transactions packaged, %d invalid", what, len(blk.Txs), len(txs), len(invalid))
	}
	a.head = chainPos{blk, r}
	a.feed(blk, what)
}

func (a *adapter) feed(blk *types.Block, what string) {
	if _, err := a.nut.DP.InsertBlock(node.Copy(blk, nil)); err != nil {
		engine.Realf("%s: the validating node refuses an honest setup block: %v", what, err)
	}
}

func ints(v tla.Value) []int {
	if v.Kind == tla.KFun {
		out := make([]int, len(v.Keys))
		for i := range v.Keys {
			out[i] = v.GetI(i + 1).I()
		}
		return out
	}
	return v.Ints()
}

func cfgKey(w []int) string { return fmt.Sprint(w) }

func (a *adapter) Reset(init map[string]tla.Value) (engine.Fields, error) {
	if a.w == nil {
		a.init()
	}
	// the previous nodes may still run the engine's background goroutines of their last InsertBlock: destroy them later
	for _, n := range []*node.Node{a.nut, a.builder} {
		if n != nil {
			a.old = append(a.old, n)
		}
	}
	for len(a.old) > 8 {
		a.old[0].Destroy()
		a.old = a.old[1:]
	}
	a.seq++
	a.pend = nil
	a.builder = a.w.NewNode(filepath.Join(a.dir, fmt.Sprintf("bld%d", a.seq)))
	a.nut = a.w.NewNode(filepath.Join(a.dir, fmt.Sprintf("nut%d", a.seq)))
	weights := ints(init["cfg"])
	if sc, ok := init["scfg"]; ok && cfgKey(ints(sc)) != cfgKey(weights) {
		return nil, fmt.Errorf("a behaviour starts with the sender's signers registered in a stable block (cfg %v, scfg %v)", weights, ints(sc))
	}
	key := cfgKey(weights)
	if _, ok := a.senders[key]; !ok {
		a.senders[key] = newAcct("sender" + key)
	}
	a.sender = a.senders[key]
	// the block that funds the accounts and registers the sender's signers; the deputies confirm it: it is stable on both nodes
	a.head = chainPos{a.builder.Genesis, 4}
	n := 0
	ws := []want{{a.sender, a.signer, weights}, {a.wrapper, a.signer, nil}, {a.payer2, a.signer, nil}}
	a.extend(a.setupTxs(a.head, ws, &n), "setup")
	a.confirm("setup")
	v := a.view(a.builder.DB, a.head.blk.Hash())
	return engine.Fields{"cfg": a.cfgOf(v, a.sender.addr, a.signer), "scfg": a.stableCfg(), "sender": a.sender.addr.String()}, nil
}

// confirm makes the head block (and so its ancestors) stable on both nodes of the behaviour: the validating node receives the
// confirmations of three further deputies through DPoVP.InsertConfirms, the mining node's store is told so as its engine would.
func (a *adapter) confirm(what string) {
	blk := a.head.blk
	var sigs []types.SignData
	for r := 0; r < nDeputies && len(sigs) < 3; r++ {
		if r != a.head.rank {
			sigs = append(sigs, node.Sign(blk.Hash(), a.w.Keys[r], 0))
		}
	}
	if a.nut.DP.StableBlock().Hash() != blk.Hash() { // (nothing to do when the head is the stable block already)
		if err := a.nut.DP.InsertConfirms(blk.Height(), blk.Hash(), sigs); err != nil {
			engine.Realf("%s: confirming block %d on the validating node: %v", what, blk.Height(), err)
		}
	}
	if a.nut.DP.StableBlock().Hash() != blk.Hash() {
		engine.Realf("%s: block %d confirmed by four of five deputies is not stable on the validating node", what, blk.Height())
	}
	if _, err := a.builder.DB.SetStableBlock(blk.Hash()); err != nil {
		engine.Realf("%s: stabilising block %d on the mining node: %v", what, blk.Height(), err)
	}
}

// stableCfg: the sender account's registered signers in the last stable block (of the mining node; the validating node has the same).
func (a *adapter) stableCfg() interface{} {
	sb, err := a.builder.DB.LoadLatestBlock()
	if err != nil {
		engine.Failf("no stable block: %v", err)
	}
	if nb := a.nut.DP.StableBlock(); nb.Hash() != sb.Hash() && a.pend == nil {
		engine.Failf("the two nodes disagree on the stable block: %d / %d", sb.Height(), nb.Height())
	}
	return a.cfgOf(a.view(a.builder.DB, sb.Hash()), a.sender.addr, a.signer)
}

// ensurePayer makes sure the payer account with the given configuration exists on the current chain.
func (a *adapter) ensurePayer(weights []int) *acct {
	key := cfgKey(weights)
	p, ok := a.payers[key]
	if !ok {
		p = newAcct("payer" + key)
		a.payers[key] = p
	}
	v := a.view(a.builder.DB, a.head.blk.Hash())
	if v.bal(p.addr).Sign() == 0 {
		n := 1000
		a.extend(a.setupTxs(a.head, []want{{p, a.psigner, weights}}, &n), "payer setup")
	}
	return p
}

// ---------------------------------------------------------------- cases

func (a *adapter) tamper(c content, f string, kind string, v view) content {
	switch f {
	case "none", "sigs":
	case "to":
		if kind == "transfer" {
			x := common.HexToAddress("0x0155aa77")
			c.to = &x
		} else { // vote: a candidate that is neither the signed one nor the one the sender votes for now
			now := v.am.GetAccount(c.from).GetVoteFor()
			for _, x := range a.cand {
				if x != *c.to && x != now {
					y := x
					c.to = &y
					break
				}
			}
		}
	case "amount":
		c.amount = new(big.Int).Add(c.amount, unit)
	case "gasPrice":
		c.gasPrice = new(big.Int).Mul(c.gasPrice, big.NewInt(2))
	case "gasLimit":
		c.gasLimit += 1000
	case "data":
		if kind == "signers" {
			c.data = a.signersData(a.signer, []int{100, 100, 100})
		} else {
			c.data = append(append([]byte{}, c.data...), 0x01)
		}
	case "expiration":
		c.exp++
	case "chainID":
		c.chainID++
	case "type":
		if c.typ == params.OrdinaryTx {
			c.typ = params.VoteTx
		} else {
			c.typ = params.OrdinaryTx
		}
	case "toName":
		c.toName = "bob"
	case "message":
		c.message = "hi"
	case "gasPayer": // (the member as submitted is set by the caller from the case's gp)
	case "version":
		c.version++
	default:
		engine.Failf("unknown tamper field %q", f)
	}
	return c
}

type sigSpec struct {
	by, v    int
	old      bool
	sch, who string
}

func sigSpecs(v tla.Value) []sigSpec {
	var out []sigSpec
	n := len(v.Elems)
	if v.Kind == tla.KFun {
		n = len(v.Keys)
	}
	for i := 1; i <= n; i++ {
		s := v.GetI(i)
		out = append(out, sigSpec{s.F("by").I(), s.F("v").I(), s.F("old").B(), s.F("sch").S(), s.F("who").S()})
	}
	return out
}

// keyOf: the key `by` of account own (0: its own key, i: the i-th key of the ring its registered signers are taken from).
func (a *adapter) keyOf(by int, own *acct, regs *ring) *ecdsa.PrivateKey {
	switch {
	case by == 0:
		return own.key
	case by == 999:
		return a.foreign.key
	case by == junk:
		return nil
	case by >= 1 && by <= 200:
		return regs.get(by).key
	}
	engine.Failf("unknown signer %d", by)
	return nil
}

// schemeHash is the signing hash of scheme sch for content ct carrying the sender signatures ss.
func schemeHash(sch string, ct content, ss [][]byte) common.Hash {
	r := ct.raw()
	r.Sigs = ss
	switch sch {
	case "default":
		return types.DefaultSigner{}.Hash(r.tx())
	case "reimb":
		return types.ReimbursementTxSigner{}.Hash(r.tx())
	case "payer":
		return types.GasPayerSigner{}.Hash(r.tx())
	}
	engine.Failf("unknown signing scheme %q", sch)
	return common.Hash{}
}

// payerAcct: the account a gasPayer member makes pay ("S" the sender, "P" the other account, "Q" the second other account).
func payerAcct(gp string) string {
	switch gp {
	case "absent", "sender":
		return "S"
	case "payer":
		return "P"
	case "payer2":
		return "Q"
	}
	engine.Failf("unknown gasPayer value %q", gp)
	return ""
}

// holders returns the keys an honest wallet would sign with for the account as it is registered in v.
func (a *adapter) holders(v view, acc *acct, regs *ring) []*ecdsa.PrivateKey {
	ss := v.am.GetAccount(acc.addr).GetSigners()
	if len(ss) == 0 {
		return []*ecdsa.PrivateKey{acc.key}
	}
	var out []*ecdsa.PrivateKey
	for _, s := range ss {
		i := regs.of(s.Address, len(ss)+4)
		if i == 0 {
			engine.Failf("account %s has a signer nobody holds a key for", acc.name)
		}
		out = append(out, regs.get(i).key)
	}
	return out
}

func (a *adapter) Apply(s engine.Step) (engine.Fields, error) {
	switch s.Act.Name {
	case "Offer", "OfferStale":
		return a.offer(s.Act.Args[0])
	case "Validate":
		return a.validate()
	case "Stabilise":
		if a.pend != nil {
			return nil, fmt.Errorf("Stabilise while a case is pending")
		}
		a.confirm("Stabilise")
		return engine.Fields{"cfg": a.cfgOf(a.view(a.builder.DB, a.head.blk.Hash()), a.sender.addr, a.signer), "scfg": a.stableCfg()}, nil
	}
	return nil, fmt.Errorf("unknown action %s", s.Act.Name)
}

func (a *adapter) offer(c tla.Value) (engine.Fields, error) {
	if a.pend != nil {
		return nil, fmt.Errorf("Offer while a case is pending")
	}
	kind, f, gp0, gp, box, label := c.F("kind").S(), c.F("f").S(), c.F("gp0").S(), c.F("gp").S(), c.F("box").S(), c.F("label").S()
	sigs, psigs := sigSpecs(c.F("sigs")), sigSpecs(c.F("psigs"))
	over, via := ints(c.F("over")), c.F("via").S()
	if via != "rlp" && via != "json" {
		return nil, fmt.Errorf("unknown carrier %q", via)
	}
	if (f == "gasPayer") != (gp0 != gp) {
		return nil, fmt.Errorf("case with f = %s, gasPayer %s -> %s", f, gp0, gp)
	}
	// P, the other account (exists only in the cases that name it or carry signatures of its holders)
	var payer *acct
	needP := gp0 == "payer" || gp == "payer"
	for _, sg := range append(append([]sigSpec{}, sigs...), psigs...) {
		needP = needP || sg.who == "P"
	}
	if needP {
		payer = a.ensurePayer(ints(c.F("pcfg")))
	}
	// the account in whose name a key signs and the ring its registered signers are taken from
	holder := func(who string) (*acct, *ring) {
		switch who {
		case "S":
			return a.sender, a.signer
		case "P":
			return payer, a.psigner
		case "Q":
			return a.payer2, a.psigner
		}
		engine.Failf("unknown account %q", who)
		return nil, nil
	}
	gpField := func(g string) *common.Address {
		switch g {
		case "absent":
			return nil
		case "sender":
			return &a.sender.addr
		case "payer":
			return &payer.addr
		case "payer2":
			return &a.payer2.addr
		}
		engine.Failf("unknown gasPayer value %q", g)
		return nil
	}
	pos := a.head
	v := a.view(a.builder.DB, pos.blk.Hash())
	a.seq++
	// ---- the content as signed (orig) and as submitted (cur)
	orig := content{version: types.TxVersion, chainID: node.ChainID, from: a.sender.addr, gasPayer: gpField(gp0),
		gasPrice: new(big.Int).Set(unit), gasLimit: gasLimit, amount: new(big.Int), exp: a.exp(pos)}
	// the recipient is the candidate the sender does not vote for at the moment (so that a vote for it is executable)
	to := a.cand[0]
	if v.am.GetAccount(a.sender.addr).GetVoteFor() == to {
		to = a.cand[1]
	}
	switch kind {
	case "transfer":
		orig.typ, orig.to = params.OrdinaryTx, &to
		// even numbers: the "amount" tampering (+1) never produces the content of another case
		orig.amount = new(big.Int).Mul(big.NewInt(int64(1000+2*(a.seq%4000))), unit)
	case "vote":
		orig.typ, orig.to = params.VoteTx, &to
		orig.message = fmt.Sprintf("v%d", a.seq)
	case "signers":
		self := a.sender.addr
		orig.typ, orig.to = params.ModifySignersTx, &self
		orig.data = a.signersData(a.signer, ints(c.F("ncfg")))
		orig.message = fmt.Sprintf("m%d", a.seq)
	case "asset":
		orig.typ = params.CreateAssetTx
		data, err := json.Marshal(&types.Asset{Category: types.TokenAsset, IsDivisible: true, IsReplenishable: true,
			Profile: types.Profile{"name": fmt.Sprintf("T%d", a.seq), "symbol": "T", "description": "d", "suggestedGasLimit": "60000"}})
		if err != nil {
			engine.Failf("asset data: %v", err)
		}
		orig.data = data
	default:
		return nil, fmt.Errorf("unknown kind %s", kind)
	}
	cur := a.tamper(orig, f, kind, v)
	cur.gasPayer = gpField(gp)
	pick := func(old bool) content {
		if old {
			return orig
		}
		return cur
	}
	// ---- the signatures: each made with the key, in the scheme and on the content (before / after the change) the case names
	key := func(sg sigSpec) *ecdsa.PrivateKey {
		own, regs := holder(sg.who)
		return a.keyOf(sg.by, own, regs)
	}
	// (a payer-scheme signature that ends up in the SENDER list was made over the transaction without sender signatures)
	var curSigs, origSigs [][]byte // origSigs: the same signers on the content before the change
	for _, sg := range sigs {
		curSigs = append(curSigs, signHash(schemeHash(sg.sch, pick(sg.old), nil), key(sg), sg.v))
		origSigs = append(origSigs, signHash(schemeHash(sg.sch, orig, nil), key(sg), sg.v))
	}
	// what the payer saw when it signed before the change: for f = "sigs" the first sender signature in its other encoding
	oldSigs := curSigs
	if f == "sigs" && len(sigs) > 0 {
		oldSigs = append([][]byte{signHash(schemeHash(sigs[0].sch, pick(sigs[0].old), nil), key(sigs[0]), 1-sigs[0].v)}, curSigs[1:]...)
		origSigs = oldSigs
	}
	// the list of sender signatures the payer's holders had before them when they made their statement: the positions c.over of
	// the list ss; 0: the sender signature of another transaction (other content, made by the key of the other account Q)
	seen := func(ss [][]byte) [][]byte {
		out := [][]byte{}
		for j, t := range over {
			switch {
			case t == 0:
				other := cur
				other.from, other.message = a.payer2.addr, fmt.Sprintf("%s/other%d", cur.message, j)
				out = append(out, signHash(schemeHash("reimb", other, nil), a.payer2.key, 0))
			case t >= 1 && t <= len(ss):
				out = append(out, ss[t-1])
			default:
				engine.Failf("case names sender signature %d of %d", t, len(ss))
			}
		}
		return out
	}
	var curPSigs, origPSigs [][]byte
	for _, sg := range psigs {
		ss := curSigs
		if sg.old {
			ss = oldSigs
		}
		curPSigs = append(curPSigs, signHash(schemeHash(sg.sch, pick(sg.old), seen(ss)), key(sg), sg.v))
		origPSigs = append(origPSigs, signHash(schemeHash(sg.sch, orig, seen(origSigs)), key(sg), sg.v))
	}
	// ---- the properly signed twin of the submitted content: the holders of the sender account sign in the scheme of the form, the
	// holders of the account the submitted gasPayer member makes pay sign the gas terms (reimbursed form) unless the sender pays in
	// the default form
	twinPayer, twinRing := holder(payerAcct(gp))
	twinReimb := len(psigs) >= 1 || payerAcct(gp) != "S"
	twinScheme := "default"
	if twinReimb {
		twinScheme = "reimb"
	}
	var twinSigs, twinPSigs [][]byte
	for _, k := range a.holders(v, a.sender, a.signer) {
		twinSigs = append(twinSigs, signHash(schemeHash(twinScheme, cur, nil), k, 0))
	}
	if twinReimb {
		for _, k := range a.holders(v, twinPayer, twinRing) {
			twinPSigs = append(twinPSigs, signHash(schemeHash("payer", cur, twinSigs), k, 0))
		}
	}
	inner := func(ct content, ss, ps [][]byte) *types.Transaction {
		r := ct.raw()
		r.Sigs, r.GasPayerSigs = ss, ps
		return r.tx()
	}
	// wrap: the box sender (key k) signs a box that carries `signed`; the box data that is submitted carries `carried`
	// in the JSON form the case's label describes (kept: the hash of the sub-transaction before the change)
	seq := a.seq
	wrap := func(signed, carried *types.Transaction, k *ecdsa.PrivateKey, label string) *types.Transaction {
		data, err := types.MarshalBoxData(types.Transactions{signed})
		if err != nil {
			engine.Failf("box data: %v", err)
		}
		bc := content{typ: params.BoxTx, version: types.TxVersion, chainID: node.ChainID, from: a.wrapper.addr, gasPayer: &a.wrapper.addr,
			gasPrice: new(big.Int).Set(unit), gasLimit: gasLimit, amount: new(big.Int), data: data, exp: orig.exp - 10}
		r := bc.raw()
		r.Sigs = [][]byte{a.sign(bc, types.DefaultSigner{}, k, 0)}
		if carried != signed || label != "true" {
			var claim *common.Hash
			switch label {
			case "true":
				h := carried.Hash()
				claim = &h
			case "none":
			case "kept":
				h := inner(orig, origSigs, origPSigs).Hash()
				claim = &h
			case "wrong":
				h := crypto.Keccak256Hash([]byte(fmt.Sprintf("verif/auth/label%d", seq)))
				claim = &h
			default:
				engine.Failf("unknown label %q", label)
			}
			r.Data = boxJSON(carried, claim, nil)
		}
		return r.tx()
	}
	// carry: the transaction as the node reads it from the carrier the case names.  A JSON text the node's decoder refuses never
	// gets further than the RPC (decodeErr; a dishonest deputy can still put the transaction into a block)
	var decodeErr error
	carry := func(x *types.Transaction) *types.Transaction {
		if via == "json" {
			y, err := viaJSON(x)
			if err != nil {
				decodeErr = err
				return x
			}
			return y
		}
		return x
	}
	mk := func() (*types.Transaction, *types.Transaction) {
		ct, tw := inner(cur, curSigs, curPSigs), inner(cur, twinSigs, twinPSigs)
		switch box {
		case "none":
			return carry(ct), tw
		case "ok":
			return carry(wrap(ct, ct, a.wrapper.key, label)), wrap(tw, tw, a.wrapper.key, "true")
		case "bad":
			return carry(wrap(ct, ct, a.foreign.key, label)), wrap(tw, tw, a.wrapper.key, "true")
		case "old": // the box sender signed before the change
			return carry(wrap(inner(orig, origSigs, origPSigs), ct, a.wrapper.key, label)), wrap(tw, tw, a.wrapper.key, "true")
		}
		engine.Failf("unknown box %q", box)
		return nil, nil
	}
	// ---- hand it to the miner
	sj := subjects{s: a.sender.addr, to: to, other: to, p: a.nobody}
	if cur.to != nil && *cur.to != to && *cur.to != a.sender.addr {
		sj.other = *cur.to
	}
	if payer != nil {
		sj.p = payer.addr
	}
	pre := a.observe(v, sj)
	caseTx, _ := mk()
	enc, _ := rlp.EncodeToBytes(caseTx)
	// the check every real node applies to a transaction on arrival (api.go SendTx, protocol_manager.go handleTxsMsg);
	// "now" is the parent block's time, so nothing depends on the wall clock
	ierr := caseTx.VerifyTxBody(node.ChainID, uint64(pos.blk.Time()), false)
	if decodeErr != nil {
		ierr = decodeErr
	}
	var txs types.Transactions
	if ierr == nil {
		txs = types.Transactions{caseTx}
	}
	blk, invalid, r := a.mine(pos, txs)
	packaged := len(blk.Txs) == 1
	post := a.observe(a.view(a.builder.DB, blk.Hash()), sj)
	fl := engine.Fields{"cfg": pre.cfg, "intake": ierr == nil, "packaged": packaged, "invalid": len(invalid) == 1, "ntx": len(blk.Txs),
		"amount": units(cur.amount), "sameTo": sj.other == sj.to, "tx": common.ToHex(enc), "hash": caseTx.Hash().Hex()}
	fl["scfg"] = a.stableCfg()
	if payer != nil {
		fl["pcfg"] = a.cfgOf(v, payer.addr, a.psigner)
	} else {
		fl["pcfg"] = []int{}
	}
	delta(fl, pre, post, "")
	a.pend = &pending{c: c, packaged: packaged, parent: pos, mk: mk, sj: sj,
		forgeable: kind != "asset", twinValid: f != "chainID"}
	if packaged {
		a.pend.honest = blk
		a.head = chainPos{blk, r}
	}
	return fl, nil
}

// viaJSON is tx as a node reads it from the JSON text an RPC client sends (tx_sendTx): every member as the node's own encoder
// writes it, without the output-only "hash" member, a member whose value is null (an absent gasPayer / recipient) left out.
func viaJSON(tx *types.Transaction) (*types.Transaction, error) {
	text, err := json.Marshal(tx)
	if err != nil {
		engine.Failf("JSON form of a transaction: %v", err)
	}
	var m map[string]json.RawMessage
	if err := json.Unmarshal(text, &m); err != nil {
		engine.Failf("JSON form of a transaction: %v", err)
	}
	delete(m, "hash")
	for k, v := range m {
		if string(v) == "null" {
			delete(m, k)
		}
	}
	if text, err = json.Marshal(m); err != nil {
		engine.Failf("JSON form of a transaction: %v", err)
	}
	out := new(types.Transaction)
	if err := json.Unmarshal(text, out); err != nil {
		return nil, err
	}
	return out, nil
}

// boxJSON is the box data carrying sub in the JSON form an attacker chooses: the "hash" member claims *claim (nil: no such
// member); gasUsed as given (nil: as in sub).
func boxJSON(sub *types.Transaction, claim *common.Hash, gasUsed *uint64) []byte {
	data, err := types.MarshalBoxData(types.Transactions{sub})
	if err != nil {
		engine.Failf("box data: %v", err)
	}
	return patchBoxJSON(data, claim, true, gasUsed)
}

// patchBoxJSON edits the JSON text of box data with one sub-transaction without decoding it into a transaction.
func patchBoxJSON(data []byte, claim *common.Hash, setClaim bool, gasUsed *uint64) []byte {
	var m map[string][]map[string]json.RawMessage
	if err := json.Unmarshal(data, &m); err != nil || len(m) != 1 || len(m["subTxList"]) != 1 {
		engine.Failf("box data is not a box with one sub-transaction: %v %s", err, data)
	}
	sub := m["subTxList"][0]
	enc := func(x interface{}) json.RawMessage {
		b, err := json.Marshal(x)
		if err != nil {
			engine.Failf("box data: %v", err)
		}
		return b
	}
	if setClaim {
		if claim == nil {
			delete(sub, "hash")
		} else {
			sub["hash"] = enc(*claim)
		}
	}
	if gasUsed != nil {
		sub["gasUsed"] = enc(hexutil.Uint64(*gasUsed))
	}
	out := enc(m)
	if _, err := types.GetBox(out); err != nil {
		engine.Failf("edited box data does not parse: %v", err)
	}
	return out
}

func (a *adapter) validate() (engine.Fields, error) {
	p := a.pend
	if p == nil {
		return nil, fmt.Errorf("Validate without a pending case")
	}
	a.pend = nil
	sj := p.sj
	fl := engine.Fields{}
	pre := a.observe(a.view(a.nut.DB, p.parent.blk.Hash()), sj)
	var offered *types.Block
	switch {
	case p.packaged:
		fl["mode"] = "honest"
		offered = node.Copy(p.honest, nil)
	case !p.forgeable:
		fl["mode"] = "skip"
		fl["ok"] = false
		fl["stored"] = false
		delta(fl, pre, pre, "")
		return fl, nil
	default:
		fl["mode"] = "forged"
		// what executing the submitted content does to the state: mine its properly signed twin
		_, twin := p.mk()
		tb, _, r := a.mine(p.parent, types.Transactions{twin})
		if len(tb.Txs) != 1 {
			engine.Realf("the properly signed twin of case %s is not packaged by the miner", p.c.String())
		}
		_, err := a.nut.DP.InsertBlock(node.Copy(tb, nil))
		if (err == nil) != p.twinValid {
			engine.Realf("twin block of case %s: validator says %v", p.c.String(), err)
		}
		// the dishonest deputy's block: same header roots, the case's transaction in place of the twin
		caseTx, _ := p.mk()
		caseTx.SetGasUsed(tb.Txs[0].GasUsed())
		if caseTx.Type() == params.BoxTx {
			tbox, err1 := types.GetBox(tb.Txs[0].Data())
			if err1 != nil || len(tbox.SubTxList) != 1 {
				engine.Failf("box data of the twin block: %v", err1)
			}
			// the sub-transaction's gasUsed as an executing miner writes it; everything else of the JSON form stays as submitted
			gas := tbox.SubTxList[0].GasUsed()
			caseTx.SetData(patchBoxJSON(caseTx.Data(), nil, false, &gas))
		}
		offered = node.Copy(tb, nil)
		offered.Txs = types.Transactions{caseTx}
		offered.Header.TxRoot = offered.Txs.MerkleRootSha()
		sig := node.Sign(offered.Header.Hash(), a.w.Keys[r], 0)
		offered.Header.SignData = sig[:]
		offered = node.Copy(offered, nil)
	}
	_, err := a.nut.DP.InsertBlock(offered)
	fl["ok"] = err == nil
	if err != nil {
		fl["err"] = err.Error()
		if p.packaged { // keep both nodes on a common chain
			a.head = p.parent
		}
	}
	_, gerr := a.nut.DB.GetBlockByHash(offered.Hash())
	fl["stored"] = gerr == nil
	post := pre
	if gerr == nil {
		post = a.observe(a.view(a.nut.DB, offered.Hash()), sj)
	}
	delta(fl, pre, post, "")
	return fl, nil
}

func (a *adapter) Close() {
	for _, n := range append(a.old, a.nut, a.builder) {
		if n != nil {
			n.Destroy()
		}
	}
}
