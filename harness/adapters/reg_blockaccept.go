package adapters

import _ "verifharness/adapters/blockaccept"
