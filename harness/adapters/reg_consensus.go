package adapters

import _ "verifharness/adapters/consensus"
