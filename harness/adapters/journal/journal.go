// Package journal binds spec/Journal.tla (generator) and spec/TraceJournal.tla (validator) to the real
// chain/account.Manager over a real store.ChainDatabase (C07).  Every spec action is performed through the public
// AccountAccessor / Manager API; after every step the full observable projection of the small account universe
// (all getters of both accounts) is logged.  The adapter never judges.
package journal

import (
	"fmt"
	"math/big"
	"os"
	"path/filepath"
	"strings"

	"github.com/LemoFoundationLtd/lemochain-core/chain/account"
	"github.com/LemoFoundationLtd/lemochain-core/chain/types"
	"github.com/LemoFoundationLtd/lemochain-core/common"
	"github.com/LemoFoundationLtd/lemochain-core/common/crypto"
	"github.com/LemoFoundationLtd/lemochain-core/store"
	"github.com/LemoFoundationLtd/lemochain-core/store/protocol"
	"github.com/LemoFoundationLtd/lemochain-core/store/trie"

	"verifharness/engine"
	"verifharness/tla"
)

// ---- the fixed universe: abstract names <-> real values
var (
	addrs = map[string]common.Address{
		"c": common.HexToAddress("0xc0de000000000000000000000000000000000001"),
		"u": common.HexToAddress("0x0a5e000000000000000000000000000000000002"),
	}
	names    = []string{"c", "u"}
	key1     = common.HexToHash("0xd1")
	key2     = common.HexToHash("0xd2")
	assetX   = common.HexToHash("0xa1") // asset code issued by the account
	assetID  = common.HexToHash("0xb1") // asset id whose metadata the account holds
	equityID = common.HexToHash("0xe1") // asset id the account holds equity of
	codes    = map[string]types.Code{}  // per behaviour, see newCodes
	signers  = map[string]types.Signers{}
	profKey1 = types.CandidateKeyIsCandidate
	profKey2 = types.CandidateKeyHost
)

func init() {
	signers["g1"] = types.Signers{{Address: addrs["c"], Weight: 50}, {Address: addrs["u"], Weight: 50}}
	signers["g2"] = types.Signers{{Address: addrs["u"], Weight: 100}}
}

// newCodes makes the two contract codes unique per behaviour: contract code is stored content-addressed in the
// shared database, so a code saved by an earlier behaviour must not be loadable by a later one.
func newCodes(n int) {
	codes["c1"] = types.Code{0x60, 0x01, byte(n >> 16), byte(n >> 8), byte(n)}
	codes["c2"] = types.Code{0x60, 0x02, 0x00, byte(n >> 16), byte(n >> 8), byte(n)}
}

func codeName(c []byte) string {
	if len(c) == 0 {
		return ""
	}
	for n, v := range codes {
		if string(v) == string(c) {
			return n
		}
	}
	return fmt.Sprintf("0x%x", c)
}

func hashName(h common.Hash) string {
	if h == (common.Hash{}) || h == common.Sha3Nil { // the code base's own notion of "no code" (isEmptyHash)
		return ""
	}
	for n, v := range codes {
		if crypto.Keccak256Hash(v) == h {
			return n
		}
	}
	return h.Hex()
}

func addrName(a common.Address) string {
	if a == (common.Address{}) {
		return ""
	}
	for n, v := range addrs {
		if v == a {
			return n
		}
	}
	return a.Hex()
}

func signersName(s types.Signers) string {
	if len(s) == 0 {
		return ""
	}
	str := func(x types.Signers) string {
		var p []string
		for _, e := range x {
			p = append(p, fmt.Sprintf("%s:%d", addrName(e.Address), e.Weight))
		}
		return strings.Join(p, ",")
	}
	for n, v := range signers {
		if str(v) == str(s) {
			return n
		}
	}
	return str(s)
}

func bytesInt(b []byte) int {
	if len(b) > 4 {
		return -2
	}
	return int(new(big.Int).SetBytes(b).Int64())
}

func intBytes(v int) []byte {
	if v == 0 {
		return []byte{} // what opSstore passes for a zero word
	}
	return big.NewInt(int64(v)).Bytes()
}

func bigInt(b *big.Int) int {
	if b == nil {
		return -3
	}
	if !b.IsInt64() || b.Int64() > 1<<30 {
		return -2
	}
	return int(b.Int64())
}

// slots names the trie keys the projection reads: two storage slots, an issued asset code, an asset id with metadata
// and an asset id the account holds equity of.
type slots struct{ s1, s2, ax, aid, eq common.Hash }

func project(acc types.AccountAccessor) map[string]interface{} {
	return projectAt(acc, slots{key1, key2, assetX, assetID, equityID})
}

// projectAt reads every observable attribute of one account through the AccountAccessor getters.
func projectAt(acc types.AccountAccessor, sl slots) map[string]interface{} {
	key1, key2, assetX, assetID, equityID := sl.s1, sl.s2, sl.ax, sl.aid, sl.eq
	o := map[string]interface{}{}
	o["bal"] = bigInt(acc.GetBalance())
	if code, err := acc.GetCode(); err != nil {
		o["code"] = "ERR"
	} else {
		o["code"] = codeName(code)
	}
	o["chash"] = hashName(acc.GetCodeHash())
	for f, k := range map[string]common.Hash{"s1": key1, "s2": key2} {
		if v, err := acc.GetStorageState(k); err != nil {
			o[f] = -1
		} else {
			o[f] = bytesInt(v)
		}
	}
	o["sui"] = acc.GetSuicide()
	o["ev"] = len(acc.GetEvents())
	// issued asset
	o["ax"], o["asup"], o["afr"] = false, 0, ""
	if as, err := acc.GetAssetCode(assetX); err == nil && as != nil {
		o["ax"] = true
		o["asup"] = bigInt(as.TotalSupply)
		o["afr"] = as.Profile[types.AssetFreeze]
		// the dedicated getters must agree with the whole-asset getter
		if ts, err := acc.GetAssetCodeTotalSupply(assetX); err != nil || bigInt(ts) != o["asup"].(int) {
			o["asup"] = -1
		}
		if fr, err := acc.GetAssetCodeState(assetX, types.AssetFreeze); err != nil || fr != o["afr"].(string) {
			o["afr"] = "ERR"
		}
	} else if err != types.ErrAssetNotExist {
		o["afr"] = "ERR"
	}
	if v, err := acc.GetAssetIdState(assetID); err == nil {
		o["aid"] = v
	} else if err == types.ErrAssetIdNotExist {
		o["aid"] = ""
	} else {
		o["aid"] = "ERR"
	}
	if e, err := acc.GetEquityState(equityID); err == nil && e != nil {
		o["eq"] = bigInt(e.Equity)
	} else if err == types.ErrEquityNotExist {
		o["eq"] = 0
	} else {
		o["eq"] = -1
	}
	prof := acc.GetCandidate()
	o["p1"], o["p2"] = prof[profKey1], prof[profKey2]
	if acc.GetCandidateState(profKey1) != prof[profKey1] || acc.GetCandidateState(profKey2) != prof[profKey2] {
		o["p1"] = "ERR"
	}
	extra := 0 // profile entries outside the two modelled keys that carry a value
	for k, v := range prof {
		if k != profKey1 && k != profKey2 && v != "" {
			extra++
		}
	}
	if extra > 0 {
		o["p2"] = fmt.Sprintf("%v+%d", o["p2"], extra)
	}
	o["votes"] = bigInt(acc.GetVotes())
	o["vf"] = addrName(acc.GetVoteFor())
	o["sig"] = signersName(acc.GetSigners())
	o["rs"] = acc.GetStorageRoot().Hex()
	o["rac"] = acc.GetAssetCodeRoot().Hex()
	o["rai"] = acc.GetAssetIdRoot().Hex()
	o["req"] = acc.GetEquityRoot().Hex()
	return o
}

// a real database is opened once per dbReuse behaviours (12 ms each on tmpfs)
const dbReuse = 500

// op is one setter call that is still in effect: the adapter's own record of what was executed and not reverted.
// At Seal the surviving calls are executed once more, alone, on a second manager (the run in which the reverted work
// never happened); the trace specification checks the list against its own journal before it trusts that run.
type op struct {
	n, k string
	v    tla.Value
}

type adapter struct {
	dir    string
	n      int
	db     protocol.ChainDB
	am     *account.Manager
	snaps  []int       // real revision ids of the live spec revisions
	parent common.Hash // the block the manager is based on
	ops    []op        // surviving setter calls
	opIdx  []int       // len(ops) at each live snapshot
}

func (a *adapter) closeDB() {
	if a.db != nil {
		a.db.Close()
		a.db = nil
	}
	if a.dir != "" {
		os.RemoveAll(a.dir)
	}
}

func (a *adapter) obs() map[string]interface{} { return obsOf(a.am) }

func obsOf(am *account.Manager) map[string]interface{} {
	o := map[string]interface{}{}
	for _, n := range names {
		o[n] = project(am.GetAccount(addrs[n]))
	}
	return o
}

// pubOf renders the change logs a block publishes: account, log type, version and the hash of the log's published
// encoding (what enters the block's LogRoot).
func pubOf(logs types.ChangeLogSlice, name func(common.Address) string) []map[string]interface{} {
	out := make([]map[string]interface{}, 0, len(logs))
	for _, l := range logs {
		out = append(out, map[string]interface{}{"a": name(l.Address), "t": l.LogType.String(), "v": int(l.Version), "d": l.Hash().Hex()[:18]})
	}
	return out
}

func (a *adapter) fields(extra engine.Fields) engine.Fields {
	f := engine.Fields{"obs": a.obs(), "nlogs": len(a.am.GetChangeLogs()), "zero": common.Hash{}.Hex(), "emptyroot": emptyTrieRoot(a.db)}
	for k, v := range extra {
		f[k] = v
	}
	return f
}

var emptyRootHex string

// emptyTrieRoot is the hash the code base computes for a trie without entries (not the zero hash).
func emptyTrieRoot(db protocol.ChainDB) string {
	if emptyRootHex == "" {
		tr, err := trie.NewSecure(common.Hash{}, db.GetTrieDatabase(), 0)
		if err != nil {
			engine.Failf("empty trie: %v", err)
		}
		emptyRootHex = tr.Hash().Hex()
	}
	return emptyRootHex
}

func errStr(err error) string {
	if err == nil {
		return ""
	}
	return err.Error()
}

// set performs the real setter of kind k with abstract value v on acc.
func set(acc types.AccountAccessor, k string, v tla.Value) error {
	switch k {
	case "bal":
		acc.SetBalance(big.NewInt(int64(v.I())))
	case "s1":
		return acc.SetStorageState(key1, intBytes(v.I()))
	case "s2":
		return acc.SetStorageState(key2, intBytes(v.I()))
	case "code":
		c, ok := codes[v.S()]
		if !ok {
			engine.Failf("unknown code %q", v.S())
		}
		acc.SetCode(append(types.Code(nil), c...))
	case "sui":
		acc.SetSuicide(true)
	case "ev":
		acc.PushEvent(&types.Event{Address: acc.GetAddress(), Topics: []common.Hash{key1}, Data: []byte{1}})
	case "ax":
		return acc.SetAssetCode(assetX, &types.Asset{Category: types.TokenAsset, IsDivisible: true, AssetCode: assetX, Decimal: 0,
			TotalSupply: big.NewInt(0), IsReplenishable: true, Issuer: acc.GetAddress(), Profile: make(types.Profile)})
	case "asup":
		return acc.SetAssetCodeTotalSupply(assetX, big.NewInt(int64(v.I())))
	case "afr":
		return acc.SetAssetCodeState(assetX, types.AssetFreeze, v.S())
	case "aid":
		return acc.SetAssetIdState(assetID, v.S())
	case "eq":
		return acc.SetEquityState(equityID, &types.AssetEquity{AssetCode: assetX, AssetId: equityID, Equity: big.NewInt(int64(v.I()))})
	case "cand":
		acc.SetCandidate(types.Profile{profKey1: v.GetI(1).S(), profKey2: v.GetI(2).S()})
	case "p1":
		acc.SetCandidateState(profKey1, v.S())
	case "p2":
		acc.SetCandidateState(profKey2, v.S())
	case "votes":
		acc.SetVotes(big.NewInt(int64(v.I())))
	case "vf":
		var ad common.Address
		if v.S() != "" {
			ad = addrs[v.S()]
		}
		acc.SetVoteFor(ad)
	case "sig":
		return acc.SetSingers(append(types.Signers(nil), signers[v.S()]...))
	default:
		engine.Failf("unknown setter kind %q", k)
	}
	return nil
}

// setupBase commits the parent state the spec's initial state describes: the attributes are written through the
// real setters in a first block, which is finalised, saved and made the base of the manager.
func (a *adapter) setupBase(st tla.Value) error {
	dirty := false
	for _, n := range names {
		r, ok := st.Get(tla.Str(n))
		if !ok {
			continue
		}
		acc := a.am.GetAccount(addrs[n])
		get := func(f string) (tla.Value, bool) { return r.Get(tla.Str(f)) }
		do := func(k string, v tla.Value) error {
			dirty = true
			if err := set(acc, k, v); err != nil {
				return fmt.Errorf("base %s.%s: %v", n, k, err)
			}
			return nil
		}
		for _, f := range []string{"bal", "s1", "s2", "eq", "votes"} {
			if v, ok := get(f); ok && v.I() != 0 {
				if err := do(f, v); err != nil {
					return err
				}
			}
		}
		for _, f := range []string{"code", "aid", "vf", "sig", "p1", "p2"} {
			if v, ok := get(f); ok && v.S() != "" {
				if err := do(f, v); err != nil {
					return err
				}
			}
		}
		if v, ok := get("ax"); ok && v.B() {
			if err := do("ax", v); err != nil {
				return err
			}
			if s, ok := get("asup"); ok && s.I() != 0 {
				if err := do("asup", s); err != nil {
					return err
				}
			}
			if s, ok := get("afr"); ok && s.S() != "" {
				if err := do("afr", s); err != nil {
					return err
				}
			}
		}
		if v, ok := get("sui"); ok && v.B() {
			return fmt.Errorf("a self-destructed base account is not supported")
		}
	}
	if !dirty {
		return nil
	}
	a.am.MergeChangeLogs()
	if err := a.am.Finalise(); err != nil {
		return fmt.Errorf("base finalise: %v", err)
	}
	blk := &types.Block{}
	// every behaviour gets its own parentless block (unique time => unique hash) with its own account database;
	// nothing is ever made stable, so the blocks of different behaviours do not see each other
	blk.SetHeader(&types.Header{Height: 0, Time: uint32(1538209751 + a.n), VersionRoot: a.am.GetVersionRoot()})
	h := blk.Hash()
	if err := a.db.SetBlock(h, blk); err != nil {
		return fmt.Errorf("base SetBlock: %v", err)
	}
	if err := a.am.Save(h); err != nil {
		return fmt.Errorf("base save: %v", err)
	}
	a.am.Reset(h)
	a.parent = h
	return nil
}

func (a *adapter) Reset(init map[string]tla.Value) (engine.Fields, error) {
	a.n++
	if a.db == nil || a.n%dbReuse == 0 {
		a.closeDB()
		root := os.Getenv("VERIF_SCRATCH_DIR")
		if root == "" {
			root = filepath.Join(os.TempDir(), fmt.Sprintf("verif_journal_%d", os.Getpid()))
		}
		a.dir = filepath.Join(root, "journaldb")
		os.RemoveAll(a.dir)
		a.db = store.NewChainDataBase(a.dir)
	}
	newCodes(a.n)
	a.am = account.NewManager(common.Hash{}, a.db)
	a.snaps, a.ops, a.opIdx = nil, nil, nil
	a.parent = common.Hash{}
	if st, ok := init["st"]; ok {
		if err := a.setupBase(st); err != nil {
			return nil, err
		}
	}
	return a.fields(nil), nil
}

func (a *adapter) Apply(s engine.Step) (engine.Fields, error) {
	arg := s.Act.Args
	switch s.Act.Name {
	case "Set":
		n, k := arg[0].S(), arg[1].S()
		ad, ok := addrs[n]
		if !ok {
			engine.Failf("unknown account %q", n)
		}
		err := set(a.am.GetAccount(ad), k, arg[2])
		a.ops = append(a.ops, op{n, k, arg[2]})
		return a.fields(engine.Fields{"err": errStr(err)}), nil
	case "Snapshot":
		id := a.am.Snapshot()
		a.snaps = append(a.snaps, id)
		a.opIdx = append(a.opIdx, len(a.ops))
		return a.fields(engine.Fields{"id": id}), nil
	case "Revert":
		i := arg[0].I()
		if i < 1 || i > len(a.snaps) {
			engine.Failf("Revert(%d) with %d live revisions", i, len(a.snaps))
		}
		id := a.snaps[i-1]
		a.snaps = a.snaps[:i-1]
		a.ops, a.opIdx = a.ops[:a.opIdx[i-1]], a.opIdx[:i-1]
		a.am.RevertToSnapshot(id) // a panic is caught and logged by the engine
		return a.fields(engine.Fields{"id": id}), nil
	case "Seal":
		// finish the block the way BlockAssembler.Finalize does, publish its change logs ...
		a.am.MergeChangeLogs()
		ferr := a.am.Finalise()
		logs := a.am.GetChangeLogs()
		f := a.fields(engine.Fields{"err": errStr(ferr), "pub": pubOf(logs, addrName)})
		// ... the same block built by a second manager that executes the surviving setter calls only: no snapshot
		// was ever taken there and nothing was ever reverted ...
		cm := account.NewManager(a.parent, a.db)
		var cerr error
		cleanops := make([]interface{}, 0, len(a.ops))
		for _, o := range a.ops {
			if err := set(cm.GetAccount(addrs[o.n]), o.k, o.v); err != nil && cerr == nil {
				cerr = err
			}
			cleanops = append(cleanops, []interface{}{o.n, o.k, o.v.JSON()})
		}
		cm.MergeChangeLogs()
		if err := cm.Finalise(); err != nil && cerr == nil {
			cerr = err
		}
		f["cleanops"], f["cerr"], f["clean"], f["cleanpub"] = cleanops, errStr(cerr), obsOf(cm), pubOf(cm.GetChangeLogs(), addrName)
		// ... a node that only has the parent state replays the published logs (Manager.RebuildAll), then finalises ...
		blk := &types.Block{ChangeLogs: logs}
		hd := &types.Header{ParentHash: a.parent, Height: 1, Time: uint32(1600000000 + a.n), VersionRoot: a.am.GetVersionRoot()}
		if a.parent == (common.Hash{}) {
			hd.Height = 0
		}
		blk.SetHeader(hd)
		rm := account.NewManager(a.parent, a.db)
		rerr := rm.RebuildAll(blk)
		if rerr == nil {
			rerr = rm.Finalise()
		}
		f["rerr"], f["redo"] = errStr(rerr), obsOf(rm)
		// ... and the block is saved; a fresh manager on the new block reads back what later blocks will build on.
		// (Nothing is ever made stable in this database, and the store only takes parentless blocks then: the block
		// is stored without a parent link, so only the accounts Save wrote - those with published logs - can be
		// read back; the trace specification compares exactly those.)
		sblk := &types.Block{ChangeLogs: logs}
		sblk.SetHeader(&types.Header{Height: 0, Time: hd.Time, VersionRoot: hd.VersionRoot, LogRoot: logs.MerkleRootSha()})
		h := sblk.Hash()
		serr := a.db.SetBlock(h, sblk)
		if serr == nil {
			serr = a.am.Save(h)
		}
		f["serr"] = errStr(serr)
		if serr == nil {
			f["saved"] = obsOf(account.NewManager(h, a.db))
		}
		return f, nil
	}
	return nil, fmt.Errorf("unknown action %s", s.Act.Name)
}

func (a *adapter) Close() { a.closeDB() }

func init() {
	engine.Register("journal", func() engine.Adapter { return &adapter{} })
}
