package journal

// Adapter "journalminer" binds spec/JournalMiner.tla (generator) and spec/TraceJournalMiner.tla (validator) to the
// miner-side discard paths of the REAL transaction.TxProcessor.ApplyTxs (C07: "a transaction the miner discards
// leaves no trace at all").  For every candidate list TLC offers, together with a block gas limit, the real processor
// of a real node walks the list (Snapshot / applyTx / RevertToSnapshot); a second processor with its own account
// manager on the same parent block is then offered ONLY what the first one packaged.  Logged for both: which
// candidates were packaged / reported invalid, the journal right after ApplyTxs (log types and published encodings,
// provisional versions blanked), the full getter projection of the account universe, and the same again after the
// real BlockAssembler.Finalize + Seal (published logs with versions, all roots, block hash).  The adapter never judges.

import (
	"crypto/ecdsa"
	"fmt"
	"math/big"
	"os"
	"path/filepath"
	"time"

	"github.com/LemoFoundationLtd/lemochain-core/chain/account"
	"github.com/LemoFoundationLtd/lemochain-core/chain/consensus"
	"github.com/LemoFoundationLtd/lemochain-core/chain/deputynode"
	"github.com/LemoFoundationLtd/lemochain-core/chain/params"
	"github.com/LemoFoundationLtd/lemochain-core/chain/transaction"
	"github.com/LemoFoundationLtd/lemochain-core/chain/types"
	"github.com/LemoFoundationLtd/lemochain-core/common"
	"github.com/LemoFoundationLtd/lemochain-core/common/crypto"

	"verifharness/engine"
	"verifharness/node"
	"verifharness/tla"
)

var mGasPrice = big.NewInt(1000000000)

// atom is one concrete signed transaction (a plain candidate or a sub-transaction of a box).
type atom struct {
	from   string
	signer string // "" = from
	to     string // "" = no receiver
	amount *big.Int
	typ    uint16
	data   func(a *madapter) []byte
	gas    uint64 // gas limit = the gas the transaction uses when it succeeds (calibrated on the real processor)
}

// contract K: STOP when called without data, SSTORE(0, 1) otherwise
var kRuntime = []byte{0x36, 0x60, 0x06, 0x57, 0x00, 0x00, 0x5b, 0x60, 0x01, 0x60, 0x00, 0x55, 0x00}

const assetJSON = `{"category":"1","isDivisible":true,"decimal":"0","isReplenishable":true,"profile":{"name":"T","symbol":"T","description":"d","suggestedGasLimit":"60000"}}`

func lemo(n int64) *big.Int {
	return new(big.Int).Mul(big.NewInt(n), new(big.Int).Exp(big.NewInt(10), big.NewInt(18), nil))
}

// the candidate classes of spec/JournalMinerOps.tla; a box lists its sub-transactions
var mBoxes = map[string][]string{
	"boxpay":    {"bp1", "bp2"},
	"boxbad":    {"bb1", "xbad1"},
	"boxover":   {"bo1", "xover"},
	"boxasset":  {"xasset", "xbad2"},
	"boxstore":  {"xstore", "xbad3"},
	"boxissue":  {"xissue", "xbad4"},
	"boxfreeze": {"xfreeze", "xbad5"},
}
var mBoxOrder = []string{"boxpay", "boxbad", "boxover", "boxasset", "boxstore", "boxissue", "boxfreeze"}

func xfer(from, to string, amt int64) *atom {
	return &atom{from: from, to: to, amount: big.NewInt(amt), typ: params.OrdinaryTx}
}

var mAtoms = map[string]*atom{
	// plain candidates
	"pay":    xfer("F", "r1", 5),
	"pay2":   xfer("a1", "r2", 7),
	"pay3":   xfer("a2", "r1", 9),
	"give":   xfer("F", "K", 3), // no call data: K only receives the amount
	"asset":  {from: "a1", typ: params.CreateAssetTx, data: func(*madapter) []byte { return []byte(assetJSON) }},
	"badsig": {from: "F", signer: "X", to: "r1", amount: big.NewInt(11), typ: params.OrdinaryTx},
	"poor":   xfer("p", "r1", 1),
	"over":   {from: "a2", to: "r1", amount: lemo(50), typ: params.OrdinaryTx}, // a2 owns 1 LEMO: fails after the gas was bought
	// sub-transactions
	"bp1":    xfer("F", "r1", 13),
	"bp2":    xfer("a1", "r2", 15),
	"bb1":    xfer("F", "r1", 17),
	"bo1":    xfer("a1", "r2", 19),
	"xover":  {from: "a2", to: "r2", amount: lemo(60), typ: params.OrdinaryTx},
	"xasset": {from: "a1", typ: params.CreateAssetTx, data: func(*madapter) []byte { return []byte(assetJSON) }},
	"xstore": {from: "a1", to: "K", amount: big.NewInt(0), typ: params.OrdinaryTx, data: func(*madapter) []byte { return []byte{1} }},
	"xissue": {from: "a1", to: "a2", typ: params.IssueAssetTx, data: func(a *madapter) []byte {
		return []byte(fmt.Sprintf(`{"assetCode":"%s","metaData":"m","supplyAmount":"100"}`, a.asset0.Hex()))
	}},
	"xfreeze": {from: "a1", typ: params.ModifyAssetTx, data: func(a *madapter) []byte {
		return []byte(fmt.Sprintf(`{"assetCode":"%s","updateProfile":{"freeze":"true"}}`, a.asset0.Hex()))
	}},
	"xbad1": {from: "F", signer: "X", to: "r1", amount: big.NewInt(21), typ: params.OrdinaryTx},
	"xbad2": {from: "F", signer: "X", to: "r1", amount: big.NewInt(22), typ: params.OrdinaryTx},
	"xbad3": {from: "F", signer: "X", to: "r1", amount: big.NewInt(23), typ: params.OrdinaryTx},
	"xbad4": {from: "F", signer: "X", to: "r1", amount: big.NewInt(24), typ: params.OrdinaryTx},
	"xbad5": {from: "F", signer: "X", to: "r1", amount: big.NewInt(25), typ: params.OrdinaryTx},
}

// atoms that cannot be calibrated (they never succeed) get their intrinsic gas
var mNeverOK = map[string]bool{"badsig": true, "poor": true, "over": true, "xover": true, "xbad1": true, "xbad2": true, "xbad3": true, "xbad4": true, "xbad5": true}
var mBoxPayer = "F"

type mrunner struct {
	am   *account.Manager
	proc *transaction.TxProcessor
	asm  *consensus.BlockAssembler
}

type madapter struct {
	w      *node.World
	dir    string
	n      *node.Node
	keys   map[string]*ecdsa.PrivateKey
	addr   map[string]common.Address
	uni    []string // the account universe of the projection
	parent *types.Block
	asset0 common.Hash // the asset a1 created in the (stable) setup block
	sl     slots
	full   mrunner // the miner offered every candidate
	ref    mrunner // the miner offered the packaged transactions only
	G      uint64
	nbeh   int
}

func mKey(tag byte) *ecdsa.PrivateKey {
	b := make([]byte, 32)
	b[0], b[1], b[31] = 0x77, tag, 1
	k, err := crypto.ToECDSA(b)
	if err != nil {
		panic(err)
	}
	return k
}

func (a *madapter) name(ad common.Address) string {
	for n, v := range a.addr {
		if v == ad {
			return n
		}
	}
	return ad.Hex()
}

// tx builds a fresh signed transaction (the processor mutates GasUsed and box data).
func (a *madapter) tx(name string, gas uint64) *types.Transaction {
	exp := uint64(node.GenesisTime) + 1000
	if subs, ok := mBoxes[name]; ok {
		var l types.Transactions
		for _, s := range subs {
			l = append(l, a.tx(s, 0))
		}
		data, err := types.MarshalBoxData(l)
		if err != nil {
			engine.Failf("box data: %v", err)
		}
		if gas == 0 {
			gas = boxGas(name)
		}
		t := types.NoReceiverTransaction(a.addr[mBoxPayer], nil, gas, mGasPrice, data, params.BoxTx, node.ChainID, exp, "", name)
		st, err := types.MakeSigner().SignTx(t, a.keys[mBoxPayer])
		if err != nil {
			engine.Failf("sign %s: %v", name, err)
		}
		return st
	}
	at, ok := mAtoms[name]
	if !ok {
		engine.Failf("unknown candidate class %q", name)
	}
	if gas == 0 {
		gas = at.gas
	}
	var data []byte
	if at.data != nil {
		data = at.data(a)
	}
	var t *types.Transaction
	if at.to == "" {
		t = types.NoReceiverTransaction(a.addr[at.from], at.amount, gas, mGasPrice, data, at.typ, node.ChainID, exp, "", name)
	} else {
		t = types.NewTransaction(a.addr[at.from], a.addr[at.to], at.amount, gas, mGasPrice, data, at.typ, node.ChainID, exp, "", name)
	}
	signer := at.signer
	if signer == "" {
		signer = at.from
	}
	st, err := types.MakeSigner().SignTx(t, a.keys[signer])
	if err != nil {
		engine.Failf("sign %s: %v", name, err)
	}
	return st
}

func (a *madapter) header(gasLimit uint64) *types.Header {
	return &types.Header{ParentHash: a.parent.Hash(), MinerAddress: a.w.Miners[0], Height: a.parent.Height() + 1,
		GasLimit: gasLimit, Time: a.parent.Time() + 1, Extra: "c07"}
}

func (a *madapter) runner(am *account.Manager) mrunner {
	proc := transaction.NewTxProcessor(a.w.Founder, node.ChainID, a.n.BC, am, a.n.DB, a.n.DM)
	return mrunner{am: am, proc: proc, asm: consensus.NewBlockAssembler(am, a.n.DM, proc, a.n.DP)}
}

func (a *madapter) init() {
	root := os.Getenv("VERIF_SCRATCH_DIR")
	if root == "" {
		root = filepath.Join(os.TempDir(), fmt.Sprintf("verif_journalminer_%d", os.Getpid()))
	}
	a.dir = filepath.Join(root, "minernode")
	os.RemoveAll(a.dir)
	a.w = node.NewWorld(1, 1000)
	deputynode.SetSelfNodeKey(a.w.Outsider2())
	a.keys = map[string]*ecdsa.PrivateKey{"F": a.w.FounderKey, "a1": mKey(1), "a2": mKey(2), "p": mKey(3), "X": a.w.Outsider}
	a.addr = map[string]common.Address{"r1": common.HexToAddress("0xc07d0001"), "r2": common.HexToAddress("0xc07d0002"), "M": a.w.Miners[0]}
	for n, k := range a.keys {
		a.addr[n] = crypto.PubkeyToAddress(k.PublicKey)
	}
	a.n = a.w.NewNode(a.dir)
	// setup block (made stable: asset transactions need a stable asset): fund a1 and a2, deploy K, a1 creates an asset
	exp := uint64(node.GenesisTime) + 1000
	sign := func(t *types.Transaction, who string) *types.Transaction {
		st, err := types.MakeSigner().SignTx(t, a.keys[who])
		if err != nil {
			engine.Failf("setup sign: %v", err)
		}
		return st
	}
	deploy := sign(types.NewContractCreation(a.addr["F"], big.NewInt(0), 300000, mGasPrice, initCodeOf(kRuntime), params.CreateContractTx, node.ChainID, exp, "", "K"), "F")
	a.addr["K"] = crypto.CreateContractAddress(a.addr["F"], deploy.Hash())
	create := sign(types.NoReceiverTransaction(a.addr["a1"], nil, 200000, mGasPrice, []byte(assetJSON), params.CreateAssetTx, node.ChainID, exp, "", "A0"), "a1")
	a.asset0 = create.Hash()
	setup := types.Transactions{
		sign(types.NewTransaction(a.addr["F"], a.addr["a1"], lemo(1000), 30000, mGasPrice, nil, params.OrdinaryTx, node.ChainID, exp, "", "f1"), "F"),
		sign(types.NewTransaction(a.addr["F"], a.addr["a2"], lemo(1), 30000, mGasPrice, nil, params.OrdinaryTx, node.ChainID, exp, "", "f2"), "F"),
		deploy, create}
	b1, invalid, err := a.n.Build(a.n.Genesis, 0, 0, setup, "S1")
	if err != nil || len(invalid) != 0 || len(b1.Txs) != len(setup) {
		engine.Realf("setup block: err=%v discarded=%d packaged=%d", err, len(invalid), len(b1.Txs))
	}
	if _, err := a.n.DB.SetStableBlock(b1.Hash()); err != nil {
		engine.Realf("setup: stabilise: %v", err)
	}
	for i := 0; ; i++ { // the store indexes the assets of a stable block from a background goroutine (setup only)
		if is, err := a.n.DB.GetAssetCode(a.asset0); err == nil && is == a.addr["a1"] {
			break
		}
		if i > 20000 {
			engine.Failf("asset index of the stable setup block never appeared")
		}
		time.Sleep(time.Millisecond)
	}
	a.parent = b1
	a.uni = []string{"F", "a1", "a2", "p", "K", "r1", "r2", "M"}
	a.sl = slots{s1: common.Hash{}, s2: common.BigToHash(big.NewInt(1)), ax: a.asset0, aid: a.asset0, eq: a.asset0}
	a.full = mrunner{am: a.n.AM, proc: a.n.Proc, asm: a.n.Asm}
	a.ref = a.runner(account.NewManager(b1.Hash(), a.n.DB))
	// calibration: every transaction that can succeed is run alone with a generous limit; its gas limit becomes
	// exactly what it used, so that a packaged transaction neither over-buys nor gets a refund
	cal := a.runner(account.NewManager(b1.Hash(), a.n.DB))
	for name, at := range mAtoms {
		if mNeverOK[name] {
			g, err := transaction.IntrinsicGas(at.typ, nil, name)
			if err != nil {
				engine.Failf("intrinsic gas of %s: %v", name, err)
			}
			at.gas = g
			continue
		}
		t := a.tx(name, 1000000)
		sel, _, _ := cal.proc.ApplyTxs(a.header(100000000), types.Transactions{t}, 1000000)
		if len(sel) != 1 {
			engine.Realf("calibration: %s is not packaged when run alone", name)
		}
		at.gas = sel[0].GasUsed()
	}
}

// boxGas: a box pays its base gas and its message (its sub-transactions pay for themselves)
func boxGas(name string) uint64 {
	g, err := transaction.IntrinsicGas(params.BoxTx, nil, name)
	if err != nil {
		engine.Failf("intrinsic gas of %s: %v", name, err)
	}
	return g
}

func initCodeOf(rt []byte) []byte {
	n := byte(len(rt))
	return append([]byte{0x60, n, 0x60, 0x0c, 0x60, 0x00, 0x39, 0x60, n, 0x60, 0x00, 0xf3}, rt...)
}

func (a *madapter) obsOf(am *account.Manager) map[string]interface{} {
	o := map[string]interface{}{}
	for _, n := range a.uni {
		acc := am.GetAccount(a.addr[n])
		p := projectAt(acc, a.sl)
		// real balances and votes do not fit the small integers of the journal universe: exact decimal strings
		p["bal"], p["votes"] = acc.GetBalance().String(), acc.GetVotes().String()
		o[n] = p
	}
	return o
}

// rawLogs renders the journal as ApplyTxs leaves it: provisional versions are blanked (Finalise renumbers them)
func (a *madapter) rawLogs(logs types.ChangeLogSlice) []map[string]interface{} {
	out := make([]map[string]interface{}, 0, len(logs))
	for _, l := range logs {
		c := *l
		c.Version = 0
		out = append(out, map[string]interface{}{"a": a.name(l.Address), "t": l.LogType.String(), "d": c.Hash().Hex()[:18]})
	}
	return out
}

// mine lets one runner walk the candidate list and finish the block; prefix "" for the full run, "r" for the reference
func (a *madapter) mine(r mrunner, names []string, prefix string, f engine.Fields) []string {
	var txs types.Transactions
	byPtr := map[*types.Transaction]string{}
	for _, n := range names {
		t := a.tx(n, 0)
		byPtr[t] = n
		txs = append(txs, t)
	}
	h := a.header(a.G)
	sel, inv, used := r.proc.ApplyTxs(h, txs, 1000000)
	ns := func(l types.Transactions) []string {
		out := []string{}
		for _, t := range l {
			n, ok := byPtr[t]
			if !ok {
				engine.Failf("ApplyTxs returned a transaction it was not given")
			}
			out = append(out, n)
		}
		return out
	}
	f[prefix+"sel"], f[prefix+"inv"], f[prefix+"used"] = ns(sel), ns(inv), int(used)
	f[prefix+"raw"] = map[string]interface{}{"logs": a.rawLogs(r.am.GetChangeLogs()), "obs": a.obsOf(r.am)}
	ferr := r.asm.Finalize(h.Height)
	fin := map[string]interface{}{"err": errStr(ferr)}
	if ferr == nil {
		blk := r.asm.Seal(h, r.am.GetTxsProduct(sel, used), nil)
		fin["pub"], fin["obs"], fin["hash"] = pubOf(r.am.GetChangeLogs(), a.name), a.obsOf(r.am), blk.Hash().Hex()
	}
	f[prefix+"fin"] = fin
	return ns(sel)
}

func (a *madapter) Reset(init map[string]tla.Value) (engine.Fields, error) {
	if a.w == nil {
		a.init()
	}
	a.nbeh++
	g, ok := init["G"]
	if !ok {
		return nil, fmt.Errorf("initial state without G")
	}
	a.G = uint64(g.I())
	gas := map[string]int{}
	for n, at := range mAtoms {
		gas[n] = int(at.gas)
	}
	for n := range mBoxes {
		gas[n] = int(boxGas(n))
	}
	return engine.Fields{"G": int(a.G), "gas": gas, "boxes": mBoxes, "mingas": int(params.OrdinaryTxGas),
		"zero": common.Hash{}.Hex(), "emptyroot": emptyTrieRoot(a.n.DB)}, nil
}

func (a *madapter) Apply(s engine.Step) (engine.Fields, error) {
	if s.Act.Name != "Mine" {
		return nil, fmt.Errorf("unknown action %s", s.Act.Name)
	}
	names := s.Act.Args[0].Strs()
	f := engine.Fields{}
	sel := a.mine(a.full, names, "", f)
	a.mine(a.ref, sel, "r", f)
	return f, nil
}

func (a *madapter) Close() {
	if a.n != nil {
		a.n.Destroy()
		a.n = nil
	}
}

func init() {
	engine.Register("journalminer", func() engine.Adapter { return &madapter{} })
	// `vh drive journalminer-gas`: prints the calibrated gas table (used once to choose the generator's gas limits)
	engine.RegisterDriver("journalminer-gas", func(args []string) error {
		a := &madapter{}
		a.init()
		defer a.Close()
		for _, n := range mBoxOrder {
			fmt.Printf("%s %d\n", n, boxGas(n))
		}
		for n, at := range mAtoms {
			fmt.Printf("%s %d\n", n, at.gas)
		}
		return nil
	})
}
