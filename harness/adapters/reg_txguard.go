package adapters

import _ "verifharness/adapters/txguard"
