package adapters

import _ "verifharness/adapters/engineconc"
