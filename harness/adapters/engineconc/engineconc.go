// Package engineconc is the concurrent recording driver for C19: several goroutines hit one real DPoVP engine
// (a deputy node) with blocks, confirm packets, mining requests and reads; the verif hook records every engine
// call under chainLock (lock order = sequence numbers); every confirm the node emits is collected and checked.
package engineconc

import (
	"bufio"
	"encoding/json"
	"flag"
	"fmt"
	"math/rand"
	"os"
	"path/filepath"
	"runtime"
	"sort"
	"strconv"
	"strings"
	"sync"
	"sync/atomic"
	"time"

	"github.com/LemoFoundationLtd/lemochain-core/chain/account"
	"github.com/LemoFoundationLtd/lemochain-core/chain/consensus"
	"github.com/LemoFoundationLtd/lemochain-core/chain/deputynode"
	"github.com/LemoFoundationLtd/lemochain-core/chain/types"
	"github.com/LemoFoundationLtd/lemochain-core/common"
	"github.com/LemoFoundationLtd/lemochain-core/network"
	"github.com/LemoFoundationLtd/lemochain-core/store"

	"verifharness/engine"
	"verifharness/node"
)

const (
	nd   = 3
	self = 2 // the node under test is deputy 2 (rank 1)
	nb   = 8
)

type ids struct {
	mu     sync.Mutex
	byHash map[common.Hash]int
	parent []int // index = id-1
	miner  []int
}

func (x *ids) get(h common.Hash) (int, bool) {
	x.mu.Lock()
	defer x.mu.Unlock()
	id, ok := x.byHash[h]
	return id, ok
}

func drive(args []string) error {
	fs := flag.NewFlagSet("engine-conc", flag.ContinueOnError)
	out := fs.String("out", "trace.ndjson", "")
	seed := fs.Int64("seed", 1, "")
	rounds := fs.Int("rounds", 10, "")
	gated := fs.Int("gated", 4, "gated rounds: a mining request is made to queue on chainLock behind an InsertBlock that moves the head")
	cuts := fs.Int("cuts", 10, "rounds in which a confirm packet cuts the head's fork while a reader outside chainLock spins on CurrentBlock()")
	stables := fs.Int("stables", 3, "rounds in which a whole fork becomes stable at once and peers' confirms for its blocks arrive while the background goroutine writes this node's own")
	dups := fs.Int("dups", 6, "rounds in which two confirm packets carrying the two encodings of ONE deputy's signature are inserted at the same instant (5 deputies)")
	if err := fs.Parse(args); err != nil {
		return err
	}
	dir := os.Getenv("VERIF_SCRATCH_DIR")
	if dir == "" {
		dir = filepath.Join(os.TempDir(), fmt.Sprintf("verif-engineconc-%d", os.Getpid()))
	}
	f, err := os.Create(*out)
	if err != nil {
		return err
	}
	defer f.Close()
	bw := bufio.NewWriter(f)
	defer bw.Flush()
	enc := json.NewEncoder(bw)
	lines := 0
	emit := func(fl map[string]interface{}) {
		lines++
		if err := enc.Encode(fl); err != nil {
			panic(err)
		}
	}
	w := node.NewWorld(nd, 1000)
	// recent chain, so that the node broadcasts its confirms (only blocks younger than 3 minutes) and its own mining
	// stamps (wall clock) are not before the parent
	w.GenesisTime = uint32(time.Now().Unix()) - 60
	deputynode.SetSelfNodeKey(w.Keys[self-1])
	builder := w.NewNode(filepath.Join(dir, "builder"))
	defer builder.Destroy()
	rng := rand.New(rand.NewSource(*seed))
	totalEmits, totalEvents := 0, 0
	for g := 0; g < *gated; g++ {
		if err := gatedRound(dir, g, emit); err != nil {
			return err
		}
	}
	for g := 0; g < *dups; g++ {
		if err := dupRound(dir, g, emit); err != nil {
			return err
		}
	}
	for g := 0; g < *stables; g++ {
		if err := stableRound(dir, g, emit); err != nil {
			return err
		}
	}
	for g := 0; g < *cuts; g++ {
		if err := cutRound(dir, g, emit); err != nil {
			return err
		}
	}
	for r := 0; r < *rounds; r++ {
		// a random tree of nb blocks
		x := &ids{byHash: map[common.Hash]int{builder.Genesis.Hash(): 0}}
		blocks := []*types.Block{builder.Genesis}
		for b := 1; b <= nb; b++ {
			p := 0
			if b > 1 {
				p = b - 1 - rng.Intn(min(b, 3))
			}
			m := 1 + rng.Intn(nd)
			blk, _, err := builder.Build(blocks[p], m-1, 0, nil, fmt.Sprintf("r%d-%d-b%d", *seed, r, b))
			if err != nil {
				return fmt.Errorf("build: %v", err)
			}
			blocks = append(blocks, blk)
			x.byHash[blk.Hash()] = b
			x.parent = append(x.parent, p)
			x.miner = append(x.miner, m)
		}
		n := w.NewNode(filepath.Join(dir, fmt.Sprintf("nut%d", r)))
		var evs []map[string]interface{}
		project := func(fl map[string]interface{}) {
			stable, head := n.DP.StableBlock(), n.DP.CurrentBlock()
			known := map[int]*types.Block{}
			unconf := []int{}
			newb := []map[string]int{}
			idOf := func(b *types.Block) int {
				if id, ok := x.get(b.Hash()); ok {
					return id
				}
				// a block the node mined itself: give it the next id
				x.mu.Lock()
				defer x.mu.Unlock()
				pid, ok := x.byHash[b.ParentHash()]
				if !ok {
					panic(engine.HarnessError{Msg: "mined block with unknown parent"})
				}
				id := len(x.parent) + 1
				x.byHash[b.Hash()] = id
				x.parent = append(x.parent, pid)
				mr := -1
				if nid, err := b.SignerNodeID(); err == nil {
					mr = w.DeputyOf(nid)
				}
				x.miner = append(x.miner, mr+1)
				newb = append(newb, map[string]int{"id": id, "parent": pid, "miner": mr + 1})
				return id
			}
			var ub []*types.Block
			n.DB.IterateUnConfirms(func(b *types.Block) { ub = append(ub, b) })
			sort.Slice(ub, func(i, j int) bool { return ub[i].Height() < ub[j].Height() })
			for _, b := range ub {
				id := idOf(b)
				unconf = append(unconf, id)
				known[id] = b
			}
			sort.Ints(unconf)
			chain := []int{}
			for h := uint32(1); h <= stable.Height(); h++ {
				b, err := n.DB.GetBlockByHeight(h)
				if err != nil {
					fl["stable_chain_error"] = err.Error()
					continue
				}
				id := idOf(b)
				chain = append(chain, id)
				known[id] = b
			}
			fl["stable"], fl["head"] = idOf(stable), idOf(head)
			fl["unconf"], fl["chain"], fl["new"] = unconf, chain, newb
			signers := map[string][]int{}
			for id, b := range known {
				rs, _ := w.Signers(b)
				o := []int{}
				for _, q := range rs {
					o = append(o, q+1)
				}
				sort.Ints(o)
				signers[strconv.Itoa(id)] = o
			}
			fl["signers"] = signers
		}
		var lastSeq, firstSeq uint64
		consensus.VerifEngineHook = func(dp *consensus.DPoVP, ev consensus.VerifEngineEvent) {
			if dp != n.DP {
				return
			}
			if firstSeq == 0 {
				firstSeq = ev.Seq
			}
			fl := map[string]interface{}{"ev": ev.Op, "seq": ev.Seq, "b": -1, "exists": false}
			if ev.Op != "MineBlock" {
				if id, ok := x.get(ev.Hash); ok {
					fl["b"] = id
				}
				ex, _ := n.DB.IsExistByHash(ev.Hash)
				fl["exists"] = ex
			}
			project(fl)
			evs = append(evs, fl) // under chainLock
			atomic.StoreUint64(&lastSeq, ev.Seq)
		}
		// a reader outside chainLock (RPC, miner and network threads read the head like this): every head it sees is the head
		// after one of the engine calls that were in progress or completed around the read
		type headRead struct {
			s0, s1 uint64
			h      common.Hash
		}
		var headReads []headRead
		stopReader := int32(0)
		readerDone := make(chan struct{})
		go func() {
			defer close(readerDone)
			var prev common.Hash
			for atomic.LoadInt32(&stopReader) == 0 {
				s0 := atomic.LoadUint64(&lastSeq)
				h := n.DP.CurrentBlock().Hash()
				s1 := atomic.LoadUint64(&lastSeq)
				if h != prev && len(headReads) < 4000 {
					headReads = append(headReads, headRead{s0, s1, h})
					prev = h
				}
			}
		}()
		confirmCh := make(chan *network.BlockConfirmData, 1024)
		sub := n.DP.SubscribeConfirm(confirmCh)
		var emits []*network.BlockConfirmData
		var emu sync.Mutex
		done := make(chan struct{})
		go func() {
			for {
				select {
				case c := <-confirmCh:
					emu.Lock()
					emits = append(emits, c)
					emu.Unlock()
				case <-done:
					return
				}
			}
		}()
		var wg sync.WaitGroup
		for g := 0; g < 2; g++ { // block inserters: every block, shuffled, retried until its parent has arrived
			wg.Add(1)
			go func(gs int64) {
				defer wg.Done()
				lr := rand.New(rand.NewSource(gs))
				for pass := 0; pass < 4; pass++ {
					order := lr.Perm(nb)
					for _, i := range order {
						b := blocks[i+1]
						var sigs []types.SignData
						if lr.Intn(3) == 0 {
							sigs = append(sigs, node.Sign(b.Hash(), w.Keys[lr.Intn(nd)], lr.Intn(2)))
						}
						n.DP.InsertBlock(node.Copy(b, sigs))
					}
				}
			}(*seed*7919 + int64(r*10+g))
		}
		for g := 0; g < 2; g++ { // confirm inserters
			wg.Add(1)
			go func(gs int64) {
				defer wg.Done()
				lr := rand.New(rand.NewSource(gs))
				for i := 0; i < 40; i++ {
					b := blocks[1+lr.Intn(nb)]
					var sigs []types.SignData
					for k := 0; k <= lr.Intn(2); k++ {
						key := w.Keys[lr.Intn(nd)]
						if lr.Intn(6) == 0 {
							key = w.Outsider
						}
						sigs = append(sigs, node.Sign(b.Hash(), key, lr.Intn(2)))
					}
					n.DP.InsertConfirms(b.Height(), b.Hash(), sigs)
				}
			}(*seed*104729 + int64(r*10+g))
		}
		wg.Add(1)
		go func() { // the miner thread
			defer wg.Done()
			for i := 0; i < 40; i++ { // keeps queueing on chainLock behind the inserters
				n.DP.MineBlock(1000)
				if i%8 == 7 {
					time.Sleep(time.Millisecond)
				}
			}
		}()
		wg.Add(1)
		go func() { // readers: what RPC threads do
			defer wg.Done()
			rm := account.NewReadOnlyManager(n.DB, false)
			for i := 0; i < 200; i++ {
				h := n.DP.CurrentBlock()
				n.DP.StableBlock()
				n.DB.GetBlockByHash(h.Hash())
				n.DB.GetBlockByHeight(h.Height())
				rm.GetAccount(w.Founder).GetBalance()
				rm.GetAccount(w.Miners[i%nd]).GetVotes()
			}
		}()
		wg.Wait()
		time.Sleep(300 * time.Millisecond) // let the engine's own background goroutines finish their confirms (not a verdict)
		atomic.StoreInt32(&stopReader, 1)
		<-readerDone
		close(done)
		sub.Unsubscribe()
		consensus.VerifEngineHook = nil
		sort.Slice(evs, func(i, j int) bool { return evs[i]["seq"].(uint64) < evs[j]["seq"].(uint64) })
		emit(map[string]interface{}{"ev": "reset", "beh": r, "nd": nd, "self": self, "parent": x.parent[:nb], "miner": x.miner[:nb],
			"stable": 0, "head": 0, "unconf": []int{}, "chain": []int{}})
		for _, fl := range evs {
			fl["beh"] = r
			emit(fl)
		}
		totalEvents += len(evs)
		final := map[string]interface{}{"ev": "Final", "beh": r}
		// every confirm the node had published BEFORE this reading was stored before it was published
		emu.Lock()
		published := append([]*network.BlockConfirmData(nil), emits...)
		emu.Unlock()
		project(final)
		final["own_missing"] = ownMissing(published, final["signers"].(map[string][]int), x.get)
		emit(final)
		emu.Lock()
		for _, c := range emits {
			fl := map[string]interface{}{"ev": "Emit", "beh": r, "b": -1, "valid": false, "height_ok": false}
			if id, ok := x.get(c.Hash); ok {
				fl["b"] = id
				if blk, err := n.DB.GetBlockByHash(c.Hash); err == nil {
					fl["height_ok"] = blk.Height() == c.Height
				}
			}
			if nid, err := c.SignInfo.RecoverNodeID(c.Hash); err == nil {
				fl["valid"] = w.DeputyOf(nid) == self-1
			}
			emit(fl)
		}
		totalEmits += len(emits)
		emu.Unlock()
		// the heads the unlocked reader saw, each with the heads of the calls around it (assembled, not judged, here)
		for _, hr := range headReads {
			got := -1
			if id, ok := x.get(hr.h); ok {
				got = id
			}
			window := []int{}
			if hr.s0 == 0 && firstSeq > 0 { // read before the first call's hook ran (sequence numbers are process-wide)
				hr.s0 = firstSeq - 1
			}
			if hr.s1 == 0 && firstSeq > 0 {
				hr.s1 = firstSeq - 1
			}
			for _, fl := range evs {
				if sq := fl["seq"].(uint64); sq >= hr.s0 && sq <= hr.s1+1 {
					window = append(window, fl["head"].(int))
				}
			}
			if hr.s0 < firstSeq {
				window = append(window, 0) // before the first call of this round: genesis
			}
			emit(map[string]interface{}{"ev": "Read", "beh": r, "got": got, "window": window})
		}
		n.Destroy()
	}
	fmt.Printf("{\"rounds\": %d, \"lines\": %d, \"engine_events\": %d, \"emitted_confirms\": %d}\n", *rounds, lines, totalEvents, totalEmits)
	return nil
}

// gatedRound forces one interleaving: InsertBlock(B) holds chainLock (the hook, which runs under the lock, waits) while a
// mining request arrives and queues on the lock; then InsertBlock completes.  In every sequential order of the two calls the
// mined block is a child of the head at the time the request takes effect.  The universe is laid out so that this node
// (rank 1) is in turn both on genesis (second slot) and on B (first slot after B), whatever the request reads.
func gatedRound(dir string, g int, emit func(map[string]interface{})) error {
	const slotSec = 1000
	w := node.NewWorld(nd, slotSec*1000)
	w.GenesisTime = uint32(time.Now().Unix()) - slotSec - 10
	builder := w.NewNode(filepath.Join(dir, fmt.Sprintf("gbuilder%d", g)))
	defer builder.Destroy()
	blk, _, err := builder.BuildWith(builder.Genesis, 0, 0, nil, fmt.Sprintf("g%d", g), func(h *types.Header) { h.Time = w.GenesisTime + slotSec - 1 }, true)
	if err != nil {
		return fmt.Errorf("gated build: %v", err)
	}
	n := w.NewNode(filepath.Join(dir, fmt.Sprintf("gnut%d", g)))
	defer n.Destroy()
	byHash := map[common.Hash]int{n.Genesis.Hash(): 0, blk.Hash(): 1}
	parent, miner := []int{0}, []int{1}
	var evs []map[string]interface{}
	project := func(fl map[string]interface{}) {
		stable, head := n.DP.StableBlock(), n.DP.CurrentBlock()
		newb := []map[string]int{}
		idOf := func(b *types.Block) int {
			if id, ok := byHash[b.Hash()]; ok {
				return id
			}
			id := len(parent) + 1
			byHash[b.Hash()] = id
			pid := byHash[b.ParentHash()]
			mr := -1
			if nid, err := b.SignerNodeID(); err == nil {
				mr = w.DeputyOf(nid)
			}
			parent, miner = append(parent, pid), append(miner, mr+1)
			newb = append(newb, map[string]int{"id": id, "parent": pid, "miner": mr + 1})
			return id
		}
		unconf := []int{}
		signers := map[string][]int{}
		var ub []*types.Block
		n.DB.IterateUnConfirms(func(b *types.Block) { ub = append(ub, b) })
		sort.Slice(ub, func(i, j int) bool { return ub[i].Height() < ub[j].Height() })
		for _, b := range ub {
			id := idOf(b)
			unconf = append(unconf, id)
			rs, _ := w.Signers(b)
			o := []int{}
			for _, q := range rs {
				o = append(o, q+1)
			}
			sort.Ints(o)
			signers[strconv.Itoa(id)] = o
		}
		sort.Ints(unconf)
		chain := []int{}
		for h := uint32(1); h <= stable.Height(); h++ {
			b, err := n.DB.GetBlockByHeight(h)
			if err != nil {
				continue
			}
			id := idOf(b)
			chain = append(chain, id)
			rs, _ := w.Signers(b)
			o := []int{}
			for _, q := range rs {
				o = append(o, q+1)
			}
			sort.Ints(o)
			signers[strconv.Itoa(id)] = o
		}
		fl["stable"], fl["head"] = idOf(stable), idOf(head)
		fl["unconf"], fl["chain"], fl["new"], fl["signers"] = unconf, chain, newb, signers
	}
	mineNow := make(chan struct{})
	mineDone := make(chan struct{})
	go func() {
		<-mineNow
		n.DP.MineBlock(1000)
		close(mineDone)
	}()
	armed := true
	consensus.VerifEngineHook = func(dp *consensus.DPoVP, ev consensus.VerifEngineEvent) {
		if dp != n.DP {
			return
		}
		fl := map[string]interface{}{"ev": ev.Op, "seq": ev.Seq, "b": -1, "exists": false}
		if ev.Op != "MineBlock" {
			if id, ok := byHash[ev.Hash]; ok {
				fl["b"] = id
			}
			ex, _ := n.DB.IsExistByHash(ev.Hash)
			fl["exists"] = ex
		}
		project(fl)
		evs = append(evs, fl)
		if armed && ev.Op == "InsertBlock" {
			armed = false
			close(mineNow)                    // the mining request starts now, while chainLock is still held here
			time.Sleep(30 * time.Millisecond) // let it reach the lock (a missed rendezvous only loses the interleaving, never a verdict)
		}
	}
	n.DP.InsertBlock(node.Copy(blk, nil))
	select {
	case <-mineDone:
	case <-time.After(20 * time.Second):
		return fmt.Errorf("gated round: mining request did not return")
	}
	consensus.VerifEngineHook = nil
	emit(map[string]interface{}{"ev": "reset", "beh": 1000 + g, "nd": nd, "self": self, "parent": []int{0}, "miner": []int{1},
		"stable": 0, "head": 0, "unconf": []int{}, "chain": []int{}})
	for _, fl := range evs {
		fl["beh"] = 1000 + g
		emit(fl)
	}
	return nil
}

// gid is the id of the calling goroutine.
func gid() int64 {
	var buf [64]byte
	n := runtime.Stack(buf[:], false)
	f := strings.Fields(string(buf[:n]))
	if len(f) < 2 {
		return -1
	}
	id, _ := strconv.ParseInt(f[1], 10, 64)
	return id
}

// ownMissing: blocks the node still holds for which it published its own confirm that the stored block does not carry.
func ownMissing(published []*network.BlockConfirmData, signers map[string][]int, idOf func(common.Hash) (int, bool)) []int {
	miss := []int{}
	for _, c := range published {
		id, ok := idOf(c.Hash)
		if !ok {
			continue
		}
		sg, held := signers[strconv.Itoa(id)]
		if !held {
			continue
		}
		has := false
		for _, q := range sg {
			if q == self {
				has = true
			}
		}
		if !has {
			miss = append(miss, id)
		}
	}
	sort.Ints(miss)
	return miss
}

// stableRound: five deputies.  The node first follows fork A (6 blocks), then receives the longer fork B; B's tip arrives
// with a quorum of confirms, so B1..B7 become stable at once, most of them without this node's confirm: the engine's
// background goroutine (batchConfirmStable, outside chainLock) now signs them one by one and writes its confirms, while
// two network goroutines deliver other deputies' confirms for the very same blocks.  In every sequential order all of
// these confirms end up stored.
func stableRound(dir string, g int, emit func(map[string]interface{})) error {
	const nd5, la, lb = 5, 24, 25
	w := node.NewWorld(nd5, 1000)
	w.GenesisTime = uint32(time.Now().Unix()) - 400
	builder := w.NewNode(filepath.Join(dir, fmt.Sprintf("sbuilder%d", g)))
	defer builder.Destroy()
	n := w.NewNode(filepath.Join(dir, fmt.Sprintf("snut%d", g)))
	defer n.Destroy()
	byHash := map[common.Hash]int{n.Genesis.Hash(): 0}
	var parent, miner []int
	var blocks []*types.Block
	add := func(p *types.Block, rank int, extra string) (*types.Block, error) {
		b, _, err := builder.Build(p, rank, 0, nil, extra)
		if err != nil {
			return nil, err
		}
		byHash[b.Hash()] = len(parent) + 1
		parent, miner = append(parent, byHash[p.Hash()]), append(miner, rank+1)
		blocks = append(blocks, b)
		return b, nil
	}
	tip := builder.Genesis
	var err error
	for i := 0; i < la; i++ {
		if tip, err = add(tip, i%nd5, fmt.Sprintf("s%d-a%d", g, i)); err != nil {
			return fmt.Errorf("stable round build A: %v", err)
		}
	}
	tip = builder.Genesis
	for i := 0; i < lb; i++ {
		if tip, err = add(tip, (i+1)%nd5, fmt.Sprintf("s%d-b%d", g, i)); err != nil {
			return fmt.Errorf("stable round build B: %v", err)
		}
	}
	var evs []map[string]interface{}
	project := func(fl map[string]interface{}) {
		stable, head := n.DP.StableBlock(), n.DP.CurrentBlock()
		unconf, chain := []int{}, []int{}
		signers := map[string][]int{}
		sig := func(b *types.Block) {
			rs, _ := w.Signers(b)
			o := []int{}
			for _, q := range rs {
				o = append(o, q+1)
			}
			sort.Ints(o)
			signers[strconv.Itoa(byHash[b.Hash()])] = o
		}
		n.DB.IterateUnConfirms(func(b *types.Block) {
			unconf = append(unconf, byHash[b.Hash()])
			sig(b)
		})
		sort.Ints(unconf)
		for h := uint32(1); h <= stable.Height(); h++ {
			if b, err := n.DB.GetBlockByHeight(h); err == nil {
				chain = append(chain, byHash[b.Hash()])
				sig(b)
			}
		}
		fl["stable"], fl["head"] = byHash[stable.Hash()], byHash[head.Hash()]
		fl["unconf"], fl["chain"], fl["new"], fl["signers"] = unconf, chain, []map[string]int{}, signers
	}
	consensus.VerifEngineHook = func(dp *consensus.DPoVP, ev consensus.VerifEngineEvent) {
		if dp != n.DP {
			return
		}
		fl := map[string]interface{}{"ev": ev.Op, "seq": ev.Seq, "b": -1, "exists": false}
		if id, ok := byHash[ev.Hash]; ok {
			fl["b"] = id
		}
		ex, _ := n.DB.IsExistByHash(ev.Hash)
		fl["exists"] = ex
		project(fl)
		evs = append(evs, fl) // under chainLock
	}
	confirmCh := make(chan *network.BlockConfirmData, 1024)
	sub := n.DP.SubscribeConfirm(confirmCh)
	var published []*network.BlockConfirmData
	var emu sync.Mutex
	done := make(chan struct{})
	go func() {
		for {
			select {
			case c := <-confirmCh:
				emu.Lock()
				published = append(published, c)
				emu.Unlock()
			case <-done:
				return
			}
		}
	}()
	for _, b := range blocks[:la+lb-1] {
		n.DP.InsertBlock(node.Copy(b, nil))
	}
	last := blocks[la+lb-1]
	var quorum []types.SignData
	for r := 0; r < nd5 && len(quorum) < 3; r++ {
		if r+1 != self && r+1 != miner[la+lb-1] {
			quorum = append(quorum, node.Sign(last.Hash(), w.Keys[r], 0))
		}
	}
	// rendezvous: the background goroutine signs through SignBlock, whose gate hook tells the network side which block it is
	// about to write its confirm for: the peers' confirms for that very block are delivered at once.  The store's write
	// gate then holds the background goroutine for 2 ms at its next file write - after it has read the stored block and
	// added its confirm, before the new version is written.  With the store's lock held exclusively the peers simply
	// wait; the gates change no data and their absence only loses the interleaving.
	otherOf := func(i, k int) (int, bool) { // the k-th deputy that is neither this node nor the miner of block i
		for r, c := 0, 0; r < nd5; r++ {
			if r+1 == self || r+1 == miner[i] {
				continue
			}
			if c == k {
				return r, true
			}
			c++
		}
		return 0, false
	}
	deliver := func(i, k int) {
		if r, ok := otherOf(i, k); ok {
			b := blocks[i]
			n.DP.InsertConfirms(b.Height(), b.Hash(), []types.SignData{node.Sign(b.Hash(), w.Keys[r], (g+i)%2)})
		}
	}
	var wg sync.WaitGroup
	var armed int32
	var bgGoroutine, holds, sgates, met, bgBlock int64
	var peerOf sync.Map // goroutine id -> index of the block whose confirm it delivers
	mainBack := make(chan struct{})
	consensus.VerifSignGate = func(h common.Hash) {
		if atomic.LoadInt32(&armed) == 0 {
			return
		}
		if id, ok := byHash[h]; ok && id-1 >= la && id-1 < la+lb-1 {
			i := id - 1
			select { // not before the InsertBlock that made the fork stable has returned and released chainLock
			case <-mainBack:
			case <-time.After(500 * time.Millisecond):
			}
			atomic.StoreInt64(&bgGoroutine, gid())
			atomic.AddInt64(&sgates, 1)
			atomic.StoreInt64(&bgBlock, int64(i))
			wg.Add(1)
			go func() { // a peer's confirm for the very block the background goroutine is about to extend
				defer wg.Done()
				peerOf.Store(gid(), i)
				deliver(i, 0)
			}()
			// the peer must be past its own reads of the store (they take the store's lock exclusively) and busy recovering
			// signers when this goroutine enters SetConfirms: 100..475 microseconds by block
			time.Sleep(time.Duration(100+25*(i%16)) * time.Microsecond)
		}
	}
	mainG := gid()
	var hmu sync.Mutex
	var waiting chan struct{} // non-nil while the background goroutine is held
	store.VerifWriteGate = func(tag string) {
		if tag != "wal.write" || atomic.LoadInt32(&armed) == 0 {
			return
		}
		me := gid()
		if g := atomic.LoadInt64(&bgGoroutine); g != 0 && g == me && atomic.CompareAndSwapInt64(&bgGoroutine, g, 0) {
			// held until another goroutine (a peer's InsertConfirms) is about to write to the store as well, 15 ms at most
			ch := make(chan struct{})
			hmu.Lock()
			waiting = ch
			hmu.Unlock()
			atomic.AddInt64(&holds, 1)
			select {
			case <-ch:
				atomic.AddInt64(&met, 1)
			case <-time.After(15 * time.Millisecond):
			}
			hmu.Lock()
			waiting = nil
			hmu.Unlock()
			return
		}
		if b, ok := peerOf.Load(me); ok && me != mainG && int64(b.(int)) == atomic.LoadInt64(&bgBlock) {
			hmu.Lock()
			if waiting != nil {
				close(waiting)
				waiting = nil
			}
			hmu.Unlock()
		}
	}
	defer func() { store.VerifWriteGate = nil }()
	atomic.StoreInt32(&armed, 1)
	n.DP.InsertBlock(node.Copy(last, quorum)) // B1..B25 become stable; the background goroutine starts signing
	close(mainBack)
	for t := 0; t < 200 && atomic.LoadInt64(&holds) < 19; t++ { // until the background goroutine has been through its blocks
		time.Sleep(10 * time.Millisecond)
	}
	time.Sleep(150 * time.Millisecond)
	atomic.StoreInt32(&armed, 0)
	wg.Wait()
	consensus.VerifSignGate = nil
	for i := la; i < la+lb-1; i++ { // another deputy's confirm for every block, at leisure
		deliver(i, 1)
	}
	time.Sleep(300 * time.Millisecond)
	// the background goroutine publishes its packets after it has been through all its blocks: wait (5 s at most, however
	// loaded the machine is) until as many packets are out as stored blocks of fork B carry this node's confirm
	for t := 0; t < 250; t++ {
		signed := 0
		for i := la; i < la+lb-1; i++ {
			if b, err := n.DB.GetBlockByHash(blocks[i].Hash()); err == nil {
				rs, _ := w.Signers(b)
				for _, q := range rs {
					if q+1 == self {
						signed++
					}
				}
			}
		}
		emu.Lock()
		out := len(published)
		emu.Unlock()
		if out >= signed {
			break
		}
		time.Sleep(20 * time.Millisecond)
	}
	consensus.VerifEngineHook = nil
	emu.Lock()
	pub := append([]*network.BlockConfirmData(nil), published...)
	emu.Unlock()
	final := map[string]interface{}{"ev": "Final", "beh": 3000 + g}
	project(final)
	final["published"] = len(pub)
	final["rendezvous"] = []int64{atomic.LoadInt64(&sgates), atomic.LoadInt64(&holds), atomic.LoadInt64(&met)}
	final["own_missing"] = ownMissing(pub, final["signers"].(map[string][]int), func(h common.Hash) (int, bool) { id, ok := byHash[h]; return id, ok })
	// the blocks the background goroutine signed (B1..B24 unless mined by this node): its confirm for each of them is
	// published once - in every sequential order of the background goroutine's work
	pubCount := map[int]int{}
	for _, c := range pub {
		if id, ok := byHash[c.Hash]; ok {
			pubCount[id]++
		}
	}
	twice, never := []int{}, []int{}
	for i := la; i < la+lb-1; i++ {
		id := i + 1
		signed := false
		for _, q := range final["signers"].(map[string][]int)[strconv.Itoa(id)] {
			if q == self {
				signed = true
			}
		}
		if signed && pubCount[id] == 0 {
			never = append(never, id)
		}
		if pubCount[id] > 1 {
			twice = append(twice, id)
		}
	}
	final["pub_twice"], final["pub_never"] = twice, never
	close(done)
	sub.Unsubscribe()
	sort.Slice(evs, func(i, j int) bool { return evs[i]["seq"].(uint64) < evs[j]["seq"].(uint64) })
	emit(map[string]interface{}{"ev": "reset", "beh": 3000 + g, "nd": nd5, "self": self, "parent": parent, "miner": miner,
		"stable": 0, "head": 0, "unconf": []int{}, "chain": []int{}})
	for _, fl := range evs {
		fl["beh"] = 3000 + g
		emit(fl)
	}
	emit(final)
	return nil
}

// cutRound: five deputies.  The node's head is on fork A (2a-3a-4a on the stable block 1) when a confirm packet makes block 2b
// of the shorter fork B (2b-3b) stable: fork A is cut and the head moves to 3b in ONE engine call.  A reader outside
// chainLock spins on CurrentBlock(): the heads it sees are 4a and then 3b - never anything in between.
func cutRound(dir string, g int, emit func(map[string]interface{})) error {
	const nd5 = 5
	w := node.NewWorld(nd5, 1000)
	w.GenesisTime = uint32(time.Now().Unix()) - 120
	builder := w.NewNode(filepath.Join(dir, fmt.Sprintf("cbuilder%d", g)))
	defer builder.Destroy()
	n := w.NewNode(filepath.Join(dir, fmt.Sprintf("cnut%d", g)))
	defer n.Destroy()
	// ids: 1; 2,3,4 = fork A; 5,6 = fork B
	parentOf := []int{0, 1, 2, 3, 1, 5}
	rankOf := []int{0, 2, 3, 4, 3, 4}
	blocks := []*types.Block{builder.Genesis}
	byHash := map[common.Hash]int{builder.Genesis.Hash(): 0}
	for i := range parentOf {
		b, _, err := builder.Build(blocks[parentOf[i]], rankOf[i], 0, nil, fmt.Sprintf("c%d-%d", g, i))
		if err != nil {
			return fmt.Errorf("cut round build: %v", err)
		}
		blocks = append(blocks, b)
		byHash[b.Hash()] = i + 1
	}
	type seqHead struct {
		seq  uint64
		head int
	}
	var heads []seqHead
	var lastSeq uint64
	consensus.VerifEngineHook = func(dp *consensus.DPoVP, ev consensus.VerifEngineEvent) {
		if dp != n.DP {
			return
		}
		heads = append(heads, seqHead{ev.Seq, byHash[n.DP.CurrentBlock().Hash()]}) // under chainLock
		atomic.StoreUint64(&lastSeq, ev.Seq)
	}
	type headRead struct {
		s0, s1 uint64
		h      common.Hash
	}
	var reads []headRead
	stop := int32(0)
	done := make(chan struct{})
	go func() {
		defer close(done)
		var prev common.Hash
		for atomic.LoadInt32(&stop) == 0 {
			s0 := atomic.LoadUint64(&lastSeq)
			h := n.DP.CurrentBlock().Hash()
			s1 := atomic.LoadUint64(&lastSeq)
			if h != prev && len(reads) < 1000 {
				reads = append(reads, headRead{s0, s1, h})
				prev = h
			}
		}
	}()
	others := func(id int) []types.SignData { // the three deputies that are neither the miner of block id nor this node
		var out []types.SignData
		for r := 0; r < nd5; r++ {
			if r+1 != self && r != rankOf[id-1] {
				out = append(out, node.Sign(blocks[id].Hash(), w.Keys[r], (g+r)%2))
			}
		}
		return out
	}
	n.DP.InsertBlock(node.Copy(blocks[1], nil))
	n.DP.InsertConfirms(blocks[1].Height(), blocks[1].Hash(), others(1))
	for _, id := range []int{2, 3, 4, 5, 6} {
		n.DP.InsertBlock(node.Copy(blocks[id], nil))
	}
	time.Sleep(2 * time.Millisecond)
	n.DP.InsertConfirms(blocks[5].Height(), blocks[5].Hash(), others(5)) // 2b becomes stable: fork A is cut
	time.Sleep(5 * time.Millisecond)
	atomic.StoreInt32(&stop, 1)
	<-done
	consensus.VerifEngineHook = nil
	emit(map[string]interface{}{"ev": "reset", "beh": 4000 + g, "nd": nd5, "self": self, "parent": parentOf, "miner": []int{1, 3, 4, 5, 4, 5},
		"stable": 0, "head": 0, "unconf": []int{}, "chain": []int{}})
	first := uint64(0)
	if len(heads) > 0 {
		first = heads[0].seq
	}
	for _, hr := range reads {
		if hr.s0 == 0 && first > 0 {
			hr.s0 = first - 1
		}
		if hr.s1 == 0 && first > 0 {
			hr.s1 = first - 1
		}
		window := []int{}
		for _, sh := range heads {
			if sh.seq >= hr.s0 && sh.seq <= hr.s1+1 {
				window = append(window, sh.head)
			}
		}
		if hr.s0 < first {
			window = append(window, 0)
		}
		got := -1
		if id, ok := byHash[hr.h]; ok {
			got = id
		}
		emit(map[string]interface{}{"ev": "Read", "beh": 4000 + g, "got": got, "window": window})
	}
	final := byHash[n.DP.CurrentBlock().Hash()]
	emit(map[string]interface{}{"ev": "Read", "beh": 4000 + g, "got": final, "window": []int{6}}) // the cut happened: the head ends on 3b
	return nil
}

// dupRound: five deputies (four signers make a block stable).  Each of five blocks (confirmed by this node, deputy 2, unless
// it is the miner) is followed by two confirm packets released at the same instant, carrying (r,s,v) and (r,n-s,v^1) of
// ONE other deputy's signature.  In every sequential order that deputy counts once, so no block becomes stable.
func dupRound(dir string, g int, emit func(map[string]interface{})) error {
	const nd5 = 5
	w := node.NewWorld(nd5, 1000)
	w.GenesisTime = uint32(time.Now().Unix()) - 60
	builder := w.NewNode(filepath.Join(dir, fmt.Sprintf("dbuilder%d", g)))
	defer builder.Destroy()
	const chainLen = 5
	var blocks []*types.Block
	tip := builder.Genesis
	for i := 0; i < chainLen; i++ {
		blk, _, err := builder.Build(tip, i%nd5, 0, nil, fmt.Sprintf("d%d-%d", g, i))
		if err != nil {
			return fmt.Errorf("dup round build: %v", err)
		}
		blocks = append(blocks, blk)
		tip = blk
	}
	n := w.NewNode(filepath.Join(dir, fmt.Sprintf("dnut%d", g)))
	defer n.Destroy()
	byHash := map[common.Hash]int{n.Genesis.Hash(): 0}
	for i, b := range blocks {
		byHash[b.Hash()] = i + 1
	}
	var evs []map[string]interface{}
	project := func(fl map[string]interface{}) {
		stable, head := n.DP.StableBlock(), n.DP.CurrentBlock()
		unconf, chain := []int{}, []int{}
		signers := map[string][]int{}
		sig := func(b *types.Block) {
			rs, _ := w.Signers(b)
			o := []int{}
			for _, q := range rs {
				o = append(o, q+1)
			}
			sort.Ints(o)
			signers[strconv.Itoa(byHash[b.Hash()])] = o
		}
		n.DB.IterateUnConfirms(func(b *types.Block) {
			unconf = append(unconf, byHash[b.Hash()])
			sig(b)
		})
		sort.Ints(unconf)
		for h := uint32(1); h <= stable.Height(); h++ {
			if b, err := n.DB.GetBlockByHeight(h); err == nil {
				chain = append(chain, byHash[b.Hash()])
				sig(b)
			}
		}
		fl["stable"], fl["head"] = byHash[stable.Hash()], byHash[head.Hash()]
		fl["unconf"], fl["chain"], fl["new"], fl["signers"] = unconf, chain, []map[string]int{}, signers
	}
	consensus.VerifEngineHook = func(dp *consensus.DPoVP, ev consensus.VerifEngineEvent) {
		if dp != n.DP {
			return
		}
		fl := map[string]interface{}{"ev": ev.Op, "seq": ev.Seq, "b": -1, "exists": false}
		if id, ok := byHash[ev.Hash]; ok {
			fl["b"] = id
		}
		ex, _ := n.DB.IsExistByHash(ev.Hash)
		fl["exists"] = ex
		project(fl)
		evs = append(evs, fl) // under chainLock
	}
	// every block of the chain: the block, then the two encodings of ONE other deputy's signature as two packets released
	// at the same instant (a spinning barrier: both goroutines are running when they start), and nothing more - with the
	// miner, this node and that deputy the block has three of the four signers it needs
	for i, blk := range blocks {
		n.DP.InsertBlock(node.Copy(blk, nil))
		d := 0
		for d+1 == self || d == i%nd5 {
			d++
		}
		var wg sync.WaitGroup
		var ready int32
		for v := 0; v < 2; v++ {
			wg.Add(1)
			go func(v int) {
				defer wg.Done()
				sigs := []types.SignData{node.Sign(blk.Hash(), w.Keys[d], v)}
				atomic.AddInt32(&ready, 1)
				for t := 0; atomic.LoadInt32(&ready) < 2 && t < 50000000; t++ {
				}
				n.DP.InsertConfirms(blk.Height(), blk.Hash(), sigs)
			}(v)
		}
		wg.Wait()
	}
	time.Sleep(50 * time.Millisecond)
	consensus.VerifEngineHook = nil
	sort.Slice(evs, func(i, j int) bool { return evs[i]["seq"].(uint64) < evs[j]["seq"].(uint64) })
	emit(map[string]interface{}{"ev": "reset", "beh": 2000 + g, "nd": nd5, "self": self, "parent": []int{0, 1, 2, 3, 4}, "miner": []int{1, 2, 3, 4, 5},
		"stable": 0, "head": 0, "unconf": []int{}, "chain": []int{}})
	for _, fl := range evs {
		fl["beh"] = 2000 + g
		emit(fl)
	}
	return nil
}

func min(a, b int) int {
	if a < b {
		return a
	}
	return b
}

func init() { engine.RegisterDriver("engine-conc", drive) }

// ---- gated replay of SignCache.tla schedules on the real consensus.SignBlock ----
//
// A schedule is: P1 calls SignBlock(h1) and is held at the gate between the two cache writes while P2 makes the calls
// `during` (each complete, in order; with a mutex in SignBlock they simply block until P1 is released - the gate gives up
// waiting after a grace period, which cannot change a verdict, only which interleaving was realised), then P1 finishes,
// then the calls `after` are made sequentially.  Every call's result is checked: the signature must recover to the
// node's own key over the requested hash.
func driveSignGate(args []string) error {
	fs := flag.NewFlagSet("signblock-gate", flag.ContinueOnError)
	out := fs.String("out", "trace.ndjson", "")
	workers := fs.Int("workers", 32, "goroutines of the free-running part")
	perWorker := fs.Int("calls", 3000, "SignBlock calls per goroutine in the free-running part")
	if err := fs.Parse(args); err != nil {
		return err
	}
	f, err := os.Create(*out)
	if err != nil {
		return err
	}
	defer f.Close()
	bw := bufio.NewWriter(f)
	defer bw.Flush()
	enc := json.NewEncoder(bw)
	w := node.NewWorld(3, 1000)
	deputynode.SetSelfNodeKey(w.Keys[0])
	hashOf := func(sched, h int) common.Hash {
		var x common.Hash
		x[0], x[1], x[2], x[31] = 0x5c, byte(sched>>8), byte(sched), byte(h)
		return x
	}
	seqs := [][]int{{}, {1}, {2}, {1, 1}, {1, 2}, {2, 1}, {2, 2}}
	sched := 0
	lines := 0
	for _, h1 := range []int{1, 2} {
		for _, during := range seqs {
			for _, after := range seqs {
				sched++
				var mu sync.Mutex
				seq := 0
				var evs []map[string]interface{}
				call := func(p, h int) {
					hash := hashOf(sched, h)
					sig, err := consensus.SignBlock(hash)
					valid := false
					if err == nil && len(sig) == 65 {
						if id, rerr := types.BytesToSignData(sig).RecoverNodeID(hash); rerr == nil {
							valid = w.DeputyOf(id) == 0
						}
					}
					mu.Lock()
					seq++
					evs = append(evs, map[string]interface{}{"ev": "Sign", "beh": sched, "step": seq, "p": p, "h": h, "valid": valid})
					mu.Unlock()
				}
				armed := true
				consensus.VerifSignGate = func(common.Hash) {
					if !armed {
						return
					}
					armed = false
					done := make(chan struct{})
					go func() {
						for _, h := range during {
							call(2, h)
						}
						close(done)
					}()
					select {
					case <-done:
					case <-time.After(50 * time.Millisecond):
					}
				}
				p2done := make(chan struct{})
				_ = p2done
				call(1, h1)
				// P2's calls may still be blocked on a mutex held by P1 until now: wait for them
				for i := 0; i < 400; i++ {
					mu.Lock()
					n := len(evs)
					mu.Unlock()
					if n >= 1+len(during) {
						break
					}
					time.Sleep(5 * time.Millisecond)
				}
				consensus.VerifSignGate = nil
				for _, h := range after {
					call(1, h)
				}
				mu.Lock()
				if len(evs) != 1+len(during)+len(after) {
					mu.Unlock()
					return fmt.Errorf("schedule %d: %d of %d calls returned", sched, len(evs), 1+len(during)+len(after))
				}
				enc.Encode(map[string]interface{}{"ev": "reset", "beh": sched, "h1": h1, "during": during, "after": after})
				lines++
				for _, e := range evs {
					enc.Encode(e)
					lines++
				}
				mu.Unlock()
			}
		}
	}
	// free-running part: many goroutines sign many different hashes at once, as the miner, the block inserters and the
	// goroutine that confirms stable blocks do; which interleavings happen is up to the scheduler.  Every invalid result is
	// logged, and a sample of the valid ones.
	sched++
	enc.Encode(map[string]interface{}{"ev": "reset", "beh": sched, "h1": 0, "during": []int{}, "after": []int{}})
	lines++
	var smu sync.Mutex
	var swg sync.WaitGroup
	calls, bad := 0, 0
	for g := 0; g < *workers; g++ {
		swg.Add(1)
		go func(g int) {
			defer swg.Done()
			for i := 0; i < *perWorker; i++ {
				h := (g*7 + i) % 24 // neighbours share hashes now and then (cache hits), mostly they differ
				hash := hashOf(sched, h)
				sig, err := consensus.SignBlock(hash)
				valid := false
				if err == nil && len(sig) == 65 {
					if id, rerr := types.BytesToSignData(sig).RecoverNodeID(hash); rerr == nil {
						valid = w.DeputyOf(id) == 0
					}
				}
				smu.Lock()
				calls++
				if !valid {
					bad++
				}
				if !valid && bad <= 20 || i%500 == 0 {
					enc.Encode(map[string]interface{}{"ev": "Sign", "beh": sched, "step": calls, "p": g, "h": h, "valid": valid})
					lines++
				}
				smu.Unlock()
			}
		}(g)
	}
	swg.Wait()
	fmt.Printf("{\"schedules\": %d, \"lines\": %d, \"free_calls\": %d, \"free_invalid\": %d}\n", sched, lines, calls, bad)
	return nil
}

func init() { engine.RegisterDriver("signblock-gate", driveSignGate) }
