package engineconc

// Driver "term-lock": concurrent queries of the real deputy manager while term snapshots are saved (spec/TermLock.tla).
// SaveSnapshot of an existing term index overwrites it (a fork at the snapshot height), so the writer alternates between two
// versions of term 1; every query must answer from one saved version and every call must return.

import (
	"bufio"
	"encoding/json"
	"flag"
	"fmt"
	"math/big"
	"os"
	"sync"
	"sync/atomic"
	"time"

	"github.com/LemoFoundationLtd/lemochain-core/chain/deputynode"
	"github.com/LemoFoundationLtd/lemochain-core/chain/params"
	"github.com/LemoFoundationLtd/lemochain-core/chain/types"
	"github.com/LemoFoundationLtd/lemochain-core/common"
	"github.com/LemoFoundationLtd/lemochain-core/store"

	"verifharness/engine"
)

type tlLoader struct{ blocks map[uint32]*types.Block }

func (l *tlLoader) GetBlockByHeight(h uint32) (*types.Block, error) {
	if b, ok := l.blocks[h]; ok {
		return b, nil
	}
	return nil, store.ErrBlockNotExist
}

func tlNodes(tag byte, n int) types.DeputyNodes {
	var out types.DeputyNodes
	for i := 0; i < n; i++ {
		var a common.Address
		a[0], a[1], a[19] = 0x01, tag, byte(i+1)
		id := make([]byte, 64)
		copy(id, a[:])
		id[63] = tag
		out = append(out, &types.DeputyNode{MinerAddress: a, NodeID: id, Rank: uint32(i), Votes: big.NewInt(int64(1000 - i))})
	}
	return out
}

func driveTermLock(args []string) error {
	fs := flag.NewFlagSet("term-lock", flag.ContinueOnError)
	out := fs.String("out", "trace.ndjson", "")
	saves := fs.Int("saves", 3000, "SaveSnapshot calls")
	readers := fs.Int("readers", 8, "")
	if err := fs.Parse(args); err != nil {
		return err
	}
	f, err := os.Create(*out)
	if err != nil {
		return err
	}
	defer f.Close()
	bw := bufio.NewWriter(f)
	defer bw.Flush()
	enc := json.NewEncoder(bw)
	td, id := params.TermDuration, params.InterimDuration
	gen := tlNodes(0xa0, 5)
	vers := []types.DeputyNodes{nil, tlNodes(0xb1, 4), tlNodes(0xb2, 3)} // versions 1 and 2 of term 1
	l := &tlLoader{blocks: map[uint32]*types.Block{0: {Header: &types.Header{Height: 0}, DeputyNodes: gen}}}
	dm := deputynode.NewManager(5, l)
	dm.SaveSnapshot(td, vers[1])
	versionOf := func(ns types.DeputyNodes) int { // 0 genesis, 1/2 the versions of term 1, -1 a mixture / something else
		for v, ref := range []types.DeputyNodes{gen, vers[1], vers[2]} {
			if len(ns) != len(ref) {
				continue
			}
			same := true
			for i := range ns {
				if ns[i].MinerAddress != ref[i].MinerAddress || ns[i].Rank != ref[i].Rank {
					same = false
				}
			}
			if same {
				return v
			}
		}
		return -1
	}
	var progress, calls, bad int64
	var bmu sync.Mutex
	var badSamples []string
	report := func(s string) {
		atomic.AddInt64(&bad, 1)
		bmu.Lock()
		if len(badSamples) < 5 {
			badSamples = append(badSamples, s)
		}
		bmu.Unlock()
	}
	stop := int32(0)
	var wg sync.WaitGroup
	h0, h1 := uint32(5), td+id+3 // a height of term 0 and one of term 1
	for r := 0; r < *readers; r++ {
		wg.Add(1)
		go func(r int) {
			defer wg.Done()
			for i := 0; atomic.LoadInt32(&stop) == 0; i++ {
				switch (i + r) % 7 {
				case 0:
					if v := versionOf(dm.GetDeputiesByHeight(h1, true)); v != 1 && v != 2 {
						report(fmt.Sprintf("GetDeputiesByHeight(term 1) = version %d", v))
					}
				case 1:
					if v := versionOf(dm.GetDeputiesByHeight(h0, true)); v != 0 {
						report(fmt.Sprintf("GetDeputiesByHeight(term 0) = version %d", v))
					}
				case 2:
					if c := dm.GetDeputiesCount(h1); c != 4 && c != 3 {
						report(fmt.Sprintf("GetDeputiesCount(term 1) = %d", c))
					}
				case 3:
					if q := dm.TwoThirdDeputyCount(h1); q != 3 && q != 2 {
						report(fmt.Sprintf("TwoThirdDeputyCount(term 1) = %d", q))
					}
				case 4:
					// (one call = one answer; two calls may see two versions)
					if d := dm.GetDeputyByAddress(h1, vers[1][0].MinerAddress); d != nil && (d.MinerAddress != vers[1][0].MinerAddress || d.Rank != 0) {
						report("GetDeputyByAddress returns another deputy than the one asked for")
					}
				case 5:
					if t, err := dm.GetTermByHeight(h1, true); err != nil || (versionOf(t.GetDeputies(5)) != 1 && versionOf(t.GetDeputies(5)) != 2) {
						report(fmt.Sprintf("GetTermByHeight(term 1): err=%v", err))
					}
				case 6:
					dm.IsNodeDeputy(h1, vers[1][1].NodeID)
					dm.IsEvilDeputyNode(vers[1][1].MinerAddress, h1)
				}
				atomic.AddInt64(&progress, 1)
				atomic.AddInt64(&calls, 1)
			}
		}(r)
	}
	done := make(chan struct{})
	go func() {
		for i := 0; i < *saves; i++ {
			dm.SaveSnapshot(td, vers[1+i%2])
			atomic.AddInt64(&progress, 1)
			if i%64 == 0 {
				time.Sleep(50 * time.Microsecond) // let the readers in
			}
		}
		close(done)
	}()
	// watchdog: nobody may stand still for 10 s
	hang := false
	last, lastAt := int64(-1), time.Now()
wait:
	for {
		select {
		case <-done:
			break wait
		case <-time.After(100 * time.Millisecond):
			if p := atomic.LoadInt64(&progress); p != last {
				last, lastAt = p, time.Now()
			} else if time.Since(lastAt) > 10*time.Second {
				hang = true
				break wait
			}
		}
	}
	atomic.StoreInt32(&stop, 1)
	if !hang {
		wg.Wait()
	}
	bmu.Lock()
	samples := append([]string{}, badSamples...)
	bmu.Unlock()
	enc.Encode(map[string]interface{}{"ev": "TermLock", "beh": 0, "saves": *saves, "readers": *readers, "calls": int(atomic.LoadInt64(&calls)),
		"bad": int(atomic.LoadInt64(&bad)), "bad_samples": samples, "hang": hang})
	fmt.Printf("{\"calls\": %d, \"bad\": %d, \"hang\": %v}\n", atomic.LoadInt64(&calls), atomic.LoadInt64(&bad), hang)
	if hang {
		bw.Flush()
		f.Close()
		os.Exit(0) // the stuck goroutines cannot be waited for
	}
	return nil
}

func init() { engine.RegisterDriver("term-lock", driveTermLock) }
