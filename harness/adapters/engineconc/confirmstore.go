package engineconc

// Driver "confirm-store": concurrent SetConfirms / GetConfirms on the real chain database (spec/ConfirmStore.tla).
// The engine calls these accessors from the chain thread under chainLock AND from the goroutine that signs stable blocks
// (batchConfirmStable) without it; the store's own lock is what makes the read-modify-write of a stored block atomic.

import (
	"bufio"
	"encoding/json"
	"flag"
	"fmt"
	"os"
	"path/filepath"
	"sync"

	"github.com/LemoFoundationLtd/lemochain-core/chain/deputynode"
	"github.com/LemoFoundationLtd/lemochain-core/chain/types"

	"verifharness/engine"
	"verifharness/node"
)

func driveConfirmStore(args []string) error {
	fs := flag.NewFlagSet("confirm-store", flag.ContinueOnError)
	out := fs.String("out", "trace.ndjson", "")
	rounds := fs.Int("rounds", 30, "rounds per block")
	if err := fs.Parse(args); err != nil {
		return err
	}
	dir := os.Getenv("VERIF_SCRATCH_DIR")
	if dir == "" {
		dir = filepath.Join(os.TempDir(), fmt.Sprintf("verif-confirmstore-%d", os.Getpid()))
	}
	f, err := os.Create(*out)
	if err != nil {
		return err
	}
	defer f.Close()
	bw := bufio.NewWriter(f)
	defer bw.Flush()
	enc := json.NewEncoder(bw)
	const nd7 = 7
	w := node.NewWorld(nd7, 1000)
	deputynode.SetSelfNodeKey(w.Outsider2())
	b := w.NewNode(filepath.Join(dir, "store"))
	defer b.Destroy()
	// blocks 1..4 stable (their confirms live in the files), 5..6 unconfirmed (in memory)
	var blocks []*types.Block
	tip := b.Genesis
	for i := 0; i < 6; i++ {
		blk, _, err := b.Build(tip, i%nd7, 0, nil, fmt.Sprintf("cs%d", i))
		if err != nil {
			engine.Realf("confirm-store: build block %d: %v", i+1, err)
		}
		blocks = append(blocks, blk)
		tip = blk
	}
	if _, err := b.DB.SetStableBlock(blocks[3].Hash()); err != nil {
		engine.Realf("confirm-store: stabilising block 4: %v", err)
	}
	lines := 0
	for r := 0; r < *rounds; r++ {
		for bi, blk := range blocks {
			hash := blk.Hash()
			before, err := b.DB.GetConfirms(hash)
			if err != nil {
				engine.Realf("confirm-store: GetConfirms(block %d): %v", bi+1, err)
			}
			if len(before) >= 200 {
				continue
			}
			// four callers bring one new confirm each (ids continue per block), two readers look on
			const callers, readers = 4, 2
			idOf := map[types.SignData]int{}
			for i, c := range before {
				idOf[c] = i + 1
			}
			sigs := make([]types.SignData, callers)
			for i := range sigs {
				var s types.SignData
				s[0], s[1], s[2], s[3], s[64] = 0xc5, byte(bi), byte(r), byte(i), byte(len(before)+i+1)
				sigs[i] = s
				idOf[s] = len(before) + i + 1
			}
			ids := func(cs []types.SignData) []int {
				o := []int{}
				for _, c := range cs {
					o = append(o, idOf[c]) // 0 = a confirm nobody sent
				}
				return o
			}
			returned := make([][]int, callers)
			reads := make([][]int, readers)
			start := make(chan struct{})
			var wg sync.WaitGroup
			for i := 0; i < callers; i++ {
				wg.Add(1)
				go func(i int) {
					defer wg.Done()
					<-start
					nb, err := b.DB.SetConfirms(hash, []types.SignData{sigs[i]})
					if err != nil || nb == nil {
						returned[i] = []int{}
						return
					}
					if bi >= 4 {
						// an unconfirmed block is handed out as the store's own object: other callers may be extending it
						// right now, so it is not read here (final and reads go through GetConfirms under the store's lock)
						returned[i] = []int{idOf[sigs[i]]}
						return
					}
					returned[i] = ids(append([]types.SignData(nil), nb.Confirms...))
				}(i)
			}
			for i := 0; i < readers; i++ {
				wg.Add(1)
				go func(i int) {
					defer wg.Done()
					<-start
					cs, _ := b.DB.GetConfirms(hash)
					reads[i] = ids(append([]types.SignData(nil), cs...))
				}(i)
			}
			close(start)
			wg.Wait()
			final, _ := b.DB.GetConfirms(hash)
			sent := ids(before)
			for i := range sigs {
				sent = append(sent, idOf[sigs[i]])
			}
			// results are judged against everything sent so far (all); returned[i] belongs to sent[i]
			enc.Encode(map[string]interface{}{"ev": "Round", "beh": r, "block": bi + 1, "stable": bi < 4, "earlier": len(before),
				"sent": sent[len(before):], "all": sent, "returned": returned, "reads": reads, "final": ids(final)})
			lines++
		}
	}
	fmt.Printf("{\"rounds\": %d, \"lines\": %d}\n", *rounds, lines)
	return nil
}

func init() { engine.RegisterDriver("confirm-store", driveConfirmStore) }
