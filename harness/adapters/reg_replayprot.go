package adapters

import _ "verifharness/adapters/replayprot"
