// C14, part 3 (spec/CodecShapesSlots.tla): canonicity of the typed decoders and numeric boundary values.
//
// Driver "codecslots".  For every state TLC enumerated in MCCodecShapesSlots it builds an honest instance of the type
// on the REAL types (the constructors of codecshapes.go), encodes it with the REAL encoder and then
//
//	mode "slot": replaces the item at the state's path by the bytes of the state's primitive encoding class, hands
//	             the whole string to the REAL typed decoder and, when that accepts, re-encodes what it built;
//	mode "num":  puts the state's boundary value into the state's numeric field - as the canonical integer item in
//	             the RLP form and as the decimal text in the JSON form -, decodes both with the REAL decoders,
//	             re-encodes both and observes hash and recovered signers of both.
//
// Nothing is judged here.  The honest bytes, the offered bytes, accept / refuse and the re-encoded bytes are logged;
// spec/TraceCodecShapes.tla re-derives the offered string from the honest one (so a wrong substitution of the harness
// is caught there too) and compares with Acc / Canon / Fits of the specification.
package codecshapes

import (
	"bufio"
	"encoding/json"
	"flag"
	"fmt"
	"hash/fnv"
	"math/big"
	"os"
	"sort"
	"strconv"
	"strings"

	"github.com/LemoFoundationLtd/lemochain-core/chain/types"
	"github.com/LemoFoundationLtd/lemochain-core/common"
	"github.com/LemoFoundationLtd/lemochain-core/common/merkle"

	"verifharness/engine"
	"verifharness/tla"
)

// ---------------------------------------------------------------- the harness' own view of a canonical encoding

type node struct {
	raw  []byte // the whole item
	list bool   // a list: kids are its elements
	body []byte // payload (string content / concatenated elements)
	kids []*node
}

// parse reads ONE canonical item (honest encodings are canonical; anything else is a harness failure here).
func parse(b []byte) (*node, []byte) {
	if len(b) == 0 {
		engine.Failf("codecslots: empty input to parse")
	}
	t := b[0]
	var off, n int
	list := false
	switch {
	case t < 0x80:
		return &node{raw: b[:1], body: b[:1]}, b[1:]
	case t < 0xb8:
		off, n = 1, int(t-0x80)
	case t < 0xc0:
		ll := int(t - 0xb7)
		off, n = 1+ll, int(new(big.Int).SetBytes(b[1:1+ll]).Int64())
	case t < 0xf8:
		off, n, list = 1, int(t-0xc0), true
	default:
		ll := int(t - 0xf7)
		off, n, list = 1+ll, int(new(big.Int).SetBytes(b[1:1+ll]).Int64()), true
	}
	if off+n > len(b) {
		engine.Failf("codecslots: honest encoding is truncated")
	}
	nd := &node{raw: b[:off+n], list: list, body: b[off : off+n]}
	if list {
		rest := nd.body
		for len(rest) > 0 {
			var k *node
			k, rest = parse(rest)
			nd.kids = append(nd.kids, k)
		}
	}
	return nd, b[off+n:]
}

func hdr(short byte, n int) []byte {
	if n < 56 {
		return []byte{short + byte(n)}
	}
	l := new(big.Int).SetInt64(int64(n)).Bytes()
	return append([]byte{short + 55 + byte(len(l))}, l...)
}

func encStr(b []byte) []byte {
	if len(b) == 1 && b[0] < 0x80 {
		return []byte{b[0]}
	}
	return append(hdr(0x80, len(b)), b...)
}

func at(n *node, path []int) *node {
	for _, i := range path {
		if !n.list || i < 1 || i > len(n.kids) {
			return nil
		}
		n = n.kids[i-1]
	}
	return n
}

// encWith: the encoding of n with the item at path replaced by raw (enclosing list headers recomputed).
func encWith(n *node, path []int, raw []byte) []byte {
	if len(path) == 0 {
		return raw
	}
	var pl []byte
	for i, k := range n.kids {
		if i+1 == path[0] {
			pl = append(pl, encWith(k, path[1:], raw)...)
		} else {
			pl = append(pl, k.raw...)
		}
	}
	return append(hdr(0xc0, len(pl)), pl...)
}

func rep(n int, c byte) []byte {
	b := make([]byte, n)
	for i := range b {
		b[i] = c
	}
	return b
}

func sized(n int, first byte) []byte {
	if n <= 0 {
		return []byte{0x80}
	}
	b := rep(n, 171)
	b[0] = first
	return encStr(b)
}

// offerBytes: the bytes of a primitive encoding class (CodecShapesSlots!OfferBytes), sz = size of the field aimed at.
func offerBytes(off string, sz int, item *node) []byte {
	cp := func(b []byte) []byte { return append([]byte(nil), b...) }
	switch off {
	case "honest":
		return cp(item.raw)
	case "gone":
		return nil
	case "dup":
		return append(cp(item.raw), item.raw...)
	case "plus":
		return append(cp(item.raw), 0x80)
	case "trunc":
		return cp(item.raw[:len(item.raw)-1])
	case "e":
		return []byte{0x80}
	case "b00":
		return []byte{0x00}
	case "b01":
		return []byte{0x01}
	case "b7f":
		return []byte{0x7f}
	case "s80":
		return []byte{0x81, 0x80}
	case "sff":
		return []byte{0x81, 0xff}
	case "w00":
		return []byte{0x81, 0x00}
	case "w7f":
		return []byte{0x81, 0x7f}
	case "el":
		return []byte{0xc0}
	case "l1e":
		return []byte{0xc1, 0x80}
	case "l1b":
		return []byte{0xc1, 0x01}
	case "l2":
		return []byte{0xc2, 0x01, 0x80}
	case "lz":
		return []byte{0x82, 0x00, 0x01}
	case "nm":
		return []byte{0xb8, 0x02, 0x01, 0x02}
	case "nm80":
		return []byte{0xb8, 0x01, 0x80}
	case "nml":
		return []byte{0xf8, 0x01, 0x80}
	case "lenlz":
		return append([]byte{0xb9, 0x00, 56}, rep(56, 7)...)
	case "s55":
		return encStr(rep(55, 7))
	case "s56":
		return encStr(rep(56, 7))
	case "inlist":
		return append(hdr(0xc0, len(item.raw)), item.raw...)
	case "retag":
		if item.list {
			return append(hdr(0x80, len(item.body)), item.body...)
		}
		return append(hdr(0xc0, len(item.body)), item.body...)
	case "nm1":
		return sized(sz-1, 171)
	case "n":
		return sized(sz, 171)
	case "np1":
		return sized(sz+1, 171)
	case "nz":
		return sized(sz, 0)
	case "n0":
		return encStr(rep(sz, 0))
	case "nmax":
		return encStr(rep(sz, 255))
	case "et":
		return encStr(merkle.EmptyTrieHash[:])
	case "swap", "dupel":
		if !item.list || len(item.kids) == 0 || (off == "swap" && len(item.kids) < 2) {
			return cp(item.raw)
		}
		var pl []byte
		if off == "dupel" {
			pl = append(cp(item.kids[0].raw), item.body...)
		} else {
			pl = append(cp(item.kids[1].raw), item.kids[0].raw...)
			for _, k := range item.kids[2:] {
				pl = append(pl, k.raw...)
			}
		}
		return append(hdr(0xc0, len(pl)), pl...)
	}
	engine.Failf("codecslots: unknown offer %q", off)
	return nil
}

// ---------------------------------------------------------------- honest instances per (type, instance)

var fullOf = map[string]string{"big": "big", "blob": "long", "code": "long", "hash": "rand", "addr": "rand", "text": "long",
	"asset": "p2", "equity": "big", "profile": "p2", "event": "t2", "signers": "s2", "pextra": "key", "none": "nil"}
var emptyOf = map[string]string{"big": "zero", "blob": "nil", "code": "empty", "hash": "zero", "addr": "zero", "text": "empty",
	"asset": "nilptr", "equity": "nil", "profile": "p0", "event": "t0", "signers": "s0", "pextra": "key0", "none": "nil"}

// payload kinds of the change-log types as the driver needs them to pick constructor arguments (the specification's
// NewKind / ExtraKind; a disagreement shows up as a rejected honest row)
var logKinds = map[string][2]string{
	"BalanceLog": {"big", "none"}, "VotesLog": {"big", "none"}, "AssetCodeTotalSupplyLog": {"big", "hash"},
	"StorageLog": {"blob", "hash"}, "StorageRootLog": {"hash", "none"}, "AssetCodeRootLog": {"hash", "none"},
	"AssetIdRootLog": {"hash", "none"}, "EquityRootLog": {"hash", "none"}, "AssetCodeLog": {"asset", "hash"},
	"AssetCodeStateLog": {"text", "pextra"}, "AssetIdLog": {"text", "hash"}, "CandidateStateLog": {"text", "text"},
	"EquityLog": {"equity", "hash"}, "CandidateLog": {"profile", "none"}, "CodeLog": {"code", "none"},
	"AddEventLog": {"event", "none"}, "SuicideLog": {"none", "none"}, "VoteForLog": {"addr", "none"}, "SignerLog": {"signers", "none"}}

func slotInstance(g *gen, typ, sub, inst string) codec {
	full := inst == "full"
	pick := func(f, e string) string {
		if full {
			return f
		}
		return e
	}
	switch typ {
	case "tx":
		sh := tla.MustParse(pick(
			`[gp |-> "other", to |-> "set", text |-> "set", data |-> "long", amount |-> "big", sigs |-> 2, gpsigs |-> 2]`,
			`[gp |-> "nil", to |-> "nil", text |-> "empty", data |-> "empty", amount |-> "zero", sigs |-> 0, gpsigs |-> 0]`))
		tx, _ := buildTx(g, sh)
		return txCodec(tx)
	case "header":
		return headerCodec(buildHeader(g, tla.MustParse(pick(
			`[txRoot |-> "rand", logRoot |-> "rand", deputyRoot |-> "set", extra |-> "set", sign |-> "signed", nums |-> "max"]`,
			`[txRoot |-> "emptyTrie", logRoot |-> "emptyTrie", deputyRoot |-> "nil", extra |-> "empty", sign |-> "nil", nums |-> "zero"]`))))
	case "deputy":
		return deputyCodec(buildDeputy(g, tla.MustParse(pick(`[nodeID |-> "full", rank |-> "max", votes |-> "big"]`,
			`[nodeID |-> "empty", rank |-> "zero", votes |-> "zero"]`))))
	case "asset":
		if full {
			return assetCodec(g.asset(2, "big", true, true, "max"))
		}
		return assetCodec(g.asset(0, "zero", false, false, "zero"))
	case "equity":
		return equityCodec(&types.AssetEquity{AssetCode: g.hash(), AssetId: g.hash(), Equity: g.big(pick("big", "zero"))})
	case "block":
		n := 0
		if full {
			n = 2
		}
		return blockCodec(buildBlock(g, n, n, n, n))
	case "account": // numeric cases only; one record at most (the encoder walks the record map in Go's map order)
		a := &types.AccountData{Address: g.addr(), Balance: g.big(pick("big", "zero")), CodeHash: g.hash(), StorageRoot: g.hash(),
			AssetCodeRoot: g.hash(), AssetIdRoot: g.hash(), EquityRoot: g.hash(), VoteFor: g.addr()}
		if full {
			a.Candidate.Votes = g.big("big")
			a.Candidate.Profile = g.profile(2)
			a.NewestRecords = map[types.ChangeLogType]types.VersionRecord{1: {Version: g.u32("max"), Height: g.u32("max")}}
			a.Signers = g.signers(2)
		}
		return accountCodec(a)
	case "msg": // numeric cases only
		v := pick("max", "zero")
		if sub == "confirms" {
			v = pick("n2", "n0")
		}
		return msgCodec(g, sub, v)
	case "log":
		k, ok := logKinds[sub]
		if !ok {
			engine.Failf("codecslots: unknown change log %q", sub)
		}
		m := emptyOf
		if full {
			m = fullOf
		}
		return logCodec(buildLog(g, sub, m[k[0]], m[k[1]], pick("max", "zero")))
	}
	engine.Failf("codecslots: unknown type %q", typ)
	return codec{}
}

// ---------------------------------------------------------------- slot rows

// honest is one honest instance of a (type, change-log type, instance, variant): the real object's codec, its encoding and
// the harness' own reading of that encoding.  failed: the real code refused to build / encode it (recorded in the inst row).
type honest struct {
	c      codec
	b0     []byte
	root   *node
	failed bool
}

func newHonest(g *gen, typ, sub, inst string, r row) *honest {
	h := &honest{}
	switch typ {
	case "issueAsset", "replenishAsset", "transferAsset": // JSON only
		switch typ {
		case "issueAsset":
			h.c.orig = &types.IssueAsset{AssetCode: g.hash(), MetaData: g.text("long"), Amount: g.big("small")}
		case "replenishAsset":
			h.c.orig = &types.ReplenishAsset{AssetCode: g.hash(), AssetId: g.hash(), Amount: g.big("small")}
		default:
			h.c.orig = &types.TransferAsset{AssetId: g.hash(), Amount: g.big("small"), Input: g.blob("long")}
		}
		r["b0"] = []int{}
		return h
	}
	if !realGuard(r, func() {
		h.c = slotInstance(g, typ, sub, inst)
		var err error
		h.b0, err = h.c.encode()
		must(err)
	}) {
		h.failed = true
		return h
	}
	var rest []byte
	h.root, rest = parse(h.b0)
	if len(rest) != 0 {
		engine.Failf("codecslots: honest encoding of %s has trailing bytes", typ)
	}
	r["b0"] = bytesToInts(h.b0)
	return h
}

func slotRow(h *honest, st map[string]tla.Value, r row) {
	typ, sub, inst, off := st["typ"].S(), st["sub"].S(), st["inst"].S(), st["x"].S()
	path := st["path"].Ints()
	if path == nil {
		path = []int{}
	}
	r["ev"], r["typ"], r["sub"], r["inst"], r["path"], r["off"] = "slot", typ, sub, inst, path, off
	c, root := h.c, h.root
	item := at(root, path)
	if item == nil {
		engine.Failf("codecslots: path %v does not resolve in the honest %s/%s/%s", path, typ, sub, inst)
	}
	b := encWith(root, path, offerBytes(off, st["sz"].I(), item))
	r["b"], r["acc"], r["err"], r["b1"], r["re"] = bytesToInts(b), false, "", []int{}, "-"
	var dec interface{}
	var err error
	if !stage(r, "typed decode of "+hx(b), func() { dec, err = c.decode(append([]byte(nil), b...)) }) {
		return
	}
	if err != nil {
		r["err"] = err.Error()
		return
	}
	r["acc"] = true
	var b1 []byte
	if !stage(r, "re-encode of what was decoded from "+hx(b), func() {
		_, _, _, _ = c.obs(dec) // hash, signers: must not panic on anything the decoder let through
		b1, err = c.reenc(dec)
	}) {
		return
	}
	if err != nil {
		r["re"] = "err:" + err.Error()
		return
	}
	r["re"], r["b1"] = "ok", bytesToInts(b1)
}

// ---------------------------------------------------------------- numeric rows

var numVals = map[string]*big.Int{}

func init() {
	p := func(b, e int64, d int64) *big.Int {
		v := new(big.Int).Exp(big.NewInt(b), big.NewInt(e), nil)
		return v.Add(v, big.NewInt(d))
	}
	for _, s := range []string{"0", "1", "127", "128", "255", "256", "65535", "65536"} {
		numVals[s], _ = new(big.Int).SetString(s, 10)
	}
	numVals["2^32-1"], numVals["2^32"] = p(2, 32, -1), p(2, 32, 0)
	numVals["2^64-1"], numVals["2^64"] = p(2, 64, -1), p(2, 64, 0)
	numVals["10^77-1"], numVals["10^77"] = p(10, 77, -1), p(10, 77, 0)
	numVals["2^255"], numVals["2^256-1"], numVals["2^256"] = p(2, 255, 0), p(2, 256, -1), p(2, 256, 0)
}

// jsonGet / jsonSet walk a decoded JSON document along member names and array indices.
func jsonGet(doc interface{}, jp []string) interface{} {
	for _, k := range jp {
		switch t := doc.(type) {
		case map[string]interface{}:
			doc = t[k]
		case []interface{}:
			i, err := strconv.Atoi(k)
			if err != nil || i < 0 || i >= len(t) {
				return nil
			}
			doc = t[i]
		default:
			return nil
		}
	}
	return doc
}

func jsonSet(doc interface{}, jp []string, val string) bool {
	parent := jsonGet(doc, jp[:len(jp)-1])
	k := jp[len(jp)-1]
	switch t := parent.(type) {
	case map[string]interface{}:
		if _, has := t[k]; !has {
			return false
		}
		t[k] = val
		return true
	case []interface{}:
		i, err := strconv.Atoi(k)
		if err != nil || i < 0 || i >= len(t) {
			return false
		}
		t[i] = val
		return true
	}
	return false
}

// jsonForm: the JSON codec of a type (nil when it has none): a fresh receiver for Unmarshal.
func jsonFresh(typ string) func() interface{} {
	switch typ {
	case "tx":
		return func() interface{} { return new(types.Transaction) }
	case "header":
		return func() interface{} { return new(types.Header) }
	case "deputy":
		return func() interface{} { return new(types.DeputyNode) }
	case "asset":
		return func() interface{} { return new(types.Asset) }
	case "equity":
		return func() interface{} { return new(types.AssetEquity) }
	case "account":
		return func() interface{} { return new(types.AccountData) }
	case "issueAsset":
		return func() interface{} { return new(types.IssueAsset) }
	case "replenishAsset":
		return func() interface{} { return new(types.ReplenishAsset) }
	case "transferAsset":
		return func() interface{} { return new(types.TransferAsset) }
	}
	return nil
}

func numRow(h *honest, st map[string]tla.Value, r row) {
	typ, sub, val := st["typ"].S(), st["sub"].S(), st["x"].S()
	f := st["f"]
	path, jp, w := f.F("path").Ints(), f.F("jp").Strs(), f.F("w").I()
	if path == nil {
		path = []int{}
	}
	if jp == nil {
		jp = []string{}
	}
	v, ok := numVals[val]
	if !ok {
		engine.Failf("codecslots: unknown boundary value %q", val)
	}
	r["ev"], r["typ"], r["sub"], r["inst"], r["path"], r["jp"], r["w"], r["val"] = "num", typ, sub, "full", path, jp, w, val
	for _, k := range []string{"ra", "re", "rh", "rs", "jt", "ja", "jre", "jh", "jsg", "jt1", "xa", "xh"} {
		r[k] = "-"
	}
	r["b"], r["rb"], r["jb"] = []int{}, []int{}, []int{}
	c, orig := h.c, h.c.orig
	// ---- RLP form: the canonical integer item in the field's position
	var rObj interface{}
	if len(path) > 0 {
		if at(h.root, path) == nil {
			engine.Failf("codecslots: %s/%s has no position %v", typ, sub, path)
		}
		b := encWith(h.root, path, encStr(v.Bytes()))
		r["b"] = bytesToInts(b)
		stage(r, "typed decode of "+hx(b), func() {
			dec, err := c.decode(append([]byte(nil), b...))
			if err != nil {
				r["ra"] = "err"
				return
			}
			r["ra"] = "ok"
			_, _, r["rh"], r["rs"] = c.obs(dec)
			b1, err := c.reenc(dec)
			if err != nil {
				r["re"] = "err:" + err.Error()
				return
			}
			r["re"], r["rb"] = "ok", bytesToInts(b1)
			rObj = dec
		})
		if _, bad := r["panic"]; bad {
			return
		}
	}
	// ---- JSON form: the decimal text in the field's member
	fresh := jsonFresh(typ)
	if len(jp) > 0 {
		if fresh == nil {
			engine.Failf("codecslots: no JSON form for %s", typ)
		}
		var doc []byte
		if !realGuard(r, func() {
			js, err := json.Marshal(orig)
			must(err)
			var m map[string]interface{}
			if err := json.Unmarshal(js, &m); err != nil {
				engine.Failf("codecslots: the JSON form of %s is not an object: %v", typ, err)
			}
			if !jsonSet(m, jp, v.String()) {
				engine.Failf("codecslots: the JSON form of %s has no member %v: %s", typ, jp, js)
			}
			delete(m, "hash") // derived member of transactions and headers
			doc, err = json.Marshal(m)
			if err != nil {
				engine.Failf("codecslots: %v", err)
			}
		}) {
			return
		}
		r["jt"] = v.String()
		stage(r, "JSON decode of "+string(doc), func() {
			o := fresh()
			if err := json.Unmarshal(doc, o); err != nil {
				r["ja"] = "err"
				return
			}
			r["ja"] = "ok"
			if len(path) > 0 {
				_, _, r["jh"], r["jsg"] = c.obs(o)
				b1, err := c.reenc(o)
				if err != nil {
					r["jre"] = "err:" + err.Error()
				} else {
					r["jre"], r["jb"] = "ok", bytesToInts(b1)
				}
			}
			// the member as the decoded object writes it again
			js2, err := json.Marshal(o)
			if err != nil {
				r["jt1"] = "err:" + err.Error()
				return
			}
			var m2 map[string]interface{}
			if json.Unmarshal(js2, &m2) == nil {
				r["jt1"] = fmt.Sprint(jsonGet(m2, jp))
			}
		})
		if _, bad := r["panic"]; bad {
			return
		}
	}
	// ---- a transaction also travels as the sub-transaction of a box (JSON inside Data)
	if tx, isTx := rObj.(*types.Transaction); isTx {
		stage(r, "box payload", func() {
			payload, err := types.MarshalBoxData(types.Transactions{tx})
			if err != nil {
				r["xa"] = "err:" + err.Error()
				return
			}
			box, err := types.GetBox(payload)
			if err != nil || len(box.SubTxList) != 1 {
				r["xa"] = "err"
				return
			}
			h := box.SubTxList[0].Hash()
			r["xa"], r["xh"] = "ok", hx(h[:])
		})
	}
}

// registry facts the specification pins: type numbers of the change logs, the elided root
func slotRegistry() row {
	nums := [][]interface{}{}
	for i := 0; i < 256; i++ {
		s := types.ChangeLogType(i).String()
		if !strings.HasPrefix(s, "ChangeLogType(") {
			nums = append(nums, []interface{}{s, i})
		}
	}
	return row{"ev": "slotreg", "logNums": nums, "emptyTrie": bytesToInts(merkle.EmptyTrieHash[:]), "hashLen": common.HashLength,
		"addrLen": common.AddressLength}
}

func driveSlots(args []string) error {
	fs := flag.NewFlagSet("codecslots", flag.ContinueOnError)
	graph := fs.String("graph", "", "TLC dot dump of MCCodecShapesSlots")
	variants := fs.Int("variants", 1, "seeded honest instances per slot")
	out := fs.String("out", "slots.ndjson", "")
	shard := fs.String("shard", "0/1", "")
	seed := fs.Int64("seed", 1, "")
	chunk := fs.Int("chunk", 64, "lines per honest-instance line")
	if err := fs.Parse(args); err != nil {
		return err
	}
	parts := strings.Split(*shard, "/")
	si, _ := strconv.Atoi(parts[0])
	sn, _ := strconv.Atoi(parts[1])
	f, err := os.Create(*out)
	if err != nil {
		return err
	}
	defer f.Close()
	w := bufio.NewWriterSize(f, 1<<20)
	defer w.Flush()
	jenc := json.NewEncoder(w)
	jenc.SetEscapeHTML(false)
	g, err := tla.LoadDot(*graph)
	if err != nil {
		return err
	}
	rows, panics := 0, 0
	counts := map[string]int{}
	var sample row
	if si == 0 {
		if err := jenc.Encode(slotRegistry()); err != nil {
			return err
		}
		rows++
	}
	// the states grouped by honest instance; a group is cut into chunks, each chunk opens with a "reset" line (named so that a violation replay holds one chunk) that carries
	// the honest encoding its slot / num lines are derived from (the trace spec decodes it once per chunk)
	type state struct {
		lab string
		st  map[string]tla.Value
	}
	groups := map[string][]state{}
	var keys []string
	work, other := 0, 0
	for i, lab := range g.Labels {
		st, err := tla.ParseState(lab)
		if err != nil {
			return fmt.Errorf("state %d: %v", i, err)
		}
		if m := st["mode"].S(); m != "slot" && m != "num" { // the fan-out states of the enumeration
			other++
			continue
		}
		work++
		inst := st["inst"].S()
		key := st["typ"].S() + "/" + st["sub"].S() + "/" + inst
		if _, seen := groups[key]; !seen {
			keys = append(keys, key)
		}
		groups[key] = append(groups[key], state{lab, st})
	}
	sort.Strings(keys)
	for _, key := range keys {
		sts := groups[key]
		sort.Slice(sts, func(a, b int) bool { return sts[a].lab < sts[b].lab })
		kp := strings.Split(key, "/")
		for k := 0; k < *variants; k++ {
			for c0 := 0; c0 < len(sts); c0 += *chunk {
				hh := fnv.New64a()
				fmt.Fprintf(hh, "%s#%d#%d", key, k, c0)
				if int(hh.Sum64()%uint64(sn)) != si {
					continue
				}
				// the honest instance depends on (type, instance, variant) only: every offer meets the same honest bytes
				ih := fnv.New64a()
				ih.Write([]byte(key))
				gg := newGen(int64(ih.Sum64()>>1) ^ (*seed * 1000003) ^ int64(k*7919))
				gg.small = true
				ir := row{"ev": "reset", "typ": kp[0], "sub": kp[1], "inst": kp[2], "var": k, "b0": []int{}}
				h := newHonest(gg, kp[0], kp[1], kp[2], ir)
				rows++
				if err := jenc.Encode(ir); err != nil {
					return err
				}
				if h.failed {
					panics++
					continue
				}
				end := c0 + *chunk
				if end > len(sts) {
					end = len(sts)
				}
				for _, s := range sts[c0:end] {
					st := s.st
					r := row{"var": k}
					mode := st["mode"].S()
					switch mode {
					case "slot":
						slotRow(h, st, r)
					case "num":
						numRow(h, st, r)
					default:
						return fmt.Errorf("unknown mode %q", mode)
					}
					if _, bad := r["panic"]; bad {
						panics++
					}
					if mode == "slot" {
						if acc, _ := r["acc"].(bool); acc {
							counts["slot_accepted"]++
						} else {
							counts["slot_refused"]++
						}
						if sample == nil && kp[0] == "tx" && st["x"].S() == "b7f" && len(st["path"].Ints()) == 1 {
							sample = r
						}
					}
					counts[mode+":"+kp[0]]++
					rows++
					if err := jenc.Encode(r); err != nil {
						return err
					}
				}
			}
		}
	}
	b, _ := json.Marshal(map[string]interface{}{"rows": rows, "panics": panics, "counts": counts, "sample": sample,
		"work_states": work, "other_states": other})
	fmt.Println(string(b))
	return nil
}

func init() { engine.RegisterDriver("codecslots", driveSlots) }
