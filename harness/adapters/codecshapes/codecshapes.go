// Package codecshapes binds spec/CodecShapes.tla to the real consensus types (C14, part 2).
//
// For every (type, shape) TLC enumerated (initial states of MCCodecShapes) the driver instantiates
// the shape with seeded field values on the REAL types - through the real constructors wherever
// they exist (NewTransaction/SignTx, the NewXxxLog constructors of chain/account with a stub
// account behind them, MarshalBoxData, ...) -, encodes it with the real codec, decodes the bytes
// the way the node does (rlp.DecodeBytes, p2p.Msg.Decode, json for box payloads), re-encodes, and
// logs projections of the value, the hash, the recovered signers and the bytes before and after.
// It never compares them: TraceCodecShapes.tla does.  A panic while encoding/decoding/observing is
// logged as "panic" (never consumed by the trace spec); a panic while *constructing* the input is
// a harness failure.
package codecshapes

import (
	"bufio"
	"crypto/ecdsa"
	"encoding/hex"
	"encoding/json"
	"flag"
	"fmt"
	"hash/fnv"
	"math/big"
	"math/rand"
	"os"
	"sort"
	"strconv"
	"strings"

	"github.com/LemoFoundationLtd/lemochain-core/chain/account"
	"github.com/LemoFoundationLtd/lemochain-core/chain/params"
	"github.com/LemoFoundationLtd/lemochain-core/chain/types"
	"github.com/LemoFoundationLtd/lemochain-core/common"
	"github.com/LemoFoundationLtd/lemochain-core/common/crypto"
	"github.com/LemoFoundationLtd/lemochain-core/common/merkle"
	"github.com/LemoFoundationLtd/lemochain-core/common/rlp"
	"github.com/LemoFoundationLtd/lemochain-core/network"
	"github.com/LemoFoundationLtd/lemochain-core/network/p2p"

	"verifharness/engine"
	"verifharness/tla"
)

type row map[string]interface{}

func hx(b []byte) string { return hex.EncodeToString(b) }

func bytesToInts(b []byte) []int {
	out := make([]int, len(b))
	for i, c := range b {
		out[i] = int(c)
	}
	return out
}

// ---------------------------------------------------------------- seeded field values

type gen struct {
	r     *rand.Rand
	keys  []*ecdsa.PrivateKey
	small bool // texts and blobs stay below ~60 bytes (instances whose encodings are logged byte by byte)
}

func newGen(seed int64) *gen {
	g := &gen{r: rand.New(rand.NewSource(seed))}
	for len(g.keys) < 4 {
		d := make([]byte, 32)
		g.r.Read(d)
		if k, err := crypto.ToECDSA(d); err == nil {
			g.keys = append(g.keys, k)
		}
	}
	return g
}

func (g *gen) bytes(n int) []byte {
	b := make([]byte, n)
	g.r.Read(b)
	return b
}

// fixed-size values sometimes start with zero bytes and sometimes are all 0x7f/0x80 boundary bytes
func (g *gen) fixed(n int) []byte {
	b := g.bytes(n)
	switch g.r.Intn(5) {
	case 0:
		for i := 0; i < 1+g.r.Intn(3); i++ {
			b[i] = 0
		}
	case 1:
		for i := range b {
			b[i] = []byte{0, 0x7f, 0x80, 0xff}[g.r.Intn(4)]
		}
		b[n-1] |= 1 // never all zero
	}
	return b
}

func (g *gen) hash() common.Hash    { return common.BytesToHash(g.fixed(32)) }
func (g *gen) addr() common.Address { return common.BytesToAddress(g.fixed(20)) }

func (g *gen) hashF(f string) common.Hash {
	if f == "zero" {
		return common.Hash{}
	}
	return g.hash()
}

func (g *gen) big(f string) *big.Int {
	switch f {
	case "zero":
		return new(big.Int)
	case "small":
		return big.NewInt(int64(1 + g.r.Intn(127)))
	}
	b := g.bytes(2 + g.r.Intn(31))
	b[0] |= 0x80
	if g.r.Intn(4) == 0 {
		b = []byte{0x80} // the smallest value that needs a length prefix
	}
	return new(big.Int).SetBytes(b)
}

func (g *gen) blob(f string) []byte {
	switch f {
	case "nil":
		return nil
	case "empty":
		return []byte{}
	case "byte":
		return []byte{byte(g.r.Intn(128))}
	}
	n := []int{1, 2, 31, 32, 55, 56, 57, 64, 65, 200, 300}[g.r.Intn(11)]
	if g.small && n > 57 {
		n = 3
	}
	b := g.bytes(n)
	if n == 1 {
		b[0] |= 0x80
	}
	return b
}

const letters = "abcdefghijklmnopqrstuvwxyzABCDEFGHIJKLMNOPQRSTUVWXYZ0123456789-_."

func (g *gen) text(f string) string {
	switch f {
	case "empty":
		return ""
	case "byte":
		return string(letters[g.r.Intn(len(letters))])
	}
	n := []int{2, 10, 55, 56, 100, 256, 1024}[g.r.Intn(7)]
	if g.small && n > 56 {
		n = 5
	}
	b := make([]byte, n)
	for i := range b {
		b[i] = letters[g.r.Intn(len(letters))]
	}
	if g.r.Intn(4) == 0 { // not only ASCII, still valid UTF-8
		return string(b) + "é中\x00"
	}
	return string(b)
}

func (g *gen) u32(f string) uint32 {
	switch f {
	case "zero":
		return 0
	case "small":
		return uint32(1 + g.r.Intn(127))
	}
	if g.r.Intn(2) == 0 {
		return 0xffffffff
	}
	return []uint32{128, 255, 256, 65535, 65536, 1 << 24, 1 << 31}[g.r.Intn(7)]
}

func (g *gen) u64(f string) uint64 {
	switch f {
	case "zero":
		return 0
	case "small":
		return uint64(1 + g.r.Intn(127))
	}
	if g.r.Intn(2) == 0 {
		return 0xffffffffffffffff
	}
	return []uint64{128, 1 << 32, 1 << 56, 1 << 63}[g.r.Intn(4)]
}

func (g *gen) profile(n int) types.Profile {
	p := make(types.Profile)
	for len(p) < n {
		k := g.text([]string{"byte", "long"}[g.r.Intn(2)])
		if g.r.Intn(5) == 0 {
			k = ""
		}
		p[k] = g.text([]string{"empty", "byte", "long"}[g.r.Intn(3)])
	}
	return p
}

func (g *gen) signers(n int) types.Signers {
	s := make(types.Signers, 0)
	for i := 0; i < n; i++ {
		s = append(s, types.SignAccount{Address: g.addr(), Weight: uint8(g.r.Intn(256))})
	}
	return s
}

func (g *gen) asset(n int, supply string, div, rep bool, nums string) *types.Asset {
	return &types.Asset{Category: g.u32(nums), IsDivisible: div, AssetCode: g.hash(), Decimal: g.u32(nums),
		TotalSupply: g.big(supply), IsReplenishable: rep, Issuer: g.addr(), Profile: g.profile(n)}
}

func (g *gen) event(topics int) *types.Event {
	e := &types.Event{Address: g.addr(), Data: g.blob([]string{"nil", "byte", "long"}[g.r.Intn(3)]),
		TxHash: g.hash(), TxIndex: uint(g.r.Intn(5)), Index: uint(g.r.Intn(5))}
	for i := 0; i < topics; i++ {
		e.Topics = append(e.Topics, g.hash())
	}
	return e
}

// ---------------------------------------------------------------- projections (no judgement)

func projBig(b *big.Int) string {
	if b == nil {
		return "nil"
	}
	return b.String()
}

func projProfile(p types.Profile) string {
	keys := make([]string, 0, len(p))
	for k := range p {
		keys = append(keys, k)
	}
	sort.Strings(keys)
	var sb strings.Builder
	sb.WriteString("{")
	for _, k := range keys {
		fmt.Fprintf(&sb, "%q:%q,", k, p[k])
	}
	sb.WriteString("}")
	return sb.String()
}

func projSigners(s types.Signers) string {
	var sb strings.Builder
	sb.WriteString("[")
	for _, a := range s {
		fmt.Fprintf(&sb, "%x/%d,", a.Address[:], a.Weight)
	}
	sb.WriteString("]")
	return sb.String()
}

func projAsset(a *types.Asset) string {
	if a == nil {
		return "nil"
	}
	return fmt.Sprintf("asset{cat=%d div=%v code=%x dec=%d supply=%s rep=%v issuer=%x profile=%s}", a.Category, a.IsDivisible,
		a.AssetCode[:], a.Decimal, projBig(a.TotalSupply), a.IsReplenishable, a.Issuer[:], projProfile(a.Profile))
}

func projEquity(e *types.AssetEquity) string {
	if e == nil {
		return "nil"
	}
	return fmt.Sprintf("equity{code=%x id=%x eq=%s}", e.AssetCode[:], e.AssetId[:], projBig(e.Equity))
}

func projEvent(e *types.Event) string {
	if e == nil {
		return "nil"
	}
	var sb strings.Builder
	for _, t := range e.Topics {
		fmt.Fprintf(&sb, "%x,", t[:])
	}
	return fmt.Sprintf("event{addr=%x topics=[%s] data=%x}", e.Address[:], sb.String(), e.Data)
}

// projPayload renders a change-log payload and its dynamic type (Redo type-asserts on it).
func projPayload(v interface{}) (string, string) {
	typ := fmt.Sprintf("%T", v)
	switch t := v.(type) {
	case nil:
		return typ, "nil"
	case big.Int:
		return typ, t.String()
	case []byte:
		return typ, hx(t)
	case types.Code:
		return typ, hx(t)
	case common.Hash:
		return typ, hx(t[:])
	case common.Address:
		return typ, hx(t[:])
	case string:
		return typ, fmt.Sprintf("%q", t)
	case *types.Asset:
		return typ, projAsset(t)
	case *types.AssetEquity:
		return typ, projEquity(t)
	case *types.Profile:
		if t == nil {
			return typ, "nil"
		}
		return typ, projProfile(*t)
	case types.Signers:
		return typ, projSigners(t)
	case *types.Event:
		return typ, projEvent(t)
	case *account.ProfileChangeLogExtra:
		if t == nil {
			return typ, "nil"
		}
		return typ, fmt.Sprintf("pextra{uuid=%x key=%q}", t.UUID[:], t.Key)
	case *interface{}:
		_, c := projPayload(*t)
		return typ, "ptr:" + c
	case []interface{}:
		return typ, fmt.Sprintf("list%d", len(t))
	}
	return typ, fmt.Sprintf("%#v", v)
}

// projLog: everything that is encoded (OldVal is deliberately not: `json:"-"`, "no need to save or send").
func projLog(c *types.ChangeLog) (v string, t string) {
	nt, nv := projPayload(c.NewVal)
	et, ev := projPayload(c.Extra)
	return fmt.Sprintf("log{type=%d addr=%x ver=%d new=%s extra=%s}", uint32(c.LogType), c.Address[:], c.Version, nv, ev), nt + "|" + et
}

func projHeader(h *types.Header) string {
	return fmt.Sprintf("header{parent=%x miner=%x ver=%x tx=%x log=%x height=%d gl=%d gu=%d time=%d sign=%x dep=%x extra=%q}",
		h.ParentHash[:], h.MinerAddress[:], h.VersionRoot[:], h.TxRoot[:], h.LogRoot[:], h.Height, h.GasLimit, h.GasUsed, h.Time,
		h.SignData, h.DeputyRoot, h.Extra)
}

func headerSigner(h *types.Header) string {
	id, err := h.SignerNodeID()
	if err != nil {
		return "err"
	}
	return hx(id)
}

func addrsOrErr(a []common.Address, err error) string {
	if err != nil {
		return "err:" + err.Error()
	}
	var sb strings.Builder
	for _, x := range a {
		fmt.Fprintf(&sb, "%x,", x[:])
	}
	return sb.String()
}

func txSigners(tx *types.Transaction) string {
	return "sigs=" + addrsOrErr(types.MakeSigner().GetSigners(tx)) + " reimb=" + addrsOrErr(types.MakeReimbursementTxSigner().GetSigners(tx)) +
		" payer=" + addrsOrErr(types.MakeGasPayerSigner().GetSigners(tx))
}

// projTx goes through the accessors; the nil-ness of the optional pointers is taken from To() and from the
// transaction's own JSON form (the only place it shows).
func projTx(tx *types.Transaction) string {
	to := "nil"
	if p := tx.To(); p != nil {
		to = hx(p[:])
	}
	gpNil := "?"
	if js, err := json.Marshal(tx); err == nil {
		var m map[string]interface{}
		if json.Unmarshal(js, &m) == nil {
			gpNil = fmt.Sprint(m["gasPayer"] == nil)
		}
	}
	var sigs strings.Builder
	for _, s := range tx.Sigs() {
		sigs.WriteString(hx(s) + ",")
	}
	sigs.WriteString("|")
	for _, s := range tx.GasPayerSigs() {
		sigs.WriteString(hx(s) + ",")
	}
	from := tx.From()
	gp := tx.GasPayer()
	return fmt.Sprintf("tx{type=%d ver=%d chain=%d from=%x gp=%x gpnil=%s to=%s toName=%q price=%s limit=%d used=%d amount=%s data=%x exp=%d msg=%q sigs=%s}",
		tx.Type(), tx.Version(), tx.ChainID(), from[:], gp[:], gpNil, to, tx.ToName(), tx.GasPrice(), tx.GasLimit(), tx.GasUsed(),
		tx.Amount(), tx.Data(), tx.Expiration(), tx.Message(), sigs.String())
}

// box payload seen through the node's own accessor: hashes and signers of the sub-transactions
func projBox(tx *types.Transaction) string {
	if tx.Type() != params.BoxTx {
		return ""
	}
	box, err := types.GetBox(tx.Data())
	if err != nil {
		return "box-err"
	}
	return projSubs(box.SubTxList)
}

func projSubs(subs types.Transactions) string {
	var sb strings.Builder
	for _, s := range subs {
		h := s.Hash()
		fmt.Fprintf(&sb, "%x:%s;", h[:], txSigners(s))
	}
	return "subs[" + sb.String() + "]"
}

func projDeputy(d *types.DeputyNode) string {
	return fmt.Sprintf("deputy{miner=%x node=%x rank=%d votes=%s}", d.MinerAddress[:], d.NodeID, d.Rank, projBig(d.Votes))
}

// AccountData: nil and empty containers / nil and zero amounts are the same value (account.NewAccount normalises them)
func projAccount(a *types.AccountData) string {
	z := func(b *big.Int) string {
		if b == nil {
			return "0"
		}
		return b.String()
	}
	var recs []string
	for t, r := range a.NewestRecords {
		recs = append(recs, fmt.Sprintf("%d:%d/%d", uint32(t), r.Version, r.Height))
	}
	sort.Strings(recs)
	return fmt.Sprintf("account{addr=%x bal=%s code=%x sroot=%x acroot=%x airoot=%x eroot=%x votefor=%x votes=%s profile=%s records=%v signers=%s}",
		a.Address[:], z(a.Balance), a.CodeHash[:], a.StorageRoot[:], a.AssetCodeRoot[:], a.AssetIdRoot[:], a.EquityRoot[:], a.VoteFor[:],
		z(a.Candidate.Votes), projProfile(a.Candidate.Profile), recs, projSigners(a.Signers))
}

// ---------------------------------------------------------------- stub account behind the real NewXxxLog constructors

type stubAcc struct {
	types.AccountAccessor // unimplemented methods must not be reached (constructors only read)
	addr                  common.Address
	ver                   uint32
	g                     *gen
}

func (s *stubAcc) GetAddress() common.Address                     { return s.addr }
func (s *stubAcc) GetNextVersion(types.ChangeLogType) uint32      { return s.ver }
func (s *stubAcc) GetBalance() *big.Int                           { return s.g.big("big") }
func (s *stubAcc) GetVotes() *big.Int                             { return s.g.big("small") }
func (s *stubAcc) GetVoteFor() common.Address                     { return s.g.addr() }
func (s *stubAcc) GetCandidate() types.Profile                    { return s.g.profile(1) }
func (s *stubAcc) GetCandidateState(string) string                { return "old" }
func (s *stubAcc) GetStorageState(common.Hash) ([]byte, error)    { return s.g.blob("long"), nil }
func (s *stubAcc) GetAssetCode(common.Hash) (*types.Asset, error) { return nil, types.ErrAssetNotExist }
func (s *stubAcc) GetAssetCodeState(common.Hash, string) (string, error) {
	return "", types.ErrAssetNotExist
}
func (s *stubAcc) GetAssetCodeTotalSupply(common.Hash) (*big.Int, error) { return s.g.big("big"), nil }
func (s *stubAcc) GetAssetIdState(common.Hash) (string, error)           { return "", types.ErrAssetIdNotExist }
func (s *stubAcc) GetEquityState(common.Hash) (*types.AssetEquity, error) {
	return nil, types.ErrEquityNotExist
}
func (s *stubAcc) GetCodeHash() common.Hash     { return s.g.hash() }
func (s *stubAcc) GetStorageRoot() common.Hash  { return s.g.hash() }
func (s *stubAcc) GetSigners() types.Signers    { return s.g.signers(1) }
func (s *stubAcc) GetCode() (types.Code, error) { return types.Code(s.g.blob("short")), nil }

type stubProc struct{ a *stubAcc }

func (p stubProc) GetAccount(common.Address) types.AccountAccessor { return p.a }

// must: the real code refused an honest operation while an input was being constructed (signing, marshalling an
// honestly built object, decoding its own JSON).  That is an observation about the code under test, not a harness
// failure: it is recorded in the row as "panic" (see realGuard), which no trace action consumes.
func must(err error) {
	if err != nil {
		engine.Realf("codecshapes: constructing an honest input: %v", err)
	}
}

// realGuard runs the construction of an honest input; an engine.Realf raised inside is recorded in the row.  Any other
// panic (a bug of the harness, or a crash of the real code that the engine classifies by its stack) propagates.
func realGuard(r row, f func()) (ok bool) {
	defer func() {
		if p := recover(); p != nil {
			if s, isS := p.(string); isS && strings.HasPrefix(s, "REAL-CODE FAILURE") {
				r["panic"] = s
				ok = false
				return
			}
			panic(p)
		}
	}()
	f()
	return true
}

func buildLog(g *gen, t, nv, ex, ver string) *types.ChangeLog {
	acc := &stubAcc{addr: g.addr(), ver: g.u32(ver), g: g}
	p := stubProc{acc}
	a := acc.addr
	var l *types.ChangeLog
	var err error
	switch t {
	case "BalanceLog":
		l = account.NewBalanceLog(a, p, g.big(nv))
	case "VotesLog":
		l = account.NewVotesLog(a, p, g.big(nv))
	case "AssetCodeTotalSupplyLog":
		l, err = account.NewAssetCodeTotalSupplyLog(a, p, g.hashF(ex), g.big(nv))
	case "StorageLog":
		l, err = account.NewStorageLog(a, p, g.hashF(ex), g.blob(nv))
	case "StorageRootLog":
		l = account.NewStorageRootLog(a, p, g.hash(), g.hashF(nv))
	case "AssetCodeRootLog":
		l, err = account.NewAssetCodeRootLog(a, p, g.hash(), g.hashF(nv))
	case "AssetIdRootLog":
		l, err = account.NewAssetIdRootLog(a, p, g.hash(), g.hashF(nv))
	case "EquityRootLog":
		l, err = account.NewEquityRootLog(a, p, g.hash(), g.hashF(nv))
	case "AssetCodeLog":
		var as *types.Asset
		if nv != "nilptr" {
			as = g.asset(int(nv[1]-'0'), []string{"zero", "small", "big"}[g.r.Intn(3)], g.r.Intn(2) == 0, g.r.Intn(2) == 0, []string{"zero", "small", "max"}[g.r.Intn(3)])
		}
		l, err = account.NewAssetCodeLog(a, p, g.hashF(ex), as)
	case "AssetCodeStateLog":
		key := ""
		if ex == "key" {
			key = g.text([]string{"byte", "long"}[g.r.Intn(2)])
		}
		l, err = account.NewAssetCodeStateLog(a, p, g.hash(), key, g.text(nv))
	case "AssetIdLog":
		l, err = account.NewAssetIdLog(a, p, g.hashF(ex), g.text(nv))
	case "EquityLog":
		var eq *types.AssetEquity
		if nv != "nil" {
			eq = &types.AssetEquity{AssetCode: g.hash(), AssetId: g.hash(), Equity: g.big(nv)}
		}
		l, err = account.NewEquityLog(a, p, g.hashF(ex), eq)
	case "CandidateLog":
		l = account.NewCandidateLog(a, p, g.profile(int(nv[1]-'0')))
	case "CandidateStateLog":
		l = account.NewCandidateStateLog(a, p, g.text(ex), g.text(nv))
	case "CodeLog":
		l = account.NewCodeLog(a, p, types.Code(g.blob(nv)))
	case "AddEventLog":
		l = account.NewAddEventLog(a, p, g.event(int(nv[1]-'0')))
	case "SuicideLog":
		l = account.NewSuicideLog(a, p)
	case "VoteForLog":
		v := common.Address{}
		if nv != "zero" {
			v = g.addr()
		}
		l = account.NewVoteForLog(a, p, v)
	case "SignerLog":
		l, err = account.NewSignerLog(a, p, g.signers(1), g.signers(int(nv[1]-'0')))
	default:
		engine.Failf("codecshapes: no constructor for change log %q", t)
	}
	must(err)
	return l
}

// registered change-log type names, read off the real registry through ChangeLogType.String()
func registeredLogTypes() []string {
	var out []string
	for i := 0; i < 256; i++ {
		s := types.ChangeLogType(i).String()
		if !strings.HasPrefix(s, "ChangeLogType(") {
			out = append(out, s)
		}
	}
	return out
}

// a few clean log shapes used as block content
var blockLogShapes = [][3]string{{"BalanceLog", "big", "nil"}, {"StorageLog", "long", "rand"}, {"VoteForLog", "rand", "nil"},
	{"AddEventLog", "t1", "nil"}, {"AssetCodeLog", "p1", "rand"}, {"SuicideLog", "nil", "nil"}, {"CandidateStateLog", "byte", "long"}}

// ---------------------------------------------------------------- transactions

func sign(hash common.Hash, k *ecdsa.PrivateKey) []byte {
	sig, err := crypto.Sign(hash[:], k)
	must(err)
	return sig
}

func (g *gen) subTx(exp uint64, badUtf8 bool) *types.Transaction {
	k := g.keys[g.r.Intn(len(g.keys))]
	from := crypto.PubkeyToAddress(k.PublicKey)
	tx := types.NewTransaction(from, g.addr(), g.big([]string{"zero", "small", "big"}[g.r.Intn(3)]), 21000+uint64(g.r.Intn(1000)),
		g.big("small"), g.blob([]string{"nil", "byte", "long"}[g.r.Intn(3)]), params.OrdinaryTx, 100, exp+uint64(g.r.Intn(100)), g.text("byte"), g.text("long")+bad(badUtf8))
	tx, err := types.MakeSigner().SignTx(tx, k)
	must(err)
	if g.r.Intn(2) == 0 {
		tx.SetGasUsed(uint64(g.r.Intn(21000)))
	}
	return tx
}

// bytes that are not valid UTF-8 (a Go string / RLP string may hold them)
func bad(on bool) string {
	if on {
		return "\xff\xc0z"
	}
	return ""
}

func buildTx(g *gen, sh tla.Value) (*types.Transaction, types.Transactions) {
	k0 := g.keys[0]
	from := crypto.PubkeyToAddress(k0.PublicKey)
	var to *common.Address
	switch sh.F("to").S() {
	case "zero":
		to = &common.Address{}
	case "set":
		a := g.addr()
		to = &a
	}
	toName, msg := "", ""
	badUtf8 := sh.F("text").S() == "badutf8"
	if sh.F("text").S() != "empty" {
		toName, msg = g.text([]string{"byte", "long"}[g.r.Intn(2)]), g.text("long")+bad(badUtf8)
	}
	exp := uint64(1600000000 + g.r.Intn(1e6))
	txType := params.OrdinaryTx
	var data []byte
	var subs types.Transactions
	switch d := sh.F("data").S(); d {
	case "empty":
		data = g.blob([]string{"nil", "empty"}[g.r.Intn(2)])
	case "byte", "long":
		data = g.blob(d)
	default: // box0..box2
		txType = params.BoxTx
		subs = types.Transactions{}
		for i := 0; i < int(d[3]-'0'); i++ {
			subs = append(subs, g.subTx(exp, badUtf8))
		}
		var err error
		data, err = types.MarshalBoxData(subs)
		must(err)
	}
	amount := g.big(sh.F("amount").S())
	gasLimit, gasPrice := g.u64([]string{"zero", "small", "max"}[g.r.Intn(3)]), g.big([]string{"zero", "small", "big"}[g.r.Intn(3)])
	var tx *types.Transaction
	gp := sh.F("gp").S()
	if gp == "other" {
		payer := g.addr()
		if to == nil {
			tx = types.NewReimbursementContractCreation(from, payer, amount, data, txType, 100, exp, toName, msg)
		} else {
			tx = types.NewReimbursementTransaction(from, *to, payer, amount, data, txType, 100, exp, toName, msg)
		}
		tx = types.GasPayerSignatureTx(tx, gasPrice, gasLimit)
	} else if to == nil {
		tx = types.NoReceiverTransaction(from, amount, gasLimit, gasPrice, data, txType, 100, exp, toName, msg)
	} else {
		tx = types.NewTransaction(from, *to, amount, gasLimit, gasPrice, data, txType, 100, exp, toName, msg)
	}
	nsig, ngp := sh.F("sigs").I(), sh.F("gpsigs").I()
	if gp != "nil" {
		var err error
		for i := 0; i < nsig; i++ {
			if gp == "other" {
				tx, err = types.MakeReimbursementTxSigner().SignTx(tx, g.keys[i])
			} else {
				tx, err = types.MakeSigner().SignTx(tx, g.keys[i])
			}
			must(err)
		}
		for i := 0; i < ngp; i++ {
			tx, err = types.MakeGasPayerSigner().SignTx(tx, g.keys[3])
			must(err)
		}
		return tx, subs
	}
	// a nil gas payer cannot be produced by the constructors (they default it to `from`) and SignTx clones
	// through the pointer; such a transaction only arrives from outside.  Build it through the JSON form.
	js, err := json.Marshal(tx)
	must(err)
	var m map[string]interface{}
	must(json.Unmarshal(js, &m))
	delete(m, "gasPayer")
	delete(m, "hash")
	load := func() *types.Transaction {
		b, err := json.Marshal(m)
		must(err)
		t := new(types.Transaction)
		must(json.Unmarshal(b, t))
		return t
	}
	t0 := load()
	var sigs, gsigs []string
	for i := 0; i < nsig; i++ {
		sigs = append(sigs, "0x"+hx(sign(types.MakeSigner().Hash(t0), g.keys[i])))
	}
	if sigs == nil {
		sigs = []string{}
	}
	m["sigs"] = sigs
	t1 := load()
	for i := 0; i < ngp; i++ {
		gsigs = append(gsigs, "0x"+hx(sign(types.MakeGasPayerSigner().Hash(t1), g.keys[3])))
	}
	if gsigs == nil {
		gsigs = []string{}
	}
	m["gasPayerSigs"] = gsigs
	return load(), subs
}

// ---------------------------------------------------------------- one row per shape instance

// stage runs a step of the code under test; a panic is recorded in the row.
func stage(r row, what string, f func()) (ok bool) {
	defer func() {
		if p := recover(); p != nil {
			if he, isH := p.(engine.HarnessError); isH {
				panic(he)
			}
			r["panic"] = fmt.Sprintf("%s: %v", what, p)
			ok = false
		}
	}()
	f()
	return true
}

type codec struct {
	encode    func() ([]byte, error)                  // the original object
	decode    func(b []byte) (interface{}, error)     // fresh object from bytes, the way the node does it
	obs       func(o interface{}) (v, t, h, s string) // projections of an object (original or decoded)
	reenc     func(o interface{}) ([]byte, error)
	orig      interface{}
	origX     string                     // box payload as seen *before* packing: hashes and signers of the sub-transactions
	obsX      func(o interface{}) string // the same view taken from a decoded object (GetBox on its Data)
	mutations int
	mrng      *rand.Rand
}

func roundTrip(r row, c codec) {
	c.mutations, c.mrng = mutationsPerRow, rand.New(rand.NewSource(int64(len(fmt.Sprint(r["sh"])))*7919+int64(r["var"].(int))+mutationSeed))
	r["mut"] = []int{0, 0}
	for _, k := range []string{"v0", "v1", "t0", "t1", "h0", "h1", "s0", "s1", "b0", "b1", "x0", "x1"} {
		r[k] = ""
	}
	r["enc"], r["dec"], r["reenc"] = "-", "-", "-"
	var b0 []byte
	if !stage(r, "observe original", func() { r["v0"], r["t0"], r["h0"], r["s0"] = c.obs(c.orig) }) {
		return
	}
	r["x0"] = c.origX
	var err error
	if !stage(r, "encode", func() { b0, err = c.encode() }) {
		return
	}
	if err != nil {
		r["enc"] = "err:" + err.Error()
		return
	}
	r["enc"], r["b0"] = "ok", hx(b0)
	var dec interface{}
	if !stage(r, "decode", func() { dec, err = c.decode(append([]byte(nil), b0...)) }) {
		return
	}
	if err != nil {
		r["dec"] = "err:" + err.Error()
		return
	}
	r["dec"] = "ok"
	if !stage(r, "observe decoded", func() {
		r["v1"], r["t1"], r["h1"], r["s1"] = c.obs(dec)
		if c.obsX != nil {
			r["x1"] = c.obsX(dec)
		}
	}) {
		return
	}
	var b1 []byte
	if !stage(r, "re-encode", func() { b1, err = c.reenc(dec) }) {
		return
	}
	if err != nil {
		r["reenc"] = "err:" + err.Error()
		return
	}
	r["reenc"], r["b1"] = "ok", hx(b1)
	// hostile variants of the very same bytes offered to the typed decoder: a value or an error, never a panic
	nOK, nErr := 0, 0
	for i := 0; i < c.mutations; i++ {
		m := mutate(c.mrng, b0)
		if !stage(r, "decode mutated bytes "+hx(m), func() {
			if _, err := c.decode(m); err != nil {
				nErr++
			} else {
				nOK++
			}
		}) {
			return
		}
	}
	r["mut"] = []int{nOK, nErr}
}

// mutate returns a damaged copy of an encoding: truncated, extended, one byte flipped / replaced by a grammar
// boundary byte, a length prefix bumped, or a slice cut out.
func mutate(rng *rand.Rand, b []byte) []byte {
	m := append([]byte(nil), b...)
	if len(m) == 0 {
		return []byte{byte(rng.Intn(256))}
	}
	pos := rng.Intn(len(m))
	if rng.Intn(2) == 0 && len(m) > 8 { // headers live at the front
		pos = rng.Intn(8)
	}
	switch rng.Intn(7) {
	case 0:
		return m[:pos]
	case 1:
		return append(m, byte(rng.Intn(256)))
	case 2:
		m[pos] ^= byte(1 << uint(rng.Intn(8)))
	case 3:
		m[pos] = []byte{0x00, 0x01, 0x7f, 0x80, 0x81, 0xb7, 0xb8, 0xb9, 0xbf, 0xc0, 0xc1, 0xf7, 0xf8, 0xff}[rng.Intn(14)]
	case 4:
		m[pos]++
	case 5:
		end := pos + 1 + rng.Intn(4)
		if end > len(m) {
			end = len(m)
		}
		return append(m[:pos], m[end:]...)
	default:
		m[pos]--
	}
	return m
}

func encPtr(o interface{}) ([]byte, error) { return rlp.EncodeToBytes(o) }

func msgDecode(b []byte, into interface{}) error {
	m := &p2p.Msg{Content: b}
	return m.Decode(into)
}

func instance(g *gen, typ string, sh tla.Value, r row) {
	switch typ {
	case "header":
		roundTrip(r, headerCodec(buildHeader(g, sh)))
	case "block":
		roundTrip(r, blockCodec(buildBlock(g, sh.F("txs").I(), sh.F("logs").I(), sh.F("confirms").I(), sh.F("deputies").I())))
	case "tx":
		tx, subs := buildTx(g, sh)
		c := txCodec(tx)
		if subs != nil {
			c.origX = projSubs(subs) // hashes and signers of the sub-transactions *before* they were packed
		}
		c.obsX = func(o interface{}) string { return projBox(o.(*types.Transaction)) }
		roundTrip(r, c)
		// the JSON form (RPC, and the form box payloads travel in) must preserve value, hash and signers as well
		r["j"], r["jv"], r["jh"], r["js"], r["jx"], r["jq"] = "-", "", "", "", "", "ok"
		stage(r, "json", func() {
			js, err := json.Marshal(tx)
			if err != nil {
				r["j"] = "err:" + err.Error()
				return
			}
			t2 := new(types.Transaction)
			if err := json.Unmarshal(js, t2); err != nil {
				r["j"] = "err:" + err.Error()
				return
			}
			r["j"] = "ok"
			r["jv"], _, r["jh"], r["js"] = c.obs(t2)
			r["jx"] = c.obsX(t2)
			// a JSON document whose redundant members (hash, ...) do not match its content: whatever is decoded from it
			// must be a self-consistent value - its hash is the hash of its own encoding, not what the document claims
			var m map[string]interface{}
			if json.Unmarshal(js, &m) != nil {
				return
			}
			m["message"] = fmt.Sprintf("%v+edited", m["message"])
			if am, ok := m["amount"].(string); ok && am != "" {
				m["amount"] = am + "0"
			}
			b, err := json.Marshal(m)
			if err != nil {
				return
			}
			t3 := new(types.Transaction)
			if json.Unmarshal(b, t3) != nil {
				return // refusing the document is fine
			}
			enc, err := rlp.EncodeToBytes(t3)
			if err != nil {
				r["jq"] = "err:" + err.Error()
				return
			}
			t4 := new(types.Transaction)
			if err := rlp.DecodeBytes(enc, t4); err != nil {
				r["jq"] = "err:" + err.Error()
				return
			}
			if t3.Hash() != t4.Hash() {
				r["jq"] = "hash of the value decoded from edited JSON differs from the hash of its own encoding"
			}
		})
	case "log":
		l := buildLog(g, sh.F("t").S(), sh.F("nv").S(), sh.F("ex").S(), sh.F("ver").S())
		roundTrip(r, logCodec(l))
	case "account":
		a := &types.AccountData{Address: g.addr(), Balance: g.big(sh.F("balance").S()), CodeHash: g.hashF(sh.F("roots").S()),
			StorageRoot: g.hashF(sh.F("roots").S()), AssetCodeRoot: g.hashF(sh.F("roots").S()), AssetIdRoot: g.hashF(sh.F("roots").S()),
			EquityRoot: g.hashF(sh.F("roots").S())}
		if sh.F("voteFor").S() == "rand" {
			a.VoteFor = g.addr()
		}
		if v := sh.F("votes").S(); v != "nil" {
			a.Candidate.Votes = g.big(v)
		}
		if n := sh.F("profile").I(); n > 0 || g.r.Intn(2) == 0 {
			a.Candidate.Profile = g.profile(n)
		}
		if n := sh.F("records").I(); n > 0 || g.r.Intn(2) == 0 {
			a.NewestRecords = map[types.ChangeLogType]types.VersionRecord{}
			for len(a.NewestRecords) < n {
				a.NewestRecords[types.ChangeLogType(1+g.r.Intn(19))] = types.VersionRecord{Version: g.u32([]string{"zero", "small", "max"}[g.r.Intn(3)]), Height: g.u32("max")}
			}
		}
		if n := sh.F("signers").I(); n > 0 || g.r.Intn(2) == 0 {
			a.Signers = g.signers(n)
		}
		roundTrip(r, accountCodec(a))
	case "deputy":
		roundTrip(r, deputyCodec(buildDeputy(g, sh)))
	case "asset":
		a := g.asset(sh.F("profile").I(), sh.F("supply").S(), sh.F("divisible").B(), sh.F("replenishable").B(), sh.F("nums").S())
		roundTrip(r, assetCodec(a))
	case "equity":
		e := &types.AssetEquity{AssetCode: g.hash(), AssetId: g.hash(), Equity: g.big(sh.F("equity").S())}
		roundTrip(r, equityCodec(e))
	case "msg":
		roundTrip(r, msgCodec(g, sh.F("m").S(), sh.F("v").S()))
	default:
		engine.Failf("codecshapes: unknown type %q", typ)
	}
}

func buildHeader(g *gen, sh tla.Value) *types.Header {
	h := &types.Header{ParentHash: g.hash(), MinerAddress: g.addr(), VersionRoot: g.hash()}
	root := func(f string) common.Hash {
		switch f {
		case "emptyTrie":
			return merkle.EmptyTrieHash
		case "zero":
			return common.Hash{}
		}
		return g.hash()
	}
	h.TxRoot, h.LogRoot = root(sh.F("txRoot").S()), root(sh.F("logRoot").S())
	n := sh.F("nums").S()
	h.Height, h.GasLimit, h.GasUsed, h.Time = g.u32(n), g.u64(n), g.u64(n), g.u32(n)
	if sh.F("deputyRoot").S() == "set" {
		h.DeputyRoot = g.bytes(32)
	} else if g.r.Intn(2) == 0 {
		h.DeputyRoot = []byte{}
	}
	if sh.F("extra").S() == "set" {
		h.Extra = g.text([]string{"byte", "long"}[g.r.Intn(2)])
	}
	if sh.F("sign").S() == "signed" {
		h.SignData = sign(h.Hash(), g.keys[1])
	}
	return h
}

func buildDeputy(g *gen, sh tla.Value) *types.DeputyNode {
	d := &types.DeputyNode{MinerAddress: g.addr(), Rank: g.u32(sh.F("rank").S()), Votes: g.big(sh.F("votes").S())}
	if sh.F("nodeID").S() == "full" {
		d.NodeID = crypto.PrivateKeyToNodeID(g.keys[g.r.Intn(4)])
	} else if g.r.Intn(2) == 0 {
		d.NodeID = []byte{}
	}
	return d
}

func deputyCodec(d *types.DeputyNode) codec {
	return codec{orig: d,
		encode: func() ([]byte, error) { return rlp.EncodeToBytes(d) },
		decode: func(b []byte) (interface{}, error) {
			var x types.DeputyNode
			err := rlp.DecodeBytes(b, &x)
			return &x, err
		},
		obs: func(o interface{}) (string, string, string, string) {
			x := o.(*types.DeputyNode)
			h := x.Hash()
			root := types.DeputyNodes{x}.MerkleRootSha()
			return projDeputy(x), "", hx(h[:]) + "/" + hx(root[:]), ""
		},
		reenc: encPtr}
}

func accountCodec(a *types.AccountData) codec {
	return codec{orig: a,
		encode: func() ([]byte, error) { return rlp.EncodeToBytes(a) },
		decode: func(b []byte) (interface{}, error) {
			var d types.AccountData
			err := rlp.DecodeBytes(b, &d)
			return &d, err
		},
		obs: func(o interface{}) (string, string, string, string) {
			return projAccount(o.(*types.AccountData)), "", "", ""
		},
		reenc: encPtr}
}

func assetCodec(a *types.Asset) codec {
	return codec{orig: a,
		encode: func() ([]byte, error) { return rlp.EncodeToBytes(a) },
		decode: func(b []byte) (interface{}, error) { // as Account.GetAssetCode does
			var x types.Asset
			x.TotalSupply = new(big.Int)
			x.Profile = make(types.Profile)
			err := rlp.DecodeBytes(b, &x)
			return &x, err
		},
		obs:   func(o interface{}) (string, string, string, string) { return projAsset(o.(*types.Asset)), "", "", "" },
		reenc: encPtr}
}

func equityCodec(e *types.AssetEquity) codec {
	return codec{orig: e,
		encode: func() ([]byte, error) { return rlp.EncodeToBytes(e) },
		decode: func(b []byte) (interface{}, error) {
			var x types.AssetEquity
			err := rlp.DecodeBytes(b, &x)
			return &x, err
		}, // as Account.GetEquityState
		obs: func(o interface{}) (string, string, string, string) {
			return projEquity(o.(*types.AssetEquity)), "", "", ""
		},
		reenc: encPtr}
}

func headerCodec(h *types.Header) codec {
	return codec{orig: h,
		encode: func() ([]byte, error) { return rlp.EncodeToBytes(h) },
		decode: func(b []byte) (interface{}, error) { var x types.Header; err := rlp.DecodeBytes(b, &x); return &x, err },
		obs: func(o interface{}) (string, string, string, string) {
			x := o.(*types.Header)
			hh := x.Hash()
			return projHeader(x), "", hx(hh[:]), headerSigner(x)
		},
		reenc: encPtr}
}

func buildBlock(g *gen, ntx, nlog, nconf, ndep int) *types.Block {
	b := &types.Block{}
	if ntx > 0 || g.r.Intn(2) == 0 {
		b.Txs = types.Transactions{}
	}
	for i := 0; i < ntx; i++ {
		b.Txs = append(b.Txs, g.subTx(1600000000, false))
	}
	if nlog > 0 || g.r.Intn(2) == 0 {
		b.ChangeLogs = types.ChangeLogSlice{}
	}
	for i := 0; i < nlog; i++ {
		s := blockLogShapes[g.r.Intn(len(blockLogShapes))]
		b.ChangeLogs = append(b.ChangeLogs, buildLog(g, s[0], s[1], s[2], "small"))
	}
	for i := 0; i < ndep; i++ {
		b.DeputyNodes = append(b.DeputyNodes, &types.DeputyNode{MinerAddress: g.addr(), NodeID: crypto.PrivateKeyToNodeID(g.keys[i]), Rank: uint32(i), Votes: g.big("big")})
	}
	h := &types.Header{ParentHash: g.hash(), MinerAddress: g.addr(), VersionRoot: g.hash(), Height: g.u32("max"), GasLimit: g.u64("max"),
		GasUsed: g.u64("small"), Time: g.u32("max"), TxRoot: b.Txs.MerkleRootSha(), LogRoot: b.ChangeLogs.MerkleRootSha()}
	if ndep > 0 {
		root := b.DeputyNodes.MerkleRootSha()
		h.DeputyRoot = root[:]
	}
	h.SignData = sign(h.Hash(), g.keys[0])
	b.Header = h
	for i := 0; i < nconf; i++ {
		b.Confirms = append(b.Confirms, types.BytesToSignData(sign(h.Hash(), g.keys[1+i])))
	}
	return b
}

func projBlock(b *types.Block) (v, h, s string) {
	var sb strings.Builder
	sb.WriteString("block{" + projHeader(b.Header) + " txs=[")
	for _, t := range b.Txs {
		sb.WriteString(projTx(t) + ";")
	}
	sb.WriteString("] logs=[")
	for _, l := range b.ChangeLogs {
		lv, lt := projLog(l)
		sb.WriteString(lv + "/" + lt + ";")
	}
	sb.WriteString("] confirms=[")
	var signers strings.Builder
	signers.WriteString(headerSigner(b.Header) + "|")
	bh := b.Hash()
	for _, c := range b.Confirms {
		sb.WriteString(hx(c[:]) + ",")
		id, err := c.RecoverNodeID(bh)
		if err != nil {
			signers.WriteString("err,")
		} else {
			signers.WriteString(hx(id) + ",")
		}
	}
	sb.WriteString("] deputies=[")
	for _, d := range b.DeputyNodes {
		sb.WriteString(projDeputy(d) + ";")
	}
	sb.WriteString("]}")
	for _, t := range b.Txs {
		signers.WriteString("|" + txSigners(t))
	}
	tr, lr, dr := b.Txs.MerkleRootSha(), b.ChangeLogs.MerkleRootSha(), b.DeputyNodes.MerkleRootSha()
	return sb.String(), fmt.Sprintf("%x tx=%x log=%x dep=%x", bh[:], tr[:], lr[:], dr[:]), signers.String()
}

func blockCodec(b *types.Block) codec {
	return codec{orig: b,
		encode: func() ([]byte, error) { return rlp.EncodeToBytes(b) },
		decode: func(bs []byte) (interface{}, error) {
			var x types.Block
			err := rlp.DecodeBytes(bs, &x)
			return &x, err
		},
		obs: func(o interface{}) (string, string, string, string) {
			v, h, s := projBlock(o.(*types.Block))
			return v, "", h, s
		},
		reenc: encPtr}
}

func txCodec(tx *types.Transaction) codec {
	return codec{orig: tx,
		encode: func() ([]byte, error) { return rlp.EncodeToBytes(tx) },
		decode: func(b []byte) (interface{}, error) {
			x := new(types.Transaction)
			err := rlp.DecodeBytes(b, x)
			return x, err
		},
		obs: func(o interface{}) (string, string, string, string) {
			x := o.(*types.Transaction)
			h := x.Hash()
			return projTx(x), "", hx(h[:]), txSigners(x)
		},
		reenc: encPtr}
}

func logCodec(l *types.ChangeLog) codec {
	return codec{orig: l,
		encode: func() ([]byte, error) { return rlp.EncodeToBytes(l) },
		decode: func(b []byte) (interface{}, error) {
			x := new(types.ChangeLog)
			err := rlp.DecodeBytes(b, x)
			return x, err
		},
		obs: func(o interface{}) (string, string, string, string) {
			x := o.(*types.ChangeLog)
			v, t := projLog(x)
			h := x.Hash()
			root := types.ChangeLogSlice{x}.MerkleRootSha()
			return v, t, hx(h[:]) + "/" + hx(root[:]), ""
		},
		reenc: encPtr}
}

// wire messages: encoded as network/peer.go does, decoded as the protocol manager does (p2p.Msg.Decode)
func msgCodec(g *gen, m, v string) codec {
	n32 := func() uint32 { return g.u32(v) }
	plain := func(orig interface{}, fresh func() interface{}) codec {
		return codec{orig: orig,
			encode: func() ([]byte, error) { return rlp.EncodeToBytes(orig) },
			decode: func(b []byte) (interface{}, error) { x := fresh(); err := msgDecode(b, x); return x, err },
			obs:    func(o interface{}) (string, string, string, string) { return fmt.Sprintf("%+v", o), "", "", "" },
			reenc:  encPtr}
	}
	status := func() network.LatestStatus {
		return network.LatestStatus{CurHeight: n32(), CurHash: g.hash(), StaHeight: n32(), StaHash: g.hash()}
	}
	cnt := 0
	if len(v) == 2 && v[0] == 'n' {
		cnt = int(v[1] - '0')
	}
	switch m {
	case "handshake":
		chain := uint16(0)
		if v == "max" {
			chain = 0xffff
		}
		o := &network.ProtocolHandshake{ChainID: chain, GenesisHash: g.hash(), NodeVersion: n32(), LatestStatus: status()}
		c := plain(o, func() interface{} { return new(network.ProtocolHandshake) })
		c.encode = func() ([]byte, error) { // the node's own serialiser
			b := o.Bytes()
			if b == nil {
				return nil, fmt.Errorf("ProtocolHandshake.Bytes returned nil")
			}
			return b, nil
		}
		return c
	case "status":
		o := status()
		return plain(&o, func() interface{} { return new(network.LatestStatus) })
	case "getstatus":
		return plain(&network.GetLatestStatus{Revert: n32()}, func() interface{} { return new(network.GetLatestStatus) })
	case "blockhash":
		return plain(&network.BlockHashData{Height: n32(), Hash: g.hash()}, func() interface{} { return new(network.BlockHashData) })
	case "getblocks":
		return plain(&network.GetBlocksData{From: n32(), To: n32()}, func() interface{} { return new(network.GetBlocksData) })
	case "getsingle":
		return plain(&network.GetSingleBlockData{Hash: g.hash(), Height: n32()}, func() interface{} { return new(network.GetSingleBlockData) })
	case "getconfirm":
		return plain(&network.GetConfirmInfo{Height: n32(), Hash: g.hash()}, func() interface{} { return new(network.GetConfirmInfo) })
	case "discreq":
		seq := uint(0)
		if v == "max" {
			seq = ^uint(0)
		}
		return plain(&network.DiscoverReqData{Sequence: seq}, func() interface{} { return new(network.DiscoverReqData) })
	case "confirm": // signed: the recovered node id must survive
		bh := g.hash()
		o := &network.BlockConfirmData{Hash: bh, Height: n32(), SignInfo: types.BytesToSignData(sign(bh, g.keys[2]))}
		c := plain(o, func() interface{} { return new(network.BlockConfirmData) })
		c.obs = func(x interface{}) (string, string, string, string) {
			d := x.(*network.BlockConfirmData)
			s := "err"
			if id, err := d.SignInfo.RecoverNodeID(d.Hash); err == nil {
				s = hx(id)
			}
			return fmt.Sprintf("%+v", d), "", "", s
		}
		return c
	case "confirms":
		bh := g.hash()
		o := &network.BlockConfirms{Height: g.u32("max"), Hash: bh}
		if cnt > 0 || g.r.Intn(2) == 0 {
			o.Pack = []types.SignData{}
		}
		for i := 0; i < cnt; i++ {
			o.Pack = append(o.Pack, types.BytesToSignData(sign(bh, g.keys[i])))
		}
		c := plain(o, func() interface{} { return new(network.BlockConfirms) })
		c.obs = func(x interface{}) (string, string, string, string) {
			d := x.(*network.BlockConfirms)
			var v, s strings.Builder
			fmt.Fprintf(&v, "confirms{h=%d hash=%x pack=", d.Height, d.Hash[:])
			for _, p := range d.Pack {
				v.WriteString(hx(p[:]) + ",")
				if id, err := p.RecoverNodeID(d.Hash); err == nil {
					s.WriteString(hx(id) + ",")
				} else {
					s.WriteString("err,")
				}
			}
			return v.String(), "", "", s.String()
		}
		return c
	case "discres":
		o := &network.DiscoverResData{Sequence: uint(g.r.Intn(1000))}
		if cnt > 0 || g.r.Intn(2) == 0 {
			o.Nodes = []string{}
		}
		for i := 0; i < cnt; i++ {
			o.Nodes = append(o.Nodes, g.text([]string{"empty", "byte", "long"}[g.r.Intn(3)]))
		}
		c := plain(o, func() interface{} { return new(network.DiscoverResData) })
		c.obs = func(x interface{}) (string, string, string, string) {
			d := x.(*network.DiscoverResData)
			return fmt.Sprintf("discres{seq=%d nodes=%q}", d.Sequence, append([]string{}, d.Nodes...)), "", "", ""
		}
		return c
	case "txs":
		txs := types.Transactions{}
		for i := 0; i < cnt; i++ {
			txs = append(txs, g.subTx(1600000000, false))
		}
		return codec{orig: &txs,
			encode: func() ([]byte, error) { return rlp.EncodeToBytes(&txs) }, // peer.SendTxs
			decode: func(b []byte) (interface{}, error) { var x types.Transactions; err := msgDecode(b, &x); return &x, err },
			obs: func(o interface{}) (string, string, string, string) {
				var v, h, s strings.Builder
				for _, t := range *o.(*types.Transactions) {
					hh := t.Hash()
					v.WriteString(projTx(t) + ";")
					h.WriteString(hx(hh[:]) + ",")
					s.WriteString(txSigners(t) + ";")
				}
				return "txs[" + v.String() + "]", "", h.String(), s.String()
			},
			reenc: encPtr}
	case "blocks":
		blocks := types.Blocks{}
		for i := 0; i < cnt; i++ {
			blocks = append(blocks, buildBlock(g, g.r.Intn(3), g.r.Intn(3), g.r.Intn(3), g.r.Intn(3)))
		}
		return codec{orig: &blocks,
			encode: func() ([]byte, error) { return rlp.EncodeToBytes(&blocks) }, // peer.SendBlocks
			decode: func(b []byte) (interface{}, error) { var x types.Blocks; err := msgDecode(b, &x); return &x, err },
			obs: func(o interface{}) (string, string, string, string) {
				var v, h, s strings.Builder
				for _, b := range *o.(*types.Blocks) {
					bv, bh, bs := projBlock(b)
					v.WriteString(bv + ";")
					h.WriteString(bh + ";")
					s.WriteString(bs + ";")
				}
				return "blocks[" + v.String() + "]", "", h.String(), s.String()
			},
			reenc: encPtr}
	}
	engine.Failf("codecshapes: unknown message %q", m)
	return codec{}
}

// ---------------------------------------------------------------- Lemo address text form

func addressRow(g *gen, sh tla.Value, r row) {
	r["ev"] = "addr"
	lead := sh.F("lead").I()
	var a common.Address
	for i := lead; i < 20; i++ {
		a[i] = byte(1 + g.r.Intn(255))
	}
	if sh.F("cs0").B() { // force the xor checksum to zero by the last byte (keeps it non-zero: redraw until it is)
		for {
			x := byte(0)
			for i := lead; i < 19; i++ {
				x ^= a[i]
			}
			if x != 0 {
				a[19] = x
				break
			}
			a[lead] = byte(1 + g.r.Intn(255))
		}
	}
	for _, k := range []string{"text", "t0", "t1"} {
		r[k] = ""
	}
	r["a0"], r["a1"], r["err"] = bytesToInts(a[:]), []int{}, "-"
	var text string
	if !stage(r, "String", func() { text = a.String() }) {
		return
	}
	r["t0"] = text
	switch sh.F("case").S() {
	case "lower":
		text = strings.ToLower(text)
	case "mixed":
		b := []byte(text)
		for i := range b {
			if g.r.Intn(2) == 0 {
				b[i] = strings.ToLower(string(b[i]))[0]
			}
		}
		text = string(b)
	}
	r["text"] = text
	var d common.Address
	if sh.F("recv").S() == "dirty" {
		d = common.BytesToAddress(g.bytes(20))
		d[0] |= 1
	}
	stage(r, "decode text", func() {
		var err error
		switch sh.F("via").S() {
		case "Decode":
			err = d.Decode(text)
		case "StringToAddress":
			d, err = common.StringToAddress(text)
		case "UnmarshalJSON":
			err = d.UnmarshalJSON([]byte(`"` + text + `"`))
		case "UnmarshalText":
			err = d.UnmarshalText([]byte(text))
		}
		if err != nil {
			r["err"] = "err:" + err.Error()
			return
		}
		r["err"], r["a1"], r["t1"] = "ok", bytesToInts(d[:]), d.String()
	})
}

// ---------------------------------------------------------------- driver

var (
	mutationsPerRow = 0
	mutationSeed    int64
)

func drive(args []string) error {
	fs := flag.NewFlagSet("codecshapes", flag.ContinueOnError)
	graph := fs.String("graph", "", "TLC dot dump of MCCodecShapes (type/shape pairs as initial states)")
	variants := fs.Int("variants", 2, "seeded instances per shape")
	out := fs.String("out", "shapes.ndjson", "")
	shard := fs.String("shard", "0/1", "")
	seed := fs.Int64("seed", 1, "")
	muts := fs.Int("mutations", 8, "damaged variants of every encoding offered to the typed decoder")
	if err := fs.Parse(args); err != nil {
		return err
	}
	mutationsPerRow = *muts
	parts := strings.Split(*shard, "/")
	si, _ := strconv.Atoi(parts[0])
	sn, _ := strconv.Atoi(parts[1])
	f, err := os.Create(*out)
	if err != nil {
		return err
	}
	defer f.Close()
	w := bufio.NewWriterSize(f, 1<<20)
	defer w.Flush()
	jenc := json.NewEncoder(w)
	jenc.SetEscapeHTML(false)
	g, err := tla.LoadDot(*graph)
	if err != nil {
		return err
	}
	rows, panics := 0, 0
	byType := map[string]int{}
	var sample row
	if si == 0 {
		if err := jenc.Encode(row{"ev": "registry", "logTypes": registeredLogTypes()}); err != nil {
			return err
		}
		rows++
	}
	for i, lab := range g.Labels {
		st, err := tla.ParseState(lab)
		if err != nil {
			return fmt.Errorf("state %d: %v", i, err)
		}
		typ, sh := st["typ"].S(), st["sh"]
		key := typ + " " + sh.String()
		hh := fnv.New64a()
		hh.Write([]byte(key))
		id := hh.Sum64()
		if int(id%uint64(sn)) != si {
			continue
		}
		for k := 0; k < *variants; k++ {
			gg := newGen(int64(id>>1) ^ (*seed * 1000003) ^ int64(k*7919))
			mutationSeed = int64(id>>1) ^ (*seed * 15485863)
			r := row{"ev": "shape", "typ": typ, "sh": sh.JSON(), "var": k}
			realGuard(r, func() {
				if typ == "address" {
					addressRow(gg, sh, r)
				} else {
					instance(gg, typ, sh, r)
				}
			})
			if _, bad := r["panic"]; bad {
				panics++
			}
			if sample == nil && typ == "log" {
				sample = r
			}
			rows++
			byType[typ]++
			if err := jenc.Encode(r); err != nil {
				return err
			}
		}
	}
	b, _ := json.Marshal(map[string]interface{}{"rows": rows, "panics": panics, "byType": byType, "sample": sample})
	fmt.Println(string(b))
	return nil
}

func init() { engine.RegisterDriver("codecshapes", drive) }
