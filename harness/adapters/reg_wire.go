package adapters

import _ "verifharness/adapters/wire"
