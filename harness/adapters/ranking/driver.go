package ranking

import (
	"bufio"
	"encoding/json"
	"flag"
	"fmt"
	"math/rand"
	"os"
	"runtime/debug"
	"sort"

	"verifharness/engine"
)

// driveRand: seeded random histories on the real store with bigger universes than the model-checked ones (up to 8
// candidates, list sizes 1..4, votes with many ties, address tables with shared prefixes in random order, forks up
// to maxlive blocks, stabilisations and restarts with unconfirmed blocks present; a vote map per history that puts
// the vote values on both sides of the boundaries at which the persisted candidate record changes its length - a
// vote change is biased towards the neighbouring value, i.e. across one boundary).  It only generates VALID inputs
// (an unregistered candidate stays at 0 votes; the touched candidate has no vote change), reading the enabling
// conditions from the account views the real store reports; results are judged by TLC (TraceRanking.tla).
func driveRand(args []string) error {
	fs := flag.NewFlagSet("ranking-rand", flag.ContinueOnError)
	out := fs.String("out", "trace.ndjson", "")
	seed := fs.Int64("seed", 1, "")
	hist := fs.Int("n", 50, "histories")
	steps := fs.Int("steps", 40, "operations per history")
	maxNC := fs.Int("nc", 6, "max candidates")
	maxK := fs.Int("k", 3, "max list size")
	maxVotes := fs.Int("votes", 4, "")
	maxLive := fs.Int("maxlive", 5, "")
	if err := fs.Parse(args); err != nil {
		return err
	}
	f, err := os.Create(*out)
	if err != nil {
		return err
	}
	defer f.Close()
	w := bufio.NewWriterSize(f, 1<<20)
	defer w.Flush()
	enc := json.NewEncoder(w)
	rng := rand.New(rand.NewSource(*seed))
	s := &sys{}
	defer func() {
		s.closeDB()
		s.rmDirs()
	}()
	emit := func(ev string, beh, step int, a []interface{}, fl engine.Fields) error {
		fl["ev"], fl["beh"], fl["step"] = ev, beh, step
		if a != nil {
			fl["a"] = a
		}
		return enc.Encode(fl)
	}
	tabNames := []string{}
	for n := range tables {
		tabNames = append(tabNames, n)
	}
	sort.Strings(tabNames)
	for h := 0; h < *hist; h++ {
		s.table = tabNames[rng.Intn(len(tabNames))]
		s.perm = rng.Perm(len(tables[s.table]))
		nc := 3 + rng.Intn(*maxNC-2)
		s.k = 1 + rng.Intn(*maxK)
		// a free vote map per history: the model values 1..maxVotes are real totals on both sides of length boundaries
		fl := s.reset(nc, freeMap, drawVoteMap(rng, *maxVotes))
		if err := emit("reset", h, 0, nil, fl); err != nil {
			return err
		}
		for st := 1; st <= *steps; st++ {
			// what the real store reported after the previous step: live blocks, stable block, candidate accounts
			live := fl["live"].([]int)
			stable := fl["stable"].(int)
			acc := map[int][][]int{}
			for _, o := range fl["obs"].([]map[string]interface{}) {
				acc[o["b"].(int)] = o["acc"].([][]int)
			}
			var ev string
			var a []interface{}
			r := rng.Intn(100)
			switch {
			case r < 76 && len(live) < *maxLive:
				p := live[rng.Intn(len(live))]
				if rng.Intn(3) == 0 { // prefer growing the longest chain now and then: the last id is often a leaf
					p = live[len(live)-1]
				}
				nv := make([]int, nc)
				t := 0
				if rng.Intn(4) == 0 {
					t = 1 + rng.Intn(nc)
				}
				for i := 0; i < nc; i++ {
					reg, cur := acc[p][i][0], acc[p][i][1]
					nv[i] = cur
					if i+1 == t || reg == 2 {
						continue
					}
					switch x := rng.Intn(100); {
					case reg == 0 && x < 35:
						nv[i] = 1 + rng.Intn(*maxVotes)
					case reg == 1 && x < 12:
						nv[i] = 0
					case reg == 1 && x < 30:
						nv[i] = 1 + rng.Intn(*maxVotes)
					case reg == 1 && x < 50: // the neighbouring value
						nv[i] = cur + 1 - 2*rng.Intn(2)
						if nv[i] < 1 || nv[i] > *maxVotes {
							nv[i] = cur
						}
					}
				}
				ev, a = "Block", []interface{}{p, nv, t}
			case r < 90:
				var c []int
				for _, b := range live {
					if b != stable {
						c = append(c, b)
					}
				}
				if len(c) == 0 {
					continue
				}
				ev, a = "Stable", []interface{}{c[rng.Intn(len(c))]}
			case r < 97:
				ev, a = "Restart", []interface{}{}
			default:
				continue
			}
			var pmsg string
			fl, pmsg = safe(func() engine.Fields {
				switch ev {
				case "Block":
					return s.addBlock(a[0].(int), a[1].([]int), a[2].(int))
				case "Stable":
					return s.setStable(a[0].(int))
				}
				return s.restart()
			})
			if pmsg != "" {
				fl = engine.Fields{"panic": pmsg}
			}
			if err := emit(ev, h, st, a, fl); err != nil {
				return err
			}
			if pmsg != "" || fl["err"] != "" {
				break
			}
		}
	}
	return nil
}

func safe(f func() engine.Fields) (fl engine.Fields, pmsg string) {
	defer func() {
		if r := recover(); r != nil {
			if he, ok := r.(engine.HarnessError); ok {
				panic(he)
			}
			pmsg = fmt.Sprintf("%v\n%s", r, debug.Stack())
			if len(pmsg) > 1500 {
				pmsg = pmsg[:1500]
			}
		}
	}()
	return f(), ""
}

func init() {
	engine.RegisterDriver("ranking-rand", driveRand)
}
