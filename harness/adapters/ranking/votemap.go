package ranking

import (
	"math/big"
	"math/rand"

	"github.com/LemoFoundationLtd/lemochain-core/common"
	"github.com/LemoFoundationLtd/lemochain-core/common/rlp"
	"github.com/LemoFoundationLtd/lemochain-core/store"

	"verifharness/engine"
)

// Vote maps (see RankingOps.tla): model vote value v |-> real total, strictly increasing, 0 |-> 0.

const freeMap = 100 // RankingOps!FreeMap

func pow2(n uint) *big.Int { return new(big.Int).Lsh(big.NewInt(1), n) }

// catalogue boundaries B of RankingOps!BoundLo: the first total of the next RLP length class
var bounds = []*big.Int{nil, pow2(7), pow2(8), pow2(16), pow2(24), pow2(32), pow2(64)}

// catalogueMap: m = 0: v |-> v; m = 1..6: maxv |-> B, 0 < v < maxv |-> B - (maxv - v).
func catalogueMap(m, maxv int) []*big.Int {
	if m < 0 || m >= len(bounds) {
		engine.Failf("vote map %d is not in the catalogue", m)
	}
	vals := []*big.Int{big.NewInt(0)}
	for v := 1; v <= maxv; v++ {
		if m == 0 {
			vals = append(vals, big.NewInt(int64(v)))
		} else {
			vals = append(vals, new(big.Int).Sub(bounds[m], big.NewInt(int64(maxv-v))))
		}
	}
	return vals
}

// pool of totals around every boundary at which the persisted record changes its length (and a few inside the classes)
var votePool = func() []*big.Int {
	var p []*big.Int
	add := func(x *big.Int, ds ...int64) {
		for _, d := range ds {
			p = append(p, new(big.Int).Add(x, big.NewInt(d)))
		}
	}
	add(big.NewInt(0), 1, 2, 3, 4, 5, 6, 7, 8)
	for _, e := range []uint{7, 8, 16, 24, 32, 40, 48, 56, 63, 64, 72, 128} {
		add(pow2(e), -2, -1, 0, 1)
	}
	return p
}()

// drawVoteMap: a "free" map for one behaviour - small totals, a window of neighbouring pool entries (so that model
// values next to each other sit on both sides of a length boundary) or a scattered increasing selection.
func drawVoteMap(rng *rand.Rand, maxv int) []*big.Int {
	if maxv > 8 {
		engine.Failf("free vote maps have at most 8 values, %d asked", maxv)
	}
	vals := []*big.Int{big.NewInt(0)}
	switch x := rng.Intn(8); {
	case x == 0: // small totals
		for v := 1; v <= maxv; v++ {
			vals = append(vals, big.NewInt(int64(v)))
		}
	case x <= 5: // window; the window starts inside the boundary neighbourhoods more often than not
		start := 8 + rng.Intn(len(votePool)-8-maxv+1)
		if rng.Intn(4) == 0 {
			start = rng.Intn(len(votePool) - maxv + 1)
		}
		for v := 0; v < maxv; v++ {
			vals = append(vals, votePool[start+v])
		}
	default: // scattered
		idx := rng.Perm(len(votePool))[:maxv]
		for i := range idx { // insertion sort
			for j := i; j > 0 && idx[j] < idx[j-1]; j-- {
				idx[j], idx[j-1] = idx[j-1], idx[j]
			}
		}
		for _, i := range idx {
			vals = append(vals, votePool[i])
		}
	}
	return vals
}

func (s *sys) setVoteMap(vm int, vals []*big.Int) {
	s.vm, s.vals, s.inv = vm, vals, map[string]int{}
	for i, v := range vals {
		if i > 0 && v.Cmp(vals[i-1]) <= 0 {
			engine.Failf("vote map is not strictly increasing: %v", vals)
		}
		s.inv[v.String()] = i
	}
	if len(vals) == 0 || vals[0].Sign() != 0 {
		engine.Failf("vote map must send 0 to 0: %v", vals)
	}
}

func (s *sys) real(v int) *big.Int {
	if v < 0 || v >= len(s.vals) {
		engine.Failf("vote value %d outside the vote map 0..%d", v, len(s.vals)-1)
	}
	return new(big.Int).Set(s.vals[v])
}

// logVoteMap: the map and, per value, the length of the candidate record the REAL encoder produces for that total.
func (s *sys) logVoteMap(fl engine.Fields) {
	strs, mag := []string{}, []int{}
	for _, v := range s.vals {
		strs = append(strs, v.String())
		buf, err := rlpCandidate(v)
		if err != nil {
			engine.Failf("encode candidate record for %s: %v", v, err)
		}
		mag = append(mag, len(buf))
	}
	fl["vm"], fl["maxv"], fl["vals"], fl["mag"] = s.vm, len(s.vals)-1, strs, mag
}

func rlpCandidate(total *big.Int) ([]byte, error) {
	return rlp.EncodeToBytes(&store.Candidate{Address: common.HexToAddress("0x01"), Total: total})
}
