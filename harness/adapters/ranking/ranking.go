// Package ranking binds spec/Ranking.tla (generator) and spec/TraceRanking.tla (validator) to the real code (C10).
//
// Store level (adapter "ranking", driver "ranking-rand"): a real store.ChainDatabase is driven through the real
// account.Manager exactly as the engine does it - GetAccount / SetCandidate / SetVotes / SetCandidateState on the
// parent's state, MergeChangeLogs, Finalise, SetBlock, Manager.Save (which puts the changed accounts into the block's
// account view and hands the merged VotesLogs to CandidatesRanking) - on forks, with SetStableBlock and
// Close + NewChainDataBase at arbitrary points.  After every step GetCandidatesTop(hash) of EVERY live block and the
// candidate accounts as read from that block's view are logged.  The adapter never judges.
//
// Vote magnitudes.  The vote values 0..maxv of the specification are abstract; the binding sends them through a
// strictly monotone VOTE MAP to real totals (votemap.go): the catalogue maps of RankingOps.tla (index 1..6: the top value
// is the first total of the next RLP length class at 2^7, 2^8, 2^16, 2^24, 2^32, 2^64, the other values are just below
// it) when the specification names one (state variable vm), else a "free" map drawn per behaviour from a pool of totals
// around every length boundary.  Everything the real code reports is translated back to the model value (-1 and the
// decimal string in `odd` when the real total is none of the values put in).  reset logs the map and the real length of
// the persisted candidate record for every value (the real RLP encoder); every event logs the slot layout of the
// persisted candidate file (coverage accounting only).
package ranking

import (
	"bytes"
	"fmt"
	"hash/crc32"
	"math/big"
	"math/rand"
	"os"
	"path/filepath"
	"sort"
	"strconv"
	"strings"
	"time"

	"github.com/LemoFoundationLtd/lemochain-core/chain/account"
	"github.com/LemoFoundationLtd/lemochain-core/chain/types"
	"github.com/LemoFoundationLtd/lemochain-core/common"
	"github.com/LemoFoundationLtd/lemochain-core/store"

	"verifharness/engine"
	"verifharness/tla"
)

func pad(s string) string { return s + strings.Repeat("0", 40-len(s)) }

// Address tables.  The all-candidates index and the account view are Patricia tries keyed by the hex string of the
// address, so shared prefixes decide which split / insert case a write hits.
var tables = map[string][]string{
	"flat": {pad("1a"), pad("2b"), pad("3c"), pad("4d"), pad("5e"), pad("6f"), pad("7a"), pad("8b")},
	"deep": {pad("ab1"), pad("ab1")[:39] + "1", pad("ab1")[:20] + "1" + strings.Repeat("0", 19), pad("ab3"), pad("ac"),
		pad("ab0"), pad("c"), pad("ab2")},
}

type sys struct {
	k       int
	table   string
	perm    []int // candidate c (1-based) uses tables[table][perm[c-1]]
	addrs   []common.Address
	rk      []int
	dir     string
	seq     int
	db      *store.ChainDatabase
	blocks  map[int]*types.Block // live blocks by id (ids are reused: smallest free one); 0 = the initial stable block
	ids     map[common.Hash]int
	nblocks int
	// vote map of the current behaviour: model value v <-> real total vals[v] (strictly increasing, vals[0] = 0)
	vm   int
	vals []*big.Int
	inv  map[string]int
	odd  []string // real totals seen in this step that are none of vals
}

func envInt(name string, dflt int) int {
	if v := os.Getenv(name); v != "" {
		n, err := strconv.Atoi(v)
		if err != nil {
			engine.Failf("%s=%q: %v", name, v, err)
		}
		return n
	}
	return dflt
}

// quiesce waits until the asynchronous writer of the store has drained (see adapters/forkview): Close() with queued
// writes leaves the writer goroutine blocked for ever; crash behaviour is C08's subject.
func (s *sys) quiesce() {
	q := s.db.Beansdb.Queue
	for i := 0; ; i++ {
		q.IndexRW.RLock()
		n := len(q.Index)
		q.IndexRW.RUnlock()
		if n == 0 && len(q.SyncFileDB.WriteChan) == 0 && len(q.DoneChan) == 0 {
			return
		}
		if i > 200000 {
			engine.Failf("store write queue did not drain (%d items)", n)
		}
		time.Sleep(50 * time.Microsecond)
	}
}

func (s *sys) closeDB() {
	if s.db != nil {
		s.quiesce()
		s.db.Close()
		s.db = nil
	}
}

func (s *sys) rmDirs() {
	if s.dir != "" {
		os.RemoveAll(s.dir[:len(s.dir)-1] + "0")
		os.RemoveAll(s.dir[:len(s.dir)-1] + "1")
	}
}

func errStr(err error) string {
	if err == nil {
		return ""
	}
	return err.Error()
}

// reset: a fresh database whose block 0 (no candidates) is stable; the node has NOT restarted since.
func (s *sys) reset(nc int, vm int, vals []*big.Int) engine.Fields {
	s.closeDB()
	s.setVoteMap(vm, vals)
	base := os.Getenv("VERIF_SCRATCH_DIR")
	if base == "" {
		base = filepath.Join(os.TempDir(), "ranking")
	}
	s.seq++
	s.dir = filepath.Join(base, fmt.Sprintf("rk.%d.%d", os.Getpid(), s.seq%2))
	if err := os.RemoveAll(s.dir); err != nil {
		engine.Failf("rm %s: %v", s.dir, err)
	}
	tab, ok := tables[s.table]
	if !ok || nc > len(tab) {
		engine.Failf("address table %q has no %d addresses", s.table, nc)
	}
	if len(s.perm) < nc {
		s.perm = nil
		for i := 0; i < len(tab); i++ {
			s.perm = append(s.perm, i)
		}
	}
	s.addrs = s.addrs[:0]
	hexes := []string{}
	for c := 0; c < nc; c++ {
		s.addrs = append(s.addrs, common.HexToAddress("0x"+tab[s.perm[c]]))
		hexes = append(hexes, "0x"+tab[s.perm[c]])
	}
	// rk[c] = 1 + number of candidates with a smaller address (byte order, as VoteTop.ranking compares)
	s.rk = make([]int, nc)
	for i := range s.addrs {
		s.rk[i] = 1
		for j := range s.addrs {
			if bytes.Compare(s.addrs[j][:], s.addrs[i][:]) < 0 {
				s.rk[i]++
			}
		}
	}
	store.VerifSetMaxCandidates(s.k)
	s.db = store.NewChainDataBase(s.dir)
	g := &types.Block{Header: &types.Header{Height: 0, Extra: "b0"}}
	s.blocks = map[int]*types.Block{0: g}
	s.ids = map[common.Hash]int{g.Hash(): 0}
	s.nblocks = 0
	if err := s.db.SetBlock(g.Hash(), g); err != nil {
		engine.Failf("genesis SetBlock: %v", err)
	}
	if _, err := s.db.SetStableBlock(g.Hash()); err != nil {
		engine.Failf("genesis SetStableBlock: %v", err)
	}
	fl := engine.Fields{"nc": nc, "k": s.k, "rk": s.rk, "addrs": hexes, "err": ""}
	s.logVoteMap(fl)
	s.observe(fl)
	return fl
}

func (s *sys) idOf(h common.Hash) int {
	if id, ok := s.ids[h]; ok {
		return id
	}
	return -1
}

func (s *sys) candOf(a common.Address) int {
	for i, x := range s.addrs {
		if x == a {
			return i + 1
		}
	}
	return 0
}

// votesIdx translates a real total back to the model value of the behaviour's vote map.
func (s *sys) votesIdx(v *big.Int) int {
	if v == nil {
		return 0
	}
	if i, ok := s.inv[v.String()]; ok {
		return i
	}
	s.odd = append(s.odd, v.String())
	return -1
}

func votesInt(v *big.Int) int {
	if v == nil {
		return 0
	}
	if !v.IsInt64() || v.Int64() > 1<<30 || v.Int64() < -(1<<30) {
		return -999999
	}
	return int(v.Int64())
}

func regCode(p types.Profile) int {
	switch v, ok := p[types.CandidateKeyIsCandidate]; {
	case !ok || v == "":
		return 0
	case v == types.IsCandidateNode:
		return 1
	case v == types.NotCandidateNode:
		return 2
	}
	return -1
}

// probeAcc reads candidate a through the block's account view WITHOUT the cache insertion of AccountTrieDB.Get:
// trie Find, else the persisted account.  Returns [r, v].
func (s *sys) probeAcc(v *store.AccountTrieDB, a common.Address) []int {
	var acc *types.AccountData
	if d := v.GetTrie().Find(a.Hex()); d != nil {
		x, ok := d.(*types.AccountData)
		if !ok || x == nil {
			return []int{-2, 0}
		}
		acc = x
	} else {
		x, err := s.db.GetAccount(a)
		if err == store.ErrAccountNotExist || x == nil {
			return []int{0, 0}
		}
		if err != nil {
			return []int{-3, 0}
		}
		acc = x
	}
	if acc.Address != a {
		return []int{-4, 0}
	}
	return []int{regCode(acc.Candidate.Profile), s.votesIdx(acc.Candidate.Votes)}
}

func (s *sys) topOf(h common.Hash) [][]int {
	top := [][]int{}
	for _, c := range s.db.GetCandidatesTop(h) {
		top = append(top, []int{s.candOf(c.Address), s.votesIdx(c.Total)})
	}
	return top
}

// slots: the layout of the persisted candidate file as the running process holds it (store.RunContext): one
// [candidate, record length] pair per slot in slot order.  Logged for coverage accounting only (checks/c10.py); the
// trace specification does not look at it.
func (s *sys) slots() [][]int {
	cc := s.db.Context.Candidates
	type slot struct{ pos, cand, n int }
	var all []slot
	for a, p := range cc.Candidates {
		all = append(all, slot{int(p.Pos), s.candOf(a), int(p.Len)})
	}
	sort.Slice(all, func(i, j int) bool { return all[i].pos < all[j].pos })
	out := [][]int{}
	for _, x := range all {
		out = append(out, []int{x.cand, x.n})
	}
	return out
}

func (s *sys) observe(fl engine.Fields) {
	live := []int{}
	s.db.IterateUnConfirms(func(b *types.Block) { live = append(live, s.idOf(b.Hash())) })
	stable := -1
	if lb, err := s.db.LoadLatestBlock(); err == nil && lb != nil {
		stable = s.idOf(lb.Hash())
		live = append(live, stable)
	}
	sort.Ints(live)
	fl["live"] = live
	fl["stable"] = stable
	obs := []map[string]interface{}{}
	for _, id := range live {
		if id < 0 {
			continue
		}
		h := s.blocks[id].Hash()
		acc := [][]int{}
		v, err := s.db.GetActDatabase(h)
		for _, a := range s.addrs {
			if err != nil || v == nil {
				acc = append(acc, []int{-5, 0})
			} else {
				acc = append(acc, s.probeAcc(v, a))
			}
		}
		obs = append(obs, map[string]interface{}{"b": id, "top": s.topOf(h), "acc": acc})
	}
	fl["obs"] = obs
	fl["slots"] = s.slots()
	if len(s.odd) > 0 {
		fl["odd"] = s.odd
		s.odd = nil
	}
}

func (s *sys) block(id int) *types.Block {
	b, ok := s.blocks[id]
	if !ok {
		engine.Failf("unknown block id %d", id)
	}
	return b
}

func profile(c int) types.Profile {
	return types.Profile{
		types.CandidateKeyIsCandidate:   types.IsCandidateNode,
		types.CandidateKeyHost:          "127.0.0.1",
		types.CandidateKeyPort:          fmt.Sprintf("%d", 7000+c),
		types.CandidateKeyDepositAmount: "5000000",
	}
}

// addBlock: one block on parent p.  nv[c-1] = votes of candidate c after the block (0 = not registered / unregister
// now), t = candidate whose account is touched without a vote change (0 = none).  The operations are chosen from
// the account as the REAL manager presents it on the parent's state.
func (s *sys) addBlock(p int, nv []int, t int) engine.Fields {
	pb := s.block(p)
	if len(nv) != len(s.addrs) {
		engine.Failf("nv has %d entries for %d candidates", len(nv), len(s.addrs))
	}
	// the new block takes the smallest id that no block the REAL store still holds uses
	used := map[int]bool{}
	s.db.IterateUnConfirms(func(b *types.Block) { used[s.idOf(b.Hash())] = true })
	if lb, err := s.db.LoadLatestBlock(); err == nil && lb != nil {
		used[s.idOf(lb.Hash())] = true
	}
	id := 0
	for used[id] {
		id++
	}
	if old, ok := s.blocks[id]; ok {
		delete(s.ids, old.Hash())
	}
	s.nblocks++
	am := account.NewManager(pb.Hash(), s.db)
	ops := []string{}
	for i, a := range s.addrs {
		c := i + 1
		if nv[i] < 0 || nv[i] >= len(s.vals) {
			engine.Failf("generator asks for vote value %d, the vote map has 0..%d", nv[i], len(s.vals)-1)
		}
		acc := am.GetAccount(a)
		r := regCode(acc.GetCandidate())
		cur := s.votesIdx(acc.GetVotes())
		switch {
		case c == t && r == 0:
			// registers and unregisters inside one block: the merged logs carry no VotesLog at all
			acc.SetCandidate(profile(c))
			acc.SetVotes(s.real(1))
			acc.SetCandidateState(types.CandidateKeyIsCandidate, types.NotCandidateNode)
			acc.SetVotes(big.NewInt(0))
			ops = append(ops, fmt.Sprintf("regunreg(%d)", c))
		case c == t && r == 1:
			acc.SetCandidateState(types.CandidateKeyHost, fmt.Sprintf("host-%d", s.nblocks))
			ops = append(ops, fmt.Sprintf("profile(%d)", c))
		case c == t:
			acc.SetBalance(new(big.Int).Add(acc.GetBalance(), big.NewInt(int64(s.nblocks))))
			ops = append(ops, fmt.Sprintf("balance(%d)", c))
		case r == 0 && nv[i] > 0:
			acc.SetCandidate(profile(c))
			acc.SetVotes(s.real(nv[i]))
			ops = append(ops, fmt.Sprintf("register(%d,%s)", c, s.real(nv[i])))
		case r == 1 && nv[i] == 0:
			// candidate_vote_tx.go unRegisterCandidate
			acc.SetCandidateState(types.CandidateKeyIsCandidate, types.NotCandidateNode)
			acc.SetVotes(big.NewInt(0))
			ops = append(ops, fmt.Sprintf("unregister(%d)", c))
		case r == 1 && nv[i] != cur:
			acc.SetVotes(s.real(nv[i]))
			ops = append(ops, fmt.Sprintf("votes(%d,%s)", c, s.real(nv[i])))
		case r == 2 && nv[i] != 0:
			engine.Failf("generator asks for votes %d of unregistered candidate %d", nv[i], c)
		}
	}
	am.MergeChangeLogs()
	if err := am.Finalise(); err != nil {
		engine.Failf("Finalise: %v", err)
	}
	b := &types.Block{Header: &types.Header{ParentHash: pb.Hash(), Height: pb.Height() + 1, VersionRoot: am.GetVersionRoot(),
		Time: uint32(s.nblocks), Extra: fmt.Sprintf("b%d.%d", id, s.nblocks)}}
	s.blocks[id] = b
	s.ids[b.Hash()] = id
	err := s.db.SetBlock(b.Hash(), b)
	if err == nil {
		err = am.Save(b.Hash())
	}
	fl := engine.Fields{"id": id, "ops": ops, "err": errStr(err)}
	s.observe(fl)
	return fl
}

func (s *sys) setStable(b int) engine.Fields {
	_, err := s.db.SetStableBlock(s.block(b).Hash())
	fl := engine.Fields{"err": errStr(err)}
	s.observe(fl)
	return fl
}

func (s *sys) restart() engine.Fields {
	s.closeDB()
	s.db = store.NewChainDataBase(s.dir)
	fl := engine.Fields{"err": ""}
	s.observe(fl)
	return fl
}

// ---------------------------------------------------------------- replay adapter
type adapter struct {
	s   sys
	rng *rand.Rand
}

func (a *adapter) Reset(init map[string]tla.Value) (engine.Fields, error) {
	st, ok := init["st"]
	if !ok {
		return nil, fmt.Errorf("initial state has no st")
	}
	s0, ok := st.Get(tla.Int(0))
	if !ok {
		return nil, fmt.Errorf("initial state has no block 0")
	}
	a.s.k = envInt("VERIF_RANKING_K", 2)
	if a.s.table == "" {
		a.s.table = os.Getenv("VERIF_RANKING_TABLE")
		if a.s.table == "" {
			a.s.table = "flat"
		}
	}
	// the vote map: the catalogue map the specification names, else (FreeMap) one drawn for this behaviour
	vm := freeMap
	if v, ok := init["vm"]; ok {
		vm = v.I()
	}
	maxv := envInt("VERIF_RANKING_MAXV", 2)
	var vals []*big.Int
	if vm == freeMap {
		if a.rng == nil {
			a.rng = rand.New(rand.NewSource(int64(envInt("VERIF_SEED", 1))*7919 + int64(crc32.ChecksumIEEE([]byte(filepath.Base(os.Getenv("VERIF_SCRATCH_DIR")))))))
		}
		vals = drawVoteMap(a.rng, maxv)
	} else {
		vals = catalogueMap(vm, maxv)
	}
	return a.s.reset(s0.Len(), vm, vals), nil
}

func (a *adapter) Apply(st engine.Step) (engine.Fields, error) {
	arg := st.Act.Args
	switch st.Act.Name {
	case "Block":
		return a.s.addBlock(arg[0].I(), arg[1].Ints(), arg[2].I()), nil
	case "Stable":
		return a.s.setStable(arg[0].I()), nil
	case "Restart":
		return a.s.restart(), nil
	}
	return nil, fmt.Errorf("unknown action %s", st.Act.Name)
}

func (a *adapter) Close() {
	a.s.closeDB()
	a.s.rmDirs()
}

func init() {
	engine.Register("ranking", func() engine.Adapter { return &adapter{} })
}
