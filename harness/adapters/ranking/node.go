package ranking

import (
	"bufio"
	"bytes"
	"crypto/ecdsa"
	"encoding/json"
	"flag"
	"fmt"
	"math/big"
	"math/rand"
	"os"
	"path/filepath"
	"runtime/debug"
	"strconv"

	"github.com/LemoFoundationLtd/lemochain-core/chain/account"
	"github.com/LemoFoundationLtd/lemochain-core/chain/deputynode"
	"github.com/LemoFoundationLtd/lemochain-core/chain/params"
	"github.com/LemoFoundationLtd/lemochain-core/chain/types"
	"github.com/LemoFoundationLtd/lemochain-core/common"
	"github.com/LemoFoundationLtd/lemochain-core/common/crypto"
	"github.com/LemoFoundationLtd/lemochain-core/store"

	"verifharness/engine"
	"verifharness/node"
)

// Engine level (driver "ranking-node").  Real nodes (verifharness/node) with params.TermDuration = 4,
// InterimDuration = 1, 3 genesis deputies, list size 4 and 4 further candidate accounts.  A builder node assembles
// valid blocks from real signed register / unregister / vote / transfer transactions with the real BlockAssembler
// (heights 1..5, height 4 is the term snapshot block, a fork at height 3); every main-chain block is handed with the
// confirms of all deputies to a second node (DPoVP.InsertBlock), which stabilises it at once - for the snapshot block
// this is where the new term is loaded (deputynode.NewTermRecord) - and which is finally closed and reopened.
// Logged per block: the candidate accounts as account.NewManager(hash) presents them, GetCandidatesTop(hash) on both
// nodes, the candidates touched by the block's change logs, block.DeputyNodes, whether stabilisation panicked, and the
// term the second node serves for the next term before and after its restart.  The driver never judges.
// Every scenario has a SCALE (1, 33, 65 or 16385) by which all funding, deposit and transfer amounts are multiplied, so
// that the totals of the candidates move across 2^7, 2^8 and 2^16 between consecutive stable blocks (the persisted
// candidate record changes its length there; 2^24 votes and more would need more LEMO than exist).  The scales are
// 1 modulo 4: all amounts are multiples of 50 LEMO, so every balance keeps its remainder modulo the 200 LEMO a vote
// costs and a fee moves a voter across a vote boundary exactly where it does at scale 1 (the tally defect of re-votes
// after such a move is C11's finding Dev_VoteUsesPreTxBalance, not C10's subject).  For the same reason no balance is
// ever a multiple of 200 LEMO: voters hold 250 + 200i, candidates' accounts 550 + 100i minus a deposit of 100j (times the
// scale), transfers are multiples of 200 - so the fee of a vote transaction never costs the voter a vote.

const (
	nodeDeputies = 3
	nodeExtra    = 4
	nodeVoters   = 3
	nodeK        = 4
)

type who struct {
	name string
	key  *ecdsa.PrivateKey
	addr common.Address
}

func myKey(tag byte, i int) *ecdsa.PrivateKey {
	b := make([]byte, 32)
	b[0], b[1], b[31] = 0x22, tag, byte(i+1)
	k, err := crypto.ToECDSA(b)
	if err != nil {
		panic(err)
	}
	return k
}

var lemoUnit = new(big.Int).Exp(big.NewInt(10), big.NewInt(18), nil)

func lemos(n int64) *big.Int { return new(big.Int).Mul(big.NewInt(n), lemoUnit) }

type nodeSys struct {
	w       *node.World
	base    string
	seq     int
	cands   []common.Address // universe: 3 genesis deputies (miner addresses), then the extra candidates
	extra   []*who
	voters  []*who
	founder *who
	rk      []int
	builder *node.Node
	nut     *node.Node
	blocks  map[int]*types.Block
	ntx     int
	scale   int64 // amounts of this scenario are multiplied by it
}

func (s *nodeSys) candOf(a common.Address) int {
	for i, x := range s.cands {
		if x == a {
			return i + 1
		}
	}
	return 0
}

func (s *nodeSys) tx(from *who, to *common.Address, amount *big.Int, typ uint16, data []byte, gas uint64) *types.Transaction {
	exp := uint64(node.GenesisTime) + 1000
	s.ntx++
	msg := fmt.Sprintf("n%d", s.ntx) // every transaction is unique (the tx guard rejects a block repeating one)
	var tx *types.Transaction
	if to == nil {
		tx = types.NoReceiverTransaction(from.addr, amount, gas, big.NewInt(1), data, typ, node.ChainID, exp, "", msg)
	} else {
		tx = types.NewTransaction(from.addr, *to, amount, gas, big.NewInt(1), data, typ, node.ChainID, exp, "", msg)
	}
	signed, err := types.MakeSigner().SignTx(tx, from.key)
	if err != nil {
		engine.Failf("sign: %v", err)
	}
	return signed
}

func (s *nodeSys) profile(c *who, isCand bool) []byte {
	p := map[string]string{
		types.CandidateKeyIsCandidate:   strconv.FormatBool(isCand),
		types.CandidateKeyNodeID:        common.ToHex(crypto.PrivateKeyToNodeID(c.key))[2:],
		types.CandidateKeyHost:          "127.0.0.1",
		types.CandidateKeyPort:          "7100",
		types.CandidateKeyIncomeAddress: c.addr.String(),
	}
	b, _ := json.Marshal(p)
	return b
}

// accounts of the candidate universe as a FRESH account manager on block h presents them: [r, v] per candidate
func (s *nodeSys) accView(n *node.Node, h common.Hash) [][]int {
	am := account.NewManager(h, n.DB)
	out := [][]int{}
	for _, a := range s.cands {
		acc := am.GetAccount(a)
		out = append(out, []int{regCode(acc.GetCandidate()), votesInt(acc.GetVotes())})
	}
	return out
}

func (s *nodeSys) topView(n *node.Node, h common.Hash) [][]int {
	top := [][]int{}
	for _, c := range n.DB.GetCandidatesTop(h) {
		top = append(top, []int{s.candOf(c.Address), votesInt(c.Total)})
	}
	return top
}

func (s *nodeSys) deputies(dn types.DeputyNodes) [][]int {
	out := [][]int{}
	for _, d := range dn {
		out = append(out, []int{s.candOf(d.MinerAddress), int(d.Rank), votesInt(d.Votes)})
	}
	return out
}

func catch(f func()) (msg string) {
	defer func() {
		if r := recover(); r != nil {
			if he, ok := r.(engine.HarnessError); ok {
				panic(he)
			}
			msg = fmt.Sprintf("%v", r)
			st := string(debug.Stack())
			if i := bytes.Index([]byte(st), []byte("lemochain-core/chain/deputynode.NewTermRecord")); i >= 0 {
				msg += " @deputynode.NewTermRecord"
			}
			if len(msg) > 300 {
				msg = msg[:300]
			}
		}
	}()
	f()
	return ""
}

func (s *nodeSys) setup() {
	params.TermDuration = 4
	params.InterimDuration = 1
	params.MinCandidateDeposit = lemos(100)
	store.VerifSetMaxCandidates(nodeK)
	s.w = node.NewWorld(nodeDeputies, 1000)
	deputynode.SetSelfNodeKey(s.w.Outsider2())
	s.base = os.Getenv("VERIF_SCRATCH_DIR")
	if s.base == "" {
		s.base = filepath.Join(os.TempDir(), fmt.Sprintf("verif-ranking-node-%d", os.Getpid()))
	}
	s.founder = &who{"F", s.w.FounderKey, s.w.Founder}
	s.cands = append(s.cands, s.w.Miners...)
	for i := 0; i < nodeExtra; i++ {
		k := myKey(0xc0, i)
		c := &who{fmt.Sprintf("c%d", nodeDeputies+i+1), k, crypto.PubkeyToAddress(k.PublicKey)}
		s.extra = append(s.extra, c)
		s.cands = append(s.cands, c.addr)
	}
	for i := 0; i < nodeVoters; i++ {
		k := myKey(0xb0, i)
		s.voters = append(s.voters, &who{fmt.Sprintf("v%d", i+1), k, crypto.PubkeyToAddress(k.PublicKey)})
	}
	s.rk = make([]int, len(s.cands))
	for i := range s.cands {
		s.rk[i] = 1
		for j := range s.cands {
			if bytes.Compare(s.cands[j][:], s.cands[i][:]) < 0 {
				s.rk[i]++
			}
		}
	}
}

// randomTxs: a seeded mix of valid-looking transactions; reg[i] tells whether extra candidate i has registered /
// unregistered in an earlier block or earlier in this list (the processor discards what is invalid anyway).
// An account never both moves balance and votes inside one block: that pattern makes the real vote tally count the
// moved balance twice (votes can even go negative and the block then fails to encode) - C11's subject, not C10's.
func (s *nodeSys) randomTxs(rng *rand.Rand, n int, reg []int, desc *[]string) types.Transactions {
	var txs types.Transactions
	moved, voted := map[*who]bool{}, map[*who]bool{}
	for i := 0; i < n; i++ {
		switch x := rng.Intn(100); {
		case x < 30: // register an extra candidate (deposit 100..400 LEMO = 1..4 votes)
			j := rng.Intn(nodeExtra)
			if reg[j] != 0 || voted[s.extra[j]] {
				continue
			}
			moved[s.extra[j]] = true
			dep := int64(100*(1+rng.Intn(4))) * s.scale
			txs = append(txs, s.tx(s.extra[j], nil, lemos(dep), params.RegisterTx, s.profile(s.extra[j], true), 200000))
			reg[j] = 1
			*desc = append(*desc, fmt.Sprintf("reg(%s,%d)", s.extra[j].name, dep))
		case x < 40: // unregister
			j := rng.Intn(nodeExtra)
			if reg[j] != 1 {
				continue
			}
			txs = append(txs, s.tx(s.extra[j], nil, big.NewInt(0), params.RegisterTx, s.profile(s.extra[j], false), 200000))
			reg[j] = 2
			*desc = append(*desc, fmt.Sprintf("unreg(%s)", s.extra[j].name))
		case x < 80: // a voter (or an extra candidate account) votes for a candidate
			voter := s.voters[rng.Intn(nodeVoters)]
			if rng.Intn(4) == 0 {
				voter = s.extra[rng.Intn(nodeExtra)]
			}
			c := rng.Intn(len(s.cands))
			if c >= nodeDeputies && reg[c-nodeDeputies] != 1 {
				continue
			}
			if moved[voter] {
				continue
			}
			voted[voter] = true
			to := s.cands[c]
			txs = append(txs, s.tx(voter, &to, big.NewInt(0), params.VoteTx, nil, 100000))
			*desc = append(*desc, fmt.Sprintf("vote(%s,c%d)", voter.name, c+1))
		default: // a transfer between voters: balances, hence votes, move
			a, b := s.voters[rng.Intn(nodeVoters)], s.voters[rng.Intn(nodeVoters)]
			if a == b || voted[a] || voted[b] {
				continue
			}
			moved[a], moved[b] = true, true
			amt := int64(200*(1+rng.Intn(2))) * s.scale
			txs = append(txs, s.tx(a, &b.addr, lemos(amt), params.OrdinaryTx, nil, 30000))
			*desc = append(*desc, fmt.Sprintf("xfer(%s,%s,%d)", a.name, b.name, amt))
		}
	}
	return txs
}

func (s *nodeSys) touched(b *types.Block) []int {
	seen := map[int]bool{}
	out := []int{}
	for _, l := range b.ChangeLogs {
		if c := s.candOf(l.Address); c != 0 && !seen[c] {
			seen[c] = true
			out = append(out, c)
		}
	}
	return out
}

func driveNode(args []string) error {
	fs := flag.NewFlagSet("ranking-node", flag.ContinueOnError)
	out := fs.String("out", "trace.ndjson", "")
	seed := fs.Int64("seed", 1, "")
	hist := fs.Int("n", 20, "scenarios")
	snapTx := fs.Int("snaptx", 50, "percent of scenarios with transactions inside the snapshot block")
	if err := fs.Parse(args); err != nil {
		return err
	}
	f, err := os.Create(*out)
	if err != nil {
		return err
	}
	defer f.Close()
	wr := bufio.NewWriterSize(f, 1<<20)
	defer wr.Flush()
	enc := json.NewEncoder(wr)
	rng := rand.New(rand.NewSource(*seed))
	s := &nodeSys{}
	s.setup()
	defer os.RemoveAll(s.base)
	emit := func(ev string, beh, step int, fl engine.Fields) error {
		fl["ev"], fl["beh"], fl["step"] = ev, beh, step
		return enc.Encode(fl)
	}
	for h := 0; h < *hist; h++ {
		s.seq++
		s.builder = s.w.NewNode(filepath.Join(s.base, fmt.Sprintf("b%d", s.seq)))
		s.nut = s.w.NewNode(filepath.Join(s.base, fmt.Sprintf("n%d", s.seq)))
		g := s.builder.Genesis
		s.blocks = map[int]*types.Block{0: g}
		step := 0
		s.scale = []int64{1, 33, 65, 16385}[rng.Intn(4)]
		fl := engine.Fields{"nc": len(s.cands), "k": nodeK, "nd": nodeDeputies, "rk": s.rk, "term": int(params.TermDuration), "scale": s.scale,
			"acc": s.accView(s.builder, g.Hash()), "top": s.topView(s.builder, g.Hash()), "nut_top": s.topView(s.nut, g.Hash()), "err": ""}
		if err := emit("reset", h, step, fl); err != nil {
			return err
		}
		reg := make([]int, nodeExtra)
		crashed := false
		// plan: ids 1..5 = main chain heights 1..5, id 6 = a sibling of block 3 (built after it, never fed to the second node)
		type plan struct{ id, parent, height int }
		for _, p := range []plan{{1, 0, 1}, {2, 1, 2}, {3, 2, 3}, {6, 2, 3}, {4, 3, 4}, {5, 4, 5}} {
			if crashed {
				break
			}
			desc := []string{}
			var txs types.Transactions
			switch {
			case p.height == 1: // funding
				for _, c := range s.extra {
					a := c.addr
					txs = append(txs, s.tx(s.founder, &a, lemos(int64(550+100*rng.Intn(6))*s.scale), params.OrdinaryTx, nil, 30000))
				}
				for _, v := range s.voters {
					a := v.addr
					txs = append(txs, s.tx(s.founder, &a, lemos(int64(250+200*rng.Intn(5))*s.scale), params.OrdinaryTx, nil, 30000))
				}
				desc = append(desc, "fund")
			case p.id == 6:
				r2 := append([]int(nil), reg...)
				txs = s.randomTxs(rng, 1+rng.Intn(4), r2, &desc)
			case p.height == 4:
				if rng.Intn(100) < *snapTx {
					txs = s.randomTxs(rng, 1+rng.Intn(3), reg, &desc)
				}
			case p.height == 5:
			default:
				txs = s.randomTxs(rng, 2+rng.Intn(5), reg, &desc)
			}
			parent := s.blocks[p.parent]
			miner := (p.height - 1) % nodeDeputies
			blk, invalid, err := s.builder.Build(parent, miner, 0, txs, fmt.Sprintf("b%d", p.id))
			if err != nil {
				engine.Realf("scenario %d: build block %d: %v", h, p.id, err)
			}
			s.blocks[p.id] = blk
			step++
			fl := engine.Fields{"a": []int{p.parent, p.id}, "id": p.id, "h": p.height, "snap": deputynode.IsSnapshotBlock(uint32(p.height)),
				"txs": desc, "ntx": len(blk.Txs), "ninvalid": len(invalid),
				"acc": s.accView(s.builder, blk.Hash()), "top": s.topView(s.builder, blk.Hash()), "touched": s.touched(blk),
				"dn": s.deputies(blk.DeputyNodes), "fed": p.id != 6, "err": "", "crash": "", "nut_err": "", "nut_top": [][]int{}, "nut_stable": -1}
			if p.id != 6 {
				var confirms []types.SignData
				for i := 0; i < nodeDeputies; i++ {
					if i != miner {
						confirms = append(confirms, node.Sign(blk.Hash(), s.w.Keys[i], 0))
					}
				}
				var ierr error
				fl["crash"] = catch(func() { _, ierr = s.nut.DP.InsertBlock(node.Copy(blk, confirms)) })
				if ierr != nil {
					if !deputynode.IsSnapshotBlock(uint32(p.height)) {
						// nothing C10 speaks about: a block the real assembler built from unique, valid transactions
						engine.Realf("scenario %d: the second node rejects block %d (%v): %v", h, p.id, desc, ierr)
					}
					fl["nut_err"] = ierr.Error()
					crashed = true // the second node does not hold this block: the scenario ends here
				}
				if fl["crash"] == "" {
					if sb := s.nut.DP.StableBlock(); sb != nil {
						for id, b := range s.blocks {
							if b.Hash() == sb.Hash() {
								fl["nut_stable"] = id
							}
						}
						if sb.Hash() == blk.Hash() {
							fl["nut_top"] = s.topView(s.nut, blk.Hash())
						}
					}
				} else {
					crashed = true
					// a node that died here: what does a reopen do?
					dir := s.nut.Dir
					fl["crash_reopen"] = catch(func() {
						s.nut.Close()
						s.nut = s.w.NewNode(dir)
					})
				}
			}
			if err := emit("NBlock", h, step, fl); err != nil {
				return err
			}
		}
		if !crashed {
			// the term the second node serves from height 6 on, before and after a restart; and its list
			step++
			before := s.deputies(s.nut.DM.GetDeputiesByHeight(params.TermDuration+params.InterimDuration+1, true))
			topBefore := s.topView(s.nut, s.nut.DP.StableBlock().Hash())
			dir := s.nut.Dir
			fl := engine.Fields{"term_before": before, "top_before": topBefore, "err": "", "term_after": [][]int{}, "top_after": [][]int{}, "stable": -1}
			fl["crash"] = catch(func() {
				q := &sys{db: s.nut.DB}
				q.quiesce()
				s.nut.Close()
				s.nut = s.w.NewNode(dir)
			})
			if fl["crash"] == "" {
				sb := s.nut.DP.StableBlock()
				for id, b := range s.blocks {
					if b.Hash() == sb.Hash() {
						fl["stable"] = id
					}
				}
				fl["term_after"] = s.deputies(s.nut.DM.GetDeputiesByHeight(params.TermDuration+params.InterimDuration+1, true))
				fl["top_after"] = s.topView(s.nut, sb.Hash())
			}
			if err := emit("NRestart", h, step, fl); err != nil {
				return err
			}
		}
		if s.nut.DB != nil {
			q := &sys{db: s.nut.DB}
			q.quiesce()
		}
		s.nut.Destroy()
		q := &sys{db: s.builder.DB}
		q.quiesce()
		s.builder.Destroy()
	}
	return nil
}

func init() {
	engine.RegisterDriver("ranking-node", driveNode)
}
