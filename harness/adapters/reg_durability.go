package adapters

import _ "verifharness/adapters/durability"
