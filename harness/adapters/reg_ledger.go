package adapters

import _ "verifharness/adapters/ledger"
