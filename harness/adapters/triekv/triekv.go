// Package triekv binds spec/TrieKV.tla (generator) and spec/TraceTrieKV.tla (validator) to the real
// store/trie.Trie / SecureTrie over store.TrieDatabase over the BeansDB-backed chain database (C17).
//
// Every spec action is one call of the real API on one of the trie HANDLES (Go objects) of the behaviour:
// the trie it starts with, copies (SecureTrie.Copy / struct copy of a Trie), tries opened from the same or an
// older committed root through the same TrieDatabase.  After every step the adapter logs what the real code
// exposes for EVERY live handle ("obs") and for a snapshot - a copy of the handle operated on, taken just
// before the call ("pre") -, each observed through an independent copy of the trie object (node graphs are
// persistent, so the copy shares the nodes but hashing / loading in the copy does not rewrite the trie under
// test): the root hash, TryGet of every key, the node paths enumerated by NodeIterator.  The adapter never
// compares anything with the spec state.
package triekv

import (
	"encoding/hex"
	"fmt"
	"os"
	"path/filepath"
	"sort"
	"strings"
	"time"

	"github.com/LemoFoundationLtd/lemochain-core/common"
	"github.com/LemoFoundationLtd/lemochain-core/common/crypto"
	"github.com/LemoFoundationLtd/lemochain-core/store"
	"github.com/LemoFoundationLtd/lemochain-core/store/trie"

	"verifharness/engine"
	"verifharness/tla"
)

// ---------------------------------------------------------------- the two kinds of trie

type handle interface {
	update(k, v []byte) error
	remove(k []byte) error
	get(k []byte) ([]byte, error)
	hash() common.Hash
	commit() (common.Hash, error)
	observer() handle
	iter() trie.NodeIterator
}

type plain struct{ t *trie.Trie }

func (p plain) update(k, v []byte) error     { return p.t.TryUpdate(k, v) }
func (p plain) remove(k []byte) error        { return p.t.TryDelete(k) }
func (p plain) get(k []byte) ([]byte, error) { return p.t.TryGet(k) }
func (p plain) hash() common.Hash            { return p.t.Hash() }
func (p plain) commit() (common.Hash, error) { return p.t.Commit(nil) }
func (p plain) observer() handle             { c := *p.t; return plain{&c} }
func (p plain) iter() trie.NodeIterator      { return p.t.NodeIterator(nil) }

type secure struct{ t *trie.SecureTrie }

func (p secure) update(k, v []byte) error     { return p.t.TryUpdate(k, v) }
func (p secure) remove(k []byte) error        { return p.t.TryDelete(k) }
func (p secure) get(k []byte) ([]byte, error) { return p.t.TryGet(k) }
func (p secure) hash() common.Hash            { return p.t.Hash() }
func (p secure) commit() (common.Hash, error) { return p.t.Commit(nil) }
func (p secure) observer() handle             { return secure{p.t.Copy()} }
func (p secure) iter() trie.NodeIterator      { return p.t.NodeIterator(nil) }

func open(kind string, root common.Hash, db *store.TrieDatabase, lim int) (handle, error) {
	if kind == "secure" {
		t, err := trie.NewSecure(root, db, uint16(lim))
		if err != nil {
			return nil, err
		}
		return secure{t}, nil
	}
	t, err := trie.New(root, db)
	if err != nil {
		return nil, err
	}
	t.SetCacheLimit(uint16(lim))
	return plain{t}, nil
}

// ---------------------------------------------------------------- universe

var keyIDs = []string{"k0", "k1", "k2", "k3", "k4", "k5", "k6"}

// plain keys: shared nibble prefixes, k4 a strict prefix of k1..k3 (mirrors spec/MCTrieKV.tla McPath)
var plainKeys = map[string][]byte{
	"k0": {}, // the empty key: a strict prefix of every key, its value sits in slot 16 of the root node
	"k1": {0x12, 0x34}, "k2": {0x12, 0x35}, "k3": {0x12, 0x45}, "k4": {0x12}, "k5": {0x13, 0x34}, "k6": {0x72, 0x34},
	"g1": {0x12, 0x36}, "g2": {0x99}, // never written: proofs of absence
}

var secureKeys = map[string][]byte{}

func nibbles(b []byte) []int {
	out := make([]int, 0, 2*len(b)+1)
	for _, x := range b {
		out = append(out, int(x>>4), int(x&15))
	}
	return append(out, 16)
}

func sharedNibbles(a, b []byte) int {
	na, nb := nibbles(a), nibbles(b)
	i := 0
	for i < len(na) && i < len(nb) && na[i] == nb[i] {
		i++
	}
	return i
}

// secure keys: preimages whose keccak hashes share exactly 3, 2, 2, 1, 0 leading nibbles with k1's
func init() {
	base := []byte("c17-key-0")
	secureKeys["k1"] = base
	bh := crypto.Keccak256(base)
	want := []struct {
		id string
		n  int
	}{{"k2", 3}, {"k3", 2}, {"k4", 2}, {"k5", 1}, {"k6", 0}, {"k0", 0}, {"g1", 2}, {"g2", 0}}
	used := map[string]bool{}
	for _, w := range want {
		for i := 1; ; i++ {
			c := []byte(fmt.Sprintf("c17-key-%d", i))
			if used[string(c)] {
				continue
			}
			if sharedNibbles(bh, crypto.Keccak256(c)) == w.n {
				// k3 and k4 must diverge right after the two shared nibbles (they do: both differ from k1 at nibble 3)
				secureKeys[w.id] = c
				used[string(c)] = true
				break
			}
		}
	}
}

var valBytes = map[string][]byte{"s": {0x01}, "m": seqBytes(27, 0xa0), "L": seqBytes(40, 0x01), "none": nil}

func seqBytes(n int, start byte) []byte {
	b := make([]byte, n)
	for i := range b {
		b[i] = start + byte(i)
	}
	return b
}

func valID(b []byte) string {
	if len(b) == 0 {
		return "none"
	}
	for id, v := range valBytes {
		if id != "none" && string(v) == string(b) {
			return id
		}
	}
	return "?" + hex.EncodeToString(b)
}

// ---------------------------------------------------------------- proof databases

// recorder serves trie nodes from the TrieDatabase (node cache, then BeansDB) and remembers them:
// the nodes VerifyProof asked for are the proof.
type recorder struct {
	db    *store.TrieDatabase
	blobs [][]byte
}

func (r *recorder) Get(flg uint32, key []byte) ([]byte, error) {
	b, err := r.db.Node(common.BytesToHash(key))
	if len(b) > 0 {
		r.blobs = append(r.blobs, common.CopyBytes(b))
		return b, nil
	}
	return nil, err
}
func (r *recorder) Has(flg uint32, key []byte) (bool, error) {
	b, _ := r.db.Node(common.BytesToHash(key))
	return len(b) > 0, nil
}

// nodeSet is what a light client builds from a list of proof nodes: every blob under its own keccak hash.
type nodeSet map[common.Hash][]byte

func mkSet(blobs [][]byte) nodeSet {
	m := nodeSet{}
	for _, b := range blobs {
		m[crypto.Keccak256Hash(b)] = b
	}
	return m
}
func (m nodeSet) Get(flg uint32, key []byte) ([]byte, error) { return m[common.BytesToHash(key)], nil }
func (m nodeSet) Has(flg uint32, key []byte) (bool, error) {
	_, ok := m[common.BytesToHash(key)]
	return ok, nil
}

// ---------------------------------------------------------------- adapter

type adapter struct {
	n     int
	dir   string
	cdb   *store.ChainDatabase
	tdb   *store.TrieDatabase
	ts    map[int]handle // live handles by slot (spec: live, kv[h])
	kind  string
	lim   int
	keys  []string               // key ids in use (domain of the spec's kv)
	roots map[string]common.Hash // content -> root returned by the real Commit
}

func (a *adapter) key(id string) []byte {
	m := plainKeys
	if a.kind == "secure" {
		m = secureKeys
	}
	k, ok := m[id]
	if !ok {
		engine.Failf("unknown key id %s", id)
	}
	return k
}

// proofKey is the key VerifyProof walks: the SecureTrie stores values under keccak(key).
func (a *adapter) proofKey(id string) []byte {
	if a.kind == "secure" {
		return crypto.Keccak256(a.key(id))
	}
	return a.key(id)
}

func (a *adapter) path(id string) []int {
	if a.kind == "secure" {
		return nibbles(crypto.Keccak256(a.key(id)))
	}
	return nibbles(a.key(id))
}

func content(kv tla.Value) string {
	var parts []string
	for _, id := range keyIDs {
		if kv.Has(id) {
			parts = append(parts, id+"="+kv.F(id).S())
		}
	}
	return strings.Join(parts, ",")
}

func (a *adapter) closeDB() {
	if a.cdb != nil {
		a.drain() // no background writer is left behind when the directory is re-opened or removed
		a.cdb.Close()
		a.cdb = nil
	}
}

// drain waits until BeansDB's background writer has moved every queued item into the bitcask files, so that
// "restart" is a clean shutdown (what a crash in the middle of that pipeline does is C08's subject, not C17's).
func (a *adapter) drain() {
	q := a.cdb.Beansdb.Queue
	for i := 0; i < 5000; i++ {
		q.IndexRW.RLock()
		n := len(q.Index)
		q.IndexRW.RUnlock()
		if n == 0 {
			return
		}
		time.Sleep(time.Millisecond)
	}
	engine.Failf("BeansDB write queue did not drain within 5 s")
}

func (a *adapter) Close() {
	a.closeDB()
	if a.dir != "" {
		os.RemoveAll(a.dir)
	}
}

func (a *adapter) Reset(init map[string]tla.Value) (engine.Fields, error) {
	a.Close()
	base := os.Getenv("VERIF_SCRATCH_DIR")
	if base == "" {
		base = filepath.Join(os.TempDir(), fmt.Sprintf("triekv.%d", os.Getpid()))
	}
	a.n++
	a.dir = filepath.Join(base, fmt.Sprintf("db%d", a.n))
	os.RemoveAll(a.dir)
	a.cdb = store.NewChainDataBase(a.dir)
	a.tdb = a.cdb.GetTrieDatabase()
	a.kind, a.lim = init["kind"].S(), init["lim"].I()
	a.keys = nil
	for _, id := range keyIDs {
		if init["kv"].GetI(1).Has(id) {
			a.keys = append(a.keys, id)
		}
	}
	a.roots = map[string]common.Hash{}
	a.ts = map[int]handle{}
	for _, h := range init["live"].Ints() {
		if c := content(init["kv"].GetI(h)); c != emptyContent(a.keys) {
			engine.Failf("behaviour starts with a non-empty trie in handle %d: %s", h, c)
		}
		t, err := open(a.kind, common.Hash{}, a.tdb, a.lim)
		if err != nil {
			return nil, err
		}
		a.ts[h] = t
	}
	fl := engine.Fields{"kind": a.kind, "lim": a.lim, "keys": a.keys, "err": ""}
	paths := map[string][]int{}
	for _, id := range a.keys {
		paths[id] = a.path(id)
	}
	fl["paths"] = paths
	a.observeAll(fl)
	return fl, nil
}

func emptyContent(keys []string) string {
	var parts []string
	for _, id := range keys {
		parts = append(parts, id+"=none")
	}
	return strings.Join(parts, ",")
}

// observe reads root, TryGet of every key and the node paths of one trie object, each through an independent
// copy of the object.
func (a *adapter) observe(h int, t handle) map[string]interface{} {
	fl := map[string]interface{}{"h": h}
	fl["root"] = t.observer().hash().Hex()
	o := t.observer()
	reads := []string{} // in the order of "keys" of the reset event
	for _, id := range a.keys {
		v, err := o.get(a.key(id))
		if err != nil {
			reads = append(reads, "!"+err.Error())
		} else {
			reads = append(reads, valID(v))
		}
	}
	fl["reads"] = reads
	// node paths, each projected to one number: length and the first 5 nibbles
	// (code = len*2000000 + sum nibble_i * 17^(5-i); TraceTrieKV.Code is the same projection of the spec's paths)
	shape := []int{}
	it := t.observer().iter()
	for it.Next(true) {
		p := it.Path()
		code := 0
		for i := 0; i < 5; i++ {
			code *= 17
			if i < len(p) {
				code += int(p[i]) + 1 // +1: distinguishes "no nibble" from nibble 0
			}
		}
		shape = append(shape, len(p)*2000000+code)
	}
	if it.Error() != nil {
		fl["itererr"] = it.Error().Error()
	}
	fl["shape"] = shape
	return fl
}

// observeAll logs every live handle, in slot order.
func (a *adapter) observeAll(fl engine.Fields) {
	var hs []int
	for h := range a.ts {
		hs = append(hs, h)
	}
	sort.Ints(hs)
	obs := []interface{}{}
	for _, h := range hs {
		obs = append(obs, a.observe(h, a.ts[h]))
	}
	fl["obs"] = obs
}

type attempt struct {
	How     string `json:"how"`
	Refused bool   `json:"refused"`
	Val     string `json:"val"`
}

func verify(root common.Hash, key []byte, db store.DatabaseReader, how string) attempt {
	v, err, _ := trie.VerifyProof(root, key, db)
	return attempt{How: how, Refused: err != nil, Val: valID(v)}
}

func (a *adapter) proveAll(root common.Hash) []interface{} {
	ids := append(append([]string{}, a.keys...), "g1", "g2")
	proofs := map[string][][]byte{}
	for _, id := range ids {
		r := &recorder{db: a.tdb}
		trie.VerifyProof(root, a.proofKey(id), r)
		proofs[id] = r.blobs
	}
	var otherRoots []string
	for c := range a.roots {
		otherRoots = append(otherRoots, c)
	}
	sort.Strings(otherRoots)
	var out []interface{}
	for _, id := range ids {
		key, blobs := a.proofKey(id), proofs[id]
		gen := verify(root, key, mkSet(blobs), "genuine")
		var tam []attempt
		for i := range blobs {
			rest := append(append([][]byte{}, blobs[:i]...), blobs[i+1:]...)
			tam = append(tam, verify(root, key, mkSet(rest), fmt.Sprintf("drop%d", i)))
			alt := append([][]byte{}, blobs...)
			alt[i] = common.CopyBytes(blobs[i])
			alt[i][len(alt[i])-1] ^= 1
			tam = append(tam, verify(root, key, mkSet(alt), fmt.Sprintf("flip%d", i)))
		}
		for _, o := range ids {
			if o != id {
				tam = append(tam, verify(root, key, mkSet(proofs[o]), "proof-of-"+o))
			}
		}
		// the same key proved under every other committed root, presented for this root
		for _, c := range otherRoots {
			if r2 := a.roots[c]; r2 != root {
				r := &recorder{db: a.tdb}
				trie.VerifyProof(r2, key, r)
				tam = append(tam, verify(root, key, mkSet(r.blobs), "nodes-of-other-root"))
			}
		}
		// distinct outcomes of the manipulated node sets (first example of each, with its multiplicity)
		var distinct []map[string]interface{}
		seen := map[string]int{}
		for _, t := range tam {
			k := fmt.Sprintf("%v/%s", t.Refused, t.Val)
			if i, ok := seen[k]; ok {
				distinct[i]["n"] = distinct[i]["n"].(int) + 1
				continue
			}
			seen[k] = len(distinct)
			distinct = append(distinct, map[string]interface{}{"how": t.How, "refused": t.Refused, "val": t.Val, "n": 1})
		}
		out = append(out, map[string]interface{}{"k": id, "nodes": len(blobs), "refused": gen.Refused, "val": gen.Val, "tried": len(tam), "t": distinct})
	}
	return out
}

func errStr(err error) string {
	if err == nil {
		return ""
	}
	return err.Error()
}

// live returns the trie in slot h; the spec only operates on live handles.
func (a *adapter) live(h int) handle {
	t, ok := a.ts[h]
	if !ok {
		engine.Failf("handle %d is not live", h)
	}
	return t
}

func (a *adapter) free(h int) {
	if _, ok := a.ts[h]; ok {
		engine.Failf("handle slot %d is in use", h)
	}
}

func (a *adapter) Apply(s engine.Step) (engine.Fields, error) {
	arg := s.Act.Args
	fl := engine.Fields{"err": ""}
	post := s.Post()
	// the snapshot: a copy of the object operated on (read from), taken before the call and observed after it
	var snap handle
	snapOf := 0
	take := func(h int) handle {
		t := a.live(h)
		snap, snapOf = t.observer(), h
		return t
	}
	switch s.Act.Name {
	case "Put":
		t := take(arg[0].I())
		v, ok := valBytes[arg[2].S()]
		if !ok || len(v) == 0 {
			engine.Failf("unknown value id %s", arg[2].S())
		}
		fl["err"] = errStr(t.update(a.key(arg[1].S()), common.CopyBytes(v)))
	case "Remove":
		t := take(arg[0].I())
		if arg[2].S() == "delete" {
			fl["err"] = errStr(t.remove(a.key(arg[1].S())))
		} else {
			fl["err"] = errStr(t.update(a.key(arg[1].S()), []byte{}))
		}
	case "Get":
		t := take(arg[0].I())
		v, err := t.get(a.key(arg[1].S()))
		fl["err"], fl["val"] = errStr(err), valID(v)
	case "Hash":
		t := take(arg[0].I())
		fl["ret"] = t.hash().Hex()
	case "Commit":
		h := arg[0].I()
		t := take(h)
		root, err := t.commit()
		fl["err"], fl["ret"] = errStr(err), root.Hex()
		if err == nil {
			a.roots[content(post["kv"].GetI(h))] = root
			if arg[1].B() {
				fl["err"] = errStr(a.tdb.Commit(root, false))
			}
		}
	case "Reopen":
		h, mode := arg[0].I(), arg[2].S()
		a.live(h)
		c := content(post["kv"].GetI(h))
		root, ok := a.roots[c]
		if !ok {
			engine.Failf("Reopen of a content the real trie never committed: %s", c)
		}
		switch mode {
		case "same":
			take(h) // the replaced object stays a valid trie of its content
		case "fresh":
			a.tdb = a.cdb.GetTrieDatabase()
		case "restart":
			a.closeDB()
			a.cdb = store.NewChainDataBase(a.dir)
			a.tdb = a.cdb.GetTrieDatabase()
		default:
			engine.Failf("unknown reopen mode %s", mode)
		}
		if mode != "same" { // a new TrieDatabase is the end of all other handles
			a.ts = map[int]handle{h: a.ts[h]}
		}
		t, err := open(a.kind, root, a.tdb, a.lim)
		fl["err"], fl["from"] = errStr(err), root.Hex()
		fl["c"] = post["kv"].GetI(h).JSON() // which committed content the harness asked the real code to reopen
		if err != nil {
			// the spec only reopens what the real code committed: nothing sensible to go on with
			engine.Realf("%s: opening the committed root %x of content {%s} failed: %v", s.Act.String(), root, c, err)
		}
		a.ts[h] = t
	case "ProveAll":
		h := arg[0].I()
		take(h)
		root, ok := a.roots[content(post["kv"].GetI(h))]
		if !ok {
			engine.Failf("ProveAll on a content the real trie never committed")
		}
		fl["proofs"] = a.proveAll(root)
	case "Copy":
		src, dst := arg[0].I(), arg[1].I()
		a.free(dst)
		a.ts[dst] = take(src).observer() // SecureTrie.Copy() / struct copy of the Trie
	case "Open", "OpenOld":
		dst := arg[0].I()
		a.free(dst)
		if s.Act.Name == "Open" {
			take(arg[1].I())
		}
		c := content(post["kv"].GetI(dst))
		root, ok := a.roots[c]
		if !ok {
			engine.Failf("%s of a content the real trie never committed: %s", s.Act.Name, c)
		}
		t, err := open(a.kind, root, a.tdb, a.lim)
		fl["err"], fl["from"] = errStr(err), root.Hex()
		fl["c"] = post["kv"].GetI(dst).JSON()
		if err != nil {
			engine.Realf("%s: opening the committed root %x of content {%s} failed: %v", s.Act.String(), root, c, err)
		}
		a.ts[dst] = t
	case "Close":
		a.live(arg[0].I())
		delete(a.ts, arg[0].I())
	default:
		return nil, fmt.Errorf("unknown action %s", s.Act.Name)
	}
	// the harness's handle table follows the spec's
	want := post["live"].Ints()
	if len(want) != len(a.ts) {
		engine.Failf("live handles %v after %s, harness has %d", want, s.Act.String(), len(a.ts))
	}
	for _, h := range want {
		a.live(h)
	}
	if snap != nil {
		fl["pre"] = a.observe(snapOf, snap)
	}
	a.observeAll(fl)
	return fl, nil
}

func init() {
	engine.Register("triekv", func() engine.Adapter { return &adapter{} })
}
