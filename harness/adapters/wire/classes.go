package wire

// Instantiation of the input classes of spec/Wire.tla as REAL bytes.  The class names are the ones
// of spec/MCWire.tla (Table); which reaction a class requires is stated there, never here.

import (
	"crypto/ecdsa"
	"crypto/rand"
	"encoding/binary"
	"fmt"
	"math/big"
	mrand "math/rand"
	"time"

	"github.com/LemoFoundationLtd/lemochain-core/chain/params"
	"github.com/LemoFoundationLtd/lemochain-core/chain/types"
	"github.com/LemoFoundationLtd/lemochain-core/common"
	"github.com/LemoFoundationLtd/lemochain-core/common/crypto"
	"github.com/LemoFoundationLtd/lemochain-core/common/crypto/ecies"
	"github.com/LemoFoundationLtd/lemochain-core/common/rlp"
	"github.com/LemoFoundationLtd/lemochain-core/network"
	"github.com/LemoFoundationLtd/lemochain-core/network/p2p"
)

var prefix = []byte{0x5a, 0x48}

// plan is what the attacker does in one step.
type plan struct {
	chunks   [][]byte // written in this order to the attacker's end of the pipe
	closeEnd bool     // then the attacker closes its end (truncation / EOF)
	special  func(b *bctx) error
	noSplit  bool
}

type bctx struct {
	n   *node
	c   *conn
	rng *mrand.Rand
}

func raw(length uint32, body []byte) []byte {
	h := make([]byte, 6, 6+len(body))
	copy(h, prefix)
	binary.BigEndian.PutUint32(h[2:], length)
	return append(h, body...)
}

func (b *bctx) rnd(n int) []byte {
	x := make([]byte, n)
	b.rng.Read(x)
	return x
}

// encFrame is what a legitimate remote's packFrame produces for an arbitrary plaintext (which normally is code||payload).
func (b *bctx) encFrame(plaintext []byte) []byte {
	ct, err := crypto.AesEncrypt(plaintext, b.c.aes)
	if err != nil {
		panic(err)
	}
	return raw(uint32(len(ct)), ct)
}

func (b *bctx) msg(code uint32, payload []byte) []byte {
	pt := make([]byte, 4, 4+len(payload))
	binary.BigEndian.PutUint32(pt, code)
	return b.encFrame(append(pt, payload...))
}

func enc(v interface{}) []byte {
	x, err := rlp.EncodeToBytes(v)
	if err != nil {
		panic(err)
	}
	return x
}

// ------------------------------------------------------------------ the genuine client handshake (hook-free re-implementation
// of p2p.clientEncHandshake from exported primitives, so the attacker knows the session key like any legitimate remote)

type authReq struct {
	Signature    [65]byte
	ClientPubKey [64]byte
	InitNonce    [32]byte
}
type authResp struct {
	RandomPubKey [64]byte
	RespNonce    [32]byte
}

func xor(a, b []byte) []byte {
	r := make([]byte, len(a))
	for i := range a {
		r[i] = a[i] ^ b[i]
	}
	return r
}

type hsState struct {
	req       *authReq
	randomPrv *ecies.PrivateKey
	nonce     []byte
}

func (b *bctx) makeAuthReq(key *ecdsa.PrivateKey) *hsState {
	srvPub := ecies.ImportECDSAPublic(&b.n.key.PublicKey)
	nonce := b.rnd(32)
	randomPrv, err := ecies.GenerateKey(rand.Reader, crypto.S256(), nil)
	if err != nil {
		panic(err)
	}
	token, err := ecies.ImportECDSA(key).GenerateShared(srvPub, 16, 16)
	if err != nil {
		panic(err)
	}
	sig, err := crypto.Sign(xor(token, nonce), randomPrv.ExportECDSA())
	if err != nil {
		panic(err)
	}
	req := new(authReq)
	copy(req.Signature[:], sig)
	copy(req.ClientPubKey[:], crypto.PrivateKeyToNodeID(key))
	copy(req.InitNonce[:], nonce)
	return &hsState{req: req, randomPrv: randomPrv, nonce: nonce}
}

func (b *bctx) eciesToNode(pt []byte) []byte {
	ct, err := ecies.Encrypt(rand.Reader, ecies.ImportECDSAPublic(&b.n.key.PublicKey), pt, nil, nil)
	if err != nil {
		panic(err)
	}
	return raw(uint32(len(ct)), ct)
}

func hsGood(b *bctx) error {
	key := mustKey(anonKeyHex)
	st := b.makeAuthReq(key)
	b.c.cli.SetWriteDeadline(time.Now().Add(20 * time.Second))
	if _, err := b.c.cli.Write(b.eciesToNode(enc(st.req))); err != nil {
		return fmt.Errorf("write auth request: %v", err)
	}
	body := b.c.waitFrame(20 * time.Second)
	if body == nil {
		return fmt.Errorf("no auth response")
	}
	pt, err := ecies.ImportECDSA(key).Decrypt(body, nil, nil)
	if err != nil {
		return fmt.Errorf("decrypt auth response: %v", err)
	}
	var resp authResp
	if err := rlp.DecodeBytes(pt, &resp); err != nil {
		return fmt.Errorf("decode auth response: %v", err)
	}
	pub := crypto.ToECDSAPub(append([]byte{4}, resp.RandomPubKey[:]...))
	if pub == nil || pub.X == nil {
		return fmt.Errorf("bad random public key in auth response")
	}
	token, err := st.randomPrv.GenerateShared(ecies.ImportECDSAPublic(pub), 16, 16)
	if err != nil {
		return err
	}
	b.c.aes = crypto.Keccak256(token, crypto.Keccak256(resp.RespNonce[:], st.nonce))[:16]
	b.c.key = key
	return nil
}

// ------------------------------------------------------------------ payload helpers

func (b *bctx) status(cur uint32, curHash common.Hash, sta uint32, staHash common.Hash) network.LatestStatus {
	return network.LatestStatus{CurHeight: cur, CurHash: curHash, StaHeight: sta, StaHash: staHash}
}

func (b *bctx) hash() common.Hash { return common.BytesToHash(b.rnd(32)) }

func (b *bctx) phs(chain uint16, genesis common.Hash, st network.LatestStatus) []byte {
	return (&network.ProtocolHandshake{ChainID: chain, GenesisHash: genesis, NodeVersion: params.VersionUint(), LatestStatus: st}).Bytes()
}

func (b *bctx) tx(key *ecdsa.PrivateKey, amount int64, exp uint64, sign bool) *types.Transaction {
	from := crypto.PubkeyToAddress(key.PublicKey)
	tx := types.NewTransaction(from, common.HexToAddress("12AB"), big.NewInt(amount), 1000000, params.MinGasPrice, []byte{}, params.OrdinaryTx, chainID, exp, "", "")
	if sign {
		var err error
		if tx, err = (types.DefaultSigner{}).SignTx(tx, key); err != nil {
			panic(err)
		}
	}
	return tx
}

// block builds a block on `parent`; signed by key when key != nil.
func (b *bctx) block(parent common.Hash, height uint32, tm uint32, key *ecdsa.PrivateKey, extra string, txs types.Transactions) *types.Block {
	miner := common.BytesToAddress(b.rnd(20))
	if key != nil {
		miner = crypto.PubkeyToAddress(key.PublicKey)
	}
	h := &types.Header{ParentHash: parent, MinerAddress: miner, VersionRoot: b.hash(), TxRoot: txs.MerkleRootSha(),
		LogRoot: b.n.genesis.Header.LogRoot, Height: height, GasLimit: 105000000, Time: tm, Extra: extra}
	if key != nil {
		hash := h.Hash()
		sig, err := crypto.Sign(hash[:], key)
		if err != nil {
			panic(err)
		}
		h.SignData = sig
	} else {
		h.SignData = b.rnd(65)
	}
	return &types.Block{Header: h, Txs: txs}
}

func half(x []byte) []byte { return x[:len(x)/2] }

func now() uint32 { return uint32(time.Now().Unix()) }

// ------------------------------------------------------------------ the classes

const (
	cPhs     = uint32(p2p.ProHandshakeMsg)
	cStatus  = uint32(p2p.LstStatusMsg)
	cGetStat = uint32(p2p.GetLstStatusMsg)
	cHash    = uint32(p2p.BlockHashMsg)
	cTxs     = uint32(p2p.TxsMsg)
	cGetBlk  = uint32(p2p.GetBlocksMsg)
	cBlocks  = uint32(p2p.BlocksMsg)
	cConfirm = uint32(p2p.ConfirmMsg)
	cGetConf = uint32(p2p.GetConfirmsMsg)
	cConfs   = uint32(p2p.ConfirmsMsg)
	cDiscReq = uint32(p2p.DiscoverReqMsg)
	cDiscRes = uint32(p2p.DiscoverResMsg)
	cGetBlkC = uint32(p2p.GetBlocksWithChangeLogMsg)
)

var msgCodes = map[string]uint32{"Phs": cPhs, "Status": cStatus, "GetStatus": cGetStat, "Hash": cHash, "Txs": cTxs, "GetBlocks": cGetBlk,
	"Blocks": cBlocks, "Confirm": cConfirm, "GetConfirms": cGetConf, "Confirms": cConfs, "DiscReq": cDiscReq, "DiscRes": cDiscRes, "GetBlocksCL": cGetBlkC}

// goodPayload is a well-formed benign payload for every message code.
func (b *bctx) goodPayload(name string) []byte {
	g := b.n.genesis
	switch name {
	case "Phs":
		return b.phs(chainID, g.Hash(), b.status(0, g.Hash(), 0, g.Hash()))
	case "Status":
		return enc(b.status(0, g.Hash(), 0, g.Hash()))
	case "GetStatus":
		return enc(&network.GetLatestStatus{Revert: 0})
	case "Hash":
		return enc(&network.BlockHashData{Height: 5, Hash: b.hash()})
	case "Txs":
		return enc(types.Transactions{b.tx(b.n.depKeys[1], int64(1+b.rng.Intn(1000)), uint64(now())+600, true)})
	case "GetBlocks", "GetBlocksCL":
		return enc(&network.GetBlocksData{From: 0, To: 0})
	case "Blocks":
		return enc(types.Blocks{b.block(b.hash(), 7, now()-10, nil, "", nil)}) // an orphan: cached, parent requested
	case "Confirm":
		d := &network.BlockConfirmData{Hash: b.hash(), Height: 3}
		copy(d.SignInfo[:], b.rnd(65))
		return enc(d)
	case "GetConfirms":
		return enc(&network.GetConfirmInfo{Height: 0, Hash: g.Hash()})
	case "Confirms":
		d := &network.BlockConfirms{Height: 0, Hash: g.Hash(), Pack: make([]types.SignData, 2)}
		copy(d.Pack[0][:], b.rnd(65))
		copy(d.Pack[1][:], b.rnd(65))
		return enc(d)
	case "DiscReq":
		return enc(&network.DiscoverReqData{Sequence: 1})
	case "DiscRes":
		id := crypto.PrivateKeyToNodeID(b.n.depKeys[2])
		return enc(&network.DiscoverResData{Sequence: 1, Nodes: []string{fmt.Sprintf("%x@127.0.0.1:7003", id)}})
	}
	panic("no good payload for " + name)
}

// build returns the attacker's plan for a class; ok=false for an unknown class name.
func (b *bctx) build(cls string) (p plan, ok bool) {
	g := b.n.genesis
	one := func(x []byte) (plan, bool) { return plan{chunks: [][]byte{x}}, true }
	cut := func(x []byte) (plan, bool) { return plan{chunks: [][]byte{x}, closeEnd: true}, true }

	// generic message classes  <Code>_<Variant>
	for name, code := range msgCodes {
		switch cls {
		case name + "_Good":
			return one(b.msg(code, b.goodPayload(name)))
		case name + "_Empty":
			return one(b.msg(code, nil))
		case name + "_Trunc":
			return one(b.msg(code, half(b.goodPayload(name))))
		case name + "_WrongType":
			return one(b.msg(code, enc([]interface{}{"a string where a number belongs", []interface{}{}, b.rnd(40)})))
		case name + "_Garbage": // random bytes that do not start an RLP list (every payload type is a list)
			g := b.rnd(1 + b.rng.Intn(300))
			g[0] = byte(b.rng.Intn(0xc0))
			return one(b.msg(code, g))
		case name + "_Trailing": // a good payload followed by extra bytes
			return one(b.msg(code, append(b.goodPayload(name), b.rnd(9)...)))
		}
	}

	switch cls {
	// ---------------------------------------------------------- before the handshake (node is in readHandshakeBuf)
	case "HsGood":
		return plan{special: hsGood}, true
	case "HsBadMagic":
		return one(append([]byte{0x5a, 0x49, 0, 0, 0, 16}, b.rnd(16)...))
	case "HsZeroLen":
		return one(raw(0, nil))
	case "HsOverLen": // above the handshake reader's own limit of today (1 GiB)
		return one(raw((1<<30)+1, nil))
	case "HsHugeLenTrunc": // length field 1 GiB (accepted by the reader), ten bytes, EOF
		return cut(raw(1<<30, b.rnd(10)))
	case "HsLen64MTrunc":
		return cut(raw(64<<20, b.rnd(10)))
	case "HsTruncHeader":
		return cut(raw(200, nil)[:1+b.rng.Intn(5)])
	case "HsTruncBody":
		return cut(raw(200, b.rnd(b.rng.Intn(200))))
	case "HsGarbageBody":
		return one(raw(307, b.rnd(307)))
	case "HsShortBody": // shorter than any ECIES message (65+16+32)
		k := 1 + b.rng.Intn(100)
		return one(raw(uint32(k), b.rnd(k)))
	case "HsEciesEmpty":
		return one(b.eciesToNode(nil))
	case "HsEciesGarbageRlp":
		return one(b.eciesToNode(b.rnd(1 + b.rng.Intn(200))))
	case "HsEciesShortRlp":
		return one(b.eciesToNode(enc([]interface{}{b.rnd(65), b.rnd(3)})))
	case "HsEciesWrongType":
		return one(b.eciesToNode(enc("just a string")))
	case "HsZeroRequest":
		return one(b.eciesToNode(enc(new(authReq))))
	case "HsBadSig":
		st := b.makeAuthReq(mustKey(anonKeyHex))
		copy(st.req.Signature[:], b.rnd(65))
		return one(b.eciesToNode(enc(st.req)))
	case "HsSigBadV":
		st := b.makeAuthReq(mustKey(anonKeyHex))
		st.req.Signature[64] = byte(4 + b.rng.Intn(250))
		return one(b.eciesToNode(enc(st.req)))
	case "HsPubNotOnCurve":
		st := b.makeAuthReq(mustKey(anonKeyHex))
		copy(st.req.ClientPubKey[:], b.rnd(64))
		return one(b.eciesToNode(enc(st.req)))
	case "HsSelfId": // claims the node's own identity (cannot know its key: signature over a wrong token)
		st := b.makeAuthReq(mustKey(anonKeyHex))
		copy(st.req.ClientPubKey[:], crypto.PrivateKeyToNodeID(b.n.key))
		return one(b.eciesToNode(enc(st.req)))

	// ---------------------------------------------------------- raw / encrypted frames after the handshake (node is in Peer.readLoop)
	case "FrBadMagic":
		return one(append([]byte{0x48, 0x5a, 0, 0, 0, 16}, b.rnd(16)...))
	case "FrZeroLen":
		return one(raw(0, nil))
	case "FrOverLen":
		return one(raw(params.MaxPackageLength+1, nil))
	case "FrLenNot16": // ciphertext length not a multiple of the AES block size (the 11-byte frame 5a48 00000005 0102030405 is one instance)
		k := 1 + b.rng.Intn(200)
		if k%16 == 0 {
			k++
		}
		if b.rng.Intn(3) == 0 {
			return one([]byte{0x5a, 0x48, 0, 0, 0, 5, 1, 2, 3, 4, 5})
		}
		return one(raw(uint32(k), b.rnd(k)))
	case "FrGarbage16":
		k := 16 * (1 + b.rng.Intn(20))
		return one(raw(uint32(k), b.rnd(k)))
	case "FrPlain0":
		return one(b.encFrame(nil))
	case "FrPlain1":
		return one(b.encFrame(b.rnd(1)))
	case "FrPlain2":
		return one(b.encFrame(b.rnd(2)))
	case "FrPlain3":
		return one(b.encFrame(b.rnd(3)))
	case "FrCodeHigh":
		codes := []uint32{0x20, 0x21, 0xff, 0x100, 0x7fffffff, 0x80000000, 0xffffffff}
		return one(b.msg(codes[b.rng.Intn(len(codes))], b.rnd(b.rng.Intn(40))))
	case "FrTruncHeader":
		return cut(raw(64, nil)[:1+b.rng.Intn(5)])
	case "FrTruncBody":
		return cut(raw(64, b.rnd(b.rng.Intn(64))))
	case "FrMaxLenTrunc": // the largest admissible length, a few bytes, EOF
		return cut(raw(params.MaxPackageLength, b.rnd(10)))
	case "FrMaxLenGarbage":
		p := plan{chunks: [][]byte{raw(params.MaxPackageLength, make([]byte, params.MaxPackageLength))}, noSplit: true}
		return p, true
	case "FrHeartbeat":
		return one(b.msg(uint32(p2p.HeartbeatMsg), nil))
	case "FrHeartbeatPayload":
		return one(b.msg(uint32(p2p.HeartbeatMsg), b.rnd(1000)))
	case "FrCodeUnassigned": // admitted by the frame layer (<= 0x1F), unknown to the protocol
		codes := []uint32{0x00, 0x0f, 0x10, 0x1e, 0x1f}
		return one(b.msg(codes[b.rng.Intn(len(codes))], b.rnd(b.rng.Intn(40))))

	// ---------------------------------------------------------- protocol handshake variants
	case "Phs_Higher":
		return one(b.msg(cPhs, b.phs(chainID, g.Hash(), b.status(1000, b.hash(), 900, b.hash()))))
	case "Phs_Max":
		return one(b.msg(cPhs, b.phs(chainID, g.Hash(), b.status(^uint32(0), b.hash(), ^uint32(0), b.hash()))))
	case "Phs_StaGtCur":
		return one(b.msg(cPhs, b.phs(chainID, g.Hash(), b.status(3, b.hash(), 900, b.hash()))))
	case "Phs_OtherChain":
		return one(b.msg(cPhs, b.phs(1, b.hash(), b.status(0, b.hash(), 0, b.hash()))))
	case "Phs_WrongCode":
		return one(b.msg(cConfirm, b.goodPayload("Phs")))

	// ---------------------------------------------------------- decodable but absurd payloads
	case "Status_Higher":
		return one(b.msg(cStatus, enc(b.status(1000, b.hash(), 900, b.hash()))))
	case "Status_Max":
		return one(b.msg(cStatus, enc(b.status(^uint32(0), b.hash(), ^uint32(0), b.hash()))))
	case "Status_StaGtCur":
		return one(b.msg(cStatus, enc(b.status(3, b.hash(), 900, b.hash()))))
	case "Hash_Max":
		return one(b.msg(cHash, enc(&network.BlockHashData{Height: ^uint32(0), Hash: b.hash()})))
	case "Hash_Known":
		return one(b.msg(cHash, enc(&network.BlockHashData{Height: 0, Hash: g.Hash()})))
	case "Txs_EmptyList":
		return one(b.msg(cTxs, enc(types.Transactions{})))
	case "Txs_Expired":
		return one(b.msg(cTxs, enc(types.Transactions{b.tx(b.n.depKeys[1], 5, 1000, true)})))
	case "Txs_Unsigned":
		return one(b.msg(cTxs, enc(types.Transactions{b.tx(b.n.depKeys[1], 5, uint64(now())+600, false)})))
	case "Txs_NilElem":
		return one(b.msg(cTxs, []byte{0xc2, 0xc0, 0xc0}))
	case "Txs_Many":
		var txs types.Transactions
		for i := 0; i < 200; i++ {
			txs = append(txs, b.tx(b.n.depKeys[1+i%2], int64(i+1), uint64(now())+600, true))
		}
		return one(b.msg(cTxs, enc(txs)))
	case "GetBlocks_FromGtTo":
		return one(b.msg(cGetBlk, enc(&network.GetBlocksData{From: 9, To: 3})))
	case "GetBlocks_Beyond":
		return one(b.msg(cGetBlk, enc(&network.GetBlocksData{From: 5, To: 10})))
	case "GetBlocks_Range":
		return one(b.msg(cGetBlk, enc(&network.GetBlocksData{From: 0, To: 25})))
	case "GetBlocks_Wrap": // To-From+1 wraps to 0
		return one(b.msg(cGetBlk, enc(&network.GetBlocksData{From: 0, To: ^uint32(0)})))
	case "GetBlocks_Huge":
		return one(b.msg(cGetBlk, enc(&network.GetBlocksData{From: 0, To: ^uint32(0) - 1})))
	case "GetBlocksCL_Huge":
		return one(b.msg(cGetBlkC, enc(&network.GetBlocksData{From: 0, To: ^uint32(0) - 1})))
	case "GetBlocksCL_FromGtTo":
		return one(b.msg(cGetBlkC, enc(&network.GetBlocksData{From: 9, To: 3})))
	case "Blocks_EmptyList":
		return one(b.msg(cBlocks, enc(types.Blocks{})))
	case "Blocks_NilBlock": // RLP [ [] ] : a list with one empty element
		return one(b.msg(cBlocks, []byte{0xc1, 0xc0}))
	case "Blocks_OrphanMax":
		return one(b.msg(cBlocks, enc(types.Blocks{b.block(b.hash(), ^uint32(0), now()-10, nil, "", nil)})))
	case "Blocks_OrphanH0":
		return one(b.msg(cBlocks, enc(types.Blocks{b.block(b.hash(), 0, now()-10, nil, "", nil)})))
	case "Blocks_OrphanH1": // height 1 on an unknown parent: "different genesis"
		return one(b.msg(cBlocks, enc(types.Blocks{b.block(b.hash(), 1, now()-10, nil, "", nil)})))
	case "Blocks_ChildUnsigned": // child of the genesis block with a random signature
		return one(b.msg(cBlocks, enc(types.Blocks{b.block(g.Hash(), 1, now()-10, nil, "", nil)})))
	case "Blocks_ChildBadHeight":
		return one(b.msg(cBlocks, enc(types.Blocks{b.block(g.Hash(), 77, now()-10, b.n.depKeys[1], "", nil)})))
	case "Blocks_DeputyFuture": // signed by a deputy, timestamp far in the future
		return one(b.msg(cBlocks, enc(types.Blocks{b.block(g.Hash(), 1, now()+100000, b.n.depKeys[1], "", nil)})))
	case "Blocks_DeputyTimeTiny": // signed by a deputy, timestamp*1000 < 1e10
		return one(b.msg(cBlocks, enc(types.Blocks{b.block(g.Hash(), 1, uint32(b.rng.Intn(9999999)), b.n.depKeys[1], "", nil)})))
	case "Blocks_DeputyBeforeParent": // signed by a deputy, timestamp before the parent's
		return one(b.msg(cBlocks, enc(types.Blocks{b.block(g.Hash(), 1, g.Time()-100, b.n.depKeys[1], "", nil)})))
	case "Blocks_DeputyHugeExtra":
		return one(b.msg(cBlocks, enc(types.Blocks{b.block(g.Hash(), 1, now()-10, b.n.depKeys[1], string(make([]byte, 100000)), nil)})))
	case "Blocks_DeputyBadTxRoot":
		blk := b.block(g.Hash(), 1, now()-10, b.n.depKeys[1], "", nil)
		blk.Txs = types.Transactions{b.tx(b.n.depKeys[2], 1, uint64(now())+600, true)}
		return one(b.msg(cBlocks, enc(types.Blocks{blk})))
	case "Blocks_DeputyPlausible": // right slot arithmetic is not attempted: a deputy-signed, otherwise plausible child of genesis
		return one(b.msg(cBlocks, enc(types.Blocks{b.block(g.Hash(), 1, now()-10, b.n.depKeys[1+b.rng.Intn(2)], "", nil)})))
	case "Blocks_Flood": // 10241 orphans at distinct heights in one message
		blks := make(types.Blocks, 0, 10241)
		for i := 0; i < 10241; i++ {
			blks = append(blks, b.block(b.hash(), uint32(100+i), now()-10, nil, "", nil))
		}
		return plan{chunks: [][]byte{b.msg(cBlocks, enc(blks))}, noSplit: true}, true
	case "Confirm_Known": // confirm for a block the node has (genesis), garbage signature
		d := &network.BlockConfirmData{Hash: g.Hash(), Height: 0}
		copy(d.SignInfo[:], b.rnd(65))
		return one(b.msg(cConfirm, enc(d)))
	case "Confirm_MaxHeight":
		d := &network.BlockConfirmData{Hash: b.hash(), Height: ^uint32(0)}
		return one(b.msg(cConfirm, enc(d)))
	case "Confirm_Flood": // 10241 confirms for distinct unknown heights
		var chunks [][]byte
		for i := 0; i < 10241; i++ {
			d := &network.BlockConfirmData{Hash: b.hash(), Height: uint32(100 + i)}
			chunks = append(chunks, b.msg(cConfirm, enc(d)))
		}
		return plan{chunks: chunks, noSplit: true}, true
	case "GetConfirms_Unknown":
		return one(b.msg(cGetConf, enc(&network.GetConfirmInfo{Height: 12345, Hash: b.hash()})))
	case "GetConfirms_MaxByHeight":
		return one(b.msg(cGetConf, enc(&network.GetConfirmInfo{Height: ^uint32(0)})))
	case "Confirms_Unknown":
		d := &network.BlockConfirms{Height: 9, Hash: b.hash(), Pack: make([]types.SignData, 3)}
		return one(b.msg(cConfs, enc(d)))
	case "Confirms_HugePack":
		d := &network.BlockConfirms{Height: 0, Hash: g.Hash(), Pack: make([]types.SignData, 20000)}
		for i := range d.Pack {
			binary.BigEndian.PutUint32(d.Pack[i][:], uint32(i))
		}
		return plan{chunks: [][]byte{b.msg(cConfs, enc(d))}, noSplit: true}, true
	case "DiscRes_HugeSizeHeader": // list header 2 GiB, Sequence 1, list header ~2 GiB, string header 1 GiB, a few bytes
		return one(b.msg(cDiscRes, append([]byte{0xfb, 0x7f, 0xff, 0xff, 0xff, 0x01, 0xfb, 0x7f, 0x00, 0x00, 0x00, 0xbb, 0x40, 0x00, 0x00, 0x00}, b.rnd(24)...)))
	case "DiscReq_SeqMax":
		return one(b.msg(cDiscReq, enc(&network.DiscoverReqData{Sequence: ^uint(0)})))
	case "DiscRes_Invalid":
		return one(b.msg(cDiscRes, enc(&network.DiscoverResData{Sequence: 1, Nodes: []string{"not a node", ""}})))
	case "DiscRes_Many":
		d := &network.DiscoverResData{Sequence: 1}
		for i := 0; i < 2000; i++ {
			k, _ := crypto.GenerateKey()
			d.Nodes = append(d.Nodes, fmt.Sprintf("%x@10.%d.%d.%d:7001", crypto.PrivateKeyToNodeID(k), b.rng.Intn(250), b.rng.Intn(250), 1+b.rng.Intn(250)))
		}
		return plan{chunks: [][]byte{b.msg(cDiscRes, enc(d))}, noSplit: true}, true
	}
	return plan{}, false
}
