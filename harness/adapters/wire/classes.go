package wire

// Instantiation of the input classes of spec/Wire.tla as REAL bytes.  The class names are the ones
// of spec/MCWire.tla (Table); which reaction a class requires is stated there, never here.

import (
	"bytes"
	"crypto/aes"
	"crypto/cipher"
	"crypto/ecdsa"
	"crypto/elliptic"
	"crypto/hmac"
	"crypto/rand"
	"crypto/sha256"
	"encoding/binary"
	"encoding/json"
	"fmt"
	"math/big"
	mrand "math/rand"
	"sort"
	"strings"
	"sync"
	"time"

	"github.com/LemoFoundationLtd/lemochain-core/chain/params"
	"github.com/LemoFoundationLtd/lemochain-core/chain/types"
	"github.com/LemoFoundationLtd/lemochain-core/common"
	"github.com/LemoFoundationLtd/lemochain-core/common/crypto"
	"github.com/LemoFoundationLtd/lemochain-core/common/crypto/ecies"
	"github.com/LemoFoundationLtd/lemochain-core/common/rlp"
	"github.com/LemoFoundationLtd/lemochain-core/network"
	"github.com/LemoFoundationLtd/lemochain-core/network/p2p"
)

var prefix = []byte{0x5a, 0x48}

// plan is what the attacker does in one step.
type plan struct {
	chunks   [][]byte // written in this order to the attacker's end of the pipe
	closeEnd bool     // then the attacker closes its end (truncation / EOF)
	special  func(b *bctx) error
	noSplit  bool
}

type bctx struct {
	n     *node
	c     *conn
	rng   *mrand.Rand
	mode  int // how this step's writes are split into reads of the node (splitChunk)
	limit time.Duration
	sent  []sentMsg // the well-framed messages built in this step (for counting the blocks / confirm packets they carry)
}

type sentMsg struct {
	code    uint32
	payload []byte
}

// send writes x to the node in the pieces of the step's split mode (used by the classes that also have to read).
func (b *bctx) send(x []byte) error {
	for _, part := range splitChunk(x, b.mode) {
		b.c.cli.SetWriteDeadline(time.Now().Add(20 * time.Second))
		if _, err := b.c.cli.Write(part); err != nil {
			return err
		}
	}
	return nil
}

func raw(length uint32, body []byte) []byte {
	h := make([]byte, 6, 6+len(body))
	copy(h, prefix)
	binary.BigEndian.PutUint32(h[2:], length)
	return append(h, body...)
}

func (b *bctx) rnd(n int) []byte {
	x := make([]byte, n)
	b.rng.Read(x)
	return x
}

// encFrame is what a legitimate remote's packFrame produces for an arbitrary plaintext (which normally is code||payload).
func (b *bctx) encFrame(plaintext []byte) []byte {
	ct, err := crypto.AesEncrypt(plaintext, b.c.aes)
	if err != nil {
		panic(err)
	}
	return raw(uint32(len(ct)), ct)
}

func (b *bctx) msg(code uint32, payload []byte) []byte {
	if code == cBlocks || code == cConfirm {
		b.sent = append(b.sent, sentMsg{code, payload})
	}
	pt := make([]byte, 4, 4+len(payload))
	binary.BigEndian.PutUint32(pt, code)
	return b.encFrame(append(pt, payload...))
}

func enc(v interface{}) []byte {
	x, err := rlp.EncodeToBytes(v)
	if err != nil {
		panic(err)
	}
	return x
}

// ------------------------------------------------------------------ the genuine client handshake (hook-free re-implementation
// of p2p.clientEncHandshake from exported primitives, so the attacker knows the session key like any legitimate remote)

type authReq struct {
	Signature    [65]byte
	ClientPubKey [64]byte
	InitNonce    [32]byte
}
type authResp struct {
	RandomPubKey [64]byte
	RespNonce    [32]byte
}

func xor(a, b []byte) []byte {
	r := make([]byte, len(a))
	for i := range a {
		r[i] = a[i] ^ b[i]
	}
	return r
}

type hsState struct {
	req       *authReq
	randomPrv *ecies.PrivateKey
	nonce     []byte
}

func (b *bctx) makeAuthReq(key *ecdsa.PrivateKey) *hsState { return b.makeAuthReqOpt(key, nil, nil) }

// makeAuthReqOpt: nonce / token nil = what the protocol prescribes (random nonce, ECDH token with the node's static key).
func (b *bctx) makeAuthReqOpt(key *ecdsa.PrivateKey, nonce, token []byte) *hsState {
	srvPub := ecies.ImportECDSAPublic(&b.n.key.PublicKey)
	if nonce == nil {
		nonce = b.rnd(32)
	}
	randomPrv, err := ecies.GenerateKey(rand.Reader, crypto.S256(), nil)
	if err != nil {
		panic(err)
	}
	if token == nil {
		if token, err = ecies.ImportECDSA(key).GenerateShared(srvPub, 16, 16); err != nil {
			panic(err)
		}
	}
	sig, err := crypto.Sign(xor(token, nonce), randomPrv.ExportECDSA())
	if err != nil {
		panic(err)
	}
	req := new(authReq)
	copy(req.Signature[:], sig)
	copy(req.ClientPubKey[:], crypto.PrivateKeyToNodeID(key))
	copy(req.InitNonce[:], nonce)
	return &hsState{req: req, randomPrv: randomPrv, nonce: nonce}
}

func (b *bctx) eciesToNode(pt []byte) []byte {
	ct, err := ecies.Encrypt(rand.Reader, ecies.ImportECDSAPublic(&b.n.key.PublicKey), pt, nil, nil)
	if err != nil {
		panic(err)
	}
	return raw(uint32(len(ct)), ct)
}

func hsGood(b *bctx) error { return hsGoodRun(b, nil, nil) }

// hsGoodRun: the genuine client handshake (st nil = a regular request); trailing is appended inside the plaintext.
func hsGoodRun(b *bctx, st *hsState, trailing []byte) error {
	key := mustKey(anonKeyHex)
	if b.c.key != nil { // (the bystander of the receive-side layer has its own identity)
		key = b.c.key
	}
	if st == nil {
		st = b.makeAuthReq(key)
	}
	if err := b.send(b.eciesToNode(append(enc(st.req), trailing...))); err != nil {
		return fmt.Errorf("write auth request: %v", err)
	}
	body := b.c.waitFrame(20 * time.Second)
	if body == nil {
		return fmt.Errorf("no auth response")
	}
	pt, err := ecies.ImportECDSA(key).Decrypt(body, nil, nil)
	if err != nil {
		return fmt.Errorf("decrypt auth response: %v", err)
	}
	var resp authResp
	if err := rlp.DecodeBytes(pt, &resp); err != nil {
		return fmt.Errorf("decode auth response: %v", err)
	}
	pub := crypto.ToECDSAPub(append([]byte{4}, resp.RandomPubKey[:]...))
	if pub == nil || pub.X == nil {
		return fmt.Errorf("bad random public key in auth response")
	}
	token, err := st.randomPrv.GenerateShared(ecies.ImportECDSAPublic(pub), 16, 16)
	if err != nil {
		return err
	}
	b.c.aes = crypto.Keccak256(token, crypto.Keccak256(resp.RespNonce[:], st.nonce))[:16]
	b.c.key = key
	return nil
}

// ------------------------------------------------------------------ ECIES messages built by hand (SEC 1 as common/crypto/ecies does it:
// secp256k1, AES-128-CTR, HMAC-SHA256, concatKDF with SHA-256), so that every part can be chosen by the attacker

type eciesMsg struct {
	R   []byte // ephemeral public key, 65 bytes
	Em  []byte // IV || ciphertext
	Tag []byte // HMAC-SHA256(SHA-256(Km), Em)
}

func (m *eciesMsg) bytes() []byte { return append(append(append([]byte{}, m.R...), m.Em...), m.Tag...) }

// eciesBuild encrypts to pub; em(ke) returns the encrypted part (nil = regular encryption of plaintext).
func eciesBuild(pub *ecdsa.PublicKey, plaintext []byte, em func(ke []byte) []byte) *eciesMsg {
	R, err := ecies.GenerateKey(rand.Reader, crypto.S256(), nil)
	if err != nil {
		panic(err)
	}
	z, err := R.GenerateShared(ecies.ImportECDSAPublic(pub), 16, 16)
	if err != nil {
		panic(err)
	}
	h := sha256.New()
	h.Write([]byte{0, 0, 0, 1})
	h.Write(z)
	K := h.Sum(nil)
	ke := K[:16]
	kmh := sha256.Sum256(K[16:])
	m := &eciesMsg{R: elliptic.Marshal(crypto.S256(), R.PublicKey.X, R.PublicKey.Y)}
	if em != nil {
		m.Em = em(ke)
	} else {
		blk, err := aes.NewCipher(ke)
		if err != nil {
			panic(err)
		}
		m.Em = make([]byte, 16+len(plaintext))
		rand.Read(m.Em[:16])
		cipher.NewCTR(blk, m.Em[:16]).XORKeyStream(m.Em[16:], plaintext)
	}
	mac := hmac.New(sha256.New, kmh[:])
	mac.Write(m.Em)
	m.Tag = mac.Sum(nil)
	return m
}

var eciesCheck sync.Once
var eciesCheckErr error

// eciesSelfTest: the hand-built messages must be what the real package decrypts (otherwise the classes built from them are vacuous).
func eciesSelfTest() error {
	eciesCheck.Do(func() {
		k, err := crypto.GenerateKey()
		if err != nil {
			eciesCheckErr = err
			return
		}
		for _, pt := range [][]byte{[]byte("x"), bytes.Repeat([]byte("self test "), 40)} {
			got, err := ecies.ImportECDSA(k).Decrypt(eciesBuild(&k.PublicKey, pt, nil).bytes(), nil, nil)
			if err != nil || !bytes.Equal(got, pt) {
				eciesCheckErr = fmt.Errorf("hand-built ECIES message is not decrypted by common/crypto/ecies: %v", err)
			}
		}
	})
	return eciesCheckErr
}

// ------------------------------------------------------------------ the evil listener: the remote side of a connection the node DIALED

// takeRequest reads the handshake request the node sent after dialing and decrypts it with the listener's own key.
func (c *conn) takeRequest() string {
	body := c.waitFrame(5 * time.Second)
	if body == nil {
		return "no request"
	}
	pt, err := ecies.ImportECDSA(mustKey(anonKeyHex)).Decrypt(body, nil, nil)
	if err != nil {
		return "decrypt: " + err.Error()
	}
	req := new(authReq)
	if err := rlp.DecodeBytes(pt, req); err != nil {
		return "decode: " + err.Error()
	}
	if p := crypto.ToECDSAPub(append([]byte{4}, req.ClientPubKey[:]...)); p == nil || p.X == nil {
		return "bad client public key"
	}
	c.req, c.reqRaw = req, body
	return "ok"
}

func (c *conn) clientPub() *ecdsa.PublicKey {
	return crypto.ToECDSAPub(append([]byte{4}, c.req.ClientPubKey[:]...))
}

// respTo frames an ECIES message to the dialing node (the key is the ClientPubKey of its request, i.e. its node id).
func (b *bctx) respTo(pt []byte) []byte {
	ct := eciesBuild(b.c.clientPub(), pt, nil).bytes()
	return raw(uint32(len(ct)), ct)
}

func pub64(k *ecdsa.PublicKey) []byte { return elliptic.Marshal(crypto.S256(), k.X, k.Y)[1:] }

// srvSession does what p2p.serverEncHandshake does with a request: recover the client's random key, pick an own one and a nonce.
func (b *bctx) srvSession() (resp *authResp, aesKey []byte, err error) {
	evil := mustKey(anonKeyHex)
	token, err := ecies.ImportECDSA(evil).GenerateShared(ecies.ImportECDSAPublic(b.c.clientPub()), 16, 16)
	if err != nil {
		return nil, nil, err
	}
	rp, err := crypto.Ecrecover(xor(token, b.c.req.InitNonce[:]), b.c.req.Signature[:])
	if err != nil {
		return nil, nil, fmt.Errorf("recover the node's random key: %v", err)
	}
	remoteRandom := crypto.ToECDSAPub(rp)
	if remoteRandom == nil || remoteRandom.X == nil {
		return nil, nil, fmt.Errorf("recovered key invalid")
	}
	randomPrv, err := ecies.GenerateKey(rand.Reader, crypto.S256(), nil)
	if err != nil {
		return nil, nil, err
	}
	resp = new(authResp)
	copy(resp.RandomPubKey[:], pub64(randomPrv.ExportECDSA().Public().(*ecdsa.PublicKey)))
	copy(resp.RespNonce[:], b.rnd(32))
	tk, err := randomPrv.GenerateShared(ecies.ImportECDSAPublic(remoteRandom), 16, 16)
	if err != nil {
		return nil, nil, err
	}
	return resp, crypto.Keccak256(tk, crypto.Keccak256(resp.RespNonce[:], b.c.req.InitNonce[:]))[:16], nil
}

// ohsGood: the genuine response; trailing != nil is appended inside the plaintext.
func ohsGood(trailing []byte) func(b *bctx) error {
	return func(b *bctx) error {
		resp, key, err := b.srvSession()
		if err != nil {
			return err
		}
		if err := b.send(b.respTo(append(enc(resp), trailing...))); err != nil {
			return fmt.Errorf("write auth response: %v", err)
		}
		b.c.aes = key
		b.c.key = mustKey(anonKeyHex)
		return nil
	}
}

// validPoint is the public key of a fresh key pair (64 bytes).
func validPoint() []byte {
	k, err := crypto.GenerateKey()
	if err != nil {
		panic(err)
	}
	return pub64(&k.PublicKey)
}

// ------------------------------------------------------------------ payload helpers

func (b *bctx) status(cur uint32, curHash common.Hash, sta uint32, staHash common.Hash) network.LatestStatus {
	return network.LatestStatus{CurHeight: cur, CurHash: curHash, StaHeight: sta, StaHash: staHash}
}

func (b *bctx) hash() common.Hash { return common.BytesToHash(b.rnd(32)) }

func (b *bctx) phs(chain uint16, genesis common.Hash, st network.LatestStatus) []byte {
	return (&network.ProtocolHandshake{ChainID: chain, GenesisHash: genesis, NodeVersion: params.VersionUint(), LatestStatus: st}).Bytes()
}

func (b *bctx) tx(key *ecdsa.PrivateKey, amount int64, exp uint64, sign bool) *types.Transaction {
	from := crypto.PubkeyToAddress(key.PublicKey)
	tx := types.NewTransaction(from, common.HexToAddress("12AB"), big.NewInt(amount), 1000000, params.MinGasPrice, []byte{}, params.OrdinaryTx, chainID, exp, "", "")
	if sign {
		var err error
		if tx, err = (types.DefaultSigner{}).SignTx(tx, key); err != nil {
			panic(err)
		}
	}
	return tx
}

// block builds a block on `parent`; signed by key when key != nil.
func (b *bctx) block(parent common.Hash, height uint32, tm uint32, key *ecdsa.PrivateKey, extra string, txs types.Transactions) *types.Block {
	miner := common.BytesToAddress(b.rnd(20))
	if key != nil {
		miner = crypto.PubkeyToAddress(key.PublicKey)
	}
	h := &types.Header{ParentHash: parent, MinerAddress: miner, VersionRoot: b.hash(), TxRoot: txs.MerkleRootSha(),
		LogRoot: b.n.genesis.Header.LogRoot, Height: height, GasLimit: 105000000, Time: tm, Extra: extra}
	if key != nil {
		hash := h.Hash()
		sig, err := crypto.Sign(hash[:], key)
		if err != nil {
			panic(err)
		}
		h.SignData = sig
	} else {
		h.SignData = b.rnd(65)
	}
	return &types.Block{Header: h, Txs: txs}
}

func half(x []byte) []byte { return x[:len(x)/2] }

func sortStrings(x []string) { sort.Strings(x) }

func now() uint32 { return uint32(time.Now().Unix()) }

// txWire has the RLP layout of types.Transaction (chain/types/tx.go txdata): a remote party can put anything into any field.
type txWire struct {
	Type          uint16
	Version       uint8
	ChainID       uint16
	From          common.Address
	GasPayer      *common.Address `rlp:"nil"`
	Recipient     *common.Address `rlp:"nil"`
	RecipientName string
	GasPrice      *big.Int
	GasLimit      uint64
	GasUsed       uint64
	Amount        *big.Int
	Data          []byte
	Expiration    uint64
	Message       string
	Sigs          [][]byte
	GasPayerSigs  [][]byte
}

// wireOf re-reads an encoded transaction field by field.
func wireOf(tx *types.Transaction) *txWire {
	w := new(txWire)
	if err := rlp.DecodeBytes(enc(tx), w); err != nil {
		panic(fmt.Sprintf("txWire does not match the transaction encoding: %v", err))
	}
	return w
}

// txOf turns hand-written fields back into a transaction the way the node will decode them.
func txOf(w *txWire) *types.Transaction {
	tx := new(types.Transaction)
	if err := rlp.DecodeBytes(enc(w), tx); err != nil {
		panic(fmt.Sprintf("hand-written transaction does not decode: %v", err))
	}
	return tx
}

func (b *bctx) sign(tx *types.Transaction, key *ecdsa.PrivateKey) *types.Transaction {
	stx, err := (types.DefaultSigner{}).SignTx(tx, key)
	if err != nil {
		panic(err)
	}
	return stx
}

// txAny: an ordinary-looking transaction with the given type, receiver and data, signed by deputy key 1.
func (b *bctx) txAny(txType uint16, to *common.Address, data []byte, exp uint64, chain uint16, gasLimit uint64, gasPrice, amount *big.Int, toName, msg string) *types.Transaction {
	key := b.n.depKeys[1]
	from := crypto.PubkeyToAddress(key.PublicKey)
	var tx *types.Transaction
	if to == nil {
		tx = types.NoReceiverTransaction(from, amount, gasLimit, gasPrice, data, txType, chain, exp, toName, msg)
	} else {
		tx = types.NewTransaction(from, *to, amount, gasLimit, gasPrice, data, txType, chain, exp, toName, msg)
	}
	return b.sign(tx, key)
}

func (b *bctx) boxTx(data string, exp uint64) *types.Transaction {
	return b.txAny(params.BoxTx, nil, []byte(data), exp, chainID, 2000000, params.MinGasPrice, big.NewInt(0), "", "")
}

func (b *bctx) boxOf(subs types.Transactions, exp uint64) *types.Transaction {
	data, err := types.MarshalBoxData(subs)
	if err != nil {
		panic(err)
	}
	return b.boxTx(string(data), exp)
}

// absurdTx builds the transaction of the class Txs_<v> / Blocks_Deputy<v>; exp is a valid expiration time.
func (b *bctx) absurdTx(v string, exp uint64) *types.Transaction {
	to := common.HexToAddress("12AB")
	ord := func() *types.Transaction { return b.tx(b.n.depKeys[1], int64(1+b.rng.Intn(1000)), exp, true) }
	switch v {
	case "WrongChain":
		return b.txAny(params.OrdinaryTx, &to, nil, exp, uint16(1+b.rng.Intn(150)), 1000000, params.MinGasPrice, big.NewInt(5), "", "")
	case "FarFuture":
		return b.txAny(params.OrdinaryTx, &to, nil, ^uint64(0)-uint64(b.rng.Intn(3)), chainID, 1000000, params.MinGasPrice, big.NewInt(5), "", "")
	case "UnknownType":
		return b.txAny(uint16(0x100+b.rng.Intn(0xfeff)), &to, b.rnd(20), exp, chainID, 1000000, params.MinGasPrice, big.NewInt(5), "", "")
	case "HugeAmount":
		return b.txAny(params.OrdinaryTx, &to, nil, exp, chainID, 1000000, params.MinGasPrice, new(big.Int).Lsh(big.NewInt(1), uint(256+b.rng.Intn(4000))), "", "")
	case "GasLimitMax":
		return b.txAny(params.OrdinaryTx, &to, nil, exp, chainID, ^uint64(0), new(big.Int).Lsh(big.NewInt(1), 255), big.NewInt(5), "", "")
	case "GasPriceZero":
		return b.txAny(params.OrdinaryTx, &to, nil, exp, chainID, 1000000, big.NewInt(0), big.NewInt(5), "", "")
	case "SigZero":
		w := wireOf(ord())
		w.Sigs = [][]byte{make([]byte, 65)}
		return txOf(w)
	case "SigShort":
		w := wireOf(ord())
		w.Sigs = [][]byte{b.rnd(b.rng.Intn(65)), {}}
		w.GasPayerSigs = [][]byte{b.rnd(3)}
		return txOf(w)
	case "ManySigs":
		w := wireOf(ord())
		for i := 0; i < 300; i++ {
			w.Sigs = append(w.Sigs, b.rnd(65))
		}
		return txOf(w)
	case "HugeMessage":
		return b.txAny(params.OrdinaryTx, &to, nil, exp, chainID, 1000000, params.MinGasPrice, big.NewInt(5), "", string(make([]byte, 100000)))
	case "BadToName":
		names := []string{"bad name!", "\x00\xff\xfe", strings.Repeat("n", 5000), "a/../b"}
		return b.txAny(params.OrdinaryTx, &to, nil, exp, chainID, 1000000, params.MinGasPrice, big.NewInt(5), names[b.rng.Intn(len(names))], "")
	case "DataGarbageJson": // the types whose data is JSON
		kinds := []uint16{params.CreateAssetTx, params.IssueAssetTx, params.ReplenishAssetTx, params.ModifyAssetTx, params.TransferAssetTx, params.ModifySignersTx, params.RegisterTx}
		k := kinds[b.rng.Intn(len(kinds))]
		junk := []string{"{{{{", "null", "[null]", "{\"a\":", "\xff\xfe", "{}", "[]", "0"}
		var rcv *common.Address
		if types.IsToExist(k, &to) {
			rcv = &to
		}
		return b.txAny(k, rcv, []byte(junk[b.rng.Intn(len(junk))]), exp, chainID, 2000000, params.MinGasPrice, big.NewInt(0), "", "")
	case "AssetAbsurd":
		a := &types.Asset{Category: uint32(b.rng.Intn(1 << 30)), IsDivisible: b.rng.Intn(2) == 0, Decimal: ^uint32(0), TotalSupply: big.NewInt(-5),
			IsReplenishable: true, Profile: types.Profile{"": "", strings.Repeat("k", 3000): strings.Repeat("v", 3000)}}
		data, err := json.Marshal(a)
		if err != nil {
			panic(err)
		}
		return b.txAny(params.CreateAssetTx, nil, data, exp, chainID, 2000000, params.MinGasPrice, big.NewInt(0), "", "")
	case "BoxEmpty":
		return b.boxTx(`{"subTxList":[]}`, exp)
	case "BoxGarbageJson":
		junk := []string{"{{{", `{"subTxList":[{}]}`, `{"subTxList":null}`, `{"subTxList":"x"}`, "[]", "null", `{"subTxList":[[]]}`, `{"subTxList":[1]}`}
		return b.boxTx(junk[b.rng.Intn(len(junk))], exp)
	case "BoxNested":
		return b.boxOf(types.Transactions{b.boxOf(types.Transactions{ord()}, exp)}, exp)
	case "BoxSubExpired":
		return b.boxOf(types.Transactions{b.tx(b.n.depKeys[2], 7, 1000, true)}, exp)
	case "BoxNullSub": // a sub transaction that is JSON null (not signed through the repository's signer: hashing such a transaction is what fails)
		junk := []string{`{"subTxList":[null]}`, `{"subTxList":[null,null]}`}
		from := crypto.PubkeyToAddress(b.n.depKeys[1].PublicKey)
		w := wireOf(types.NoReceiverTransaction(from, big.NewInt(0), 2000000, params.MinGasPrice, []byte(junk[b.rng.Intn(len(junk))]), params.BoxTx, chainID, exp, "", ""))
		w.Sigs = [][]byte{b.rnd(65)}
		return txOf(w)
	case "Unsigned":
		return b.tx(b.n.depKeys[1], 5, exp, false)
	case "Expired":
		return b.tx(b.n.depKeys[1], 5, 1000, true)
	}
	panic("no absurd transaction " + v)
}

var absurdTxs = map[string]bool{"WrongChain": true, "FarFuture": true, "UnknownType": true, "HugeAmount": true, "GasLimitMax": true, "GasPriceZero": true,
	"SigZero": true, "SigShort": true, "ManySigs": true, "HugeMessage": true, "BadToName": true, "DataGarbageJson": true, "AssetAbsurd": true,
	"BoxEmpty": true, "BoxGarbageJson": true, "BoxNested": true, "BoxSubExpired": true, "BoxNullSub": true}

// resign signs the header again after a field was changed.
func resign(blk *types.Block, key *ecdsa.PrivateKey) *types.Block {
	blk.Header.SignData = nil
	h := blk.Header.Copy() // drops the cached signer
	hash := h.Hash()
	sig, err := crypto.Sign(hash[:], key)
	if err != nil {
		panic(err)
	}
	h.SignData = sig
	blk.Header = h
	return blk
}

func (b *bctx) depSig(hash common.Hash, key *ecdsa.PrivateKey) (sd types.SignData) {
	sig, err := crypto.Sign(hash[:], key)
	if err != nil {
		panic(err)
	}
	copy(sd[:], sig)
	return sd
}

// ------------------------------------------------------------------ the classes

const (
	cPhs     = uint32(p2p.ProHandshakeMsg)
	cStatus  = uint32(p2p.LstStatusMsg)
	cGetStat = uint32(p2p.GetLstStatusMsg)
	cHash    = uint32(p2p.BlockHashMsg)
	cTxs     = uint32(p2p.TxsMsg)
	cGetBlk  = uint32(p2p.GetBlocksMsg)
	cBlocks  = uint32(p2p.BlocksMsg)
	cConfirm = uint32(p2p.ConfirmMsg)
	cGetConf = uint32(p2p.GetConfirmsMsg)
	cConfs   = uint32(p2p.ConfirmsMsg)
	cDiscReq = uint32(p2p.DiscoverReqMsg)
	cDiscRes = uint32(p2p.DiscoverResMsg)
	cGetBlkC = uint32(p2p.GetBlocksWithChangeLogMsg)
)

var msgCodes = map[string]uint32{"Phs": cPhs, "Status": cStatus, "GetStatus": cGetStat, "Hash": cHash, "Txs": cTxs, "GetBlocks": cGetBlk,
	"Blocks": cBlocks, "Confirm": cConfirm, "GetConfirms": cGetConf, "Confirms": cConfs, "DiscReq": cDiscReq, "DiscRes": cDiscRes, "GetBlocksCL": cGetBlkC}

// goodPayload is a well-formed benign payload for every message code.
func (b *bctx) goodPayload(name string) []byte {
	g := b.n.genesis
	switch name {
	case "Phs":
		return b.phs(chainID, g.Hash(), b.status(0, g.Hash(), 0, g.Hash()))
	case "Status":
		return enc(b.status(0, g.Hash(), 0, g.Hash()))
	case "GetStatus":
		return enc(&network.GetLatestStatus{Revert: 0})
	case "Hash":
		return enc(&network.BlockHashData{Height: 5, Hash: b.hash()})
	case "Txs":
		return enc(types.Transactions{b.tx(b.n.depKeys[1], int64(1+b.rng.Intn(1000)), uint64(now())+600, true)})
	case "GetBlocks", "GetBlocksCL":
		return enc(&network.GetBlocksData{From: 0, To: 0})
	case "Blocks":
		return enc(types.Blocks{b.block(b.hash(), 7, now()-10, nil, "", nil)}) // an orphan: cached, parent requested
	case "Confirm":
		d := &network.BlockConfirmData{Hash: b.hash(), Height: 3}
		copy(d.SignInfo[:], b.rnd(65))
		return enc(d)
	case "GetConfirms":
		return enc(&network.GetConfirmInfo{Height: 0, Hash: g.Hash()})
	case "Confirms":
		d := &network.BlockConfirms{Height: 0, Hash: g.Hash(), Pack: make([]types.SignData, 2)}
		copy(d.Pack[0][:], b.rnd(65))
		copy(d.Pack[1][:], b.rnd(65))
		return enc(d)
	case "DiscReq":
		return enc(&network.DiscoverReqData{Sequence: 1})
	case "DiscRes":
		id := crypto.PrivateKeyToNodeID(b.n.depKeys[2])
		return enc(&network.DiscoverResData{Sequence: 1, Nodes: []string{fmt.Sprintf("%x@127.0.0.1:7003", id)}})
	}
	panic("no good payload for " + name)
}

// build returns the attacker's plan for a class; ok=false for an unknown class name.
func (b *bctx) build(cls string) (p plan, ok bool) {
	g := b.n.genesis
	one := func(x []byte) (plan, bool) { return plan{chunks: [][]byte{x}}, true }
	cut := func(x []byte) (plan, bool) { return plan{chunks: [][]byte{x}, closeEnd: true}, true }

	// generic message classes  <Code>_<Variant>
	for name, code := range msgCodes {
		switch cls {
		case name + "_Good":
			return one(b.msg(code, b.goodPayload(name)))
		case name + "_Empty":
			return one(b.msg(code, nil))
		case name + "_Trunc":
			return one(b.msg(code, half(b.goodPayload(name))))
		case name + "_WrongType":
			return one(b.msg(code, enc([]interface{}{"a string where a number belongs", []interface{}{}, b.rnd(40)})))
		case name + "_Garbage": // random bytes that do not start an RLP list (every payload type is a list)
			g := b.rnd(1 + b.rng.Intn(300))
			g[0] = byte(b.rng.Intn(0xc0))
			return one(b.msg(code, g))
		case name + "_Trailing": // a good payload followed by extra bytes
			return one(b.msg(code, append(b.goodPayload(name), b.rnd(9)...)))
		}
	}

	nodePub := &b.n.key.PublicKey
	framed := func(m *eciesMsg) []byte { x := m.bytes(); return raw(uint32(len(x)), x) }
	if strings.HasPrefix(cls, "Ohs") && b.c.req == nil {
		return plan{special: func(*bctx) error { return fmt.Errorf("the evil listener has no request to answer") }}, true
	}

	if strings.HasPrefix(cls, "Txs_") && absurdTxs[cls[4:]] {
		return one(b.msg(cTxs, enc(types.Transactions{b.absurdTx(cls[4:], uint64(now())+600)})))
	}

	switch cls {
	// ---------------------------------------------------------- the handshake packet reader (node is in readHandshakeBuf): the same
	// bytes serve as a request (node accepted) and as a response (node dialed); both are ECIES messages to the node's static key
	case "HsBadMagic":
		return one(append([]byte{0x5a, 0x49, 0, 0, 0, 16}, b.rnd(16)...))
	case "HsZeroLen":
		return one(raw(0, nil))
	case "HsOverLen": // above every limit the handshake reader ever had (1 GiB)
		return one(raw((1<<30)+1, nil))
	case "HsHugeLenTrunc": // length field 1 GiB, ten bytes, EOF
		return cut(raw(1<<30, b.rnd(10)))
	case "HsLen64MTrunc":
		return cut(raw(64<<20, b.rnd(10)))
	case "HsTruncHeader":
		return cut(raw(200, nil)[:1+b.rng.Intn(5)])
	case "HsTruncBody":
		return cut(raw(200, b.rnd(b.rng.Intn(200))))
	case "HsGarbageBody":
		return one(raw(307, b.rnd(307)))
	case "HsShortBody": // shorter than any ECIES message (65+16+32)
		k := 1 + b.rng.Intn(100)
		return one(raw(uint32(k), b.rnd(k)))
	case "HsMaxLenGarbage": // the largest packet the handshake reader admits, starting like an uncompressed point
		x := b.rnd(64 << 10)
		x[0] = 4
		return plan{chunks: [][]byte{raw(uint32(len(x)), x)}, noSplit: true}, true
	case "HsEciesBadMac":
		m := eciesBuild(nodePub, enc(b.makeAuthReq(mustKey(anonKeyHex)).req), nil)
		m.Tag[b.rng.Intn(32)] ^= byte(1 << uint(b.rng.Intn(8)))
		return one(framed(m))
	case "HsEciesWrongKey": // a flawless message for somebody else
		return one(framed(eciesBuild(&b.n.depKeys[1].PublicKey, enc(b.makeAuthReq(mustKey(anonKeyHex)).req), nil)))
	case "HsEciesEphemOffCurve": // the ephemeral key is no curve point (random, zero, or a point with a wrong y)
		m := eciesBuild(nodePub, b.rnd(161), nil)
		switch b.rng.Intn(3) {
		case 0:
			copy(m.R[1:], b.rnd(64))
		case 1:
			copy(m.R[1:], make([]byte, 64))
		default:
			m.R[64] ^= 1
		}
		return one(framed(m))
	case "HsEciesEphemCompressed": // the compressed forms 02/03 are admitted by the length check
		m := eciesBuild(nodePub, b.rnd(161), nil)
		m.R[0] = byte(2 + b.rng.Intn(2))
		return one(framed(m))
	case "HsEciesShortEm": // a valid MAC over an encrypted part of 1..15 bytes (shorter than the IV)
		if err := eciesSelfTest(); err != nil {
			return plan{special: func(*bctx) error { return err }}, true
		}
		k := 1 + b.rng.Intn(15)
		return one(framed(eciesBuild(nodePub, nil, func([]byte) []byte { return b.rnd(k) })))
	case "HsEciesEmptyPlain": // the encrypted part is the IV alone: empty plaintext
		return one(framed(eciesBuild(nodePub, nil, nil)))
	case "HsEciesEmptyList":
		return one(framed(eciesBuild(nodePub, []byte{0xc0}, nil)))
	case "HsEciesGarbageRlp": // random plaintext that does not start a list
		g := b.rnd(1 + b.rng.Intn(200))
		g[0] = byte(b.rng.Intn(0xc0))
		return one(b.eciesToNode(g))
	case "HsEciesShortRlp": // a list whose first field is too short for either packet type
		return one(b.eciesToNode(enc([]interface{}{b.rnd(63), b.rnd(3)})))
	case "HsEciesWrongType":
		return one(b.eciesToNode(enc("just a string")))
	case "HsEciesBigPlain": // the genuine packet of the phase followed by 60 KiB inside the plaintext
		if b.c.dir == "out" {
			if b.c.req == nil {
				return plan{special: func(*bctx) error { return fmt.Errorf("the evil listener has no request to answer") }}, true
			}
			return plan{special: ohsGood(b.rnd(60 << 10))}, true
		}
		return plan{special: func(b *bctx) error { return hsGoodRun(b, nil, b.rnd(60<<10)) }}, true

	// ---------------------------------------------------------- the node accepted: content of the handshake request
	case "HsGood":
		return plan{special: hsGood}, true
	case "HsZeroRequest":
		return one(b.eciesToNode(enc(new(authReq))))
	case "HsBadSig":
		st := b.makeAuthReq(mustKey(anonKeyHex))
		copy(st.req.Signature[:], b.rnd(65))
		return one(b.eciesToNode(enc(st.req)))
	case "HsSigBadV":
		st := b.makeAuthReq(mustKey(anonKeyHex))
		st.req.Signature[64] = byte(4 + b.rng.Intn(250))
		return one(b.eciesToNode(enc(st.req)))
	case "HsSigZero":
		st := b.makeAuthReq(mustKey(anonKeyHex))
		st.req.Signature = [65]byte{}
		return one(b.eciesToNode(enc(st.req)))
	case "HsPubNotOnCurve":
		st := b.makeAuthReq(mustKey(anonKeyHex))
		copy(st.req.ClientPubKey[:], b.rnd(64))
		return one(b.eciesToNode(enc(st.req)))
	case "HsPubZero":
		st := b.makeAuthReq(mustKey(anonKeyHex))
		st.req.ClientPubKey = [64]byte{}
		return one(b.eciesToNode(enc(st.req)))
	case "HsPubXOnly": // x of a curve point with another y
		st := b.makeAuthReq(mustKey(anonKeyHex))
		st.req.ClientPubKey[63] ^= 1
		return one(b.eciesToNode(enc(st.req)))
	case "HsSelfId": // claims the node's own identity (cannot know its key: signature over a wrong token)
		st := b.makeAuthReq(mustKey(anonKeyHex))
		copy(st.req.ClientPubKey[:], crypto.PrivateKeyToNodeID(b.n.key))
		return one(b.eciesToNode(enc(st.req)))
	case "HsSigOtherToken": // a well-formed signature over something else than the shared token
		return one(b.eciesToNode(enc(b.makeAuthReqOpt(mustKey(anonKeyHex), nil, b.rnd(32)).req)))
	case "HsClaimDeputy": // claims a deputy's identity without its key
		st := b.makeAuthReq(mustKey(anonKeyHex))
		copy(st.req.ClientPubKey[:], crypto.PrivateKeyToNodeID(b.n.depKeys[1]))
		return one(b.eciesToNode(enc(st.req)))
	case "HsZeroNonce": // protocol-conformant but for the nonce
		return plan{special: func(b *bctx) error {
			return hsGoodRun(b, b.makeAuthReqOpt(mustKey(anonKeyHex), make([]byte, 32), nil), nil)
		}}, true
	case "HsNonceShort", "HsNonceLong", "HsExtraField":
		st := b.makeAuthReq(mustKey(anonKeyHex))
		l := []interface{}{st.req.Signature[:], st.req.ClientPubKey[:], st.req.InitNonce[:]}
		switch cls {
		case "HsNonceShort":
			l[2] = b.rnd(b.rng.Intn(32))
		case "HsNonceLong":
			l[2] = b.rnd(33 + b.rng.Intn(200))
		default:
			l = append(l, b.rnd(1+b.rng.Intn(40)), []interface{}{})
		}
		return one(b.eciesToNode(enc(l)))
	case "HsResponseAsRequest":
		r := new(authResp)
		copy(r.RandomPubKey[:], validPoint())
		copy(r.RespNonce[:], b.rnd(32))
		return one(b.eciesToNode(enc(r)))

	// ---------------------------------------------------------- the node dialed: content of the handshake response
	case "OhsGood":
		return plan{special: ohsGood(nil)}, true
	case "OhsPubOffCurve", "OhsPubZero", "OhsPubXOnly", "OhsPubNodeStatic", "OhsPubGenerator", "OhsZeroNonce":
		r := new(authResp)
		copy(r.RandomPubKey[:], validPoint())
		copy(r.RespNonce[:], b.rnd(32))
		switch cls {
		case "OhsPubOffCurve": // 64 bytes that are no curve point (64 x 0x01 is one instance)
			if b.rng.Intn(3) == 0 {
				copy(r.RandomPubKey[:], bytes.Repeat([]byte{1}, 64))
			} else {
				copy(r.RandomPubKey[:], b.rnd(64))
			}
		case "OhsPubZero":
			r.RandomPubKey = [64]byte{}
		case "OhsPubXOnly":
			r.RandomPubKey[63] ^= 1
		case "OhsPubNodeStatic":
			copy(r.RandomPubKey[:], pub64(nodePub))
		case "OhsPubGenerator":
			p := crypto.S256().Params()
			copy(r.RandomPubKey[:], elliptic.Marshal(crypto.S256(), p.Gx, p.Gy)[1:])
		case "OhsZeroNonce":
			r.RespNonce = [32]byte{}
		}
		return one(b.respTo(enc(r)))
	case "OhsPubEmpty", "OhsNonceShort", "OhsNonceLong", "OhsNonceMissing", "OhsExtraField":
		l := []interface{}{validPoint(), b.rnd(32)}
		switch cls {
		case "OhsPubEmpty":
			l[0] = []byte{}
		case "OhsNonceShort":
			l[1] = b.rnd(b.rng.Intn(32))
		case "OhsNonceLong":
			l[1] = b.rnd(33 + b.rng.Intn(200))
		case "OhsNonceMissing":
			l = l[:1]
		default:
			l = append(l, b.rnd(1+b.rng.Intn(40)), []interface{}{})
		}
		return one(b.respTo(enc(l)))
	case "OhsEchoRequest": // the node's own request sent back (it is encrypted to the listener's key, not to the node's)
		return one(raw(uint32(len(b.c.reqRaw)), b.c.reqRaw))
	case "OhsRequestAsResponse": // a request-shaped packet (65, 64, 32 bytes) as the answer
		return one(b.respTo(enc(b.makeAuthReq(mustKey(anonKeyHex)).req)))

	// ---------------------------------------------------------- raw / encrypted frames after the handshake (node is in Peer.readLoop)
	case "FrBadMagic":
		return one(append([]byte{0x48, 0x5a, 0, 0, 0, 16}, b.rnd(16)...))
	case "FrZeroLen":
		return one(raw(0, nil))
	case "FrOverLen":
		return one(raw(params.MaxPackageLength+1, nil))
	case "FrLenNot16": // ciphertext length not a multiple of the AES block size (the 11-byte frame 5a48 00000005 0102030405 is one instance)
		k := 1 + b.rng.Intn(200)
		if k%16 == 0 {
			k++
		}
		if b.rng.Intn(3) == 0 {
			return one([]byte{0x5a, 0x48, 0, 0, 0, 5, 1, 2, 3, 4, 5})
		}
		return one(raw(uint32(k), b.rnd(k)))
	case "FrGarbage16":
		k := 16 * (1 + b.rng.Intn(20))
		return one(raw(uint32(k), b.rnd(k)))
	case "FrPlain0":
		return one(b.encFrame(nil))
	case "FrPlain1":
		return one(b.encFrame(b.rnd(1)))
	case "FrPlain2":
		return one(b.encFrame(b.rnd(2)))
	case "FrPlain3":
		return one(b.encFrame(b.rnd(3)))
	case "FrCodeHigh":
		codes := []uint32{0x20, 0x21, 0xff, 0x100, 0x7fffffff, 0x80000000, 0xffffffff}
		return one(b.msg(codes[b.rng.Intn(len(codes))], b.rnd(b.rng.Intn(40))))
	case "FrTruncHeader":
		return cut(raw(64, nil)[:1+b.rng.Intn(5)])
	case "FrTruncBody":
		return cut(raw(64, b.rnd(b.rng.Intn(64))))
	case "FrMaxLenTrunc": // the largest admissible length, a few bytes, EOF
		return cut(raw(params.MaxPackageLength, b.rnd(10)))
	case "FrMaxLenGarbage":
		p := plan{chunks: [][]byte{raw(params.MaxPackageLength, make([]byte, params.MaxPackageLength))}, noSplit: true}
		return p, true
	case "FrHeartbeat":
		return one(b.msg(uint32(p2p.HeartbeatMsg), nil))
	case "FrHeartbeatPayload":
		return one(b.msg(uint32(p2p.HeartbeatMsg), b.rnd(1000)))
	case "FrCodeUnassigned": // admitted by the frame layer (<= 0x1F), unknown to the protocol
		codes := []uint32{0x00, 0x0f, 0x10, 0x1e, 0x1f}
		return one(b.msg(codes[b.rng.Intn(len(codes))], b.rnd(b.rng.Intn(40))))

	// ---------------------------------------------------------- protocol handshake variants
	case "Phs_Higher":
		return one(b.msg(cPhs, b.phs(chainID, g.Hash(), b.status(1000, b.hash(), 900, b.hash()))))
	case "Phs_Max":
		return one(b.msg(cPhs, b.phs(chainID, g.Hash(), b.status(^uint32(0), b.hash(), ^uint32(0), b.hash()))))
	case "Phs_StaGtCur":
		return one(b.msg(cPhs, b.phs(chainID, g.Hash(), b.status(3, b.hash(), 900, b.hash()))))
	case "Phs_OtherChain":
		return one(b.msg(cPhs, b.phs(1, b.hash(), b.status(0, b.hash(), 0, b.hash()))))
	case "Phs_WrongCode":
		return one(b.msg(cConfirm, b.goodPayload("Phs")))
	case "Phs_VersionZero", "Phs_VersionMax": // a version the node cannot know
		v := uint32(0)
		if cls == "Phs_VersionMax" {
			v = ^uint32(0) - uint32(b.rng.Intn(2))
		}
		h := &network.ProtocolHandshake{ChainID: chainID, GenesisHash: g.Hash(), NodeVersion: v, LatestStatus: b.status(0, g.Hash(), 0, g.Hash())}
		return one(b.msg(cPhs, h.Bytes()))
	case "Phs_ZeroHashes":
		return one(b.msg(cPhs, b.phs(chainID, common.Hash{}, b.status(uint32(1+b.rng.Intn(50)), common.Hash{}, 0, common.Hash{}))))
	case "Phs_ExtraField": // one more element inside the list
		st := b.status(0, g.Hash(), 0, g.Hash())
		return one(b.msg(cPhs, enc([]interface{}{uint(chainID), g.Hash(), uint(params.VersionUint()), st, b.rnd(8)})))

	// ---------------------------------------------------------- decodable but absurd payloads
	case "Status_Higher":
		return one(b.msg(cStatus, enc(b.status(1000, b.hash(), 900, b.hash()))))
	case "Status_Max":
		return one(b.msg(cStatus, enc(b.status(^uint32(0), b.hash(), ^uint32(0), b.hash()))))
	case "Status_StaGtCur":
		return one(b.msg(cStatus, enc(b.status(3, b.hash(), 900, b.hash()))))
	case "Status_ZeroHashes":
		return one(b.msg(cStatus, enc(b.status(1000, common.Hash{}, 900, common.Hash{}))))
	case "Hash_ZeroHash":
		return one(b.msg(cHash, enc(&network.BlockHashData{Height: uint32(1 + b.rng.Intn(50)), Hash: common.Hash{}})))
	case "Hash_Max":
		return one(b.msg(cHash, enc(&network.BlockHashData{Height: ^uint32(0), Hash: b.hash()})))
	case "Hash_Known":
		return one(b.msg(cHash, enc(&network.BlockHashData{Height: 0, Hash: g.Hash()})))
	case "Txs_EmptyList":
		return one(b.msg(cTxs, enc(types.Transactions{})))
	case "Txs_Expired":
		return one(b.msg(cTxs, enc(types.Transactions{b.tx(b.n.depKeys[1], 5, 1000, true)})))
	case "Txs_Unsigned":
		return one(b.msg(cTxs, enc(types.Transactions{b.tx(b.n.depKeys[1], 5, uint64(now())+600, false)})))
	case "Txs_NilElem":
		return one(b.msg(cTxs, []byte{0xc2, 0xc0, 0xc0}))
	case "Txs_Duplicate": // the same signed transaction several times in one message
		t := b.tx(b.n.depKeys[1], 9, uint64(now())+600, true)
		return one(b.msg(cTxs, enc(types.Transactions{t, t, t, t})))
	case "Txs_Many":
		var txs types.Transactions
		for i := 0; i < 200; i++ {
			txs = append(txs, b.tx(b.n.depKeys[1+i%2], int64(i+1), uint64(now())+600, true))
		}
		return one(b.msg(cTxs, enc(txs)))
	case "GetBlocks_FromGtTo":
		return one(b.msg(cGetBlk, enc(&network.GetBlocksData{From: 9, To: 3})))
	case "GetBlocks_Beyond":
		return one(b.msg(cGetBlk, enc(&network.GetBlocksData{From: 5, To: 10})))
	case "GetBlocks_Range":
		return one(b.msg(cGetBlk, enc(&network.GetBlocksData{From: 0, To: 25})))
	case "GetBlocks_Wrap": // To-From+1 wraps to 0
		return one(b.msg(cGetBlk, enc(&network.GetBlocksData{From: 0, To: ^uint32(0)})))
	case "GetBlocks_Huge":
		return one(b.msg(cGetBlk, enc(&network.GetBlocksData{From: 0, To: ^uint32(0) - 1})))
	case "GetBlocksCL_Huge":
		return one(b.msg(cGetBlkC, enc(&network.GetBlocksData{From: 0, To: ^uint32(0) - 1})))
	case "GetBlocksCL_FromGtTo":
		return one(b.msg(cGetBlkC, enc(&network.GetBlocksData{From: 9, To: 3})))
	case "GetBlocksCL_Beyond":
		return one(b.msg(cGetBlkC, enc(&network.GetBlocksData{From: 5, To: 10})))
	case "GetBlocksCL_Range":
		return one(b.msg(cGetBlkC, enc(&network.GetBlocksData{From: 0, To: 25})))
	case "GetBlocksCL_Wrap":
		return one(b.msg(cGetBlkC, enc(&network.GetBlocksData{From: 0, To: ^uint32(0)})))
	case "Blocks_EmptyList":
		return one(b.msg(cBlocks, enc(types.Blocks{})))
	case "Blocks_NilBlock": // RLP [ [] ] : a list with one empty element
		return one(b.msg(cBlocks, []byte{0xc1, 0xc0}))
	case "Blocks_OrphanMax":
		return one(b.msg(cBlocks, enc(types.Blocks{b.block(b.hash(), ^uint32(0), now()-10, nil, "", nil)})))
	case "Blocks_OrphanH0":
		return one(b.msg(cBlocks, enc(types.Blocks{b.block(b.hash(), 0, now()-10, nil, "", nil)})))
	case "Blocks_OrphanH1": // height 1 on an unknown parent: "different genesis"
		return one(b.msg(cBlocks, enc(types.Blocks{b.block(b.hash(), 1, now()-10, nil, "", nil)})))
	case "Blocks_ChildUnsigned": // child of the genesis block with a random signature
		return one(b.msg(cBlocks, enc(types.Blocks{b.block(g.Hash(), 1, now()-10, nil, "", nil)})))
	case "Blocks_ChildBadHeight":
		return one(b.msg(cBlocks, enc(types.Blocks{b.block(g.Hash(), 77, now()-10, b.n.depKeys[1], "", nil)})))
	case "Blocks_DeputyFuture": // signed by a deputy, timestamp far in the future
		return one(b.msg(cBlocks, enc(types.Blocks{b.block(g.Hash(), 1, now()+100000, b.n.depKeys[1], "", nil)})))
	case "Blocks_DeputyTimeTiny": // signed by a deputy, timestamp*1000 < 1e10
		return one(b.msg(cBlocks, enc(types.Blocks{b.block(g.Hash(), 1, uint32(b.rng.Intn(9999999)), b.n.depKeys[1], "", nil)})))
	case "Blocks_DeputyBeforeParent": // signed by a deputy, timestamp before the parent's
		return one(b.msg(cBlocks, enc(types.Blocks{b.block(g.Hash(), 1, g.Time()-100, b.n.depKeys[1], "", nil)})))
	case "Blocks_DeputyHugeExtra":
		return one(b.msg(cBlocks, enc(types.Blocks{b.block(g.Hash(), 1, now()-10, b.n.depKeys[1], string(make([]byte, 100000)), nil)})))
	case "Blocks_DeputyBadTxRoot":
		blk := b.block(g.Hash(), 1, now()-10, b.n.depKeys[1], "", nil)
		blk.Txs = types.Transactions{b.tx(b.n.depKeys[2], 1, uint64(now())+600, true)}
		return one(b.msg(cBlocks, enc(types.Blocks{blk})))
	case "Blocks_DeputyPlausible": // right slot arithmetic is not attempted: a deputy-signed, otherwise plausible child of genesis
		return one(b.msg(cBlocks, enc(types.Blocks{b.block(g.Hash(), 1, now()-10, b.n.depKeys[1+b.rng.Intn(2)], "", nil)})))
	case "Blocks_EmptyHeader": // [[ [], [], [], [], [] ]]: a block whose header is the empty list
		return one(b.msg(cBlocks, []byte{0xc6, 0xc5, 0xc0, 0xc0, 0xc0, 0xc0, 0xc0}))
	case "Blocks_ChildSigShort", "Blocks_ChildSigLong": // the signature field is a byte string of any length
		blk := b.block(g.Hash(), 1, now()-10, nil, "", nil)
		if cls == "Blocks_ChildSigShort" {
			blk.Header.SignData = b.rnd(b.rng.Intn(65))
		} else {
			blk.Header.SignData = b.rnd(66 + b.rng.Intn(3000))
		}
		return one(b.msg(cBlocks, enc(types.Blocks{blk})))
	case "Blocks_DupInMsg":
		blk := b.block(g.Hash(), 1, now()-10, b.n.depKeys[1], "", nil)
		return one(b.msg(cBlocks, enc(types.Blocks{blk, blk, blk})))
	case "Blocks_DeputyGasMax":
		blk := b.block(g.Hash(), 1, now()-10, b.n.depKeys[1], "", nil)
		blk.Header.GasLimit, blk.Header.GasUsed = ^uint64(0), ^uint64(0)
		return one(b.msg(cBlocks, enc(types.Blocks{resign(blk, b.n.depKeys[1])})))
	case "Blocks_DeputyManyConfirms":
		blk := b.block(g.Hash(), 1, now()-10, b.n.depKeys[1], "", nil)
		for i := 0; i < 500; i++ {
			var sd types.SignData
			copy(sd[:], b.rnd(65))
			if i%50 == 0 {
				sd = b.depSig(blk.Hash(), b.n.depKeys[1+b.rng.Intn(2)]) // and the same deputies again and again
			}
			blk.Confirms = append(blk.Confirms, sd)
		}
		return one(b.msg(cBlocks, enc(types.Blocks{blk})))
	case "Blocks_DeputyAbsurdDeputyNodes": // a deputy list on a block that is no snapshot block, with entries of every kind
		blk := b.block(g.Hash(), 1, now()-10, b.n.depKeys[1], "", nil)
		blk.DeputyNodes = types.DeputyNodes{
			{MinerAddress: common.Address{}, NodeID: nil, Rank: ^uint32(0), Votes: new(big.Int).Lsh(big.NewInt(1), 4000)},
			{MinerAddress: crypto.PubkeyToAddress(b.n.key.PublicKey), NodeID: b.rnd(3), Rank: 0, Votes: big.NewInt(0)},
			{MinerAddress: crypto.PubkeyToAddress(b.n.key.PublicKey), NodeID: crypto.PrivateKeyToNodeID(b.n.key), Rank: 0, Votes: big.NewInt(1)},
		}
		blk.Header.DeputyRoot = b.rnd(32)
		return one(b.msg(cBlocks, enc(types.Blocks{resign(blk, b.n.depKeys[1])})))
	case "Blocks_DeputyLongDeputyRoot":
		blk := b.block(g.Hash(), 1, now()-10, b.n.depKeys[1], "", nil)
		blk.Header.DeputyRoot = b.rnd(33 + b.rng.Intn(10000))
		return one(b.msg(cBlocks, enc(types.Blocks{resign(blk, b.n.depKeys[1])})))
	case "Blocks_DeputyTimeMax":
		return one(b.msg(cBlocks, enc(types.Blocks{b.block(g.Hash(), 1, ^uint32(0)-uint32(b.rng.Intn(2)), b.n.depKeys[1], "", nil)})))
	case "Blocks_DeputyBadTx": // the transaction root is right, the transaction is one the pool would never take
		var names []string
		for k := range absurdTxs {
			if k != "BoxNullSub" {
				names = append(names, k)
			}
		}
		names = append(names, "Unsigned", "Expired")
		sortStrings(names)
		tm := now() - 10
		txs := types.Transactions{b.absurdTx(names[b.rng.Intn(len(names))], uint64(tm)+600)}
		return one(b.msg(cBlocks, enc(types.Blocks{b.block(g.Hash(), 1, tm, b.n.depKeys[1+b.rng.Intn(2)], "", txs)})))
	case "Blocks_DeputyBoxNullSub": // (its transaction root cannot be computed by anybody)
		tm := now() - 10
		blk := b.block(g.Hash(), 1, tm, b.n.depKeys[1+b.rng.Intn(2)], "", nil)
		blk.Txs = types.Transactions{b.absurdTx("BoxNullSub", uint64(tm)+600)}
		return one(b.msg(cBlocks, enc(types.Blocks{blk})))
	case "Blocks_Flood": // 10241 orphans at distinct heights in one message
		blks := make(types.Blocks, 0, 10241)
		for i := 0; i < 10241; i++ {
			blks = append(blks, b.block(b.hash(), uint32(100+i), now()-10, nil, "", nil))
		}
		return plan{chunks: [][]byte{b.msg(cBlocks, enc(blks))}, noSplit: true}, true
	case "Confirm_Known": // confirm for a block the node has (genesis), garbage signature
		d := &network.BlockConfirmData{Hash: g.Hash(), Height: 0}
		copy(d.SignInfo[:], b.rnd(65))
		return one(b.msg(cConfirm, enc(d)))
	case "Confirm_ZeroSig":
		return one(b.msg(cConfirm, enc(&network.BlockConfirmData{Hash: g.Hash(), Height: 0})))
	case "Confirm_DeputyKnown": // a deputy's valid signature for a block the node has
		return one(b.msg(cConfirm, enc(&network.BlockConfirmData{Hash: g.Hash(), Height: 0, SignInfo: b.depSig(g.Hash(), b.n.depKeys[1+b.rng.Intn(2)])})))
	case "Confirm_DeputyUnknown": // ... for a block nobody has, at a wrong height
		h := b.hash()
		return one(b.msg(cConfirm, enc(&network.BlockConfirmData{Hash: h, Height: uint32(b.rng.Intn(5)), SignInfo: b.depSig(h, b.n.depKeys[1])})))
	case "Confirm_MaxHeight":
		d := &network.BlockConfirmData{Hash: b.hash(), Height: ^uint32(0)}
		return one(b.msg(cConfirm, enc(d)))
	case "Confirm_Flood": // 10241 confirms for distinct unknown heights
		var chunks [][]byte
		for i := 0; i < 10241; i++ {
			d := &network.BlockConfirmData{Hash: b.hash(), Height: uint32(100 + i)}
			chunks = append(chunks, b.msg(cConfirm, enc(d)))
		}
		return plan{chunks: chunks, noSplit: true}, true
	case "GetConfirms_Unknown":
		return one(b.msg(cGetConf, enc(&network.GetConfirmInfo{Height: 12345, Hash: b.hash()})))
	case "GetConfirms_MaxByHeight":
		return one(b.msg(cGetConf, enc(&network.GetConfirmInfo{Height: ^uint32(0)})))
	case "Confirms_Unknown":
		d := &network.BlockConfirms{Height: 9, Hash: b.hash(), Pack: make([]types.SignData, 3)}
		return one(b.msg(cConfs, enc(d)))
	case "Confirms_EmptyPack":
		return one(b.msg(cConfs, enc(&network.BlockConfirms{Height: 0, Hash: g.Hash(), Pack: []types.SignData{}})))
	case "Confirms_DeputyKnown":
		d := &network.BlockConfirms{Height: 0, Hash: g.Hash(), Pack: []types.SignData{b.depSig(g.Hash(), b.n.depKeys[1]), b.depSig(g.Hash(), b.n.depKeys[2]), b.depSig(g.Hash(), b.n.depKeys[1])}}
		return one(b.msg(cConfs, enc(d)))
	case "Confirms_DupPack": // one signature a thousand times
		d := &network.BlockConfirms{Height: 0, Hash: g.Hash()}
		sd := b.depSig(g.Hash(), b.n.depKeys[1])
		for i := 0; i < 1000; i++ {
			d.Pack = append(d.Pack, sd)
		}
		return one(b.msg(cConfs, enc(d)))
	case "Confirms_MaxHeight":
		d := &network.BlockConfirms{Height: ^uint32(0), Hash: b.hash(), Pack: make([]types.SignData, 2)}
		return one(b.msg(cConfs, enc(d)))
	case "Confirms_HugePack":
		d := &network.BlockConfirms{Height: 0, Hash: g.Hash(), Pack: make([]types.SignData, 20000)}
		for i := range d.Pack {
			binary.BigEndian.PutUint32(d.Pack[i][:], uint32(i))
		}
		return plan{chunks: [][]byte{b.msg(cConfs, enc(d))}, noSplit: true}, true
	case "DiscRes_HugeSizeHeader": // list header 2 GiB, Sequence 1, list header ~2 GiB, string header 1 GiB, a few bytes
		return one(b.msg(cDiscRes, append([]byte{0xfb, 0x7f, 0xff, 0xff, 0xff, 0x01, 0xfb, 0x7f, 0x00, 0x00, 0x00, 0xbb, 0x40, 0x00, 0x00, 0x00}, b.rnd(24)...)))
	case "DiscReq_SeqMax":
		return one(b.msg(cDiscReq, enc(&network.DiscoverReqData{Sequence: ^uint(0)})))
	case "DiscRes_Invalid":
		return one(b.msg(cDiscRes, enc(&network.DiscoverResData{Sequence: 1, Nodes: []string{"not a node", ""}})))
	case "DiscRes_EmptyList":
		return one(b.msg(cDiscRes, enc(&network.DiscoverResData{Sequence: 1, Nodes: []string{}})))
	case "DiscRes_SelfId", "DiscRes_OffCurveId", "DiscRes_ZeroId", "DiscRes_BadPort", "DiscRes_BadIp", "DiscRes_ManyAts", "DiscRes_Dup", "DiscRes_HugeString", "DiscRes_NonHexId":
		id := fmt.Sprintf("%x", crypto.PrivateKeyToNodeID(b.n.depKeys[2]))
		var nodes []string
		switch cls {
		case "DiscRes_SelfId": // the node's own id
			nodes = []string{fmt.Sprintf("%x@10.1.2.3:7001", crypto.PrivateKeyToNodeID(b.n.key))}
		case "DiscRes_OffCurveId": // 128 hex digits that are no curve point
			nodes = []string{fmt.Sprintf("%x@10.1.2.3:7001", b.rnd(64))}
		case "DiscRes_ZeroId":
			nodes = []string{strings.Repeat("0", 128) + "@10.1.2.3:7001"}
		case "DiscRes_BadPort":
			ports := []string{"99999", "-1", "0", "65536", "7001x", "", "4294967297", "0x10"}
			nodes = []string{id + "@10.1.2.3:" + ports[b.rng.Intn(len(ports))]}
		case "DiscRes_BadIp":
			ips := []string{"999.1.1.1", "", "::1", "localhost", "1.2.3", "1.2.3.4.5", "[fe80::1]"}
			nodes = []string{id + "@" + ips[b.rng.Intn(len(ips))] + ":7001"}
		case "DiscRes_ManyAts":
			nodes = []string{id + "@10.1.2.3:7001@" + id, "@", "@@", id + "@"}
		case "DiscRes_Dup":
			for i := 0; i < 50; i++ {
				nodes = append(nodes, id+"@10.1.2.3:7001")
			}
		case "DiscRes_HugeString": // one entry of 1 MiB
			nodes = []string{strings.Repeat("a", 1<<20) + "@10.1.2.3:7001"}
		case "DiscRes_NonHexId": // an id part of the right length (128) that is not 128 hex digits
			ids := []string{strings.Repeat("z", 128), "0x" + id[:126], id[:127] + "g", strings.Repeat(" ", 128), id[:64] + strings.Repeat("-", 64)}
			nodes = []string{ids[b.rng.Intn(len(ids))] + "@1.2.3.4:5"}
		}
		p := plan{chunks: [][]byte{b.msg(cDiscRes, enc(&network.DiscoverResData{Sequence: 1, Nodes: nodes}))}}
		p.noSplit = cls == "DiscRes_HugeString"
		return p, true
	case "DiscRes_Many":
		d := &network.DiscoverResData{Sequence: 1}
		for i := 0; i < 2000; i++ {
			k, _ := crypto.GenerateKey()
			d.Nodes = append(d.Nodes, fmt.Sprintf("%x@10.%d.%d.%d:7001", crypto.PrivateKeyToNodeID(k), b.rng.Intn(250), b.rng.Intn(250), 1+b.rng.Intn(250)))
		}
		return plan{chunks: [][]byte{b.msg(cDiscRes, enc(d))}, noSplit: true}, true
	}
	return plan{}, false
}
