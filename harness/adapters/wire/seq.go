package wire

// The message-SEQUENCE layer of spec/Wire.tla (SBlocks / SConfirm / Tick): well-framed messages whose payloads decode
// but whose content is arbitrary - blocks given by a descriptor <<id, height, parent, kind>> (junk blocks of any
// height on any parent, several per height, duplicates, and the few VALID blocks a remote deputy can really produce),
// confirm packets for any of them - delivered in any order to the real node, and the protocol manager's own 500 ms
// queue timer.  After every step the real out-of-order state of the manager is read back (block cache, confirm
// cache, chain head / stable height, which of the blocks the chain has): the unexported caches through reflect/unsafe
// and their own exported, locking accessors.  Nothing is judged here.

import (
	"crypto/ecdsa"
	"encoding/binary"
	"fmt"
	"hash/fnv"
	mrand "math/rand"
	"path/filepath"
	"reflect"
	"sort"
	"time"
	"unsafe"

	"github.com/LemoFoundationLtd/lemochain-core/chain"
	"github.com/LemoFoundationLtd/lemochain-core/chain/consensus"
	"github.com/LemoFoundationLtd/lemochain-core/chain/deputynode"
	"github.com/LemoFoundationLtd/lemochain-core/chain/transaction"
	"github.com/LemoFoundationLtd/lemochain-core/chain/txpool"
	"github.com/LemoFoundationLtd/lemochain-core/chain/types"
	"github.com/LemoFoundationLtd/lemochain-core/common"
	"github.com/LemoFoundationLtd/lemochain-core/common/crypto"
	"github.com/LemoFoundationLtd/lemochain-core/common/flag"
	"github.com/LemoFoundationLtd/lemochain-core/network"
	"github.com/LemoFoundationLtd/lemochain-core/store"
)

// blockDesc is the block descriptor of spec/WireSeq.tla: <<id, height (-1 = 2^32-1), parent, kind>>.
// parent: "G" the genesis block, "U" a hash nobody has, or the id of another block of the universe.
// kind: "v" a valid block (mined in the right slot and signed by the deputy whose turn it is), "j" junk.
type blockDesc struct {
	ID string `json:"id"`
	H  int64  `json:"h"`
	P  string `json:"p"`
	K  string `json:"k"`
}

func (d blockDesc) height() uint32 {
	if d.H < 0 {
		return ^uint32(0)
	}
	return uint32(d.H)
}

// seqState: the blocks of the universe as far as they have been built in this behaviour.
type seqState struct {
	seed  int64
	univ  map[string]blockDesc
	built map[string]*types.Block
	ids   map[common.Hash]string
	valid []*types.Block // the forged valid chain, [0] = genesis
	fg    *forge
	notes map[string]string // id -> how the junk block was filled in
}

func (n *node) seqInit(seed int64, univ []blockDesc) {
	n.seq = &seqState{seed: seed, univ: map[string]blockDesc{}, built: map[string]*types.Block{}, ids: map[common.Hash]string{}, notes: map[string]string{}}
	for _, d := range univ {
		n.seq.univ[d.ID] = d
	}
	n.seq.ids[n.genesis.Hash()] = "G"
}

// ---------------------------------------------------------------- the forge: valid blocks of the remote deputies

// forge is a second chain on the same genesis, used only to assemble VALID blocks of deputies 1 and 2 with the real
// BlockAssembler (what a remote deputy's own node would produce); it never talks to the node under test.
type forge struct {
	db  *store.ChainDatabase
	dm  *deputynode.Manager
	bc  *chain.BlockChain
	asm *consensus.BlockAssembler
}

func (n *node) genesisConfig() *chain.Genesis {
	var infos []*chain.CandidateInfo
	for i, k := range n.depKeys {
		addr := crypto.PubkeyToAddress(k.PublicKey)
		infos = append(infos, &chain.CandidateInfo{MinerAddress: addr, IncomeAddress: addr, NodeID: crypto.PrivateKeyToNodeID(k),
			Host: "127.0.0.1", Port: fmt.Sprintf("%d", 7001+i), Introduction: fmt.Sprintf("deputy %d", i)})
	}
	return &chain.Genesis{Founder: chain.DefaultFounder, DeputyNodesInfo: infos}
}

func (n *node) newForge() (*forge, error) {
	f := &forge{}
	f.db = store.NewChainDataBase(filepath.Join(n.dir, "forge"))
	g := chain.SetupGenesisBlock(f.db, n.genesisConfig())
	if g.Hash() != n.genesis.Hash() {
		return nil, fmt.Errorf("forge: genesis differs from the node's")
	}
	f.dm = deputynode.NewManager(len(n.depKeys), f.db)
	bc, err := chain.NewBlockChain(chain.Config{ChainID: chainID, MineTimeout: 10000}, f.dm, f.db, flag.CmdFlags{}, txpool.NewTxPool())
	if err != nil {
		return nil, err
	}
	f.bc = bc
	proc := transaction.NewTxProcessor(chain.DefaultFounder, chainID, bc, bc.AccountManager(), f.db, f.dm)
	f.asm = consensus.NewBlockAssembler(bc.AccountManager(), f.dm, proc, bc.VerifEngine())
	return f, nil
}

// mine assembles a valid block on parent for the deputy of the given rank in its first slot after the parent.
func (f *forge) mine(n *node, parent *types.Block, rank int) (*types.Block, error) {
	miner := crypto.PubkeyToAddress(n.depKeys[rank].PublicKey)
	height := parent.Height() + 1
	dist, err := f.dm.GetMinerDistance(height, parent.MinerAddress(), miner)
	if err != nil {
		return nil, fmt.Errorf("forge: miner distance: %v", err)
	}
	header := &types.Header{ParentHash: parent.Hash(), MinerAddress: miner, Height: height, GasLimit: parent.GasLimit(),
		Time: parent.Time() + (dist-1)*10}
	blk, _, err := f.asm.MineBlock(header, nil, 1000000)
	if err != nil {
		return nil, fmt.Errorf("forge: MineBlock: %v", err)
	}
	hash := blk.Hash()
	sig, err := crypto.Sign(hash[:], n.depKeys[rank])
	if err != nil {
		return nil, err
	}
	blk.Header.SignData = sig
	if err := f.db.SetBlock(blk.Hash(), blk); err != nil {
		return nil, fmt.Errorf("forge: SetBlock: %v", err)
	}
	if err := f.bc.AccountManager().Save(blk.Hash()); err != nil {
		return nil, fmt.Errorf("forge: Save: %v", err)
	}
	return blk, nil
}

// validAt returns the valid block of the given height (1, 2, ...): height h is mined by deputy 1 + (h-1) % 2,
// never by the node under test (deputy 0), whose key a remote party does not have.
func (n *node) validAt(h int) (*types.Block, error) {
	s := n.seq
	if s.fg == nil {
		f, err := n.newForge()
		if err != nil {
			return nil, err
		}
		s.fg = f
		s.valid = []*types.Block{n.genesis}
	}
	for len(s.valid) <= h {
		k := len(s.valid)
		b, err := s.fg.mine(n, s.valid[k-1], 1+(k-1)%2)
		if err != nil {
			return nil, err
		}
		s.valid = append(s.valid, b)
	}
	return s.valid[h], nil
}

// ---------------------------------------------------------------- blocks from descriptors

func idSeed(seed int64, id string) int64 {
	h := fnv.New64a()
	fmt.Fprintf(h, "%d/%s", seed, id)
	return int64(h.Sum64() >> 1)
}

// blockOf builds (once per behaviour) the real block of a descriptor.  What the descriptor leaves open for a junk block
// (who signed it, its timestamp, whether it carries a transaction) is seeded.
func (n *node) blockOf(d blockDesc, depth int) (*types.Block, error) {
	s := n.seq
	if b, ok := s.built[d.ID]; ok {
		return b, nil
	}
	if u, ok := s.univ[d.ID]; ok && u != d {
		return nil, fmt.Errorf("descriptor %v differs from the universe's %v", d, u)
	}
	if depth > 8 {
		return nil, fmt.Errorf("parent chain of %s too deep", d.ID)
	}
	var blk *types.Block
	if d.K == "v" {
		v, err := n.validAt(int(d.H))
		if err != nil {
			return nil, err
		}
		// the forged chain is linear: the parent of the valid block of height h is the valid block of height h-1
		if d.H <= 1 {
			if d.H != 1 || d.P != "G" {
				return nil, fmt.Errorf("valid block %s: height %d on parent %q is not of the forged chain", d.ID, d.H, d.P)
			}
		} else {
			pd, ok := s.univ[d.P]
			if !ok || pd.K != "v" || pd.H != d.H-1 {
				return nil, fmt.Errorf("valid block %s: parent %q is not the valid block of height %d of the universe", d.ID, d.P, d.H-1)
			}
			pb, err := n.blockOf(pd, depth+1)
			if err != nil {
				return nil, err
			}
			if pb.Hash() != v.ParentHash() {
				return nil, fmt.Errorf("valid block %s: forged chain inconsistent", d.ID)
			}
		}
		blk = v
	} else {
		rng := mrand.New(mrand.NewSource(idSeed(s.seed, d.ID)))
		bb := &bctx{n: n, rng: rng}
		var parent common.Hash
		switch d.P {
		case "G":
			parent = n.genesis.Hash()
		case "U":
			parent = bb.hash()
		default:
			pd, ok := s.univ[d.P]
			if !ok {
				return nil, fmt.Errorf("block %s: parent %q is not in the universe", d.ID, d.P)
			}
			pb, err := n.blockOf(pd, depth+1)
			if err != nil {
				return nil, err
			}
			parent = pb.Hash()
		}
		var key *ecdsa.PrivateKey
		signer := rng.Intn(3) // 0: 65 random bytes, 1 / 2: really signed by that remote deputy
		if signer > 0 {
			key = n.depKeys[signer]
		}
		times := []uint32{now() - 10, now() - 10, 0, 1, n.genesis.Time(), n.genesis.Time() + 10, ^uint32(0), now() + 100000}
		tm := times[rng.Intn(len(times))]
		var txs types.Transactions
		if rng.Intn(4) == 0 {
			txs = types.Transactions{bb.tx(n.depKeys[1], int64(1+rng.Intn(1000)), uint64(now())+600, true)}
		}
		blk = bb.block(parent, d.height(), tm, key, "", txs)
		s.notes[d.ID] = fmt.Sprintf("signer=%d time=%d txs=%d", signer, tm, len(txs))
	}
	s.built[d.ID] = blk
	s.ids[blk.Hash()] = d.ID
	return blk, nil
}

// seqPlan is the attacker's plan for one step of the sequence layer.
func (n *node) seqPlan(b *bctx, rq *request) (plan, error) {
	switch rq.Op {
	case "SBlocks": // one BlocksMsg carrying the blocks in the given order (repetitions included)
		var blks types.Blocks
		for _, d := range rq.Blocks {
			blk, err := n.blockOf(d, 0)
			if err != nil {
				return plan{}, err
			}
			blks = append(blks, blk)
		}
		return plan{chunks: [][]byte{b.msg(cBlocks, enc(blks))}}, nil
	case "SConfirm": // one ConfirmMsg for the block, "signed" by rq.Signer
		if len(rq.Blocks) != 1 {
			return plan{}, fmt.Errorf("SConfirm needs one block")
		}
		blk, err := n.blockOf(rq.Blocks[0], 0)
		if err != nil {
			return plan{}, err
		}
		d := &network.BlockConfirmData{Hash: blk.Hash(), Height: blk.Height()}
		switch rq.Signer {
		case "d1":
			d.SignInfo = b.depSig(blk.Hash(), n.depKeys[1])
		case "d2":
			d.SignInfo = b.depSig(blk.Hash(), n.depKeys[2])
		case "d2max": // a deputy's signature, the height field absurd
			d.SignInfo = b.depSig(blk.Hash(), n.depKeys[2])
			d.Height = ^uint32(0)
		case "d2zero":
			d.SignInfo = b.depSig(blk.Hash(), n.depKeys[2])
			d.Height = 0
		case "x":
			copy(d.SignInfo[:], b.rnd(65))
		case "z":
		default:
			return plan{}, fmt.Errorf("unknown signer %q", rq.Signer)
		}
		return plan{chunks: [][]byte{b.msg(cConfirm, enc(d))}}, nil
	case "Tick": // nothing is sent: the node's queue timer (500 ms) passes at least once
		return plan{special: func(*bctx) error { time.Sleep(tickWait); return nil }}, nil
	}
	return plan{}, fmt.Errorf("unknown sequence op %q", rq.Op)
}

const tickWait = 560 * time.Millisecond

// ---------------------------------------------------------------- reading the manager's state back

func unexportedPtr(obj interface{}, field string) (unsafe.Pointer, error) {
	v := reflect.ValueOf(obj).Elem().FieldByName(field)
	if !v.IsValid() || v.Kind() != reflect.Ptr {
		return nil, fmt.Errorf("%T has no pointer field %q any more", obj, field)
	}
	return unsafe.Pointer(v.Pointer()), nil
}

func (n *node) bindCaches() error {
	p, err := unexportedPtr(n.pm, "blockCache")
	if err != nil {
		return err
	}
	n.bcache = (*network.BlockCache)(p)
	if p, err = unexportedPtr(n.pm, "confirmsCache"); err != nil {
		return err
	}
	n.ccache = (*network.ConfirmCache)(p)
	return nil
}

// observe reads the node's out-of-order state at a quiescence point.  The caches are read through their own exported
// accessors, which take the cache's lock: if that does not come back the lock is held by nobody who can run.
func (n *node) observe(m map[string]interface{}) {
	type res struct {
		bc, cc int
		first  uint32
		ids    []string
	}
	ch := make(chan res, 1)
	go func() {
		var r res
		r.ids = []string{}
		n.bcache.Iterate(func(b *types.Block) bool {
			id := "?"
			if n.seq != nil {
				if x, ok := n.seq.ids[b.Hash()]; ok {
					id = x
				}
			}
			r.ids = append(r.ids, id)
			return false
		})
		r.bc = n.bcache.Size()
		r.first = n.bcache.FirstHeight()
		r.cc = n.ccache.Size()
		sort.Strings(r.ids)
		ch <- r
	}()
	select {
	case r := <-ch:
		m["bc"], m["bcIds"], m["cc"], m["bcFirst"] = r.bc, r.ids, r.cc, r.first
	case <-time.After(20 * time.Second):
		m["bc"], m["bcIds"], m["cc"], m["bcFirst"] = -1, []string{}, -1, 0
		bl, _ := m["blocked"].([]string)
		m["blocked"] = append(bl, "observer: a cache lock of the protocol manager is not released at quiescence")
	}
	m["cur"], m["stable"] = n.bc.CurrentBlock().Height(), n.bc.StableBlock().Height()
	has := []string{"G"}
	if n.seq != nil {
		for id, b := range n.seq.built {
			if n.bc.HasBlock(b.Hash()) {
				has = append(has, id)
			}
		}
	}
	sort.Strings(has)
	m["has"] = has
}

// countItems: how many blocks resp. confirm packets the frames built in this step carry at most (a fact about the
// INPUT: a message that does not decode delivers nothing, so this is an upper bound of what reached the handlers).
func countItems(sent []sentMsg) (nblk, nconf int) {
	for _, s := range sent {
		switch s.code {
		case cBlocks:
			nblk += rlpListLen(s.payload)
		case cConfirm:
			nconf++
		}
	}
	return
}

// rlpListLen counts the elements of an RLP list (0 when the payload is not a well-formed list).
func rlpListLen(p []byte) int {
	if len(p) == 0 || p[0] < 0xc0 {
		return 0
	}
	var body []byte
	if p[0] <= 0xf7 {
		l := int(p[0] - 0xc0)
		if 1+l > len(p) {
			return 0
		}
		body = p[1 : 1+l]
	} else {
		ll := int(p[0] - 0xf7)
		if 1+ll > len(p) || ll > 8 {
			return 0
		}
		var buf [8]byte
		copy(buf[8-ll:], p[1:1+ll])
		l := binary.BigEndian.Uint64(buf[:])
		if l > uint64(len(p)-1-ll) {
			return 0
		}
		body = p[1+ll : 1+ll+int(l)]
	}
	cnt := 0
	for len(body) > 0 {
		var sz int
		c := body[0]
		switch {
		case c < 0x80:
			sz = 1
		case c <= 0xb7:
			sz = 1 + int(c-0x80)
		case c <= 0xbf:
			ll := int(c - 0xb7)
			if 1+ll > len(body) || ll > 8 {
				return cnt
			}
			var buf [8]byte
			copy(buf[8-ll:], body[1:1+ll])
			sz = 1 + ll + int(binary.BigEndian.Uint64(buf[:]))
		case c <= 0xf7:
			sz = 1 + int(c-0xc0)
		default:
			ll := int(c - 0xf7)
			if 1+ll > len(body) || ll > 8 {
				return cnt
			}
			var buf [8]byte
			copy(buf[8-ll:], body[1:1+ll])
			sz = 1 + ll + int(binary.BigEndian.Uint64(buf[:]))
		}
		if sz <= 0 || sz > len(body) {
			return cnt + 1
		}
		cnt++
		body = body[sz:]
	}
	return cnt
}
