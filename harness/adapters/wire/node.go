package wire

// The victim: a REAL lemochain-core node (store, chain.BlockChain with the DPoVP engine, txpool,
// network.ProtocolManager, p2p.DiscoverManager) assembled exactly like main/node.New, plus the
// handling of one connection exactly like p2p.Server does it (Server itself cannot be used: it needs
// a listening TCP port): INBOUND like Server.listenLoop -> HandleConn(fd, nil) -> run, OUTBOUND like
// DialManager.runDialTask(node string) -> Server.HandleConn(fd, nodeID) -> run, where the dialed
// address is one the node learnt through DiscoverManager.AddNewList (what a DiscoverResMsg or the
// connect API feed).  The attacker - a client resp. an evil listener - is the other end of a net.Pipe.  Everything here runs inside the `vh drive wire-run` SUB-PROCESS, because a panic
// of the code under test kills the process.

import (
	"bytes"
	"crypto/ecdsa"
	"fmt"
	"net"
	"os"
	"runtime"
	"sort"
	"strings"
	"sync"
	"sync/atomic"
	"time"

	"github.com/LemoFoundationLtd/lemochain-core/chain"
	"github.com/LemoFoundationLtd/lemochain-core/chain/deputynode"
	"github.com/LemoFoundationLtd/lemochain-core/chain/params"
	"github.com/LemoFoundationLtd/lemochain-core/chain/txpool"
	"github.com/LemoFoundationLtd/lemochain-core/chain/types"
	"github.com/LemoFoundationLtd/lemochain-core/common/crypto"
	"github.com/LemoFoundationLtd/lemochain-core/common/flag"
	"github.com/LemoFoundationLtd/lemochain-core/common/subscribe"
	"github.com/LemoFoundationLtd/lemochain-core/network"
	"github.com/LemoFoundationLtd/lemochain-core/network/p2p"
	"github.com/LemoFoundationLtd/lemochain-core/store"
)

const chainID = 200

var keyHex = []string{ // deputy 0 is the node under test, deputies 1 and 2 are (possibly Byzantine) remote deputies
	"432a86ab8765d82415a803e29864dcfc1ed93dac949abf6f95a583179f27e4bb",
	"c21b6b2fbf230f665b936194d14da67187732bf9d28768aef1a3cbb26608f8aa",
	"9c3c4a327ce214f0a1bf9cfa756fbf74f1c7322399ffff925efd8c15c49953eb",
}

const anonKeyHex = "7a720181f628d9e132af3a07cf6ed5a2b9e21d0d1c5de2b2a3b4c0e4c5d6e7f8" // a peer that is no deputy

func mustKey(h string) *ecdsa.PrivateKey {
	k, err := crypto.HexToECDSA(h)
	if err != nil {
		panic(err)
	}
	return k
}

type node struct {
	dir     string
	key     *ecdsa.PrivateKey
	depKeys []*ecdsa.PrivateKey
	bc      *chain.BlockChain
	pm      *network.ProtocolManager
	disc    *p2p.DiscoverManager
	genesis *types.Block

	// the protocol manager's own out-of-order caches (unexported fields, read back through their exported accessors)
	bcache *network.BlockCache
	ccache *network.ConfirmCache
	seq    *seqState // sequence layer: the blocks of the universe built so far
	by     *conn     // receive-side layer: the bystander's connection
	byTxs  int       // TxsMsg frames the bystander has received
}

func newNode(dir string) (*node, error) {
	n := &node{dir: dir}
	for _, h := range keyHex {
		n.depKeys = append(n.depKeys, mustKey(h))
	}
	n.key = n.depKeys[0]
	deputynode.SetSelfNodeKey(n.key)
	if err := os.MkdirAll(dir, 0755); err != nil {
		return nil, err
	}
	db := store.NewChainDataBase(dir)
	var infos []*chain.CandidateInfo
	for i, k := range n.depKeys {
		addr := crypto.PubkeyToAddress(k.PublicKey)
		infos = append(infos, &chain.CandidateInfo{MinerAddress: addr, IncomeAddress: addr, NodeID: crypto.PrivateKeyToNodeID(k),
			Host: "127.0.0.1", Port: fmt.Sprintf("%d", 7001+i), Introduction: fmt.Sprintf("deputy %d", i)})
	}
	n.genesis = chain.SetupGenesisBlock(db, &chain.Genesis{Founder: chain.DefaultFounder, DeputyNodesInfo: infos})
	dm := deputynode.NewManager(len(n.depKeys), db)
	pool := txpool.NewTxPool()
	bc, err := chain.NewBlockChain(chain.Config{ChainID: chainID, MineTimeout: 10000}, dm, db, flag.CmdFlags{}, pool)
	if err != nil {
		return nil, err
	}
	n.bc = bc
	n.disc = p2p.NewDiscoverManager(dir)
	if err := n.disc.Start(); err != nil {
		return nil, err
	}
	var self p2p.NodeID
	copy(self[:], deputynode.GetSelfNodeID())
	n.pm = network.NewProtocolManager(chainID, self, bc, dm, pool, bc.TxGuard(), n.disc, 20, params.VersionUint(), dir)
	if err := n.bindCaches(); err != nil {
		return nil, err
	}
	n.pm.Start()
	// p2p.Server.run: a closed peer is announced on SrvDeletePeer and forwarded to the protocol manager as DeletePeer
	del := make(chan p2p.IPeer, 1)
	subscribe.Sub(subscribe.SrvDeletePeer, del)
	go func() {
		for p := range del {
			subscribe.Send(subscribe.DeletePeer, p)
		}
	}()
	return n, nil
}

// recConn is the node's end of the pipe; it only records what the node does with it.
type recConn struct {
	net.Conn
	closed   int32
	closedCh chan struct{}
	once     sync.Once
	nread    int64
	rxState  // receive-side layer: what the remote does with the node's writes (rx.go)
}

func (c *recConn) Read(b []byte) (int, error) {
	n, err := c.Conn.Read(b)
	atomic.AddInt64(&c.nread, int64(n))
	return n, err
}

func (c *recConn) Close() error {
	c.once.Do(func() { atomic.StoreInt32(&c.closed, 1); close(c.closedCh) })
	return c.Conn.Close()
}

func (c *recConn) isClosed() bool { return atomic.LoadInt32(&c.closed) == 1 }

// conn is one connection: the node's side is driven by the real code, the attacker's side by the class builders.
type conn struct {
	dir    string // "in": the node accepted, "out": the node dialed
	cli    net.Conn
	srv    *recConn
	req    *authReq    // out: the node's handshake request as decrypted by the evil listener
	reqRaw []byte      // out: its ECIES bytes
	hsDone chan string // result of the node's DoHandshake ("" = ok)
	hs     string      // "pending" | "ok" | error text
	aes    []byte      // session key once the attacker completed a genuine handshake
	key    *ecdsa.PrivateKey

	mu     sync.Mutex
	inbox  [][]byte // bodies of the frames the node sent us
	rdDone chan struct{}
	notify chan struct{}
	paused int32         // receive-side layer: 1 = the remote does not read
	resume chan struct{} // closed by Resume
}

// accept mirrors p2p.Server.listenLoop -> HandleConn(fd, nil) -> run(addPeerCh) for one inbound connection.
func (n *node) accept() *conn {
	cli, srv := net.Pipe()
	c := &conn{dir: "in", cli: cli, srv: &recConn{Conn: srv, closedCh: make(chan struct{})}, hsDone: make(chan string, 1), hs: "pending"}
	c.startReader()
	go n.handleConn(c, nil)
	return c
}

// evilNode is the address under which the remote party listens: its own node id (it owns the key) and an endpoint.
func evilNode() string {
	return fmt.Sprintf("%x@127.0.0.1:7100", crypto.PrivateKeyToNodeID(mustKey(anonKeyHex)))
}

// dial mirrors DialManager.loop/runDialTask -> Server.HandleConn(fd, nodeID) -> run(addPeerCh) for one outbound
// connection to a node string the node learnt the way it learns all of them (DiscoverManager.AddNewList).
func (n *node) dial() *conn {
	node := evilNode()
	n.disc.AddNewList([]string{node})
	cli, srv := net.Pipe()
	c := &conn{dir: "out", cli: cli, srv: &recConn{Conn: srv, closedCh: make(chan struct{})}, hsDone: make(chan string, 1), hs: "pending"}
	c.startReader()
	go func() {
		// DialManager.runDialTask
		nodeID, _ := p2p.ParseNodeString(node)
		if nodeID == nil {
			c.srv.Close()
			c.hsDone <- "err: invalid node"
			return
		}
		if n.disc.IsBlackNode(nodeID) {
			c.srv.Close()
			c.hsDone <- "err: black node"
			return
		}
		// net.DialTimeout("tcp", endpoint) is the pipe
		n.handleConn(c, nodeID)
	}()
	return c
}

// handleConn is p2p.Server.HandleConn(fd, nodeID) followed by what Server.run does with the new peer.
func (n *node) handleConn(c *conn, nodeID *p2p.NodeID) {
	peer := p2p.NewPeer(c.srv)
	if err := peer.DoHandshake(n.key, nodeID); err != nil {
		c.srv.Close()
		n.disc.SetConnectResult(peer.RNodeID(), false)
		c.hsDone <- "err: " + err.Error()
		return
	}
	if n.disc.IsBlackNode(peer.RNodeID()) || bytes.Equal(peer.RNodeID()[:], deputynode.GetSelfNodeID()) {
		c.srv.Close()
		n.disc.SetConnectResult(peer.RNodeID(), false)
		c.hsDone <- "err: rejected node id"
		return
	}
	go func() { // Server.runPeer
		peer.Run()
		peer.Close()
	}()
	subscribe.Send(subscribe.AddNewPeer, peer)
	c.hsDone <- ""
}

// startReader consumes whatever the node writes (net.Pipe writes block until read) and keeps the frames.
func (c *conn) startReader() {
	c.rdDone = make(chan struct{})
	c.notify = make(chan struct{}, 1)
	go func() {
		defer close(c.rdDone)
		hdr := make([]byte, 6)
		readFull := c.readFullPausable // a remote that stops reading (receive-side layer) parks here, also in the middle of a frame
		for {
			if _, err := readFull(c.cli, hdr); err != nil {
				return
			}
			l := int(hdr[2])<<24 | int(hdr[3])<<16 | int(hdr[4])<<8 | int(hdr[5])
			if l > 64<<20 {
				return
			}
			body := make([]byte, l)
			if _, err := readFull(c.cli, body); err != nil {
				return
			}
			c.mu.Lock()
			c.inbox = append(c.inbox, body)
			c.mu.Unlock()
			select {
			case c.notify <- struct{}{}:
			default:
			}
		}
	}()
}

// waitFrame returns the next frame the node sent (used by the genuine handshake only).
func (c *conn) waitFrame(d time.Duration) []byte {
	deadline := time.After(d)
	for {
		c.mu.Lock()
		if len(c.inbox) > 0 {
			f := c.inbox[0]
			c.inbox = c.inbox[1:]
			c.mu.Unlock()
			return f
		}
		c.mu.Unlock()
		select {
		case <-c.notify:
		case <-c.rdDone:
			return nil
		case <-deadline:
			return nil
		}
	}
}

func readFull(c net.Conn, b []byte) (int, error) {
	n := 0
	for n < len(b) {
		k, err := c.Read(b[n:])
		n += k
		if err != nil {
			return n, err
		}
	}
	return n, nil
}

// takeInbox returns the message codes of the frames received since the last call (-1 = not a session frame).
func (c *conn) takeInbox() []int {
	c.mu.Lock()
	frames := c.inbox
	c.inbox = nil
	c.mu.Unlock()
	out := []int{}
	for _, body := range frames {
		code := -1
		if c.aes != nil && len(body)%16 == 0 && len(body) > 0 {
			if pt, err := crypto.AesDecrypt(body, c.aes); err == nil && len(pt) >= 4 {
				code = int(pt[0])<<24 | int(pt[1])<<16 | int(pt[2])<<8 | int(pt[3])
			}
		}
		if len(out) < 40 {
			out = append(out, code)
		}
	}
	return out
}

// ---------------------------------------------------------------- quiescence by consistent goroutine snapshots

var wireDebug = os.Getenv("WIRE_DEBUG") != ""

type snapshot struct {
	raw     []string // WIRE_DEBUG: state and top frames of every goroutine of the node / harness
	busy    []string // goroutines of the node / harness that can still run (running, runnable, syscall)
	blocked []string // goroutines waiting for a mutex / semaphore
}

var stackBuf = make([]byte, 8<<20)

func relevant(stack string) bool {
	return strings.Contains(stack, "lemochain-core/") || strings.Contains(stack, "verifharness/")
}

// topFrames returns the function names (innermost first) of a goroutine's stack, package path shortened.
func topFrames(stack string, max int) string {
	var fs []string
	for _, ln := range strings.Split(stack, "\n")[1:] {
		if ln == "" || ln[0] == '\t' || strings.HasPrefix(ln, "created by") {
			continue
		}
		if i := strings.LastIndex(ln, "("); i > 0 {
			ln = ln[:i]
		}
		if i := strings.LastIndex(ln, "/"); i >= 0 {
			ln = ln[i+1:]
		}
		fs = append(fs, ln)
		if len(fs) == max {
			break
		}
	}
	return strings.Join(fs, " < ")
}

// runtimeWait: the goroutine is parked by the runtime itself (allocation waiting for the collector, preemption) and goes on
// without any input or timer - e.g. "GC assist wait" inside the 25 MiB allocation of AesDecrypt: not quiescent.
func runtimeWait(state string) bool {
	for _, p := range []string{"GC ", "garbage collection", "preempted", "stopping the world", "flushing proc caches", "force gc", "dumping heap", "wait for debug call"} {
		if strings.HasPrefix(state, p) {
			return true
		}
	}
	return false
}

// snap takes one stop-the-world dump of all goroutines (runtime.Stack(all) stops the world, so the
// picture is consistent) and classifies every goroutine that runs node or harness code.
func snap() snapshot {
	n := runtime.Stack(stackBuf, true)
	var s snapshot
	gs := strings.Split(string(stackBuf[:n]), "\n\n")
	for i, g := range gs {
		if i == 0 { // the caller itself
			continue
		}
		if !strings.HasPrefix(g, "goroutine ") || !relevant(g) {
			continue
		}
		a, b := strings.Index(g, "["), strings.Index(g, "]")
		if a < 0 || b < a {
			continue
		}
		state := g[a+1 : b]
		if j := strings.Index(state, ","); j >= 0 {
			state = state[:j]
		}
		if wireDebug {
			s.raw = append(s.raw, state+" | "+topFrames(g, 4))
		}
		switch {
		case state == "running" || state == "runnable" || state == "syscall" || runtimeWait(state):
			s.busy = append(s.busy, topFrames(g, 3))
		case strings.HasPrefix(state, "sync.Mutex") || strings.HasPrefix(state, "sync.RWMutex") || strings.HasPrefix(state, "semacquire"):
			// WaitGroup.Wait also shows as semacquire: only lock acquisitions count
			if strings.Contains(g, "sync.(*Mutex).Lock") || strings.Contains(g, "sync.(*RWMutex).Lock") || strings.Contains(g, "sync.(*RWMutex).RLock") {
				s.blocked = append(s.blocked, topFrames(g, 6))
			}
		}
	}
	sort.Strings(s.busy)
	sort.Strings(s.blocked)
	return s
}

// quiesce polls until two consecutive snapshots show no goroutine of the node able to run: then nothing
// can happen any more without new input or a timer.  The cap only ends the wait for code that keeps
// running (it is reported as busy, with the work it is doing); it is never a verdict by itself.
func quiesce(limit time.Duration) (ok bool, last snapshot, polls int) {
	deadline := time.Now().Add(limit)
	idle := 0
	for {
		polls++
		last = snap()
		if len(last.busy) == 0 {
			idle++
			if idle >= 2 {
				return true, last, polls
			}
		} else {
			idle = 0
		}
		if time.Now().After(deadline) {
			return false, last, polls
		}
		if polls < 50 {
			time.Sleep(100 * time.Microsecond)
		} else {
			time.Sleep(2 * time.Millisecond)
		}
	}
}
