// Package wire binds spec/Wire.tla (generator of input-class sequences) and spec/TraceWire.tla (judge) to the
// real network stack of lemochain-core (C15): p2p.Peer handshake + frame reader over net.Pipe, feeding the real
// network.ProtocolManager handlers and the real chain.  Each behaviour runs in its own SUB-PROCESS
// (`vh drive wire-run`), because a panic of the code under test kills the process; the adapter logs per step
// what was observed (process alive, connection closed by the node, goroutines waiting for a lock at quiescence,
// bytes allocated, bytes read) and never judges.
package wire

import (
	"bufio"
	"encoding/json"
	"flag"
	"fmt"
	"hash/fnv"
	"io"
	mrand "math/rand"
	"os"
	"os/exec"
	"path/filepath"
	"runtime"
	"strconv"
	"strings"
	"sync"
	"sync/atomic"
	"time"

	"verifharness/engine"
	"verifharness/tla"
)

// ------------------------------------------------------------------------------------------------ sub-process

type request struct {
	Op     string      `json:"op"` // Connect | Dial | Recv | Finish | sequence layer: Univ | SBlocks | SConfirm | Tick | receive-side layer: StopReading | Resume | ResetConn | HangUp | Deadline | StallOut
	Cls    string      `json:"cls,omitempty"`
	Seed   int64       `json:"seed"`
	BSeed  int64       `json:"bseed,omitempty"`  // constant within a behaviour: what a block descriptor leaves open is derived from it
	Blocks []blockDesc `json:"blocks,omitempty"` // SBlocks: the blocks of the message in order; SConfirm: the block confirmed; Univ: the universe
	Signer string      `json:"signer,omitempty"` // SConfirm
}

func splitChunk(x []byte, mode int) [][]byte {
	switch {
	case mode == 1 && len(x) > 1:
		return [][]byte{x[:len(x)/2], x[len(x)/2:]}
	case mode == 2 && len(x) > 1: // the first bytes one by one (every field boundary of the header is a read boundary)
		var out [][]byte
		k := len(x)
		if k > 24 {
			k = 24
		}
		for i := 0; i < k; i++ {
			out = append(out, x[i:i+1])
		}
		if k < len(x) {
			out = append(out, x[k:])
		}
		return out
	}
	return [][]byte{x}
}

func kib(x uint64) int { return int((x + 1023) / 1024) }

// recv performs one attacker step on connection c and reports what the node did.
func (n *node) recv(c *conn, cls string, seed int64, limit time.Duration) map[string]interface{} {
	return n.recvWith(c, cls, seed, limit, func(b *bctx) (plan, bool, error) {
		p, ok := b.build(cls)
		return p, ok, nil
	})
}

// recvWith: one attacker step whose plan comes from mk (an input class, or a step of the sequence layer).
func (n *node) recvWith(c *conn, cls string, seed int64, limit time.Duration, mk func(b *bctx) (plan, bool, error)) map[string]interface{} {
	b := &bctx{n: n, c: c, rng: mrand.New(mrand.NewSource(seed))}
	// the attacker's own code runs in this process too: a panic while BUILDING the input is a harness failure, never the node's
	p, ok, berr, perr := func() (p plan, ok bool, berr error, perr interface{}) {
		defer func() { perr = recover() }()
		p, ok, berr = mk(b)
		return
	}()
	if perr != nil {
		return map[string]interface{}{"error": fmt.Sprintf("building class %s panicked: %v", cls, perr)}
	}
	if berr != nil {
		return map[string]interface{}{"error": fmt.Sprintf("building %s: %v", cls, berr)}
	}
	if !ok {
		return map[string]interface{}{"error": "unknown class " + cls}
	}
	mode := b.rng.Intn(3)
	if p.noSplit {
		mode = 0
	}
	b.mode, b.limit = mode, limit
	var m0, m1 runtime.MemStats
	t0 := time.Now()
	runtime.ReadMemStats(&m0)
	read0 := atomic.LoadInt64(&c.srv.nread)
	sent, wstall, note := 0, false, ""
	if p.special != nil {
		err := func() (err error) {
			defer func() {
				if r := recover(); r != nil {
					err = fmt.Errorf("HARNESS PANIC: %v", r)
				}
			}()
			return p.special(b)
		}()
		if err != nil {
			note = err.Error()
			if strings.HasPrefix(note, "HARNESS PANIC") {
				return map[string]interface{}{"error": "class " + cls + ": " + note}
			}
		}
	} else {
	write:
		for _, ch := range p.chunks {
			for _, part := range splitChunk(ch, mode) {
				c.cli.SetWriteDeadline(time.Now().Add(limit))
				k, err := c.cli.Write(part)
				sent += k
				if err != nil {
					if os.IsTimeout(err) {
						wstall = true // the node neither reads nor closes
					}
					break write // closed by the node: nothing more can be delivered
				}
			}
		}
		if p.closeEnd {
			c.cli.Close()
		}
	}
	// wait until nothing of the node can run any more (or it demonstrably keeps allocating)
	stop := m0.TotalAlloc + (1 << 30)
	deadline := time.Now().Add(limit)
	var last snapshot
	quiet, polls, why := false, 0, "quiet"
	for {
		var got bool
		got, last, polls = quiesceOnce(polls)
		if got {
			quiet = true
			break
		}
		runtime.ReadMemStats(&m1)
		if m1.TotalAlloc > stop {
			why = "alloc" // still running and more than 1 GiB allocated: no need to wait any longer
			break
		}
		if time.Now().After(deadline) {
			why = "cap"
			break
		}
	}
	select {
	case r := <-c.hsDone:
		if r == "" {
			c.hs = "ok"
		} else {
			c.hs = r
		}
	default:
	}
	runtime.ReadMemStats(&m1)
	if wireDebug {
		fmt.Fprintf(os.Stderr, "QUIESCE %s quiet=%v closed=%v\n  %s\n", cls, quiet, c.srv.isClosed(), strings.Join(last.raw, "\n  "))
	}
	blocked := last.blocked
	if blocked == nil || !quiet {
		blocked = []string{}
	}
	busy := last.busy
	if busy == nil || quiet {
		busy = []string{}
	}
	m := map[string]interface{}{
		"alive": true, "closed": c.srv.isClosed(), "hs": c.hs, "quiet": quiet, "blocked": blocked, "busy": busy,
		"allocK": kib(m1.TotalAlloc - m0.TotalAlloc), "readK": kib(uint64(atomic.LoadInt64(&c.srv.nread) - read0)),
		"read": atomic.LoadInt64(&c.srv.nread) - read0, "sent": sent, "wstall": wstall, "resp": c.takeInbox(), "split": mode, "polls": polls, "note": note, "stop": why, "ms": int(time.Since(t0) / time.Millisecond),
	}
	// the input as counted by the attacker, and - when nothing of the node runs any more - the manager's out-of-order state
	m["nblk"], m["nconf"] = countItems(b.sent)
	n.rxFields(c, m)
	if quiet {
		n.observe(m)
	}
	return m
}

// quiesceOnce: a few polls; returns true when two consecutive snapshots were idle.
func quiesceOnce(polls int) (bool, snapshot, int) {
	idle := 0
	var last snapshot
	for i := 0; i < 8; i++ {
		polls++
		last = snap()
		if len(last.busy) == 0 {
			idle++
			if idle >= 2 {
				return true, last, polls
			}
		} else {
			idle = 0
		}
		if polls < 60 {
			time.Sleep(100 * time.Microsecond)
		} else {
			time.Sleep(2 * time.Millisecond)
		}
	}
	return false, last, polls
}

func driveRun(args []string) error {
	fs := flag.NewFlagSet("wire-run", flag.ContinueOnError)
	dir := fs.String("dir", "", "data directory of the node")
	limitMs := fs.Int("limit", 10000, "cap (ms) on waiting for code that keeps running")
	if err := fs.Parse(args); err != nil {
		return err
	}
	if *dir == "" {
		return fmt.Errorf("need -dir")
	}
	n, err := newNode(*dir)
	if err != nil {
		return err
	}
	limit := time.Duration(*limitMs) * time.Millisecond
	out := bufio.NewWriter(os.Stdout)
	reply := func(m map[string]interface{}) {
		b, _ := json.Marshal(m)
		out.Write(b)
		out.WriteByte('\n')
		out.Flush()
	}
	quiesce(limit)
	reply(map[string]interface{}{"ready": true})
	in := bufio.NewReaderSize(os.Stdin, 1<<16)
	var c *conn
	for {
		ln, err := in.ReadString('\n')
		if err != nil {
			return nil
		}
		var rq request
		if err := json.Unmarshal([]byte(ln), &rq); err != nil {
			return err
		}
		switch rq.Op {
		case "Connect", "Dial":
			if c != nil {
				c.resumeReading() // (releases the remote's parked reader)
				c.cli.Close()     // the attacker may always hang up
			}
			m := map[string]interface{}{"alive": true}
			var m0, m1 runtime.MemStats
			runtime.ReadMemStats(&m0)
			if rq.Op == "Connect" {
				c = n.accept()
			} else {
				c = n.dial()
			}
			ok, last, _ := quiesce(limit)
			runtime.ReadMemStats(&m1)
			m["allocK"] = kib(m1.TotalAlloc - m0.TotalAlloc)
			if rq.Op == "Dial" {
				// the node has sent its handshake request: the evil listener decrypts it with its own key, as any remote would
				m["req"] = c.takeRequest()
			}
			if last.blocked == nil {
				last.blocked = []string{}
			}
			m["closed"], m["hs"], m["quiet"], m["blocked"], m["dir"] = c.srv.isClosed(), c.hs, ok, last.blocked, c.dir
			m["nblk"], m["nconf"] = 0, 0
			n.rxFields(c, m)
			if ok {
				n.observe(m)
			}
			reply(m)
		case "Recv":
			if c == nil {
				reply(map[string]interface{}{"error": "Recv before Connect"})
				continue
			}
			reply(n.recv(c, rq.Cls, rq.Seed, limit))
		case "Univ": // the block universe of the sequence layer (from the behaviour's initial state)
			n.seqInit(rq.BSeed, rq.Blocks)
			reply(map[string]interface{}{"alive": true})
		case "SBlocks", "SConfirm", "Tick":
			if c == nil {
				reply(map[string]interface{}{"error": rq.Op + " before Connect"})
				continue
			}
			if n.seq == nil {
				n.seqInit(rq.BSeed, nil)
			}
			rq := rq
			reply(n.recvWith(c, rq.Op, rq.Seed, limit, func(b *bctx) (plan, bool, error) {
				p, err := n.seqPlan(b, &rq)
				return p, err == nil, err
			}))
		case "StopReading", "Resume", "ResetConn", "HangUp", "Deadline", "StallOut": // the receive-side layer (rx.go)
			if c == nil {
				reply(map[string]interface{}{"error": rq.Op + " before Connect"})
				continue
			}
			reply(n.rxStep(c, rq.Op, limit))
		case "Bystander":
			if c == nil {
				reply(map[string]interface{}{"error": rq.Op + " before Connect"})
				continue
			}
			reply(n.bystander(c, rq.Seed, limit))
		case "Finish":
			reply(map[string]interface{}{"alive": true})
			return nil
		default:
			reply(map[string]interface{}{"error": "unknown op " + rq.Op})
		}
	}
}

// ------------------------------------------------------------------------------------------------ adapter (parent)

type tail struct {
	mu  sync.Mutex
	buf []byte
}

func (t *tail) Write(p []byte) (int, error) {
	t.mu.Lock()
	defer t.mu.Unlock()
	t.buf = append(t.buf, p...)
	if len(t.buf) > 1<<16 { // keep the head (the panic message is printed first)
		t.buf = t.buf[:1<<16]
	}
	return len(p), nil
}

type adapter struct {
	cmd    *exec.Cmd
	in     io.WriteCloser
	out    *bufio.Reader
	errBuf *tail
	dir    string
	dead   bool
	beh    int
	step   int
	seed   int64
	bseed  int64 // constant within a behaviour
	limit  int
}

func (a *adapter) kill() {
	if a.cmd != nil {
		if a.in != nil {
			a.in.Close()
		}
		if a.cmd.Process != nil {
			a.cmd.Process.Kill()
		}
		a.cmd.Wait()
		a.cmd = nil
	}
	if a.dir != "" {
		os.RemoveAll(a.dir)
		a.dir = ""
	}
}

func (a *adapter) Reset(init map[string]tla.Value) (engine.Fields, error) {
	a.kill()
	a.beh++
	a.step = 0
	a.dead = false
	base := os.Getenv("VERIF_SCRATCH_DIR")
	if base == "" {
		base = os.TempDir()
	}
	a.dir = filepath.Join(base, fmt.Sprintf("wire.%d.%d", os.Getpid(), a.beh))
	exe, err := os.Executable()
	if err != nil {
		return nil, err
	}
	a.cmd = exec.Command(exe, "drive", "wire-run", "-dir", a.dir, "-limit", strconv.Itoa(a.limit))
	a.cmd.Env = append(os.Environ(), "GOTRACEBACK=all")
	a.errBuf = &tail{}
	a.cmd.Stderr = a.errBuf
	if a.in, err = a.cmd.StdinPipe(); err != nil {
		return nil, err
	}
	so, err := a.cmd.StdoutPipe()
	if err != nil {
		return nil, err
	}
	a.out = bufio.NewReaderSize(so, 1<<20)
	if err := a.cmd.Start(); err != nil {
		return nil, err
	}
	m, err := a.read()
	if err != nil || m["ready"] != true {
		return nil, fmt.Errorf("node sub-process did not start: %v %v\n%s", err, m, a.errBuf.buf)
	}
	// the block universe of the sequence layer is part of the initial state (variable univ)
	h := fnv.New64a()
	fmt.Fprintf(h, "%d/%d/behaviour", a.seed, a.beh)
	a.bseed = int64(h.Sum64() >> 1)
	if u, ok := init["univ"]; ok && u.Len() > 0 {
		rq := request{Op: "Univ", BSeed: a.bseed}
		for _, d := range u.Elems {
			bd, err := descOf(d)
			if err != nil {
				return nil, err
			}
			rq.Blocks = append(rq.Blocks, bd)
		}
		b, _ := json.Marshal(rq)
		if _, err := a.in.Write(append(b, '\n')); err != nil {
			return nil, err
		}
		if m, err := a.read(); err != nil || m["alive"] != true {
			return nil, fmt.Errorf("node sub-process did not take the block universe: %v %v\n%s", err, m, a.errBuf.buf)
		}
	}
	// the model starts idle: the first connection is opened by a Connect or Dial step
	return engine.Fields{"seed": a.seed}, nil
}

// descOf reads a block descriptor <<id, height, parent, kind>> of spec/WireSeq.tla.
func descOf(v tla.Value) (blockDesc, error) {
	if v.Len() != 4 {
		return blockDesc{}, fmt.Errorf("not a block descriptor: %s", v.String())
	}
	return blockDesc{ID: v.At(0).S(), H: int64(v.At(1).I()), P: v.At(2).S(), K: v.At(3).S()}, nil
}

func (a *adapter) read() (map[string]interface{}, error) {
	type res struct {
		ln  string
		err error
	}
	ch := make(chan res, 1)
	go func() {
		ln, err := a.out.ReadString('\n')
		ch <- res{ln, err}
	}()
	select {
	case r := <-ch:
		if r.err != nil {
			return nil, r.err
		}
		var m map[string]interface{}
		if err := json.Unmarshal([]byte(r.ln), &m); err != nil {
			return nil, fmt.Errorf("bad reply %q: %v", r.ln, err)
		}
		return m, nil
	case <-time.After(time.Duration(3*a.limit+60000) * time.Millisecond):
		a.cmd.Process.Kill()
		engine.Failf("node sub-process does not answer (harness failure)\n%s", a.errBuf.buf)
		return nil, nil
	}
}

// crashHead extracts the panic message and the first frames of the code under test from the dead process's stderr.
func crashHead(s string) string {
	i := strings.Index(s, "panic:")
	if j := strings.Index(s, "fatal error:"); i < 0 || (j >= 0 && j < i) {
		i = j
	}
	if i < 0 {
		if len(s) > 600 {
			s = s[:600]
		}
		return s
	}
	s = s[i:]
	var keep []string
	for _, ln := range strings.Split(s, "\n") {
		if len(keep) == 0 || (strings.Contains(ln, "lemochain-core/") && !strings.HasPrefix(ln, "\t")) || strings.HasPrefix(ln, "crypto/") {
			keep = append(keep, strings.TrimSpace(ln))
		}
		if len(keep) >= 8 {
			break
		}
	}
	return strings.Join(keep, " | ")
}

func (a *adapter) Apply(s engine.Step) (engine.Fields, error) {
	a.step++
	if a.dead {
		return engine.Fields{"dead": true}, nil
	}
	rq := request{Op: s.Act.Name, BSeed: a.bseed}
	switch s.Act.Name {
	case "Recv":
		rq.Cls = s.Act.Args[0].S()
	case "Connect", "Dial", "Tick", "StopReading", "Resume", "ResetConn", "HangUp", "Deadline", "StallOut", "Bystander":
	case "SBlocks": // SBlocks(<<d1, d2, ...>>)
		for _, d := range s.Act.Args[0].Elems {
			bd, err := descOf(d)
			if err != nil {
				return nil, err
			}
			rq.Blocks = append(rq.Blocks, bd)
		}
	case "SConfirm": // SConfirm(d, signer)
		bd, err := descOf(s.Act.Args[0])
		if err != nil {
			return nil, err
		}
		rq.Blocks, rq.Signer = []blockDesc{bd}, s.Act.Args[1].S()
	default:
		return nil, fmt.Errorf("unknown action %s", s.Act.Name)
	}
	h := fnv.New64a()
	if s.Act.Name == "SBlocks" || s.Act.Name == "SConfirm" {
		fmt.Fprintf(h, "%d/%d/%d/%s", a.seed, a.beh, a.step, s.Act.String())
	} else {
		fmt.Fprintf(h, "%d/%d/%d/%s", a.seed, a.beh, a.step, rq.Cls)
	}
	rq.Seed = int64(h.Sum64() >> 1)
	b, _ := json.Marshal(rq)
	if _, err := a.in.Write(append(b, '\n')); err != nil {
		// the process died between two steps (asynchronous work of an earlier step): attributed to this step
	}
	m, err := a.read()
	if err != nil { // EOF: the node process is gone
		werr := a.cmd.Wait()
		code := -1
		if a.cmd.ProcessState != nil {
			code = a.cmd.ProcessState.ExitCode()
		}
		a.errBuf.mu.Lock()
		crash := crashHead(string(a.errBuf.buf))
		a.errBuf.mu.Unlock()
		a.cmd = nil
		a.dead = true
		if code == 0 {
			return nil, fmt.Errorf("node sub-process exited normally in the middle of a behaviour: %v", werr)
		}
		return engine.Fields{"alive": false, "exit": code, "crash": crash, "cseed": rq.Seed}, nil
	}
	if e, ok := m["error"]; ok {
		engine.Failf("wire-run: %v", e)
	}
	f := engine.Fields(m)
	f["cseed"] = rq.Seed
	if q, ok := m["quiet"].(bool); ok && !q {
		// the node is still running (reported in busy): nothing later in this behaviour could be attributed to its step
		a.kill()
		a.dead = true
	}
	return f, nil
}

func (a *adapter) Close() { a.kill() }

func init() {
	engine.Register("wire", func() engine.Adapter {
		seed, _ := strconv.ParseInt(os.Getenv("VERIF_SEED"), 10, 64)
		limit, _ := strconv.Atoi(os.Getenv("WIRE_LIMIT_MS"))
		if limit <= 0 {
			limit = 10000
		}
		return &adapter{seed: seed, limit: limit}
	})
	engine.RegisterDriver("wire-run", driveRun)
}
