package wire

// The RECEIVE-SIDE layer of spec/Wire.tla: what the remote party does with the bytes the node WRITES.  net.Pipe has no
// buffer, so a remote that stops reading blocks the node's Write at once - the state a TCP connection is in when the
// send buffer is full - until the deadline the node gave that write; a reset of the node's sending direction makes every
// write fail at once while reads go on; a hang-up closes both directions.  recConn (the node's end of the pipe) keeps
// book of the writes in flight and of the deadlines the node asked for; nothing is judged here.
//
// Time: the node's deadlines are constants of seconds (3 s / 10 s / 20 s).  While the remote does not read, recConn honours
// a deadline d as now + (d - now) / wdlDiv (WIRE_WDL_DIV, default 20): the code under test asks for its real deadline and
// gets the timeout error it would get, only sooner.  While the remote reads nothing is scaled.

import (
	"fmt"
	mrand "math/rand"
	"net"
	"os"
	"reflect"
	"runtime"
	"sort"
	"strconv"
	"strings"
	"sync"
	"sync/atomic"
	"syscall"
	"time"
)

const (
	rxRead  = 0
	rxStall = 1
	rxRst   = 2
)

var wdlDiv = func() int64 {
	if v, err := strconv.Atoi(os.Getenv("WIRE_WDL_DIV")); err == nil && v >= 1 {
		return int64(v)
	}
	return 20
}()

// graceMs: how long after the (scaled) deadline of a write the node has to have got out of it and cleaned up.  It only ends the
// wait in the failing case: a healthy node is observed as soon as nothing is in flight and nothing can run.
var graceMs = func() int {
	if v, err := strconv.Atoi(os.Getenv("WIRE_GRACE_MS")); err == nil && v > 0 {
		return v
	}
	return 4000
}()

type wrec struct {
	start   time.Time
	asked   time.Duration // the deadline the node asked for, relative to the moment it asked (0 = none)
	expires time.Time     // when the write fails at the latest (zero = never)
	n       int
}

type rxState struct {
	rmu      sync.Mutex
	mode     int
	askedDl  time.Duration
	expires  time.Time
	inflight map[int64]*wrec
	wseq     int64
	failed   []int // asked deadlines (ms) of the writes of the node that failed since the last step
	nwrites  int
}

func (c *recConn) setMode(m int) {
	c.rmu.Lock()
	c.mode = m
	c.rmu.Unlock()
	if m == rxRst {
		// the write in flight fails now
		c.Conn.SetWriteDeadline(time.Unix(1, 0))
	}
}

func (c *recConn) SetWriteDeadline(t time.Time) error {
	c.rmu.Lock()
	c.askedDl, c.expires = 0, time.Time{}
	if !t.IsZero() {
		d := time.Until(t)
		c.askedDl = d
		if c.mode == rxStall && d > 0 {
			t = time.Now().Add(d / time.Duration(wdlDiv))
		}
		c.expires = t
	}
	mode := c.mode
	c.rmu.Unlock()
	if mode == rxRst {
		return nil
	}
	return c.Conn.SetWriteDeadline(t)
}

func (c *recConn) SetDeadline(t time.Time) error {
	c.SetWriteDeadline(t)
	return c.Conn.SetReadDeadline(t)
}

func (c *recConn) Write(b []byte) (int, error) {
	c.rmu.Lock()
	c.nwrites++
	if c.mode == rxRst {
		c.failed = append(c.failed, int(c.askedDl/time.Millisecond))
		c.rmu.Unlock()
		return 0, &net.OpError{Op: "write", Net: "pipe", Err: syscall.ECONNRESET}
	}
	if c.inflight == nil {
		c.inflight = map[int64]*wrec{}
	}
	c.wseq++
	id := c.wseq
	c.inflight[id] = &wrec{start: time.Now(), asked: c.askedDl, expires: c.expires, n: len(b)}
	c.rmu.Unlock()
	n, err := c.Conn.Write(b)
	c.rmu.Lock()
	if err != nil {
		c.failed = append(c.failed, int(c.inflight[id].asked/time.Millisecond))
	}
	delete(c.inflight, id)
	c.rmu.Unlock()
	return n, err
}

// pendingWrites: how many writes of the node are in flight, the deadlines it asked for (ms, 0 = none), and when the last of
// them fails at the latest (zero time: one of them has no deadline at all).
func (c *recConn) pendingWrites() (n int, asked []int, latest time.Time, noDeadline bool) {
	c.rmu.Lock()
	defer c.rmu.Unlock()
	asked = []int{}
	for _, w := range c.inflight {
		n++
		asked = append(asked, int(w.asked/time.Millisecond))
		if w.expires.IsZero() {
			noDeadline = true
		} else if w.expires.After(latest) {
			latest = w.expires
		}
	}
	sort.Ints(asked)
	return
}

func (c *recConn) takeFailed() []int {
	c.rmu.Lock()
	defer c.rmu.Unlock()
	f := c.failed
	c.failed = nil
	if f == nil {
		f = []int{}
	}
	return f
}

// readFullPausable is the remote's reader: like readFull, but a remote that stopped reading waits (keeping its place in the frame).
func (c *conn) readFullPausable(cn net.Conn, b []byte) (int, error) {
	n := 0
	for n < len(b) {
		if atomic.LoadInt32(&c.paused) == 1 {
			c.mu.Lock()
			ch := c.resume
			c.mu.Unlock()
			if ch != nil {
				<-ch
			}
			cn.SetReadDeadline(time.Time{})
			continue
		}
		k, err := cn.Read(b[n:])
		n += k
		if err != nil {
			if os.IsTimeout(err) && atomic.LoadInt32(&c.paused) == 1 {
				continue
			}
			return n, err
		}
	}
	return n, nil
}

func (c *conn) stopReading() {
	c.mu.Lock()
	if c.resume == nil {
		c.resume = make(chan struct{})
	}
	c.mu.Unlock()
	atomic.StoreInt32(&c.paused, 1)
	c.cli.SetReadDeadline(time.Unix(1, 0)) // takes the reader out of a Read that waits for the node's next byte
	c.srv.setMode(rxStall)
}

func (c *conn) resumeReading() {
	c.srv.setMode(rxRead)
	atomic.StoreInt32(&c.paused, 0)
	c.mu.Lock()
	if c.resume != nil {
		close(c.resume)
		c.resume = nil
	}
	c.mu.Unlock()
}

// peerCount reads the size of the protocol manager's peer set (unexported; read at quiescence only).
func (n *node) peerCount() int {
	defer func() { recover() }()
	v := reflect.ValueOf(n.pm).Elem().FieldByName("peers")
	if !v.IsValid() || v.Kind() != reflect.Ptr || v.IsNil() {
		return -1
	}
	m := v.Elem().FieldByName("peers")
	if !m.IsValid() || m.Kind() != reflect.Map {
		return -1
	}
	return m.Len()
}

// writers returns the goroutines of the node that are inside a write to the connection (for the report only).
func writers() []string {
	nb := runtime.Stack(stackBuf, true)
	out := []string{}
	for _, g := range strings.Split(string(stackBuf[:nb]), "\n\n") {
		if strings.Contains(g, "wire.(*recConn).Write") {
			out = append(out, topFrames(g, 9))
		}
	}
	sort.Strings(out)
	return out
}

// rxFields adds the receive-side observations to a step's report.
func (n *node) rxFields(c *conn, m map[string]interface{}) {
	np, asked, _, _ := c.srv.pendingWrites()
	m["wpend"], m["wasked"], m["wfailed"] = np, asked, c.srv.takeFailed()
	if _, ok := m["wstuck"]; !ok {
		m["wstuck"] = []string{}
	}
	c.srv.rmu.Lock()
	mode := c.srv.mode
	c.srv.rmu.Unlock()
	m["rx"] = []string{"read", "stall", "rst"}[mode]
	m["peers"] = n.peerCount()
	m["wdiv"] = wdlDiv
	// the bystander: connected?, still connected?, how many TxsMsg frames it has been sent so far
	m["by"] = n.by != nil
	if n.by != nil {
		for _, code := range n.by.takeInbox() {
			if code == int(cTxs) {
				n.byTxs++
			}
		}
		m["bclosed"], m["bgot"] = n.by.srv.isClosed(), n.byTxs
	} else {
		m["bclosed"], m["bgot"] = false, 0
	}
}

const bystanderKeyHex = "8b720181f628d9e132af3a07cf6ed5a2b9e21d0d1c5de2b2a3b4c0e4c5d6e7f9" // another peer that is no deputy

// bystander connects a second, well-behaved remote party: genuine handshakes, a reader that takes everything the node sends.
func (n *node) bystander(c *conn, seed int64, limit time.Duration) map[string]interface{} {
	var m0, m1 runtime.MemStats
	runtime.ReadMemStats(&m0)
	by := n.accept()
	by.key = mustKey(bystanderKeyHex)
	b := &bctx{n: n, c: by, rng: mrand.New(mrand.NewSource(seed)), limit: limit}
	err := func() (err error) {
		defer func() {
			if r := recover(); r != nil {
				err = fmt.Errorf("panic: %v", r)
			}
		}()
		if err := hsGoodRun(b, nil, nil); err != nil {
			return err
		}
		return b.send(b.msg(cPhs, b.goodPayload("Phs")))
	}()
	if err != nil {
		return map[string]interface{}{"error": "the bystander could not connect: " + err.Error()}
	}
	ok, last, polls := quiesce(limit)
	select {
	case r := <-by.hsDone:
		if r == "" {
			by.hs = "ok"
		} else {
			by.hs = r
		}
	default:
	}
	n.by, n.byTxs = by, 0
	runtime.ReadMemStats(&m1)
	if last.blocked == nil {
		last.blocked = []string{}
	}
	m := map[string]interface{}{
		"alive": true, "closed": c.srv.isClosed(), "hs": c.hs, "bhs": by.hs, "quiet": ok, "blocked": last.blocked, "busy": []string{}, "wstuck": []string{},
		"allocK": kib(m1.TotalAlloc - m0.TotalAlloc), "readK": 0, "read": 0, "polls": polls, "nblk": 0, "nconf": 0,
	}
	if !ok {
		m["busy"] = last.busy
	}
	n.rxFields(c, m)
	if ok {
		n.observe(m)
	}
	return m
}

// heartbeat interval and retries of p2p.Peer (constants of the code under test; only used to size the wait of StallOut)
const stallOutWait = 5*time.Second + 5*20*time.Second

// rxStep performs one receive-side action of the remote and observes the node once it has settled: no write in flight any
// more and nothing able to run - or the deadlines the node asked for (as honoured by recConn) plus the grace period are over.
func (n *node) rxStep(c *conn, op string, limit time.Duration) map[string]interface{} {
	var m0, m1 runtime.MemStats
	t0 := time.Now()
	runtime.ReadMemStats(&m0)
	read0 := atomic.LoadInt64(&c.srv.nread)
	grace := time.Duration(graceMs) * time.Millisecond
	untilClosed := false
	switch op {
	case "StopReading":
		c.stopReading()
	case "Resume":
		c.resumeReading()
	case "ResetConn":
		c.srv.setMode(rxRst)
	case "HangUp":
		c.cli.Close()
	case "Deadline":
	case "StallOut":
		untilClosed = true
	default:
		return map[string]interface{}{"error": "unknown receive-side op " + op}
	}
	// the latest moment by which the node must have settled
	capAt := time.Now().Add(grace)
	if untilClosed {
		capAt = time.Now().Add(stallOutWait/time.Duration(1) + grace)
		if wdlDiv > 1 {
			capAt = time.Now().Add(5*time.Second + 5*20*time.Second/time.Duration(wdlDiv) + grace)
		}
	}
	var last snapshot
	quiet, polls, why := false, 0, "quiet"
	wstuck := []string{}
	for {
		np, _, latest, _ := c.srv.pendingWrites()
		if np > 0 && op != "StopReading" && !latest.IsZero() && latest.Add(grace).After(capAt) {
			capAt = latest.Add(grace)
		}
		settled := np == 0 || op == "StopReading"
		if untilClosed && !c.srv.isClosed() {
			settled = false
		}
		if settled {
			var got bool
			got, last, polls = quiesceOnce(polls)
			if got {
				if np2, _, _, _ := c.srv.pendingWrites(); (np2 == 0 || op == "StopReading") && (!untilClosed || c.srv.isClosed()) {
					quiet = true
					break
				}
			}
		} else {
			time.Sleep(2 * time.Millisecond)
		}
		if time.Now().After(capAt) {
			// not settled within the bound: take the picture as it is
			_, last, polls = quiesceOnce(polls)
			quiet = len(last.busy) == 0
			if np2, _, _, _ := c.srv.pendingWrites(); np2 > 0 {
				wstuck = writers()
				if len(wstuck) == 0 {
					wstuck = []string{fmt.Sprintf("%d writes in flight", np2)}
				}
			}
			why = "bound"
			break
		}
	}
	runtime.ReadMemStats(&m1)
	if wireDebug {
		fmt.Fprintf(os.Stderr, "RX %s quiet=%v closed=%v\n  %s\n", op, quiet, c.srv.isClosed(), strings.Join(last.raw, "\n  "))
	}
	blocked := last.blocked
	if blocked == nil {
		blocked = []string{}
	}
	busy := last.busy
	if busy == nil || quiet {
		busy = []string{}
	}
	m := map[string]interface{}{
		"alive": true, "closed": c.srv.isClosed(), "hs": c.hs, "quiet": quiet, "blocked": blocked, "busy": busy, "wstuck": wstuck,
		"allocK": kib(m1.TotalAlloc - m0.TotalAlloc), "readK": kib(uint64(atomic.LoadInt64(&c.srv.nread) - read0)),
		"read": atomic.LoadInt64(&c.srv.nread) - read0, "resp": c.takeInbox(), "polls": polls, "stop": why, "ms": int(time.Since(t0) / time.Millisecond),
		"nblk": 0, "nconf": 0,
	}
	n.rxFields(c, m)
	if quiet {
		n.observe(m)
	}
	return m
}
