// Package poolfork binds spec/PoolFork.tla to the real engine + pool (C18, fork-switch clause): blocks carrying
// real transactions are inserted into a real observer node (store, DPoVP, TxPool and TxGuard wired by
// chain.NewBlockChain) whose pool initially holds what the spec's initial state names (every transaction of the
// universe, or none: they are then only known from blocks).  Blocks may arrive with a
// deputy's confirm (they become stable inside the same saveNewBlock) or the confirm is delivered afterwards with
// DPoVP.InsertConfirms; block times come from epochs that lie more than the maximum transaction lifetime apart
// (whole idle rotations between a block and its parent) and a transaction expires in the epoch of the blocks that
// may carry it.  After every call the head, the stable block and the pool content - GetTxs at the latest block
// time the node has seen - are logged.  The adapter never judges.
package poolfork

import (
	"fmt"
	"math/big"
	"os"
	"path/filepath"
	"sort"
	"time"

	"github.com/LemoFoundationLtd/lemochain-core/chain/deputynode"
	"github.com/LemoFoundationLtd/lemochain-core/chain/params"
	"github.com/LemoFoundationLtd/lemochain-core/chain/types"
	"github.com/LemoFoundationLtd/lemochain-core/common"
	"github.com/LemoFoundationLtd/lemochain-core/store"

	"verifharness/engine"
	"verifharness/node"
	"verifharness/tla"
)

const (
	nDeputies = 3
	slotMs    = 1000
	// whole rotations of idle slots between two epochs: 1000 * 3 deputies * 1 s = 50 min > MaxTxLifeTime (30 min)
	epochRounds = 1000
	epochSec    = epochRounds * nDeputies * slotMs / 1000
	// a transaction of epoch e expires txLife seconds after the epoch starts: later than every block of the epoch
	// (they are seconds apart), within the lifetime window of each of them, and long before the next epoch
	txLife = 1000
)

type adapter struct {
	w       *node.World
	dir     string
	builder *node.Node
	built   map[string]*types.Block
	txs     map[string]*types.Transaction
	ids     map[common.Hash]string
	all     []string
	txep    map[string]int
	blocks  []*types.Block
	nut     *node.Node
	now     uint32 // latest block time seen by the node under test
	seq     int
	retired []retiredNode
}

// A node whose blocks became stable is not closed while its store still writes: the store writes the index data of
// stable blocks from a background goroutine that panics when the database is closed underneath it, and Close() with
// queued writes leaves that goroutine (and its channel buffers) blocked for ever.  A retired node is closed as soon as
// its write queue has drained (at the latest 20 s after its last use).
type retiredNode struct {
	n  *node.Node
	at time.Time
}

func drained(n *node.Node) bool {
	if n.DB == nil || n.DB.Beansdb == nil || n.DB.Beansdb.Queue == nil {
		return true
	}
	q := n.DB.Beansdb.Queue
	q.IndexRW.RLock()
	k := len(q.Index)
	q.IndexRW.RUnlock()
	return k == 0 && len(q.SyncFileDB.WriteChan) == 0 && len(q.DoneChan) == 0
}

func (a *adapter) retire(n *node.Node) {
	if n != nil {
		a.retired = append(a.retired, retiredNode{n, time.Now()})
	}
}

// destroy closes a quiescent node and drops the channel buffers of its store (4 MB): the engine's own 30 s timers
// (FetchRemoteConfirms after a stable change) keep the closed node reachable, which would pin gigabytes per process.
func destroy(n *node.Node) {
	var q *store.FileQueue
	if n.DB != nil && n.DB.Beansdb != nil {
		q = n.DB.Beansdb.Queue
	}
	n.Destroy()
	if q != nil {
		q.DoneChan = nil
		if q.SyncFileDB != nil {
			q.SyncFileDB.DoneChan, q.SyncFileDB.WriteChan = nil, nil
		}
	}
}

func (a *adapter) reap(all bool) {
	var keep []retiredNode
	for _, r := range a.retired {
		if age := time.Since(r.at); age > 20*time.Second || drained(r.n) {
			destroy(r.n)
		} else if all {
			os.RemoveAll(r.n.Dir)
		} else {
			keep = append(keep, r)
		}
	}
	a.retired = keep
}

func (a *adapter) init() {
	a.dir = os.Getenv("VERIF_SCRATCH_DIR")
	if a.dir == "" {
		a.dir = filepath.Join(os.TempDir(), fmt.Sprintf("verif-poolfork-%d", os.Getpid()))
	}
	if epochSec <= params.MaxTxLifeTime+txLife+120 {
		engine.Failf("epoch gap %d s does not exceed the transaction lifetime %d s (+%d +buckets)", epochSec, params.MaxTxLifeTime, txLife)
	}
	a.w = node.NewWorld(nDeputies, slotMs)
	deputynode.SetSelfNodeKey(a.w.Outsider2())
	a.builder = a.w.NewNode(filepath.Join(a.dir, "builder"))
	a.built = map[string]*types.Block{}
	a.txs = map[string]*types.Transaction{}
	a.ids = map[common.Hash]string{}
}

// tx returns the real transaction that stands for the spec's transaction id when it expires in epoch ep.
func (a *adapter) tx(id string, ep int) *types.Transaction {
	key := fmt.Sprintf("%s@%d", id, ep)
	if tx, ok := a.txs[key]; ok {
		return tx
	}
	to := common.HexToAddress("0x0100000000000000000000000000000000000b01")
	exp := uint64(a.w.GenesisTime) + uint64(ep*epochSec) + txLife
	tx := types.NewTransaction(a.w.Founder, to, big.NewInt(int64(1000+len(a.txs))), 100000, big.NewInt(1000000000), nil, params.OrdinaryTx, node.ChainID, exp, "", key)
	stx, err := types.DefaultSigner{}.SignTx(tx, a.w.FounderKey)
	if err != nil {
		engine.Failf("sign tx: %v", err)
	}
	a.txs[key] = stx
	a.ids[stx.Hash()] = id
	return stx
}

// pool asks the real pool the way a miner at time a.now would.
func (a *adapter) pool() []string {
	out := []string{}
	for _, tx := range a.nut.Pool.GetTxs(a.now, 100) {
		id, ok := a.ids[tx.Hash()]
		if !ok {
			id = "unknown:" + tx.Hash().Hex()
		}
		out = append(out, id)
	}
	sort.Strings(out)
	return out
}

func (a *adapter) index(h common.Hash) int {
	for i, blk := range a.blocks {
		if blk.Hash() == h {
			return i
		}
	}
	return -1
}

func size(v tla.Value) int {
	if v.Kind == tla.KFun {
		return len(v.Keys)
	}
	return len(v.Elems)
}

func (a *adapter) Reset(init map[string]tla.Value) (engine.Fields, error) {
	if a.w == nil {
		a.init()
	}
	a.retire(a.nut)
	a.nut = nil
	a.reap(false)
	parent, txs, ep := init["parent"], init["txs"], init["ep"]
	nb := size(parent)
	gt := a.w.GenesisTime
	a.blocks = []*types.Block{a.builder.Genesis}
	eps := []int{0}
	pars, beps, times := []int{}, []int{}, []int{}
	btx := [][]string{}
	// the universe of transactions and their epochs (the spec's constant TxEp, carried in the state for the binding)
	te := init["txep"]
	txep := map[string]int{}
	switch te.Kind {
	case tla.KRec:
		for k, v := range te.Fields {
			txep[k] = v.I()
		}
	case tla.KFun:
		for i, k := range te.Keys {
			txep[k.S()] = te.Vals[i].I()
		}
	default:
		engine.Failf("txep is neither a record nor a function: %s", te.String())
	}
	a.txep = txep
	a.all = nil
	for k := range txep {
		a.all = append(a.all, k)
	}
	sort.Strings(a.all)
	for b := 1; b <= nb; b++ {
		p := parent.GetI(b).I()
		e := ep.GetI(b).I()
		ids := txs.GetI(b).Strs()
		sort.Strings(ids)
		pb := a.blocks[p]
		if e < eps[p] {
			engine.Failf("block %d: epoch %d before its parent's %d", b, e, eps[p])
		}
		rank := int(pb.Height()) % nDeputies // slot 0 rotation: height h is mined by rank (h-1) % n
		rounds := (e - eps[p]) * epochRounds
		key := fmt.Sprintf("%s/%v/b%d/r%d/e%d", pb.Hash().Hex(), ids, b, rounds, e)
		blk, ok := a.built[key]
		if !ok {
			var list types.Transactions
			for _, id := range ids {
				list = append(list, a.tx(id, a.txep[id]))
			}
			var inv types.Transactions
			var err error
			blk, inv, err = a.builder.Build(pb, rank, rounds, list, fmt.Sprintf("b%d", b))
			if err != nil || len(inv) != 0 {
				// an honest miner (the real BlockAssembler) cannot build an honest block: a verdict, not a harness failure
				engine.Realf("build block %d (epoch %d, txs %v): %v (invalid %d)", b, e, ids, err, len(inv))
			}
			a.built[key] = blk
		}
		for _, id := range ids {
			// harness sanity: what a block carries is inside its lifetime window (else the builder had dropped it)
			if x := a.tx(id, a.txep[id]).Expiration(); x < uint64(blk.Time()) || x > uint64(blk.Time())+uint64(params.MaxTxLifeTime) {
				engine.Failf("block %d (time %d) carries %s expiring at %d", b, blk.Time(), id, x)
			}
		}
		lo, hi := gt+uint32(e*epochSec), gt+uint32(e*epochSec)+60
		if blk.Time() < lo || blk.Time() > hi {
			engine.Failf("block %d: time %d outside epoch %d [%d,%d]", b, blk.Time(), e, lo, hi)
		}
		a.blocks = append(a.blocks, blk)
		eps = append(eps, e)
		pars = append(pars, p)
		beps = append(beps, e)
		times = append(times, int(blk.Time()-gt))
		btx = append(btx, ids)
	}
	a.seq++
	a.nut = a.w.NewNode(filepath.Join(a.dir, fmt.Sprintf("nut%d", a.seq)))
	a.now = gt
	exp := map[string]int{}
	for _, id := range a.all {
		exp[id] = int(a.tx(id, a.txep[id]).Expiration() - uint64(gt))
	}
	// what was submitted to the node before the run: the spec's initial pool
	pend := init["pool"].Strs()
	sort.Strings(pend)
	for _, id := range pend {
		if _, ok := a.txep[id]; !ok {
			engine.Failf("initial pool names %s, which is not in the universe", id)
		}
		if err := a.nut.Pool.AddTx(a.tx(id, a.txep[id])); err != nil {
			engine.Failf("pool add: %v", err)
		}
	}
	return engine.Fields{"parent": pars, "txs": btx, "ep": beps, "time": times, "all": a.all, "exp": exp, "pend": pend,
		"now": 0, "pool": a.pool()}, nil
}

func (a *adapter) Apply(s engine.Step) (engine.Fields, error) {
	b := s.Act.Args[0].I()
	if b < 1 || b >= len(a.blocks) {
		return nil, fmt.Errorf("no block %d", b)
	}
	blk := a.blocks[b]
	// the confirm of a deputy that is not the miner: with 3 deputies it completes the quorum of 2
	minerRank := (int(blk.Height()) - 1) % nDeputies
	sig := node.Sign(blk.Hash(), a.w.Keys[(minerRank+1)%nDeputies], 0)
	var err error
	switch s.Act.Name {
	case "InsertBlock":
		var confirms []types.SignData
		if s.Act.Args[1].I() == 1 {
			confirms = []types.SignData{sig}
		}
		_, err = a.nut.DP.InsertBlock(node.Copy(blk, confirms))
		if err == nil && blk.Time() > a.now {
			a.now = blk.Time()
		}
	case "InsertConfirms":
		err = a.nut.DP.InsertConfirms(blk.Height(), blk.Hash(), []types.SignData{sig})
	default:
		return nil, fmt.Errorf("unknown action %s", s.Act.Name)
	}
	fl := engine.Fields{"ok": err == nil}
	if err != nil {
		fl["err"] = err.Error()
	}
	fl["head"] = a.index(a.nut.DP.CurrentBlock().Hash())
	fl["stable"] = a.index(a.nut.DP.StableBlock().Hash())
	fl["now"] = int(a.now - a.w.GenesisTime)
	fl["pool"] = a.pool()
	return fl, nil
}

func (a *adapter) Close() {
	a.retire(a.nut)
	a.nut = nil
	for i := 0; i < 40 && len(a.retired) > 0; i++ { // give the stores up to 2 s to drain, then drop what is left
		a.reap(false)
		if len(a.retired) > 0 {
			time.Sleep(50 * time.Millisecond)
		}
	}
	a.reap(true)
	if a.builder != nil {
		a.builder.Destroy()
	}
}

func init() { engine.Register("poolfork", func() engine.Adapter { return &adapter{} }) }
