// Package poolfork binds spec/PoolFork.tla to the real engine + pool (C18, fork-switch clause): blocks carrying
// real transactions are inserted into a real observer node whose pool initially holds every transaction of the
// universe; after every InsertBlock the head and the pool content are logged.
package poolfork

import (
	"fmt"
	"math/big"
	"os"
	"path/filepath"
	"sort"

	"github.com/LemoFoundationLtd/lemochain-core/chain/deputynode"
	"github.com/LemoFoundationLtd/lemochain-core/chain/params"
	"github.com/LemoFoundationLtd/lemochain-core/chain/types"
	"github.com/LemoFoundationLtd/lemochain-core/common"

	"verifharness/engine"
	"verifharness/node"
	"verifharness/tla"
)

const nDeputies = 3

type adapter struct {
	w       *node.World
	dir     string
	builder *node.Node
	built   map[string]*types.Block
	txs     map[string]*types.Transaction
	ids     map[common.Hash]string
	blocks  []*types.Block
	nut     *node.Node
	seq     int
}

func (a *adapter) init() {
	a.dir = os.Getenv("VERIF_SCRATCH_DIR")
	if a.dir == "" {
		a.dir = filepath.Join(os.TempDir(), fmt.Sprintf("verif-poolfork-%d", os.Getpid()))
	}
	a.w = node.NewWorld(nDeputies, 1000)
	deputynode.SetSelfNodeKey(a.w.Outsider2())
	a.builder = a.w.NewNode(filepath.Join(a.dir, "builder"))
	a.built = map[string]*types.Block{}
	a.txs = map[string]*types.Transaction{}
	a.ids = map[common.Hash]string{}
	to := common.HexToAddress("0x0100000000000000000000000000000000000b01")
	for i, id := range []string{"x", "y", "z"} {
		tx := types.NewTransaction(a.w.Founder, to, big.NewInt(int64(1000+i)), 100000, big.NewInt(1000000000), nil, params.OrdinaryTx, node.ChainID,
			uint64(node.GenesisTime)+1000, "", id)
		stx, err := types.DefaultSigner{}.SignTx(tx, a.w.FounderKey)
		if err != nil {
			panic(err)
		}
		a.txs[id] = stx
		a.ids[stx.Hash()] = id
	}
}

func (a *adapter) pool() []string {
	out := []string{}
	for _, tx := range a.nut.Pool.GetTxs(uint32(node.GenesisTime), 100) {
		id, ok := a.ids[tx.Hash()]
		if !ok {
			id = "unknown:" + tx.Hash().Hex()
		}
		out = append(out, id)
	}
	sort.Strings(out)
	return out
}

func (a *adapter) Reset(init map[string]tla.Value) (engine.Fields, error) {
	if a.w == nil {
		a.init()
	}
	if a.nut != nil {
		a.nut.Destroy()
	}
	parent, txs := init["parent"], init["txs"]
	nb := len(parent.Elems)
	if parent.Kind == tla.KFun {
		nb = len(parent.Keys)
	}
	a.blocks = []*types.Block{a.builder.Genesis}
	pars := []int{}
	btx := [][]string{}
	for b := 1; b <= nb; b++ {
		p := parent.GetI(b).I()
		ids := txs.GetI(b).Strs()
		sort.Strings(ids)
		pb := a.blocks[p]
		rank := int(pb.Height()) % nDeputies // slot 0 rotation: height h is mined by rank (h-1) % n
		key := fmt.Sprintf("%s/%v/b%d", pb.Hash().Hex(), ids, b)
		blk, ok := a.built[key]
		if !ok {
			var list types.Transactions
			for _, id := range ids {
				list = append(list, a.txs[id])
			}
			var inv types.Transactions
			var err error
			blk, inv, err = a.builder.Build(pb, rank, 0, list, fmt.Sprintf("b%d", b))
			if err != nil || len(inv) != 0 {
				engine.Realf("build block %d: %v (invalid %d)", b, err, len(inv))
			}
			a.built[key] = blk
		}
		a.blocks = append(a.blocks, blk)
		pars = append(pars, p)
		btx = append(btx, ids)
	}
	a.seq++
	a.nut = a.w.NewNode(filepath.Join(a.dir, fmt.Sprintf("nut%d", a.seq)))
	all := []string{"x", "y", "z"}
	for _, id := range all {
		if err := a.nut.Pool.AddTx(a.txs[id]); err != nil {
			engine.Failf("pool add: %v", err)
		}
	}
	return engine.Fields{"parent": pars, "txs": btx, "all": all, "pool": a.pool()}, nil
}

func (a *adapter) Apply(s engine.Step) (engine.Fields, error) {
	if s.Act.Name != "InsertBlock" {
		return nil, fmt.Errorf("unknown action %s", s.Act.Name)
	}
	b := s.Act.Args[0].I()
	_, err := a.nut.DP.InsertBlock(node.Copy(a.blocks[b], nil))
	fl := engine.Fields{"ok": err == nil}
	if err != nil {
		fl["err"] = err.Error()
	}
	head := a.nut.DP.CurrentBlock().Hash()
	fl["head"] = -1
	for i, blk := range a.blocks {
		if blk.Hash() == head {
			fl["head"] = i
		}
	}
	fl["pool"] = a.pool()
	return fl, nil
}

func (a *adapter) Close() {
	if a.nut != nil {
		a.nut.Destroy()
	}
	if a.builder != nil {
		a.builder.Destroy()
	}
}

func init() { engine.Register("poolfork", func() engine.Adapter { return &adapter{} }) }
