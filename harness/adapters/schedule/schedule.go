// Package schedule binds spec/ScheduleOps.tla to the real scheduling functions (C13).
// It evaluates the REAL GetMinerDistance, GetDeputyByDistance, GetCorrectMiner,
// GetNextMineWindow, Miner.getSleepTime and Validator.VerifyMiner on parameter tuples
// (those TLC enumerated, or a seeded grid far outside TLC's bounds) and logs one row per
// tuple; TraceSchedule.tla checks every row against the specification.
package schedule

import (
	"bufio"
	"crypto/ecdsa"
	"encoding/json"
	"flag"
	"fmt"
	"math/big"
	"math/rand"
	"os"
	"strconv"
	"strings"

	"github.com/LemoFoundationLtd/lemochain-core/chain/consensus"
	"github.com/LemoFoundationLtd/lemochain-core/chain/deputynode"
	"github.com/LemoFoundationLtd/lemochain-core/chain/miner"
	"github.com/LemoFoundationLtd/lemochain-core/chain/params"
	"github.com/LemoFoundationLtd/lemochain-core/chain/types"
	"github.com/LemoFoundationLtd/lemochain-core/common"
	"github.com/LemoFoundationLtd/lemochain-core/common/crypto"
	"github.com/LemoFoundationLtd/lemochain-core/store"

	"verifharness/engine"
	"verifharness/tla"
)

const (
	termDuration    = 20
	interimDuration = 3
)

type loader struct{ blocks map[uint32]*types.Block }

func (l *loader) GetBlockByHeight(h uint32) (*types.Block, error) {
	if b, ok := l.blocks[h]; ok {
		return b, nil
	}
	return nil, store.ErrBlockNotExist
}

func addr(tag byte, i int) common.Address {
	var a common.Address
	a[0] = 0x01
	a[1] = tag
	a[18] = byte(i >> 8)
	a[19] = byte(i)
	return a
}

// nodeKey is the deterministic node key of node i (its NodeID is what a term's deputy list names).
var nodeKeys = map[int]*ecdsa.PrivateKey{}

func nodeKey(i int) *ecdsa.PrivateKey {
	if k, ok := nodeKeys[i]; ok {
		return k
	}
	b := make([]byte, 32)
	b[0], b[1], b[30], b[31] = 0x13, 0x37, byte(i>>8), byte(i)
	b[5] = 1
	k, err := crypto.ToECDSA(b)
	if err != nil {
		panic(err)
	}
	nodeKeys[i] = k
	return k
}

func nodes(as []common.Address, ids []int) types.DeputyNodes {
	var out types.DeputyNodes
	for i, a := range as {
		out = append(out, &types.DeputyNode{MinerAddress: a, NodeID: crypto.PrivateKeyToNodeID(nodeKey(ids[i])), Rank: uint32(i), Votes: big.NewInt(int64(100000 - i))})
	}
	return out
}

// world is a real deputy manager with two terms.  Term 1 (elected by the snapshot block at height termDuration, in charge
// from termDuration+interimDuration+1) has the n deputies node 0..n-1; term 0 (genesis) has n0 deputies: node 0.. and,
// when n0 > n, extra nodes that are deputies of term 0 only - so the deputy COUNT changes at the term switch.  With alt,
// the nodes that serve in both terms mine for ANOTHER account in term 0 than in term 1 (re-registered in between).
type world struct {
	n, n0    int
	dm       *deputynode.Manager
	t0, t1   []common.Address // miner accounts by rank
	id0, id1 []int            // node index by rank
	outsider common.Address
}

type wkey struct {
	n, n0 int
	alt   bool
	seats int
}

var worlds = map[wkey]*world{}

// getWorld: the snapshot blocks LIST n (term 1) and n0 (term 0) nodes; the chain is configured with `seats` deputy seats, so
// only the first `seats` of a list are deputies (the others are candidate nodes, listed but without a slot).
func getWorld(n, n0 int, alt bool, seats int) *world {
	if w, ok := worlds[wkey{n, n0, alt, seats}]; ok {
		return w
	}
	params.TermDuration = termDuration
	params.InterimDuration = interimDuration
	w := &world{n: n, n0: n0, outsider: addr(0xee, 0)}
	for i := 0; i < n; i++ {
		w.t1 = append(w.t1, addr(0xd0, i))
		w.id1 = append(w.id1, i)
	}
	for i := 0; i < n0; i++ {
		switch {
		case i >= n: // the first extra node mines for w.outsider
			w.t0 = append(w.t0, addr(0xee, i-n))
			w.id0 = append(w.id0, 1000+i-n)
		case alt:
			w.t0 = append(w.t0, addr(0xa0, i))
			w.id0 = append(w.id0, i)
		default:
			w.t0 = append(w.t0, addr(0xd0, i))
			w.id0 = append(w.id0, i)
		}
	}
	l := &loader{blocks: map[uint32]*types.Block{}}
	l.blocks[0] = &types.Block{Header: &types.Header{Height: 0}, DeputyNodes: nodes(w.t0, w.id0)}
	l.blocks[termDuration] = &types.Block{Header: &types.Header{Height: termDuration}, DeputyNodes: nodes(w.t1, w.id1)}
	w.dm = deputynode.NewManager(seats, l)
	if len(w.t0) > seats {
		w.t0, w.id0 = w.t0[:seats], w.id0[:seats]
	}
	if len(w.t1) > seats {
		w.t1, w.id1 = w.t1[:seats], w.id1[:seats]
	}
	worlds[wkey{n, n0, alt, seats}] = w
	return w
}

type tuple struct {
	N       int
	Special bool
	Pr, Tr  int
	SlotMs  int64
	NowMs   int64 // relative to the parent's time
	BiMs    int64
	Parent  int64 // parent time, seconds
	Kind    string
	Extra   []int64 // extra instants (relative ms) at which to sample the verifier
}

func (t tuple) height() uint32 {
	switch t.Kind {
	case "h1":
		return 1
	case "reward":
		return termDuration + interimDuration + 1
	case "normal0":
		return 5
	case "interim": // the next term is elected already, the old one is still in charge
		return termDuration + 1 + uint32(t.Parent%interimDuration)
	default: // normal1
		return termDuration + interimDuration + 5
	}
}

func eval(t tuple) map[string]interface{} {
	// the term in charge at the target height has t.N deputies; the other term has a different number
	alt := (t.Parent/2)%2 == 1
	other := t.N + 1 + int(t.Parent%2)
	if t.N > 1 && (t.Parent/4)%3 == 0 {
		other = t.N - 1
	}
	var w *world
	var deps []common.Address
	var ids []int
	// every third tuple: the snapshot block of the term in charge lists two nodes more than the chain has seats
	// (candidate nodes); otherwise there are as many seats as the bigger term needs (the smaller term leaves seats empty)
	over := (t.Parent/12)%3 == 0
	mine, seats := t.N, t.N
	if over {
		mine = t.N + 2
	} else if other > seats {
		seats = other
	}
	switch t.Kind {
	case "reward":
		w = getWorld(mine, other, alt, seats)
		deps, ids = w.t1, w.id1
	case "normal1":
		w = getWorld(mine, mine, alt, t.N)
		deps, ids = w.t1, w.id1
	case "interim":
		w = getWorld(other, mine, alt, seats)
		deps, ids = w.t0, w.id0
	default: // h1, normal0
		w = getWorld(mine, mine, alt, t.N)
		deps, ids = w.t0, w.id0
	}
	h := t.height()
	parentMiner := w.outsider
	if t.Pr < t.N {
		parentMiner = deps[t.Pr]
		if t.Kind == "reward" && t.Pr < len(w.t0) { // the parent of the first block of a term was mined for a term-0 account
			parentMiner = w.t0[t.Pr]
		}
	}
	target := deps[t.Tr]
	row := map[string]interface{}{"ev": "row", "n": t.N, "special": t.Special, "pr": t.Pr, "tr": t.Tr,
		"slot": t.SlotMs, "now": t.NowMs, "bi": t.BiMs, "kind": t.Kind, "parent": strconv.FormatInt(t.Parent, 10),
		"h": int(h), "td": termDuration, "id": interimDuration, "c0": len(w.t0), "c1": len(w.t1), "count": w.dm.GetDeputiesCount(h), "hdr": -1}
	dist, err := w.dm.GetMinerDistance(h, parentMiner, target)
	if err != nil {
		row["dist"] = -1
		return row
	}
	row["dist"] = int(dist)
	dn, err := w.dm.GetDeputyByDistance(h, parentMiner, dist)
	if err != nil {
		row["bydist"] = -1
	} else {
		row["bydist"] = int(dn.Rank)
	}
	pms := t.Parent * 1000
	// Very long gaps (weeks: beyond 2^31 ms): the schedule is periodic in whole rotations (Rotation, checked by TLC), so the
	// row is logged relative to the start `base` of the rotation the instant `now` lies in - TLC's integers are 32-bit.
	// The real functions get the true instants.
	base := int64(0)
	if t.NowMs >= 1<<30 {
		loop := int64(t.N) * t.SlotMs
		base = t.NowMs / loop * loop
		row["now"] = t.NowMs - base
		row["base_rotations"] = strconv.FormatInt(base/loop, 10)
	}
	pms += base
	nowRel := t.NowMs - base
	from, to := consensus.GetNextMineWindow(h, dist, pms-base, pms+nowRel, t.SlotMs, w.dm)
	row["from"], row["to"] = from-pms, to-pms
	m := miner.New(miner.MineConfig{SleepTime: t.BiMs, Timeout: t.SlotMs, ReservedPropagationTime: 0}, nil, w.dm, nil)
	wait, end := m.VerifGetSleepTime(h, dist, pms-base, pms+nowRel)
	row["wake"], row["end"] = nowRel+wait, end-pms
	parent := &types.Header{Height: h - 1, Time: uint32(t.Parent), MinerAddress: parentMiner}
	// the account the REAL assembler stamps into a header mined by the target deputy's node
	deputynode.SetSelfNodeKey(nodeKey(ids[t.Tr]))
	stamped := target
	if hd, err := consensus.NewBlockAssembler(nil, w.dm, nil, nil).PrepareHeader(parent, ""); err == nil {
		stamped = hd.MinerAddress
		row["hdr"] = -2
		for i, d := range deps {
			if d == stamped {
				row["hdr"] = i
			}
		}
	}
	val := consensus.NewValidator(uint64(t.SlotMs), nil, w.dm, nil, nil)
	// sample instants: the window's edges and middle, the wake-up instant, now, and extras
	fr, tt := from-pms, to-pms
	samples := []int64{fr, fr + 1, (fr + tt) / 2, tt - 1, nowRel + wait, nowRel, tt, fr - 1}
	for _, x := range t.Extra {
		samples = append(samples, x-base)
	}
	var cm, ver [][]interface{}
	seen := map[int64]bool{}
	for _, s := range samples {
		if s < 0 || seen[s] {
			continue
		}
		seen[s] = true
		a, err := consensus.GetCorrectMiner(parent, pms+s, t.SlotMs, w.dm)
		rank := -1
		if err == nil {
			for i, d := range deps {
				if d == a {
					rank = i
				}
			}
		}
		cm = append(cm, []interface{}{s, rank})
		// a header whose time is the whole second of instant s (PrepareHeader), signed by each deputy in turn
		hdr := &types.Header{Height: h, Time: uint32(t.Parent + (base+s)/1000)}
		okTr, others := false, 0
		for i, d := range deps {
			hdr.MinerAddress = d
			if i == t.Tr {
				hdr.MinerAddress = stamped // what the target's own node writes
			}
			if val.VerifyMiner(hdr, parent) == nil {
				if i == t.Tr {
					okTr = true
				} else {
					others++
				}
			}
		}
		ver = append(ver, []interface{}{s, okTr, others})
	}
	row["cm"], row["ver"] = cm, ver
	return row
}

func kindsFor(special bool, pr, n int) []string {
	if special {
		if pr < n {
			return []string{"h1", "reward"}
		}
		return []string{"h1", "reward"}
	}
	return []string{"normal0", "normal1", "interim"}
}

func drive(args []string) error {
	fs := flag.NewFlagSet("schedule", flag.ContinueOnError)
	graph := fs.String("graph", "", "TLC dot dump of Schedule (parameter tuples as initial states)")
	grid := fs.Int("grid", 0, "number of seeded tuples outside TLC's bounds")
	out := fs.String("out", "rows.ndjson", "")
	shard := fs.String("shard", "0/1", "")
	seed := fs.Int64("seed", 1, "")
	tps := fs.Int64("tps", 2, "ticks per second used by the TLC model")
	if err := fs.Parse(args); err != nil {
		return err
	}
	parts := strings.Split(*shard, "/")
	si, _ := strconv.Atoi(parts[0])
	sn, _ := strconv.Atoi(parts[1])
	f, err := os.Create(*out)
	if err != nil {
		return err
	}
	defer f.Close()
	w := bufio.NewWriterSize(f, 1<<20)
	defer w.Flush()
	enc := json.NewEncoder(w)
	rng := rand.New(rand.NewSource(*seed*7919 + int64(si)))
	rows := 0
	emit := func(t tuple) error {
		for _, k := range kindsFor(t.Special, t.Pr, t.N) {
			t.Kind = k
			rows++
			if err := enc.Encode(eval(t)); err != nil {
				return err
			}
		}
		return nil
	}
	if *graph != "" {
		g, err := tla.LoadDot(*graph)
		if err != nil {
			return err
		}
		for i, lab := range g.Labels {
			if i%sn != si {
				continue
			}
			st, err := tla.ParseState(lab)
			if err != nil {
				return err
			}
			ms := 1000 / *tps
			slot := int64(st["T"].I()) * 1000
			t := tuple{N: st["n"].I(), Special: st["special"].B(), Pr: st["pr"].I(), Tr: st["tr"].I(),
				SlotMs: slot, NowMs: int64(st["now"].I())*ms + rng.Int63n(ms), BiMs: rng.Int63n(slot),
				Parent: 1600000000 + rng.Int63n(1e6)}
			if err := emit(t); err != nil {
				return err
			}
		}
	}
	for i := 0; i < *grid; i++ {
		if i%sn != si {
			continue
		}
		n := 1 + rng.Intn(41)
		special := rng.Intn(2) == 0
		pr := rng.Intn(n)
		if special && rng.Intn(3) == 0 {
			pr = n
		}
		slot := int64(1+rng.Intn(30)) * 1000
		rounds := int64(rng.Intn(1000))
		if rng.Intn(2) == 0 {
			rounds = int64(rng.Intn(4))
		}
		now := rounds*int64(n)*slot + rng.Int63n(int64(n)*slot)
		switch rng.Intn(6) { // hit slot boundaries exactly
		case 0:
			now = now / slot * slot
		case 1:
			now = now/slot*slot - 1
			if now < 0 {
				now = 0
			}
		}
		if i%8 == 7 { // a chain that stood still for weeks: around 2^31, 2^32, 2^33 ... milliseconds
			marks := []int64{1 << 31, 1 << 32, 1<<32 + 1<<31, 1 << 33, 3 << 32, 5 << 32}
			now = marks[rng.Intn(len(marks))] + rng.Int63n(4*int64(n)*slot) - 2*int64(n)*slot
		}
		t := tuple{N: n, Special: special, Pr: pr, Tr: rng.Intn(n), SlotMs: slot, NowMs: now, BiMs: rng.Int63n(slot),
			Parent: 1500000000 + rng.Int63n(2e9), Extra: []int64{rng.Int63n(now + slot*int64(n) + 1), rng.Int63n(slot*int64(n) + 1)}}
		if t.Parent+(t.NowMs+2*int64(n)*slot)/1000 > 4294967295 {
			t.Parent = 1600000000
		}
		if err := emit(t); err != nil {
			return err
		}
	}
	fmt.Printf("{\"rows\": %d}\n", rows)
	return nil
}

func init() { engine.RegisterDriver("schedule", drive) }
