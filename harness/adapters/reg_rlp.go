package adapters

import _ "verifharness/adapters/rlp"
