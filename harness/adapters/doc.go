// Package adapters links every adapter and driver into the vh binary: one file
// reg_<name>.go per adapter package, so adapters can be added independently.
package adapters
