package adapters

import _ "verifharness/adapters/poolfork"
