package adapters

import _ "verifharness/adapters/txpool"
