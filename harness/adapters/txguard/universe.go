// Package txguard binds spec/TxGuard.tla (generator) and spec/TraceTxGuard.tla (judge) to the real replay cache
// chain/txpool.TxGuard (C04 layer 1).  universe.go builds the REAL signed transactions shared with the
// replayprot adapter (C04 layer 2): one payload in two signature encodings, boxes around it, an unrelated tx.
// carrier.go writes the box payloads in the carrier encodings the specs name.
package txguard

import (
	"crypto/ecdsa"
	"fmt"
	"strings"
	"math/big"

	"github.com/LemoFoundationLtd/lemochain-core/chain/params"
	"github.com/LemoFoundationLtd/lemochain-core/chain/types"
	"github.com/LemoFoundationLtd/lemochain-core/common"
	"github.com/LemoFoundationLtd/lemochain-core/common/crypto"
	"github.com/LemoFoundationLtd/lemochain-core/common/rlp"

	"verifharness/engine"
)

// Universe is a family of real transactions with abstract ids.
type Universe struct {
	Tx      map[string]*types.Transaction
	IDs     []string
	Subs    map[string][]string
	Payload map[string]string // id -> id of the first transaction with the same SENDER-SIGNED content (the hash the sender signed)
	How     map[string]string // id -> how it differs from that first one: "" (it is the first), "sig" (signature bytes), "add" (a signature was appended), "gas" (what its gas payer filled in)
	Exp     map[string]int64  // absolute expiration
	Enc     map[string]map[string]*types.Transaction // box id -> carrier encoding -> the box with its payload written that way
	Cross   map[common.Hash]common.Hash              // identity of a transaction -> identity of ANOTHER one (carrier encoding "k")
	Var     map[string]string                        // id of an own-carrier variant (own.go) -> id of the transaction it re-writes
	OwnOnly map[string]bool                          // ids that exist only in the forms of own.go (variants and boxes around them)
	byWire  map[string]string                        // bytes of a transaction's own RLP (gasUsed zeroed) -> id (transactions that are not boxes)
}

func NewUniverse() *Universe {
	return &Universe{Tx: map[string]*types.Transaction{}, Subs: map[string][]string{}, Payload: map[string]string{}, How: map[string]string{}, Exp: map[string]int64{},
		Enc: map[string]map[string]*types.Transaction{}, Cross: map[common.Hash]common.Hash{}, Var: map[string]string{}, OwnOnly: map[string]bool{}, byWire: map[string]string{}}
}

func mustSign(tx *types.Transaction, key *ecdsa.PrivateKey) *types.Transaction {
	s, err := types.DefaultSigner{}.SignTx(tx, key)
	if err != nil {
		panic(err)
	}
	return s
}

// Transfer is an ordinary signed transfer.
func Transfer(key *ecdsa.PrivateKey, to common.Address, amount *big.Int, exp uint64, chainID uint16, msg string) *types.Transaction {
	from := crypto.PubkeyToAddress(key.PublicKey)
	return mustSign(types.NewTransaction(from, to, amount, 50000, big.NewInt(1000000000), nil, params.OrdinaryTx, chainID, exp, "", msg), key)
}

// Box is a signed box transaction around subs.
func Box(key *ecdsa.PrivateKey, exp uint64, chainID uint16, msg string, subs ...*types.Transaction) *types.Transaction {
	data, err := types.MarshalBoxData(subs)
	if err != nil {
		panic(err)
	}
	from := crypto.PubkeyToAddress(key.PublicKey)
	return mustSign(types.NoReceiverTransaction(from, big.NewInt(0), 200000, big.NewInt(1000000000), data, params.BoxTx, chainID, exp, "", msg), key)
}

// Reencode returns the same signed transaction with its first signature re-encoded as (r, n-s, v^1): other bytes,
// other transaction hash, same recovered signer.  The result went through an RLP round trip (what a peer receives).
func Reencode(tx *types.Transaction) *types.Transaction {
	cpy := tx.Clone()
	sig := cpy.Sigs()[0]
	if len(sig) != 65 {
		engine.Failf("unexpected signature length %d", len(sig))
	}
	n := crypto.S256().Params().N
	s := new(big.Int).SetBytes(sig[32:64])
	s.Sub(n, s)
	sb := s.Bytes()
	out := make([]byte, 65)
	copy(out[:32], sig[:32])
	copy(out[64-len(sb):64], sb)
	out[64] = sig[64] ^ 1
	cpy.Sigs()[0] = out
	return Wire(cpy)
}

// ExtraSig returns tx with one more signature appended: key signs the very hash the sender signed.  Other transaction hash, same
// sender-signed payload; the first signature is still the sender's.
func ExtraSig(tx *types.Transaction, key *ecdsa.PrivateKey) *types.Transaction {
	return Wire(mustSign(tx, key))
}

// Wire is the RLP round trip of a transaction.
func Wire(tx *types.Transaction) *types.Transaction {
	buf, err := rlp.EncodeToBytes(tx)
	if err != nil {
		panic(err)
	}
	nt := new(types.Transaction)
	if err := rlp.DecodeBytes(buf, nt); err != nil {
		panic(err)
	}
	return nt
}

// senderSigner is the signer the SENDER of tx used: a reimbursement transaction (gas payer signatures present) is signed by its
// sender without gasPrice / gasLimit.
func senderSigner(tx *types.Transaction) types.Signer {
	if len(tx.GasPayerSigs()) > 0 {
		return types.MakeReimbursementTxSigner()
	}
	return types.MakeSigner()
}

// Repriced builds reimbursement transaction msg (sender key signs once, without gas fields) and lets the gas payer price and sign
// it once per gas limit: the results share the sender-signed content and the sender's signature.
func Repriced(key, payerKey *ecdsa.PrivateKey, to common.Address, amount *big.Int, exp uint64, chainID uint16, msg string, gasLimits ...uint64) []*types.Transaction {
	from, payer := crypto.PubkeyToAddress(key.PublicKey), crypto.PubkeyToAddress(payerKey.PublicKey)
	raw := types.NewReimbursementTransaction(from, to, payer, amount, nil, params.OrdinaryTx, chainID, exp, "", msg)
	signed, err := types.MakeReimbursementTxSigner().SignTx(raw, key)
	if err != nil {
		panic(err)
	}
	var out []*types.Transaction
	for _, gl := range gasLimits {
		tx, err := types.MakeGasPayerSigner().SignTx(types.GasPayerSignatureTx(signed.Clone(), big.NewInt(1000000000), gl), payerKey)
		if err != nil {
			panic(err)
		}
		out = append(out, Wire(tx))
	}
	return out
}

func signersOf(tx *types.Transaction) string {
	as, err := senderSigner(tx).GetSigners(tx)
	if err != nil {
		return "error:" + err.Error()
	}
	s := ""
	for _, a := range as {
		s += a.Hex() + ","
	}
	return s
}

// Add registers a transaction.  Its payload class is derived from the real transaction: the hash the sender signed
// (senderSigner(tx).Hash; it names the sender); two ids in one class are two transactions with one sender-signed payload.  Every
// registered transaction carries its sender's valid signature first.
func (u *Universe) Add(id string, tx *types.Transaction, subs ...string) {
	for _, o := range u.IDs {
		if u.Tx[o].Hash() == tx.Hash() {
			engine.Failf("transactions %s and %s have the same hash", o, id)
		}
	}
	u.Tx[id] = tx
	if subs == nil {
		subs = []string{}
	}
	u.Subs[id] = subs
	u.Exp[id] = int64(tx.Expiration())
	u.Payload[id] = id
	u.How[id] = ""
	sh := senderSigner(tx).Hash(tx)
	if sg := signersOf(tx); strings.HasPrefix(sg, "error:") || !strings.HasPrefix(sg, tx.From().Hex()+",") {
		engine.Failf("transaction %s: the first signature is not its sender's (%s)", id, sg)
	}
	for _, o := range u.IDs {
		if senderSigner(u.Tx[o]).Hash(u.Tx[o]) == sh {
			u.Payload[id] = u.Payload[o]
			u.How[id] = "gas"
			if len(u.Tx[o].Sigs()) != len(tx.Sigs()) {
				u.How[id] = "add"
			} else if fmt.Sprint(u.Tx[o].Sigs()) != fmt.Sprint(tx.Sigs()) {
				u.How[id] = "sig"
			}
			break
		}
	}
	u.IDs = append(u.IDs, id)
	if tx.Type() != params.BoxTx {
		u.byWire[wireKey(tx)] = id
	}
}

// Txs maps ids to the real transactions (fresh copies, as decoded from the wire, so that no cached
// per-object state such as GasUsed is shared between blocks).
func (u *Universe) Txs(ids []string) types.Transactions {
	out := make(types.Transactions, 0, len(ids))
	for _, id := range ids {
		tx, ok := u.Tx[id]
		if !ok {
			engine.Failf("unknown tx id %q", id)
		}
		out = append(out, Wire(tx))
	}
	return out
}

// SetCross makes carrier encoding "k" name a as b and b as a.
func (u *Universe) SetCross(a, b string) {
	u.Cross[u.Tx[a].Hash()] = u.Tx[b].Hash()
	u.Cross[u.Tx[b].Hash()] = u.Tx[a].Hash()
}

// Standard builds t, t2 (= t re-encoded), u, b = box(t) by boxer, w = another box(t) by sender, with the given absolute
// expirations; the boxes in every carrier encoding of encs.
func Standard(sender, boxer *ecdsa.PrivateKey, to common.Address, amount *big.Int, chainID uint16, expT, expB, expU uint64, encs []string) *Universe {
	u := NewUniverse()
	t := Transfer(sender, to, amount, expT, chainID, "t")
	u.Add("t", t)
	u.Add("t2", Reencode(t))
	u.Add("u", Transfer(sender, to, new(big.Int).Add(amount, big.NewInt(1)), expU, chainID, "u"))
	u.SetCross("t", "u")
	u.AddBox("b", boxer, expB, chainID, encs, "t")
	u.AddBox("w", sender, expB, chainID, encs, "t")
	return u
}
