// Package txguard binds spec/TxGuard.tla (generator) and spec/TraceTxGuard.tla (judge) to the real replay cache
// chain/txpool.TxGuard (C04 layer 1).  universe.go builds the REAL signed transactions shared with the
// replayprot adapter (C04 layer 2): one payload in two signature encodings, a box around it, an unrelated tx.
package txguard

import (
	"crypto/ecdsa"
	"math/big"

	"github.com/LemoFoundationLtd/lemochain-core/chain/params"
	"github.com/LemoFoundationLtd/lemochain-core/chain/types"
	"github.com/LemoFoundationLtd/lemochain-core/common"
	"github.com/LemoFoundationLtd/lemochain-core/common/crypto"
	"github.com/LemoFoundationLtd/lemochain-core/common/rlp"

	"verifharness/engine"
)

// Universe is a family of real transactions with abstract ids.
type Universe struct {
	Tx      map[string]*types.Transaction
	IDs     []string
	Subs    map[string][]string
	Payload map[string]string // id -> id of the first transaction with the same SIGNED content (sign hash) and the same signers
	Exp     map[string]int64  // absolute expiration
}

func NewUniverse() *Universe {
	return &Universe{Tx: map[string]*types.Transaction{}, Subs: map[string][]string{}, Payload: map[string]string{}, Exp: map[string]int64{}}
}

func mustSign(tx *types.Transaction, key *ecdsa.PrivateKey) *types.Transaction {
	s, err := types.DefaultSigner{}.SignTx(tx, key)
	if err != nil {
		panic(err)
	}
	return s
}

// Transfer is an ordinary signed transfer.
func Transfer(key *ecdsa.PrivateKey, to common.Address, amount *big.Int, exp uint64, chainID uint16, msg string) *types.Transaction {
	from := crypto.PubkeyToAddress(key.PublicKey)
	return mustSign(types.NewTransaction(from, to, amount, 50000, big.NewInt(1000000000), nil, params.OrdinaryTx, chainID, exp, "", msg), key)
}

// Box is a signed box transaction around subs.
func Box(key *ecdsa.PrivateKey, exp uint64, chainID uint16, msg string, subs ...*types.Transaction) *types.Transaction {
	data, err := types.MarshalBoxData(subs)
	if err != nil {
		panic(err)
	}
	from := crypto.PubkeyToAddress(key.PublicKey)
	return mustSign(types.NoReceiverTransaction(from, big.NewInt(0), 200000, big.NewInt(1000000000), data, params.BoxTx, chainID, exp, "", msg), key)
}

// Reencode returns the same signed transaction with its first signature re-encoded as (r, n-s, v^1): other bytes,
// other transaction hash, same recovered signer.  The result went through an RLP round trip (what a peer receives).
func Reencode(tx *types.Transaction) *types.Transaction {
	cpy := tx.Clone()
	sig := cpy.Sigs()[0]
	if len(sig) != 65 {
		engine.Failf("unexpected signature length %d", len(sig))
	}
	n := crypto.S256().Params().N
	s := new(big.Int).SetBytes(sig[32:64])
	s.Sub(n, s)
	sb := s.Bytes()
	out := make([]byte, 65)
	copy(out[:32], sig[:32])
	copy(out[64-len(sb):64], sb)
	out[64] = sig[64] ^ 1
	cpy.Sigs()[0] = out
	return Wire(cpy)
}

// Wire is the RLP round trip of a transaction.
func Wire(tx *types.Transaction) *types.Transaction {
	buf, err := rlp.EncodeToBytes(tx)
	if err != nil {
		panic(err)
	}
	nt := new(types.Transaction)
	if err := rlp.DecodeBytes(buf, nt); err != nil {
		panic(err)
	}
	return nt
}

func signersOf(tx *types.Transaction) string {
	as, err := types.DefaultSigner{}.GetSigners(tx)
	if err != nil {
		return "error:" + err.Error()
	}
	s := ""
	for _, a := range as {
		s += a.Hex() + ","
	}
	return s
}

// Add registers a transaction.  Its payload class is derived from the real transaction: the hash the sender signed
// (DefaultSigner.Hash) together with the recovered signers; two ids in one class are two encodings of one signed payload.
func (u *Universe) Add(id string, tx *types.Transaction, subs ...string) {
	for _, o := range u.IDs {
		if u.Tx[o].Hash() == tx.Hash() {
			engine.Failf("transactions %s and %s have the same hash", o, id)
		}
	}
	u.Tx[id] = tx
	if subs == nil {
		subs = []string{}
	}
	u.Subs[id] = subs
	u.Exp[id] = int64(tx.Expiration())
	u.Payload[id] = id
	sh, sg := types.DefaultSigner{}.Hash(tx), signersOf(tx)
	for _, o := range u.IDs {
		if (types.DefaultSigner{}).Hash(u.Tx[o]) == sh && signersOf(u.Tx[o]) == sg {
			u.Payload[id] = u.Payload[o]
			break
		}
	}
	u.IDs = append(u.IDs, id)
}

// Txs maps ids to the real transactions (fresh copies, as decoded from the wire, so that no cached
// per-object state such as GasUsed is shared between blocks).
func (u *Universe) Txs(ids []string) types.Transactions {
	out := make(types.Transactions, 0, len(ids))
	for _, id := range ids {
		tx, ok := u.Tx[id]
		if !ok {
			engine.Failf("unknown tx id %q", id)
		}
		out = append(out, Wire(tx))
	}
	return out
}

// Standard builds t, t2 (= t re-encoded), b = box(t), u with the given absolute expirations.
func Standard(sender, boxer *ecdsa.PrivateKey, to common.Address, amount *big.Int, chainID uint16, expT, expB, expU uint64) *Universe {
	u := NewUniverse()
	t := Transfer(sender, to, amount, expT, chainID, "t")
	u.Add("t", t)
	u.Add("t2", Reencode(t))
	u.Add("b", Box(boxer, expB, chainID, "b", t), "t")
	u.Add("u", Transfer(sender, to, new(big.Int).Add(amount, big.NewInt(1)), expU, chainID, "u"))
	return u
}
