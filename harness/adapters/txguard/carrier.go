package txguard

// Carrier encodings.  A transaction reaches a node in a carrier: RLP for a transaction of its own, the JSON payload of a box
// for a sub-transaction.  The carrier holds more than the signed content (a redundant "hash" member, gasUsed, unknown
// members, member order, white space); whoever builds the box writes those as he likes.  The specs name carrier encodings
// (constant Encs); this file implements them on REAL payloads.  None of them touches a signed field - Universe.AddBox verifies
// through the real decoder that every sub-transaction still has the sign hash and the signatures of the original.
//
//   "c"  canonical: types.MarshalBoxData (what the node's own marshaller writes)
//   "h"  the "hash" member of every sub-transaction names an identity that does not exist (another one per occurrence)
//   "k"  the "hash" member names the identity of ANOTHER real transaction of the universe (Universe.Cross)
//   "g"  no "hash" member, gasUsed = junk (for a transaction of its own: the RLP gasUsed field = junk; candidates only)
//   "x"  syntax: member order reversed, white space, unknown members (nested ones named like known members), upper-case hex
//        digits in the signatures

import (
	"bytes"
	"crypto/ecdsa"
	"encoding/json"
	"fmt"
	"math/big"
	"strings"

	"github.com/LemoFoundationLtd/lemochain-core/chain/params"
	"github.com/LemoFoundationLtd/lemochain-core/chain/types"
	"github.com/LemoFoundationLtd/lemochain-core/common"
	"github.com/LemoFoundationLtd/lemochain-core/common/crypto"

	"verifharness/engine"
)

const Canon = "c"

// AllEncs is every carrier encoding implemented here.
var AllEncs = []string{"c", "h", "k", "g", "x"}

const junkGas = 7777777

// members of the canonical JSON of a transaction, in the marshaller's order
var memberOrder = []string{"type", "version", "chainID", "from", "gasPayer", "to", "toName", "gasPrice", "gasLimit", "gasUsed", "amount",
	"data", "expirationTime", "message", "sigs", "hash", "gasPayerSigs"}

func forgedHash(salt string, occ int) common.Hash {
	return crypto.Keccak256Hash([]byte(fmt.Sprintf("c04 forged identity %s #%d", salt, occ)))
}

// SubJSON writes sub-transaction tx in carrier encoding enc.  salt/occ make the forged identities of "h" distinct per
// occurrence; cross maps the real identity of a transaction to the one "k" names instead.
func SubJSON(tx *types.Transaction, enc, salt string, occ int, cross map[common.Hash]common.Hash) []byte {
	canon, err := json.Marshal(tx)
	if err != nil {
		panic(err)
	}
	if enc == Canon {
		return canon
	}
	var m map[string]json.RawMessage
	if err := json.Unmarshal(canon, &m); err != nil {
		panic(err)
	}
	order := append([]string(nil), memberOrder...)
	for k := range m {
		known := false
		for _, o := range order {
			known = known || o == k
		}
		if !known {
			engine.Failf("transaction JSON has a member %q this harness does not know", k)
		}
	}
	quote := func(s string) json.RawMessage { b, _ := json.Marshal(s); return b }
	real := Wire(tx).Hash() // computed from the fields of a fresh copy
	switch enc {
	case "h":
		m["hash"] = quote(forgedHash(salt, occ).Hex())
	case "k":
		o, ok := cross[real]
		if !ok { // nothing to cross-name it with
			o = forgedHash(salt, occ)
		}
		m["hash"] = quote(o.Hex())
	case "g":
		delete(m, "hash")
		m["gasUsed"] = quote(fmt.Sprintf("%d", junkGas+occ))
	case "x":
		for i, j := 0, len(order)-1; i < j; i, j = i+1, j-1 {
			order[i], order[j] = order[j], order[i]
		}
		var sigs []string
		if err := json.Unmarshal(m["sigs"], &sigs); err != nil {
			panic(err)
		}
		for i, s := range sigs {
			sigs[i] = "0x" + strings.ToUpper(strings.TrimPrefix(s, "0x"))
		}
		sb, _ := json.Marshal(sigs)
		m["sigs"] = sb
	default:
		engine.Failf("unknown carrier encoding %q", enc)
	}
	var buf bytes.Buffer
	sep := ","
	if enc == "x" {
		sep = " ,\n\t"
		buf.WriteString("{ \"zzUnknown\" : {\"hash\": \"" + forgedHash(salt, occ).Hex() + "\", \"amount\": \"1\", \"sigs\": []},\n \"note\":[1, 2, {\"to\":null}]" + sep)
	} else {
		buf.WriteString("{")
	}
	first := true
	for _, k := range order {
		v, ok := m[k]
		if !ok {
			continue
		}
		if !first {
			buf.WriteString(sep)
		}
		first = false
		if enc == "x" {
			fmt.Fprintf(&buf, "%q  :  %s", k, v)
		} else {
			fmt.Fprintf(&buf, "%q:%s", k, v)
		}
	}
	if enc == "x" {
		buf.WriteString("\n, \"extra\" : \"" + salt + "\" }\r\n")
	} else {
		buf.WriteString("}")
	}
	return buf.Bytes()
}

// ViaJSON is what the RPC hands to the node: transaction tx decoded by the node's decoder from its JSON written in carrier
// encoding enc.
func ViaJSON(tx *types.Transaction, enc, salt string, cross map[common.Hash]common.Hash) *types.Transaction {
	js := SubJSON(tx, enc, salt, 0, cross)
	nt := new(types.Transaction)
	if err := json.Unmarshal(js, nt); err != nil {
		engine.Failf("transaction JSON in carrier encoding %s is not readable by the node's decoder: %v", enc, err)
	}
	if tx.Type() != params.BoxTx && contentKey(nt) != contentKey(tx) {
		engine.Failf("transaction JSON in carrier encoding %s: the signed content changed", enc)
	}
	return nt
}

// BoxData is the payload of a box around subs in carrier encoding enc.
func BoxData(subs []*types.Transaction, enc, salt string, cross map[common.Hash]common.Hash) []byte {
	if enc == Canon {
		data, err := types.MarshalBoxData(subs)
		if err != nil {
			panic(err)
		}
		return data
	}
	var buf bytes.Buffer
	if enc == "x" {
		buf.WriteString(" {\n \"comment\" : \"c04\", \"subTxList\" : [ ")
	} else {
		buf.WriteString(`{"subTxList":[`)
	}
	for i, s := range subs {
		if i > 0 {
			buf.WriteString(",")
		}
		buf.Write(SubJSON(s, enc, salt, i, cross))
	}
	if enc == "x" {
		buf.WriteString(" ]\n , \"subTxLists\" : [] } ")
	} else {
		buf.WriteString("]}")
	}
	return buf.Bytes()
}

// signBox builds and signs the box transaction around a ready payload.
func signBox(key *ecdsa.PrivateKey, exp uint64, chainID uint16, msg string, data []byte) *types.Transaction {
	from := crypto.PubkeyToAddress(key.PublicKey)
	return mustSign(types.NoReceiverTransaction(from, big.NewInt(0), 200000, big.NewInt(1000000000), data, params.BoxTx, chainID, exp, "", msg), key)
}

// contentKey identifies the signed content and the signatures (sender's and gas payer's) of a transaction that is not a box from its
// FIELDS (the hash the signers signed is computed from the fields, never read from a cache).
func contentKey(tx *types.Transaction) string {
	cp := Wire(tx) // a fresh copy (not Clone: it dereferences the optional gasPayer member)
	s := senderSigner(cp).Hash(cp).Hex()
	for _, sig := range cp.Sigs() {
		s += "/" + common.ToHex(sig)
	}
	s += fmt.Sprintf("/gas=%d*%s", cp.GasLimit(), cp.GasPrice()) // what a gas payer fills in and signs
	for _, sig := range cp.GasPayerSigs() {
		s += "/" + common.ToHex(sig)
	}
	return s
}

// AddBox registers box id = [subs...] signed by key, in every carrier encoding of encs.  Each encoding is signed on its own (the
// box's signed content names its sub-transactions through the node's own parser, so the harness does not assume that two
// encodings make the same box).  The real decoder must read every payload as the same list of signed sub-transactions.
func (u *Universe) AddBox(id string, key *ecdsa.PrivateKey, exp uint64, chainID uint16, encs []string, subs ...string) {
	stx := make([]*types.Transaction, len(subs))
	for i, s := range subs {
		stx[i] = u.Tx[s]
		if stx[i] == nil {
			engine.Failf("box %s: unknown sub-transaction %s", id, s)
		}
	}
	u.Add(id, signBox(key, exp, chainID, id, BoxData(stx, Canon, id, u.Cross)), subs...)
	u.Enc[id] = map[string]*types.Transaction{}
	for _, e := range encs {
		data := BoxData(stx, e, id+"/"+e, u.Cross)
		box, err := types.GetBox(data)
		if err != nil {
			engine.Failf("box %s in carrier encoding %s is not readable by the node's decoder: %v", id, e, err)
		}
		if len(box.SubTxList) != len(stx) {
			engine.Failf("box %s in carrier encoding %s: %d sub-transactions read, %d written", id, e, len(box.SubTxList), len(stx))
		}
		for i, s := range box.SubTxList {
			if contentKey(s) != contentKey(stx[i]) {
				engine.Failf("box %s in carrier encoding %s: the signed content of sub-transaction %d changed", id, e, i)
			}
		}
		u.Enc[id][e] = signBox(key, exp, chainID, id, data)
	}
}

// Carried maps ids to fresh wire copies of the real transactions in carrier encoding enc.  A transaction of its own has one
// RLP carrier; only "g" differs (gasUsed field = junk; meaningful for candidate lists, the miner overwrites it).
func (u *Universe) Carried(ids []string, enc string) types.Transactions {
	out := make(types.Transactions, 0, len(ids))
	for _, id := range ids {
		tx, ok := u.Tx[id]
		if !ok {
			engine.Failf("unknown tx id %q", id)
		}
		if v, ok := u.Enc[id][enc]; ok {
			tx = v
		} else if u.OwnOnly[id] {
			engine.Failf("%s is (a box around) an own-carrier variant: it does not exist in carrier encoding %q", id, enc)
		} else if len(u.Subs[id]) > 0 && enc != Canon && !IsOwn(enc) {
			engine.Failf("box %s was not built in carrier encoding %q", id, enc)
		}
		w := Wire(tx)
		if enc == "g" && len(u.Subs[id]) == 0 {
			w.SetGasUsed(junkGas)
			w = Wire(w)
		}
		out = append(out, w)
	}
	return out
}

// Ident maps a real transaction to its id by its FIELDS (message = id for boxes; message and signature bytes otherwise), never by
// tx.Hash(): the identity the code under test gives a transaction is what is being checked.
func (u *Universe) Ident(tx *types.Transaction) string {
	var cand []string
	for _, id := range u.IDs {
		o := u.Tx[id]
		if o.Type() == tx.Type() && o.Message() == tx.Message() && o.From() == tx.From() && o.Expiration() == tx.Expiration() {
			cand = append(cand, id)
		}
	}
	if tx.Type() == params.BoxTx {
		if len(cand) == 1 {
			return cand[0]
		}
		return "unknown-box:" + tx.Message()
	}
	// byte for byte one of the transactions this harness wrote (a registered transaction, or one of the forms of an own-carrier variant)
	if id, ok := u.byWire[wireKey(tx)]; ok {
		return id
	}
	for _, id := range cand {
		if contentKey(u.Tx[id]) == contentKey(tx) {
			return id
		}
	}
	return "unknown:" + tx.Message()
}

// Idents maps a list.
func (u *Universe) Idents(txs types.Transactions) []string {
	out := make([]string, 0, len(txs))
	for _, tx := range txs {
		out = append(out, u.Ident(tx))
	}
	return out
}

// Filed reports, for diagnosis only, the identities (tx.Hash() of the transaction and of the sub-transactions the node's parser
// reads from its payload) under which the code files each transaction of the list.
func (u *Universe) Filed(txs types.Transactions) []string {
	out := []string{}
	for _, tx := range txs {
		s := u.Ident(tx) + "=" + tx.Hash().Prefix()
		if tx.Type() == params.BoxTx {
			if box, err := types.GetBox(tx.Data()); err == nil {
				for _, sub := range box.SubTxList {
					s += "," + u.Ident(sub) + "=" + sub.Hash().Prefix()
				}
			} else {
				s += ",unreadable"
			}
		}
		out = append(out, s)
	}
	return out
}
