package txguard

// Carrier forms of a transaction's OWN encoding (the second carrier dimension; the first one, carrier.go, rewrites what a box
// payload says about its sub-transactions).  A signed transaction travels as RLP (wire, blocks) or JSON (RPC, box payloads); some
// members of both encodings are optional, defaulted or derivable.  Anybody can write an already signed transaction again with such
// a member dropped, defaulted or written redundantly - the signature bytes stay what the sender produced.  Every such variant must
// either be refused or be the very same transaction to the replay guard.  This file writes the variants of REAL signed
// transactions with the real encoders and reads them back with the node's real decoders; nothing is signed here.
//
//   "p"  the gasPayer member toggled: written (= from) -> absent (RLP: empty string in that slot; JSON: member absent),
//        absent -> written redundantly (= from)
//   "q"  like p, JSON writes an explicit null instead of dropping the member (absent -> written: as p)
//   "o"  every optional member that holds its default is dropped from the JSON (toName "", data 0x, message "", gasUsed, hash, empty
//        gasPayerSigs, null gasPayer / to); RLP has no such members: the transaction as it is
//   "r"  the `to` member toggled: written -> absent, absent -> written with the default (zero) address
//   "v"  the version member defaulted (0)
//
// q and o only differ from p / from the original in JSON carriers (box payloads, RPC).

import (
	"bytes"
	"crypto/ecdsa"
	"encoding/json"
	"fmt"
	"math/big"

	"github.com/LemoFoundationLtd/lemochain-core/chain/params"
	"github.com/LemoFoundationLtd/lemochain-core/chain/types"
	"github.com/LemoFoundationLtd/lemochain-core/common"
	"github.com/LemoFoundationLtd/lemochain-core/common/crypto"
	"github.com/LemoFoundationLtd/lemochain-core/common/rlp"

	"verifharness/engine"
)

// OwnEncs is every form of a transaction's own carrier implemented here.
var OwnEncs = []string{"p", "q", "o", "r", "v"}

func IsOwn(enc string) bool {
	for _, e := range OwnEncs {
		if e == enc {
			return true
		}
	}
	return false
}

// positions of the members in the RLP list of a transaction (chain/types.txdata)
const (
	rlpVersion  = 1
	rlpFrom     = 3
	rlpGasPayer = 4
	rlpTo       = 5
	rlpSigs     = 14
	rlpMembers  = 16
)

func rlpMembersOf(tx *types.Transaction) []rlp.RawValue {
	buf, err := rlp.EncodeToBytes(tx)
	if err != nil {
		panic(err)
	}
	var raw []rlp.RawValue
	if err := rlp.DecodeBytes(buf, &raw); err != nil {
		panic(err)
	}
	if len(raw) != rlpMembers {
		engine.Failf("the RLP of a transaction has %d members, this harness knows %d", len(raw), rlpMembers)
	}
	return raw
}

func rlpJoin(raw []rlp.RawValue) []byte {
	buf, err := rlp.EncodeToBytes(raw)
	if err != nil {
		panic(err)
	}
	return buf
}

var rlpEmpty = rlp.RawValue{0x80}

// OwnRLP is the RLP of tx written in form; changed = false when the form leaves this carrier as it is.
func OwnRLP(tx *types.Transaction, form string) (out []byte, changed bool) {
	raw := rlpMembersOf(tx)
	canon := rlpJoin(raw)
	zero, _ := rlp.EncodeToBytes(common.Address{})
	switch form {
	case "p", "q":
		if bytes.Equal(raw[rlpGasPayer], rlpEmpty) {
			raw[rlpGasPayer] = raw[rlpFrom]
		} else {
			raw[rlpGasPayer] = rlpEmpty
		}
	case "o":
	case "r":
		if bytes.Equal(raw[rlpTo], rlpEmpty) {
			raw[rlpTo] = zero
		} else {
			raw[rlpTo] = rlpEmpty
		}
	case "v":
		raw[rlpVersion] = rlpEmpty
	default:
		engine.Failf("unknown own-carrier form %q", form)
	}
	out = rlpJoin(raw)
	return out, !bytes.Equal(out, canon)
}

// OwnJSON is the JSON of tx written in form.
func OwnJSON(tx *types.Transaction, form string) []byte {
	canon, err := json.Marshal(tx)
	if err != nil {
		panic(err)
	}
	var m map[string]json.RawMessage
	if err := json.Unmarshal(canon, &m); err != nil {
		panic(err)
	}
	is := func(k, v string) bool { return string(m[k]) == v }
	null := json.RawMessage("null")
	switch form {
	case "p", "q":
		if _, ok := m["gasPayer"]; !ok || is("gasPayer", "null") {
			m["gasPayer"] = m["from"]
		} else if form == "p" {
			delete(m, "gasPayer")
		} else {
			m["gasPayer"] = null
		}
	case "o":
		for k, def := range map[string][]string{"toName": {`""`}, "data": {`"0x"`, "null"}, "message": {`""`}, "gasPayerSigs": {"[]", "null"},
			"gasPayer": {"null"}, "to": {"null"}} {
			for _, d := range def {
				if is(k, d) {
					delete(m, k)
				}
			}
		}
		delete(m, "gasUsed")
		delete(m, "hash")
	case "r":
		if _, ok := m["to"]; !ok || is("to", "null") {
			m["to"], _ = json.Marshal(common.Address{})
		} else {
			delete(m, "to")
		}
	case "v":
		m["version"] = json.RawMessage(`"0"`)
	default:
		engine.Failf("unknown own-carrier form %q", form)
	}
	if form != "o" {
		delete(m, "hash") // informational; the node computes it
	}
	var buf bytes.Buffer
	buf.WriteString("{")
	first := true
	for _, k := range memberOrder {
		v, ok := m[k]
		if !ok {
			continue
		}
		if !first {
			buf.WriteString(",")
		}
		first = false
		fmt.Fprintf(&buf, "%q:%s", k, v)
		delete(m, k)
	}
	if len(m) != 0 {
		engine.Failf("transaction JSON has members this harness does not know: %v", m)
	}
	buf.WriteString("}")
	return buf.Bytes()
}

// FromRLP is the node's RLP decoder.
func FromRLP(buf []byte) (*types.Transaction, error) {
	nt := new(types.Transaction)
	if err := rlp.DecodeBytes(buf, nt); err != nil {
		return nil, err
	}
	return nt, nil
}

// FromJSON is the node's JSON decoder (RPC, box payloads).
func FromJSON(js []byte) (*types.Transaction, error) {
	nt := new(types.Transaction)
	if err := json.Unmarshal(js, nt); err != nil {
		return nil, err
	}
	return nt, nil
}

// wireKey names a transaction by the bytes of its own RLP (gasUsed, which whoever executes it fills in, set to zero): which of the
// objects this harness wrote it is.  Not a judgement: the identity the code gives a transaction is never consulted.
func wireKey(tx *types.Transaction) string {
	raw := rlpMembersOf(tx)
	raw[9] = rlpEmpty
	return string(rlpJoin(raw))
}

// SignedWithoutGasPayer is an ordinary transfer whose sender left the optional gasPayer member out and signed it that way (another
// SDK may: types.SignTx cannot, Transaction.Clone dereferences the member).  The signature is made over the node's own signing
// hash of the transaction as decoded from its RLP and put into the RLP list.
func SignedWithoutGasPayer(key *ecdsa.PrivateKey, to common.Address, amount *big.Int, exp uint64, chainID uint16, msg string) *types.Transaction {
	from := crypto.PubkeyToAddress(key.PublicKey)
	unsigned := types.NewTransaction(from, to, amount, 50000, big.NewInt(1000000000), nil, params.OrdinaryTx, chainID, exp, "", msg)
	buf, changed := OwnRLP(unsigned, "p")
	if !changed {
		engine.Failf("a new transaction has no gasPayer member")
	}
	bare, err := FromRLP(buf)
	if err != nil {
		engine.Failf("a transaction without gasPayer is not readable: %v", err)
	}
	h := types.MakeSigner().Hash(bare)
	sig, err := crypto.Sign(h[:], key)
	if err != nil {
		panic(err)
	}
	raw := rlpMembersOf(bare)
	sb, _ := rlp.EncodeToBytes([][]byte{sig})
	raw[rlpSigs] = sb
	tx, err := FromRLP(rlpJoin(raw))
	if err != nil {
		engine.Failf("signed transaction without gasPayer is not readable: %v", err)
	}
	return tx
}

// AddOwn registers id as "base written in another form of its own carrier", one real transaction per form of forms: the RLP of
// base re-written and read back by the node's decoder.  The signature bytes are those of base.  payload[id] = payload[base] and
// how[id] = "car" by construction: whatever the code makes of such a variant, it is the one payload its sender signed once.
func (u *Universe) AddOwn(id, base string, forms []string) {
	b := u.Tx[base]
	if b == nil || len(u.Subs[base]) > 0 {
		engine.Failf("own-carrier variant %s: unknown or box base %s", id, base)
	}
	u.Enc[id] = map[string]*types.Transaction{}
	for _, f := range forms {
		buf, changed := OwnRLP(b, f)
		if !changed {
			u.Enc[id][f] = Wire(b)
			continue
		}
		v, err := FromRLP(buf)
		if err != nil {
			engine.Failf("transaction %s in own-carrier form %s is not readable by the node's RLP decoder: %v", base, f, err)
		}
		if fmt.Sprint(v.Sigs()) != fmt.Sprint(b.Sigs()) || fmt.Sprint(v.GasPayerSigs()) != fmt.Sprint(b.GasPayerSigs()) {
			engine.Failf("transaction %s in own-carrier form %s: the signature bytes changed", base, f)
		}
		u.Enc[id][f] = v
		if _, ok := u.byWire[wireKey(v)]; !ok {
			u.byWire[wireKey(v)] = id
		}
		if u.Tx[id] == nil {
			u.Tx[id] = v
		}
	}
	if u.Tx[id] == nil {
		engine.Failf("own-carrier variant %s: no form changes the RLP of %s", id, base)
	}
	u.Var[id] = base
	u.OwnOnly[id] = true
	u.Subs[id] = []string{}
	u.Exp[id] = u.Exp[base]
	u.Payload[id] = u.Payload[base]
	u.How[id] = "car"
	u.IDs = append(u.IDs, id)
}

// AddOwnBox registers box id = [subs...] signed by key, one real box per form of forms: a box whose payload carries each
// sub-transaction that is an own-carrier variant in that form (its JSON), the others canonically.  A payload the node's decoder
// does not read is kept as it is (the box is then a transaction with an unreadable payload).
func (u *Universe) AddOwnBox(id string, key *ecdsa.PrivateKey, exp uint64, chainID uint16, forms []string, subs ...string) {
	u.Enc[id] = map[string]*types.Transaction{}
	for _, f := range forms {
		var buf bytes.Buffer
		buf.WriteString(`{"subTxList":[`)
		for i, s := range subs {
			if i > 0 {
				buf.WriteString(",")
			}
			if base, ok := u.Var[s]; ok {
				buf.Write(OwnJSON(u.Tx[base], f))
			} else {
				buf.Write(SubJSON(u.Tx[s], Canon, id, i, u.Cross))
			}
		}
		buf.WriteString("]}")
		u.Enc[id][f] = signBox(key, exp, chainID, id, buf.Bytes())
	}
	first := u.Enc[id][forms[0]]
	u.Tx[id] = first
	u.OwnOnly[id] = true
	u.Subs[id] = subs
	u.Exp[id] = int64(first.Expiration())
	u.Payload[id] = id
	u.How[id] = ""
	u.IDs = append(u.IDs, id)
}

// ViaRPC is what the RPC hands to the node for transaction id in carrier encoding enc: the node's JSON decoder on the JSON written
// that way; an error when the decoder refuses it.
func (u *Universe) ViaRPC(id, enc, salt string) (*types.Transaction, error) {
	if base, ok := u.Var[id]; ok && IsOwn(enc) {
		return FromJSON(OwnJSON(u.Tx[base], enc))
	}
	if IsOwn(enc) {
		enc = Canon
	}
	tx := u.Carried([]string{id}, enc)[0]
	return ViaJSON(tx, enc, salt, u.Cross), nil
}
