package txguard

import (
	"fmt"
	"math/big"
	"sort"
	"strings"

	"github.com/LemoFoundationLtd/lemochain-core/chain/params"
	"github.com/LemoFoundationLtd/lemochain-core/chain/txpool"
	"github.com/LemoFoundationLtd/lemochain-core/chain/types"
	"github.com/LemoFoundationLtd/lemochain-core/common"
	"github.com/LemoFoundationLtd/lemochain-core/common/crypto"

	"verifharness/engine"
	"verifharness/tla"
)

// Epoch is a multiple of 60: model time x is the real block timestamp Epoch + x.
const Epoch = 1600000020

const chainID = 200

var (
	senderKey, _ = crypto.HexToECDSA("432a86ab8765d82415a803e29864dcfc1ed93dac949abf6f95a583179f27e4bb")
	boxerKey, _  = crypto.HexToECDSA("c21b6b2fbf230f665b936194d14da67187732bf9d28768aef1a3cbb26608f8aa")
)

// queries asked after every step, about every live block, in every carrier encoding of the behaviour (input selection only; the
// trace spec judges each answer)
var queries = [][]string{{"t"}, {"t2"}, {"b"}, {"u"}, {"t", "u"}, {"b", "u"}, {"u", "t2"}, {"w"}}

type adapter struct {
	u      *Universe
	ukey   string
	guard  *txpool.TxGuard
	encs   []string
	qtxs   map[string][]types.Transactions // carrier encoding -> query -> transactions
	blocks []*types.Block // index = id-1
	parent []int
	stable int
	dead   map[int]bool
}

func (a *adapter) Reset(init map[string]tla.Value) (engine.Fields, error) {
	e := init["exp"]
	encs := init["encs"].Strs()
	sort.Strings(encs)
	key := e.String() + strings.Join(encs, ",")
	if a.u == nil || a.ukey != key {
		if e.F("t2").I() != e.F("t").I() || e.F("w").I() != e.F("b").I() {
			engine.Failf("t2 is a re-encoding of t, w another box like b: the spec must give each pair the same expiration")
		}
		a.u = Standard(senderKey, boxerKey, common.HexToAddress("0x12ab"), big.NewInt(3), chainID,
			uint64(Epoch+e.F("t").I()), uint64(Epoch+e.F("b").I()), uint64(Epoch+e.F("u").I()), encs)
		a.ukey = key
		a.encs = encs
		a.qtxs = map[string][]types.Transactions{}
		for _, enc := range encs {
			for _, q := range queries {
				a.qtxs[enc] = append(a.qtxs[enc], a.u.Carried(q, enc))
			}
		}
	}
	root := init["blocks"].GetI(1)
	t0 := uint32(Epoch + root.F("time").I())
	rb := &types.Block{Header: &types.Header{Height: 0, Time: t0, Extra: "b1"}}
	a.blocks = []*types.Block{rb}
	a.parent = []int{0}
	a.stable = 1
	a.dead = map[int]bool{}
	a.guard = txpool.NewTxGuard(t0)
	a.guard.SaveBlock(rb)
	exp := map[string]int64{}
	hashes := map[string]string{}
	for _, id := range a.u.IDs {
		exp[id] = a.u.Exp[id] - Epoch
		hashes[id] = a.u.Tx[id].Hash().Hex()
	}
	fl := engine.Fields{"exp": exp, "subs": a.u.Subs, "payload": a.u.Payload, "hash": hashes, "root_time": root.F("time").I(),
		"life": params.MaxTxLifeTime, "queries": queries, "encs": a.encs}
	a.answers(fl)
	return fl, nil
}

func (a *adapter) live() []int {
	var out []int
	for id := 1; id <= len(a.blocks); id++ {
		if a.dead[id] {
			continue
		}
		for x := id; x != 0; x = a.parent[x-1] {
			if x == a.stable {
				out = append(out, id)
				break
			}
		}
	}
	return out
}

// answers asks the real guard every query about every live block in every carrier encoding and logs the answers: one row per
// (block p, encoding e) with r[k] = answer to queries[k] (compact: the trace validator holds the whole log in memory).
func (a *adapter) answers(fl engine.Fields) {
	live := a.live()
	ans := []map[string]interface{}{}
	for _, p := range live {
		for _, enc := range a.encs {
			r := make([]bool, len(queries))
			for qi := range queries {
				r[qi] = a.guard.ExistTxs(a.blocks[p-1].Hash(), a.qtxs[enc][qi])
			}
			ans = append(ans, map[string]interface{}{"p": p, "e": enc, "r": r})
		}
	}
	fl["live"] = live
	fl["ans"] = ans
}

func (a *adapter) Apply(s engine.Step) (engine.Fields, error) {
	fl := engine.Fields{}
	arg := s.Act.Args
	switch s.Act.Name {
	case "SaveBlock":
		p, tm := arg[0].I(), arg[1].I()
		ids := arg[2].Strs()
		sort.Strings(ids)
		txs := a.u.Carried(ids, arg[3].S()) // the block's transactions in the carrier encoding of this step
		par := a.blocks[p-1]
		id := len(a.blocks) + 1
		blk := &types.Block{Header: &types.Header{ParentHash: par.Hash(), Height: par.Height() + 1, Time: uint32(Epoch + tm),
			Extra: fmt.Sprintf("b%d", id), TxRoot: txs.MerkleRootSha()}, Txs: txs}
		a.blocks = append(a.blocks, blk)
		a.parent = append(a.parent, p)
		a.guard.SaveBlock(blk)
		fl["id"] = id
	case "SaveAgain":
		a.guard.SaveBlock(a.blocks[arg[0].I()-1])
	case "Advance":
		a.stable = arg[0].I()
		a.guard.DelOldBlocks(a.blocks[a.stable-1].Time())
	case "Restart":
		// chain.NewBlockChain: NewTxGuard(stable.Time()) followed by BlockChain.initTxPool, whose loop over the stable
		// chain is reproduced here (it needs a whole BlockChain); layer 2 restarts through the real chain.NewBlockChain.
		st := a.blocks[a.stable-1]
		g := txpool.NewTxGuard(st.Time())
		for it := a.stable; it != 0 && st.Time()-a.blocks[it-1].Time() <= uint32(params.MaxTxLifeTime); it = a.parent[it-1] {
			g.SaveBlock(a.blocks[it-1])
		}
		a.guard = g
		onStable := map[int]bool{}
		for x := a.stable; x != 0; x = a.parent[x-1] {
			onStable[x] = true
		}
		for id := 1; id <= len(a.blocks); id++ {
			if !onStable[id] {
				a.dead[id] = true
			}
		}
	default:
		return nil, fmt.Errorf("unknown action %s", s.Act.Name)
	}
	a.answers(fl)
	return fl, nil
}

func (a *adapter) Close() {}

func init() { engine.Register("txguard", func() engine.Adapter { return &adapter{} }) }
