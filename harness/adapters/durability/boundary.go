package durability

// Record-length boundaries of the on-disk formats.
//
// tmp.data and the bitcask data files hold records padded to multiples of 256 bytes; the low byte of a bitcask
// position is the file index.  spec/Durability.tla gives every record a length class relative to such a boundary
// (below = k*256-1, on = k*256, above = k*256+1, for the unpadded head+body length as the code computes it).  This
// file steers the payloads of the workload so that records of every kind the stable-block pipeline writes land on
// those lengths exactly:
//
//	code   contract code of computed length                       (FileQueue.Put,      ItemFlagCode)
//	trie   storage value of computed length -> storage-trie leaf  (trie PutBatch,      ItemFlagTrie)
//	acct   candidate introduction text of computed length         (blockCommit batch,  ItemFlagAct)
//	blk    header extra data of computed length                   (blockCommit batch,  ItemFlagBlock)
//	blkc   the same block rewritten with its confirms             (SetConfirms Put,    ItemFlagBlock)
//
// The filler lengths are not guessed: `durability-calib` runs the script with the async writer held back (so that
// tmp.data keeps every record), reads the lengths the REAL code wrote (walLayout), and corrects the fillers until every
// target is hit.  All later runs of the same workload seed load the result (-pads).

import (
	"bytes"
	"encoding/json"
	"flag"
	"fmt"
	"os"
	"path/filepath"

	"github.com/LemoFoundationLtd/lemochain-core/chain/types"
	"github.com/LemoFoundationLtd/lemochain-core/common"
	"github.com/LemoFoundationLtd/lemochain-core/common/crypto"
	"github.com/LemoFoundationLtd/lemochain-core/store"
	"github.com/LemoFoundationLtd/lemochain-core/store/leveldb"

	"verifharness/engine"
)

type pad struct {
	Code  int `json:"code"`
	Val   int `json:"val"`
	Intro int `json:"intro"`
	Extra int `json:"extra"`
}

// target: record <Kind> of block H shall have unpadded length = Q'*256 + Cls (Cls -1 below / 0 on / +1 above).
// Q > 0 asks for that multiple, Q = 0 for the nearest reachable one.  Len is the length measured on disk.
type target struct {
	Kind string `json:"kind"`
	H    int    `json:"h"`
	Cls  int    `json:"cls"`
	Q    int    `json:"q"`
	Len  int    `json:"len"`
}

func (t target) id() string { return fmt.Sprintf("%s:%d", t.Kind, t.H) }

var kindIdx = map[string]int{"code": 0, "trie": 1, "acct": 2, "blk": 3, "blkc": 4}

// planTargets assigns a length class to one record of every kind in every block: per kind the classes rotate
// (below, on, above, ...), shifted by kind and seed, so that one workload covers every kind x class and the
// boundary records sit at the start, in the middle and at the end of what is pending.
func (s *script) planTargets() {
	sd := int(((s.seed % 3) + 3) % 3)
	cnt := map[string]int{}
	add := func(kind string, h int, sized bool) {
		i := cnt[kind]
		cnt[kind]++
		q := 0
		if sized { // code and storage values can have any size: the multiple rotates too, out of step with the class
			q = 1 + (i+i/3+kindIdx[kind])%3
		}
		s.Targets = append(s.Targets, target{Kind: kind, H: h, Cls: (i+kindIdx[kind]+sd)%3 - 1, Q: q})
	}
	// only blocks the script promotes are committed (block + account records); the last ones may stay unstable
	top := 0
	for _, st := range s.Steps {
		if st.Op == "promote" && st.H > top {
			top = st.H
		}
	}
	// every other confirm step steers the rewritten block record instead of the committed one - as long as three
	// committed block records (one per class) remain
	confT, nc := map[int]bool{}, 0
	for _, st := range s.Steps {
		if st.Op == "confirm" && !confT[st.H] {
			if nc%2 == 0 && top+1-len(confT) > 3 {
				confT[st.H] = true
			}
			nc++
		}
	}
	for h := 0; h <= s.NB; h++ {
		if h >= 1 {
			add("code", h, true)
			add("trie", h, true)
		}
		if h > top {
			continue
		}
		add("acct", h, false)
		if confT[h] {
			add("blkc", h, false)
		} else {
			add("blk", h, false)
		}
	}
}

// fill is n bytes of deterministic printable filler.
func fill(n, salt int) string {
	const abc = "abcdefghijklmnopqrstuvwxyz0123456789ABCDEFGHIJKLMNOPQRSTUVWXYZ"
	if n <= 0 {
		return ""
	}
	b := make([]byte, n)
	for i := range b {
		b[i] = abc[(i*7+salt*13)%len(abc)]
	}
	return string(b)
}

func digest(b []byte) string {
	if len(b) == 0 {
		return "0:"
	}
	h := crypto.Keccak256Hash(b)
	return fmt.Sprintf("%d:%x", len(b), h[:6])
}

func (s *script) padOf(h int) pad {
	if h >= 0 && h < len(s.Pads) {
		return s.Pads[h]
	}
	return pad{}
}

// candOf is the candidate whose profile block h rewrites.
func (s *script) candOf(h int) common.Address {
	switch {
	case h == 3:
		return aC3 // registers in block 3
	case h > 3:
		return []common.Address{aC1, aC2, aC3}[h%3]
	}
	return []common.Address{aC1, aC2}[h%2]
}

func (s *script) profileOf(h int) types.Profile {
	c := s.candOf(h)
	p := profile(c, types.IsCandidateNode)
	p[types.CandidateKeyIntroduction] = fmt.Sprintf("%s-%d-%d|", names[c], s.seed, h) + fill(s.padOf(h).Intro, h)
	return p
}

func (s *script) codeOf(h int) []byte {
	return []byte(fmt.Sprintf("contract-code-%d-%d|", s.seed, h) + fill(s.padOf(h).Code, h+1))
}

func (s *script) valMark(h int) []byte { return []byte(fmt.Sprintf("v%d-%d|", h, s.seed)) }

// valOf: always long enough for the leaf to be a trie node of its own (>= 32 bytes)
func (s *script) valOf(h int) []byte {
	return append(s.valMark(h), []byte(fill(40+s.padOf(h).Val, h+2))...)
}

func (s *script) extraOf(h int) string { return fill(s.padOf(h).Extra, h+3) }

func (s *script) loadPads(path string) error {
	if path == "" {
		return nil
	}
	b, err := os.ReadFile(path)
	if err != nil {
		return err
	}
	var f struct {
		Seed int64 `json:"seed"`
		NB   int   `json:"nb"`
		Pads []pad `json:"pads"`
	}
	if err := json.Unmarshal(b, &f); err != nil {
		return err
	}
	if f.Seed != s.seed || f.NB != s.NB || len(f.Pads) != s.NB+1 {
		return fmt.Errorf("pads file %s is for seed %d nb %d, not seed %d nb %d", path, f.Seed, f.NB, s.seed, s.NB)
	}
	s.Pads = f.Pads
	return nil
}

// measure finds the target records in a record list (tmp.data of a run whose writer was held back) and returns their
// unpadded lengths by target id; a target that cannot be found is absent.
func (s *script) measure(recs []walRec, hashes map[int]common.Hash) map[string]int {
	out := map[string]int{}
	blkAt := map[int][]int{} // height -> indices of its block records
	for i, r := range recs {
		if r.Flg == int(leveldb.ItemFlagBlock) {
			for h, hash := range hashes {
				if r.Key == common.ToHex(hash.Bytes()) {
					blkAt[h] = append(blkAt[h], i)
				}
			}
		}
	}
	for _, t := range s.Targets {
		switch t.Kind {
		case "code":
			key := common.ToHex(crypto.Keccak256Hash(s.codeOf(t.H)).Bytes())
			for _, r := range recs {
				if r.Flg == int(leveldb.ItemFlagCode) && r.Key == key {
					out[t.id()] = r.Len
					break
				}
			}
		case "trie":
			for _, r := range recs {
				if r.Flg == int(leveldb.ItemFlagTrie) && bytes.Contains(r.val, s.valMark(t.H)) {
					out[t.id()] = r.Len
					break
				}
			}
		case "blk":
			if len(blkAt[t.H]) >= 1 {
				out[t.id()] = recs[blkAt[t.H][0]].Len
			}
		case "blkc":
			if len(blkAt[t.H]) >= 2 {
				out[t.id()] = recs[blkAt[t.H][1]].Len
			}
		case "acct":
			if len(blkAt[t.H]) >= 1 {
				key := common.ToHex(s.candOf(t.H).Bytes())
				for i := blkAt[t.H][0] + 1; i < len(recs) && recs[i].Flg != int(leveldb.ItemFlagBlock); i++ {
					if recs[i].Flg == int(leveldb.ItemFlagAct) && recs[i].Key == key {
						out[t.id()] = recs[i].Len
						break
					}
				}
			}
		}
	}
	return out
}

func mod256(n int) int { return ((n % slot) + slot) % slot }

// runSteps feeds the whole script to a fresh node.
func runSteps(n *node) error {
	for _, st := range n.s.Steps {
		switch st.Op {
		case "insert":
			n.insert(st.H)
		case "promote":
			if _, err := n.db.SetStableBlock(n.hashes[st.H]); err != nil {
				return fmt.Errorf("SetStableBlock %d: %v", st.H, err)
			}
		case "confirm":
			if _, err := n.db.SetConfirms(n.hashes[st.H], sigs(st.H)); err != nil {
				return fmt.Errorf("SetConfirms %d: %v", st.H, err)
			}
		}
	}
	return nil
}

// driveCalib computes the filler lengths.  Must run with VERIF_CRASH_SCHED=lag (the async writer never starts, so
// tmp.data is never emptied and holds every record of the script in write order).
func driveCalib(args []string) error {
	fs := flag.NewFlagSet("durability-calib", flag.ContinueOnError)
	dir := fs.String("dir", "", "scratch directory")
	out := fs.String("out", "pads.json", "")
	seed := fs.Int64("seed", 1, "")
	nb := fs.Int("nb", 6, "")
	if err := fs.Parse(args); err != nil {
		return err
	}
	if os.Getenv("VERIF_CRASH_SCHED") != "lag" {
		engine.Failf("durability-calib needs VERIF_CRASH_SCHED=lag")
	}
	s := newScript(*seed, *nb)
	want := map[string]int{} // target id -> wanted unpadded length
	miss := map[string]int{}
	knob := func(t target) *int {
		p := &s.Pads[t.H]
		switch t.Kind {
		case "code":
			return &p.Code
		case "trie":
			return &p.Val
		case "acct":
			return &p.Intro
		}
		return &p.Extra
	}
	for round := 0; round < 16; round++ {
		d := filepath.Join(*dir, fmt.Sprintf("round%d", round))
		n := &node{s: s, hashes: map[int]common.Hash{}}
		n.db = store.NewChainDataBase(d)
		if err := runSteps(n); err != nil {
			return err
		}
		recs, size, stop := walLayout(filepath.Join(d, "tmp.data"))
		n.db.Close()
		os.RemoveAll(d)
		if stop != "eof" {
			// what the real code wrote while nothing crashed is not a sequence of records padded to 256 bytes: that is an
			// observation for the trace spec (LayoutOK), not a harness failure - it is handed back instead of the pads
			lens, flgs := []int{}, []int{}
			for _, r := range recs {
				lens, flgs = append(lens, r.Len), append(flgs, r.Flg)
			}
			b, _ := json.Marshal(map[string]interface{}{"seed": *seed, "nb": *nb, "rounds": round + 1,
				"layout_fail": map[string]interface{}{"lens": lens, "flgs": flgs, "size": size, "stop": stop}})
			return os.WriteFile(*out, b, 0644)
		}
		got := s.measure(recs, n.hashes)
		done := true
		settled := map[int]bool{} // blocks whose code/trie/acct targets are hit: only then is the block record steered
		for h := 0; h <= *nb; h++ {
			settled[h] = true
		}
		for pass := 0; pass < 2; pass++ { // pass 0: code, trie, acct; pass 1: blk, blkc (their length depends on the others)
			for i := range s.Targets {
				t := &s.Targets[i]
				isBlk := t.Kind == "blk" || t.Kind == "blkc"
				if isBlk != (pass == 1) {
					continue
				}
				l, ok := got[t.id()]
				if !ok {
					engine.Failf("calibration: record of target %s not found in tmp.data (%d records)", t.id(), len(recs))
				}
				t.Len = l
				if _, ok := want[t.id()]; !ok {
					w := l + mod256(t.Cls-l)
					if t.Q > 0 {
						for w = t.Q*slot + t.Cls; w < l; w += slot { // first seen with an empty filler: l is the shortest possible
						}
					}
					want[t.id()] = w
				}
				if l == want[t.id()] {
					continue
				}
				done = false
				if isBlk && !settled[t.H] {
					continue
				}
				if !isBlk {
					settled[t.H] = false
				}
				if miss[t.id()]++; miss[t.id()] > 3 { // an rlp length-prefix step jumps over the wanted length: take the next multiple
					want[t.id()] += slot
					miss[t.id()] = 0
				}
				k := knob(*t)
				*k += want[t.id()] - l
				for *k < 0 {
					*k += slot
					want[t.id()] += slot
				}
			}
		}
		if done {
			b, _ := json.Marshal(map[string]interface{}{"seed": *seed, "nb": *nb, "pads": s.Pads, "targets": s.Targets, "rounds": round + 1})
			return os.WriteFile(*out, b, 0644)
		}
	}
	engine.Failf("calibration of the record lengths does not converge: pads %+v targets %+v", s.Pads, s.Targets)
	return nil
}

// checkTargets measures the targets in recs and fails (harness error) when one is not on its class.
func (s *script) checkTargets(recs []walRec, hashes map[int]common.Hash) []target {
	got := s.measure(recs, hashes)
	out := []target{}
	for _, t := range s.Targets {
		l, ok := got[t.id()]
		if !ok {
			engine.Failf("target record %s not found in tmp.data", t.id())
		}
		if mod256(l-t.Cls) != 0 {
			engine.Failf("target record %s has length %d: not on class %d (stale pads file?)", t.id(), l, t.Cls)
		}
		t.Len = l
		out = append(out, t)
	}
	return out
}

func init() {
	engine.RegisterDriver("durability-calib", driveCalib)
}
