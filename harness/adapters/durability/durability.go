// Package durability binds spec/Durability.tla + spec/TraceDurability.tla (C08) to the real
// store.ChainDatabase / account.Manager by crash-point enumeration.
//
//	vh drive durability-calib     sizes the payloads of the script so that one record of every kind per block has a
//	                              length of k*256-1, k*256 or k*256+1 bytes on disk (boundary.go), measured on the
//	                              tmp.data the real code writes (layout.go).
//	vh drive durability-workload  runs a seeded block insertion / stabilisation script in THIS process,
//	                              logging every completed step (fsynced ndjson).  The verif crash hook of
//	                              /repo/store (verif_crash.go) kills the process at the armed crash point.
//	vh drive durability-recover   reopens the directory in a fresh process, logs what the real code presents
//	                              (opened or panicked, the records left in tmp.data and FileQueue.Offset after the
//	                              recovery scan, stable block, reads by hash/height, accounts, code,
//	                              storage, version trie, candidate list), then feeds the rest of the script and
//	                              logs the resulting hashes and the final observation.
//
// The drivers never judge: every comparison is made by TLC in TraceDurability.tla.
package durability

import (
	"encoding/json"
	"flag"
	"fmt"
	"math/big"
	"math/rand"
	"os"
	"path/filepath"
	"regexp"
	"runtime/debug"
	"sort"
	"strings"
	"time"

	"github.com/LemoFoundationLtd/lemochain-core/chain/account"
	"github.com/LemoFoundationLtd/lemochain-core/chain/types"
	"github.com/LemoFoundationLtd/lemochain-core/common"
	"github.com/LemoFoundationLtd/lemochain-core/store"
	"github.com/LemoFoundationLtd/lemochain-core/store/trie"

	"verifharness/engine"
)

// ---------------------------------------------------------------- universe

var (
	aF  = common.HexToAddress("0x0100000000000000000000000000000000000f01")
	aU1 = common.HexToAddress("0x2200000000000000000000000000000000000a01")
	aU2 = common.HexToAddress("0x4300000000000000000000000000000000000a02")
	aC1 = common.HexToAddress("0x6400000000000000000000000000000000000c01")
	aC2 = common.HexToAddress("0x8500000000000000000000000000000000000c02")
	aC3 = common.HexToAddress("0xa600000000000000000000000000000000000c03")
	aK  = common.HexToAddress("0xc700000000000000000000000000000000000d01")
	// names used in the logs (TLA+ sees these, not raw addresses)
	names    = map[common.Address]string{aF: "F", aU1: "U1", aU2: "U2", aC1: "C1", aC2: "C2", aC3: "C3", aK: "K"}
	order    = []common.Address{aF, aU1, aU2, aC1, aC2, aC3, aK}
	slotKeys = []common.Hash{common.HexToHash("0x01"), common.HexToHash("0x02")}
)

const genesisTime = 1538209751

type step struct {
	Op string `json:"op"` // insert | promote | confirm
	H  int    `json:"h"`
}

// script is the seeded workload: the list of steps and, per block, the account operations.
type script struct {
	NB      int
	Steps   []step
	seed    int64
	Pads    []pad    // per block: filler lengths of the four payload knobs (see boundary.go)
	Targets []target // records whose on-disk length is steered onto an alignment boundary class
}

func newScript(seed int64, nb int) *script {
	rng := rand.New(rand.NewSource(seed*7919 + 17))
	s := &script{NB: nb, seed: seed}
	s.Steps = append(s.Steps, step{"insert", 0}, step{"promote", 0})
	stable := 0
	multi, conf := false, false
	for h := 1; h <= nb; h++ {
		s.Steps = append(s.Steps, step{"insert", h})
		// promotion schedule: sometimes lag one or two blocks behind, sometimes jump several at once
		switch {
		case h == 2 && !multi: // guaranteed multi-block promotion (commits 1 and 2 in one call)
			s.Steps = append(s.Steps, step{"promote", 2})
			stable, multi = 2, true
		case h == 1:
		case rng.Intn(3) > 0 || h == nb-1:
			t := stable + 1 + rng.Intn(h-stable)
			s.Steps = append(s.Steps, step{"promote", t})
			stable = t
			if !conf || rng.Intn(2) == 0 {
				s.Steps = append(s.Steps, step{"confirm", t})
				conf = true
			}
		}
	}
	s.Pads = make([]pad, nb+1)
	s.planTargets()
	return s
}

func profile(addr common.Address, is string) types.Profile {
	return types.Profile{
		types.CandidateKeyIsCandidate:   is,
		types.CandidateKeyIncomeAddress: addr.String(),
		types.CandidateKeyNodeID:        "5e3600755f9b512a65603b38e30885c98cbac70259c3235c9b3f42ee563b480edea351ba0ff5748a638fe0aeff5d845bf37a3b437831871b48fd32f33cd9a3c0",
		types.CandidateKeyHost:          "127.0.0.1",
		types.CandidateKeyPort:          "7001",
		types.CandidateKeyIntroduction:  names[addr],
		types.CandidateKeyDepositAmount: "0",
	}
}

// apply performs the account operations of block h on am (deterministic in seed and h).
func (s *script) apply(h int, am *account.Manager) {
	rng := rand.New(rand.NewSource(s.seed*1000003 + int64(h)*101))
	amt := func() *big.Int { return big.NewInt(int64(1 + rng.Intn(1000))) }
	if h == 0 {
		am.GetAccount(aF).SetBalance(big.NewInt(1000000000))
		for _, c := range []common.Address{aC1, aC2} {
			acc := am.GetAccount(c)
			if c == s.candOf(0) {
				acc.SetCandidate(s.profileOf(0))
			} else {
				acc.SetCandidate(profile(c, types.IsCandidateNode))
			}
			acc.SetVotes(big.NewInt(0))
		}
		return
	}
	move := func(from, to common.Address) {
		v := amt()
		f, t := am.GetAccount(from), am.GetAccount(to)
		if f.GetBalance().Cmp(v) < 0 {
			return
		}
		f.SetBalance(new(big.Int).Sub(f.GetBalance(), v))
		t.SetBalance(new(big.Int).Add(t.GetBalance(), v))
	}
	move(aF, aU1)
	if h%2 == 0 {
		move(aF, aU2)
		move(aU1, aU2)
	}
	// votes of one or two candidates change in every block
	cands := []common.Address{aC1, aC2}
	if h >= 3 {
		cands = append(cands, aC3)
	}
	c := cands[rng.Intn(len(cands))]
	am.GetAccount(c).SetVotes(big.NewInt(int64(rng.Intn(100000))))
	if h%3 == 0 {
		c = cands[rng.Intn(len(cands))]
		am.GetAccount(c).SetVotes(big.NewInt(int64(rng.Intn(100000))))
	}
	if h == 3 { // a new candidate registers: context.data grows by one item
		acc := am.GetAccount(aC3)
		acc.SetCandidate(s.profileOf(3))
		acc.SetVotes(big.NewInt(int64(1 + rng.Intn(100000))))
	} else {
		// one candidate per block rewrites its profile (introduction text of steered length): its account record
		am.GetAccount(s.candOf(h)).SetCandidate(s.profileOf(h))
	}
	// contract: a new code version and one storage slot per block, both of steered length (code record, trie leaf record)
	k := am.GetAccount(aK)
	k.SetCode(types.Code(s.codeOf(h)))
	if err := k.SetStorageState(slotKeys[h%2], s.valOf(h)); err != nil {
		panic(err)
	}
}

func sigs(h int) []types.SignData {
	var a, b types.SignData
	for i := range a {
		a[i] = byte(h + 1)
		b[i] = byte(0x80 + h)
	}
	return []types.SignData{a, b}
}

// ------------------------------------------------------------------ node

type node struct {
	db     *store.ChainDatabase
	am     *account.Manager
	s      *script
	hashes map[int]common.Hash
}

// insert builds block h on its parent with the real account manager and stores it (SetBlock + Save).
func (n *node) insert(h int) common.Hash {
	parent := common.Hash{}
	if h > 0 {
		parent = n.hashes[h-1]
	}
	if n.am == nil {
		n.am = account.NewManager(parent, n.db)
	} else {
		n.am.Reset(parent)
	}
	n.s.apply(h, n.am)
	if err := n.am.Finalise(); err != nil {
		engine.Realf("account.Manager.Finalise of block %d: %v", h, err)
	}
	logs := n.am.GetChangeLogs()
	header := &types.Header{
		ParentHash:   parent,
		MinerAddress: aF,
		TxRoot:       (types.Transactions{}).MerkleRootSha(),
		Height:       uint32(h),
		GasLimit:     105000000,
		Time:         genesisTime + uint32(h),
		VersionRoot:  n.am.GetVersionRoot(),
		LogRoot:      logs.MerkleRootSha(),
		Extra:        n.s.extraOf(h),
	}
	block := types.NewBlock(header, nil, logs)
	hash := block.Hash()
	if err := n.db.SetBlock(hash, block); err != nil {
		engine.Realf("ChainDatabase.SetBlock of block %d on its parent: %v", h, err)
	}
	if err := n.am.Save(hash); err != nil {
		engine.Realf("account.Manager.Save of block %d: %v", h, err)
	}
	n.hashes[h] = hash
	return hash
}

func (n *node) drain() {
	for i := 0; n.db.Beansdb.Queue.VerifPendingWrites() > 0; i++ {
		time.Sleep(200 * time.Microsecond)
		if i > 100000 {
			panic("harness: async writer does not drain")
		}
	}
}

func acct(ok bool, v string) map[string]interface{} { return map[string]interface{}{"ok": ok, "v": v} }

func candStr(c *store.Candidate) string { return names[c.Address] + ":" + c.Total.String() }

// observe reads everything the property talks about, as of the stable block the database presents.
func (n *node) observe(refHash []string) map[string]interface{} {
	o := map[string]interface{}{}
	stable, err := n.db.LoadLatestBlock()
	sh := -1
	if err == nil && stable != nil {
		sh = int(stable.Height())
		o["stable_hash"] = stable.Hash().Hex()
	} else {
		o["stable_hash"] = ""
	}
	o["stable_h"] = sh
	byHeight, byHash, confirms := []string{}, []string{}, []int{}
	for h := 0; h <= sh; h++ {
		b, err := n.db.GetBlockByHeight(uint32(h))
		if err != nil || b == nil {
			byHeight = append(byHeight, fmt.Sprintf("ERR:%v", err))
		} else {
			byHeight = append(byHeight, b.Hash().Hex())
		}
		if h < len(refHash) {
			b, err = n.db.GetBlockByHash(common.HexToHash(refHash[h]))
			if err != nil || b == nil {
				byHash = append(byHash, fmt.Sprintf("ERR:%v", err))
				confirms = append(confirms, -1)
			} else {
				byHash = append(byHash, b.Hash().Hex())
				confirms = append(confirms, len(b.Confirms))
			}
		}
	}
	o["by_height"], o["by_hash"], o["confirms"] = byHeight, byHash, confirms
	// is a block above the stable one already visible by height? (logged, judged in TLA+)
	ahead := 0
	for h := sh + 1; h <= n.s.NB; h++ {
		if b, err := n.db.GetBlockByHeight(uint32(h)); err == nil && b != nil {
			ahead++
		}
	}
	o["heights_ahead"] = ahead
	// ... or by hash, in the store itself (not the in-memory tree of unconfirmed blocks): the block record of a commit batch
	// that recovery redelivered without the stable pointer.  ChainDatabase.SetBlock refuses such a block as existing.
	hashAhead := 0
	for h := sh + 1; h >= 0 && h < len(refHash); h++ {
		if ok, err := store.UtilsHashBlock(n.db.Beansdb, common.HexToHash(refHash[h])); err == nil && ok {
			hashAhead++
		}
	}
	o["hashes_ahead"] = hashAhead
	accts := map[string]interface{}{}
	var kData *types.AccountData
	for _, a := range order {
		d, err := n.db.GetAccount(a)
		if err == store.ErrAccountNotExist {
			accts[names[a]] = acct(true, "none")
			continue
		}
		if err != nil {
			accts[names[a]] = acct(false, err.Error())
			continue
		}
		if a == aK {
			kData = d
		}
		votes := "nil"
		if d.Candidate.Votes != nil {
			votes = d.Candidate.Votes.String()
		}
		vers := []string{}
		for t, r := range d.NewestRecords {
			vers = append(vers, fmt.Sprintf("%d=%d@%d", t, r.Version, r.Height))
		}
		sort.Strings(vers)
		accts[names[a]] = acct(true, fmt.Sprintf("bal=%s votes=%s cand=%s prof=%s code=%x sroot=%x vers=%v", d.Balance, votes,
			d.Candidate.Profile[types.CandidateKeyIsCandidate], digest([]byte(d.Candidate.Profile[types.CandidateKeyIntroduction])), d.CodeHash[:4], d.StorageRoot[:4], vers))
	}
	o["accounts"] = accts
	// contract code and storage through the stable account data (code store + storage trie nodes)
	code, storage := "none", []string{}
	if kData != nil {
		if kData.CodeHash != (common.Hash{}) {
			c, err := n.db.GetContractCode(kData.CodeHash)
			if err != nil {
				code = "ERR:" + err.Error()
			} else {
				code = digest(c)
			}
		}
		if kData.StorageRoot != (common.Hash{}) {
			tr, err := trie.NewSecure(kData.StorageRoot, n.db.GetTrieDatabase(), account.MaxTrieCacheGen)
			if err != nil {
				storage = append(storage, "ERR:"+err.Error())
			} else {
				for _, k := range slotKeys {
					v, err := tr.TryGet(k[:])
					if err != nil {
						storage = append(storage, "ERR:"+err.Error())
					} else {
						storage = append(storage, digest(v))
					}
				}
			}
		}
	}
	o["code"], o["storage"] = code, storage
	// version trie of the stable block: every leaf reachable from its VersionRoot
	vt := "none"
	if sh >= 0 {
		tr, err := trie.NewSecure(stable.Header.VersionRoot, n.db.GetTrieDatabase(), account.MaxTrieCacheGen)
		if err != nil {
			vt = "ERR:" + err.Error()
		} else {
			it := trie.NewIterator(tr.NodeIterator(nil))
			cnt := 0
			for it.Next() {
				cnt++
			}
			if it.Err != nil {
				vt = "ERR:" + it.Err.Error()
			} else {
				vt = fmt.Sprintf("%x/%d", stable.Header.VersionRoot[:4], cnt)
			}
		}
	}
	o["vtrie"] = vt
	// candidate list persisted in context.data and the ranking of the stable block
	cs, err := n.db.Context.GetCandidates()
	cands := []string{}
	if err != nil {
		cands = append(cands, "ERR:"+err.Error())
	}
	for _, c := range cs {
		cands = append(cands, candStr(c))
	}
	sort.Strings(cands)
	o["cands"] = cands
	top := []string{}
	if sh >= 0 {
		for _, c := range n.db.GetCandidatesTop(stable.Hash()) {
			top = append(top, candStr(c))
		}
	}
	o["top"] = top
	return o
}

// ----------------------------------------------------------------- logging

type logger struct{ f *os.File }

func newLogger(path string) *logger {
	f, err := os.OpenFile(path, os.O_CREATE|os.O_WRONLY|os.O_TRUNC, 0644)
	if err != nil {
		panic(err)
	}
	return &logger{f}
}

func (l *logger) put(m map[string]interface{}) {
	b, err := json.Marshal(m)
	if err != nil {
		panic(err)
	}
	l.f.Write(append(b, '\n'))
	l.f.Sync()
}

// ---------------------------------------------------------------- workload

func driveWorkload(args []string) error {
	fs := flag.NewFlagSet("durability-workload", flag.ContinueOnError)
	dir := fs.String("dir", "", "data directory (fresh)")
	logp := fs.String("log", "workload.ndjson", "step log")
	seed := fs.Int64("seed", 1, "")
	nb := fs.Int("nb", 6, "blocks after genesis")
	mode := fs.String("mode", "work", "work: the script | ref: promote every block at once and observe after each")
	sched := fs.String("sched", "free", "free | drain (wait for the async writer after every step) | lag (writer released at the end)")
	padsp := fs.String("pads", "", "filler lengths computed by durability-calib")
	if err := fs.Parse(args); err != nil {
		return err
	}
	lg := newLogger(*logp)
	s := newScript(*seed, *nb)
	if err := s.loadPads(*padsp); err != nil {
		return err
	}
	n := &node{s: s, hashes: map[int]common.Hash{}}
	n.db = store.NewChainDataBase(*dir)
	if *mode == "ref" {
		empty := n.observe(nil)
		hashes := []string{}
		obsAt := []interface{}{empty}
		for h := 0; h <= *nb; h++ {
			hash := n.insert(h)
			if _, err := n.db.SetStableBlock(hash); err != nil {
				return err
			}
			hashes = append(hashes, hash.Hex())
			o := n.observe(hashes)
			n.drain()
			o2 := n.observe(hashes)
			if fmt.Sprint(o) != fmt.Sprint(o2) {
				// no crash anywhere: the same reads answered from the WAL index and, once the async writer has moved the
				// records, from the bitcask files.  There is no reference to build when the real code disagrees with itself.
				engine.Realf("a node that never stopped reads differently before and after its async writer drains (stable block %d)\nbefore: %v\nafter:  %v", h, o, o2)
			}
			obsAt = append(obsAt, o)
		}
		lg.put(map[string]interface{}{"ev": "ref", "nb": *nb, "seed": *seed, "hash": hashes, "obs_at": obsAt, "script": s.Steps})
		return nil
	}
	lg.put(map[string]interface{}{"i": 0, "op": "open", "h": -1, "hits": store.VerifCrashHits()})
	for i, st := range s.Steps {
		switch st.Op {
		case "insert":
			n.insert(st.H)
		case "promote":
			lg.put(map[string]interface{}{"i": i + 1, "op": "promote_begin", "h": st.H})
			if _, err := n.db.SetStableBlock(n.hashes[st.H]); err != nil {
				return fmt.Errorf("SetStableBlock %d: %v", st.H, err)
			}
		case "confirm":
			lg.put(map[string]interface{}{"i": i + 1, "op": "confirm_begin", "h": st.H})
			if _, err := n.db.SetConfirms(n.hashes[st.H], sigs(st.H)); err != nil {
				return fmt.Errorf("SetConfirms %d: %v", st.H, err)
			}
		}
		if *sched == "drain" {
			n.drain()
		}
		lg.put(map[string]interface{}{"i": i + 1, "op": st.Op, "h": st.H, "hits": store.VerifCrashHits()})
	}
	end := map[string]interface{}{"op": "end", "h": -1}
	if *sched == "lag" && os.Getenv("VERIF_CRASH_SCHED") == "lag" {
		// the writer never ran: tmp.data holds every record of the script.  Its layout (what the real code wrote) and the
		// steered records go into the reference; a target off its class is a harness error, not a verdict.
		recs, size, stop := walLayout(filepath.Join(*dir, "tmp.data"))
		if stop != "eof" {
			engine.Failf("tmp.data of the uncrashed lag run does not parse to its end (%s after %d records, size %d)", stop, len(recs), size)
		}
		lens, flgs := []int{}, []int{}
		for _, r := range recs {
			lens, flgs = append(lens, r.Len), append(flgs, r.Flg)
		}
		end["layout"] = map[string]interface{}{"lens": lens, "flgs": flgs, "size": size, "stop": stop}
		end["targets"] = s.checkTargets(recs, n.hashes)
		end["pads"] = s.Pads
	}
	store.VerifReleaseWriter()
	n.drain()
	hashes := []string{}
	for h := 0; h <= *nb; h++ {
		hashes = append(hashes, n.hashes[h].Hex())
	}
	end["hits"], end["hash"], end["final"] = store.VerifCrashHits(), hashes, n.observe(hashes)
	lg.put(end)
	return nil // the process exits without Close(): the end of the script is one more crash point
}

// ----------------------------------------------------------------- recover

var storeFn = regexp.MustCompile(`lemochain-core/store\.([A-Za-z0-9_().*]+)\(`)

func panicFuncs(stack string) []string {
	seen := map[string]bool{}
	out := []string{}
	for _, m := range storeFn.FindAllStringSubmatch(stack, -1) {
		f := m[1]
		if !seen[f] {
			seen[f] = true
			out = append(out, f)
		}
	}
	return out
}

// site is the innermost function of package store on a panic stack.
func site(stack string) string {
	if f := panicFuncs(stack); len(f) > 0 {
		return f[0]
	}
	return ""
}

func driveRecover(args []string) error {
	fs := flag.NewFlagSet("durability-recover", flag.ContinueOnError)
	dir := fs.String("dir", "", "data directory left by a crashed workload")
	refp := fs.String("ref", "", "reference file written by durability-workload -mode ref")
	out := fs.String("out", "recover.ndjson", "")
	seed := fs.Int64("seed", 1, "")
	nb := fs.Int("nb", 6, "")
	mode := fs.String("mode", "observe", "observe | reopen (open, let the writer drain, exit: used with an armed crash point)")
	padsp := fs.String("pads", "", "filler lengths computed by durability-calib")
	if err := fs.Parse(args); err != nil {
		return err
	}
	lg := newLogger(*out)
	var ref struct {
		Hash []string `json:"hash"`
	}
	if *refp != "" {
		b, err := os.ReadFile(*refp)
		if err != nil {
			return err
		}
		if err := json.Unmarshal(b, &ref); err != nil {
			return err
		}
	}
	s := newScript(*seed, *nb)
	if err := s.loadPads(*padsp); err != nil {
		return err
	}
	n := &node{s: s, hashes: map[int]common.Hash{}}
	// what the dead process left in tmp.data, read by the harness BEFORE the real code touches it: the unpadded length
	// of every complete record from the start of the file, and why the walk stopped
	pre, preSize, preStop := walLayout(filepath.Join(*dir, "tmp.data"))
	preLens := []int{}
	for _, r := range pre {
		preLens = append(preLens, r.Len)
	}
	opened := func() (ok bool) {
		defer func() {
			if r := recover(); r != nil {
				st := string(debug.Stack())
				lg.put(map[string]interface{}{"ev": "Recover", "opened": false, "died": false, "open_panic": fmt.Sprint(r), "panic_head": strings.TrimSpace(strings.SplitN(fmt.Sprint(r), ":", 2)[0]), "site": site(st), "panic_in": panicFuncs(st)})
				ok = false
			}
		}()
		n.db = store.NewChainDataBase(*dir)
		return true
	}()
	if !opened {
		return nil
	}
	if *mode == "reopen" {
		n.drain()
		lg.put(map[string]interface{}{"ev": "Reopen", "opened": true, "hits": store.VerifCrashHits()})
		return nil
	}
	// observation while the WAL is still being replayed by the async writer, and after it has drained
	rec := map[string]interface{}{"ev": "Recover", "opened": true, "died": false, "site": ""}
	// FileQueue.Offset right after the recovery scan (nothing has been appended yet): where the next record will go
	rec["wal"] = map[string]interface{}{"lens": preLens, "size": preSize, "stop": preStop, "offset": n.db.Beansdb.Queue.Offset}
	func() {
		defer func() {
			if r := recover(); r != nil {
				st := string(debug.Stack())
				rec["obs_panic"] = fmt.Sprint(r)
				rec["site"] = site(st)
				rec["panic_in"] = panicFuncs(st)
			}
		}()
		rec["obs"] = n.observe(ref.Hash)
		n.drain()
		rec["obs_drained"] = n.observe(ref.Hash)
		rec["casks"] = caskLayout(n.db) // the replay has been moved into the bitcask files: their record layout and offsets
	}()
	lg.put(rec)
	if _, bad := rec["obs_panic"]; bad {
		return nil
	}
	// continuation: feed the rest of the script to the restarted node
	cont := map[string]interface{}{"ev": "Continue", "died": false}
	func() {
		defer func() {
			if r := recover(); r != nil {
				cont["cont_panic"] = fmt.Sprint(r)
				cont["panic_in"] = panicFuncs(string(debug.Stack()))
			}
		}()
		sh := -1
		if b, err := n.db.LoadLatestBlock(); err == nil && b != nil {
			sh = int(b.Height())
			n.hashes[sh] = b.Hash()
		}
		from := sh
		hashes := []string{}
		errs := []string{}
		for _, st := range s.Steps {
			switch st.Op {
			case "insert":
				if st.H > sh {
					hashes = append(hashes, n.insert(st.H).Hex())
				}
			case "promote":
				if st.H > sh {
					if _, err := n.db.SetStableBlock(n.hashes[st.H]); err != nil {
						errs = append(errs, fmt.Sprintf("promote %d: %v", st.H, err))
					}
				}
			case "confirm":
				h := n.hashes[st.H]
				if st.H < sh && st.H < len(ref.Hash) {
					h = common.HexToHash(ref.Hash[st.H])
				}
				if _, err := n.db.SetConfirms(h, sigs(st.H)); err != nil {
					errs = append(errs, fmt.Sprintf("confirm %d: %v", st.H, err))
				}
			}
		}
		n.drain()
		cont["from"] = from
		cont["hashes"] = hashes
		cont["errors"] = errs
		cont["final"] = n.observe(ref.Hash)
		cont["casks"] = caskLayout(n.db)
		// a clean stop and restart of the continued node must present the same state again
		n.db.Close()
		n.db, n.am = store.NewChainDataBase(*dir), nil
		cont["reopened"] = n.observe(ref.Hash)
	}()
	lg.put(cont)
	return nil
}

func init() {
	engine.RegisterDriver("durability-workload", driveWorkload)
	engine.RegisterDriver("durability-recover", driveRecover)
}
