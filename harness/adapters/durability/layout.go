package durability

// Record layout of the on-disk formats (tmp.data and the NNN.data bitcask files): the harness's own reader.
//
// Every record is an 18-byte little-endian head (Flg u32, Len u32, TimeStamp u64, Crc u16) followed by Len bytes of
// rlp(RecordBody{Key, Val}) and zero padding up to the next multiple of 256.  walLayout walks a file record by record
// and reports, per record, its offset and its UNPADDED length (18 + Len) - the number whose position relative to a
// multiple of 256 is the length class of spec/Durability.tla (below / on / above an alignment boundary).  The walk
// itself advances by the padded length, and logs every offset: TraceDurability.tla re-derives each offset from the
// previous one (Stride), so the harness's arithmetic is checked by TLC and never trusted.

import (
	"bytes"
	"encoding/binary"
	"fmt"
	"io"
	"os"
	"path/filepath"

	"github.com/LemoFoundationLtd/lemochain-core/common"
	"github.com/LemoFoundationLtd/lemochain-core/common/rlp"
	"github.com/LemoFoundationLtd/lemochain-core/store"
	"github.com/LemoFoundationLtd/lemochain-core/store/leveldb"
)

const slot = 256

type walRec struct {
	Off int64  `json:"off"`
	Len int    `json:"len"` // unpadded: head + body
	Flg int    `json:"flg"`
	Key string `json:"key"`
	val []byte
}

func alignUp(n int64) int64 { return (n + slot - 1) / slot * slot }

// walLayout returns the complete records at the start of the file, the file size, and why the walk stopped:
// "eof" (clean end of file), "short" (head or body cut off), "crc" (checksum mismatch), "rlp" (body does not decode),
// "none" (no file).
func walLayout(path string) (recs []walRec, size int64, stop string) {
	buf, err := os.ReadFile(path)
	if err != nil {
		return nil, 0, "none"
	}
	size = int64(len(buf))
	hl := int64(store.RecordHeadLength)
	off := int64(0)
	for {
		if off >= size {
			return recs, size, "eof"
		}
		if off+hl > size {
			return recs, size, "short"
		}
		var head store.RecordHead
		if err := binary.Read(bytes.NewReader(buf[off:off+hl]), binary.LittleEndian, &head); err != nil && err != io.EOF {
			return recs, size, "short"
		}
		end := off + hl + int64(head.Len)
		if end > size {
			return recs, size, "short"
		}
		body := buf[off+hl : end]
		if store.CheckSum(body) != head.Crc {
			return recs, size, "crc"
		}
		var rb store.RecordBody
		if err := rlp.DecodeBytes(body, &rb); err != nil {
			return recs, size, "rlp"
		}
		recs = append(recs, walRec{Off: off, Len: int(hl) + int(head.Len), Flg: int(head.Flg), Key: common.ToHex(rb.Key), val: rb.Val})
		off = alignUp(end)
	}
}

// caskLayout reads every non-empty bitcask data file with the same reader and reports, per bitcask directory, the
// number of records it walks over and why it stops, the file size, the persisted CurrentPos (offset and file index as
// LevelDB holds them) and the in-memory CurOffset.  Only meaningful while the async writer is idle (after a drain).
func caskLayout(db *store.ChainDatabase) []map[string]interface{} {
	out := []map[string]interface{}{}
	for i, bc := range db.Beansdb.Queue.SyncFileDB.BitCasks {
		recs, size, stop := walLayout(filepath.Join(bc.Home, fmt.Sprintf("%03d.data", bc.CurIndex)))
		pos, err := leveldb.GetCurrentPos(db.LevelDB, i)
		if size == 0 && pos == 0 && bc.CurOffset == 0 && err == nil {
			continue
		}
		e := ""
		if err != nil {
			e = err.Error()
		}
		out = append(out, map[string]interface{}{"i": i, "n": len(recs), "size": size, "stop": stop + e,
			"cur": []int64{int64(pos &^ 0xFF), int64(pos & 0xFF)}, "mem": []int64{bc.CurOffset, int64(bc.CurIndex)}})
	}
	return out
}
