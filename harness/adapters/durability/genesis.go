package durability

// durability-genesis: the start-up path of main/node (initDb + getGenesis) on a data directory, for reproducing
// crash cases of the very first promotion with the node's own genesis set-up instead of the workload's blocks:
//
//	db := store.NewChainDataBase(dir); block, err := db.GetBlockByHeight(0)
//	if err == store.ErrBlockNotExist { block = chain.SetupGenesisBlock(db, nil) }
//
// Prints what happened; a panic of the real code is reported, not judged.  Used by hand (see the C08 report), e.g.
//
//	VERIF_CRASH_SCHED=lag VERIF_CRASH_TRACE=hits.txt vh drive durability-genesis -dir d0       # find the commit batch write
//	VERIF_CRASH_SCHED=lag VERIF_CRASH_AT=<k> VERIF_CRASH_TORN=r<slots of the block record> vh drive durability-genesis -dir d1
//	vh drive durability-genesis -dir d1                                                        # every further start

import (
	"flag"
	"fmt"
	"path/filepath"
	"runtime/debug"

	"github.com/LemoFoundationLtd/lemochain-core/chain"
	"github.com/LemoFoundationLtd/lemochain-core/store"

	"verifharness/engine"
)

func driveGenesis(args []string) error {
	fs := flag.NewFlagSet("durability-genesis", flag.ContinueOnError)
	dir := fs.String("dir", "", "data directory")
	if err := fs.Parse(args); err != nil {
		return err
	}
	defer func() {
		if r := recover(); r != nil {
			fmt.Printf("START-UP PANIC: %v\nin: %v\n", r, panicFuncs(string(debug.Stack())))
		}
	}()
	db := store.NewChainDataBase(*dir)
	block, err := db.GetBlockByHeight(0)
	fmt.Printf("GetBlockByHeight(0): block=%v err=%v\n", block != nil, err)
	if err == store.ErrBlockNotExist {
		block = chain.SetupGenesisBlock(db, nil)
	}
	if block != nil {
		fmt.Printf("genesis ready: %s\n", block.Hash().Hex())
	}
	recs, size, stop := walLayout(filepath.Join(*dir, "tmp.data"))
	fmt.Printf("tmp.data: %d records, %d bytes, %s:", len(recs), size, stop)
	for _, r := range recs {
		fmt.Printf(" %d/%d", r.Flg, r.Len)
	}
	fmt.Println()
	return nil
}

func init() {
	engine.RegisterDriver("durability-genesis", driveGenesis)
}
