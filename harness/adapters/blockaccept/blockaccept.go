// Package blockaccept binds spec/BlockAccept.tla to the real DPoVP.InsertBlock (C02): each offered block is
// a real valid block with one corruption applied to the decoded struct, optionally re-signed.
package blockaccept

import (
	"crypto/sha256"
	"encoding/hex"
	"encoding/json"
	"fmt"
	"math/big"
	"os"
	"path/filepath"
	"sort"
	"strings"
	"time"

	"github.com/LemoFoundationLtd/lemochain-core/chain/account"
	"github.com/LemoFoundationLtd/lemochain-core/chain/deputynode"
	"github.com/LemoFoundationLtd/lemochain-core/chain/params"
	"github.com/LemoFoundationLtd/lemochain-core/chain/types"
	"github.com/LemoFoundationLtd/lemochain-core/common"
	"github.com/LemoFoundationLtd/lemochain-core/common/crypto"

	"verifharness/engine"
	"verifharness/node"
	"verifharness/tla"
)

const nDeputies = 3

type scenario struct {
	pre     []*types.Block     // blocks the node holds before T is offered (in insertion order)
	stable  *types.Block       // block of pre to make stable with confirms (nil: none)
	T       *types.Block       // the valid candidate
	right   int                // rank of T's miner
	grand   *types.Block       // T's grandparent (nil in scenario 1: genesis has no parent)
	txs     types.Transactions // T's transactions
	poolTx  *types.Transaction // an unrelated pending transaction
	parent  *types.Block
	x       *types.Transaction // the transfer ancestor A1 carries
	rebuilt map[string]*types.Block // corrupted variants re-executed by the real assembler (roots consistent with the corrupted header)
}

type adapter struct {
	w       *node.World
	builder *node.Node
	scens   map[int]*scenario
	sc      *scenario
	nut     *node.Node
	seq     int
	dir     string
	addrs   []common.Address
	x       *types.Transaction
}

func (a *adapter) transfer(to common.Address, amount int64, nonce int64) *types.Transaction {
	tx := types.NewTransaction(a.w.Founder, to, big.NewInt(amount), 100000, big.NewInt(1000000000), []byte{}, params.OrdinaryTx, node.ChainID,
		uint64(node.GenesisTime)+1000, "", fmt.Sprintf("n%d", nonce))
	tx, err := types.DefaultSigner{}.SignTx(tx, a.w.FounderKey)
	if err != nil {
		panic(err)
	}
	return tx
}

// mkTx is a founder transfer with every body field chosen by the caller.
func (a *adapter) mkTx(to common.Address, amount int64, exp uint64, chainID uint16, toName, msg string) *types.Transaction {
	tx := types.NewTransaction(a.w.Founder, to, big.NewInt(amount), 100000, big.NewInt(1000000000), []byte{}, params.OrdinaryTx, chainID, exp, toName, msg)
	tx, err := types.DefaultSigner{}.SignTx(tx, a.w.FounderKey)
	if err != nil {
		panic(err)
	}
	return tx
}

func (a *adapter) mkBox(exp uint64, msg string, subs ...*types.Transaction) *types.Transaction {
	data, err := types.MarshalBoxData(subs)
	if err != nil {
		panic(err)
	}
	tx := types.NoReceiverTransaction(a.w.Founder, big.NewInt(0), 300000, big.NewInt(1000000000), data, params.BoxTx, node.ChainID, exp, "", msg)
	tx, err = types.DefaultSigner{}.SignTx(tx, a.w.FounderKey)
	if err != nil {
		panic(err)
	}
	return tx
}

// zTx builds the third transaction of class z for a block of time bt (spec/BlockAccept.tla, family "tx").
func (a *adapter) zTx(z string, sc *scenario, bt uint64, to common.Address) *types.Transaction {
	L := uint64(params.MaxTxLifeTime)
	ok := bt + 1000
	tag := fmt.Sprintf("%s-%d", z, sc.T.Height()*10+uint32(sc.right))
	switch z {
	case "z_ok":
		return a.mkTx(to, 11, ok, node.ChainID, "", tag)
	case "z_exp_now":
		return a.mkTx(to, 12, bt, node.ChainID, "", tag)
	case "z_exp_max":
		return a.mkTx(to, 13, bt+L, node.ChainID, "", tag)
	case "z_box_ok":
		return a.mkBox(ok, tag, a.mkTx(to, 14, ok, node.ChainID, "", tag+"s1"), a.mkTx(to, 15, ok+5, node.ChainID, "", tag+"s2"))
	case "z_box_sub_exp_max":
		return a.mkBox(bt+10, tag, a.mkTx(to, 16, bt+L, node.ChainID, "", tag+"s1"))
	case "z_expired":
		return a.mkTx(to, 17, bt-1, node.ChainID, "", tag)
	case "z_too_far":
		return a.mkTx(to, 18, bt+L+1, node.ChainID, "", tag)
	case "z_chain":
		return a.mkTx(to, 19, ok, node.ChainID+1, "", tag)
	case "z_toname_long":
		return a.mkTx(to, 20, ok, node.ChainID, strings.Repeat("n", types.MaxTxToNameLength+1), tag)
	case "z_toname_chars":
		return a.mkTx(to, 21, ok, node.ChainID, "bad name!", tag)
	case "z_message_long":
		return a.mkTx(to, 22, ok, node.ChainID, "", strings.Repeat("m", types.MaxTxMessageLength+1))
	case "z_box_sub_expired":
		return a.mkBox(ok, tag, a.mkTx(to, 23, bt-1, node.ChainID, "", tag+"s1"))
	case "z_box_sub_too_far":
		return a.mkBox(bt+L-100, tag, a.mkTx(to, 24, bt+2*L-200, node.ChainID, "", tag+"s1"))
	case "z_box_sub_chain":
		return a.mkBox(ok, tag, a.mkTx(to, 25, ok, node.ChainID+1, "", tag+"s1"))
	case "z_box_in_box":
		return a.mkBox(ok, tag, a.mkBox(ok, tag+"inner", a.mkTx(to, 26, ok, node.ChainID, "", tag+"s1")))
	case "z_replay_anc":
		return sc.x
	case "z_box_sub_replay_anc":
		return a.mkBox(ok, tag, sc.x)
	case "z_box_sub_replay_T":
		return a.mkBox(ok, tag, sc.txs[0])
	case "z_box_sub_before_box":
		return a.mkBox(bt+500, tag, a.mkTx(to, 27, bt+100, node.ChainID, "", tag+"s1"))
	}
	engine.Failf("unknown z class %s", z)
	return nil
}

// zTxs: the transactions class z appends to T's own (most classes: one).
func (a *adapter) zTxs(z string, sc *scenario, bt uint64, to common.Address) types.Transactions {
	ok := bt + 1000
	tag := fmt.Sprintf("%s-%d", z, sc.T.Height()*10+uint32(sc.right))
	t := func(i int64) *types.Transaction { return a.mkTx(to, 30+i, ok, node.ChainID, "", fmt.Sprintf("%s-t%d", tag, i)) }
	switch z {
	case "z_two_boxes_ok":
		return types.Transactions{a.mkBox(ok, tag+"b1", t(1)), a.mkBox(ok, tag+"b2", t(2))}
	case "z_box_then_sub":
		x := t(1)
		return types.Transactions{a.mkBox(ok, tag+"b1", x, t(2)), x}
	case "z_sub_then_box":
		x := t(1)
		return types.Transactions{x, a.mkBox(ok, tag+"b1", t(2), x)}
	case "z_two_boxes_share":
		x := t(1)
		return types.Transactions{a.mkBox(ok, tag+"b1", x, t(2)), a.mkBox(ok, tag+"b2", t(3), x)}
	case "z_box_sub_twice":
		x := t(1)
		return types.Transactions{a.mkBox(ok, tag+"b1", x, x)}
	}
	return types.Transactions{a.zTx(z, sc, bt, to)}
}

var zClasses = []string{"z_two_boxes_ok", "z_box_then_sub", "z_sub_then_box", "z_two_boxes_share", "z_box_sub_twice","z_ok", "z_exp_now", "z_exp_max", "z_box_ok", "z_box_sub_exp_max", "z_expired", "z_too_far", "z_chain", "z_toname_long",
	"z_toname_chars", "z_message_long", "z_box_sub_expired", "z_box_sub_too_far", "z_box_sub_chain", "z_box_in_box", "z_replay_anc",
	"z_box_sub_replay_anc", "z_box_sub_replay_T", "z_box_sub_before_box"}

func (a *adapter) init() {
	a.dir = os.Getenv("VERIF_SCRATCH_DIR")
	if a.dir == "" {
		a.dir = filepath.Join(os.TempDir(), fmt.Sprintf("verif-blockaccept-%d", os.Getpid()))
	}
	a.w = node.NewWorld(nDeputies, 3000)
	deputynode.SetSelfNodeKey(a.w.Outsider2())
	a.builder = a.w.NewNode(filepath.Join(a.dir, "builder"))
	r1 := crypto.PubkeyToAddress(a.w.Outsider.PublicKey)
	r2 := common.HexToAddress("0x0100000000000000000000000000000000000a02")
	a.addrs = append([]common.Address{a.w.Founder, r1, r2}, a.w.Miners...)
	must := func(b *types.Block, _ types.Transactions, err error) *types.Block {
		if err != nil {
			engine.Realf("build: %v", err)
		}
		return b
	}
	g := a.builder.Genesis
	a.scens = map[int]*scenario{}
	a.x = a.transfer(r2, 4242, 999)
	mk := func(id int, pre []*types.Block, stable *types.Block, parent *types.Block, right int, grand *types.Block) {
		txs := types.Transactions{a.transfer(r1, 3000000+int64(id), int64(id*10+1)), a.transfer(r2, 5000000+int64(id), int64(id*10+2))}
		T, inv, err := a.builder.Build(parent, right, 0, txs, "T")
		if err != nil || len(inv) != 0 || len(T.Txs) != 2 {
			engine.Realf("build T: %v invalid=%d", err, len(inv))
		}
		sc := &scenario{pre: pre, stable: stable, T: T, right: right, grand: grand, txs: txs, poolTx: a.transfer(r2, 7000000, int64(id*10+3)),
			parent: parent, rebuilt: map[string]*types.Block{}}
		rb := func(name string, tweak func(h *types.Header)) {
			b, inv, err := a.builder.BuildWith(parent, right, 0, txs, "T", tweak, false)
			if err != nil || len(inv) != 0 {
				engine.Failf("rebuild %s: %v", name, err)
			}
			sc.rebuilt[name] = b
		}
		rb("height_plus_rebuilt", func(h *types.Header) { h.Height++ })
		rb("height_minus_rebuilt", func(h *types.Header) { h.Height-- })
		// an empty block of T's miner, in its own slot, at least two hours ahead of any clock reading during the run
		fb, _, err := a.builder.BuildWith(parent, right, 0, nil, "T", func(h *types.Header) {
			round := uint32(3 * nDeputies)
			h.Time += (uint32(time.Now().Unix()) + 7200 - h.Time + round - 1) / round * round
		}, false)
		if err != nil {
			engine.Failf("rebuild time_future: %v", err)
		}
		sc.rebuilt["time_future_rebuilt"] = fb
		// family "tx": T with a third transaction Z, executed and sealed by the real assembler
		sc.x = a.x
		for _, z := range zClasses {
			zt := a.zTxs(z, sc, uint64(T.Time()), r2)
			all := append(append(types.Transactions{}, txs...), zt...)
			b, inv, err := a.builder.BuildWith(parent, right, 0, all, "T", nil, false)
			if err != nil || len(inv) != 0 || len(b.Txs) != len(all) {
				engine.Failf("scenario %d: the assembler does not package class %s: err=%v discarded=%d", id, z, err, len(inv))
			}
			sc.rebuilt[z] = b
		}
		a.scens[id] = sc
	}
	// 1: T on genesis, mined by rank 0
	mk(1, nil, nil, g, 0, nil)
	// chain A: A1 (rank 0) <- A2 (rank 1)
	a1 := must(a.builder.Build(g, 0, 0, types.Transactions{a.x}, "A1"))
	a2 := must(a.builder.Build(a1, 1, 0, nil, "A2"))
	// 2: node holds A1 (stable) and A2 (head); T at height 3 by rank 2
	mk(2, []*types.Block{a1, a2}, a1, a2, 2, a1)
	// 3: node holds A1, A2 (head); T forks off A1, mined by rank 2 in its own (second) slot after A1
	mk(3, []*types.Block{a1, a2}, nil, a1, 2, g)
}

func (a *adapter) Reset(init map[string]tla.Value) (engine.Fields, error) {
	if a.w == nil {
		a.init()
	}
	if a.nut != nil {
		a.nut.Destroy()
	}
	id := init["scen"].I()
	a.sc = a.scens[id]
	a.seq++
	a.nut = a.w.NewNode(filepath.Join(a.dir, fmt.Sprintf("nut%d", a.seq)))
	for _, b := range a.sc.pre {
		if _, err := a.nut.DP.InsertBlock(node.Copy(b, nil)); err != nil {
			engine.Realf("scenario %d: inserting base block: %v", id, err)
		}
	}
	if s := a.sc.stable; s != nil {
		var sigs []types.SignData
		for i := 0; i < nDeputies; i++ {
			sigs = append(sigs, node.Sign(s.Hash(), a.w.Keys[i], 0))
		}
		if err := a.nut.DP.InsertConfirms(s.Height(), s.Hash(), sigs); err != nil {
			engine.Realf("scenario %d: stabilising: %v", id, err)
		}
		if a.nut.DP.StableBlock().Hash() != s.Hash() {
			engine.Realf("scenario %d: base block did not become stable", id)
		}
	}
	a.nut.Pool.AddTx(a.sc.poolTx)
	a.nut.Pool.AddTx(a.sc.txs[0])
	return engine.Fields{"scen": id, "fam": init["fam"].S()}, nil
}

// digest is the node's observable state, hashed.
func (a *adapter) digest() (string, map[string]interface{}) {
	n := a.nut
	st := map[string]interface{}{}
	stable, head := n.DP.StableBlock(), n.DP.CurrentBlock()
	st["stable"] = stable.Hash().Hex()
	st["head"] = head.Hash().Hex()
	un := []string{}
	n.DB.IterateUnConfirms(func(b *types.Block) { un = append(un, fmt.Sprintf("%s:%d", b.Hash().Hex(), len(b.Confirms))) })
	sort.Strings(un)
	st["unconf"] = un
	am := account.NewManager(head.Hash(), n.DB)
	bal := []string{}
	for _, ad := range a.addrs {
		bal = append(bal, am.GetAccount(ad).GetBalance().String())
	}
	st["balances"] = bal
	pool := []string{}
	for _, tx := range n.Pool.GetTxs(uint32(node.GenesisTime), 100) {
		pool = append(pool, tx.Hash().Hex())
	}
	sort.Strings(pool)
	st["pool"] = pool
	guard := []bool{}
	for _, tx := range append(types.Transactions{a.sc.poolTx}, a.sc.txs...) {
		guard = append(guard, n.Guard.ExistTxs(head.Hash(), types.Transactions{tx}))
	}
	st["guard"] = guard
	js, _ := json.Marshal(st)
	sum := sha256.Sum256(js)
	return hex.EncodeToString(sum[:8]), st
}

func (a *adapter) mutate(m string, b *types.Block) {
	sc := a.sc
	h := b.Header
	switch m {
	case "none", "sig_reencoded", "sig_garbage":
	case "parent_unknown":
		h.ParentHash = common.HexToHash("0x1234567890abcdef1234567890abcdef1234567890abcdef1234567890abcdef")
	case "parent_grand":
		if sc.grand != nil {
			h.ParentHash = sc.grand.Hash()
		} else {
			h.ParentHash = sc.T.Hash() // scenario 1 has no grandparent: point at a block that is not the parent
		}
	case "miner_other":
		h.MinerAddress = a.w.Miners[(sc.right+1)%nDeputies]
	case "version_root":
		h.VersionRoot[3] ^= 0x40
	case "log_root":
		h.LogRoot[3] ^= 0x40
	case "tx_root":
		h.TxRoot[3] ^= 0x40
	case "gas_used":
		h.GasUsed++
	case "gas_limit":
		h.GasLimit -= 1000
	case "height_plus":
		h.Height++
	case "height_minus":
		h.Height--
	case "time_before_parent":
		p, err := a.builder.DB.GetBlockByHash(sc.T.ParentHash())
		if err != nil {
			engine.Failf("parent: %v", err)
		}
		h.Time = p.Time() - 1
	case "time_in_slot":
		h.Time++
	case "time_next_slot":
		h.Time += 3
	case "time_future":
		// at least two hours ahead of any clock reading during the run, and again in the slot of T's own miner
		round := uint32(3 * nDeputies)
		k := (uint32(time.Now().Unix()) + 7200 - h.Time + round - 1) / round
		h.Time += k * round
	case "extra_long":
		h.Extra = strings.Repeat("x", 257)
	case "extra_long_multibyte":
		h.Extra = strings.Repeat("\u6c49", 200) // 200 characters, 600 bytes
	case "extra_other":
		h.Extra = "T2"
	case "txs_drop":
		b.Txs = b.Txs[:1]
	case "txs_dup":
		b.Txs = append(b.Txs, b.Txs[1])
	case "txs_swap":
		b.Txs = types.Transactions{b.Txs[1], b.Txs[0]}
	case "txs_gas_one":
		b.Txs[0].SetGasUsed(b.Txs[0].GasUsed() + 1000)
	case "txs_gas_shift":
		b.Txs[0].SetGasUsed(b.Txs[0].GasUsed() + 1000)
		b.Txs[1].SetGasUsed(b.Txs[1].GasUsed() - 1000)
	case "logs_drop":
		b.ChangeLogs = b.ChangeLogs[:len(b.ChangeLogs)-1]
	case "confirm_garbage":
		var junk types.SignData
		for i := range junk {
			junk[i] = byte(i*7 + 1)
		}
		b.Confirms = append(b.Confirms, junk, node.Sign(b.Hash(), a.w.Outsider, 0))
	default:
		engine.Failf("unknown mutation %s", m)
	}
}

func (a *adapter) Apply(s engine.Step) (engine.Fields, error) {
	m, r := s.Act.Args[0].S(), s.Act.Args[1].S()
	sc := a.sc
	b := node.Copy(sc.T, nil)
	if rb, ok := sc.rebuilt[m]; ok {
		b = node.Copy(rb, nil)
	} else {
		a.mutate(m, b)
	}
	switch r {
	case "none":
	case "right":
		sig := node.Sign(b.Hash(), a.w.Keys[sc.right], 0)
		b.Header.SignData = sig[:]
	case "other":
		sig := node.Sign(b.Hash(), a.w.Keys[(sc.right+1)%nDeputies], 0)
		b.Header.SignData = sig[:]
	case "outsider":
		sig := node.Sign(b.Hash(), a.w.Outsider, 0)
		b.Header.SignData = sig[:]
	}
	switch m {
	case "sig_reencoded":
		if r == "none" || r == "right" {
			sig := node.Sign(b.Hash(), a.w.Keys[sc.right], 1)
			b.Header.SignData = sig[:]
		}
	case "sig_garbage":
		b.Header.SignData = append([]byte(nil), b.Header.SignData...)
		b.Header.SignData[10] ^= 0xff
		b.Header.SignData[40] ^= 0xff
	}
	hash := b.Hash()
	pre, _ := a.digest()
	_, err := a.nut.DP.InsertBlock(node.Copy(b, b.Confirms)) // over the wire once more, as a peer would deliver it
	post, st := a.digest()
	fl := engine.Fields{"ok": err == nil, "pre": pre, "post": post, "state": st, "hash": hash.Hex()}
	if err != nil {
		fl["err"] = err.Error()
	}
	stored, gerr := a.nut.DB.GetBlockByHash(hash)
	fl["stored"] = gerr == nil && stored != nil
	fl["nconf"] = -1
	if gerr == nil && stored != nil {
		fl["nconf"] = len(stored.Confirms)
	}
	return fl, nil
}

func (a *adapter) Close() {
	if a.nut != nil {
		a.nut.Destroy()
	}
	if a.builder != nil {
		a.builder.Destroy()
	}
}

func init() { engine.Register("blockaccept", func() engine.Adapter { return &adapter{} }) }
