// vh is the Go side of the conformance machinery: it steps TLC behaviours
// through the real lemochain-core code (replay) and runs recording drivers.
package main

import (
	"encoding/json"
	"flag"
	"fmt"
	"math/rand"
	"os"
	"strconv"
	"strings"

	"github.com/LemoFoundationLtd/lemochain-core/common/log"

	"verifharness/engine"
	"verifharness/tla"

	_ "verifharness/adapters"
)

func die(code int, f string, a ...interface{}) {
	fmt.Fprintf(os.Stderr, f+"\n", a...)
	os.Exit(code)
}

func main() {
	if os.Getenv("VERIF_LOG") == "" {
		log.Setup(log.LevelCrit, false, false) // the node's own logging is noise here
	}
	if len(os.Args) < 2 {
		die(2, "usage: vh replay|drive|adapters ...")
	}
	switch os.Args[1] {
	case "adapters":
		fmt.Println(strings.Join(engine.Names(), "\n"))
	case "drive":
		if len(os.Args) < 3 {
			die(2, "usage: vh drive <driver> [args]")
		}
		d, ok := engine.LookupDriver(os.Args[2])
		if !ok {
			die(2, "unknown driver %s (have %s)", os.Args[2], strings.Join(engine.DriverNames(), " "))
		}
		if err := d(os.Args[3:]); err != nil {
			die(2, "driver %s: %v", os.Args[2], err)
		}
	case "tours":
		fs := flag.NewFlagSet("tours", flag.ExitOnError)
		graph := fs.String("graph", "", "TLC dot dump (-dump dot,actionlabels)")
		sim := fs.String("sim", "", "glob of TLC -simulate files")
		out := fs.String("out", "beh", "output prefix (<prefix>.<shard>.beh)")
		shards := fs.Int("shards", 1, "number of behaviour files")
		chunk := fs.Int("chunk", 0, "max behaviours per file (0 = unlimited): more files than -shards when needed")
		seed := fs.Int64("seed", 1, "seed")
		maxlen := fs.Int("maxlen", 40, "max steps per behaviour (graph tours)")
		limit := fs.Int("limit", 0, "max behaviours (0 = all; a seeded sample otherwise)")
		fs.Parse(os.Args[2:])
		var behs []engine.Behaviour
		var nodes, edges int
		if *graph != "" {
			g, err := tla.LoadDot(*graph)
			if err != nil {
				die(2, "load graph: %v", err)
			}
			nodes, edges = len(g.IDs), len(g.Edges)
			behs = engine.Tours(g, *seed, *maxlen)
		} else {
			var err error
			behs, err = engine.SimBehaviours(*sim)
			if err != nil {
				die(2, "load sim: %v", err)
			}
		}
		total := len(behs)
		if *limit > 0 && len(behs) > *limit {
			rng := rand.New(rand.NewSource(*seed))
			rng.Shuffle(len(behs), func(i, j int) { behs[i], behs[j] = behs[j], behs[i] })
			behs = behs[:*limit]
		}
		nfiles := *shards
		if *chunk > 0 && (len(behs)+*chunk-1) / *chunk > nfiles {
			nfiles = (len(behs) + *chunk - 1) / *chunk
		}
		if _, err := engine.WriteBehaviours(*out, behs, nfiles); err != nil {
			die(2, "write behaviours: %v", err)
		}
		b, _ := json.Marshal(map[string]int{"graph_nodes": nodes, "graph_edges": edges, "behaviours_total": total, "behaviours_selected": len(behs), "files": nfiles})
		fmt.Println(string(b))
	case "replay":
		fs := flag.NewFlagSet("replay", flag.ExitOnError)
		adapter := fs.String("adapter", "", "adapter name")
		graph := fs.String("graph", "", "TLC dot dump (-dump dot,actionlabels)")
		sim := fs.String("sim", "", "glob of TLC -simulate files")
		behFile := fs.String("beh", "", "behaviour file written by vh tours")
		out := fs.String("out", "trace.ndjson", "trace output")
		summary := fs.String("summary", "", "summary json output")
		shard := fs.String("shard", "0/1", "i/n")
		seed := fs.Int64("seed", 1, "seed")
		maxlen := fs.Int("maxlen", 40, "max steps per behaviour (graph tours)")
		limit := fs.Int("limit", 0, "max behaviours over all shards (0 = all)")
		fs.Parse(os.Args[2:])
		var behs []engine.Behaviour
		var nodes, edges int
		if *behFile != "" {
			bs, index, err := engine.ReadBehaviours(*behFile)
			if err != nil {
				die(2, "read behaviours: %v", err)
			}
			sum, err := engine.RunIndexed(*adapter, bs, index, 0, 1, *out)
			if err != nil {
				die(2, "replay: %v", err)
			}
			b, _ := json.MarshalIndent(sum, "", " ")
			if *summary != "" {
				os.WriteFile(*summary, b, 0644)
			} else {
				fmt.Println(string(b))
			}
			return
		} else if *graph != "" {
			g, err := tla.LoadDot(*graph)
			if err != nil {
				die(2, "load graph: %v", err)
			}
			nodes, edges = len(g.IDs), len(g.Edges)
			behs = engine.Tours(g, *seed, *maxlen)
		} else if *sim != "" {
			var err error
			behs, err = engine.SimBehaviours(*sim)
			if err != nil {
				die(2, "load sim: %v", err)
			}
		} else {
			die(2, "need -graph or -sim")
		}
		total := len(behs)
		if *limit > 0 && len(behs) > *limit {
			// a seeded sample of the behaviours
			rng := rand.New(rand.NewSource(*seed))
			rng.Shuffle(len(behs), func(i, j int) { behs[i], behs[j] = behs[j], behs[i] })
			behs = behs[:*limit]
		}
		parts := strings.Split(*shard, "/")
		si, _ := strconv.Atoi(parts[0])
		sn, _ := strconv.Atoi(parts[1])
		sum, err := engine.Run(*adapter, behs, si, sn, *out)
		if err != nil {
			die(2, "replay: %v", err)
		}
		sum.GraphNodes, sum.GraphEdges = nodes, edges
		m := map[string]interface{}{}
		b, _ := json.Marshal(sum)
		json.Unmarshal(b, &m)
		m["behaviours_total"] = total
		m["behaviours_selected"] = len(behs)
		b, _ = json.MarshalIndent(m, "", " ")
		if *summary != "" {
			os.WriteFile(*summary, b, 0644)
		} else {
			fmt.Println(string(b))
		}
	default:
		die(2, "unknown command %s", os.Args[1])
	}
}
