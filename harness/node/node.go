// Package node assembles real lemochain-core nodes (store, deputy manager, account manager, tx pool,
// tx guard, DPoVP engine) exactly as chain.NewBlockChain does, on a deterministic genesis with k deputy
// keys, and builds valid blocks for any deputy with the real BlockAssembler.  Shared by the
// consensus / ledger / sync adapters.
package node

import (
	"crypto/ecdsa"
	"fmt"
	"math/big"
	"os"

	"github.com/LemoFoundationLtd/lemochain-core/chain"
	"github.com/LemoFoundationLtd/lemochain-core/chain/account"
	"github.com/LemoFoundationLtd/lemochain-core/chain/consensus"
	"github.com/LemoFoundationLtd/lemochain-core/chain/deputynode"
	"github.com/LemoFoundationLtd/lemochain-core/chain/transaction"
	"github.com/LemoFoundationLtd/lemochain-core/chain/txpool"
	"github.com/LemoFoundationLtd/lemochain-core/chain/types"
	"github.com/LemoFoundationLtd/lemochain-core/common"
	"github.com/LemoFoundationLtd/lemochain-core/common/crypto"
	"github.com/LemoFoundationLtd/lemochain-core/common/flag"
	"github.com/LemoFoundationLtd/lemochain-core/common/rlp"
	"github.com/LemoFoundationLtd/lemochain-core/store"
)

const (
	ChainID     = 200
	GenesisTime = 1600000000 // fixed and far in the past: no verdict depends on the wall clock
)

// World is the deterministic universe of keys shared by every node of a scenario.
type World struct {
	N           int
	Keys        []*ecdsa.PrivateKey // deputy node keys, rank order
	Miners      []common.Address    // deputy miner addresses
	NodeIDs     [][]byte
	Outsider    *ecdsa.PrivateKey // a key that is not a deputy
	FounderKey  *ecdsa.PrivateKey
	Founder     common.Address
	TimeoutMs   uint64 // slot length
	GenesisTime uint32
}

func detKey(tag byte, i int) *ecdsa.PrivateKey {
	b := make([]byte, 32)
	b[0] = 0x11
	b[1] = tag
	b[30] = byte(i >> 8)
	b[31] = byte(i + 1)
	k, err := crypto.ToECDSA(b)
	if err != nil {
		panic(err)
	}
	return k
}

// NewWorld creates n deputies with deterministic keys; slot length timeoutMs (a whole number of seconds).
func NewWorld(n int, timeoutMs uint64) *World {
	w := &World{N: n, TimeoutMs: timeoutMs, GenesisTime: GenesisTime}
	for i := 0; i < n; i++ {
		k := detKey(0xd0, i)
		w.Keys = append(w.Keys, k)
		w.Miners = append(w.Miners, crypto.PubkeyToAddress(detKey(0xa0, i).PublicKey))
		w.NodeIDs = append(w.NodeIDs, crypto.PrivateKeyToNodeID(k))
	}
	w.Outsider = detKey(0xee, 0)
	w.FounderKey = detKey(0xf0, 0)
	w.Founder = crypto.PubkeyToAddress(w.FounderKey.PublicKey)
	return w
}

func (w *World) Genesis() *chain.Genesis {
	g := &chain.Genesis{Time: w.GenesisTime, ExtraData: "verif", GasLimit: 105000000, Founder: w.Founder}
	for i := 0; i < w.N; i++ {
		g.DeputyNodesInfo = append(g.DeputyNodesInfo, &chain.CandidateInfo{
			MinerAddress: w.Miners[i], IncomeAddress: w.Miners[i], NodeID: w.NodeIDs[i],
			Host: "127.0.0.1", Port: fmt.Sprintf("%d", 7001+i), Introduction: fmt.Sprintf("deputy %d", i)})
	}
	return g
}

// DeputyOf maps a recovered node id to the deputy rank, -1 for anyone else.
func (w *World) DeputyOf(nodeID []byte) int {
	for i, id := range w.NodeIDs {
		if string(id) == string(nodeID) {
			return i
		}
	}
	return -1
}

// Sign signs hash with key; variant 1 is the s -> n-s re-encoding that recovers to the same signer.
func Sign(hash common.Hash, key *ecdsa.PrivateKey, variant int) types.SignData {
	sig, err := crypto.Sign(hash[:], key)
	if err != nil {
		panic(err)
	}
	if variant == 1 {
		n := crypto.S256().Params().N
		s := new(big.Int).SetBytes(sig[32:64])
		s.Sub(n, s)
		sb := s.Bytes()
		out := make([]byte, 65)
		copy(out[:32], sig[:32])
		copy(out[64-len(sb):64], sb)
		out[64] = sig[64] ^ 1
		sig = out
	}
	return types.BytesToSignData(sig)
}

// Node is one real node.
type Node struct {
	W       *World
	Dir     string
	DB      *store.ChainDatabase
	DM      *deputynode.Manager
	AM      *account.Manager
	Pool    *txpool.TxPool
	Guard   *txpool.TxGuard
	DP      *consensus.DPoVP
	Genesis *types.Block
	BC      *chain.BlockChain
	Proc    *transaction.TxProcessor
	Asm     *consensus.BlockAssembler
}

type parentLoader struct{ db *store.ChainDatabase }

// GetParentByHeight mirrors chain.BlockChain.GetParentByHeight.
func (l parentLoader) GetParentByHeight(height uint32, son common.Hash) *types.Block {
	stable, err := l.db.LoadLatestBlock()
	if err != nil {
		return nil
	}
	var b *types.Block
	if height <= stable.Height() {
		b, err = l.db.GetBlockByHeight(height)
	} else {
		b, err = l.db.GetUnConfirmByHeight(height, son)
	}
	if err != nil {
		return nil
	}
	return b
}

// NewNode creates (or reopens, when the directory already holds a chain) a node in dir.
func (w *World) NewNode(dir string) *Node {
	if err := os.MkdirAll(dir, 0755); err != nil {
		panic(err)
	}
	n := &Node{W: w, Dir: dir}
	n.DB = store.NewChainDataBase(dir)
	if stable, err := n.DB.LoadLatestBlock(); err == nil && stable != nil {
		g, err := n.DB.GetBlockByHeight(0)
		if err != nil {
			panic(err)
		}
		n.Genesis = g
	} else {
		n.Genesis = chain.SetupGenesisBlock(n.DB, w.Genesis())
	}
	// the real constructor, so that start-up code (replay-guard reload in initTxPool, ...) is the node's own
	n.DM = deputynode.NewManager(w.N, n.DB)
	n.Pool = txpool.NewTxPool()
	bc, err := chain.NewBlockChain(chain.Config{ChainID: ChainID, MineTimeout: w.TimeoutMs}, n.DM, n.DB, flag.CmdFlags{}, n.Pool)
	if err != nil {
		panic(err)
	}
	n.BC = bc
	n.AM = bc.AccountManager()
	n.Guard = bc.TxGuard()
	n.DP = bc.VerifEngine()
	n.Proc = transaction.NewTxProcessor(w.Founder, ChainID, bc, n.AM, n.DB, n.DM)
	n.Asm = consensus.NewBlockAssembler(n.AM, n.DM, n.Proc, n.DP)
	return n
}

func (n *Node) Close() {
	if n.BC != nil {
		n.BC.Stop()
		n.BC = nil
	}
	if n.DB != nil {
		n.DB.Close()
		n.DB = nil
	}
}

// Destroy closes the node and removes its directory.
func (n *Node) Destroy() {
	n.Close()
	os.RemoveAll(n.Dir)
}

// Build assembles, with the real BlockAssembler on this node's own state, a valid block on parent mined by
// deputy minerRank in its first slot after the parent plus `rounds` whole rotations, signs it with that
// deputy's key, and stores it in this (builder) node's database so that children can be built on it.
// The returned block carries no confirms.  invalid = transactions the miner discarded.
func (n *Node) Build(parent *types.Block, minerRank int, rounds int, txs types.Transactions, extra string) (*types.Block, types.Transactions, error) {
	return n.BuildWith(parent, minerRank, rounds, txs, extra, nil, true)
}

// BuildWith is Build with a header tweak applied before the real assembler executes and seals the block (so every
// root is consistent with the tweaked header); keep=false does not store the block in the builder's database.
func (n *Node) BuildWith(parent *types.Block, minerRank int, rounds int, txs types.Transactions, extra string, tweak func(h *types.Header), keep bool) (*types.Block, types.Transactions, error) {
	w := n.W
	height := parent.Height() + 1
	dist, err := n.DM.GetMinerDistance(height, parent.MinerAddress(), w.Miners[minerRank])
	if err != nil {
		return nil, nil, fmt.Errorf("distance: %v", err)
	}
	slotSec := uint32(w.TimeoutMs / 1000)
	t := parent.Time() + (uint32(dist)-1+uint32(rounds*w.N))*slotSec
	header := &types.Header{ParentHash: parent.Hash(), MinerAddress: w.Miners[minerRank], Height: height,
		GasLimit: parent.GasLimit(), Time: t, Extra: extra}
	if tweak != nil {
		tweak(header)
	}
	block, invalid, err := n.Asm.MineBlock(header, txs, 1000000)
	if err != nil {
		return nil, invalid, err
	}
	sig := Sign(block.Hash(), w.Keys[minerRank], 0)
	block.Header.SignData = sig[:]
	if !keep {
		return block, invalid, nil
	}
	if err := n.DB.SetBlock(block.Hash(), block); err != nil {
		return nil, invalid, fmt.Errorf("builder SetBlock: %v", err)
	}
	if err := n.AM.Save(block.Hash()); err != nil {
		return nil, invalid, fmt.Errorf("builder Save: %v", err)
	}
	return block, invalid, nil
}

// Copy returns what a peer would receive: the block decoded from its RLP encoding, carrying the given confirms.
func Copy(b *types.Block, confirms []types.SignData) *types.Block {
	buf, err := rlp.EncodeToBytes(b)
	if err != nil {
		panic(err)
	}
	nb := new(types.Block)
	if err := rlp.DecodeBytes(buf, nb); err != nil {
		panic(err)
	}
	nb.Confirms = append([]types.SignData(nil), confirms...)
	return nb
}

// Signers returns the distinct deputy ranks (-1 for non-deputies) recovered from the confirms stored with b.
func (w *World) Signers(b *types.Block) (ranks []int, raw int) {
	seen := map[int]bool{}
	for _, c := range b.Confirms {
		id, err := c.RecoverNodeID(b.Hash())
		r := -1
		if err == nil {
			r = w.DeputyOf(id)
		}
		if !seen[r] {
			seen[r] = true
			ranks = append(ranks, r)
		}
	}
	return ranks, len(b.Confirms)
}

// Outsider2 is a second non-deputy key, used as the identity of an observer node.
func (w *World) Outsider2() *ecdsa.PrivateKey { return detKey(0xee, 1) }
